import PB.Model.Log
import PB.Spec.Log
/-
Helper lemmas for C20 (PB.Model.Log): the invariant of the producer/writer protocol and its
preservation by every action.
-/
namespace PB.Log

/-! ### Pure facts -/

/-- What the regenerated `Equal` must be: two lines are identified exactly when neither was submitted by a
    context tracer and message, file, line and level agree. Proved by unfolding `PB.Gen.Log.lineEqual`:
    a changed operator (`||` → `&&`), a dropped or added case in logging.go breaks this proof. -/
theorem equal_iff (a b : Line) :
    a.equal b = true ↔
      (a.trace = none ∧ b.trace = none ∧ a.msg = b.msg ∧ a.file = b.file ∧ a.line = b.line ∧ a.lvl = b.lvl) := by
  unfold Line.equal PB.Gen.Log.lineEqual Line.key
  cases a with | mk am al af an at_ =>
  cases b with | mk bm bl bf bn bt =>
  cases at_ <;> cases bt <;> simp <;> grind

theorem equal_eq {a b : Line} (h : a.equal b = true) : a = b := by
  have := (equal_iff a b).mp h
  cases a; cases b; simp_all

theorem equal_self_of_plain (a : Line) (h : a.trace = none) : a.equal a = true := by
  rw [equal_iff]; simp [h]

theorem expand_append (a b : List Write) : expand (a ++ b) = expand a ++ expand b := by
  induction a with
  | nil => rfl
  | cons x xs ih => cases x; simp [expand, ih]

theorem expand_single (l : Line) (d : Nat) : expand [(l, d)] = List.replicate (d + 1) l := by
  simp [expand]

theorem proj_append (p : Nat) (a b : List Owned) : proj p (a ++ b) = proj p a ++ proj p b := by
  simp [proj]

theorem proj_single_self (p : Nat) (l : Line) : proj p [(p, l)] = [l] := by simp [proj]

theorem proj_single_other {p q : Nat} (l : Line) (h : q ≠ p) : proj p [(q, l)] = [] := by
  simp [proj, h]

/-! ### The writeLoop merges, never loses -/

/-- Generalised merge/expand law for a writeLoop that starts in any state of the loop. -/
theorem drainBatch_expand (ls : List Line) : ∀ (cur : Option Line) (dups : Nat), (cur = none → dups = 0) →
    let r := drainBatch { pc := .drain, cur := cur, dups := dups } ls
    expand r.2 ++ r.1.pending = ({ pc := .drain, cur := cur, dups := dups } : Writer).pending ++ ls ∧
    r.1.pc = .drain ∧ (r.1.cur = none → r.1.dups = 0) := by
  induction ls with
  | nil => intro cur dups hz; simp [drainBatch, expand]; exact hz
  | cons l ls ih =>
    intro cur dups hz
    cases cur with
    | none =>
      have hd : dups = 0 := hz rfl
      subst hd
      have := ih (some l) 0 (by simp)
      simp only [drainBatch, wstep, if_true] at this ⊢
      obtain ⟨a, b, c⟩ := this
      refine ⟨?_, b, c⟩
      simp [expand] at a ⊢
      rw [a]; simp [Writer.pending]
    | some c =>
      by_cases he : l.equal c = true
      · have hlc := equal_eq he
        have := ih (some c) (dups + 1) (by simp)
        simp only [drainBatch, wstep, if_true, he] at this ⊢
        obtain ⟨a, b, c'⟩ := this
        refine ⟨?_, b, c'⟩
        simp [expand] at a ⊢
        rw [a]; subst hlc; simp only [Writer.pending]; rw [List.replicate_succ' (n := dups + 1)]; simp
      · have := ih (some l) 0 (by simp)
        simp only [drainBatch, wstep, if_true, he] at this ⊢
        obtain ⟨a, b, c'⟩ := this
        refine ⟨?_, b, c'⟩
        simp [expand_append, expand] at a ⊢
        rw [a]; simp [Writer.pending]

/-! ### The protocol invariant

* `d1 d2 p1 cp`: data — what was dequeued plus what is buffered is what was enqueued; the adapter output,
  expanded, plus what the writer still holds is what was dequeued; per goroutine, what it enqueued plus
  what it still holds is what it logged (in program order); the buffer respects its capacity.
* `f1`–`f5`: the wake-up handshake — `logsWaitingFlag` is set exactly while one wake-up is in flight
  (a producer about to send the token, the token in the channel, or the writer about to clear the flag).
* `nl`: no lost wake-up. `wc wz`: the writer holds a line only inside the writeLoop.
* `sh es sd`: shutdown bookkeeping.
-/
structure Inv (s : St) : Prop where
  d1 : s.deq ++ s.buf = s.enq
  d2 : expand s.out ++ s.w.pending = s.deq.map (·.2)
  p1 : ∀ p, proj p s.enq ++ (s.prods p).pending = s.logged p
  cp : s.buf.length ≤ s.cap
  f1 : s.flag = false → s.token = false ∧ s.w.pc ≠ .gotToken ∧ ∀ p, s.prods p ≠ .won
  f2 : s.token = true → s.w.pc ≠ .gotToken ∧ ∀ p, s.prods p ≠ .won
  f3 : s.w.pc = .gotToken → ∀ p, s.prods p ≠ .won
  f4 : ∀ p q, s.prods p = .won → s.prods q = .won → p = q
  f5 : s.flag = true → s.token = true ∨ s.w.pc = .gotToken ∨ ∃ p, s.prods p = .won
  nl : (s.w.pc = .waitLogs ∨ s.w.pc = .backoff) → s.buf ≠ [] → s.flag = true ∨ ∃ p, s.prods p = .sent
  wc : s.w.pc ≠ .drain → s.w.cur = none
  wz : s.w.cur = none → s.w.dups = 0
  sh : (s.w.pc = .fin ∨ s.w.pc = .done) → s.shut = true
  es : s.shut = true → s.enqAtShut ≤ s.enq.length
  sd : s.w.pc = .done → s.enqAtShut ≤ s.deq.length

theorem inv_init (cap paced lv) : Inv (St.init cap paced lv) := by
  constructor <;> simp [St.init, Writer.init, Writer.pending, expand, proj, PState.pending]


macro "inv_open" hs:ident : tactic => `(tactic| (
  simp only [step, St.accept, St.push] at $hs:ident
  (repeat' split at $hs:ident) <;> (try cases $hs:ident) <;> (try simp only [])))


theorem proj_single (p q : Nat) (l : Line) : proj p [(q, l)] = if q = p then [l] else [] := by
  by_cases h : q = p <;> simp [proj, h]

theorem inv_p_call {s s' : St} {pid l pkg pass} (hi : Inv s) (hs : step s (.p pid (.call l pkg pass)) = some s') : Inv s' := by
  inv_open hs
  all_goals (obtain ⟨d1,d2,p1,cp,f1,f2,f3,f4,f5,nl,wc,wz,sh,es,sd⟩ := hi; constructor <;> (try simp only [upd]))
  all_goals grind [PState.pending, Writer.pending, expand_append, proj_append, expand_single, equal_eq, List.replicate_succ', proj_single]

theorem inv_p_filter {s s' : St} {pid pass} (hi : Inv s) (hs : step s (.p pid (.filter pass)) = some s') : Inv s' := by
  inv_open hs
  all_goals (obtain ⟨d1,d2,p1,cp,f1,f2,f3,f4,f5,nl,wc,wz,sh,es,sd⟩ := hi; constructor <;> (try simp only [upd]))
  all_goals grind [PState.pending, Writer.pending, expand_append, proj_append, expand_single, equal_eq, List.replicate_succ', proj_single]

theorem inv_p_submit {s s' : St} {pid l} (hi : Inv s) (hs : step s (.p pid (.submit l)) = some s') : Inv s' := by
  inv_open hs
  all_goals (obtain ⟨d1,d2,p1,cp,f1,f2,f3,f4,f5,nl,wc,wz,sh,es,sd⟩ := hi; constructor <;> (try simp only [upd]))
  all_goals grind [PState.pending, Writer.pending, expand_append, proj_append, expand_single, equal_eq, List.replicate_succ', proj_single]

theorem inv_p_enq {s s' : St} {pid} (hi : Inv s) (hs : step s (.p pid .enq) = some s') : Inv s' := by
  inv_open hs
  all_goals (obtain ⟨d1,d2,p1,cp,f1,f2,f3,f4,f5,nl,wc,wz,sh,es,sd⟩ := hi; constructor <;> (try simp only [upd]))
  all_goals grind [PState.pending, Writer.pending, expand_append, proj_append, expand_single, equal_eq, List.replicate_succ', proj_single]

theorem inv_p_full {s s' : St} {pid} (hi : Inv s) (hs : step s (.p pid .full) = some s') : Inv s' := by
  inv_open hs
  all_goals (obtain ⟨d1,d2,p1,cp,f1,f2,f3,f4,f5,nl,wc,wz,sh,es,sd⟩ := hi; constructor <;> (try simp only [upd]))
  all_goals grind [PState.pending, Writer.pending, expand_append, proj_append, expand_single, equal_eq, List.replicate_succ', proj_single]

theorem inv_p_enqB {s s' : St} {pid} (hi : Inv s) (hs : step s (.p pid .enqB) = some s') : Inv s' := by
  inv_open hs
  all_goals (obtain ⟨d1,d2,p1,cp,f1,f2,f3,f4,f5,nl,wc,wz,sh,es,sd⟩ := hi; constructor <;> (try simp only [upd]))
  all_goals grind [PState.pending, Writer.pending, expand_append, proj_append, expand_single, equal_eq, List.replicate_succ', proj_single]

theorem inv_p_flag {s s' : St} {pid won} (hi : Inv s) (hs : step s (.p pid (.flag won)) = some s') : Inv s' := by
  inv_open hs
  all_goals (obtain ⟨d1,d2,p1,cp,f1,f2,f3,f4,f5,nl,wc,wz,sh,es,sd⟩ := hi; constructor <;> (try simp only [upd]))
  all_goals grind [PState.pending, Writer.pending, expand_append, proj_append, expand_single, equal_eq, List.replicate_succ', proj_single]

theorem inv_p_tok {s s' : St} {pid} (hi : Inv s) (hs : step s (.p pid .tok) = some s') : Inv s' := by
  inv_open hs
  all_goals (obtain ⟨d1,d2,p1,cp,f1,f2,f3,f4,f5,nl,wc,wz,sh,es,sd⟩ := hi; constructor <;> (try simp only [upd]))
  all_goals grind [PState.pending, Writer.pending, expand_append, proj_append, expand_single, equal_eq, List.replicate_succ', proj_single]

theorem inv_p_tokFull {s s' : St} {pid} (hi : Inv s) (hs : step s (.p pid .tokFull) = some s') : Inv s' := by
  inv_open hs
  all_goals (obtain ⟨d1,d2,p1,cp,f1,f2,f3,f4,f5,nl,wc,wz,sh,es,sd⟩ := hi; constructor <;> (try simp only [upd]))
  all_goals grind [PState.pending, Writer.pending, expand_append, proj_append, expand_single, equal_eq, List.replicate_succ', proj_single]

theorem inv_w_token {s s' : St} (hi : Inv s) (hs : step s (.w .token) = some s') : Inv s' := by
  inv_open hs
  all_goals (obtain ⟨d1,d2,p1,cp,f1,f2,f3,f4,f5,nl,wc,wz,sh,es,sd⟩ := hi; constructor <;> (try simp only [upd]))
  all_goals grind [PState.pending, Writer.pending, expand_append, proj_append, expand_single, equal_eq, List.replicate_succ', proj_single]

theorem inv_w_unset {s s' : St} (hi : Inv s) (hs : step s (.w .unset) = some s') : Inv s' := by
  inv_open hs
  all_goals (obtain ⟨d1,d2,p1,cp,f1,f2,f3,f4,f5,nl,wc,wz,sh,es,sd⟩ := hi; constructor <;> (try simp only [upd]))
  all_goals grind [PState.pending, Writer.pending, expand_append, proj_append, expand_single, equal_eq, List.replicate_succ', proj_single]

theorem inv_wforce {s s' : St} {pid} (hi : Inv s) (hs : step s (.wforce pid) = some s') : Inv s' := by
  inv_open hs
  all_goals (obtain ⟨d1,d2,p1,cp,f1,f2,f3,f4,f5,nl,wc,wz,sh,es,sd⟩ := hi; constructor <;> (try simp only [upd]))
  all_goals grind [PState.pending, Writer.pending, expand_append, proj_append, expand_single, equal_eq, List.replicate_succ', proj_single]

theorem inv_w_slot {s s' : St} (hi : Inv s) (hs : step s (.w .slot) = some s') : Inv s' := by
  inv_open hs
  all_goals (obtain ⟨d1,d2,p1,cp,f1,f2,f3,f4,f5,nl,wc,wz,sh,es,sd⟩ := hi; constructor <;> (try simp only [upd]))
  all_goals grind [PState.pending, Writer.pending, expand_append, proj_append, expand_single, equal_eq, List.replicate_succ', proj_single]

theorem inv_trigger {s s' : St} (hi : Inv s) (hs : step s .trigger = some s') : Inv s' := by
  inv_open hs
  all_goals (obtain ⟨d1,d2,p1,cp,f1,f2,f3,f4,f5,nl,wc,wz,sh,es,sd⟩ := hi; constructor <;> (try simp only [upd]))
  all_goals grind [PState.pending, Writer.pending, expand_append, proj_append, expand_single, equal_eq, List.replicate_succ', proj_single]

theorem inv_w_shut {s s' : St} (hi : Inv s) (hs : step s (.w .shut) = some s') : Inv s' := by
  inv_open hs
  all_goals (obtain ⟨d1,d2,p1,cp,f1,f2,f3,f4,f5,nl,wc,wz,sh,es,sd⟩ := hi; constructor <;> (try simp only [upd]))
  all_goals grind [PState.pending, Writer.pending, expand_append, proj_append, expand_single, equal_eq, List.replicate_succ', proj_single]

theorem inv_w_deq {s s' : St} {l} (hi : Inv s) (hs : step s (.w (.deq l)) = some s') : Inv s' := by
  inv_open hs
  all_goals (obtain ⟨d1,d2,p1,cp,f1,f2,f3,f4,f5,nl,wc,wz,sh,es,sd⟩ := hi; constructor <;> (try simp only [upd]))
  all_goals grind [PState.pending, Writer.pending, expand_append, proj_append, expand_single, equal_eq, List.replicate_succ', proj_single]

theorem inv_w_empty {s s' : St} (hi : Inv s) (hs : step s (.w .empty) = some s') : Inv s' := by
  inv_open hs
  all_goals (obtain ⟨d1,d2,p1,cp,f1,f2,f3,f4,f5,nl,wc,wz,sh,es,sd⟩ := hi; constructor <;> (try simp only [upd]))
  all_goals grind [PState.pending, Writer.pending, expand_append, proj_append, expand_single, equal_eq, List.replicate_succ', proj_single]

theorem inv_w_timer {s s' : St} (hi : Inv s) (hs : step s (.w .timer) = some s') : Inv s' := by
  inv_open hs
  all_goals (obtain ⟨d1,d2,p1,cp,f1,f2,f3,f4,f5,nl,wc,wz,sh,es,sd⟩ := hi; constructor <;> (try simp only [upd]))
  all_goals grind [PState.pending, Writer.pending, expand_append, proj_append, expand_single, equal_eq, List.replicate_succ', proj_single]

theorem inv_w_fdeq {s s' : St} {l} (hi : Inv s) (hs : step s (.w (.fdeq l)) = some s') : Inv s' := by
  inv_open hs
  all_goals (obtain ⟨d1,d2,p1,cp,f1,f2,f3,f4,f5,nl,wc,wz,sh,es,sd⟩ := hi; constructor <;> (try simp only [upd]))
  all_goals grind [PState.pending, Writer.pending, expand_append, proj_append, expand_single, equal_eq, List.replicate_succ', proj_single]

theorem inv_w_ftimeout {s s' : St} (hi : Inv s) (hs : step s (.w .ftimeout) = some s') : Inv s' := by
  inv_open hs
  all_goals (obtain ⟨d1,d2,p1,cp,f1,f2,f3,f4,f5,nl,wc,wz,sh,es,sd⟩ := hi; constructor <;> (try simp only [upd]))
  all_goals grind [PState.pending, Writer.pending, expand_append, proj_append, expand_single, equal_eq, List.replicate_succ', proj_single]

theorem inv_setLevel {s s' : St} {g} (hi : Inv s) (hs : step s (.setLevel g) = some s') : Inv s' := by
  inv_open hs
  all_goals (obtain ⟨d1,d2,p1,cp,f1,f2,f3,f4,f5,nl,wc,wz,sh,es,sd⟩ := hi; constructor <;> (try simp only [upd]))
  all_goals grind [PState.pending, Writer.pending, expand_append, proj_append, expand_single, equal_eq, List.replicate_succ', proj_single]

theorem inv_setPkgs {s s' : St} {m} (hi : Inv s) (hs : step s (.setPkgs m) = some s') : Inv s' := by
  inv_open hs
  all_goals (obtain ⟨d1,d2,p1,cp,f1,f2,f3,f4,f5,nl,wc,wz,sh,es,sd⟩ := hi; constructor <;> (try simp only [upd]))
  all_goals grind [PState.pending, Writer.pending, expand_append, proj_append, expand_single, equal_eq, List.replicate_succ', proj_single]

theorem inv_unsetPkgs {s s' : St} (hi : Inv s) (hs : step s .unsetPkgs = some s') : Inv s' := by
  inv_open hs
  all_goals (obtain ⟨d1,d2,p1,cp,f1,f2,f3,f4,f5,nl,wc,wz,sh,es,sd⟩ := hi; constructor <;> (try simp only [upd]))
  all_goals grind [PState.pending, Writer.pending, expand_append, proj_append, expand_single, equal_eq, List.replicate_succ', proj_single]

theorem inv_shutdown {s s' : St} (hi : Inv s) (hs : step s .shutdown = some s') : Inv s' := by
  inv_open hs
  all_goals (obtain ⟨d1,d2,p1,cp,f1,f2,f3,f4,f5,nl,wc,wz,sh,es,sd⟩ := hi; constructor <;> (try simp only [upd]))
  all_goals grind [PState.pending, Writer.pending, expand_append, proj_append, expand_single, equal_eq, List.replicate_succ', proj_single]

theorem inv_addTracer {s s' : St} {pid pkg live} (hi : Inv s) (hs : step s (.addTracer pid pkg live) = some s') : Inv s' := by
  inv_open hs
  all_goals (obtain ⟨d1,d2,p1,cp,f1,f2,f3,f4,f5,nl,wc,wz,sh,es,sd⟩ := hi; constructor <;> (try simp only [upd]))
  all_goals grind [PState.pending, Writer.pending, expand_append, proj_append, expand_single, equal_eq, List.replicate_succ', proj_single]

theorem inv_collect {s s' : St} {pid e pkg} (hi : Inv s) (hs : step s (.collect pid e pkg) = some s') : Inv s' := by
  inv_open hs
  all_goals (obtain ⟨d1,d2,p1,cp,f1,f2,f3,f4,f5,nl,wc,wz,sh,es,sd⟩ := hi; constructor <;> (try simp only [upd]))
  all_goals grind [PState.pending, Writer.pending, expand_append, proj_append, expand_single, equal_eq, List.replicate_succ', proj_single]

theorem inv_step {s s' : St} {a : Act} (hi : Inv s) (hs : step s a = some s') : Inv s' := by
  cases a with
  | p pid e =>
    cases e with
    | call l pkg pass => exact inv_p_call hi hs
    | filter pass => exact inv_p_filter hi hs
    | submit l => exact inv_p_submit hi hs
    | enq => exact inv_p_enq hi hs
    | full => exact inv_p_full hi hs
    | forced => simp [step] at hs
    | enqB => exact inv_p_enqB hi hs
    | flag won => exact inv_p_flag hi hs
    | tok => exact inv_p_tok hi hs
    | tokFull => exact inv_p_tokFull hi hs
  | w e =>
    cases e with
    | token => exact inv_w_token hi hs
    | unset => exact inv_w_unset hi hs
    | force => simp [step] at hs
    | slot => exact inv_w_slot hi hs
    | shut => exact inv_w_shut hi hs
    | deq l => exact inv_w_deq hi hs
    | empty => exact inv_w_empty hi hs
    | timer => exact inv_w_timer hi hs
    | fdeq l => exact inv_w_fdeq hi hs
    | ftimeout => exact inv_w_ftimeout hi hs
  | addTracer pid pkg live => exact inv_addTracer hi hs
  | collect pid e pkg => exact inv_collect hi hs
  | wforce pid => exact inv_wforce hi hs
  | trigger => exact inv_trigger hi hs
  | setLevel g => exact inv_setLevel hi hs
  | setPkgs m => exact inv_setPkgs hi hs
  | unsetPkgs => exact inv_unsetPkgs hi hs
  | shutdown => exact inv_shutdown hi hs

theorem inv_reachable {s : St} (h : Reachable s) : Inv s := by
  induction h with
  | init cap paced lv => exact inv_init cap paced lv
  | step _ hs ih => exact inv_step ih hs

/-! ### Tracer submissions are never part of a merge

`t1`: while the writer counts repetitions, the line it holds is a plain line; `t2`: no adapter write of a
tracer line carries a repetition count. Both rest on `equal_iff`, i.e. on the regenerated `Equal`. -/
structure TrInv (s : St) : Prop where
  t0 : s.w.cur = none → s.w.dups = 0
  t1 : ∀ c, s.w.cur = some c → 0 < s.w.dups → c.trace = none
  t2 : ∀ w ∈ s.out, w.1.trace.isSome = true → w.2 = 0

theorem trinv_init (cap paced lv) : TrInv (St.init cap paced lv) := by
  constructor <;> simp [St.init, Writer.init]

theorem trinv_of_frame {s s' : St} (hi : TrInv s) (hc : s'.w.cur = s.w.cur) (hd : s'.w.dups = s.w.dups)
    (ho : s'.out = s.out) : TrInv s' := by
  obtain ⟨t0, t1, t2⟩ := hi
  constructor
  · rw [hc, hd]; exact t0
  · rw [hc, hd]; exact t1
  · rw [ho]; exact t2

theorem trinv_step {s s' : St} {a : Act} (hi : TrInv s) (hs : step s a = some s') : TrInv s' := by
  cases a with
  | p pid e =>
    apply trinv_of_frame hi <;>
      (cases e <;> simp only [step, St.accept, St.push] at hs <;> (repeat' split at hs) <;> (try cases hs) <;> rfl)
  | wforce pid =>
    apply trinv_of_frame hi <;> (simp only [step] at hs; (repeat' split at hs) <;> (try cases hs) <;> rfl)
  | addTracer pid pkg live =>
    apply trinv_of_frame hi <;> (simp only [step] at hs; (repeat' split at hs) <;> (try cases hs) <;> rfl)
  | collect pid e pkg =>
    apply trinv_of_frame hi <;> (simp only [step] at hs; (repeat' split at hs) <;> (try cases hs) <;> rfl)
  | trigger =>
    apply trinv_of_frame hi <;> (simp only [step] at hs; (repeat' split at hs) <;> (try cases hs) <;> rfl)
  | setLevel g => simp only [step] at hs; cases hs; exact trinv_of_frame hi rfl rfl rfl
  | setPkgs m => simp only [step] at hs; cases hs; exact trinv_of_frame hi rfl rfl rfl
  | unsetPkgs => simp only [step] at hs; cases hs; exact trinv_of_frame hi rfl rfl rfl
  | shutdown =>
    apply trinv_of_frame hi <;> (simp only [step] at hs; (repeat' split at hs) <;> (try cases hs) <;> rfl)
  | w e =>
    obtain ⟨t0, t1, t2⟩ := hi
    cases e with
    | deq l =>
      simp only [step] at hs
      (repeat' split at hs) <;> (try cases hs)
      · rename_i hnone
        constructor
        · intro hc; simp at hc
        · intro c hc hd; simp only at hd; have := t0 hnone; omega
        · exact t2
      · rename_i c hcur heq
        have hq := (equal_iff l c).mp heq
        constructor
        · intro hc; simp only at hc; rw [hcur] at hc; cases hc
        · intro c' hc' _
          simp only at hc'
          have : c = c' := by rw [hcur] at hc'; exact Option.some.inj hc'
          subst this
          exact hq.2.1
        · exact t2
      · rename_i c hcur hne
        constructor
        · intro _; rfl
        · intro c' _ hd; simp at hd
        · intro w hw hts
          simp only [List.mem_append, List.mem_singleton] at hw
          rcases hw with hw | rfl
          · exact t2 w hw hts
          · cases hd : s.w.dups with
            | zero => rfl
            | succ n =>
              have := t1 c hcur (by omega)
              simp [this] at hts
    | empty =>
      simp only [step] at hs
      (repeat' split at hs) <;> (try cases hs)
      · constructor
        · intro _; rfl
        · intro c hc; simp at hc
        · exact t2
      · rename_i c hcur
        constructor
        · intro _; rfl
        · intro c' hc'; simp at hc'
        · intro w hw hts
          simp only [List.mem_append, List.mem_singleton] at hw
          rcases hw with hw | rfl
          · exact t2 w hw hts
          · cases hd : s.w.dups with
            | zero => rfl
            | succ n =>
              have := t1 c hcur (by omega)
              simp [this] at hts
    | fdeq l =>
      simp only [step] at hs
      (repeat' split at hs) <;> (try cases hs)
      constructor
      · exact t0
      · exact t1
      · intro w hw hts
        simp only [List.mem_append, List.mem_singleton] at hw
        rcases hw with hw | rfl
        · exact t2 w hw hts
        · rfl
    | token => simp only [step] at hs; (repeat' split at hs) <;> (try cases hs); exact ⟨t0, t1, t2⟩
    | unset => simp only [step] at hs; (repeat' split at hs) <;> (try cases hs); exact ⟨t0, t1, t2⟩
    | force => simp [step] at hs
    | slot => simp only [step] at hs; (repeat' split at hs) <;> (try cases hs); exact ⟨t0, t1, t2⟩
    | shut => simp only [step] at hs; (repeat' split at hs) <;> (try cases hs); exact ⟨t0, t1, t2⟩
    | timer => simp only [step] at hs; (repeat' split at hs) <;> (try cases hs); exact ⟨t0, t1, t2⟩
    | ftimeout => simp only [step] at hs; (repeat' split at hs) <;> (try cases hs); exact ⟨t0, t1, t2⟩

theorem trinv_reachable {s : St} (h : Reachable s) : TrInv s := by
  induction h with
  | init cap paced lv => exact trinv_init cap paced lv
  | step _ hs ih => exact trinv_step ih hs

/-- Expanding writes whose tracer lines carry no repetition count keeps every tracer line exactly once. -/
theorem expand_filter_tracer (ws : List Write) (h : ∀ w ∈ ws, w.1.trace.isSome = true → w.2 = 0) :
    (expand ws).filter (·.trace.isSome) = (ws.filter (·.1.trace.isSome)).map (·.1) := by
  induction ws with
  | nil => rfl
  | cons w ws ih =>
    obtain ⟨l, d⟩ := w
    have ih' := ih (fun w hw => h w (List.mem_cons_of_mem _ hw))
    by_cases ht : l.trace.isSome = true
    · have hd : d = 0 := h (l, d) List.mem_cons_self ht
      subst hd
      simp [expand, ht, ih']
    · simp [expand, ht, ih']

/-- One writeLoop round: no write of a tracer line carries a repetition count. -/
theorem drainBatch_tracer (ls : List Line) : ∀ (cur : Option Line) (dups : Nat),
    (cur = none → dups = 0) → (∀ c, cur = some c → 0 < dups → c.trace = none) →
    let r := drainBatch { pc := .drain, cur := cur, dups := dups } ls
    (∀ w ∈ r.2, w.1.trace.isSome = true → w.2 = 0) ∧ (r.1.cur = none → r.1.dups = 0) ∧
      (∀ c, r.1.cur = some c → 0 < r.1.dups → c.trace = none) ∧ r.1.pc = .drain := by
  induction ls with
  | nil => intro cur dups h0 h; simp [drainBatch]; exact ⟨h0, h⟩
  | cons l ls ih =>
    intro cur dups h0 h
    cases cur with
    | none =>
      have hd := h0 rfl
      subst hd
      have := ih (some l) 0 (by simp) (by intro c _ hd; omega)
      simpa only [drainBatch, wstep, if_true, List.nil_append] using this
    | some c =>
      by_cases he : l.equal c = true
      · have hq := (equal_iff l c).mp he
        have := ih (some c) (dups + 1) (by simp) (by intro c' hc' _; cases hc'; exact hq.2.1)
        simpa only [drainBatch, wstep, if_true, he, List.nil_append] using this
      · have := ih (some l) 0 (by simp) (by intro c _ hd; omega)
        simp only [drainBatch, wstep, if_true, he] at this ⊢
        obtain ⟨a, b⟩ := this
        refine ⟨?_, b⟩
        intro w hw hts
        simp only [Bool.false_eq_true, if_false, List.cons_append, List.nil_append, List.mem_cons] at hw
        rcases hw with rfl | hw
        · cases hd : dups with
          | zero => rfl
          | succ n =>
            have := h c rfl (by omega)
            simp [this] at hts
        · exact a w hw hts

theorem mergeRuns_tracer (ls : List Line) : ∀ w ∈ mergeRuns ls, w.1.trace.isSome = true → w.2 = 0 := by
  have h := drainBatch_tracer ls none 0 (by simp) (by intro c hc; cases hc)
  obtain ⟨a, b, c, d⟩ := h
  unfold mergeRuns
  simp only [wstep, d, if_true]
  generalize drainBatch { pc := .drain, cur := none, dups := 0 } ls = r at *
  cases hc : r.1.cur with
  | none => simpa using a
  | some x =>
    intro w hw hts
    simp only [List.mem_append, List.mem_singleton] at hw
    rcases hw with hw | rfl
    · exact a w hw hts
    · cases hd : r.1.dups with
      | zero => rfl
      | succ n =>
        have := c x hc (by omega)
        simp [this] at hts

/-! ### The run checker against its specification -/

theorem matches_iff (e : Item) (g : Got) : e.matches g = true ↔ (g.item = e.item ∧ e.formOk g = true) := by
  simp [Item.matches]

theorem takeBlock_prefix (e : Item) (got : List Got) :
    got = takeBlock e got ++ got.drop (takeBlock e got).length ∧
      ∀ g ∈ takeBlock e got, g.item = e.item ∧ e.formOk g = true := by
  induction got with
  | nil => simp [takeBlock]
  | cons g gs ih =>
    unfold takeBlock
    by_cases h : e.matches g = true
    · simp only [h, if_true]
      refine ⟨by simpa using ih.1, ?_⟩
      intro x hx
      rcases List.mem_cons.mp hx with rfl | hx
      · exact (matches_iff e x).mp h
      · exact ih.2 x hx
    · simp [h]

theorem greedyProd_sound (gid : Nat) (es : List Item) : ∀ got, greedyProd gid es got = .pass → Conforms es got := by
  induction es with
  | nil =>
    intro got h
    cases got with
    | nil => exact .nil
    | cons g gs => simp [greedyProd] at h
  | cons e es ih =>
    intro got h
    unfold greedyProd at h
    simp only [] at h
    split at h
    · cases h
    · rename_i hlo
      split at h
      · cases h
      · rename_i hhi
        have hp := takeBlock_prefix e got
        rw [hp.1]
        exact .cons hp.2 (by omega) (by omega) (ih _ h)

/-- `splits` lists exactly the ways to take a block off the front. -/
theorem splits_sound (e : Item) : ∀ (got : List Got) (k n : Nat) (r : Rem), r ∈ splits e k n got →
    ∃ blk, got = blk ++ r.2 ∧ (∀ g ∈ blk, g.item = e.item ∧ e.formOk g = true) ∧
      e.lo ≤ k + blk.length ∧ (k ≤ e.hi → k + blk.length ≤ e.hi) ∧ r.1 = n - blk.length := by
  intro got
  induction got with
  | nil =>
    intro k n r hr
    simp only [splits] at hr
    split at hr
    · simp only [List.mem_singleton] at hr; subst hr
      exact ⟨[], by simp, by simp, by simpa, by simp, by simp⟩
    · cases hr
  | cons g gs ih =>
    intro k n r hr
    simp only [splits, List.mem_append] at hr
    rcases hr with hr | hr
    · split at hr
      · simp only [List.mem_singleton] at hr; subst hr
        exact ⟨[], by simp, by simp, by simpa, by simp, by simp⟩
      · cases hr
    · split at hr
      · rename_i hk
        obtain ⟨blk, h1, h2, h3, h4, h5⟩ := ih (k + 1) (n - 1) r hr
        refine ⟨g :: blk, by simp [h1], ?_, by simp; omega, by intro _; simp; omega, by simp; omega⟩
        intro x hx
        rcases List.mem_cons.mp hx with rfl | hx
        · exact (matches_iff e x).mp hk.2
        · exact h2 x hx
      · cases hr

theorem splits_complete (e : Item) : ∀ (blk rest : List Got) (k n : Nat),
    (∀ g ∈ blk, g.item = e.item ∧ e.formOk g = true) → e.lo ≤ k + blk.length → k + blk.length ≤ e.hi →
    (n - blk.length, rest) ∈ splits e k n (blk ++ rest) := by
  intro blk
  induction blk with
  | nil =>
    intro rest k n _ hlo _
    cases rest with
    | nil => simp only [List.append_nil, splits]; simp at hlo; simp [hlo]
    | cons g gs => simp only [List.nil_append, splits, List.mem_append]; simp at hlo; left; simp [hlo]
  | cons b bs ih =>
    intro rest k n hb hlo hhi
    simp only [List.cons_append, splits, List.mem_append]
    right
    have hm : e.matches b = true := (matches_iff e b).mpr (hb b List.mem_cons_self)
    simp only [List.length_cons] at hlo hhi
    rw [if_pos ⟨by omega, hm⟩]
    have := ih rest (k + 1) (n - 1) (fun g hg => hb g (List.mem_cons_of_mem _ hg)) (by omega) (by omega)
    simpa [Nat.sub_sub, Nat.add_comm] using this

theorem mem_addRem (x y : Rem) (fr : List Rem) : y ∈ addRem x fr → y = x ∨ y ∈ fr := by
  unfold addRem
  split
  · exact Or.inr
  · intro h; rcases List.mem_cons.mp h with h | h
    · exact Or.inl h
    · exact Or.inr h

theorem mem_dedupRem (fr : List Rem) : ∀ y, y ∈ dedupRem fr → y ∈ fr := by
  induction fr with
  | nil => intro y h; simp [dedupRem] at h
  | cons x xs ih =>
    intro y h
    simp only [dedupRem, List.foldr_cons] at h
    rcases mem_addRem x y _ h with rfl | h
    · exact List.mem_cons_self
    · exact List.mem_cons_of_mem _ (ih y h)

theorem dedupRem_keeps (fr : List Rem) : ∀ x ∈ fr, ∃ y ∈ dedupRem fr, y.1 = x.1 := by
  induction fr with
  | nil => intro x h; cases h
  | cons a as ih =>
    intro x hx
    simp only [dedupRem, List.foldr_cons]
    have hstep : ∀ z : Rem, (∃ y ∈ as.foldr addRem [], y.1 = z.1) → ∃ y ∈ addRem a (as.foldr addRem []), y.1 = z.1 := by
      intro z ⟨y, hy, hyz⟩
      unfold addRem
      split
      · exact ⟨y, hy, hyz⟩
      · exact ⟨y, List.mem_cons_of_mem _ hy, hyz⟩
    rcases List.mem_cons.mp hx with rfl | hx
    · unfold addRem
      split
      · rename_i hany
        obtain ⟨y, hy, hyx⟩ := List.any_eq_true.mp hany
        exact ⟨y, hy, by simpa using hyx⟩
      · exact ⟨x, List.mem_cons_self, rfl⟩
    · exact hstep x (ih x hx)

theorem mem_splitsAll (e : Item) (fr : List Rem) (r : Rem) :
    r ∈ splitsAll e fr ↔ ∃ x ∈ fr, r ∈ splits e 0 x.1 x.2 := by
  induction fr with
  | nil => simp [splitsAll]
  | cons a as ih => simp [splitsAll, ih]

theorem conformsFrom_sound (es : List Item) : ∀ fr, conformsFrom es fr = true → ∃ x ∈ fr, Conforms es x.2 := by
  induction es with
  | nil =>
    intro fr h
    simp only [conformsFrom, List.any_eq_true] at h
    obtain ⟨x, hx, he⟩ := h
    refine ⟨x, hx, ?_⟩
    have : x.2 = [] := by simpa using he
    rw [this]; exact .nil
  | cons e es ih =>
    intro fr h
    simp only [conformsFrom] at h
    obtain ⟨r, hr, hc⟩ := ih _ h
    obtain ⟨x, hx, hs⟩ := (mem_splitsAll e fr r).mp (mem_dedupRem _ r hr)
    obtain ⟨blk, h1, h2, h3, h4, _⟩ := splits_sound e x.2 0 x.1 r hs
    refine ⟨x, hx, ?_⟩
    rw [h1]
    exact .cons h2 (by simpa using h3) (by simpa using h4 (Nat.zero_le _)) hc

/-- What the frontier elements are: suffixes of the goroutine's output, tagged with their length. -/
def RemOk (got : List Got) (x : Rem) : Prop := x.1 = x.2.length ∧ x.2 <:+ got

theorem remOk_eq {got : List Got} {x y : Rem} (hx : RemOk got x) (hy : RemOk got y) (h : x.1 = y.1) : x = y := by
  obtain ⟨x1, x2⟩ := x
  obtain ⟨y1, y2⟩ := y
  simp only [RemOk] at hx hy h
  have hl : x2.length = y2.length := by omega
  have hs : x2 <:+ y2 := List.suffix_of_suffix_length_le hx.2 hy.2 (by omega)
  have : x2 = y2 := hs.eq_of_length hl
  subst this; subst h; rfl

theorem conformsFrom_complete (got : List Got) (es : List Item) : ∀ fr, (∀ x ∈ fr, RemOk got x) →
    (∃ x ∈ fr, Conforms es x.2) → conformsFrom es fr = true := by
  induction es with
  | nil =>
    intro fr _ ⟨x, hx, hc⟩
    cases hc' : x.2 with
    | nil => simp only [conformsFrom, List.any_eq_true]; exact ⟨x, hx, by simp [hc']⟩
    | cons g gs => rw [hc'] at hc; cases hc
  | cons e es ih =>
    intro fr hok ⟨x, hx, hc⟩
    simp only [conformsFrom]
    generalize hx2 : x.2 = l at hc
    cases hc with
    | @cons _ _ blk rest hb hlo hhi hrest =>
      have hmem : (x.1 - blk.length, rest) ∈ splitsAll e fr := by
        rw [mem_splitsAll]
        refine ⟨x, hx, ?_⟩
        rw [hx2]
        exact splits_complete e blk rest 0 x.1 hb (by simpa using hlo) (by simpa using hhi)
      have hokx := hok x hx
      -- every element of the new frontier is again a tagged suffix
      have hok' : ∀ r ∈ splitsAll e fr, RemOk got r := by
        intro r hr
        obtain ⟨y, hy, hs⟩ := (mem_splitsAll e fr r).mp hr
        obtain ⟨b, h1, _, _, _, h5⟩ := splits_sound e y.2 0 y.1 r hs
        have hoky := hok y hy
        refine ⟨?_, ?_⟩
        · rw [h5, hoky.1, h1]; simp
        · exact List.IsSuffix.trans ⟨b, h1.symm⟩ hoky.2
      obtain ⟨y, hy, hyl⟩ := dedupRem_keeps _ _ hmem
      have hyeq : y = (x.1 - blk.length, rest) :=
        remOk_eq (hok' y (mem_dedupRem _ y hy)) (hok' _ hmem) hyl
      apply ih _ (fun r hr => hok' r (mem_dedupRem _ r hr))
      exact ⟨y, hy, by rw [hyeq]; exact hrest⟩

theorem conformsB_iff (es : List Item) (got : List Got) : conformsB es got = true ↔ Conforms es got := by
  constructor
  · intro h
    obtain ⟨x, hx, hc⟩ := conformsFrom_sound es _ h
    simp only [List.mem_singleton] at hx
    subst hx; exact hc
  · intro h
    exact conformsFrom_complete got es _ (by
      intro x hx
      simp only [List.mem_singleton] at hx
      subst hx
      exact ⟨rfl, List.suffix_refl _⟩) ⟨_, List.mem_singleton.mpr rfl, h⟩

theorem diagnose_ne_pass (gid : Nat) (es : List Item) (got : List Got) (v : Verdict) :
    diagnose gid es got v ≠ .pass := by
  unfold diagnose
  cases v with
  | pass => simp
  | fail cls g i =>
    simp only
    split
    · split <;> simp
    · simp

theorem checkProd_sound (gid : Nat) (es : List Item) (got : List Got) (h : checkProd gid es got = .pass) :
    Conforms es got := by
  unfold checkProd at h
  split at h
  · rename_i hg; exact greedyProd_sound gid es got hg
  · split at h
    · rename_i hb; exact (conformsB_iff es got).mp hb
    · exact absurd h (diagnose_ne_pass gid es got _)

theorem checkProd_complete (gid : Nat) {es : List Item} {got : List Got} (h : Conforms es got) :
    checkProd gid es got = .pass := by
  unfold checkProd
  split
  · rfl
  · rw [if_pos ((conformsB_iff es got).mpr h)]

theorem firstMissing_sound : ∀ (must got : List Got), firstMissing must got = none → must.Sublist got := by
  intro must got
  induction got generalizing must with
  | nil =>
    intro h
    cases must with
    | nil => exact .slnil
    | cons m ms => simp [firstMissing] at h
  | cons g gs ih =>
    intro h
    cases must with
    | nil => exact List.nil_sublist _
    | cons m ms =>
      unfold firstMissing at h
      by_cases hm : m = g
      · simp only [hm, if_true] at h
        subst hm
        exact (ih ms h).cons_cons _
      · simp only [hm, if_false] at h
        exact (ih (m :: ms) h).cons _

theorem firstMissing_complete : ∀ (must got : List Got), must.Sublist got → firstMissing must got = none := by
  intro must got h
  induction got generalizing must with
  | nil => cases h; rfl
  | cons g gs ih =>
    cases must with
    | nil => rfl
    | cons m ms =>
      unfold firstMissing
      by_cases hm : m = g
      · simp only [hm, if_true]
        subst hm
        exact ih ms (List.cons_sublist_cons.mp h)
      · simp only [hm, if_false]
        cases h with
        | cons _ h' => exact ih _ h'
        | cons_cons _ h' => exact absurd rfl hm

theorem checkTracers_sound (outs : List OutW) (exps : Nat → List Item) :
    ∀ n gid, checkTracers outs exps gid n = .pass → ∀ g, gid ≤ g → g < gid + n →
      (tracerMust (exps g)).Sublist (tracerGot g outs) := by
  intro n
  induction n with
  | zero => intro gid _ g h1 h2; omega
  | succ n ih =>
    intro gid h g h1 h2
    unfold checkTracers at h
    cases hp : firstMissing (tracerMust (exps gid)) (tracerGot gid outs) with
    | none =>
      rw [hp] at h
      by_cases hg : g = gid
      · subst hg; exact firstMissing_sound _ _ hp
      · exact ih (gid + 1) h g (by omega) (by omega)
    | some m => rw [hp] at h; cases h

theorem checkProds_sound (outs : List OutW) (exps : Nat → List Item) :
    ∀ n gid, checkProds outs exps gid n = .pass → ∀ g, gid ≤ g → g < gid + n → Conforms (exps g) (expandOut g outs) := by
  intro n
  induction n with
  | zero => intro gid _ g h1 h2; omega
  | succ n ih =>
    intro gid h g h1 h2
    unfold checkProds at h
    cases hp : checkProd gid (exps gid) (expandOut gid outs) with
    | pass =>
      rw [hp] at h
      by_cases hg : g = gid
      · subst hg; exact checkProd_sound _ _ _ hp
      · exact ih (gid + 1) h g (by omega) (by omega)
    | fail c a b => rw [hp] at h; cases h

theorem checkRun_sound (np : Nat) (exps : Nat → List Item) (outs : List OutW) (h : checkRun np exps outs = .pass) :
    (∀ o ∈ outs, o.gid < np) ∧ (∀ o ∈ outs, o.entries.isSome → o.dups = 0) ∧
      (∀ g, g < np → (tracerMust (exps g)).Sublist (tracerGot g outs)) ∧
      ∀ g, g < np → Conforms (exps g) (expandOut g outs) := by
  unfold checkRun at h
  split at h
  · cases h
  · rename_i hnone
    split at h
    · cases h
    · rename_i hnone2
      split at h
      · split at h
        · rename_i htr
          refine ⟨?_, ?_, fun g hg => checkTracers_sound outs exps np 0 htr g (by omega) (by omega),
            fun g hg => checkProds_sound outs exps np 0 h g (by omega) (by omega)⟩
          · intro o ho
            have := List.find?_eq_none.mp hnone o ho
            simpa using this
          · intro o ho hs
            have := List.find?_eq_none.mp hnone2 o ho
            simp [OutW.mergedTracer, hs] at this
            exact this
        · rename_i hv
          exact absurd h hv
      · rename_i hv
        exact absurd h hv

/-- The line-by-line pre-check never rejects what the specification allows: in a conforming output every line
    lies in the block of an item that matches it and may be emitted at least once. -/
theorem conforms_line_allowed {es : List Item} {got : List Got} (h : Conforms es got) :
    ∀ g ∈ got, neverAllowed es g = false := by
  have key : ∀ g ∈ got, ∃ e ∈ es, e.matches g = true ∧ 0 < e.hi := by
    induction h with
    | nil => intro g hg; cases hg
    | @cons e es blk rest hb hlo hhi _ ih =>
      intro g hg
      rcases List.mem_append.mp hg with hg | hg
      · refine ⟨e, List.mem_cons_self, (matches_iff e g).mpr (hb g hg), ?_⟩
        have : 0 < blk.length := List.length_pos_of_mem hg
        omega
      · obtain ⟨e', he', hm, hh⟩ := ih g hg
        exact ⟨e', List.mem_cons_of_mem _ he', hm, hh⟩
  intro g hg
  obtain ⟨e, he, hm, hh⟩ := key g hg
  have : (es.any fun e => e.matches g && decide (0 < e.hi)) = true :=
    List.any_eq_true.mpr ⟨e, he, by simp [hm, hh]⟩
  simp [neverAllowed, this]

/-! ### Liveness: the writer alone can drain the buffer -/

theorem reachable_run {s : St} (h : Reachable s) : ∀ {as s'}, run s as = some s' → Reachable s' := by
  intro as
  induction as generalizing s with
  | nil => intro s' hr; simp [run] at hr; subst hr; exact h
  | cons a as ih =>
    intro s' hr
    simp only [run] at hr
    split at hr
    · cases hr
    · rename_i s1 hs1
      exact ih (Reachable.step h hs1) hr

/-- Writer moves touch neither the producers nor the enqueue history nor the configuration. -/
theorem w_frame {s s' : St} {e : WEv} (hs : step s (.w e) = some s') :
    s'.enq = s.enq ∧ s'.prods = s.prods ∧ s'.paced = s.paced := by
  cases e <;> simp only [step] at hs <;> (repeat' split at hs) <;> (try cases hs) <;> simp_all

/-- From here the writer alone (no producer step, no shutdown needed) can empty the buffer. -/
def CanDrain (s : St) : Prop :=
  ∃ as s', (∀ a ∈ as, ∃ e, a = Act.w e) ∧ run s as = some s' ∧ s'.buf = [] ∧ s'.w.cur = none ∧ s'.enq = s.enq

theorem canDrain_now {s : St} (hb : s.buf = []) (hc : s.w.cur = none) : CanDrain s :=
  ⟨[], s, by simp, rfl, hb, hc, rfl⟩

theorem canDrain_step {s s1 : St} {e : WEv} (hs : step s (.w e) = some s1) (h : CanDrain s1) : CanDrain s := by
  obtain ⟨as, s', hw, hr, hb, hc, he⟩ := h
  refine ⟨.w e :: as, s', ?_, ?_, hb, hc, ?_⟩
  · intro a ha
    rcases List.mem_cons.mp ha with rfl | ha
    · exact ⟨e, rfl⟩
    · exact hw a ha
  · simp [run, hs, hr]
  · rw [he, (w_frame hs).1]

theorem canDrain_drain : ∀ (n : Nat) (s : St), s.buf.length = n → s.w.pc = .drain → CanDrain s := by
  intro n
  induction n with
  | zero =>
    intro s hn hp
    have hb : s.buf = [] := List.length_eq_zero_iff.mp hn
    cases hc : s.w.cur with
    | none =>
      have hs : step s (.w .empty) = some { s with w := { pc := .backoff, cur := none, dups := 0 } } := by
        simp [step, hb, hp, hc]
      exact canDrain_step hs (canDrain_now hb rfl)
    | some c =>
      have hs : step s (.w .empty) = some { s with w := { pc := .backoff, cur := none, dups := 0 }, out := s.out ++ [(c, s.w.dups)] } := by
        simp [step, hb, hp, hc]
      exact canDrain_step hs (canDrain_now hb rfl)
  | succ n ih =>
    intro s hn hp
    match hbuf : s.buf with
    | [] => simp [hbuf] at hn
    | (o, x) :: rest =>
      have hlen : rest.length = n := by simp [hbuf] at hn; exact hn
      have : ∃ s1, step s (.w (.deq x)) = some s1 ∧ s1.buf = rest ∧ s1.w.pc = .drain := by
        simp only [step, hbuf, hp, and_self, if_true]
        cases hc : s.w.cur with
        | none => exact ⟨_, rfl, rfl, rfl⟩
        | some c =>
          by_cases he : x.equal c = true
          · simp only [he, if_true]; exact ⟨_, rfl, rfl, rfl⟩
          · simp only [he]; exact ⟨_, rfl, rfl, rfl⟩
      obtain ⟨s1, hs1, hb1, hp1⟩ := this
      exact canDrain_step hs1 (ih s1 (by rw [hb1]; exact hlen) hp1)

theorem canDrain_fin : ∀ (n : Nat) (s : St), s.buf.length = n → s.w.pc = .fin → s.w.cur = none → CanDrain s := by
  intro n
  induction n with
  | zero =>
    intro s hn _ hc
    exact canDrain_now (List.length_eq_zero_iff.mp hn) hc
  | succ n ih =>
    intro s hn hp hc
    match hbuf : s.buf with
    | [] => simp [hbuf] at hn
    | (o, x) :: rest =>
      have hlen : rest.length = n := by simp [hbuf] at hn; exact hn
      have hs : step s (.w (.fdeq x)) = some { s with buf := rest, deq := s.deq ++ [(o, x)], out := s.out ++ [(x, 0)] } := by
        simp [step, hbuf, hp]
      exact canDrain_step hs (ih _ (by simpa using hlen) (by simpa using hp) (by simpa using hc))

theorem canDrain_slot {s : St} (hp : s.paced = false) (hw : s.w.pc = .waitSlot) : CanDrain s := by
  have hs : step s (.w .slot) = some { s with w := { s.w with pc := .drain } } := by simp [step, hp, hw]
  exact canDrain_step hs (canDrain_drain _ _ rfl rfl)

theorem canDrain_got {s : St} (hp : s.paced = false) (hw : s.w.pc = .gotToken) : CanDrain s := by
  have hs : step s (.w .unset) = some { s with flag := false, w := { s.w with pc := .waitSlot } } := by
    simp [step, hw]
  exact canDrain_step hs (canDrain_slot (by simpa using hp) rfl)

theorem canDrain_waitLogs {s : St} (h : Reachable s) (hp : s.paced = false) (hq : ∀ p, s.prods p = .idle)
    (hw : s.w.pc = .waitLogs) : CanDrain s := by
  have hi := inv_reachable h
  by_cases hb : s.buf = []
  · exact canDrain_now hb (hi.wc (by rw [hw]; simp))
  · have ht : s.token = true := by
      rcases hi.nl (Or.inl hw) hb with hf | ⟨p, hps⟩
      · rcases hi.f5 hf with ht | hg | ⟨p, hpw⟩
        · exact ht
        · rw [hw] at hg; cases hg
        · rw [hq p] at hpw; cases hpw
      · rw [hq p] at hps; cases hps
    have hs : step s (.w .token) = some { s with token := false, w := { s.w with pc := .gotToken } } := by
      simp [step, ht, hw]
    exact canDrain_step hs (canDrain_got (by simpa using hp) rfl)

/-- Delivery does not depend on Shutdown: in every reachable state of a free-running logger in which no
    goroutine is inside a log call and the writer has not exited, the writer's own steps lead to a state
    where the buffer is empty, the writer holds nothing, and (hence) everything enqueued has been handed
    to the adapter. -/
theorem canDrain_of_reachable {s : St} (h : Reachable s) (hp : s.paced = false) (hq : ∀ p, s.prods p = .idle)
    (hd : s.w.pc ≠ .done) : CanDrain s := by
  have hi := inv_reachable h
  cases hw : s.w.pc with
  | waitLogs => exact canDrain_waitLogs h hp hq hw
  | gotToken => exact canDrain_got hp hw
  | waitSlot => exact canDrain_slot hp hw
  | drain => exact canDrain_drain _ _ rfl hw
  | backoff =>
    by_cases hb : s.buf = []
    · exact canDrain_now hb (hi.wc (by rw [hw]; simp))
    · have hs : step s (.w .timer) = some { s with w := { s.w with pc := .waitLogs } } := by simp [step, hw]
      exact canDrain_step hs (canDrain_waitLogs (Reachable.step h hs) (by simpa using hp) (by simpa using hq) rfl)
  | fin => exact canDrain_fin _ _ rfl hw (hi.wc (by rw [hw]; simp))
  | done => exact absurd hw hd


/-! ### Level decisions taken outside `log()`: `fastcheck`, `AddTracer`, the life of a context tracer

`fastcheck_iff` and `addTracer_iff` are proved by unfolding the functions regenerated from log/input.go and
log/trace.go (`PB.Gen.Log.fastcheck`, `PB.Gen.Log.addTracer`): a dropped branch, a changed comparison or a
wrong argument of `fastcheck` in the source changes the generated function and breaks these proofs. -/
section Tracers
open PB.Gen.Log (traceLevel)

theorem fastcheck_iff (c : Levels) (lvl : Nat) :
    fastcheck c lvl = true ↔ (c.active = true ∨ c.glob ≤ lvl) := by
  unfold fastcheck PB.Gen.Log.fastcheck
  cases c.active <;> (try simp) <;> (try omega)

theorem enabled_mono {c : Levels} {pkg : Option Nat} {a b : Nat} (h : enabled c pkg a = true) (hab : a ≤ b) :
    enabled c pkg b = true := by
  unfold enabled at *
  cases hact : c.active <;> simp [hact] at h ⊢
  · omega
  · cases pkg with
    | none => simp at h
    | some p =>
      simp at h ⊢
      cases hl : lookupPkg c.pkgs p <;> simp [hl] at h ⊢ <;> omega

theorem isSeverity_ge {lvl : Nat} (h : isSeverity lvl = true) : traceLevel ≤ lvl := by
  unfold isSeverity PB.Gen.Log.severities at h
  simp at h
  unfold traceLevel
  omega

/-- (The proofs about the regenerated `addTracer` are scripted so that they go through for every source shape
    that takes the same decisions — e.g. another argument of the leading `fastcheck`, a dropped dead branch —:
    unfold, split on the Boolean inputs, `simp`, linear arithmetic over the severity constants.) -/
theorem addTracer_iff (c : Levels) (pkg : Option Nat) :
    addTracer c false true pkg false = true ↔ enabled c pkg traceLevel = true := by
  have h1 : PB.Gen.Log.traceLevel = 1 := rfl
  have h2 : PB.Gen.Log.debugLevel = 2 := rfl
  have h3 : PB.Gen.Log.infoLevel = 3 := rfl
  have h4 : PB.Gen.Log.warningLevel = 4 := rfl
  have h5 : PB.Gen.Log.errorLevel = 5 := rfl
  have h6 : PB.Gen.Log.criticalLevel = 6 := rfl
  unfold addTracer PB.Gen.Log.addTracer PB.Gen.Log.fastcheck enabled
  cases pkg with
  | none => cases c.active <;> (try simp) <;> (try omega)
  | some p =>
    cases c.active <;> (try simp) <;> (try cases lookupPkg c.pkgs p) <;> (try simp) <;> (try omega)

theorem addTracer_refuses (c : Levels) (ok : Bool) (pkg : Option Nat) (ex : Bool) :
    addTracer c true ok pkg ex = false ∧ addTracer c false ok pkg true = false ∧
      (c.active = true → addTracer c false false pkg ex = false) ∧
      (c.active = true → addTracer c false ok none ex = false) := by
  unfold addTracer PB.Gen.Log.addTracer PB.Gen.Log.fastcheck
  refine ⟨by simp, ?_, ?_, ?_⟩
  · cases c.active <;> cases ok <;> cases pkg.isNone <;> cases (pkg.bind (lookupPkg c.pkgs)) <;> simp
  · intro h; simp [h]
  · intro h; cases ok <;> simp [h]

/-- Trace was in force for the origin `AddTracer` was called from when it handed the tracer out, and a tracer
    collects only lines of the six severities. -/
def Tracer.ok (t : Tracer) : Prop :=
  enabled t.lv t.pkg traceLevel = true ∧ ∀ x ∈ t.logs, isSeverity x.e.lvl = true

structure TcInv (s : St) : Prop where
  c1 : ∀ p t, s.tr p = some t → t.ok
  c2 : ∀ p, ∀ sb ∈ s.subs p, sb.tr.ok ∧ submitLine (sb.tr.logs.map (·.e)) = some sb.line
  c3 : ∀ p, (s.logged p).filter (·.trace.isSome) = (s.subs p).map (·.line)
  c4 : ∀ p l pkg, s.prods p = .inLog l pkg → l.trace = none

theorem tcinv_init (cap paced lv) : TcInv (St.init cap paced lv) := by
  constructor <;> simp [St.init]

/-- Actions that touch neither tracers nor submissions nor the accepted lines, and put no goroutine before the filter. -/
theorem tcinv_of_frame {s s' : St} (hi : TcInv s) (ht : s'.tr = s.tr) (hsb : s'.subs = s.subs)
    (hl : s'.logged = s.logged) (hp : ∀ p l pkg, s'.prods p = .inLog l pkg → s.prods p = .inLog l pkg) : TcInv s' := by
  obtain ⟨c1, c2, c3, c4⟩ := hi
  constructor
  · rw [ht]; exact c1
  · rw [hsb]; exact c2
  · rw [hl, hsb]; exact c3
  · intro p l pkg h; exact c4 p l pkg (hp p l pkg h)

theorem tcinv_step {s s' : St} {a : Act} (hi : TcInv s) (hs : step s a = some s') : TcInv s' := by
  cases a with
  | w e =>
    apply tcinv_of_frame hi <;>
      (cases e <;> simp only [step] at hs <;> (repeat' split at hs) <;> (try cases hs) <;> (try rfl) <;> (intro p l pkg h; exact h))
  | wforce pid =>
    apply tcinv_of_frame hi <;> (simp only [step] at hs; (repeat' split at hs) <;> (try cases hs) <;> (try rfl) <;> (intro p l pkg h; exact h))
  | trigger =>
    apply tcinv_of_frame hi <;> (simp only [step] at hs; (repeat' split at hs) <;> (try cases hs) <;> (try rfl) <;> (intro p l pkg h; exact h))
  | setLevel g => simp only [step] at hs; cases hs; exact tcinv_of_frame hi rfl rfl rfl (fun _ _ _ h => h)
  | setPkgs m => simp only [step] at hs; cases hs; exact tcinv_of_frame hi rfl rfl rfl (fun _ _ _ h => h)
  | unsetPkgs => simp only [step] at hs; cases hs; exact tcinv_of_frame hi rfl rfl rfl (fun _ _ _ h => h)
  | shutdown =>
    apply tcinv_of_frame hi <;> (simp only [step] at hs; (repeat' split at hs) <;> (try cases hs) <;> (try rfl) <;> (intro p l pkg h; exact h))
  | addTracer pid pkg live =>
    obtain ⟨c1, c2, c3, c4⟩ := hi
    simp only [step] at hs
    (repeat' split at hs) <;> (try cases hs)
    · rename_i hidle hdec hlive
      subst hlive
      constructor
      · intro p t ht
        simp only [upd] at ht
        split at ht
        · cases ht
          refine ⟨?_, by simp⟩
          cases hex : (s.tr pid).isSome with
          | false => rw [hex] at hdec; exact (addTracer_iff s.lv pkg).mp hdec.symm
          | true => rw [hex, (addTracer_refuses s.lv true pkg true).2.1] at hdec; cases hdec
        · exact c1 p t ht
      · exact c2
      · exact c3
      · exact c4
    · exact ⟨c1, c2, c3, c4⟩
  | collect pid e pkg =>
    obtain ⟨c1, c2, c3, c4⟩ := hi
    simp only [step] at hs
    (repeat' split at hs) <;> (try cases hs)
    rename_i t hidle htr hsev
    constructor
    · intro p t' ht
      simp only [upd] at ht
      split at ht
      · cases ht
        obtain ⟨a, b⟩ := c1 pid t htr
        refine ⟨a, ?_⟩
        intro x hx
        simp only [List.mem_append, List.mem_singleton] at hx
        rcases hx with hx | rfl
        · exact b x hx
        · exact hsev
      · exact c1 p t' ht
    · exact c2
    · exact c3
    · exact c4
  | p pid e =>
    obtain ⟨c1, c2, c3, c4⟩ := hi
    cases e with
    | call l pkg pass =>
      simp only [step] at hs
      split at hs
      · split at hs
        · have hg : l.trace = none := (‹l.trace = none ∧ pass = fastcheck s.lv l.lvl›).1
          cases hs
          refine ⟨c1, c2, c3, ?_⟩
          intro p l' pkg' h
          simp only [upd] at h
          by_cases hp : p = pid
          · simp only [hp, if_true] at h
            by_cases hpass : pass = true
            · simp [hpass] at h; obtain ⟨rfl, _⟩ := h; exact hg
            · simp [hpass] at h
          · simp only [hp, if_false] at h; exact c4 p l' pkg' h
        · cases hs
      · cases hs
    | filter pass =>
      simp only [step, St.accept] at hs
      (repeat' split at hs) <;> (try cases hs)
      · rename_i l pkg hin hen hpass
        have hpl := c4 pid l pkg hin
        refine ⟨c1, c2, ?_, ?_⟩
        · intro p
          simp only [upd]
          split
          · rename_i hp; subst hp
            simp [List.filter_append, hpl, c3]
          · exact c3 p
        · intro p l' pkg' h
          simp only [upd] at h
          split at h
          · cases h
          · exact c4 p l' pkg' h
      · refine ⟨c1, c2, c3, ?_⟩
        intro p l' pkg' h
        simp only [upd] at h
        split at h
        · cases h
        · exact c4 p l' pkg' h
    | submit l =>
      simp only [step, St.accept] at hs
      (repeat' split at hs) <;> (try cases hs)
      rename_i t htr hsub
      have hsome : l.trace.isSome = true := ‹l.trace.isSome = true›
      constructor
      · intro p t' ht
        simp only [upd] at ht
        split at ht
        · cases ht
        · exact c1 p t' ht
      · intro p sb hsb
        simp only [upd] at hsb
        split at hsb
        · rename_i hp; subst hp
          simp only [List.mem_append, List.mem_singleton] at hsb
          rcases hsb with hsb | rfl
          · exact c2 p sb hsb
          · exact ⟨c1 p t htr, hsub⟩
        · exact c2 p sb hsb
      · intro p
        simp only [upd]
        split
        · rename_i hp; subst hp
          simp [List.filter_append, hsome, c3]
        · exact c3 p
      · intro p l' pkg' h
        simp only [upd] at h
        split at h
        · cases h
        · exact c4 p l' pkg' h
    | forced => simp [step] at hs
    | _ =>
      apply tcinv_of_frame ⟨c1, c2, c3, c4⟩ <;>
        (simp only [step, St.push] at hs <;> (repeat' split at hs) <;> (try cases hs) <;> (try rfl) <;>
          (intro p l pkg h; simp only [upd] at h; split at h <;> (try split at h) <;> first | cases h | exact h))

theorem tcinv_reachable {s : St} (h : Reachable s) : TcInv s := by
  induction h with
  | init cap paced lv => exact tcinv_init cap paced lv
  | step _ hs ih => exact tcinv_step ih hs

end Tracers

end PB.Log
