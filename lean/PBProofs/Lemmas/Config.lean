import PB.Model.Config
import PB.Spec.Config
/-
Helper lemmas for C04 (sequential model PB.Config).
-/
namespace PB.Config

/-! ### registry lookups -/

theorem find_eq (st : St) (k : Key) : st.find k = st.opts.find? (fun o => o.key = k) := rfl

theorem find?_setOptIn_same (o' : Opt) : ∀ (l : List Opt), (∃ p ∈ l, p.key = o'.key) →
    (setOptIn o' l).find? (fun o => o.key = o'.key) = some o'
  | [], h => by simp at h
  | p :: rest, h => by
    by_cases hp : p.key = o'.key
    · simp [setOptIn, hp]
    · have : ∃ q ∈ rest, q.key = o'.key := by
        rcases h with ⟨q, hq, hk⟩
        cases hq with
        | head => exact absurd hk hp
        | tail _ hq' => exact ⟨q, hq', hk⟩
      simp [setOptIn, hp, find?_setOptIn_same o' rest this]

theorem find?_setOptIn_other (o' : Opt) (k : Key) (hk : k ≠ o'.key) : ∀ (l : List Opt),
    (setOptIn o' l).find? (fun o => o.key = k) = l.find? (fun o => o.key = k)
  | [] => rfl
  | p :: rest => by
    by_cases hp : p.key = o'.key
    · have h1 : ¬ p.key = k := fun h => hk (h ▸ hp)
      have h2 : ¬ o'.key = k := fun h => hk h.symm
      simp [setOptIn, hp, List.find?, h2, h1]
    · by_cases hpk : p.key = k
      · simp [setOptIn, List.find?, hpk, hk]
      · simp [setOptIn, hp, List.find?, hpk, find?_setOptIn_other o' k hk rest]

theorem setOptIn_self (o : Opt) : ∀ (l : List Opt), l.find? (fun p => p.key = o.key) = some o → setOptIn o l = l
  | [], h => by simp at h
  | p :: rest, h => by
    by_cases hp : p.key = o.key
    · simp [List.find?, hp] at h
      simp [setOptIn, hp, h]
    · simp [List.find?, hp] at h
      simp [setOptIn, hp, setOptIn_self o rest h]

theorem setOptIn_keys (o' : Opt) : ∀ (l : List Opt), (setOptIn o' l).map (·.key) = l.map (·.key)
  | [] => rfl
  | p :: rest => by
    by_cases hp : p.key = o'.key
    · simp [setOptIn, hp]
    · simp [setOptIn, hp, setOptIn_keys o' rest]

theorem find?_some_mem {l : List Opt} {k : Key} {o : Opt} (h : l.find? (fun p => p.key = k) = some o) :
    o ∈ l ∧ o.key = k := by
  have h1 := List.mem_of_find?_eq_some h
  have h2 := List.find?_some h
  simp at h2
  exact ⟨h1, h2⟩

/-! ### isAllowedPossibleValue on typed values, entry loop -/

theorem any_pvEq_str (l : List PV) (s : String) : l.any (fun p => pvEq p (.str s)) = l.contains (PV.s s) := by
  induction l with
  | nil => rfl
  | cons p rest ih =>
    rw [List.any_cons, List.contains_cons, ih]
    cases p with
    | s x =>
      by_cases h : x = s
      · simp [pvEq, h]
      · have e1 := beq_eq_false_iff_ne.mpr h
        have e2 : (PV.s s == PV.s x) = false := beq_eq_false_iff_ne.mpr (by intro e; injection e with e; exact h e.symm)
        simp [pvEq, e1, e2]
    | i n => simp [pvEq]
    | b x => simp [pvEq]

theorem any_pvEq_bool (l : List PV) (b : Bool) : l.any (fun p => pvEq p (.bool b)) = l.contains (PV.b b) := by
  induction l with
  | nil => rfl
  | cons p rest ih =>
    rw [List.any_cons, List.contains_cons, ih]
    cases p with
    | s x => simp [pvEq]
    | i n => simp [pvEq]
    | b x =>
      by_cases h : x = b
      · simp [pvEq, h]
      · have e1 := beq_eq_false_iff_ne.mpr h
        have e2 : (PV.b b == PV.b x) = false := beq_eq_false_iff_ne.mpr (by intro e; injection e with e; exact h e.symm)
        simp [pvEq, e1, e2]

theorem any_pvEq_int (l : List PV) (k : IKind) (n : Int) (hf : k.fits n = true) :
    l.any (fun p => pvEq p (.int k n)) = l.contains (PV.i n) := by
  induction l with
  | nil => rfl
  | cons p rest ih =>
    rw [List.any_cons, List.contains_cons, ih]
    cases p with
    | s x => simp [pvEq]
    | i m =>
      by_cases h : m = n
      · simp [pvEq, h, hf]
      · have e1 := beq_eq_false_iff_ne.mpr h
        have e2 : (PV.i n == PV.i m) = false := beq_eq_false_iff_ne.mpr (by intro e; injection e with e; exact h e.symm)
        simp [pvEq, e1, e2]
    | b x => simp [pvEq]

theorem any_pvEq_flt (l : List PV) (w neg : Bool) (mag : Nat) :
    l.any (fun p => pvEq p (.flt w neg mag false)) = l.contains (PV.i (fltInt neg mag)) := by
  induction l with
  | nil => rfl
  | cons p rest ih =>
    rw [List.any_cons, List.contains_cons, ih]
    cases p with
    | s x => simp [pvEq]
    | i m =>
      by_cases h : m = fltInt neg mag
      · simp [pvEq, h]
      · have e1 := beq_eq_false_iff_ne.mpr h
        have e2 : (PV.i (fltInt neg mag) == PV.i m) = false := beq_eq_false_iff_ne.mpr (by intro e; injection e with e; exact h e.symm)
        simp [pvEq, e1, e2]
    | b x => simp [pvEq]

theorem entriesCheck_ok_iff (o : Opt) (ss : List String) :
    entriesCheck o ss = .ok () ↔ ss.all (fun e => o.rx.matches e && isAllowed o.pvs (.str e)) = true := by
  induction ss with
  | nil => simp [entriesCheck]
  | cons e rest ih =>
    simp only [entriesCheck, List.all_cons]
    by_cases h1 : o.rx.matches e = true
    · by_cases h2 : isAllowed o.pvs (.str e) = true
      · simp [h1, h2, ih]
      · simp [h1, h2]
    · simp [h1]

theorem allStrings_map_some (l : List String) : allStrings (l.map some) = some l := by
  induction l with
  | nil => rfl
  | cons a rest ih => simp [allStrings, ih]

/-! ### validateValue accepts exactly the valid values (per value kind) -/

theorem isAllowed_str (pvs : Option (List PV)) (s : String) :
    isAllowed pvs (.str s) = match pvs with | none => true | some l => l.contains (PV.s s) := by
  cases pvs <;> simp [isAllowed, any_pvEq_str]

theorem isAllowed_bool (pvs : Option (List PV)) (b : Bool) :
    isAllowed pvs (.bool b) = match pvs with | none => true | some l => l.contains (PV.b b) := by
  cases pvs <;> simp [isAllowed, any_pvEq_bool]

theorem isAllowed_int (pvs : Option (List PV)) (k : IKind) (n : Int) (hf : k.fits n = true) :
    isAllowed pvs (.int k n) = match pvs with | none => true | some l => l.contains (PV.i n) := by
  cases pvs <;> simp [isAllowed, any_pvEq_int, hf]

theorem isAllowed_flt (pvs : Option (List PV)) (w neg : Bool) (mag : Nat) :
    isAllowed pvs (.flt w neg mag false) = match pvs with | none => true | some l => l.contains (PV.i (fltInt neg mag)) := by
  cases pvs <;> simp [isAllowed, any_pvEq_flt]

theorem validate_str (o : Opt) (s : String) (c : Cache) : validate o (.str s) = .ok c ↔ Valid o (.str s) c := by
  unfold Valid validate
  cases hty : o.ty <;> simp [canon, hty, regexOK, allowedOK, vfCheck, isAllowed_str]
  all_goals grind

theorem validate_bool (o : Opt) (b : Bool) (c : Cache) : validate o (.bool b) = .ok c ↔ Valid o (.bool b) c := by
  unfold Valid validate
  cases hty : o.ty <;> simp [canon, hty, regexOK, allowedOK, vfCheck, isAllowed_bool]
  all_goals grind

theorem validate_int (o : Opt) (k : IKind) (n : Int) (hf : k.fits n = true) (c : Cache) :
    validate o (.int k n) = .ok c ↔ Valid o (.int k n) c := by
  unfold Valid validate
  cases hty : o.ty <;> simp [canon, hty, regexOK, allowedOK, vfCheck, isAllowed_int, hf, intBody]
  all_goals grind

theorem validate_flt (o : Opt) (w neg : Bool) (mag : Nat) (half : Bool) (c : Cache) :
    validate o (.flt w neg mag half) = .ok c ↔ Valid o (.flt w neg mag half) c := by
  unfold Valid validate
  cases half
  · cases hty : o.ty <;> simp [canon, hty, regexOK, allowedOK, vfCheck, isAllowed_flt, intBody]
    all_goals grind
  · cases hty : o.ty <;> simp [canon, hty]
    all_goals grind

theorem Rx.matches_of_isNone {rx : Rx} (h : rx.isNone = true) (e : String) : rx.matches e = true := by
  cases rx <;> simp [Rx.isNone] at h <;> simp [Rx.matches]

theorem all_and_split (ss : List String) (p q : String → Bool) :
    ss.all (fun e => p e && q e) = (ss.all p && ss.all q) := by
  induction ss with
  | nil => rfl
  | cons a r ih => simp [List.all_cons, ih]; cases p a <;> cases q a <;> simp

theorem strsBody_ok_iff (o : Opt) (ho : RegOK o) (hty : o.ty = .strs) (ss : List String) (c : Cache) :
    strsBody o ss = .ok c ↔
      c = { a := ss } ∧ regexOK o { a := ss } = true ∧ allowedOK o { a := ss } = true ∧ vfOk o.vf o.ty { a := ss } = true := by
  unfold strsBody
  simp only [hty, ne_eq, not_true_eq_false, if_false]
  by_cases hn : o.rx.isNone = true
  · have hp : o.pvs = none := by
      cases hpv : o.pvs with
      | none => rfl
      | some l => have := ho (by simp [hpv]); simp [hn] at this
    have hall : ss.all o.rx.matches = true := by
      simp [List.all_eq_true]; intro e _; exact Rx.matches_of_isNone hn e
    simp [hn, vfCheck, regexOK, allowedOK, hty, hp, hall]
    grind
  · simp only [hn]
    cases hec : entriesCheck o ss with
    | error e =>
      have : ¬ (ss.all (fun e => o.rx.matches e && isAllowed o.pvs (.str e)) = true) := by
        rw [← entriesCheck_ok_iff, hec]; simp
      rw [all_and_split] at this
      simp [regexOK, allowedOK, hty]
      cases hpv : o.pvs with
      | none => simp [hpv, isAllowed] at this ⊢; grind
      | some l => simp [hpv, isAllowed_str] at this ⊢; grind
    | ok u =>
      have : ss.all (fun e => o.rx.matches e && isAllowed o.pvs (.str e)) = true := by
        rw [← entriesCheck_ok_iff, hec]
      rw [all_and_split] at this
      simp [regexOK, allowedOK, hty, vfCheck]
      cases hpv : o.pvs with
      | none => simp [hpv, isAllowed] at this ⊢; grind
      | some l => simp [hpv, isAllowed_str] at this ⊢; grind

theorem validate_strs (o : Opt) (ho : RegOK o) (ss : List String) (c : Cache) :
    validate o (.strs ss) = .ok c ↔ Valid o (.strs ss) c := by
  unfold Valid validate
  by_cases hty : o.ty = .strs
  · simp only [hty, ne_eq, not_true_eq_false, false_and, if_false, canon]
    have := strsBody_ok_iff o ho hty ss c
    rw [hty] at this
    rw [this]
    constructor
    · rintro ⟨rfl, h⟩; simpa using h
    · rintro ⟨h1, h⟩; cases h1; simpa using h
  · have hc : canon o.ty (.strs ss) = none := by cases h : o.ty <;> simp_all [canon]
    simp [hc, strsBody, hty]
    split <;> simp

theorem validateStrs_ok_iff (o : Opt) (ho : RegOK o) (ss : List String) (c : Cache) :
    validateStrs o ss = .ok c ↔ Valid o (.strs ss) c := by
  rw [← validate_strs o ho]
  simp [validateStrs, validate]

theorem validate_anys (o : Opt) (ho : RegOK o) (l : List (Option String)) (c : Cache) :
    validate o (.anys l) = .ok c ↔ Valid o (.anys l) c := by
  by_cases hty : o.ty = .strs
  · unfold validate
    simp only [hty, ne_eq, not_true_eq_false, false_and, if_false]
    cases hl : allStrings l with
    | none => simp [Valid, canon, hty, hl]
    | some ss =>
      simp only []
      have h := validateStrs_ok_iff o ho ss
      cases hv : validateStrs o ss with
      | error e =>
        have hno : ∀ c, ¬ Valid o (.strs ss) c := fun c hc => by
          have := (h c).mpr hc; rw [hv] at this; cases this
        simp
        intro hc
        apply hno c
        simpa [Valid, canon, hty, hl] using hc
      | ok c' =>
        have hc' := (h c').mp hv
        simp only [Valid, canon, hty, hl, Option.map_some, Option.some.injEq] at hc' ⊢
        obtain ⟨e1, e2, e3, e4⟩ := hc'
        subst e1
        have hvf : vfCheck o { a := ss } = .ok { a := ss } := by simp [vfCheck, hty, e4]
        rw [hvf]
        constructor
        · intro hh
          cases hh
          exact ⟨rfl, e2, e3, e4⟩
        · rintro ⟨rfl, _⟩
          rfl
  · have hc : canon o.ty (.anys l) = none := by cases h : o.ty <;> simp_all [canon]
    simp only [Valid, hc]
    simp
    unfold validate
    split
    · simp
    · cases hl : allStrings l with
      | none => simp [hl]
      | some ss =>
        have : validateStrs o ss = .error .notAllowed ∨ validateStrs o ss = .error .type := by
          unfold validateStrs strsBody
          simp [hty]
        rcases this with h | h <;> simp [hl, h]

theorem validate_rest (o : Opt) (v : Val) (c : Cache)
    (hv : v = .nil ∨ (∃ n, v = .u64 n) ∨ (∃ h, v = .bytes h) ∨ (∃ t, v = .other t)) :
    validate o v = .ok c ↔ Valid o v c := by
  have hc : canon o.ty v = none := by
    rcases hv with rfl | ⟨n, rfl⟩ | ⟨h, rfl⟩ | ⟨t, rfl⟩ <;> cases o.ty <;> rfl
  simp only [Valid, hc]
  simp
  rcases hv with rfl | ⟨n, rfl⟩ | ⟨h, rfl⟩ | ⟨t, rfl⟩ <;> unfold validate <;> split <;> simp

theorem validate_ok_iff_valid (o : Opt) (ho : RegOK o) (v : Val) (hv : v.WF) (c : Cache) :
    validate o v = .ok c ↔ Valid o v c := by
  cases v with
  | nil => exact validate_rest o _ c (Or.inl rfl)
  | str s => exact validate_str o s c
  | strs l => exact validate_strs o ho l c
  | anys l => exact validate_anys o ho l c
  | int k n => exact validate_int o k n hv c
  | u64 n => exact validate_rest o _ c (Or.inr (Or.inl ⟨n, rfl⟩))
  | flt w neg mag half => exact validate_flt o w neg mag half c
  | bool b => exact validate_bool o b c
  | bytes h => exact validate_rest o _ c (Or.inr (Or.inr (Or.inl ⟨h, rfl⟩)))
  | other t => exact validate_rest o _ c (Or.inr (Or.inr (Or.inr ⟨t, rfl⟩)))

end PB.Config
