import PB.Model.Config
import PB.Spec.Config
/-
Helper lemmas for C04 (sequential model PB.Config).
-/
namespace PB.Config

/-! ### registry lookups -/

theorem find_eq (st : St) (k : Key) : st.find k = st.opts.find? (fun o => o.key = k) := rfl

theorem find?_setOptIn_same (o' : Opt) : ∀ (l : List Opt), (∃ p ∈ l, p.key = o'.key) →
    (setOptIn o' l).find? (fun o => o.key = o'.key) = some o'
  | [], h => by simp at h
  | p :: rest, h => by
    by_cases hp : p.key = o'.key
    · simp [setOptIn, hp]
    · have : ∃ q ∈ rest, q.key = o'.key := by
        rcases h with ⟨q, hq, hk⟩
        cases hq with
        | head => exact absurd hk hp
        | tail _ hq' => exact ⟨q, hq', hk⟩
      simp [setOptIn, hp, find?_setOptIn_same o' rest this]

theorem find?_setOptIn_other (o' : Opt) (k : Key) (hk : k ≠ o'.key) : ∀ (l : List Opt),
    (setOptIn o' l).find? (fun o => o.key = k) = l.find? (fun o => o.key = k)
  | [] => rfl
  | p :: rest => by
    by_cases hp : p.key = o'.key
    · have h1 : ¬ p.key = k := fun h => hk (h ▸ hp)
      have h2 : ¬ o'.key = k := fun h => hk h.symm
      simp [setOptIn, hp, List.find?, h2, h1]
    · by_cases hpk : p.key = k
      · simp [setOptIn, List.find?, hpk, hk]
      · simp [setOptIn, hp, List.find?, hpk, find?_setOptIn_other o' k hk rest]

theorem setOptIn_self (o : Opt) : ∀ (l : List Opt), l.find? (fun p => p.key = o.key) = some o → setOptIn o l = l
  | [], h => by simp at h
  | p :: rest, h => by
    by_cases hp : p.key = o.key
    · simp [List.find?, hp] at h
      simp [setOptIn, hp, h]
    · simp [List.find?, hp] at h
      simp [setOptIn, hp, setOptIn_self o rest h]

theorem setOptIn_keys (o' : Opt) : ∀ (l : List Opt), (setOptIn o' l).map (·.key) = l.map (·.key)
  | [] => rfl
  | p :: rest => by
    by_cases hp : p.key = o'.key
    · simp [setOptIn, hp]
    · simp [setOptIn, hp, setOptIn_keys o' rest]

theorem find?_some_mem {l : List Opt} {k : Key} {o : Opt} (h : l.find? (fun p => p.key = k) = some o) :
    o ∈ l ∧ o.key = k := by
  have h1 := List.mem_of_find?_eq_some h
  have h2 := List.find?_some h
  simp at h2
  exact ⟨h1, h2⟩

/-! ### isAllowedPossibleValue on typed values, entry loop -/

theorem any_pvEq_str (l : List PV) (s : String) : l.any (fun p => pvEq p (.str s)) = l.contains (PV.s s) := by
  induction l with
  | nil => rfl
  | cons p rest ih =>
    rw [List.any_cons, List.contains_cons, ih]
    cases p with
    | s x =>
      by_cases h : x = s
      · simp [pvEq, h]
      · have e1 := beq_eq_false_iff_ne.mpr h
        have e2 : (PV.s s == PV.s x) = false := beq_eq_false_iff_ne.mpr (by intro e; injection e with e; exact h e.symm)
        simp [pvEq, e1, e2]
    | i n => simp [pvEq]
    | b x => simp [pvEq]

theorem any_pvEq_bool (l : List PV) (b : Bool) : l.any (fun p => pvEq p (.bool b)) = l.contains (PV.b b) := by
  induction l with
  | nil => rfl
  | cons p rest ih =>
    rw [List.any_cons, List.contains_cons, ih]
    cases p with
    | s x => simp [pvEq]
    | i n => simp [pvEq]
    | b x =>
      by_cases h : x = b
      · simp [pvEq, h]
      · have e1 := beq_eq_false_iff_ne.mpr h
        have e2 : (PV.b b == PV.b x) = false := beq_eq_false_iff_ne.mpr (by intro e; injection e with e; exact h e.symm)
        simp [pvEq, e1, e2]

theorem any_pvEq_int (l : List PV) (k : IKind) (n : Int) (hf : k.fits n = true) :
    l.any (fun p => pvEq p (.int k n)) = l.contains (PV.i n) := by
  induction l with
  | nil => rfl
  | cons p rest ih =>
    rw [List.any_cons, List.contains_cons, ih]
    cases p with
    | s x => simp [pvEq]
    | i m =>
      by_cases h : m = n
      · simp [pvEq, h, hf]
      · have e1 := beq_eq_false_iff_ne.mpr h
        have e2 : (PV.i n == PV.i m) = false := beq_eq_false_iff_ne.mpr (by intro e; injection e with e; exact h e.symm)
        simp [pvEq, e1, e2]
    | b x => simp [pvEq]

theorem any_pvEq_flt (l : List PV) (w neg : Bool) (mag : Nat) :
    l.any (fun p => pvEq p (.flt w neg mag false)) = l.contains (PV.i (fltInt neg mag)) := by
  induction l with
  | nil => rfl
  | cons p rest ih =>
    rw [List.any_cons, List.contains_cons, ih]
    cases p with
    | s x => simp [pvEq]
    | i m =>
      by_cases h : m = fltInt neg mag
      · simp [pvEq, h]
      · have e1 := beq_eq_false_iff_ne.mpr h
        have e2 : (PV.i (fltInt neg mag) == PV.i m) = false := beq_eq_false_iff_ne.mpr (by intro e; injection e with e; exact h e.symm)
        simp [pvEq, e1, e2]
    | b x => simp [pvEq]

theorem entriesCheck_ok_iff (o : Opt) (ss : List String) :
    entriesCheck o ss = .ok () ↔ ss.all (fun e => o.rx.matches e && isAllowed o.pvs (.str e)) = true := by
  induction ss with
  | nil => simp [entriesCheck]
  | cons e rest ih =>
    simp only [entriesCheck, List.all_cons]
    by_cases h1 : o.rx.matches e = true
    · by_cases h2 : isAllowed o.pvs (.str e) = true
      · simp [h1, h2, ih]
      · simp [h1, h2]
    · simp [h1]

theorem allStrings_map_some (l : List String) : allStrings (l.map some) = some l := by
  induction l with
  | nil => rfl
  | cons a rest ih => simp [allStrings, ih]

/-! ### validateValue accepts exactly the valid values (per value kind) -/

theorem isAllowed_str (pvs : Option (List PV)) (s : String) :
    isAllowed pvs (.str s) = match pvs with | none => true | some l => l.contains (PV.s s) := by
  cases pvs <;> simp [isAllowed, any_pvEq_str]

theorem isAllowed_bool (pvs : Option (List PV)) (b : Bool) :
    isAllowed pvs (.bool b) = match pvs with | none => true | some l => l.contains (PV.b b) := by
  cases pvs <;> simp [isAllowed, any_pvEq_bool]

theorem isAllowed_int (pvs : Option (List PV)) (k : IKind) (n : Int) (hf : k.fits n = true) :
    isAllowed pvs (.int k n) = match pvs with | none => true | some l => l.contains (PV.i n) := by
  cases pvs <;> simp [isAllowed, any_pvEq_int, hf]

theorem isAllowed_flt (pvs : Option (List PV)) (w neg : Bool) (mag : Nat) :
    isAllowed pvs (.flt w neg mag false) = match pvs with | none => true | some l => l.contains (PV.i (fltInt neg mag)) := by
  cases pvs <;> simp [isAllowed, any_pvEq_flt]

theorem validate_str (o : Opt) (s : String) (c : Cache) : validate o (.str s) = .ok c ↔ Valid o (.str s) c := by
  unfold Valid validate
  cases hty : o.ty <;> simp [canon, hty, regexOK, allowedOK, vfCheck, isAllowed_str]
  all_goals grind

theorem validate_bool (o : Opt) (b : Bool) (c : Cache) : validate o (.bool b) = .ok c ↔ Valid o (.bool b) c := by
  unfold Valid validate
  cases hty : o.ty <;> simp [canon, hty, regexOK, allowedOK, vfCheck, isAllowed_bool]
  all_goals grind

theorem validate_int (o : Opt) (k : IKind) (n : Int) (hf : k.fits n = true) (c : Cache) :
    validate o (.int k n) = .ok c ↔ Valid o (.int k n) c := by
  unfold Valid validate
  cases hty : o.ty <;> simp [canon, hty, regexOK, allowedOK, vfCheck, isAllowed_int, hf, intBody]
  all_goals grind

theorem validate_flt (o : Opt) (w neg : Bool) (mag : Nat) (half : Bool) (c : Cache) :
    validate o (.flt w neg mag half) = .ok c ↔ Valid o (.flt w neg mag half) c := by
  unfold Valid validate
  cases half
  · cases hty : o.ty <;> simp [canon, hty, regexOK, allowedOK, vfCheck, isAllowed_flt, intBody]
    all_goals grind
  · cases hty : o.ty <;> simp [canon, hty]
    all_goals grind

theorem Rx.matches_of_isNone {rx : Rx} (h : rx.isNone = true) (e : String) : rx.matches e = true := by
  cases rx <;> simp [Rx.isNone] at h <;> simp [Rx.matches]

theorem all_and_split (ss : List String) (p q : String → Bool) :
    ss.all (fun e => p e && q e) = (ss.all p && ss.all q) := by
  induction ss with
  | nil => rfl
  | cons a r ih => simp [List.all_cons, ih]; cases p a <;> cases q a <;> simp

theorem strsBody_ok_iff (o : Opt) (ho : RegOK o) (hty : o.ty = .strs) (ss : List String) (c : Cache) :
    strsBody o ss = .ok c ↔
      c = { a := ss } ∧ regexOK o { a := ss } = true ∧ allowedOK o { a := ss } = true ∧ vfOk o.vf o.ty { a := ss } = true := by
  unfold strsBody
  simp only [hty, ne_eq, not_true_eq_false, if_false]
  by_cases hn : o.rx.isNone = true
  · have hp : o.pvs = none := by
      cases hpv : o.pvs with
      | none => rfl
      | some l => have := ho (by simp [hpv]); simp [hn] at this
    have hall : ss.all o.rx.matches = true := by
      simp [List.all_eq_true]; intro e _; exact Rx.matches_of_isNone hn e
    simp [hn, vfCheck, regexOK, allowedOK, hty, hp, hall]
    grind
  · simp only [hn]
    cases hec : entriesCheck o ss with
    | error e =>
      have : ¬ (ss.all (fun e => o.rx.matches e && isAllowed o.pvs (.str e)) = true) := by
        rw [← entriesCheck_ok_iff, hec]; simp
      rw [all_and_split] at this
      simp [regexOK, allowedOK, hty]
      cases hpv : o.pvs with
      | none => simp [hpv, isAllowed] at this ⊢; grind
      | some l => simp [hpv, isAllowed_str] at this ⊢; grind
    | ok u =>
      have : ss.all (fun e => o.rx.matches e && isAllowed o.pvs (.str e)) = true := by
        rw [← entriesCheck_ok_iff, hec]
      rw [all_and_split] at this
      simp [regexOK, allowedOK, hty, vfCheck]
      cases hpv : o.pvs with
      | none => simp [hpv, isAllowed] at this ⊢; grind
      | some l => simp [hpv, isAllowed_str] at this ⊢; grind

theorem validate_strs (o : Opt) (ho : RegOK o) (ss : List String) (c : Cache) :
    validate o (.strs ss) = .ok c ↔ Valid o (.strs ss) c := by
  unfold Valid validate
  by_cases hty : o.ty = .strs
  · simp only [hty, ne_eq, not_true_eq_false, false_and, if_false, canon]
    have := strsBody_ok_iff o ho hty ss c
    rw [hty] at this
    rw [this]
    constructor
    · rintro ⟨rfl, h⟩; simpa using h
    · rintro ⟨h1, h⟩; cases h1; simpa using h
  · have hc : canon o.ty (.strs ss) = none := by cases h : o.ty <;> simp_all [canon]
    simp [hc, strsBody, hty]
    split <;> simp

theorem validateStrs_ok_iff (o : Opt) (ho : RegOK o) (ss : List String) (c : Cache) :
    validateStrs o ss = .ok c ↔ Valid o (.strs ss) c := by
  rw [← validate_strs o ho]
  simp [validateStrs, validate]

theorem validate_anys (o : Opt) (ho : RegOK o) (l : List (Option String)) (c : Cache) :
    validate o (.anys l) = .ok c ↔ Valid o (.anys l) c := by
  by_cases hty : o.ty = .strs
  · unfold validate
    simp only [hty, ne_eq, not_true_eq_false, false_and, if_false]
    cases hl : allStrings l with
    | none => simp [Valid, canon, hty, hl]
    | some ss =>
      simp only []
      have h := validateStrs_ok_iff o ho ss
      cases hv : validateStrs o ss with
      | error e =>
        have hno : ∀ c, ¬ Valid o (.strs ss) c := fun c hc => by
          have := (h c).mpr hc; rw [hv] at this; cases this
        simp
        intro hc
        apply hno c
        simpa [Valid, canon, hty, hl] using hc
      | ok c' =>
        have hc' := (h c').mp hv
        simp only [Valid, canon, hty, hl, Option.map_some, Option.some.injEq] at hc' ⊢
        obtain ⟨e1, e2, e3, e4⟩ := hc'
        subst e1
        have hvf : vfCheck o { a := ss } = .ok { a := ss } := by simp [vfCheck, hty, e4]
        rw [hvf]
        constructor
        · intro hh
          cases hh
          exact ⟨rfl, e2, e3, e4⟩
        · rintro ⟨rfl, _⟩
          rfl
  · have hc : canon o.ty (.anys l) = none := by cases h : o.ty <;> simp_all [canon]
    simp only [Valid, hc]
    simp
    unfold validate
    split
    · simp
    · cases hl : allStrings l with
      | none => simp [hl]
      | some ss =>
        have : validateStrs o ss = .error .notAllowed ∨ validateStrs o ss = .error .type := by
          unfold validateStrs strsBody
          simp [hty]
        rcases this with h | h <;> simp [hl, h]

theorem validate_rest (o : Opt) (v : Val) (c : Cache)
    (hv : v = .nil ∨ (∃ n, v = .u64 n) ∨ (∃ h, v = .bytes h) ∨ (∃ t, v = .other t)) :
    validate o v = .ok c ↔ Valid o v c := by
  have hc : canon o.ty v = none := by
    rcases hv with rfl | ⟨n, rfl⟩ | ⟨h, rfl⟩ | ⟨t, rfl⟩ <;> cases o.ty <;> rfl
  simp only [Valid, hc]
  simp
  rcases hv with rfl | ⟨n, rfl⟩ | ⟨h, rfl⟩ | ⟨t, rfl⟩ <;> unfold validate <;> split <;> simp

theorem validate_ok_iff_valid (o : Opt) (ho : RegOK o) (v : Val) (hv : v.WF) (c : Cache) :
    validate o v = .ok c ↔ Valid o v c := by
  cases v with
  | nil => exact validate_rest o _ c (Or.inl rfl)
  | str s => exact validate_str o s c
  | strs l => exact validate_strs o ho l c
  | anys l => exact validate_anys o ho l c
  | int k n => exact validate_int o k n hv c
  | u64 n => exact validate_rest o _ c (Or.inr (Or.inl ⟨n, rfl⟩))
  | flt w neg mag half => exact validate_flt o w neg mag half c
  | bool b => exact validate_bool o b c
  | bytes h => exact validate_rest o _ c (Or.inr (Or.inr (Or.inl ⟨h, rfl⟩)))
  | other t => exact validate_rest o _ c (Or.inr (Or.inr (Or.inr ⟨t, rfl⟩)))

/-! ### a validated value survives the trip through config.json -/

theorem fltInt_natAbs (n : Int) : fltInt (decide (n < 0)) n.natAbs = n := by
  unfold fltInt
  by_cases h : n < 0 <;> simp [h] <;> omega

theorem canon_jsonVal (ty : OptType) (v : Val) (c : Cache) (h : canon ty v = some c) :
    canon ty (jsonVal ty c) = some c := by
  cases ty <;> cases v <;> simp [canon] at h
  · subst h; simp [jsonVal, canon]
  · subst h; simp [jsonVal, canon, allStrings_map_some]
  · obtain ⟨ss, h1, h2⟩ := h; subst h2; simp [jsonVal, canon, allStrings_map_some]
  · subst h; simp [jsonVal, canon, fltInt_natAbs]
  · rename_i w neg mag half
    cases half <;> simp [canon] at h
    subst h; simp [jsonVal, canon, fltInt_natAbs]
  · subst h; simp [jsonVal, canon]

theorem jsonVal_WF (ty : OptType) (c : Cache) : (jsonVal ty c).WF := by
  cases ty <;> simp [jsonVal, Val.WF]

theorem migrate_one (v : Val) : migrate 1 v = if v = .str "old" then .str "new" else v := rfl

theorem migrate_two (v : Val) : migrate 2 v =
    match v with | .bool true => .str "yes" | .bool false => .str "no" | _ => v := rfl

theorem migrate_other (mg : Nat) (h1 : mg ≠ 1) (h2 : mg ≠ 2) (v : Val) : migrate mg v = v := by
  unfold migrate
  split <;> simp_all

theorem migrate_WF (mg : Nat) (v : Val) (h : v.WF) : (migrate mg v).WF := by
  by_cases h1 : mg = 1
  · subst h1; rw [migrate_one]; split <;> simp_all [Val.WF]
  · by_cases h2 : mg = 2
    · subst h2; rw [migrate_two]; split <;> simp_all [Val.WF]
    · rw [migrate_other mg h1 h2]; exact h

theorem migrate_jsonVal (mg : Nat) (ty : OptType) (v : Val) (c : Cache) (h : canon ty (migrate mg v) = some c) :
    migrate mg (jsonVal ty c) = jsonVal ty c := by
  by_cases h1 : mg = 1
  · subst h1
    rw [migrate_one] at h ⊢
    by_cases hv : v = .str "old"
    · simp only [hv, if_true] at h
      cases ty <;> simp [canon] at h
      subst h; simp [jsonVal]
    · simp only [hv, if_false] at h
      cases ty <;> cases v <;> simp [canon, jsonVal] at h ⊢
      subst h
      intro hs
      exact absurd (by simpa using hs) hv
  · by_cases h2 : mg = 2
    · subst h2
      rw [migrate_two] at h ⊢
      cases ty <;> simp [jsonVal]
      cases v <;> simp [canon] at h
      rename_i b; cases b <;> simp [canon] at h
    · rw [migrate_other mg h1 h2]

theorem valid_jsonVal (o : Opt) (v : Val) (c : Cache) (h : Valid o v c) : Valid o (jsonVal o.ty c) c :=
  ⟨canon_jsonVal o.ty v c h.1, h.2⟩

theorem check_json_idem (o : Opt) (ho : RegOK o) (v : Val) (hv : v.WF) (c : Cache) (h : check o v = .ok c) :
    check o (jsonVal o.ty c) = .ok c := by
  unfold check at h ⊢
  have hval := (validate_ok_iff_valid o ho _ (migrate_WF o.mg v hv) c).mp h
  rw [migrate_jsonVal o.mg o.ty v c hval.1]
  exact (validate_ok_iff_valid o ho _ (jsonVal_WF _ _) c).mpr (valid_jsonVal o _ c hval)

/-! ### updating one option in the registry -/

theorem check_static (a b : Opt) (h : SameStatic a b) (v : Val) : check a v = check b v := by
  obtain ⟨_, h2, _, h4, h5, h6, h7, _⟩ := h
  have e : ∀ ss, entriesCheck a ss = entriesCheck b ss := by
    intro ss; induction ss with
    | nil => rfl
    | cons x r ih => simp [entriesCheck, h4, h5, ih]
  unfold check validate validateStrs strsBody intBody vfCheck
  simp only [h2, h4, h5, h6, h7, e]

theorem regOK_static (a b : Opt) (h : SameStatic a b) (hb : RegOK b) : RegOK a := by
  obtain ⟨_, _, _, h4, h5, _⟩ := h
  unfold RegOK at *; rw [h4, h5]; exact hb

theorem mem_setOptIn {o' p : Opt} : ∀ {l : List Opt}, p ∈ setOptIn o' l → p = o' ∨ p ∈ l
  | [], h => by simp [setOptIn] at h
  | q :: rest, h => by
    by_cases hq : q.key = o'.key
    · simp [setOptIn, hq] at h
      rcases h with h | h
      · exact Or.inl h
      · exact Or.inr (List.mem_cons_of_mem _ h)
    · simp [setOptIn, hq] at h
      rcases h with h | h
      · exact Or.inr (h ▸ List.mem_cons_self)
      · rcases mem_setOptIn h with h | h
        · exact Or.inl h
        · exact Or.inr (List.mem_cons_of_mem _ h)

theorem updateGate_opts (st : St) : (updateGate st).opts = st.opts := by
  unfold updateGate; split <;> rfl

theorem updateGate_find (st : St) (k : Key) : (updateGate st).find k = st.find k := by
  simp [St.find, updateGate_opts]

theorem updateGate_gate (st : St) (o : Opt) (h : st.find rlKey = some o) :
    (updateGate st).gate = levelOf (layered o).s := by
  simp [updateGate, h]

theorem putOpt_opts (st : St) (o' : Opt) : (putOpt st o').opts = setOptIn o' st.opts := by
  unfold putOpt; split <;> simp [updateGate_opts]

theorem putOpt_find_same (st : St) (o o' : Opt) (h : st.find o'.key = some o) :
    (putOpt st o').find o'.key = some o' := by
  have hm := find?_some_mem h
  rw [find_eq, putOpt_opts]
  exact find?_setOptIn_same o' _ ⟨o, hm.1, hm.2⟩

theorem putOpt_find_other (st : St) (o' : Opt) (k : Key) (hk : k ≠ o'.key) :
    (putOpt st o').find k = st.find k := by
  rw [find_eq, putOpt_opts, find?_setOptIn_other o' k hk]; rfl

theorem putOpt_gate_rl (st : St) (o o' : Opt) (h : st.find o'.key = some o) (hk : o'.key = rlKey) :
    (putOpt st o').gate = levelOf (layered o').s := by
  have hf : ({ st with opts := setOptIn o' st.opts } : St).find rlKey = some o' := by
    have hm := find?_some_mem h
    rw [find_eq, ← hk]
    exact find?_setOptIn_same o' _ ⟨o, hm.1, hm.2⟩
  unfold putOpt
  simp only [hk, if_true]
  exact updateGate_gate _ _ hf

theorem putOpt_gate_other (st : St) (o' : Opt) (hk : o'.key ≠ rlKey) : (putOpt st o').gate = st.gate := by
  unfold putOpt; simp [hk]

theorem putOpt_misc (st : St) (o' : Opt) :
    (putOpt st o').gen = st.gen ∧ (putOpt st o').persist = st.persist ∧ (putOpt st o').file = st.file := by
  have hu : ∀ s : St, (updateGate s).gen = s.gen ∧ (updateGate s).persist = s.persist ∧ (updateGate s).file = s.file := by
    intro s; unfold updateGate; split <;> simp
  unfold putOpt
  split
  · exact hu _
  · simp

theorem wf_putOpt (st : St) (h : WF st) (o o' : Opt) (hf : st.find o'.key = some o) (hs : SameStatic o' o)
    (hu : ∀ c, o'.user = some c → check o' (jsonVal o'.ty c) = .ok c) : WF (putOpt st o') := by
  have hm := find?_some_mem hf
  refine ⟨?_, ?_, ?_, ?_, ?_⟩
  rotate_right
  · rw [(putOpt_misc st o').2.2]; exact h.fileWF
  · rw [putOpt_opts, setOptIn_keys]; exact h.nodup
  · intro p hp
    rw [putOpt_opts] at hp
    rcases mem_setOptIn hp with rfl | hp
    · exact regOK_static _ _ hs (h.reg o hm.1)
    · exact h.reg p hp
  · obtain ⟨r, hr1, hr2, hr3, hr4⟩ := h.rl
    by_cases hk : o'.key = rlKey
    · have : o = r := by rw [hk] at hf; rw [hf] at hr1; exact Option.some.inj hr1
      subst this
      refine ⟨o', ?_, ?_, ?_, ?_⟩
      · rw [← hk]; exact putOpt_find_same st o o' hf
      · rw [hs.2.1]; exact hr2
      · rw [hs.2.2.1]; exact hr3
      · exact putOpt_gate_rl st o o' hf hk
    · refine ⟨r, ?_, hr2, hr3, ?_⟩
      · rw [putOpt_find_other st o' rlKey (fun e => hk e.symm)]; exact hr1
      · rw [putOpt_gate_other st o' hk]; exact hr4
  · intro p hp c hc
    rw [putOpt_opts] at hp
    rcases mem_setOptIn hp with rfl | hp
    · exact hu c hc
    · exact h.uvalid p hp c hc

theorem effective_rl0 (gate : Nat) (o : Opt) (h : o.rl = 0) : effective gate o = layered o := by
  unfold effective layered
  cases hu : o.user <;> cases hd : o.dflt <;> simp [h]

theorem effRL_eq_gate (st : St) (h : WF st) : effRL st = st.gate := by
  obtain ⟨r, hr1, hr2, hr3, hr4⟩ := h.rl
  unfold effRL get getCache
  simp [hr1, GVal.ty, hr2, Cache.proj, effective_rl0 _ r hr3, hr4]

/-! ### single-option set -/

theorem putOpt_self (st : St) (h : WF st) (o : Opt) (hf : st.find o.key = some o) : putOpt st o = st := by
  have ho : setOptIn o st.opts = st.opts := setOptIn_self o st.opts hf
  unfold putOpt
  simp only [ho]
  by_cases hk : o.key = rlKey
  · obtain ⟨r, hr1, _, _, hr4⟩ := h.rl
    have : o = r := by rw [hk] at hf; rw [hf] at hr1; exact Option.some.inj hr1
    subst this
    simp only [hk, if_true]
    unfold updateGate
    rw [show ({ st with opts := st.opts } : St) = st from rfl, hr1]
    simp only []
    rw [← hr4]
  · simp [hk]

theorem save_find (st : St) (k : Key) : (save st).find k = st.find k := by
  unfold save; split <;> rfl

theorem signal_find (st : St) (k : Key) : (signal st).find k = st.find k := rfl

theorem save_gate (st : St) : (save st).gate = st.gate := by unfold save; split <;> rfl
theorem save_gen (st : St) : (save st).gen = st.gen := by unfold save; split <;> rfl
theorem save_opts (st : St) : (save st).opts = st.opts := by unfold save; split <;> rfl
theorem save_persist (st : St) : (save st).persist = st.persist := by unfold save; split <;> rfl

/-- The three possible outcomes of the locked section of a single-option set. -/
theorem writeUser_cases (st : St) (h : WF st) (k : Key) (v : Val) (hv : v.WF) :
    (st.find k = none ∧ writeUser st k v = (st, .error .unknown)) ∨
    (∃ o, st.find k = some o ∧ v = .nil ∧ writeUser st k v = (putOpt st { o with user := none }, .ok ())) ∨
    (∃ o c, st.find k = some o ∧ v ≠ .nil ∧ Valid o (migrate o.mg v) c ∧
        writeUser st k v = (putOpt st { o with user := some c }, .ok ())) ∨
    (∃ o e, st.find k = some o ∧ v ≠ .nil ∧ (∀ c, ¬ Valid o (migrate o.mg v) c) ∧
        writeUser st k v = (st, .error (.invalid e))) := by
  unfold writeUser
  cases hf : st.find k with
  | none => exact Or.inl ⟨rfl, rfl⟩
  | some o =>
    have hm := find?_some_mem hf
    have hiff := validate_ok_iff_valid o (h.reg o hm.1) _ (migrate_WF o.mg v hv)
    by_cases hn : v = .nil
    · exact Or.inr (Or.inl ⟨o, rfl, hn, by simp [hn]⟩)
    · simp only [hn, if_false]
      cases hc : check o v with
      | ok c =>
        refine Or.inr (Or.inr (Or.inl ⟨o, c, rfl, hn, (hiff c).mp hc, rfl⟩))
      | error e =>
        refine Or.inr (Or.inr (Or.inr ⟨o, e, rfl, hn, ?_, ?_⟩))
        · intro c hval
          have := (hiff c).mpr hval
          unfold check at hc; rw [hc] at this; cases this
        · have hk : o.key = k := hm.2
          rw [putOpt_self st h o (by rw [hk]; exact hf)]

/-- The same for the default layer. -/
theorem writeDflt_cases (st : St) (h : WF st) (k : Key) (v : Val) (hv : v.WF) :
    (st.find k = none ∧ writeDflt st k v = (st, .error .unknown)) ∨
    (∃ o, st.find k = some o ∧ v = .nil ∧ writeDflt st k v = (putOpt st { o with dflt := none }, .ok ())) ∨
    (∃ o c, st.find k = some o ∧ v ≠ .nil ∧ Valid o (migrate o.mg v) c ∧
        writeDflt st k v = (putOpt st { o with dflt := some c }, .ok ())) ∨
    (∃ o e, st.find k = some o ∧ v ≠ .nil ∧ (∀ c, ¬ Valid o (migrate o.mg v) c) ∧
        writeDflt st k v = (st, .error (.invalid e))) := by
  unfold writeDflt
  cases hf : st.find k with
  | none => exact Or.inl ⟨rfl, rfl⟩
  | some o =>
    have hm := find?_some_mem hf
    have hiff := validate_ok_iff_valid o (h.reg o hm.1) _ (migrate_WF o.mg v hv)
    by_cases hn : v = .nil
    · exact Or.inr (Or.inl ⟨o, rfl, hn, by simp [hn]⟩)
    · simp only [hn, if_false]
      cases hc : check o v with
      | ok c =>
        refine Or.inr (Or.inr (Or.inl ⟨o, c, rfl, hn, (hiff c).mp hc, rfl⟩))
      | error e =>
        refine Or.inr (Or.inr (Or.inr ⟨o, e, rfl, hn, ?_, ?_⟩))
        · intro c hval
          have := (hiff c).mpr hval
          unfold check at hc; rw [hc] at this; cases this
        · have hk : o.key = k := hm.2
          rw [putOpt_self st h o (by rw [hk]; exact hf)]

/-! ### whole-layer replace, invariants -/

theorem find?_map_key (f : Opt → Opt) (hf : ∀ o, (f o).key = o.key) (k : Key) : ∀ (l : List Opt),
    (l.map f).find? (fun o => o.key = k) = (l.find? (fun o => o.key = k)).map f
  | [] => rfl
  | p :: rest => by
    by_cases hp : p.key = k
    · simp [List.find?, hf, hp]
    · simp [List.find?, hf, hp, find?_map_key f hf k rest]

theorem lookup_mem {m : List (Key × Val)} {k : Key} {v : Val} (h : lookup m k = some v) : (k, v) ∈ m := by
  unfold lookup at h
  cases hf : m.find? (fun e => e.1 = k) with
  | none => simp [hf] at h
  | some e =>
    simp [hf] at h
    have h1 := List.mem_of_find?_eq_some hf
    have h2 := List.find?_some hf
    simp at h2
    cases e; simp_all

theorem replOne_some {m : List (Key × Val)} {o : Opt} {c : Cache} (h : replOne m o = some c) :
    ∃ v, lookup m o.key = some v ∧ check o v = .ok c := by
  unfold replOne at h
  cases hl : lookup m o.key with
  | none => simp [hl] at h
  | some v =>
    simp only [hl] at h
    cases hc : check o v with
    | ok c' => simp [hc] at h; subst h; exact ⟨v, rfl, hc⟩
    | error e => simp [hc] at h

/-- WF after replacing the user layer of every option. -/
theorem wf_mapUser (st : St) (h : WF st) (f : Opt → Option Cache)
    (hf : ∀ o ∈ st.opts, ∀ c, f o = some c → check o (jsonVal o.ty c) = .ok c) :
    WF (updateGate { st with opts := st.opts.map (fun o => { o with user := f o }) }) := by
  have hkey : ∀ o : Opt, ({ o with user := f o } : Opt).key = o.key := fun _ => rfl
  refine ⟨?_, ?_, ?_, ?_, ?_⟩
  rotate_right
  · have : ∀ s : St, (updateGate s).file = s.file := by intro s; unfold updateGate; split <;> rfl
    rw [this]; exact h.fileWF
  · rw [updateGate_opts]; simp only [List.map_map]; exact h.nodup
  · intro p hp
    rw [updateGate_opts] at hp
    simp only [List.mem_map] at hp
    obtain ⟨o, ho, rfl⟩ := hp
    exact h.reg o ho
  · obtain ⟨r, hr1, hr2, hr3, _⟩ := h.rl
    have hfind : ({ st with opts := st.opts.map (fun o => { o with user := f o }) } : St).find rlKey
        = some { r with user := f r } := by
      rw [find_eq]; simp only []
      rw [find?_map_key _ hkey rlKey st.opts]
      rw [find_eq] at hr1; rw [hr1]; rfl
    refine ⟨{ r with user := f r }, ?_, hr2, hr3, ?_⟩
    · rw [updateGate_find]; exact hfind
    · exact updateGate_gate _ _ hfind
  · intro p hp c hc
    rw [updateGate_opts] at hp
    simp only [List.mem_map] at hp
    obtain ⟨o, ho, rfl⟩ := hp
    exact (check_static { o with user := f o } o ⟨rfl, rfl, rfl, rfl, rfl, rfl, rfl, rfl⟩ _).trans (hf o ho c hc)

theorem wf_mapDflt (st : St) (h : WF st) (f : Opt → Option Cache) :
    WF (updateGate { st with opts := st.opts.map (fun o => { o with dflt := f o }) }) := by
  have hkey : ∀ o : Opt, ({ o with dflt := f o } : Opt).key = o.key := fun _ => rfl
  refine ⟨?_, ?_, ?_, ?_, ?_⟩
  rotate_right
  · have : ∀ s : St, (updateGate s).file = s.file := by intro s; unfold updateGate; split <;> rfl
    rw [this]; exact h.fileWF
  · rw [updateGate_opts]; simp only [List.map_map]; exact h.nodup
  · intro p hp
    rw [updateGate_opts] at hp
    simp only [List.mem_map] at hp
    obtain ⟨o, ho, rfl⟩ := hp
    exact h.reg o ho
  · obtain ⟨r, hr1, hr2, hr3, _⟩ := h.rl
    have hfind : ({ st with opts := st.opts.map (fun o => { o with dflt := f o }) } : St).find rlKey
        = some { r with dflt := f r } := by
      rw [find_eq]; simp only []
      rw [find?_map_key _ hkey rlKey st.opts]
      rw [find_eq] at hr1; rw [hr1]; rfl
    refine ⟨{ r with dflt := f r }, ?_, hr2, hr3, ?_⟩
    · rw [updateGate_find]; exact hfind
    · exact updateGate_gate _ _ hfind
  · intro p hp c hc
    rw [updateGate_opts] at hp
    simp only [List.mem_map] at hp
    obtain ⟨o, ho, rfl⟩ := hp
    exact (check_static { o with dflt := f o } o ⟨rfl, rfl, rfl, rfl, rfl, rfl, rfl, rfl⟩ _).trans (h.uvalid o ho c hc)

theorem wf_signal (st : St) (h : WF st) : WF (signal st) := ⟨h.nodup, h.reg, h.rl, h.uvalid, h.fileWF⟩

theorem mem_foldl_putLeaf (e : Key × Val) : ∀ (m t : List (Key × Val)), e ∈ m.foldl putLeaf t → e ∈ t ∨ e ∈ m
  | [], t, h => Or.inl h
  | kv :: rest, t, h => by
    rcases mem_foldl_putLeaf e rest (putLeaf t kv) h with h1 | h1
    · unfold putLeaf at h1
      rcases List.mem_append.mp h1 with h2 | h2
      · exact Or.inl (List.mem_filter.mp h2).1
      · simp at h2; exact Or.inr (h2 ▸ List.mem_cons_self)
    · exact Or.inr (List.mem_cons_of_mem _ h1)

theorem mem_expand {e : Key × Val} {m : List (Key × Val)} (h : e ∈ expand m) : e ∈ m := by
  rcases mem_foldl_putLeaf e m [] h with h | h
  · cases h
  · exact h

theorem userEntries_WF (st : St) : ∀ e ∈ userEntries st, e.2.WF := by
  intro e he
  unfold userEntries at he
  simp only [List.mem_filterMap] at he
  obtain ⟨o, _, ho⟩ := he
  cases hu : o.user with
  | none => simp [hu] at ho
  | some c => simp [hu] at ho; rw [← ho]; exact jsonVal_WF _ _

theorem wf_save (st : St) (h : WF st) : WF (save st) := by
  unfold save; split
  · refine ⟨h.nodup, h.reg, h.rl, h.uvalid, ?_⟩
    intro t ht e he
    simp at ht
    subst ht
    exact userEntries_WF st e (mem_expand he)
  · exact h

theorem wf_file (st : St) (h : WF st) (f : File) (hf : ∀ t, f = .tree t → ∀ e ∈ t, e.2.WF) :
    WF { st with file := f } := ⟨h.nodup, h.reg, h.rl, h.uvalid, hf⟩

/-! ### every call keeps the state well-formed -/

theorem check_of_valid (o : Opt) (ho : RegOK o) (v : Val) (hv : v.WF) (c : Cache) (h : Valid o (migrate o.mg v) c) :
    check o v = .ok c :=
  (validate_ok_iff_valid o ho _ (migrate_WF o.mg v hv) c).mpr h

theorem wf_writeUser (st : St) (h : WF st) (k : Key) (v : Val) (hv : v.WF) : WF (writeUser st k v).1 := by
  rcases writeUser_cases st h k v hv with ⟨_, e⟩ | ⟨o, hf, _, e⟩ | ⟨o, c, hf, _, hval, e⟩ | ⟨o, _, _, _, _, e⟩
  · rw [e]; exact h
  · rw [e]
    have hm := find?_some_mem hf
    exact wf_putOpt st h o _ (by rw [show ({ o with user := none } : Opt).key = k from hm.2]; exact hf)
      ⟨rfl, rfl, rfl, rfl, rfl, rfl, rfl, rfl⟩ (by intro c hc; cases hc)
  · rw [e]
    have hm := find?_some_mem hf
    refine wf_putOpt st h o _ (by rw [show ({ o with user := some c } : Opt).key = k from hm.2]; exact hf)
      ⟨rfl, rfl, rfl, rfl, rfl, rfl, rfl, rfl⟩ ?_
    intro c' hc'
    have : c = c' := by simpa using hc'
    subst this
    have hck := check_of_valid o (h.reg o hm.1) v hv c hval
    exact (check_static { o with user := some c } o ⟨rfl, rfl, rfl, rfl, rfl, rfl, rfl, rfl⟩ _).trans
      (check_json_idem o (h.reg o hm.1) v hv c hck)
  · rw [e]; exact h

theorem wf_writeDflt (st : St) (h : WF st) (k : Key) (v : Val) (hv : v.WF) : WF (writeDflt st k v).1 := by
  rcases writeDflt_cases st h k v hv with ⟨_, e⟩ | ⟨o, hf, _, e⟩ | ⟨o, c, hf, _, hval, e⟩ | ⟨o, _, _, _, _, e⟩
  · rw [e]; exact h
  · rw [e]
    have hm := find?_some_mem hf
    refine wf_putOpt st h o _ (by rw [show ({ o with dflt := none } : Opt).key = k from hm.2]; exact hf)
      ⟨rfl, rfl, rfl, rfl, rfl, rfl, rfl, rfl⟩ ?_
    intro c' hc'
    exact (check_static { o with dflt := none } o ⟨rfl, rfl, rfl, rfl, rfl, rfl, rfl, rfl⟩ _).trans (h.uvalid o hm.1 c' hc')
  · rw [e]
    have hm := find?_some_mem hf
    refine wf_putOpt st h o _ (by rw [show ({ o with dflt := some c } : Opt).key = k from hm.2]; exact hf)
      ⟨rfl, rfl, rfl, rfl, rfl, rfl, rfl, rfl⟩ ?_
    intro c' hc'
    exact (check_static { o with dflt := some c } o ⟨rfl, rfl, rfl, rfl, rfl, rfl, rfl, rfl⟩ _).trans (h.uvalid o hm.1 c' hc')
  · rw [e]; exact h

theorem wf_setUser (st : St) (h : WF st) (k : Key) (v : Val) (hv : v.WF) : WF (setUser st k v).1 := by
  have hw := wf_writeUser st h k v hv
  unfold setUser
  split
  · rename_i st' heq; rw [heq] at hw; exact wf_save _ (wf_signal _ hw)
  · rename_i st' e heq; rw [heq] at hw; exact hw

theorem wf_setDflt (st : St) (h : WF st) (k : Key) (v : Val) (hv : v.WF) : WF (setDflt st k v).1 := by
  have hw := wf_writeDflt st h k v hv
  unfold setDflt
  split
  · rename_i st' heq; rw [heq] at hw; exact wf_signal _ hw
  · rename_i st' e heq; rw [heq] at hw; exact hw

theorem wf_replaceUser (st : St) (h : WF st) (m : List (Key × Val)) (hm : ∀ e ∈ m, e.2.WF) :
    WF (replaceUser st m).1 := by
  unfold replaceUser
  refine wf_signal _ (wf_mapUser st h (replOne m) ?_)
  intro o ho c hc
  obtain ⟨v, hl, hck⟩ := replOne_some hc
  exact check_json_idem o (h.reg o ho) v (hm _ (lookup_mem hl)) c hck

theorem wf_replaceDflt (st : St) (h : WF st) (m : List (Key × Val)) : WF (replaceDflt st m).1 := by
  unfold replaceDflt
  exact wf_signal _ (wf_mapDflt st h (replOne m))

theorem wf_load (st : St) (h : WF st) (b : Bool) : WF (load st b).1 := by
  unfold load
  split
  · exact h
  · split
    · exact h
    · exact h
    · rename_i t heq
      have := wf_replaceUser st h (flatten t) (h.fileWF t heq)
      simp only []
      split <;> exact this


theorem wf_apply (st : St) (h : WF st) (op : Op) (hop : op.WF) : WF (apply st op) := by
  cases op with
  | set k v => exact wf_setUser st h k v hop
  | setd k v => exact wf_setDflt st h k v hop
  | rep m => exact wf_replaceUser st h m hop
  | repd m => exact wf_replaceDflt st h m
  | save => exact wf_save st h
  | load b => exact wf_load st h b
  | wfile f =>
    refine wf_file st h f ?_
    intro t ht
    subst ht
    exact hop

theorem wf_run (ops : List Op) : ∀ (st : St), WF st → (∀ op ∈ ops, op.WF) → WF (run st ops) := by
  induction ops with
  | nil => intro st h _; exact h
  | cons op rest ih =>
    intro st h hops
    exact ih (apply st op) (wf_apply st h op (hops op List.mem_cons_self))
      (fun o ho => hops o (List.mem_cons_of_mem _ ho))

/-! ### Register and the initial state -/

theorem mem_insertOpt {o p : Opt} : ∀ {l : List Opt}, p ∈ insertOpt o l → p = o ∨ p ∈ l
  | [], h => by simp [insertOpt] at h; exact Or.inl h
  | q :: rest, h => by
    by_cases hq : q.key = o.key
    · simp [insertOpt, hq] at h
      rcases h with h | h
      · exact Or.inl h
      · exact Or.inr (List.mem_cons_of_mem _ h)
    · simp [insertOpt, hq] at h
      rcases h with h | h
      · exact Or.inr (h ▸ List.mem_cons_self)
      · rcases mem_insertOpt h with h | h
        · exact Or.inl h
        · exact Or.inr (List.mem_cons_of_mem _ h)

theorem find?_insertOpt_other (o : Opt) (k : Key) (hk : k ≠ o.key) : ∀ (l : List Opt),
    (insertOpt o l).find? (fun p => p.key = k) = l.find? (fun p => p.key = k)
  | [] => by
    have : ¬ o.key = k := fun h => hk h.symm
    simp [insertOpt, List.find?, this]
  | p :: rest => by
    by_cases hp : p.key = o.key
    · have h1 : ¬ p.key = k := fun h => hk (h ▸ hp)
      have h2 : ¬ o.key = k := fun h => hk h.symm
      simp [insertOpt, hp, List.find?, h2, h1]
    · by_cases hpk : p.key = k
      · simp [insertOpt, List.find?, hpk, hk]
      · simp [insertOpt, hp, List.find?, hpk, find?_insertOpt_other o k hk rest]

theorem find?_insertOpt_same (o : Opt) : ∀ (l : List Opt),
    (insertOpt o l).find? (fun p => p.key = o.key) = some o
  | [] => by simp [insertOpt, List.find?]
  | p :: rest => by
    by_cases hp : p.key = o.key
    · simp [insertOpt, hp, List.find?]
    · simp [insertOpt, hp, List.find?, find?_insertOpt_same o rest]

theorem insertOpt_keys_mem (o : Opt) (k : Key) : ∀ (l : List Opt),
    k ∈ (insertOpt o l).map (·.key) → k = o.key ∨ k ∈ l.map (·.key)
  | [], h => by simp [insertOpt] at h; exact Or.inl h
  | p :: rest, h => by
    by_cases hp : p.key = o.key
    · simp [insertOpt, hp] at h
      rcases h with h | h
      · exact Or.inl h
      · exact Or.inr (by simp; exact Or.inr h)
    · simp [insertOpt, hp] at h
      rcases h with h | h
      · exact Or.inr (by simp [h])
      · rcases insertOpt_keys_mem o k rest (by simpa using h) with h | h
        · exact Or.inl h
        · exact Or.inr (by simp at h ⊢; exact Or.inr h)

theorem insertOpt_nodup (o : Opt) : ∀ (l : List Opt), (l.map (·.key)).Nodup → ((insertOpt o l).map (·.key)).Nodup
  | [], _ => by simp [insertOpt]
  | p :: rest, h => by
    simp only [List.map_cons, List.nodup_cons] at h
    by_cases hp : p.key = o.key
    · simp only [insertOpt, hp, if_true, List.map_cons, List.nodup_cons]
      rw [← hp]; exact h
    · simp only [insertOpt, hp, if_false, List.map_cons, List.nodup_cons]
      refine ⟨?_, insertOpt_nodup o rest h.2⟩
      intro hmem
      rcases insertOpt_keys_mem o p.key rest hmem with e | e
      · exact hp e
      · exact h.1 e

theorem mkOpt_props {key : Key} {ty : OptType} {rl rxi : Nat} {pvs : Option (List PV)} {vf mg : Nat} {dv : Val} {o : Opt}
    (h : mkOpt key ty rl rxi pvs vf mg dv = .ok o) : RegOK o ∧ o.user = none ∧ o.key = key := by
  unfold mkOpt at h
  split at h
  · cases h
  · split at h
    · cases h
    · injection h with h
      subst h
      refine ⟨?_, rfl, rfl⟩
      unfold RegOK mkRx
      simp only []
      intro hp
      by_cases hr : rxi ≠ 0
      · simp [hr, Rx.isNone]
      · cases pvs with
        | none => simp at hp
        | some l => simp [hr, Rx.isNone]

theorem wf_register (st : St) (h : WF st) (o : Opt) (hreg : RegOK o) (hu : o.user = none) (hk : o.key ≠ rlKey) :
    WF (register st o) := by
  refine ⟨insertOpt_nodup o st.opts h.nodup, ?_, ?_, ?_, h.fileWF⟩
  · intro p hp
    rcases mem_insertOpt hp with rfl | hp
    · exact hreg
    · exact h.reg p hp
  · obtain ⟨r, hr1, hr2, hr3, hr4⟩ := h.rl
    refine ⟨r, ?_, hr2, hr3, hr4⟩
    show (insertOpt o st.opts).find? _ = _
    rw [find?_insertOpt_other o rlKey (fun e => hk e.symm)]
    exact hr1
  · intro p hp c hc
    rcases mem_insertOpt hp with rfl | hp
    · rw [hu] at hc; cases hc
    · exact h.uvalid p hp c hc

theorem wf_init (persist : Bool) : WF (init persist) := by
  refine ⟨?_, ?_, ?_, ?_, ?_⟩
  · simp [init, elOpt, rlOpt, elKey, rlKey]
  · intro o ho
    simp [init] at ho
    rcases ho with rfl | rfl <;> simp [RegOK, elOpt, rlOpt, Rx.isNone]
  · refine ⟨rlOpt, ?_, rfl, rfl, ?_⟩
    · simp [St.find, init, List.find?, elOpt, rlOpt, elKey, rlKey]
    · simp [init, layered, rlOpt, levelOf]
  · intro o ho c hc
    simp [init] at ho
    rcases ho with rfl | rfl <;> simp [elOpt, rlOpt] at hc
  · intro t ht; simp [init] at ht

/-! ### Expand / Flatten and the saved user layer -/

theorem conflicts_comm (p q : Key) : conflicts p q = conflicts q p := by
  unfold conflicts; exact Bool.or_comm _ _

theorem foldl_putLeaf_append : ∀ (m t : List (Key × Val)),
    (∀ e ∈ t, ∀ kv ∈ m, conflicts e.1 kv.1 = false) →
    (m.map (·.1)).Pairwise (fun a b => conflicts a b = false) →
    m.foldl putLeaf t = t ++ m
  | [], t, _, _ => by simp
  | kv :: rest, t, h1, h2 => by
    simp only [List.map_cons, List.pairwise_cons] at h2
    have hput : putLeaf t kv = t ++ [kv] := by
      unfold putLeaf
      congr 1
      rw [List.filter_eq_self]
      intro e he
      simp [h1 e he kv List.mem_cons_self]
    simp only [List.foldl_cons, hput]
    rw [foldl_putLeaf_append rest (t ++ [kv])]
    · simp
    · intro e he kv' hkv'
      rcases List.mem_append.mp he with he | he
      · exact h1 e he kv' (List.mem_cons_of_mem _ hkv')
      · simp at he; subst he
        exact h2.1 kv'.1 (List.mem_map_of_mem hkv')
    · exact h2.2

theorem expand_eq_self (m : List (Key × Val)) (h : PrefixFree (m.map (·.1))) : expand m = m := by
  unfold expand
  rw [foldl_putLeaf_append m [] (by intro e he; cases he) h]
  simp

def ueList (l : List Opt) : List (Key × Val) := l.filterMap (fun o => o.user.map (fun c => (o.key, jsonVal o.ty c)))

theorem ueList_keys_sublist : ∀ (l : List Opt), ((ueList l).map (·.1)).Sublist (l.map (·.key))
  | [] => by simp [ueList]
  | p :: rest => by
    have ih := ueList_keys_sublist rest
    unfold ueList at ih ⊢
    cases hu : p.user with
    | none => simp [List.filterMap_cons, hu]; exact List.Sublist.cons _ ih
    | some c => simp [List.filterMap_cons, hu]; exact ih

theorem lookup_none_of_not_mem (m : List (Key × Val)) (k : Key) (h : k ∉ m.map (·.1)) : lookup m k = none := by
  unfold lookup
  cases hf : m.find? (fun e => e.1 = k) with
  | none => rfl
  | some e =>
    exfalso
    have h1 := List.mem_of_find?_eq_some hf
    have h2 := List.find?_some hf
    simp at h2
    exact h (h2 ▸ List.mem_map_of_mem h1)

theorem lookup_ueList : ∀ (l : List Opt), (l.map (·.key)).Nodup → ∀ o ∈ l,
    lookup (ueList l) o.key = o.user.map (fun c => jsonVal o.ty c)
  | [], _, o, ho => by cases ho
  | p :: rest, hnd, o, ho => by
    simp only [List.map_cons, List.nodup_cons] at hnd
    have hsub := ueList_keys_sublist rest
    rcases List.mem_cons.mp ho with rfl | ho'
    · cases hu : o.user with
      | none =>
        have : ueList (o :: rest) = ueList rest := by simp [ueList, List.filterMap_cons, hu]
        rw [this]
        simp only [Option.map_none]
        exact lookup_none_of_not_mem _ _ (fun hm => hnd.1 (hsub.subset hm))
      | some c =>
        have : ueList (o :: rest) = (o.key, jsonVal o.ty c) :: ueList rest := by simp [ueList, List.filterMap_cons, hu]
        rw [this]
        simp [lookup, List.find?]
    · have hne : p.key ≠ o.key := fun e => hnd.1 (e ▸ List.mem_map_of_mem ho')
      have ih := lookup_ueList rest hnd.2 o ho'
      cases hu : p.user with
      | none =>
        have : ueList (p :: rest) = ueList rest := by simp [ueList, List.filterMap_cons, hu]
        rw [this]; exact ih
      | some c =>
        have : ueList (p :: rest) = (p.key, jsonVal p.ty c) :: ueList rest := by simp [ueList, List.filterMap_cons, hu]
        rw [this]
        unfold lookup at ih ⊢
        simp only [List.find?, hne, decide_false]
        exact ih

theorem userEntries_eq (st : St) : userEntries st = ueList st.opts := rfl

theorem replOne_userEntries (st : St) (h : WF st) (o : Opt) (ho : o ∈ st.opts) :
    replOne (userEntries st) o = o.user ∧ replErr (userEntries st) o = none := by
  have hl := lookup_ueList st.opts h.nodup o ho
  rw [← userEntries_eq] at hl
  unfold replOne replErr
  rw [hl]
  cases hu : o.user with
  | none => simp
  | some c => simp [h.uvalid o ho c hu]

theorem map_id_of_forall {l : List Opt} {f : Opt → Opt} (h : ∀ o ∈ l, f o = o) : l.map f = l := by
  induction l with
  | nil => rfl
  | cons a r ih =>
    simp only [List.map_cons]
    rw [h a List.mem_cons_self, ih (fun o ho => h o (List.mem_cons_of_mem _ ho))]

theorem updateGate_self (st : St) (h : WF st) : updateGate st = st := by
  obtain ⟨r, hr1, _, _, hr4⟩ := h.rl
  unfold updateGate
  rw [hr1]
  simp only []
  rw [← hr4]

theorem replaceUser_userEntries (st : St) (h : WF st) :
    replaceUser st (userEntries st) = (signal st, []) := by
  unfold replaceUser
  have hopts : st.opts.map (fun o => { o with user := replOne (userEntries st) o }) = st.opts := by
    apply map_id_of_forall
    intro o ho
    rw [(replOne_userEntries st h o ho).1]
  have herrs : st.opts.filterMap (replErr (userEntries st)) = [] := by
    rw [List.filterMap_eq_nil_iff]
    intro o ho
    exact (replOne_userEntries st h o ho).2
  simp only [hopts, herrs]
  rw [show ({ st with opts := st.opts } : St) = st from rfl, updateGate_self st h]

theorem userEntries_prefixFree (st : St) (hp : PrefixFree (st.opts.map (·.key))) :
    PrefixFree ((userEntries st).map (·.1)) := by
  unfold PrefixFree at *
  exact List.Pairwise.sublist (ueList_keys_sublist st.opts) hp

theorem load_save (st : St) (h : WF st) (hp : PrefixFree (st.opts.map (·.key))) (hpers : st.persist = true) (b : Bool) :
    load (save st) b = (signal (save st), .ok []) := by
  have hs : save st = { st with file := .tree (userEntries st) } := by
    unfold save; rw [hpers, expand_eq_self _ (userEntries_prefixFree st hp)]; simp
  have hwf := wf_save st h
  have hue : userEntries (save st) = userEntries st := by unfold userEntries; rw [save_opts]
  unfold load
  rw [save_persist, hpers]
  simp only [Bool.not_true, Bool.false_eq_true, if_false]
  have hfile : (save st).file = .tree (userEntries st) := by rw [hs]
  rw [hfile]
  simp only [flatten]
  rw [← hue]
  simp only [replaceUser_userEntries (save st) hwf]
  simp

/-! ### getter closures along histories -/

theorem get_eq_of (st st' : St) (h1 : st'.opts = st.opts) (h2 : st'.gate = st.gate) (k : Key) (fb : GVal) :
    get st' k fb = get st k fb := by
  unfold get getCache St.find
  rw [h1, h2]

theorem setUser_gen (st : St) (h : WF st) (k : Key) (v : Val) (hv : v.WF) :
    (setUser st k v).1.gen = st.gen + 1 ∨ (setUser st k v).1 = st := by
  unfold setUser
  rcases writeUser_cases st h k v hv with ⟨_, e⟩ | ⟨o, _, _, e⟩ | ⟨o, c, _, _, _, e⟩ | ⟨o, _, _, _, _, e⟩
  · rw [e]; exact Or.inr rfl
  · rw [e]; left; simp only []; rw [save_gen]; simp [signal, (putOpt_misc _ _).1]
  · rw [e]; left; simp only []; rw [save_gen]; simp [signal, (putOpt_misc _ _).1]
  · rw [e]; exact Or.inr rfl

/-- A successful single-option set has signalled: the validity-flag generation advanced. -/
theorem setUser_ok_gen (st : St) (h : WF st) (k : Key) (v : Val) (hv : v.WF)
    (hok : (setUser st k v).2 = .ok ()) : (setUser st k v).1.gen = st.gen + 1 := by
  unfold setUser at hok ⊢
  rcases writeUser_cases st h k v hv with ⟨_, e⟩ | ⟨o, _, _, e⟩ | ⟨o, c, _, _, _, e⟩ | ⟨o, _, _, _, _, e⟩
  · rw [e] at hok; simp at hok
  · rw [e]; simp only []; rw [save_gen]; simp [signal, (putOpt_misc _ _).1]
  · rw [e]; simp only []; rw [save_gen]; simp [signal, (putOpt_misc _ _).1]
  · rw [e] at hok; simp at hok

theorem setDflt_gen (st : St) (h : WF st) (k : Key) (v : Val) (hv : v.WF) :
    (setDflt st k v).1.gen = st.gen + 1 ∨ (setDflt st k v).1 = st := by
  unfold setDflt
  rcases writeDflt_cases st h k v hv with ⟨_, e⟩ | ⟨o, _, _, e⟩ | ⟨o, c, _, _, _, e⟩ | ⟨o, _, _, _, _, e⟩
  · rw [e]; exact Or.inr rfl
  · rw [e]; left; simp [signal, (putOpt_misc _ _).1]
  · rw [e]; left; simp [signal, (putOpt_misc _ _).1]
  · rw [e]; exact Or.inr rfl

theorem updateGate_gen (s : St) : (updateGate s).gen = s.gen := by unfold updateGate; split <;> rfl

theorem replaceUser_gen (st : St) (m : List (Key × Val)) : (replaceUser st m).1.gen = st.gen + 1 := by
  simp [replaceUser, signal, updateGate_gen]

theorem replaceDflt_gen (st : St) (m : List (Key × Val)) : (replaceDflt st m).1.gen = st.gen + 1 := by
  simp [replaceDflt, signal, updateGate_gen]

/-- Every call either hands out a new validity flag or leaves everything a getter reads untouched. -/
theorem apply_gen_or_same (st : St) (h : WF st) (op : Op) (hop : op.WF) :
    (apply st op).gen = st.gen + 1 ∨
    ((apply st op).gen = st.gen ∧ (apply st op).opts = st.opts ∧ (apply st op).gate = st.gate) := by
  cases op with
  | set k v =>
    rcases setUser_gen st h k v hop with e | e
    · exact Or.inl e
    · right; simp only [apply]; rw [e]; exact ⟨rfl, rfl, rfl⟩
  | setd k v =>
    rcases setDflt_gen st h k v hop with e | e
    · exact Or.inl e
    · right; simp only [apply]; rw [e]; exact ⟨rfl, rfl, rfl⟩
  | rep m => exact Or.inl (replaceUser_gen st m)
  | repd m => exact Or.inl (replaceDflt_gen st m)
  | save => right; exact ⟨save_gen st, save_opts st, save_gate st⟩
  | load b =>
    simp only [apply]
    unfold load
    split
    · right; exact ⟨rfl, rfl, rfl⟩
    · split
      · right; exact ⟨rfl, rfl, rfl⟩
      · right; exact ⟨rfl, rfl, rfl⟩
      · left
        rename_i t _
        have := replaceUser_gen st (flatten t)
        simp only []
        split <;> exact this
  | wfile f => right; exact ⟨rfl, rfl, rfl⟩

theorem cinv_apply (st : St) (h : WF st) (op : Op) (hop : op.WF) (cl : Closure) (hc : CInv st cl) :
    CInv (apply st op) cl := by
  rcases apply_gen_or_same st h op hop with e | ⟨e1, e2, e3⟩
  · refine ⟨by rw [e]; exact Nat.le_succ_of_le hc.1, ?_⟩
    intro hf; rw [e] at hf; have := hc.1; omega
  · refine ⟨by rw [e1]; exact hc.1, ?_⟩
    intro hf; rw [e1] at hf
    rw [get_eq_of st _ e2 e3]; exact hc.2 hf

theorem cinv_mk (st : St) (k : Key) (fb : GVal) : CInv st (mkClosure st k fb) := ⟨Nat.le_refl _, fun _ => rfl⟩

theorem call_current (st : St) (cl : Closure) (hc : CInv st cl) :
    (cl.call st).2 = get st cl.key cl.fb ∧ CInv st (cl.call st).1 ∧
      (cl.call st).1.key = cl.key ∧ (cl.call st).1.fb = cl.fb := by
  unfold Closure.call
  by_cases hf : cl.flag = st.gen
  · rw [if_pos hf]; exact ⟨hc.2 hf, hc, rfl, rfl⟩
  · rw [if_neg hf]; exact ⟨rfl, ⟨Nat.le_refl _, fun _ => rfl⟩, rfl, rfl⟩

/-! ### perspectives -/

theorem find?_filterMap_key (F : Opt → Option POpt) (hF : ∀ o e, F o = some e → e.key = o.key) :
    ∀ (l : List Opt), (l.map (·.key)).Nodup → ∀ o ∈ l,
      (l.filterMap F).find? (fun e => e.key = o.key) = F o
  | [], _, o, ho => by cases ho
  | p :: rest, hnd, o, ho => by
    simp only [List.map_cons, List.nodup_cons] at hnd
    rcases List.mem_cons.mp ho with rfl | ho'
    · cases hFo : F o with
      | none =>
        simp only [List.filterMap_cons, hFo]
        rw [List.find?_eq_none]
        intro e he
        simp only [List.mem_filterMap] at he
        obtain ⟨o', ho', hFo'⟩ := he
        have := hF o' e hFo'
        simp only [decide_eq_true_eq]
        intro hek
        exact hnd.1 (by rw [← hek, this]; exact List.mem_map_of_mem ho')
      | some e =>
        simp only [List.filterMap_cons, hFo, List.find?, hF o e hFo, decide_true]
    · have hne : p.key ≠ o.key := fun e => hnd.1 (e ▸ List.mem_map_of_mem ho')
      have ih := find?_filterMap_key F hF rest hnd.2 o ho'
      cases hFp : F p with
      | none => simp only [List.filterMap_cons, hFp]; exact ih
      | some e =>
        have : ¬ e.key = o.key := by rw [hF p e hFp]; exact hne
        simp only [List.filterMap_cons, hFp, List.find?, this, decide_false]
        exact ih

end PB.Config
