import PB.Model.Base64
/- Round trip of the base64 / JSON-bytes codec model (used by C16 for container/serialization.go). -/
namespace PB.Base64
open PB

theorem val_char : ∀ v, v < 64 → val (char v) = some v := by decide

theorem char_ne_pad : ∀ v, v < 64 → char v ≠ pad := by decide

theorem char_canonical : ∀ v, v < 64 → canonicalChar (char v) = true := by decide

theorem dec_enc : ∀ (b : Bytes), dec (enc b) = some b := by
  intro b
  induction b using enc.induct with
  | case1 => simp [enc, dec]
  | case2 a =>
    have ha : a.toNat < 256 := a.toNat_lt
    have h0 : a.toNat * 16 / 64 < 64 := by omega
    have h1 : a.toNat * 16 % 64 < 64 := by omega
    simp only [enc, dec, if_true, ne_eq, not_true_eq_false, if_false, val_char _ h0, val_char _ h1]
    have : (a.toNat * 16 / 64 * 64 + a.toNat * 16 % 64) / 16 = a.toNat := by omega
    simp [this]
  | case3 a b =>
    have ha : a.toNat < 256 := a.toNat_lt
    have hb : b.toNat < 256 := b.toNat_lt
    simp only [enc]
    generalize hx : a.toNat = x at *
    generalize hy : b.toNat = y at *
    have h0 : (x * 256 + y) * 4 / 4096 < 64 := by omega
    have h1 : (x * 256 + y) * 4 / 64 % 64 < 64 := by omega
    have h2 : (x * 256 + y) * 4 % 64 < 64 := by omega
    simp only [dec, if_true, ne_eq, not_true_eq_false, if_false, val_char _ h0, val_char _ h1, val_char _ h2,
      char_ne_pad _ h2]
    have e1 : ((x * 256 + y) * 4 / 4096 * 4096 + (x * 256 + y) * 4 / 64 % 64 * 64 + (x * 256 + y) * 4 % 64) / 1024 = x := by omega
    have e2 : ((x * 256 + y) * 4 / 4096 * 4096 + (x * 256 + y) * 4 / 64 % 64 * 64 + (x * 256 + y) * 4 % 64) / 4 % 256 = y := by omega
    rw [e1, e2, ← hx, ← hy]
    simp
  | case4 a b c rest ih =>
    have ha : a.toNat < 256 := a.toNat_lt
    have hb : b.toNat < 256 := b.toNat_lt
    have hc : c.toNat < 256 := c.toNat_lt
    simp only [enc]
    generalize hx : a.toNat = x at *
    generalize hy : b.toNat = y at *
    generalize hz : c.toNat = z at *
    have h0 : (x * 65536 + y * 256 + z) / 262144 < 64 := by omega
    have h1 : (x * 65536 + y * 256 + z) / 4096 % 64 < 64 := by omega
    have h2 : (x * 65536 + y * 256 + z) / 64 % 64 < 64 := by omega
    have h3 : (x * 65536 + y * 256 + z) % 64 < 64 := by omega
    simp only [dec, if_false, val_char _ h0, val_char _ h1, val_char _ h2, val_char _ h3, char_ne_pad _ h3, ih]
    have e : (x * 65536 + y * 256 + z) / 262144 * 262144 + (x * 65536 + y * 256 + z) / 4096 % 64 * 4096
        + (x * 65536 + y * 256 + z) / 64 % 64 * 64 + (x * 65536 + y * 256 + z) % 64 = x * 65536 + y * 256 + z := by omega
    rw [e]
    have e1 : (x * 65536 + y * 256 + z) / 65536 = x := by omega
    have e2 : (x * 65536 + y * 256 + z) / 256 % 256 = y := by omega
    have e3 : (x * 65536 + y * 256 + z) % 256 = z := by omega
    rw [e1, e2, e3, ← hx, ← hy, ← hz]
    simp

theorem enc_canonical : ∀ (b : Bytes), (enc b).all canonicalChar = true := by
  intro b
  induction b using enc.induct with
  | case1 => simp [enc]
  | case2 a =>
    have ha : a.toNat < 256 := a.toNat_lt
    have h0 : a.toNat * 16 / 64 < 64 := by omega
    have h1 : a.toNat * 16 % 64 < 64 := by omega
    simp [enc, canonicalChar, val_char _ h0, val_char _ h1]
  | case3 a b =>
    have ha : a.toNat < 256 := a.toNat_lt
    have hb : b.toNat < 256 := b.toNat_lt
    have h0 : (a.toNat * 256 + b.toNat) * 4 / 4096 < 64 := by omega
    have h1 : (a.toNat * 256 + b.toNat) * 4 / 64 % 64 < 64 := by omega
    have h2 : (a.toNat * 256 + b.toNat) * 4 % 64 < 64 := by omega
    simp [enc, canonicalChar, val_char _ h0, val_char _ h1, val_char _ h2]
  | case4 a b c rest ih =>
    have ha : a.toNat < 256 := a.toNat_lt
    have hb : b.toNat < 256 := b.toNat_lt
    have hc : c.toNat < 256 := c.toNat_lt
    have h0 : (a.toNat * 65536 + b.toNat * 256 + c.toNat) / 262144 < 64 := by omega
    have h1 : (a.toNat * 65536 + b.toNat * 256 + c.toNat) / 4096 % 64 < 64 := by omega
    have h2 : (a.toNat * 65536 + b.toNat * 256 + c.toNat) / 64 % 64 < 64 := by omega
    have h3 : (a.toNat * 65536 + b.toNat * 256 + c.toNat) % 64 < 64 := by omega
    simp [enc, char_canonical _ h0, char_canonical _ h1, char_canonical _ h2, char_canonical _ h3, ih]

/-- `json.Unmarshal(json.Marshal(b), &raw)` gives back `b`: every byte string survives the JSON form. -/
theorem jsonDec_jsonEnc (b : Bytes) : jsonDec (jsonEnc b) = .ok b := by
  unfold jsonDec jsonEnc
  have hne : (quote :: (enc b ++ [quote])) ≠ nullText := by
    intro h
    have := congrArg List.head? h
    simp [quote, nullText] at this
  simp only [hne, if_false]
  have h1 : (enc b ++ [quote]).getLast? = some quote := by simp
  have h2 : (enc b ++ [quote]).dropLast = enc b := by simp
  simp [h1, h2, enc_canonical, dec_enc]

end PB.Base64
