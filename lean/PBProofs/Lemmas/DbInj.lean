import PB.Model.DbInj
import PB.Spec.KVStore
import PB.Spec.PermissionLattice
import PBProofs.Lemmas.Db
import PBProofs.Lemmas.DbSim
import PBProofs.Lemmas.DbPerm
/-
Helper lemmas for C03 on injected runtime databases (`PB.Db.Inj`).
-/
namespace PB.Db.Inj
open PB.Db PB.KV PB.Perm

/-- The read path of an injected database answers like the reference map over what the provider holds. -/
theorem getRecord_eq_kvget (o : Opts) (st : PSt) (k : String) (now : Int) :
    getRecord o st k now = KV.get o st.prov k now := by
  unfold getRecord ctlGet regGet KV.get vis
  cases st.prov.get k with
  | none => rfl
  | some r => by_cases hv : r.md.valid now = true <;> simp [hv]

/-- The pre-check of `Put` / `PutNew` (`getMeta` through the controller's fallback branch) refuses exactly the
    writes the reference refuses. -/
theorem putPre_eq_blocked (o : Opts) (st : PSt) (k : String) (now : Int) :
    putPre o st k now = if KV.blocked o st.prov k now then some .denied else none := by
  unfold putPre getMeta ctlGetMeta regGet KV.blocked vis
  cases ha : o.all with
  | true => simp
  | false =>
    cases st.prov.get k with
    | none => simp
    | some r =>
      by_cases hv : r.md.valid now = true
      · by_cases hp : r.md.permitted o.loc o.int = true <;> simp [hv, hp]
      · simp [hv]

theorem ctlPut_cases (st : PSt) (x : Rec) :
    ctlPut st x = (st, .err .notImpl) ∨
    ctlPut st x = ({ prov := st.prov.put x, sets := st.sets ++ [x], notes := st.notes ++ [x] }, .ok) := by
  unfold ctlPut; split
  · exact Or.inl rfl
  · exact Or.inr rfl

/-- What one operation can do to the state: nothing, or exactly one `Set` of a record whose key either holds
    nothing visible or holds a record the interface may see. -/
theorem step_effect (o : Opts) (st : PSt) (op : Op) (now : Int) :
    (step o st op now).1 = st ∨
    ∃ x, (step o st op now).1 = { prov := st.prov.put x, sets := st.sets ++ [x], notes := st.notes ++ [x] } ∧
      ∀ r, vis now (st.prov.get x.key) = some r → r.md.permitted o.loc o.int = true := by
  have hwrite : ∀ (x : Rec), (∀ r, vis now (st.prov.get x.key) = some r → r.md.permitted o.loc o.int = true) →
      ((ctlPut st x).1 = st ∨
       ∃ y, (ctlPut st x).1 = { prov := st.prov.put y, sets := st.sets ++ [y], notes := st.notes ++ [y] } ∧
         ∀ r, vis now (st.prov.get y.key) = some r → r.md.permitted o.loc o.int = true) := by
    intro x hx
    rcases ctlPut_cases st x with h | h <;> rw [h]
    · exact Or.inl rfl
    · exact Or.inr ⟨x, rfl, hx⟩
  have hget : ∀ k r0, getRecord o st k now = .ok r0 →
      r0.key = k ∧ ∀ r, vis now (st.prov.get k) = some r → r.md.permitted o.loc o.int = true := by
    intro k r0 h
    rw [getRecord_eq_kvget] at h
    refine ⟨kvget_key h, ?_⟩
    intro r hr
    unfold KV.get at h
    rw [hr] at h
    simp only at h
    split at h
    · rename_i ha; rw [hasAccess_eq_permitted] at ha; exact ha
    · cases h
  have hmod : ∀ k f, (ifModify o st k now f).1 = st ∨
      ∃ y, (ifModify o st k now f).1 = { prov := st.prov.put y, sets := st.sets ++ [y], notes := st.notes ++ [y] } ∧
        ∀ r, vis now (st.prov.get y.key) = some r → r.md.permitted o.loc o.int = true := by
    intro k f
    unfold ifModify
    cases hg : getRecord o st k now with
    | error e => exact Or.inl rfl
    | ok r0 =>
      obtain ⟨hk, hp⟩ := hget k r0 hg
      exact hwrite _ (by simpa [hk] using hp)
  have hput : ∀ x isNew, (ifPut o st x now isNew).1 = st ∨
      ∃ y, (ifPut o st x now isNew).1 = { prov := st.prov.put y, sets := st.sets ++ [y], notes := st.notes ++ [y] } ∧
        ∀ r, vis now (st.prov.get y.key) = some r → r.md.permitted o.loc o.int = true := by
    intro x isNew
    unfold ifPut
    rw [putPre_eq_blocked]
    cases hb : KV.blocked o st.prov x.key now with
    | true => exact Or.inl rfl
    | false =>
      simp only [Bool.false_eq_true, if_false]
      apply hwrite
      intro r hr
      simp only at hr
      unfold KV.blocked at hb
      rw [hr] at hb
      cases ha : o.all with
      | true =>
        unfold Opts.all at ha; simp at ha
        rw [ha.1, ha.2]; exact permitted_all _
      | false => simpa [ha] using hb
  cases op with
  | get k => exact Or.inl rfl
  | exists_ k => exact Or.inl rfl
  | put x => exact hput x false
  | putNew x => exact hput x true
  | delete k => exact hmod k _
  | setAbs k t => exact hmod k _
  | setRel k d => exact hmod k _
  | mkSecret k => exact hmod k _
  | mkCrown k => exact hmod k _
  | insert k a p =>
    simp only [step]
    unfold ifInsert
    cases hg : getRecord o st k now with
    | error e => exact Or.inl rfl
    | ok r0 =>
      obtain ⟨hk, hp⟩ := hget k r0 hg
      simp only
      cases setField r0.form r0.fields a p with
      | none => exact Or.inl rfl
      | some fs => exact hwrite _ (by simpa [hk] using hp)
  | putMany rs => exact Or.inl rfl
  | query q => exact Or.inl rfl
  | purge q => exact Or.inl rfl
  | maintain t sk => exact Or.inl rfl
  | flush => exact Or.inl rfl
  | clear => exact Or.inl rfl
  | evict k => exact Or.inl rfl

theorem ctlPut_out (st : PSt) (x : Rec) : (ctlPut st x).2 = if x.md.isDeleted then .err .notImpl else .ok := by
  unfold ctlPut; split <;> rfl

theorem ctlPut_prov (st : PSt) (x : Rec) : (ctlPut st x).1.prov = if x.md.isDeleted then st.prov else st.prov.put x := by
  unfold ctlPut; split <;> rfl

theorem lowEq_put {loc int : Bool} {t : Int} {m m' : Store} (x : Rec) (h : lowEq loc int t m m') :
    lowEq loc int t (m.put x) (m'.put x) :=
  lowEq_same_write x.key (some x) h (Store.get_put_eq _ _) (Store.get_put_eq _ _)
    (fun k hk => Store.get_put_ne _ _ k hk) (fun k hk => Store.get_put_ne _ _ k hk)

/-- The same write on both sides: same answer, the stores stay indistinguishable, keys stay unique. -/
theorem ctlPut_lowEq {loc int : Bool} {now : Int} (st st' : PSt) (x : Rec) (hn : st.prov.NodupKeys) (hn' : st'.prov.NodupKeys)
    (h : lowEqFrom loc int now st.prov st'.prov) :
    (ctlPut st x).2 = (ctlPut st' x).2 ∧ lowEqFrom loc int now (ctlPut st x).1.prov (ctlPut st' x).1.prov ∧
    (ctlPut st x).1.prov.NodupKeys ∧ (ctlPut st' x).1.prov.NodupKeys := by
  rw [ctlPut_out, ctlPut_out, ctlPut_prov, ctlPut_prov]
  refine ⟨rfl, ?_⟩
  split
  · exact ⟨h, hn, hn'⟩
  · exact ⟨fun t ht => lowEq_put x (h t ht), Store.nodup_put hn _, Store.nodup_put hn' _⟩

/-- Queries over indistinguishable provider contents list the same records. -/
theorem registryQuery_lowEq {o : Opts} {now : Int} {m m' : Store} (hn : m.NodupKeys) (hn' : m'.NodupKeys)
    (h : lowEq o.loc o.int now m m') (q : Query) :
    (registryQuery m q o.loc o.int now).Perm (registryQuery m' q o.loc o.int now) := by
  unfold registryQuery
  have hpp : ∀ a : Rec, (q.matchesKey a.key && a.md.valid now && a.md.permitted o.loc o.int && q.matchesRecord a) = true →
      a.md.valid now = true ∧ a.md.permitted o.loc o.int = true := by
    intro a ha; simp at ha; exact ⟨ha.1.1.2, ha.1.2⟩
  apply (List.perm_ext_iff_of_nodup
    (List.Nodup.sublist List.filter_sublist (Store.nodup_list hn))
    (List.Nodup.sublist List.filter_sublist (Store.nodup_list hn'))).mpr
  intro a
  rw [mem_filter_vis hn _ (fun a ha => (hpp a ha).1), mem_filter_vis hn' _ (fun a ha => (hpp a ha).1)]
  have hk := h a.key
  constructor
  · rintro ⟨h1, h2⟩
    rw [h1] at hk
    cases hv' : vis now (m'.get a.key) with
    | none => rw [hv'] at hk; cases hk
    | some r' => rw [hv'] at hk; simp only at hk; have e := hk (Or.inl (hpp a h2).2); subst e; exact ⟨rfl, h2⟩
  · rintro ⟨h1, h2⟩
    rw [h1] at hk
    cases hv' : vis now (m.get a.key) with
    | none => rw [hv'] at hk; cases hk
    | some r' => rw [hv'] at hk; simp only at hk; have e := hk (Or.inr (hpp a h2).2); subst e; exact ⟨rfl, h2⟩

/-- One operation on two injected databases whose providers hold indistinguishable contents (from `t0` on): same
    result (query results as unordered streams), and the contents stay indistinguishable. -/
theorem step_lowEq (o : Opts) (now t0 : Int) (st st' : PSt) (hn : st.prov.NodupKeys) (hn' : st'.prov.NodupKeys)
    (h : lowEqFrom o.loc o.int t0 st.prov st'.prov) (ht : t0 ≤ now) (op : Op) :
    sameOut (step o st op now).2 (step o st' op now).2 ∧
    lowEqFrom o.loc o.int now (step o st op now).1.prov (step o st' op now).1.prov ∧
    (step o st op now).1.prov.NodupKeys ∧ (step o st' op now).1.prov.NodupKeys := by
  have hfrom : lowEqFrom o.loc o.int now st.prov st'.prov := fun t htt => h t (by omega)
  have hnow : lowEq o.loc o.int now st.prov st'.prov := h now ht
  have hg : ∀ k, getRecord o st k now = getRecord o st' k now := by
    intro k; rw [getRecord_eq_kvget, getRecord_eq_kvget]; exact kvget_lowEq hnow k
  have same_of_eq : ∀ {a b : Out}, a = b → (∀ l, a ≠ .recs l) → sameOut a b := by
    intro a b e hne; subst e
    cases a with
    | recs l => exact absurd rfl (hne l)
    | ok => simp [sameOut]
    | err e => simp [sameOut]
    | one r => simp [sameOut]
    | bool b => simp [sameOut]
    | count n => simp [sameOut]
  have wr : ∀ x, sameOut (ctlPut st x).2 (ctlPut st' x).2 ∧
      lowEqFrom o.loc o.int now (ctlPut st x).1.prov (ctlPut st' x).1.prov ∧
      (ctlPut st x).1.prov.NodupKeys ∧ (ctlPut st' x).1.prov.NodupKeys := by
    intro x
    obtain ⟨h1, h2⟩ := ctlPut_lowEq st st' x hn hn' hfrom
    refine ⟨same_of_eq h1 ?_, h2⟩
    intro l; rw [ctlPut_out]; split <;> simp
  have keep : ∀ (a : Out), (∀ l, a ≠ .recs l) → sameOut a a ∧ lowEqFrom o.loc o.int now st.prov st'.prov ∧
      st.prov.NodupKeys ∧ st'.prov.NodupKeys := fun a ha => ⟨same_of_eq rfl ha, hfrom, hn, hn'⟩
  have hmod : ∀ k f, sameOut (ifModify o st k now f).2 (ifModify o st' k now f).2 ∧
      lowEqFrom o.loc o.int now (ifModify o st k now f).1.prov (ifModify o st' k now f).1.prov ∧
      (ifModify o st k now f).1.prov.NodupKeys ∧ (ifModify o st' k now f).1.prov.NodupKeys := by
    intro k f
    unfold ifModify
    rw [hg k]
    cases getRecord o st' k now with
    | error e => exact keep _ (by intro l; simp)
    | ok r => exact wr _
  have hput : ∀ x isNew, sameOut (ifPut o st x now isNew).2 (ifPut o st' x now isNew).2 ∧
      lowEqFrom o.loc o.int now (ifPut o st x now isNew).1.prov (ifPut o st' x now isNew).1.prov ∧
      (ifPut o st x now isNew).1.prov.NodupKeys ∧ (ifPut o st' x now isNew).1.prov.NodupKeys := by
    intro x isNew
    unfold ifPut
    rw [putPre_eq_blocked, putPre_eq_blocked, blocked_lowEq hnow x.key]
    cases KV.blocked o st'.prov x.key now with
    | true => exact keep _ (by intro l; simp)
    | false => exact wr _
  cases op with
  | get k =>
    simp only [step]; rw [hg k]
    cases getRecord o st' k now with
    | error e => exact keep _ (by intro l; simp)
    | ok r => exact keep _ (by intro l; simp)
  | exists_ k =>
    simp only [step]; rw [hg k]
    cases getRecord o st' k now with
    | error e => cases e <;> exact keep _ (by intro l; simp)
    | ok r => exact keep _ (by intro l; simp)
  | put x => exact hput x false
  | putNew x => exact hput x true
  | delete k => exact hmod k _
  | setAbs k t => exact hmod k _
  | setRel k d => exact hmod k _
  | mkSecret k => exact hmod k _
  | mkCrown k => exact hmod k _
  | insert k a p =>
    simp only [step]
    unfold ifInsert
    rw [hg k]
    cases getRecord o st' k now with
    | error e => exact keep _ (by intro l; simp)
    | ok r =>
      simp only
      cases setField r.form r.fields a p with
      | none => exact keep _ (by intro l; simp)
      | some fs => exact wr _
  | putMany rs => simp only [step]; exact keep _ (by intro l; split <;> simp)
  | query q =>
    simp only [step]
    by_cases hc : q.check = true
    · simp only [hc, Bool.not_true, Bool.false_eq_true, if_false]
      exact ⟨registryQuery_lowEq hn hn' hnow q, hfrom, hn, hn'⟩
    · simp only [hc, Bool.not_false, if_true]; exact keep _ (by intro l; simp)
  | purge q => simp only [step]; exact keep _ (by intro l; split <;> simp)
  | maintain t sk => exact keep _ (by intro l; simp [step])
  | flush => exact keep _ (by intro l; simp [step])
  | clear => exact keep _ (by intro l; simp [step])
  | evict k => exact keep _ (by intro l; simp [step])

end PB.Db.Inj
