import PB.Model.Record
import PBProofs.Lemmas.Varint
import PBProofs.Lemmas.Container
/- Helper lemmas for the stored-record model (C08). -/
namespace PB.Record
open PB PB.Varint

theorem toNat_ofNat_mod (n : Nat) : (UInt8.ofNat (n % 256)).toNat = n % 256 := by
  simp [UInt8.toNat_ofNat']

theorem decodeLE_encode (x : Int) (h : inInt64 x) :
    decodeLE (UInt8.ofNat (ofInt64 x % 256)) (UInt8.ofNat (ofInt64 x / 2^8 % 256)) (UInt8.ofNat (ofInt64 x / 2^16 % 256))
      (UInt8.ofNat (ofInt64 x / 2^24 % 256)) (UInt8.ofNat (ofInt64 x / 2^32 % 256)) (UInt8.ofNat (ofInt64 x / 2^40 % 256))
      (UInt8.ofNat (ofInt64 x / 2^48 % 256)) (UInt8.ofNat (ofInt64 x / 2^56 % 256)) = x := by
  unfold decodeLE
  simp only [toNat_ofNat_mod]
  unfold inInt64 at h
  have hu : ofInt64 x < 2^64 := by unfold ofInt64; omega
  have hsum : ofInt64 x % 256 + ofInt64 x / 2^8 % 256 * 2^8 + ofInt64 x / 2^16 % 256 * 2^16 + ofInt64 x / 2^24 % 256 * 2^24
      + ofInt64 x / 2^32 % 256 * 2^32 + ofInt64 x / 2^40 % 256 * 2^40 + ofInt64 x / 2^48 % 256 * 2^48
      + ofInt64 x / 2^56 % 256 * 2^56 = ofInt64 x := by omega
  rw [hsum]
  unfold toInt64 ofInt64
  simp only []
  split <;> omega

theorem flagByte_eq_one (b : Bool) : (flagByte b == 1) = b := by
  cases b <;> simp [flagByte]

theorem genCodeMarshal_length (m : Meta) : (genCodeMarshal m).length = 34 := by
  simp [genCodeMarshal, encodeLE]

theorem genCode_roundtrip (m : Meta) (h : m.InRange) (rest : Bytes) :
    genCodeUnmarshal (genCodeMarshal m ++ rest) = some m := by
  obtain ⟨h1, h2, h3, h4⟩ := h
  simp only [genCodeMarshal, encodeLE, List.cons_append, List.nil_append, genCodeUnmarshal,
    decodeLE_encode _ h1, decodeLE_encode _ h2, decodeLE_encode _ h3, decodeLE_encode _ h4, flagByte_eq_one]

/-- The container calls of `MarshalRecord` produce the flat layout. -/
theorem marshalRecord_flat (m : Meta) (ds : Bytes) :
    marshalRecord m ds = [1] ++ (pack64 (metaSection m).length ++ (metaSection m ++ ds)) := by
  simp [marshalRecord, PB.Container.new, PB.Container.appendAsBlock, PB.Container.appendNumber,
    PB.Container.append, PB.Container.compileData]

theorem metaSection_eq (m : Meta) : metaSection m = 71 :: genCodeMarshal m := by
  simp [metaSection, pack8, fGenCode]

theorem loadMeta_metaSection (m : Meta) (h : m.InRange) : ∃ r, loadMeta (metaSection m) = r ∧
    (match r with | .ok m' => m' = m | _ => False) := by
  refine ⟨_, rfl, ?_⟩
  rw [metaSection_eq]
  have hl := genCodeMarshal_length m
  have hg := genCode_roundtrip m h []
  simp only [List.append_nil] at hg
  simp [loadMeta, unpack8, hl, fRAW, fGenCode, hg]

end PB.Record
