import PB.Model.Db
import PBProofs.Lemmas.Db
/-
Delayed write cache: every pending write is also in the read cache ("nothing pending is unreadable").
-/
namespace PB.Db

/-- Every record waiting in the write set is the record the read cache holds under that key. -/
def Pend (st : ISt) : Prop := ∀ k r, st.wcache.get k = some r → st.cache.get k = some r

theorem Pend.evict {cfg : Cfg} {st : ISt} (h : Pend st) (k : String) : Pend (evict cfg st k) := by
  unfold PB.Db.evict
  cases hw : st.wcache.get k with
  | none =>
    simp only
    intro k' r hr
    simp only at hr ⊢
    rw [Store.get_del]
    by_cases hk : k' = k
    · subst hk; rw [hw] at hr; cases hr
    · simp [hk]; exact h k' r hr
  | some x =>
    simp only [ctlPut]
    intro k' r hr
    simp only at hr ⊢
    rw [Store.get_del] at hr ⊢
    by_cases hk : k' = k
    · simp [hk] at hr
    · simp [hk] at hr ⊢; exact h k' r hr

theorem evict_cache_none (cfg : Cfg) (st : ISt) (k : String) : (PB.Db.evict cfg st k).cache.get k = none := by
  unfold PB.Db.evict
  cases st.wcache.get k <;> simp [ctlPut, Store.get_del_eq]

theorem checkCache_pend {cfg : Cfg} {o : Opts} {st : ISt} (h : Pend st) (k : String) (now : Int) :
    Pend (checkCache cfg o st k now).2 ∧
    ((checkCache cfg o st k now).1 = none → o.cache ≠ .none → (checkCache cfg o st k now).2.cache.get k = none) := by
  unfold checkCache
  by_cases hc : o.cache = .none
  · simp [hc]; exact h
  · simp only [hc, if_false]
    cases hg : st.cache.get k with
    | none => simp; exact ⟨h, fun _ => hg⟩
    | some r =>
      by_cases hv : r.md.valid now = true
      · simp [hv]; exact h
      · simp only [hv]
        exact ⟨h.evict k, fun _ _ => evict_cache_none cfg st k⟩

theorem Pend.ctlPut {cfg : Cfg} {st : ISt} (h : Pend st) (r : Rec) : Pend (ctlPut cfg st r) := by
  unfold PB.Db.ctlPut; exact h

theorem updateCache_pend {cfg : Cfg} {o : Opts} {st : ISt} (hdl : o.cache = .delay) (h : Pend st) (r : Rec) (write rem : Bool)
    (hmiss : write = false → st.cache.get r.key = none) :
    Pend (updateCache cfg o st r write rem).1 := by
  unfold updateCache
  have hc : ¬ o.cache = .none := by rw [hdl]; decide
  simp only [hc, if_false]
  by_cases hr : rem = true
  · simp only [hr, if_true]
    split
    · exact h.evict r.key
    · exact h
  · have hr' : rem = false := by simpa using hr
    subst hr'
    simp only [Bool.false_eq_true, if_false]
    cases write with
    | true =>
      simp only [hdl, Bool.true_and, decide_true, if_true]
      intro k' x hx
      rw [Store.get_put] at hx ⊢
      by_cases hk : k' = r.key
      · simp only [hk, if_true] at hx ⊢; exact hx
      · simp only [hk, if_false] at hx ⊢; exact h k' x hx
    | false =>
      simp only [Bool.false_and, Bool.false_eq_true, if_false]
      intro k' x hx
      rw [Store.get_put]
      by_cases hk : k' = r.key
      · subst hk
        have := h _ x hx; rw [hmiss rfl] at this; cases this
      · simp only [hk, if_false]; exact h k' x hx

theorem getRecord_pend {cfg : Cfg} {o : Opts} {st : ISt} (hdl : o.cache = .delay) (h : Pend st) (k : String) (now : Int) :
    Pend (getRecord cfg o st k now).2 := by
  have hcn : o.cache ≠ .none := by rw [hdl]; decide
  obtain ⟨h1, h2⟩ := checkCache_pend (cfg := cfg) (o := o) h k now
  unfold getRecord
  generalize checkCache cfg o st k now = cc at *
  obtain ⟨c1, st1⟩ := cc
  cases c1 with
  | some rc => simp only; split <;> exact h1
  | none =>
    simp only at h1 h2 ⊢
    cases hg : ctlGet st1.store k now with
    | error e => exact h1
    | ok r =>
      simp only
      split
      · exact h1
      · apply updateCache_pend hdl h1
        intro _
        have hk : r.key = k := by
          unfold ctlGet at hg
          cases hs : st1.store.get k with
          | none => rw [hs] at hg; cases hg
          | some x =>
            rw [hs] at hg; simp only at hg
            split at hg
            · cases hg; exact Store.get_key hs
            · cases hg
        rw [hk]; exact h2 (by first | rfl | trivial) hcn

theorem getMeta_pend {cfg : Cfg} {o : Opts} {st : ISt} (h : Pend st) (k : String) (now : Int) :
    Pend (getMeta cfg o st k now).2 := by
  obtain ⟨h1, _⟩ := checkCache_pend (cfg := cfg) (o := o) h k now
  unfold getMeta
  generalize checkCache cfg o st k now = cc at *
  obtain ⟨c1, st1⟩ := cc
  cases c1 with
  | some rc => simp only; split <;> exact h1
  | none =>
    simp only at h1 ⊢
    cases ctlGet st1.store k now with
    | error e => exact h1
    | ok r => simp only; split <;> exact h1

theorem aliasUpdate_pend {st : ISt} (h : Pend st) (r : Rec) : Pend (aliasUpdate st r) := by
  unfold aliasUpdate
  intro k x hx
  simp only at hx ⊢
  by_cases hw : st.wcache.has r.key = true
  · have hcache : st.cache.has r.key = true := by
      unfold Store.has at hw ⊢
      cases hg : st.wcache.get r.key with
      | none => rw [hg] at hw; cases hw
      | some y => rw [h _ y hg]; rfl
    simp only [hw, hcache, if_true] at hx ⊢
    rw [Store.get_put] at hx ⊢
    by_cases hk : k = r.key
    · simp only [hk, if_true] at hx ⊢; exact hx
    · simp only [hk, if_false] at hx ⊢; exact h k x hx
  · have hw' : st.wcache.has r.key = false := by simpa using hw
    simp only [hw', Bool.false_eq_true, if_false] at hx
    have hne : k ≠ r.key := by
      intro e; subst e
      apply hw; unfold Store.has; rw [hx]; rfl
    split
    · rw [Store.get_put_ne _ _ _ hne]; exact h k x hx
    · exact h k x hx

theorem ifPut_pend {cfg : Cfg} {o : Opts} {st : ISt} (hdl : o.cache = .delay) (h : Pend st) (r : Rec) (now : Int) (isNew : Bool) :
    Pend (ifPut cfg o st r now isNew).1 := by
  have tail : ∀ (s1 : ISt) (x : Rec), Pend s1 →
      Pend (match updateCache cfg o s1 x true x.md.isDeleted with
            | (st, true) => (st, Out.ok)
            | (st, false) => (ctlPut cfg st x, Out.ok)).1 := by
    intro s1 x hs1
    have := updateCache_pend (cfg := cfg) hdl hs1 x true x.md.isDeleted (fun hh => by cases hh)
    generalize updateCache cfg o s1 x true x.md.isDeleted = uc at *
    obtain ⟨s2, b⟩ := uc
    cases b
    · exact Pend.ctlPut this x
    · exact this
  unfold ifPut
  by_cases ha : o.all = true
  · simp only [ha, Bool.not_true, Bool.false_eq_true, if_false]
    exact tail st _ h
  · have ha' : o.all = false := by simpa using ha
    simp only [ha', Bool.not_false, if_true]
    have hm := getMeta_pend (cfg := cfg) (o := o) h r.key now
    generalize getMeta cfg o st r.key now = gm at *
    obtain ⟨res, st1⟩ := gm
    cases res with
    | ok _ => exact tail st1 _ hm
    | error e => cases e <;> first | exact tail st1 _ hm | exact hm

theorem ifModify_pend {cfg : Cfg} {o : Opts} {st : ISt} (hdl : o.cache = .delay) (h : Pend st) (k : String) (now : Int)
    (f : Meta → Meta) : Pend (ifModify cfg o st k now f).1 := by
  have hg := getRecord_pend (cfg := cfg) hdl h k now
  unfold ifModify
  generalize getRecord cfg o st k now = gr at *
  obtain ⟨res, st1⟩ := gr
  cases res with
  | error e => exact hg
  | ok r => exact Pend.ctlPut (aliasUpdate_pend hg _) _

theorem ifInsert_pend {cfg : Cfg} {o : Opts} {st : ISt} (hdl : o.cache = .delay) (h : Pend st) (k a : String) (p : Prim)
    (now : Int) : Pend (ifInsert cfg o st k a p now).1 := by
  have hg := getRecord_pend (cfg := cfg) hdl h k now
  unfold ifInsert
  generalize getRecord cfg o st k now = gr at *
  obtain ⟨res, st1⟩ := gr
  cases res with
  | error e => exact hg
  | ok r =>
    simp only
    cases setField r.form r.fields a p with
    | none => exact hg
    | some fs => exact Pend.ctlPut (aliasUpdate_pend hg _) _

/-- Every operation except `ClearCache` keeps every pending write readable through the cache. -/
theorem step_pend {cfg : Cfg} {o : Opts} {st : ISt} (hdl : o.cache = .delay) (h : Pend st) (op : Op) (now : Int)
    (hnc : op ≠ .clear) : Pend (step cfg o st op now).1 := by
  cases op with
  | get k =>
    simp only [step, ifGet]
    have hg := getRecord_pend (cfg := cfg) hdl h k now
    generalize getRecord cfg o st k now = gr at *
    obtain ⟨res, st1⟩ := gr
    cases res <;> exact hg
  | exists_ k =>
    simp only [step, ifExists]
    have hg := getRecord_pend (cfg := cfg) hdl h k now
    generalize getRecord cfg o st k now = gr at *
    obtain ⟨res, st1⟩ := gr
    cases res with
    | error e => cases e <;> exact hg
    | ok r => exact hg
  | put r => exact ifPut_pend hdl h r now false
  | putNew r => exact ifPut_pend hdl h r now true
  | delete k => exact ifModify_pend hdl h k now _
  | setAbs k t => exact ifModify_pend hdl h k now _
  | setRel k d => exact ifModify_pend hdl h k now _
  | mkSecret k => exact ifModify_pend hdl h k now _
  | mkCrown k => exact ifModify_pend hdl h k now _
  | insert k a p => exact ifInsert_pend hdl h k a p now
  | putMany rs => simp only [step, ifPutMany]; (repeat' split) <;> exact h
  | query q => simp only [step, ifQuery]; split <;> exact h
  | purge q => simp only [step, ifPurge]; (repeat' split) <;> exact h
  | maintain t sk => exact h
  | flush =>
    simp only [step, ifFlush]
    split
    · exact h
    · split <;> (intro k r hr; simp [Store.get] at hr)
  | clear => exact absurd rfl hnc
  | evict k => simp only [step]; split; exact h.evict k; exact h

end PB.Db
