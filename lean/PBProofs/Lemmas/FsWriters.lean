import PB.Model.FsWriters
import PBProofs.Lemmas.FsAtomic
/- Soundness of the exhaustive exploration `checkAll` of a writer program (C17). -/
namespace PB.FsAtomic

theorem onlyTemp_cons' (dest : Path) (tmp : Path → Bool) (c : Call) (t : List Call) :
    onlyTemp dest tmp (c :: t) = (okCall dest tmp c && onlyTemp dest tmp t) := by
  simp [onlyTemp, okCall]

theorem chkStep_s (dest : Path) (old new : Obs) (k : Chk) (c : Call) :
    (chkStep dest old new k c).s = (exec k.s c).1 := rfl

/-- If the exploration succeeds then for EVERY pattern of failing calls and EVERY stopping point the checker
    accepts the calls made and all of them create only allowed names. -/
theorem checkAll_sound (dest : Path) (old new : Obs) (tmp : Path → Bool) :
    ∀ (p : Prog) (k : Chk) (n : Nat), checkAll dest old new tmp p k n = true →
    ∀ fails : List Bool,
      (chkRun dest old new k (runProg p k.s (oracleOf n fails))).ok = true ∧
      onlyTemp dest tmp (runProg p k.s (oracleOf n fails)) = true := by
  intro p
  induction p with
  | ret f =>
    intro k n h fails
    simp only [checkAll] at h
    cases fails <;> simp [runProg, oracleOf, chkRun, onlyTemp, h]
  | probeDir q kont ih =>
    intro k n h fails
    simp only [checkAll] at h
    simp only [runProg]
    exact ih _ k n h fails
  | probeExists q kont ih =>
    intro k n h fails
    simp only [checkAll] at h
    simp only [runProg]
    exact ih _ k n h fails
  | probeMode q m kont ih =>
    intro k n h fails
    simp only [checkAll] at h
    simp only [runProg]
    exact ih _ k n h fails
  | sys r kont ih =>
    intro k n h fails
    simp only [checkAll, Bool.and_eq_true] at h
    obtain ⟨⟨hk, hinj⟩, hnat⟩ := h
    cases fails with
    | nil => simp [runProg, oracleOf, chkRun, onlyTemp, hk]
    | cons f fs =>
      cases f with
      | true =>
        simp only [oracleOf, runProg, if_true]
        exact ih _ k (n + 1) hinj fs
      | false =>
        simp only [oracleOf, runProg, Bool.false_eq_true, if_false]
        cases hex : exec k.s (concretize r { fail := none, rnd := rndOf n, fd := 5 }).1 with
        | mk s' res =>
          cases res with
          | ok =>
            simp only [hex, Bool.and_eq_true] at hnat
            have hs : (chkStep dest old new k (concretize r { fail := none, rnd := rndOf n, fd := 5 }).1).s = s' := by
              rw [chkStep_s, hex]
            have := ih _ (chkStep dest old new k (concretize r { fail := none, rnd := rndOf n, fd := 5 }).1) (n + 1) hnat.2 fs
            rw [hs] at this
            refine ⟨?_, ?_⟩
            · simpa [chkRun] using this.1
            · simp only [onlyTemp_cons', hnat.1, this.2, Bool.and_self]
          | err e =>
            simp only [hex] at hnat
            exact ih _ k (n + 1) hnat fs

end PB.FsAtomic
