import PB.Model.Subs
/- Helper lemmas for the sequential subscription / hook model (C14). -/
namespace PB.Subs

/-! ## storage maps -/

theorem sGet_sErase_self (s : Store) (k : String) : sGet (sErase s k) k = none := by
  unfold sGet sErase
  induction s with
  | nil => simp
  | cons x xs ih =>
    by_cases h : x.1 = k
    · simp [List.filter, h] <;> simpa using ih
    · have h' : (x.1 != k) = true := by simp [h]
      simp [List.filter, h', h] <;> simpa using ih

theorem sGet_sPut_self (s : Store) (k : String) (r : Rec) : sGet (sPut s k r) k = some r := by
  have h := sGet_sErase_self s k
  unfold sGet at h
  unfold sPut sGet
  rw [List.find?_append]
  cases hf : List.find? (fun x => x.1 == k) (sErase s k) with
  | none => simp
  | some v => rw [hf] at h; simp at h

/-! ## the hook loop -/

/-- What the next hook gets after a hook returned `res` on `r`. -/
def applyRes (r : Rec) : HookRes → Rec
  | .replace r' => r'
  | _ => r

/-- Thread a record through the results of a list of calls. -/
def thread (r : Rec) (cs : List Call) : Rec := cs.foldl (fun acc c => applyRes acc c.res) r

theorem runRec_nil (ph : Phase) (uses : Hook → Bool) (f : Hook → Rec → HookRes) (r : Rec) (same : Bool) :
    runRec ph uses f [] r same = ([], .ok (r, same)) := rfl

/-- Unfolding of one loop iteration. -/
theorem runRec_cons (ph : Phase) (uses : Hook → Bool) (f : Hook → Rec → HookRes) (h : Hook) (hs : List Hook) (r : Rec)
    (same : Bool) :
    runRec ph uses f (h :: hs) r same =
      if uses h && h.q.matches r then
        match f h r with
        | .veto c => ([⟨h.id, ph, r.key, some r, .veto c⟩], .error c)
        | .pass => (⟨h.id, ph, r.key, some r, .pass⟩ :: (runRec ph uses f hs r same).1, (runRec ph uses f hs r same).2)
        | .replace r' =>
          (⟨h.id, ph, r.key, some r, .replace r'⟩ :: (runRec ph uses f hs r' false).1, (runRec ph uses f hs r' false).2)
      else runRec ph uses f hs r same := by
  simp only [runRec]
  split
  · split <;> simp_all
  · rfl

/-- Every recorded call is a call of a registered hook that declares the phase, with an argument its query
    matches, and records what the hook's method returned on that argument. -/
theorem runRec_sound (ph : Phase) (uses : Hook → Bool) (f : Hook → Rec → HookRes) :
    ∀ (hs : List Hook) (r : Rec) (same : Bool) (c : Call), c ∈ (runRec ph uses f hs r same).1 →
      ∃ h ∈ hs, ∃ a : Rec, c = ⟨h.id, ph, a.key, some a, f h a⟩ ∧ uses h = true ∧ h.q.matches a = true := by
  intro hs
  induction hs with
  | nil => intro r same c hc; simp [runRec] at hc
  | cons h hs ih =>
    intro r same c hc
    rw [runRec_cons] at hc
    by_cases hu : (uses h && h.q.matches r) = true
    · simp only [hu, if_true] at hc
      have hu' := hu
      simp only [Bool.and_eq_true] at hu'
      cases hf : f h r with
      | veto code =>
        rw [hf] at hc
        simp at hc
        exact ⟨h, by simp, r, by simp [hc, hf], hu'.1, hu'.2⟩
      | pass =>
        rw [hf] at hc
        simp at hc
        rcases hc with hc | hc
        · exact ⟨h, by simp, r, by simp [hc, hf], hu'.1, hu'.2⟩
        · obtain ⟨h', hm, a, e1, e2, e3⟩ := ih r same c hc
          exact ⟨h', by simp [hm], a, e1, e2, e3⟩
      | replace r' =>
        rw [hf] at hc
        simp at hc
        rcases hc with hc | hc
        · exact ⟨h, by simp, r, by simp [hc, hf], hu'.1, hu'.2⟩
        · obtain ⟨h', hm, a, e1, e2, e3⟩ := ih r' false c hc
          exact ⟨h', by simp [hm], a, e1, e2, e3⟩
    · simp only [hu] at hc
      obtain ⟨h', hm, a, e1, e2, e3⟩ := ih r same c hc
      exact ⟨h', by simp [hm], a, e1, e2, e3⟩


/-- The loop over `pre ++ post`: a veto in `pre` ends everything; otherwise `post` continues with the record (and
    object identity) `pre` ended with. -/
theorem runRec_append (ph : Phase) (uses : Hook → Bool) (f : Hook → Rec → HookRes) (post : List Hook) :
    ∀ (pre : List Hook) (r : Rec) (same : Bool),
      runRec ph uses f (pre ++ post) r same =
        match runRec ph uses f pre r same with
        | (cs1, .error c) => (cs1, .error c)
        | (cs1, .ok (r1, s1)) => (cs1 ++ (runRec ph uses f post r1 s1).1, (runRec ph uses f post r1 s1).2) := by
  intro pre
  induction pre with
  | nil => intro r same; simp [runRec]
  | cons h hs ih =>
    intro r same
    rw [List.cons_append, runRec_cons, runRec_cons]
    by_cases hu : (uses h && h.q.matches r) = true
    · simp only [hu, if_true]
      cases hf : f h r with
      | veto code => simp
      | pass =>
        simp only [ih r same]
        cases hr : runRec ph uses f hs r same with
        | mk cs res => cases res with
          | error c => simp
          | ok v => simp
      | replace r' =>
        simp only [ih r' false]
        cases hr : runRec ph uses f hs r' false with
        | mk cs res => cases res with
          | error c => simp
          | ok v => simp
    · simp only [hu]
      exact ih r same

/-- Without a veto the loop returns the record threaded through the results of its calls. -/
theorem runRec_result (ph : Phase) (uses : Hook → Bool) (f : Hook → Rec → HookRes) :
    ∀ (hs : List Hook) (r : Rec) (same : Bool) (r' : Rec) (s' : Bool),
      (runRec ph uses f hs r same).2 = .ok (r', s') → r' = thread r (runRec ph uses f hs r same).1 := by
  intro hs
  induction hs with
  | nil => intro r same r' s' h; simp [runRec] at h; simp [runRec, thread, h.1]
  | cons h hs ih =>
    intro r same r' s' hr
    rw [runRec_cons] at hr ⊢
    by_cases hu : (uses h && h.q.matches r) = true
    · simp only [hu, if_true] at hr ⊢
      cases hf : f h r with
      | veto code => rw [hf] at hr; simp at hr
      | pass =>
        rw [hf] at hr
        simp only [] at hr ⊢
        have := ih r same r' s' hr
        simpa [thread, applyRes] using this
      | replace r2 =>
        rw [hf] at hr
        simp only [] at hr ⊢
        have := ih r2 false r' s' hr
        simpa [thread, applyRes] using this
    · simp only [hu] at hr ⊢
      exact ih r same r' s' hr

/-- The first call gets the record the loop started with; every later call gets what the previous call left. -/
theorem runRec_chain (ph : Phase) (uses : Hook → Bool) (f : Hook → Rec → HookRes) :
    ∀ (hs : List Hook) (r : Rec) (same : Bool) (pre : List Call) (c : Call) (post : List Call),
      (runRec ph uses f hs r same).1 = pre ++ c :: post → c.arg = some (thread r pre) := by
  intro hs
  induction hs with
  | nil => intro r same pre c post h; simp [runRec] at h
  | cons h hs ih =>
    intro r same pre c post hc
    rw [runRec_cons] at hc
    by_cases hu : (uses h && h.q.matches r) = true
    · simp only [hu, if_true] at hc
      cases hf : f h r with
      | veto code =>
        rw [hf] at hc
        cases pre with
        | nil => simp at hc; simp [← hc.1, thread]
        | cons p ps => simp at hc
      | pass =>
        rw [hf] at hc
        cases pre with
        | nil => simp at hc; simp [← hc.1, thread]
        | cons p ps =>
          simp at hc
          have := ih r same ps c post hc.2
          simp [thread, ← hc.1, applyRes] at this ⊢
          exact this
      | replace r2 =>
        rw [hf] at hc
        cases pre with
        | nil => simp at hc; simp [← hc.1, thread]
        | cons p ps =>
          simp at hc
          have := ih r2 false ps c post hc.2
          simp [thread, ← hc.1, applyRes] at this ⊢
          exact this
    · simp only [hu] at hc
      exact ih r same pre c post hc

/-- Calls happen in registration order, each hook at most once. -/
theorem runRec_order (ph : Phase) (uses : Hook → Bool) (f : Hook → Rec → HookRes) :
    ∀ (hs : List Hook) (r : Rec) (same : Bool),
      ((runRec ph uses f hs r same).1.map (·.hook)).Sublist (hs.map (·.id)) := by
  intro hs
  induction hs with
  | nil => intro r same; simp [runRec]
  | cons h hs ih =>
    intro r same
    rw [runRec_cons]
    by_cases hu : (uses h && h.q.matches r) = true
    · simp only [hu, if_true]
      cases hf : f h r with
      | veto code => simp
      | pass => simpa using ih r same
      | replace r2 => simpa using ih r2 false
    · simp only [hu]
      exact List.Sublist.cons _ (ih r same)

/-- A veto is the last call, and it is what the loop returns; without a veto no call vetoed. -/
theorem runRec_veto_last (ph : Phase) (uses : Hook → Bool) (f : Hook → Rec → HookRes) :
    ∀ (hs : List Hook) (r : Rec) (same : Bool),
      match (runRec ph uses f hs r same).2 with
      | .error c => ∃ pre last, (runRec ph uses f hs r same).1 = pre ++ [last] ∧ last.res = .veto c ∧
          ∀ x ∈ pre, ∀ c', x.res ≠ .veto c'
      | .ok _ => ∀ x ∈ (runRec ph uses f hs r same).1, ∀ c', x.res ≠ .veto c' := by
  intro hs
  induction hs with
  | nil => intro r same; simp [runRec]
  | cons h hs ih =>
    intro r same
    rw [runRec_cons]
    by_cases hu : (uses h && h.q.matches r) = true
    · simp only [hu, if_true]
      cases hf : f h r with
      | veto code => exact ⟨[], _, rfl, rfl, by simp⟩
      | pass =>
        have := ih r same
        simp only []
        cases hr : (runRec ph uses f hs r same).2 with
        | error c =>
          rw [hr] at this
          obtain ⟨pre, last, e1, e2, e3⟩ := this
          refine ⟨⟨h.id, ph, r.key, some r, .pass⟩ :: pre, last, by simp [e1], e2, ?_⟩
          intro x hx c'
          simp at hx
          rcases hx with hx | hx
          · simp [hx]
          · exact e3 x hx c'
        | ok v =>
          rw [hr] at this
          intro x hx c'
          simp at hx
          rcases hx with hx | hx
          · simp [hx]
          · exact this x hx c'
      | replace r2 =>
        have := ih r2 false
        simp only []
        cases hr : (runRec ph uses f hs r2 false).2 with
        | error c =>
          rw [hr] at this
          obtain ⟨pre, last, e1, e2, e3⟩ := this
          refine ⟨⟨h.id, ph, r.key, some r, .replace r2⟩ :: pre, last, by simp [e1], e2, ?_⟩
          intro x hx c'
          simp at hx
          rcases hx with hx | hx
          · simp [hx]
          · exact e3 x hx c'
        | ok v =>
          rw [hr] at this
          intro x hx c'
          simp at hx
          rcases hx with hx | hx
          · simp [hx]
          · exact this x hx c'
    · simp only [hu]
      exact ih r same


/-! ## delivery bookkeeping -/

/-- The records that were put into the feed (accepted send attempts), in order. -/
def accepted (s : Sub) : List Rec := (s.attempts.filter (·.2)).map (·.1)

/-- A subscription that was listed from write number `since` until write number `u` has been offered exactly
    the writes in between that match its query and that it may see, in order; its buffer is a suffix of the
    accepted ones (the rest was read by the subscriber). -/
def SubOk (writes : List Rec) (s : Sub) (u : Nat) : Prop :=
  s.since ≤ u ∧ u ≤ writes.length ∧
  s.attempts.map (·.1) = ((writes.take u).drop s.since).filter s.visible ∧
  ∃ consumed, consumed ++ s.buf = accepted s

def Inv (st : St) : Prop :=
  (∀ s ∈ st.subs, SubOk st.writes s st.writes.length) ∧ ∀ p ∈ st.closed, SubOk st.writes p.1 p.2

theorem offer_visible (s : Sub) (r x : Rec) : (s.offer r).visible x = s.visible x := by
  unfold Sub.offer
  split
  · split <;> rfl
  · rfl

theorem offer_since (s : Sub) (r : Rec) : (s.offer r).since = s.since := by
  unfold Sub.offer
  split
  · split <;> rfl
  · rfl

theorem offer_id (s : Sub) (r : Rec) : (s.offer r).id = s.id := by
  unfold Sub.offer
  split
  · split <;> rfl
  · rfl

theorem SubOk_mono {ws : List Rec} {s : Sub} {u : Nat} (rs : List Rec) (h : SubOk ws s u) : SubOk (ws ++ rs) s u := by
  obtain ⟨h1, h2, h3, h4⟩ := h
  refine ⟨h1, by simp; omega, ?_, h4⟩
  rw [List.take_append_of_le_length h2]
  exact h3

theorem SubOk_offer {ws : List Rec} {s : Sub} (r : Rec) (h : SubOk ws s ws.length) :
    SubOk (ws ++ [r]) (s.offer r) (ws ++ [r]).length := by
  obtain ⟨h1, _, h3, consumed, h4⟩ := h
  have hv : (fun x => (s.offer r).visible x) = fun x => s.visible x := funext (offer_visible s r)
  have hfil : ∀ l : List Rec, l.filter (s.offer r).visible = l.filter s.visible := by
    intro l
    have : (s.offer r).visible = s.visible := hv
    rw [this]
  refine ⟨by rw [offer_since]; simp; omega, Nat.le_refl _, ?_, ?_⟩
  · rw [List.take_length, offer_since, hfil, List.drop_append_of_le_length h1, List.filter_append]
    rw [List.take_length] at h3
    unfold Sub.offer
    by_cases hvis : s.visible r = true
    · by_cases hroom : s.buf.length < PB.Gen.Subs.feedCap
      · simp [hvis, hroom, h3]
      · simp [hvis, hroom, h3]
    · simp [hvis, h3]
  · unfold Sub.offer accepted
    by_cases hvis : s.visible r = true
    · by_cases hroom : s.buf.length < PB.Gen.Subs.feedCap
      · refine ⟨consumed, ?_⟩
        simp [hvis, hroom, List.filter_append]
        rw [← List.append_assoc, h4]
        simp [accepted]
      · exact ⟨consumed, by simp [hvis, hroom, List.filter_append, h4, accepted]⟩
    · exact ⟨consumed, by simp [hvis, h4, accepted]⟩

/-- The loop of `notifySubscribers` visits every subscription: none of the three paths of an iteration leaves the
    loop (regenerated from the source), so the loop is one independent `offer` per list entry. -/
theorem notifyLoop_eq_map (r : Rec) : ∀ l : List Sub, notifyLoop r l = l.map (·.offer r) := by
  intro l
  induction l with
  | nil => rfl
  | cons s ss ih =>
    have e1 : PB.Gen.Subs.notifySentExits = false := rfl
    have e2 : PB.Gen.Subs.notifyFullExits = false := rfl
    have e3 : PB.Gen.Subs.notifySkipExits = false := rfl
    simp only [notifyLoop, e1, e2, e3, Bool.false_eq_true, if_false, ih, List.map_cons, Sub.offer]
    by_cases hv : s.visible r = true
    · by_cases hroom : s.buf.length < PB.Gen.Subs.feedCap <;> simp [hv, hroom]
    · simp [hv]

theorem notify_subs (st : St) (r : Rec) : (notify st r).subs = st.subs.map (·.offer r) := by
  simp only [notify, notifyLoop_eq_map]

theorem Inv_notify {st : St} (r : Rec) (h : Inv st) : Inv (notify st r) := by
  obtain ⟨ha, hc⟩ := h
  constructor
  · intro s hs
    rw [notify_subs] at hs
    simp only [List.mem_map] at hs
    obtain ⟨s0, hs0, rfl⟩ := hs
    exact SubOk_offer r (ha s0 hs0)
  · intro p hp
    exact SubOk_mono [r] (hc p hp)

/-- Changing anything but the subscription lists and the list of writes keeps the invariant. -/
theorem Inv_congr {st st' : St} (h1 : st'.subs = st.subs) (h2 : st'.closed = st.closed) (h3 : st'.writes = st.writes)
    (h : Inv st) : Inv st' := by
  unfold Inv at *
  rw [h1, h2, h3]
  exact h

theorem removeSub_spec (id : Nat) : ∀ (l : List Sub) (s : Sub) (rest : List Sub),
    removeSub id l = some (s, rest) → s ∈ l ∧ s.id = id ∧ (∀ x ∈ rest, x ∈ l) ∧ rest.length + 1 = l.length := by
  intro l
  induction l with
  | nil => intro s rest h; simp [removeSub] at h
  | cons x xs ih =>
    intro s rest h
    simp only [removeSub] at h
    by_cases hx : (x.id == id) = true
    · simp [hx] at h
      obtain ⟨rfl, rfl⟩ := h
      exact ⟨by simp, by simpa using hx, fun y hy => by simp [hy], rfl⟩
    · simp [hx] at h
      cases hr : removeSub id xs with
      | none => rw [hr] at h; simp at h
      | some v =>
        rw [hr] at h
        simp at h
        obtain ⟨rfl, rfl⟩ := h
        obtain ⟨a, b, c, d⟩ := ih v.1 v.2 (by rw [hr])
        refine ⟨by simp [a], b, ?_, by simp; omega⟩
        intro y hy
        simp at hy
        rcases hy with hy | hy
        · simp [hy]
        · simp [c y hy]


/-! ## Controller.Put -/

theorem ctrlPut_cases (st : St) (r : Rec) :
    (∃ cs c, runPrePut st.hooks r = (cs, .error c) ∧ ctrlPut st r = (st, { calls := cs, res := .error (.veto c) })) ∨
    (∃ cs r' same e, runPrePut st.hooks r = (cs, .ok (r', same)) ∧ storeWrite st.cfg st.provs st.store r' = .error e ∧
        ctrlPut st r = (st, { calls := cs, res := .error e })) ∨
    (∃ cs r' same store' w, runPrePut st.hooks r = (cs, .ok (r', same)) ∧ storeWrite st.cfg st.provs st.store r' = .ok (store', w) ∧
        ctrlPut st r = (notify { st with store := store' } w, { calls := cs })) := by
  unfold ctrlPut
  cases hr : runPrePut st.hooks r with
  | mk cs res =>
    cases res with
    | error c => exact Or.inl ⟨cs, c, rfl, rfl⟩
    | ok v =>
      obtain ⟨r', same⟩ := v
      cases hw : storeWrite st.cfg st.provs st.store r' with
      | error e => exact Or.inr (Or.inl ⟨cs, r', same, e, rfl, hw, by simp [hw]⟩)
      | ok v2 =>
        obtain ⟨store', w⟩ := v2
        exact Or.inr (Or.inr ⟨cs, r', same, store', w, rfl, hw, by simp [hw]⟩)

theorem ctrlPut_error {st : St} {r : Rec} {e : Err} (h : (ctrlPut st r).2.res = .error e) : (ctrlPut st r).1 = st := by
  rcases ctrlPut_cases st r with ⟨cs, c, _, h2⟩ | ⟨cs, r', same, e', _, _, h2⟩ | ⟨cs, r', same, store', w, _, _, h2⟩
  · rw [h2]
  · rw [h2]
  · rw [h2] at h; simp at h

theorem Inv_ctrlPut {st : St} (r : Rec) (h : Inv st) : Inv (ctrlPut st r).1 := by
  rcases ctrlPut_cases st r with ⟨cs, c, _, h2⟩ | ⟨cs, r', same, e', _, _, h2⟩ | ⟨cs, r', same, store', w, _, _, h2⟩
  · rw [h2]; exact h
  · rw [h2]; exact h
  · rw [h2]
    exact Inv_notify w (Inv_congr (st := st) rfl rfl rfl h)

theorem ctrlPut_hooks (st : St) (r : Rec) : (ctrlPut st r).1.hooks = st.hooks ∧ (ctrlPut st r).1.cfg = st.cfg := by
  rcases ctrlPut_cases st r with ⟨cs, c, _, h2⟩ | ⟨cs, r', same, e', _, _, h2⟩ | ⟨cs, r', same, store', w, _, _, h2⟩
  · rw [h2]; exact ⟨rfl, rfl⟩
  · rw [h2]; exact ⟨rfl, rfl⟩
  · rw [h2]; exact ⟨rfl, rfl⟩

/-- What the storage holds after a successful write: nothing under the key after an immediate delete, otherwise
    exactly the record that is handed to the subscribers. -/
theorem storeWrite_ok {cfg : Cfg} {provs : List Prov} {store store' : Store} {r w : Rec} (h : storeWrite cfg provs store r = .ok (store', w)) :
    if (!cfg.shadow && r.md.deleted) = true then w = r ∧ sGet store' w.key = none
    else w = cfg.putForm r ∧ sGet store' w.key = some w := by
  unfold storeWrite at h
  by_cases hd : (!cfg.shadow && r.md.deleted) = true
  · simp only [hd, if_true] at h ⊢
    by_cases hk : (cfg.kind == Kind.reg) = true
    · simp [hk] at h
    · simp [hk] at h
      obtain ⟨rfl, rfl⟩ := h
      exact ⟨rfl, sGet_sErase_self _ _⟩
  · simp only [hd] at h ⊢
    by_cases hk : (cfg.kind == Kind.reg && !managed provs r.key) = true
    · simp [hk] at h
    · simp [hk] at h
      obtain ⟨rfl, rfl⟩ := h
      exact ⟨rfl, sGet_sPut_self _ _ _⟩

theorem Inv_putPrepared {st : St} (o : Opts) (r2 : Rec) (h : Inv st) : Inv (putPrepared st o r2).1 := by
  unfold putPrepared
  by_cases h2 : o.delayed = true
  · simp only [h2, if_true]
    by_cases h3 : (!r2.md.deleted) = true
    · simp only [h3, if_true]
      exact Inv_congr rfl rfl rfl h
    · simp only [h3]
      cases hg : sGet st.wcache r2.key with
      | none => exact Inv_ctrlPut _ h
      | some old => exact Inv_ctrlPut _ (Inv_ctrlPut _ (Inv_congr (st := st) rfl rfl rfl h))
  · simp only [h2]
    exact Inv_ctrlPut _ h

theorem Inv_step {st : St} (op : Op) (h : Inv st) : Inv (step st op).1 := by
  cases op with
  | subscribe id o q =>
    simp only [step]
    split
    · exact h
    · obtain ⟨ha, hc⟩ := h
      refine ⟨?_, hc⟩
      intro s hs
      simp at hs
      rcases hs with hs | rfl
      · exact ha s hs
      · exact ⟨Nat.le_refl _, Nat.le_refl _, by simp, [], by simp [accepted]⟩
  | cancel id =>
    simp only [step]
    cases hr : removeSub id st.subs with
    | none => exact h
    | some v =>
      obtain ⟨s, rest⟩ := v
      obtain ⟨hm, _, hrest, _⟩ := removeSub_spec id st.subs s rest hr
      obtain ⟨ha, hc⟩ := h
      refine ⟨fun x hx => ha x (hrest x hx), ?_⟩
      intro p hp
      simp at hp
      rcases hp with hp | rfl
      · exact hc p hp
      · exact ha s hm
  | regHook hk =>
    simp only [step]
    split
    · exact h
    · exact Inv_congr rfl rfl rfl h
  | cancelHook id => exact Inv_congr rfl rfl rfl h
  | put o r isNew =>
    simp only [step, ifacePut]
    split
    · exact h
    · exact Inv_putPrepared _ _ h
  | modify o key m =>
    simp only [step, ifaceModify]
    split
    · exact h
    · split
      · exact Inv_ctrlPut _ (Inv_congr rfl rfl rfl h)
      · exact Inv_ctrlPut _ h
  | get o key => exact h
  | exists_ o key => exact h
  | push r => exact Inv_notify r h
  | flush => exact Inv_congr rfl rfl rfl h
  | putMany o rs =>
    simp only [step]
    split
    · exact h
    · exact Inv_congr rfl rfl rfl h
  | drain =>
    simp only [step]
    obtain ⟨ha, hc⟩ := h
    constructor
    · intro s hs
      simp at hs
      obtain ⟨s0, hs0, rfl⟩ := hs
      obtain ⟨a, b, c, d⟩ := ha s0 hs0
      exact ⟨a, b, c, accepted s0, by simp [accepted]⟩
    · intro p hp
      simp at hp
      obtain ⟨s0, u0, hs0, rfl⟩ := hp
      obtain ⟨a, b, c, d⟩ := hc (s0, u0) hs0
      exact ⟨a, b, c, accepted s0, by simp [accepted]⟩
  | drainOne id =>
    simp only [step]
    obtain ⟨ha, hc⟩ := h
    constructor
    · intro s hs
      simp only [List.mem_map] at hs
      obtain ⟨s0, hs0, rfl⟩ := hs
      obtain ⟨a, b, c, d⟩ := ha s0 hs0
      by_cases hid : (s0.id == id) = true
      · simp only [hid, if_true]
        exact ⟨a, b, c, accepted s0, by simp [accepted]⟩
      · simp only [hid]
        exact ⟨a, b, c, d⟩
    · intro p hp
      simp only [List.mem_map] at hp
      obtain ⟨⟨s0, u0⟩, hs0, rfl⟩ := hp
      obtain ⟨a, b, c, d⟩ := hc (s0, u0) hs0
      by_cases hid : (s0.id == id) = true
      · simp only [hid, if_true]
        exact ⟨a, b, c, accepted s0, by simp [accepted]⟩
      · simp only [hid]
        exact ⟨a, b, c, d⟩

theorem Inv_run : ∀ (ops : List Op) (st : St), Inv st → Inv (run st ops).1 := by
  intro ops
  induction ops with
  | nil => intro st h; exact h
  | cons op ops ih =>
    intro st h
    simp only [run]
    exact ih _ (Inv_step op h)

theorem Inv_init (cfg : Cfg) : Inv (St.init cfg) := by
  constructor <;> intro x hx <;> simp [St.init] at hx


/-! ## pre-get hooks -/

theorem runPreGet_cons (h : Hook) (hs : List Hook) (key : String) :
    runPreGet (h :: hs) key =
      if h.usesPreGet && h.q.keyOk key then
        match h.preGet key with
        | some c => ([⟨h.id, .preGet, key, none, .veto c⟩], some c)
        | none => (⟨h.id, .preGet, key, none, .pass⟩ :: (runPreGet hs key).1, (runPreGet hs key).2)
      else runPreGet hs key := by
  simp only [runPreGet]
  split
  · split <;> simp_all
  · rfl

/-- What a pre-get call records. -/
def preGetRes (h : Hook) (key : String) : HookRes :=
  match h.preGet key with
  | some c => .veto c
  | none => .pass

theorem runPreGet_sound : ∀ (hs : List Hook) (key : String) (c : Call), c ∈ (runPreGet hs key).1 →
    ∃ h ∈ hs, c = ⟨h.id, .preGet, key, none, preGetRes h key⟩ ∧ h.usesPreGet = true ∧ h.q.keyOk key = true := by
  intro hs
  induction hs with
  | nil => intro key c hc; simp [runPreGet] at hc
  | cons h hs ih =>
    intro key c hc
    rw [runPreGet_cons] at hc
    by_cases hu : (h.usesPreGet && h.q.keyOk key) = true
    · simp only [hu, if_true] at hc
      have hu' := hu
      simp only [Bool.and_eq_true] at hu'
      cases hf : h.preGet key with
      | some code =>
        rw [hf] at hc
        simp at hc
        exact ⟨h, by simp, by simp [hc, preGetRes, hf], hu'.1, hu'.2⟩
      | none =>
        rw [hf] at hc
        simp at hc
        rcases hc with hc | hc
        · exact ⟨h, by simp, by simp [hc, preGetRes, hf], hu'.1, hu'.2⟩
        · obtain ⟨h', hm, e1, e2, e3⟩ := ih key c hc
          exact ⟨h', by simp [hm], e1, e2, e3⟩
    · simp only [hu] at hc
      obtain ⟨h', hm, e1, e2, e3⟩ := ih key c hc
      exact ⟨h', by simp [hm], e1, e2, e3⟩

theorem runPreGet_append (post : List Hook) : ∀ (pre : List Hook) (key : String),
    runPreGet (pre ++ post) key =
      match runPreGet pre key with
      | (cs1, some c) => (cs1, some c)
      | (cs1, none) => (cs1 ++ (runPreGet post key).1, (runPreGet post key).2) := by
  intro pre
  induction pre with
  | nil => intro key; simp [runPreGet]
  | cons h hs ih =>
    intro key
    rw [List.cons_append, runPreGet_cons, runPreGet_cons]
    by_cases hu : (h.usesPreGet && h.q.keyOk key) = true
    · simp only [hu, if_true]
      cases hf : h.preGet key with
      | some code => simp
      | none =>
        simp only [ih key]
        cases hr : runPreGet hs key with
        | mk cs res => cases res with
          | some c => simp
          | none => simp
    · simp only [hu]
      exact ih key

theorem runPreGet_order : ∀ (hs : List Hook) (key : String),
    ((runPreGet hs key).1.map (·.hook)).Sublist (hs.map (·.id)) := by
  intro hs
  induction hs with
  | nil => intro key; simp [runPreGet]
  | cons h hs ih =>
    intro key
    rw [runPreGet_cons]
    by_cases hu : (h.usesPreGet && h.q.keyOk key) = true
    · simp only [hu, if_true]
      cases hf : h.preGet key with
      | some code => simp
      | none => simpa using ih key
    · simp only [hu]
      exact List.Sublist.cons _ (ih key)

/-! ## calls of whole operations come from registered hooks -/

/-- A call that can only come from a hook in `hs`: same identity, the phase is declared, the query matches the argument. -/
def CallFrom (hs : List Hook) (c : Call) : Prop :=
  ∃ h ∈ hs, c.hook = h.id ∧
    match c.phase with
    | .preGet => h.usesPreGet = true ∧ h.q.keyOk c.key = true ∧ c.res = preGetRes h c.key
    | .postGet => h.usesPostGet = true ∧ ∃ a, c.arg = some a ∧ h.q.matches a = true ∧ c.res = h.postGet a
    | .prePut => h.usesPrePut = true ∧ ∃ a, c.arg = some a ∧ h.q.matches a = true ∧ c.res = h.prePut a

theorem runPrePut_from (hs : List Hook) (r : Rec) : ∀ c ∈ (runPrePut hs r).1, CallFrom hs c := by
  intro c hc
  obtain ⟨h, hm, a, rfl, e2, e3⟩ := runRec_sound _ _ _ hs r true c hc
  exact ⟨h, hm, rfl, e2, a, rfl, e3, rfl⟩

theorem runPostGet_from (hs : List Hook) (r : Rec) : ∀ c ∈ (runPostGet hs r).1, CallFrom hs c := by
  intro c hc
  obtain ⟨h, hm, a, rfl, e2, e3⟩ := runRec_sound _ _ _ hs r true c hc
  exact ⟨h, hm, rfl, e2, a, rfl, e3, rfl⟩

theorem runPreGet_from (hs : List Hook) (key : String) : ∀ c ∈ (runPreGet hs key).1, CallFrom hs c := by
  intro c hc
  obtain ⟨h, hm, rfl, e2, e3⟩ := runPreGet_sound hs key c hc
  exact ⟨h, hm, rfl, e2, e3, rfl⟩

theorem ctrlPut_from (st : St) (r : Rec) : ∀ c ∈ (ctrlPut st r).2.calls, CallFrom st.hooks c := by
  intro c hc
  rcases ctrlPut_cases st r with ⟨cs, c', h1, h2⟩ | ⟨cs, r', same, e', h1, _, h2⟩ | ⟨cs, r', same, store', w, h1, _, h2⟩ <;>
  · rw [h2] at hc
    have : cs = (runPrePut st.hooks r).1 := by rw [h1]
    rw [this] at hc
    exact runPrePut_from _ _ c hc

theorem ctrlGet_from (st : St) (key : String) : ∀ c ∈ (ctrlGet st key).1, CallFrom st.hooks c := by
  intro c hc
  unfold ctrlGet at hc
  cases hp : runPreGet st.hooks key with
  | mk cs v =>
    have hcs : ∀ x ∈ cs, CallFrom st.hooks x := by
      intro x hx
      have : cs = (runPreGet st.hooks key).1 := by rw [hp]
      rw [this] at hx
      exact runPreGet_from _ _ x hx
    rw [hp] at hc
    cases v with
    | some code => exact hcs c hc
    | none =>
      simp only [] at hc
      cases hg : st.storeGet key with
      | none => rw [hg] at hc; exact hcs c hc
      | some r =>
        rw [hg] at hc
        simp only [] at hc
        cases hq : runPostGet st.hooks r with
        | mk cs2 v2 =>
          have hcs2 : ∀ x ∈ cs2, CallFrom st.hooks x := by
            intro x hx
            have : cs2 = (runPostGet st.hooks r).1 := by rw [hq]
            rw [this] at hx
            exact runPostGet_from _ _ x hx
          rw [hq] at hc
          have key' : c ∈ cs ++ cs2 := by
            cases v2 with
            | error e => simpa using hc
            | ok p =>
              obtain ⟨r', same⟩ := p
              simp only [] at hc
              split at hc <;> simpa using hc
          rcases List.mem_append.mp key' with hx | hx
          · exact hcs c hx
          · exact hcs2 c hx


theorem ifaceGetRec_calls (st : St) (o : Opts) (key : String) : (ifaceGetRec st o key).1 = (ctrlGet st key).1 := by
  unfold ifaceGetRec
  cases hg : ctrlGet st key with
  | mk cs v =>
    cases v with
    | error e => rfl
    | ok p =>
      obtain ⟨r, same⟩ := p
      simp only []
      split <;> rfl

theorem putPrepared_from (st : St) (o : Opts) (r2 : Rec) : ∀ c ∈ (putPrepared st o r2).2.calls, CallFrom st.hooks c := by
  intro c hc
  unfold putPrepared at hc
  by_cases h2 : o.delayed = true
  · simp only [h2, if_true] at hc
    by_cases h3 : (!r2.md.deleted) = true
    · simp only [h3, if_true] at hc
      simp at hc
    · simp only [h3] at hc
      cases hg : sGet st.wcache r2.key with
      | none => rw [hg] at hc; exact ctrlPut_from st r2 c hc
      | some old =>
        rw [hg] at hc
        simp only [] at hc
        rcases List.mem_append.mp hc with hx | hx
        · exact ctrlPut_from { st with wcache := sErase st.wcache r2.key } old c hx
        · have := ctrlPut_from _ r2 c hx
          rw [(ctrlPut_hooks _ old).1] at this
          exact this
  · simp only [h2] at hc
    exact ctrlPut_from st r2 c hc

theorem step_calls_from (st : St) (op : Op) : ∀ c ∈ (step st op).2.calls, CallFrom st.hooks c := by
  intro c hc
  cases op with
  | subscribe id o q => simp only [step] at hc; split at hc <;> simp at hc
  | cancel id => simp only [step] at hc; split at hc <;> simp at hc
  | regHook hk => simp only [step] at hc; split at hc <;> simp at hc
  | cancelHook id => simp [step] at hc
  | put o r isNew =>
    simp only [step, ifacePut] at hc
    split at hc
    · simp at hc
    · exact putPrepared_from st o _ c hc
  | modify o key m =>
    simp only [step, ifaceModify] at hc
    have hcalls := ifaceGetRec_calls st o key
    cases hg : ifaceGetRec st o key with
    | mk cs v =>
      rw [hg] at hc hcalls
      simp only [] at hcalls
      have hcs : ∀ x ∈ cs, CallFrom st.hooks x := by
        intro x hx; rw [hcalls] at hx; exact ctrlGet_from st key x hx
      cases v with
      | error e => exact hcs c hc
      | ok p =>
        obtain ⟨r, same⟩ := p
        simp only [] at hc
        rcases List.mem_append.mp hc with hx | hx
        · exact hcs c hx
        · split at hx
          · exact ctrlPut_from { st with store := sPut st.store r.key (m.run o r) } _ c hx
          · exact ctrlPut_from st _ c hx
  | get o key =>
    simp only [step, ifaceGet] at hc
    have hcalls := ifaceGetRec_calls st o key
    cases hg : ifaceGetRec st o key with
    | mk cs v =>
      rw [hg] at hc hcalls
      simp only [] at hcalls
      have : c ∈ cs := by
        cases v with
        | error e => simpa using hc
        | ok p => obtain ⟨r, same⟩ := p; simpa using hc
      rw [hcalls] at this
      exact ctrlGet_from st key c this
  | exists_ o key =>
    simp only [step, ifaceExists] at hc
    have hcalls := ifaceGetRec_calls st o key
    cases hg : ifaceGetRec st o key with
    | mk cs v =>
      rw [hg] at hc hcalls
      simp only [] at hcalls
      have : c ∈ cs := by
        cases v with
        | error e => cases e <;> simpa using hc
        | ok p => obtain ⟨r, same⟩ := p; simpa using hc
      rw [hcalls] at this
      exact ctrlGet_from st key c this
  | push r => simp [step] at hc
  | flush => simp [step] at hc
  | putMany o rs => simp only [step] at hc; split at hc <;> simp at hc
  | drain => simp [step] at hc
  | drainOne id => simp [step] at hc

/-! ## hook registration -/

theorem removeHook_not_mem (id : Nat) : ∀ hs : List Hook, (hs.map (·.id)).Nodup → id ∉ (removeHook id hs).map (·.id) := by
  intro hs
  induction hs with
  | nil => intro _; simp [removeHook]
  | cons h hs ih =>
    intro hn
    simp only [List.map_cons, List.nodup_cons] at hn
    simp only [removeHook]
    by_cases hh : (h.id == id) = true
    · simp only [hh, if_true]
      have : h.id = id := by simpa using hh
      rw [← this]
      exact hn.1
    · simp only [hh]
      have : h.id ≠ id := by simpa using hh
      simp only [Bool.false_eq_true, if_false, List.map_cons, List.mem_cons, not_or]
      exact ⟨fun e => this e.symm, ih hn.2⟩

theorem removeHook_keeps (id : Nat) : ∀ (hs : List Hook) (h : Hook), h ∈ hs → h.id ≠ id → h ∈ removeHook id hs := by
  intro hs
  induction hs with
  | nil => intro h hm; simp at hm
  | cons x xs ih =>
    intro h hm hne
    simp only [removeHook]
    by_cases hh : (x.id == id) = true
    · simp only [hh, if_true]
      simp at hm
      rcases hm with rfl | hm
      · exact absurd (by simpa using hh) hne
      · exact hm
    · simp only [hh]
      simp at hm
      rcases hm with rfl | hm
      · simp
      · simp [ih h hm hne]

theorem removeHook_sublist (id : Nat) : ∀ hs : List Hook, (removeHook id hs).Sublist hs := by
  intro hs
  induction hs with
  | nil => simp [removeHook]
  | cons x xs ih =>
    simp only [removeHook]
    split
    · exact List.sublist_cons_self _ _
    · exact List.Sublist.cons_cons _ ih


theorem putPrepared_hooks (st : St) (o : Opts) (r2 : Rec) : (putPrepared st o r2).1.hooks = st.hooks := by
  unfold putPrepared
  by_cases h2 : o.delayed = true
  · simp only [h2, if_true]
    by_cases h3 : (!r2.md.deleted) = true
    · simp only [h3, if_true]
    · simp only [h3]
      cases hg : sGet st.wcache r2.key with
      | none => exact (ctrlPut_hooks st r2).1
      | some old =>
        simp only [Bool.false_eq_true, if_false]
        rw [(ctrlPut_hooks _ r2).1, (ctrlPut_hooks _ old).1]
  · simp only [h2]
    exact (ctrlPut_hooks st r2).1

/-- Only `RegisterHook` and `RegisteredHook.Cancel` change the hook list. -/
theorem step_hooks (st : St) (op : Op) :
    (step st op).1.hooks =
      match op with
      | .regHook h => if h.q.bad then st.hooks else st.hooks ++ [h]
      | .cancelHook id => removeHook id st.hooks
      | _ => st.hooks := by
  cases op with
  | subscribe id o q => simp only [step]; split <;> rfl
  | cancel id => simp only [step]; split <;> rfl
  | regHook hk => simp only [step]; split <;> rfl
  | cancelHook id => rfl
  | put o r isNew =>
    simp only [step, ifacePut]
    split
    · rfl
    · exact putPrepared_hooks st o _
  | modify o key m =>
    simp only [step, ifaceModify]
    split
    · rfl
    · split
      · exact (ctrlPut_hooks _ _).1
      · exact (ctrlPut_hooks _ _).1
  | get o key => rfl
  | exists_ o key => rfl
  | push r => rfl
  | flush => rfl
  | putMany o rs => simp only [step]; split <;> rfl
  | drain => rfl
  | drainOne id => rfl

/-! ## The runtime registry in front of its database -/

/-- What the registry itself keeps (providers, the controller it was injected with) is no business of the database
    operations. -/
def RegSame (st st' : St) : Prop := st'.provs = st.provs ∧ st'.injected = st.injected

theorem RegSame.trans {a b c : St} (h1 : RegSame a b) (h2 : RegSame b c) : RegSame a c :=
  ⟨h2.1.trans h1.1, h2.2.trans h1.2⟩

theorem ctrlPut_reg (st : St) (r : Rec) : RegSame st (ctrlPut st r).1 := by
  rcases ctrlPut_cases st r with ⟨cs, c, _, h2⟩ | ⟨cs, r', same, e', _, _, h2⟩ | ⟨cs, r', same, store', w, _, _, h2⟩
  · rw [h2]; exact ⟨rfl, rfl⟩
  · rw [h2]; exact ⟨rfl, rfl⟩
  · rw [h2]; exact ⟨rfl, rfl⟩

theorem putPrepared_reg (st : St) (o : Opts) (r2 : Rec) : RegSame st (putPrepared st o r2).1 := by
  unfold putPrepared
  by_cases h2 : o.delayed = true
  · simp only [h2, if_true]
    by_cases h3 : (!r2.md.deleted) = true
    · simp only [h3, if_true]; exact ⟨rfl, rfl⟩
    · simp only [h3]
      cases hg : sGet st.wcache r2.key with
      | none => exact ctrlPut_reg st r2
      | some old =>
        simp only [Bool.false_eq_true, if_false]
        have h0 : RegSame st { st with wcache := sErase st.wcache r2.key } := ⟨rfl, rfl⟩
        exact RegSame.trans h0 (RegSame.trans (ctrlPut_reg _ old) (ctrlPut_reg _ r2))
  · simp only [h2]
    exact ctrlPut_reg st r2

/-- No database operation registers a provider or injects the registry. -/
theorem step_reg (st : St) (op : Op) : RegSame st (step st op).1 := by
  cases op with
  | subscribe id o q => simp only [step]; split <;> exact ⟨rfl, rfl⟩
  | cancel id => simp only [step]; split <;> exact ⟨rfl, rfl⟩
  | regHook hk => simp only [step]; split <;> exact ⟨rfl, rfl⟩
  | cancelHook id => exact ⟨rfl, rfl⟩
  | put o r isNew =>
    simp only [step, ifacePut]
    split
    · exact ⟨rfl, rfl⟩
    · exact putPrepared_reg st o _
  | modify o key m =>
    simp only [step, ifaceModify]
    split
    · exact ⟨rfl, rfl⟩
    · split
      · exact RegSame.trans (b := { st with store := _ }) ⟨rfl, rfl⟩ (ctrlPut_reg _ _)
      · exact ctrlPut_reg _ _
  | get o key => exact ⟨rfl, rfl⟩
  | exists_ o key => exact ⟨rfl, rfl⟩
  | push r => exact ⟨rfl, rfl⟩
  | flush => exact ⟨rfl, rfl⟩
  | putMany o rs => simp only [step]; split <;> exact ⟨rfl, rfl⟩
  | drain => exact ⟨rfl, rfl⟩
  | drainOne id => exact ⟨rfl, rfl⟩

/-- Once there is a controller the database operations on the registry are the controller's. -/
theorem rstep_db_injected {st : St} (op : Op) (h : st.injected = true) : rstep st (.db op) = step st op := by
  simp [rstep, h]

/-- Before that they all fail and change nothing. -/
theorem rstep_db_not_injected {st : St} (op : Op) (h : st.injected = false) :
    (rstep st (.db op)).1 = st ∧ ∃ e, (rstep st (.db op)).2.res = .error e ∧ (rstep st (.db op)).2.calls = [] := by
  simp only [rstep, h]
  cases op <;> exact ⟨rfl, _, rfl, rfl⟩

theorem Inv_rstep {st : St} (op : ROp) (h : Inv st) : Inv (rstep st op).1 := by
  cases op with
  | db op =>
    by_cases hi : st.injected = true
    · rw [rstep_db_injected op hi]; exact Inv_step op h
    · rw [(rstep_db_not_injected op (by simpa using hi)).1]; exact h
  | register id key =>
    simp only [rstep]
    split
    · exact h
    · exact Inv_congr rfl rfl rfl h
  | inject =>
    simp only [rstep]
    split
    · exact h
    · exact Inv_congr rfl rfl rfl h
  | push id r =>
    simp only [rstep]
    split
    · exact h
    · split
      · exact Inv_notify r h
      · exact h

theorem Inv_rrun : ∀ (ops : List ROp) (st : St), Inv st → Inv (rrun st ops).1 := by
  intro ops
  induction ops with
  | nil => intro st h; exact h
  | cons op ops ih =>
    intro st h
    simp only [rrun]
    exact ih _ (Inv_rstep op h)

/-- Injection is for good: nothing takes the controller away from the registry again. -/
theorem rstep_injected_mono {st : St} (op : ROp) (h : st.injected = true) : (rstep st op).1.injected = true := by
  cases op with
  | db op => rw [rstep_db_injected op h, (step_reg st op).2]; exact h
  | register id key => simp only [rstep]; split <;> exact h
  | inject => simp [rstep, h]
  | push id r =>
    simp only [rstep]
    split
    · exact h
    · split
      · exact h
      · exact h

theorem rrun_injected_mono : ∀ (ops : List ROp) (st : St), st.injected = true → (rrun st ops).1.injected = true := by
  intro ops
  induction ops with
  | nil => intro st h; exact h
  | cons op ops ih =>
    intro st h
    simp only [rrun]
    exact ih _ (rstep_injected_mono op h)

/-- `InjectAsDatabase` leaves the registry injected whether it succeeds or answers `ErrInjected`. -/
theorem rstep_inject_injected (st : St) : (rstep st .inject).1.injected = true := by
  by_cases h : st.injected = true <;> simp [rstep, h]

theorem rrun_inject_mem : ∀ (ops : List ROp) (st : St), ROp.inject ∈ ops → (rrun st ops).1.injected = true := by
  intro ops
  induction ops with
  | nil => intro st h; simp at h
  | cons op ops ih =>
    intro st h
    simp only [rrun]
    rcases List.mem_cons.mp h with rfl | h
    · exact rrun_injected_mono ops _ (rstep_inject_injected st)
    · exact ih _ h

/-- Providers stay registered (there is no way to unregister one). -/
theorem rstep_provs_mono {st : St} (op : ROp) {p : Prov} (h : p ∈ st.provs) : p ∈ (rstep st op).1.provs := by
  cases op with
  | db op =>
    by_cases hi : st.injected = true
    · rw [rstep_db_injected op hi, (step_reg st op).1]; exact h
    · rw [(rstep_db_not_injected op (by simpa using hi)).1]; exact h
  | register id key =>
    simp only [rstep]
    split
    · exact h
    · exact List.mem_append_left _ h
  | inject => simp only [rstep]; split <;> exact h
  | push id r =>
    simp only [rstep]
    split
    · exact h
    · split
      · exact h
      · exact h

/-- As long as the registry is not injected there is no controller, hence no subscription, no hook and no write. -/
def Quiet (st : St) : Prop :=
  st.injected = false → st.subs = [] ∧ st.closed = [] ∧ st.hooks = [] ∧ st.writes = [] ∧ st.store = []

theorem Quiet_rstep {st : St} (op : ROp) (h : Quiet st) : Quiet (rstep st op).1 := by
  by_cases hi : st.injected = true
  · intro hn
    rw [rstep_injected_mono op hi] at hn
    exact absurd hn (by simp)
  · have hi' : st.injected = false := by simpa using hi
    cases op with
    | db op => rw [(rstep_db_not_injected op hi').1]; exact h
    | register id key =>
      simp only [rstep]
      split
      · exact h
      · intro _; exact h hi'
    | inject =>
      intro hn
      rw [rstep_inject_injected] at hn
      exact absurd hn (by simp)
    | push id r =>
      simp only [rstep]
      split
      · exact h
      · simp only [pushTarget, PB.Gen.Subs.pushReadsControllerAtPush, if_true, hi', Bool.false_eq_true, if_false]
        exact h

theorem Quiet_rrun : ∀ (ops : List ROp) (st : St), Quiet st → Quiet (rrun st ops).1 := by
  intro ops
  induction ops with
  | nil => intro st h; exact h
  | cons op ops ih =>
    intro st h
    simp only [rrun]
    exact ih _ (Quiet_rstep op h)

end PB.Subs
