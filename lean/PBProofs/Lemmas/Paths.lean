import PB.Model.Paths
/-
Helper lemmas for C18 (path containment).
-/
namespace PB.Paths
open PB

/-! ### splitSep / joinSep -/

theorem splitSep_ne_nil (p : Path) : splitSep p ≠ [] := by
  induction p with
  | nil => simp [splitSep]
  | cons c cs ih =>
    unfold splitSep
    split
    · simp
    · split <;> simp

theorem splitSep_append_sep (a b : Path) : splitSep (a ++ 47 :: b) = splitSep a ++ splitSep b := by
  induction a with
  | nil => simp [splitSep]
  | cons c cs ih =>
    by_cases hc : c = 47
    · simp [splitSep, hc, ih]
    · simp only [List.cons_append, splitSep, hc, if_false, ih]
      cases h : splitSep cs with
      | nil => exact absurd h (splitSep_ne_nil cs)
      | cons s ss => simp

/-- Segments never contain the separator. -/
theorem not_mem_of_mem_splitSep {p s : Path} (h : s ∈ splitSep p) : (47 : UInt8) ∉ s := by
  induction p generalizing s with
  | nil => simp [splitSep] at h; simp [h]
  | cons c cs ih =>
    by_cases hc : c = 47
    · simp [splitSep, hc] at h
      rcases h with h | h
      · simp [h]
      · exact ih h
    · simp only [splitSep, hc, if_false] at h
      cases hs : splitSep cs with
      | nil => exact absurd hs (splitSep_ne_nil cs)
      | cons t ts =>
        rw [hs] at h
        simp at h
        rcases h with h | h
        · subst h
          have := ih (s := t) (by simp [hs])
          simp [this, Ne.symm hc]
        · exact ih (by simp [hs, h])

theorem splitSep_of_not_mem {s : Path} (h : (47 : UInt8) ∉ s) : splitSep s = [s] := by
  induction s with
  | nil => simp [splitSep]
  | cons c cs ih =>
    have hc : c ≠ 47 := by intro e; simp [e] at h
    have hcs : (47 : UInt8) ∉ cs := by intro e; simp [e] at h
    simp [splitSep, hc, ih hcs]

theorem splitSep_joinSep {ss : List Path} (hne : ss ≠ []) (h : ∀ s ∈ ss, (47 : UInt8) ∉ s) :
    splitSep (joinSep ss) = ss := by
  induction ss with
  | nil => exact absurd rfl hne
  | cons s rest ih =>
    cases rest with
    | nil => simpa [joinSep] using splitSep_of_not_mem (h s (by simp))
    | cons t ts =>
      simp only [joinSep]
      rw [splitSep_append_sep, splitSep_of_not_mem (h s (by simp))]
      rw [ih (by simp) (fun x hx => h x (by simp [hx]))]
      simp

/-! ### Normal segments and lexical resolution -/

/-- Empty-or-normal: the segments that never pop the stack. -/
def Benign (s : Path) : Prop := s = [] ∨ Normal s

theorem stepSeg_normal {st : List Path} {s : Path} (h : Normal s) : stepSeg st s = st ++ [s] := by
  simp [stepSeg, h.1, h.2.1, h.2.2.1]

theorem stepSeg_nil (st : List Path) : stepSeg st [] = st := by simp [stepSeg]

theorem stepSeg_dot (st : List Path) : stepSeg st dot = st := by simp [stepSeg]

/-- Non-empty segment (as a Boolean filter). -/
def nonE (s : Path) : Bool := !s.isEmpty

@[simp] theorem nonE_nil : nonE [] = false := rfl
theorem nonE_of_ne {s : Path} (h : s ≠ []) : nonE s = true := by
  cases s with
  | nil => exact absurd rfl h
  | cons _ _ => rfl

theorem foldl_stepSeg_benign {L : List Path} (h : ∀ s ∈ L, Benign s) (st : List Path) :
    L.foldl stepSeg st = st ++ L.filter nonE := by
  induction L generalizing st with
  | nil => simp
  | cons s rest ih =>
    have hr : ∀ x ∈ rest, Benign x := fun x hx => h x (by simp [hx])
    rcases h s (by simp) with hs | hs
    · subst hs; simp [stepSeg_nil, ih hr]
    · simp [stepSeg_normal hs, ih hr, nonE_of_ne hs.1]

/-- Every entry on the resolution stack is a normal name. -/
theorem stepSeg_allNormal {st : List Path} {s : Path} (hst : ∀ x ∈ st, Normal x) (hs : (47 : UInt8) ∉ s) :
    ∀ x ∈ stepSeg st s, Normal x := by
  unfold stepSeg
  split
  · exact hst
  · split
    · intro x hx; exact hst x (List.dropLast_subset _ hx)
    · rename_i h1 h2
      intro x hx
      simp at hx
      rcases hx with hx | hx
      · exact hst x hx
      · subst hx
        simp at h1
        exact ⟨h1.1, h1.2, h2, hs⟩

theorem foldl_stepSeg_allNormal {L : List Path} (hL : ∀ s ∈ L, (47 : UInt8) ∉ s) {st : List Path}
    (hst : ∀ x ∈ st, Normal x) : ∀ x ∈ L.foldl stepSeg st, Normal x := by
  induction L generalizing st with
  | nil => simpa using hst
  | cons s rest ih =>
    simp only [List.foldl_cons]
    exact ih (fun x hx => hL x (by simp [hx])) (stepSeg_allNormal hst (hL s (by simp)))

theorem resolveFrom_allNormal {st : List Path} (hst : ∀ x ∈ st, Normal x) (p : Path) :
    ∀ x ∈ resolveFrom st p, Normal x :=
  foldl_stepSeg_allNormal (fun _ hs => not_mem_of_mem_splitSep hs) hst

theorem resolve_allNormal (p : Path) : ∀ x ∈ resolve p, Normal x :=
  resolveFrom_allNormal (by simp) p

theorem resolveFrom_append_sep (st : List Path) (a b : Path) :
    resolveFrom st (a ++ 47 :: b) = resolveFrom (resolveFrom st a) b := by
  simp [resolveFrom, splitSep_append_sep, List.foldl_append]

theorem resolve_append_sep (a b : Path) : resolve (a ++ 47 :: b) = resolveFrom (resolve a) b :=
  resolveFrom_append_sep [] a b

/-! ### `filepath.Clean` on absolute paths is lexical resolution -/

theorem cleanStep_true_eq {st : List Path} (hst : ∀ x ∈ st, x ≠ dotdot) (s : Path) :
    cleanStep true st s = stepSeg st s := by
  unfold cleanStep stepSeg
  split
  · rfl
  · split
    · by_cases he : st = []
      · simp [he]
      · simp only [he, if_false]
        have : st.getLast? ≠ some dotdot := by
          intro h
          exact hst _ (List.mem_of_getLast? h) rfl
        simp [this]
    · rfl

theorem foldl_cleanStep_true_eq (L : List Path) (hL : ∀ s ∈ L, (47 : UInt8) ∉ s) {st : List Path}
    (hst : ∀ x ∈ st, Normal x) : L.foldl (cleanStep true) st = L.foldl stepSeg st := by
  induction L generalizing st with
  | nil => rfl
  | cons s rest ih =>
    simp only [List.foldl_cons]
    rw [cleanStep_true_eq (fun x hx => (hst x hx).2.2.1)]
    exact ih (fun x hx => hL x (by simp [hx])) (stepSeg_allNormal hst (hL s (by simp)))

theorem cleanSegs_true (p : Path) : cleanSegs true p = resolve p :=
  foldl_cleanStep_true_eq _ (fun _ hs => not_mem_of_mem_splitSep hs) (by simp)

theorem isAbs_iff {p : Path} : isAbs p = true ↔ ∃ t, p = 47 :: t := by
  cases p with
  | nil => simp [isAbs]
  | cons c cs => simp [isAbs]

theorem clean_abs {p : Path} (h : isAbs p = true) : clean p = 47 :: joinSep (resolve p) := by
  obtain ⟨t, rfl⟩ := isAbs_iff.mp h
  simp [clean, isAbs, cleanSegs_true]

/-! ### Clean absolute paths: `/` followed by normal names -/

theorem normal_not_mem {s : Path} (h : Normal s) : (47 : UInt8) ∉ s := h.2.2.2

/-- The segments of `/ ++ joinSep ns` (`ns` normal names): all benign, and the non-empty ones are `ns`. -/
theorem splitSep_cleanAbs {ns : List Path} (h : ∀ x ∈ ns, Normal x) :
    (∀ s ∈ splitSep (47 :: joinSep ns), Benign s) ∧ (splitSep (47 :: joinSep ns)).filter nonE = ns := by
  cases ns with
  | nil => simp [joinSep, splitSep, Benign]
  | cons n rest =>
    have hs : splitSep (47 :: joinSep (n :: rest)) = [] :: (n :: rest) := by
      have := splitSep_joinSep (ss := n :: rest) (by simp) (fun x hx => normal_not_mem (h x hx))
      simp [splitSep, this]
    rw [hs]
    constructor
    · intro s hs
      simp at hs
      rcases hs with hs | hs | hs
      · exact Or.inl hs
      · exact Or.inr (hs ▸ h n (by simp))
      · exact Or.inr (h s (by simp [hs]))
    · have : ∀ x ∈ n :: rest, nonE x = true := fun x hx => nonE_of_ne (h x hx).1
      rw [List.filter_cons_of_neg (by simp)]
      exact List.filter_eq_self.mpr this

theorem resolve_cleanAbs {ns : List Path} (h : ∀ x ∈ ns, Normal x) : resolve (47 :: joinSep ns) = ns := by
  have := splitSep_cleanAbs h
  simp [resolve, resolveFrom, foldl_stepSeg_benign this.1, this.2]

/-- `Clean` does not change where an absolute path leads. -/
theorem resolve_clean {p : Path} (h : isAbs p = true) : resolve (clean p) = resolve p := by
  rw [clean_abs h, resolve_cleanAbs (resolve_allNormal p)]

theorem isAbs_clean {p : Path} (h : isAbs p = true) : isAbs (clean p) = true := by
  rw [clean_abs h]; rfl

theorem clean_clean {p : Path} (h : isAbs p = true) : clean (clean p) = clean p := by
  rw [clean_abs (isAbs_clean h), resolve_clean h, clean_abs h]

/-- The key step from string prefixes to containment: if a clean absolute path starts with `r ++ "/"`,
    then resolving `r` yields a prefix of its directory chain — for every `r`. -/
theorem resolve_prefix_of_hasPrefix {ns : List Path} (h : ∀ x ∈ ns, Normal x) {r : Path}
    (hp : hasPrefix (47 :: joinSep ns) (r ++ [47]) = true) : resolve r <+: ns := by
  have hp' : (r ++ [47]) <+: (47 :: joinSep ns) := by simpa [hasPrefix] using hp
  obtain ⟨rest, hrest⟩ := hp'
  have hsplit : splitSep r ++ splitSep rest = splitSep (47 :: joinSep ns) := by
    rw [← hrest]
    simpa using (splitSep_append_sep r rest).symm
  obtain ⟨hb, hf⟩ := splitSep_cleanAbs h
  have hbr : ∀ s ∈ splitSep r, Benign s := fun s hs => hb s (by rw [← hsplit]; simp [hs])
  have : resolve r = (splitSep r).filter nonE := by
    simp [resolve, resolveFrom, foldl_stepSeg_benign hbr]
  rw [this, ← hf, ← hsplit, List.filter_append]
  exact List.prefix_append _ _

/-- Strict version: a clean absolute path that starts with `r ++ "/"` (r not empty) goes at least one level below `r`. -/
theorem resolve_strict_of_hasPrefix {ns : List Path} (h : ∀ x ∈ ns, Normal x) {r : Path} (hr : r ≠ [])
    (hp : hasPrefix (47 :: joinSep ns) (r ++ [47]) = true) : ∃ x xs, ns = resolve r ++ x :: xs := by
  have hp' : (r ++ [47]) <+: (47 :: joinSep ns) := by simpa [hasPrefix] using hp
  obtain ⟨rest, hrest⟩ := hp'
  have hsplit : splitSep r ++ splitSep rest = splitSep (47 :: joinSep ns) := by
    rw [← hrest]
    simpa using (splitSep_append_sep r rest).symm
  obtain ⟨hb, hf⟩ := splitSep_cleanAbs h
  have hbr : ∀ s ∈ splitSep r, Benign s := fun s hs => hb s (by rw [← hsplit]; simp [hs])
  have hres : resolve r = (splitSep r).filter nonE := by
    simp [resolve, resolveFrom, foldl_stepSeg_benign hbr]
  have hns : ns = resolve r ++ (splitSep rest).filter nonE := by
    rw [hres, ← List.filter_append, hsplit, hf]
  cases ns with
  | nil =>
    -- "/" = r ++ "/" ++ rest forces r = []
    exfalso
    simp [joinSep] at hrest
    cases r with
    | nil => exact hr rfl
    | cons c cs => simp at hrest
  | cons n ns' =>
    have hs : splitSep (47 :: joinSep (n :: ns')) = [] :: (n :: ns') := by
      have := splitSep_joinSep (ss := n :: ns') (by simp) (fun x hx => normal_not_mem (h x hx))
      simp [splitSep, this]
    rw [hs] at hsplit
    -- splitSep r is not empty, so every element of splitSep rest is one of the normal names
    have hmem : ∀ s ∈ splitSep rest, s ∈ n :: ns' := by
      cases hsr : splitSep r with
      | nil => exact absurd hsr (splitSep_ne_nil r)
      | cons a as =>
        rw [hsr] at hsplit
        simp at hsplit
        intro s hs'
        rw [← hsplit.2]; simp [hs']
    have hall : (splitSep rest).filter nonE = splitSep rest :=
      List.filter_eq_self.mpr (fun s hs' => nonE_of_ne (h s (hmem s hs')).1)
    cases hsr : splitSep rest with
    | nil => exact absurd hsr (splitSep_ne_nil rest)
    | cons x xs => exact ⟨x, xs, by rw [hns, hall, hsr]⟩

theorem resolve_append_slash (r : Path) : resolve (r ++ [47]) = resolve r := by
  have := resolve_append_sep r []
  simpa [resolveFrom, splitSep, stepSeg_nil] using this

theorem inside_refl {root : Path} (h : isAbs root = true) : Inside root root := ⟨h, List.prefix_refl _⟩

/-- A cleaned absolute path that starts with `root ++ "/"` is inside `root`. -/
theorem inside_of_clean_hasPrefix {p root : Path} (hp : isAbs p = true)
    (h : hasPrefix (clean p) (root ++ [47]) = true) : Inside root (clean p) := by
  refine ⟨isAbs_clean hp, ?_⟩
  rw [resolve_clean hp]
  rw [clean_abs hp] at h
  exact resolve_prefix_of_hasPrefix (resolve_allNormal p) h

/-- Strict containment from the scope check with separator. -/
theorem strictlyInside_of_clean_hasPrefix {p root : Path} (hp : isAbs p = true) (hr : root ≠ [])
    (h : hasPrefix (clean p) (root ++ [47]) = true) : StrictlyInside root (clean p) := by
  refine ⟨isAbs_clean hp, ?_⟩
  rw [resolve_clean hp]
  rw [clean_abs hp] at h
  exact resolve_strict_of_hasPrefix (resolve_allNormal p) hr h

/-! ### `filepath.Join` below an absolute directory -/

theorem isAbs_append {a : Path} (h : isAbs a = true) (b : Path) : isAbs (a ++ b) = true := by
  obtain ⟨t, rfl⟩ := isAbs_iff.mp h; rfl

theorem ne_nil_of_isAbs {a : Path} (h : isAbs a = true) : a ≠ [] := by
  obtain ⟨t, rfl⟩ := isAbs_iff.mp h; simp

theorem join2_abs {a : Path} (h : isAbs a = true) (b : Path) : join2 a b = clean (a ++ 47 :: b) := by
  simp [join2, ne_nil_of_isAbs h]

/-- `Join(a, b)` leads to where the operating system gets by resolving `b` from directory `a`. -/
theorem resolve_join2 {a : Path} (h : isAbs a = true) (b : Path) :
    resolve (join2 a b) = resolveFrom (resolve a) b := by
  rw [join2_abs h, resolve_clean (isAbs_append h _), resolve_append_sep]

theorem isAbs_join2 {a : Path} (h : isAbs a = true) (b : Path) : isAbs (join2 a b) = true := by
  rw [join2_abs h]; exact isAbs_clean (isAbs_append h _)

/-- The scope check shared by fstree, unpacking and ScanStorage. -/
theorem inside_join2_of_hasPrefix {a root : Path} (h : isAbs a = true) (b : Path)
    (hp : hasPrefix (join2 a b) (root ++ [47]) = true) : Inside root (join2 a b) := by
  rw [join2_abs h] at hp ⊢
  exact inside_of_clean_hasPrefix (isAbs_append h _) hp

/-! ### `filepath.Dir` of a clean absolute path -/

theorem joinSep_concat {init : List Path} (hne : init ≠ []) (l : Path) :
    joinSep (init ++ [l]) = joinSep init ++ 47 :: l := by
  induction init with
  | nil => exact absurd rfl hne
  | cons a rest ih =>
    cases rest with
    | nil => simp [joinSep]
    | cons b bs =>
      have := ih (by simp)
      simp only [List.cons_append] at this ⊢
      simp [joinSep, this]

theorem dropWhile_all {α : Type} (p : α → Bool) (l : List α) (h : ∀ x ∈ l, p x = true) : l.dropWhile p = [] := by
  induction l with
  | nil => rfl
  | cons a rest ih =>
    simp [List.dropWhile, h a (by simp), ih (fun x hx => h x (by simp [hx]))]

theorem eq_nil_or_snoc {α : Type} (l : List α) : l = [] ∨ ∃ init x, l = init ++ [x] := by
  rcases List.eq_nil_or_concat l with h | ⟨init, x, h⟩
  · exact Or.inl h
  · exact Or.inr ⟨init, x, by simpa using h⟩

theorem dir_root : isAbs (clean [47]) = true ∧ resolve (clean [47]) = [] := by decide

theorem throughLastSep_append (A l : Path) (hl : (47 : UInt8) ∉ l) : throughLastSep (A ++ 47 :: l) = A ++ [47] := by
  unfold throughLastSep
  have h1 : (A ++ 47 :: l).reverse = l.reverse ++ (47 :: A.reverse) := by simp
  have h2 : List.dropWhile (fun x => decide (x ≠ (47 : UInt8))) l.reverse = [] := by
    apply dropWhile_all
    intro x hx
    have : x ≠ 47 := by intro e; subst e; exact hl (List.mem_reverse.mp hx)
    simp [this]
  rw [h1, List.dropWhile_append, h2]
  simp

/-- `Dir` of a clean absolute path is absolute and leads to the parent directory. -/
theorem dirOf_cleanAbs {ns : List Path} (h : ∀ x ∈ ns, Normal x) :
    isAbs (dirOf (47 :: joinSep ns)) = true ∧ resolve (dirOf (47 :: joinSep ns)) = ns.dropLast := by
  rcases eq_nil_or_snoc ns with hnil | ⟨init, l, hcat⟩
  · subst hnil
    have : throughLastSep [47] = [47] := by simp [throughLastSep]
    simpa [dirOf, joinSep, this] using dir_root
  · subst hcat
    have hl : (47 : UInt8) ∉ l := normal_not_mem (h l (by simp))
    have hinit : ∀ x ∈ init, Normal x := fun x hx => h x (by simp [hx])
    by_cases hi : init = []
    · subst hi
      have : throughLastSep (47 :: l) = [47] := by simpa using throughLastSep_append [] l hl
      simpa [dirOf, joinSep, this] using dir_root
    · have hj : (47 : UInt8) :: joinSep (init ++ [l]) = (47 :: joinSep init) ++ 47 :: l := by
        simp [joinSep_concat hi]
      have ht := throughLastSep_append (47 :: joinSep init) l hl
      rw [← hj] at ht
      have habs : isAbs (47 :: joinSep init ++ [47]) = true := rfl
      unfold dirOf
      rw [ht]
      refine ⟨isAbs_clean habs, ?_⟩
      rw [resolve_clean habs, resolve_append_slash, resolve_cleanAbs hinit]
      simp

/-! ### The scope check does not over-reject: names that stay strictly inside pass it -/

theorem joinSep_append {as : List Path} (hne : as ≠ []) (b : Path) (bs : List Path) :
    joinSep (as ++ b :: bs) = joinSep as ++ 47 :: joinSep (b :: bs) := by
  induction as with
  | nil => exact absurd rfl hne
  | cons a rest ih =>
    cases rest with
    | nil => simp [joinSep]
    | cons c cs =>
      have := ih (by simp)
      simp only [List.cons_append] at this ⊢
      simp [joinSep, this]

theorem hasPrefix_join2_of_strict {base key : Path} (hb : isAbs base = true) (hc : clean base = base)
    (hroot : base ≠ [47]) {x : Path} {xs : List Path}
    (hin : resolveFrom (resolve base) key = resolve base ++ x :: xs) :
    hasPrefix (join2 base key) (base ++ [47]) = true := by
  have hbase : base = 47 :: joinSep (resolve base) := by rw [← clean_abs hb, hc]
  have hne : resolve base ≠ [] := by
    intro e; rw [e] at hbase; exact hroot (by simpa [joinSep] using hbase)
  have hj : join2 base key = 47 :: joinSep (resolve base ++ x :: xs) := by
    rw [join2_abs hb, clean_abs (isAbs_append hb _), resolve_append_sep, hin]
  rw [hj, joinSep_append hne]
  have : base ++ [47] <+: 47 :: (joinSep (resolve base) ++ 47 :: joinSep (x :: xs)) := by
    refine ⟨joinSep (x :: xs), ?_⟩
    conv => lhs; rw [hbase]
    simp
  simpa [hasPrefix] using this

/-! ### `Clean` of a relative path stays relative -/

theorem cleanStep_false_elems {st : List Path} {s : Path} (hst : ∀ x ∈ st, x ≠ [] ∧ (47 : UInt8) ∉ x)
    (hs : (47 : UInt8) ∉ s) : ∀ x ∈ cleanStep false st s, x ≠ [] ∧ (47 : UInt8) ∉ x := by
  have hdd : dotdot ≠ [] ∧ (47 : UInt8) ∉ dotdot := by decide
  unfold cleanStep
  split
  · exact hst
  · rename_i h1
    split
    · split
      · intro x hx; simp at hx; subst hx; exact hdd
      · split
        · intro x hx
          simp at hx
          rcases hx with hx | hx
          · exact hst x hx
          · subst hx; exact hdd
        · intro x hx; exact hst x (List.dropLast_subset _ hx)
    · intro x hx
      simp at hx
      rcases hx with hx | hx
      · exact hst x hx
      · subst hx
        simp at h1
        exact ⟨h1.1, hs⟩

theorem foldl_cleanStep_false_elems (L : List Path) (hL : ∀ s ∈ L, (47 : UInt8) ∉ s) {st : List Path}
    (hst : ∀ x ∈ st, x ≠ [] ∧ (47 : UInt8) ∉ x) :
    ∀ x ∈ L.foldl (cleanStep false) st, x ≠ [] ∧ (47 : UInt8) ∉ x := by
  induction L generalizing st with
  | nil => simpa using hst
  | cons s rest ih =>
    simp only [List.foldl_cons]
    exact ih (fun x hx => hL x (by simp [hx])) (cleanStep_false_elems hst (hL s (by simp)))

theorem isAbs_joinSep_false {ss : List Path} (h : ∀ x ∈ ss, x ≠ [] ∧ (47 : UInt8) ∉ x) : isAbs (joinSep ss) = false := by
  cases ss with
  | nil => rfl
  | cons a rest =>
    obtain ⟨hne, hno⟩ := h a (by simp)
    cases a with
    | nil => exact absurd rfl hne
    | cons c cs =>
      have hc : c ≠ 47 := by intro e; simp [e] at hno
      cases rest <;> simp [joinSep, isAbs, hc]

theorem isAbs_clean_false {p : Path} (h : isAbs p = false) : isAbs (clean p) = false := by
  unfold clean
  split
  · rfl
  · simp only [h, Bool.false_eq_true, if_false]
    split
    · rfl
    · exact isAbs_joinSep_false
        (foldl_cleanStep_false_elems _ (fun _ hs => not_mem_of_mem_splitSep hs) (by simp))

theorem isAbs_of_clean {p : Path} (h : isAbs (clean p) = true) : isAbs p = true := by
  cases hp : isAbs p with
  | true => rfl
  | false => rw [isAbs_clean_false hp] at h; cases h

/-! ### `filepath.Rel` from a directory to a path below it -/

/-- Segments that never pop the resolution stack: empty, `.`, or a normal name. -/
def Harmless (s : Path) : Prop := s = [] ∨ s = dot ∨ Normal s

theorem joinSep_ne_nil {ns : List Path} (hne : ns ≠ []) (h : ∀ x ∈ ns, Normal x) : joinSep ns ≠ [] := by
  cases ns with
  | nil => exact absurd rfl hne
  | cons a rest =>
    have := (h a (by simp)).1
    cases rest <;> simp [joinSep, this]

theorem relElems_cleanAbs {ns : List Path} (h : ∀ x ∈ ns, Normal x) : relElems (47 :: joinSep ns) = ns := by
  unfold relElems
  by_cases hne : ns = []
  · subst hne; simp [joinSep]
  · simp only [joinSep_ne_nil hne h, if_false]
    exact splitSep_joinSep hne (fun x hx => normal_not_mem (h x hx))

theorem stripCommon_prefix (rs t : List Path) : stripCommon rs (rs ++ t) = ([], t) := by
  induction rs with
  | nil => cases t <;> simp [stripCommon]
  | cons r rest ih => simp [stripCommon, ih]

/-- `Rel(root, p)` for a cleaned absolute `p` whose directory chain extends that of `root`:
    it succeeds, and its elements are harmless (no `..`). -/
theorem relOf_below {root : Path} (hr : isAbs root = true) {ns t : List Path} (hns : ns = resolve root ++ t)
    (hn : ∀ x ∈ ns, Normal x) :
    ∃ rel, relOf root (47 :: joinSep ns) = some rel ∧ ∀ s ∈ splitSep rel, Harmless s := by
  have hclean : clean (47 :: joinSep ns) = 47 :: joinSep ns := by
    rw [clean_abs rfl, resolve_cleanAbs hn]
  unfold relOf
  simp only [hclean, clean_abs hr]
  by_cases heq : (47 :: joinSep ns) = 47 :: joinSep (resolve root)
  · refine ⟨dot, by simp [heq], ?_⟩
    intro s hs
    have : s = dot := by simpa [splitSep, dot] using hs
    exact Or.inr (Or.inl this)
  · have hnd : (47 :: joinSep (resolve root)) ≠ dot := by simp [dot]
    simp only [heq, if_false, hnd]
    have habs : ¬ (isAbs (47 :: joinSep (resolve root)) ≠ isAbs (47 :: joinSep ns)) := by simp [isAbs]
    simp only [habs, if_false]
    rw [relElems_cleanAbs (resolve_allNormal root), relElems_cleanAbs hn, hns, stripCommon_prefix]
    refine ⟨joinSep t, by simp, ?_⟩
    have ht : ∀ x ∈ t, Normal x := fun x hx => hn x (by simp [hns, hx])
    by_cases hte : t = []
    · subst hte
      intro s hs
      have : s = [] := by simpa [joinSep, splitSep] using hs
      exact Or.inl this
    · rw [splitSep_joinSep hte (fun x hx => normal_not_mem (ht x hx))]
      exact fun s hs => Or.inr (Or.inr (ht s hs))

/-! ### The directories `DirStructure.ensure` touches -/

/-- `slashedPath` of `EnsureAbsPath`: the root with exactly one separator appended unless it already ends in one.
    Either way it is `r' ++ "/"` for an `r'` that resolves to the root directory. -/
theorem slashed_root {root : Path} (hr : isAbs root = true) :
    ∃ r', (if hasSuffix root [47] = true then root else root ++ [47]) = r' ++ [47] ∧
      resolve r' = resolve root ∧ isAbs (r' ++ [47]) = true := by
  by_cases hs : hasSuffix root [47] = true
  · have : [47] <:+ root := by simpa [hasSuffix] using hs
    obtain ⟨r', hr'⟩ := this
    exact ⟨r', by simp [hs, hr'], by rw [← hr', resolve_append_slash], by rw [hr']; exact hr⟩
  · exact ⟨root, by simp [hs], rfl, isAbs_append hr _⟩

theorem stepSeg_harmless {st : List Path} {s : Path} (h : Harmless s) : st <+: stepSeg st s := by
  rcases h with h | h | h
  · subst h; rw [stepSeg_nil]; exact List.prefix_refl _
  · subst h; rw [stepSeg_dot]; exact List.prefix_refl _
  · rw [stepSeg_normal h]; exact List.prefix_append _ _

theorem harmless_not_mem {s : Path} (h : Harmless s) : (47 : UInt8) ∉ s := by
  rcases h with h | h | h
  · subst h; simp
  · subst h; decide
  · exact h.2.2.2

theorem ensureChain_inside (root : Path) (L : List Path) (hL : ∀ s ∈ L, Harmless s) (cur : Path)
    (hc : isAbs cur = true) (hin : resolve root <+: resolve cur) :
    ∀ d ∈ ensureChain cur L, Inside root d := by
  induction L generalizing cur with
  | nil => simp [ensureChain]
  | cons s rest ih =>
    have hs := hL s (by simp)
    have hres : resolve (join2 cur s) = stepSeg (resolve cur) s := by
      rw [resolve_join2 hc]
      simp [resolveFrom, splitSep_of_not_mem (harmless_not_mem hs)]
    have hin' : resolve root <+: resolve (join2 cur s) := by
      rw [hres]; exact List.IsPrefix.trans hin (stepSeg_harmless hs)
    intro d hd
    simp only [ensureChain, List.mem_cons] at hd
    rcases hd with hd | hd
    · subst hd; exact ⟨isAbs_join2 hc s, hin'⟩
    · exact ih (fun x hx => hL x (by simp [hx])) _ (isAbs_join2 hc s) hin' d hd

/-! ### The tree of registered children of a `DirStructure` -/

/-- What `EnsureAbsPath` knows after its scope check passed: `Rel` succeeds and has only harmless elements. -/
theorem scope_pass_rel {root dirPath r' : Path} (hr : isAbs root = true) (hres : resolve r' = resolve root)
    (h47 : isAbs (r' ++ [47]) = true) (hpre : hasPrefix (clean dirPath) (r' ++ [47]) = true) :
    ∃ rel, relOf root (clean dirPath) = some rel ∧ ∀ s ∈ splitSep rel, Harmless s := by
  have habs : isAbs (clean dirPath) = true := by
    have : (r' ++ [47]) <+: clean dirPath := by simpa [hasPrefix] using hpre
    obtain ⟨rest, hrest⟩ := this
    rw [← hrest]; exact isAbs_append h47 _
  have hdp := isAbs_of_clean habs
  have hcl := clean_abs hdp
  rw [hcl] at hpre
  have hpfx := resolve_prefix_of_hasPrefix (resolve_allNormal dirPath) hpre
  rw [hres] at hpfx
  obtain ⟨t, ht⟩ := hpfx
  rw [hcl]
  exact relOf_below hr ht.symm (resolve_allNormal dirPath)

/-- The invariant of the tree: node 0 is the only node without parent and has the root path; every other
    node hangs below an earlier node and its path is `Join(parent.Path, key)` — the name it is registered under. -/
def DWF (t : DTree) (root : Path) : Prop :=
  0 < t.length ∧ t.pathOf 0 = root ∧
  (∀ i n, t[i]? = some n → n.parent = none → i = 0) ∧
  (∀ i n, t[i]? = some n → ∀ p, n.parent = some p → p < i ∧ n.path = join2 (t.pathOf p) n.key)

theorem dwf_new (root : Path) (perm : Nat) : DWF (newDirStructure root perm) root := by
  refine ⟨by simp [newDirStructure], by simp [newDirStructure, DTree.pathOf], ?_, ?_⟩
  · intro i n h _
    cases i with
    | zero => rfl
    | succ j => simp [newDirStructure] at h
  · intro i n h p hp
    cases i with
    | zero => simp [newDirStructure] at h; subst h; simp at hp
    | succ j => simp [newDirStructure] at h

theorem findChildFrom_spec {h : Nat} {name : Path} {l : List DNode} {i c : Nat}
    (hf : findChildFrom h name i l = some c) :
    ∃ j n, c = i + j ∧ l[j]? = some n ∧ n.parent = some h ∧ n.key = name := by
  induction l generalizing i with
  | nil => simp [findChildFrom] at hf
  | cons a rest ih =>
    unfold findChildFrom at hf
    split at hf
    · rename_i hc
      cases hf
      exact ⟨0, a, by simp, by simp, hc.1, hc.2⟩
    · obtain ⟨j, n, hj, hn, hp, hk⟩ := ih hf
      exact ⟨j + 1, n, by omega, by simpa using hn, hp, hk⟩

theorem findChild_spec {t : DTree} {h c : Nat} {name : Path} (hf : findChild t h name = some c) :
    ∃ n, t[c]? = some n ∧ n.parent = some h ∧ n.key = name := by
  obtain ⟨j, n, hj, hn, hp, hk⟩ := findChildFrom_spec hf
  exact ⟨n, by simpa [hj] using hn, hp, hk⟩

theorem pathOf_append_lt {t : DTree} {p : Nat} (hp : p < t.length) (x : DNode) : DTree.pathOf (t ++ [x]) p = t.pathOf p := by
  simp [DTree.pathOf, List.getElem?_append_left hp]

theorem pathOf_modify_perm (t : DTree) (c p : Nat) (perm : Nat) :
    DTree.pathOf (t.modify c (fun n => { n with perm := perm })) p = t.pathOf p := by
  unfold DTree.pathOf
  rw [List.getElem?_modify]
  by_cases hcp : c = p
  · subst hcp
    cases t[c]? <;> simp
  · simp [hcp]

/-- `ChildDir` keeps the invariant (for every name, every permission, every existing handle). -/
theorem dwf_childDir {t : DTree} {root : Path} (hw : DWF t root) {h : Nat} (hh : h < t.length) (name : Path) (perm : Nat) :
    DWF (childDir t h name perm).1 root := by
  obtain ⟨hlen, hroot, hnone, hpar⟩ := hw
  unfold childDir
  split
  · rename_i c hc
    dsimp only
    refine ⟨by simpa using hlen, by rw [pathOf_modify_perm]; exact hroot, ?_, ?_⟩
    · intro i n hn hp
      rw [List.getElem?_modify] at hn
      cases hti : t[i]? with
      | none => simp [hti] at hn
      | some m =>
        rw [hti] at hn
        simp at hn
        by_cases hci : c = i
        · simp [hci] at hn; subst hn; exact hnone i m hti hp
        · simp [hci] at hn; subst hn; exact hnone i m hti hp
    · intro i n hn p hp
      rw [List.getElem?_modify] at hn
      cases hti : t[i]? with
      | none => simp [hti] at hn
      | some m =>
        rw [hti] at hn
        simp at hn
        rw [pathOf_modify_perm]
        by_cases hci : c = i
        · simp [hci] at hn; subst hn; exact hpar i m hti p hp
        · simp [hci] at hn; subst hn; exact hpar i m hti p hp
  · dsimp only
    refine ⟨by simp, by rw [pathOf_append_lt hlen]; exact hroot, ?_, ?_⟩
    · intro i n hn hp
      by_cases hi : i < t.length
      · rw [List.getElem?_append_left hi] at hn
        exact hnone i n hn hp
      · have : i = t.length := by
          have := (List.getElem?_eq_some_iff.mp hn).1
          simp at this; omega
        subst this
        simp at hn
        subst hn
        simp at hp
    · intro i n hn p hp
      by_cases hi : i < t.length
      · rw [List.getElem?_append_left hi] at hn
        obtain ⟨h1, h2⟩ := hpar i n hn p hp
        exact ⟨h1, by rw [pathOf_append_lt (by omega)]; exact h2⟩
      · have : i = t.length := by
          have := (List.getElem?_eq_some_iff.mp hn).1
          simp at this; omega
        subst this
        simp at hn
        subst hn
        simp at hp
        subst hp
        exact ⟨hh, by rw [pathOf_append_lt hh]⟩

theorem childDir_length_le (t : DTree) (h : Nat) (name : Path) (perm : Nat) : t.length ≤ (childDir t h name perm).1.length := by
  unfold childDir
  split <;> simp

/-- "always start at the top" ends at node 0. -/
theorem topOf_eq_zero {t : DTree} {root : Path} (hw : DWF t root) : ∀ (f h : Nat), h < f → h < t.length → topOf t f h = 0 := by
  intro f
  induction f with
  | zero => intro h hf; omega
  | succ f ih =>
    intro h hf hl
    unfold topOf
    have hget : t[h]? = some t[h] := List.getElem?_eq_getElem hl
    rw [hget]
    dsimp only
    cases hp : t[h].parent with
    | none => exact hw.2.2.1 h _ hget hp
    | some p =>
      dsimp only
      have := (hw.2.2.2 h _ hget p hp).1
      exact ih p (by omega) (by omega)

theorem ensureChainP_fst (perm : Nat) (cur : Path) (L : List Path) :
    (ensureChainP perm cur L).map (·.1) = ensureChain cur L := by
  induction L generalizing cur with
  | nil => rfl
  | cons d ds ih => simp [ensureChainP, ensureChain, ih]

/-- Every directory `ensure` touches, starting at a node whose path is inside the root, is inside the root:
    a registered child is only followed under a harmless key, and its path is then the parent's path
    extended by that key. -/
theorem ensureFrom_inside {t : DTree} {root : Path} (hw : DWF t root) (L : List Path) (hL : ∀ s ∈ L, Harmless s) :
    ∀ h, isAbs (t.pathOf h) = true → resolve root <+: resolve (t.pathOf h) →
      ∀ d ∈ ensureFrom t h L, Inside root d.1 := by
  induction L with
  | nil =>
    intro h ha hin d hd
    simp [ensureFrom] at hd
    subst hd
    exact ⟨ha, hin⟩
  | cons s rest ih =>
    intro h ha hin d hd
    unfold ensureFrom at hd
    simp only [List.mem_cons] at hd
    rcases hd with hd | hd
    · subst hd; exact ⟨ha, hin⟩
    · cases hf : findChild t h s with
      | none =>
        rw [hf] at hd
        dsimp only at hd
        have hm : d.1 ∈ ensureChain (t.pathOf h) (s :: rest) := by
          rw [← ensureChainP_fst (t.permOf h)]
          exact List.mem_map_of_mem hd
        exact ensureChain_inside root _ hL _ ha hin _ hm
      | some c =>
        rw [hf] at hd
        dsimp only at hd
        obtain ⟨n, hn, hp, hk⟩ := findChild_spec hf
        have hpath : t.pathOf c = join2 (t.pathOf h) s := by
          have := (hw.2.2.2 c n hn h hp).2
          simp [DTree.pathOf, hn, this, hk]
        have hs := hL s (by simp)
        have hres : resolve (join2 (t.pathOf h) s) = stepSeg (resolve (t.pathOf h)) s := by
          rw [resolve_join2 ha]
          simp [resolveFrom, splitSep_of_not_mem (harmless_not_mem hs)]
        refine ih (fun x hx => hL x (by simp [hx])) c (by rw [hpath]; exact isAbs_join2 ha s) ?_ d hd
        rw [hpath, hres]
        exact List.IsPrefix.trans hin (stepSeg_harmless hs)

/-! ### The walk of `fstree.Query` on a file-system tree -/

/-- `Rel(root, p)` for a cleaned absolute `p` below `root` denotes `p` again when resolved from `root`. -/
theorem relOf_below_resolve {root : Path} (hr : isAbs root = true) {ns t : List Path} (hns : ns = resolve root ++ t)
    (hn : ∀ x ∈ ns, Normal x) :
    ∃ rel, relOf root (47 :: joinSep ns) = some rel ∧ resolveFrom (resolve root) rel = ns := by
  have hclean : clean (47 :: joinSep ns) = 47 :: joinSep ns := by
    rw [clean_abs rfl, resolve_cleanAbs hn]
  unfold relOf
  simp only [hclean, clean_abs hr]
  by_cases heq : (47 :: joinSep ns) = 47 :: joinSep (resolve root)
  · refine ⟨dot, by simp [heq], ?_⟩
    have h1 : resolve (47 :: joinSep ns) = resolve (47 :: joinSep (resolve root)) := by rw [heq]
    rw [resolve_cleanAbs hn, resolve_cleanAbs (resolve_allNormal root)] at h1
    rw [h1]
    simp [resolveFrom, splitSep, dot, stepSeg]
  · have hnd : (47 :: joinSep (resolve root)) ≠ dot := by simp [dot]
    simp only [heq, if_false, hnd]
    have habs : ¬ (isAbs (47 :: joinSep (resolve root)) ≠ isAbs (47 :: joinSep ns)) := by simp [isAbs]
    simp only [habs, if_false]
    rw [relElems_cleanAbs (resolve_allNormal root), relElems_cleanAbs hn, hns, stripCommon_prefix]
    refine ⟨joinSep t, by simp, ?_⟩
    have ht : ∀ x ∈ t, Normal x := fun x hx => hn x (by simp [hns, hx])
    by_cases hte : t = []
    · subst hte
      simp [joinSep, resolveFrom, splitSep, stepSeg]
    · unfold resolveFrom
      rw [splitSep_joinSep hte (fun x hx => normal_not_mem (ht x hx))]
      rw [foldl_stepSeg_benign (fun x hx => Or.inr (ht x hx))]
      congr 1
      exact List.filter_eq_self.mpr (fun x hx => nonE_of_ne (ht x hx).1)

/-- An entry of a directory: `Join(dir, name)` is absolute and leads one level below the directory. -/
theorem join2_entry {dir name : Path} (hd : isAbs dir = true) (hn : Normal name) :
    isAbs (join2 dir name) = true ∧ resolve (join2 dir name) = resolve dir ++ [name] := by
  refine ⟨isAbs_join2 hd name, ?_⟩
  rw [resolve_join2 hd]
  simp [resolveFrom, splitSep_of_not_mem hn.2.2.2, stepSeg_normal hn]

/-- What is to be shown about a (partial) walk: every access is inside the base path, and every delivered key
    is the name, relative to the base path, of a file that was read — resolving the key from the base
    directory leads to that file. -/
def WalkGood (base : Path) (r : WalkRes) : Prop :=
  (∀ a ∈ r.acc, Inside base a.path) ∧
  (∀ k ∈ r.keys, ∃ p, Access.read p ∈ r.acc ∧ relOf base p = some k ∧ resolveFrom (resolve base) k = resolve p)

theorem walkGood_andThen {base : Path} {a b : WalkRes} (ha : WalkGood base a) (hb : WalkGood base b) :
    WalkGood base (a.andThen b) := by
  unfold WalkRes.andThen
  split
  · exact ha
  · refine ⟨?_, ?_⟩
    · intro x hx
      simp only [List.mem_append] at hx
      rcases hx with hx | hx
      · exact ha.1 x hx
      · exact hb.1 x hx
    · intro k hk
      simp only [List.mem_append] at hk
      rcases hk with hk | hk
      · obtain ⟨p, h1, h2, h3⟩ := ha.2 k hk
        exact ⟨p, by simp [h1], h2, h3⟩
      · obtain ⟨p, h1, h2, h3⟩ := hb.2 k hk
        exact ⟨p, by simp [h1], h2, h3⟩

theorem walkGood_accOnly {base : Path} {l : List Access} {st : Bool} (h : ∀ a ∈ l, Inside base a.path) :
    WalkGood base { acc := l, keys := [], stop := st } :=
  ⟨h, by intro k hk; simp at hk⟩

/-- The callback on a file that lies inside the base path. -/
theorem visitFile_good {base : Path} (hb : isAbs base = true) (pre p : Path) (ok : Bool) (hp : Inside base p)
    (hcl : clean p = p) : WalkGood base (visitFile base pre p ok) := by
  have hall : ∀ a ∈ [Access.stat p, Access.read p], Inside base a.path := by
    intro a ha
    simp at ha
    rcases ha with ha | ha <;> (subst ha; exact hp)
  unfold visitFile
  split
  · exact walkGood_accOnly (by intro a ha; simp at ha; subst ha; exact hp)
  · cases hrel : relOf base p with
    | none => exact walkGood_accOnly hall
    | some key =>
      dsimp only
      split
      · exact walkGood_accOnly hall
      · split
        · exact walkGood_accOnly hall
        · refine ⟨hall, ?_⟩
          intro k hk
          simp at hk
          subst hk
          refine ⟨p, by simp, hrel, ?_⟩
          -- p is a cleaned absolute path below base: Rel denotes it
          obtain ⟨t, ht⟩ := hp.2
          have hform : p = 47 :: joinSep (resolve p) := by
            have := clean_abs hp.1
            rw [hcl] at this; exact this
          obtain ⟨rel, h1, h2⟩ := relOf_below_resolve hb ht.symm (resolve_allNormal p)
          rw [← hform, hrel] at h1
          cases h1
          exact h2

theorem clean_join2 {a : Path} (h : isAbs a = true) (b : Path) : clean (join2 a b) = join2 a b := by
  rw [join2_abs h]; exact clean_clean (isAbs_append h _)

/-- `filepath.walk` below a directory inside the base path stays inside the base path. -/
theorem walkEnts_good {base : Path} (hb : isAbs base = true) (pre : Path) (e : Ents) :
    e.NamesNormal → ∀ dirPath, isAbs dirPath = true → resolve base <+: resolve dirPath →
      WalkGood base (walkEnts base pre dirPath e) := by
  induction e with
  | nil => intro _ _ _ _; exact walkGood_accOnly (by intro a ha; simp at ha)
  | file name ok rest ih =>
    intro hn dirPath hd hin
    unfold walkEnts
    obtain ⟨ha, hres⟩ := join2_entry hd hn.1
    refine walkGood_andThen (visitFile_good hb pre _ ok ⟨ha, ?_⟩ (clean_join2 hd name)) (ih hn.2 dirPath hd hin)
    rw [hres]; exact List.IsPrefix.trans hin (List.prefix_append _ _)
  | dir name sub rest ihs ihr =>
    intro hn dirPath hd hin
    unfold walkEnts
    obtain ⟨ha, hres⟩ := join2_entry hd hn.1
    have hinp : resolve base <+: resolve (join2 dirPath name) := by
      rw [hres]; exact List.IsPrefix.trans hin (List.prefix_append _ _)
    have hall : ∀ a ∈ [Access.stat (join2 dirPath name), Access.list (join2 dirPath name)], Inside base a.path := by
      intro a h
      simp at h
      rcases h with h | h <;> (subst h; exact ⟨ha, hinp⟩)
    dsimp only
    refine walkGood_andThen ?_ (ihr hn.2.2 dirPath hd hin)
    split
    · exact walkGood_andThen (walkGood_accOnly hall) (ihs hn.2.1 _ ha hinp)
    · exact walkGood_accOnly hall

theorem get_namesNormal {e : Ents} (h : e.NamesNormal) {name : Path} {sub : Ents} (hg : e.get name = some (.inr sub)) :
    sub.NamesNormal := by
  induction e with
  | nil => simp [Ents.get] at hg
  | file n ok rest ih =>
    unfold Ents.get at hg
    split at hg
    · cases hg
    · exact ih h.2 hg
  | dir n s rest _ ihr =>
    unfold Ents.get at hg
    split at hg
    · cases hg; exact h.2.1
    · exact ihr h.2.2 hg

theorem lookupSegs_namesNormal {segs : List Path} : ∀ {fs e : Ents}, fs.NamesNormal → lookupSegs fs segs = .dir e → e.NamesNormal := by
  induction segs with
  | nil => intro fs e h hl; simp [lookupSegs] at hl; subst hl; exact h
  | cons s ss ih =>
    intro fs e h hl
    unfold lookupSegs at hl
    cases hg : fs.get s with
    | none => rw [hg] at hl; cases hl
    | some v =>
      rw [hg] at hl
      cases v with
      | inl ok => dsimp only at hl; split at hl <;> cases hl
      | inr sub => exact ih (get_namesNormal h hg) hl

/-- `filepath.Walk` from a walk root inside the base path. -/
theorem walkTop_good {base : Path} (hb : isAbs base = true) (pre : Path) {fs : Ents} (hfs : fs.NamesNormal)
    {wr : Path} (hw : Inside base wr) (hcl : clean wr = wr) : WalkGood base (walkTop fs base pre wr) := by
  have h1 : ∀ a ∈ [Access.stat wr], Inside base a.path := by
    intro a h; simp at h; subst h; exact hw
  have h2 : ∀ a ∈ [Access.stat wr, Access.list wr], Inside base a.path := by
    intro a h; simp at h; rcases h with h | h <;> (subst h; exact hw)
  unfold walkTop
  cases hl : fsLookup fs wr with
  | absent => exact walkGood_accOnly h1
  | notdir => exact walkGood_accOnly h1
  | file ok => exact visitFile_good hb pre wr ok hw hcl
  | dir e =>
    dsimp only
    split
    · exact walkGood_andThen (walkGood_accOnly h2) (walkEnts_good hb pre e (lookupSegs_namesNormal hfs hl) wr hw.1 hw.2)
    · exact walkGood_accOnly h2

theorem isAbs_throughLastSep {p : Path} (h : isAbs p = true) : isAbs (throughLastSep p) = true := by
  obtain ⟨t, rfl⟩ := isAbs_iff.mp h
  unfold throughLastSep
  have hrev : (47 :: t).reverse = t.reverse ++ [47] := by simp
  rw [hrev, List.dropWhile_append]
  split
  · simp [isAbs]
  · simp [isAbs]

/-- `filepath.Dir` of an absolute path is a cleaned absolute path. -/
theorem clean_dirOf {p : Path} (h : isAbs p = true) : clean (dirOf p) = dirOf p := by
  unfold dirOf
  exact clean_clean (isAbs_throughLastSep h)

theorem dwf_dcall {t : DTree} {root : Path} (hw : DWF t root) (c : DCall) : DWF (dcall t c).1 root := by
  cases c with
  | childDir h name perm =>
    simp only [dcall]
    split
    · rename_i hh; exact dwf_childDir hw hh name perm
    · exact hw
  | ensure h => exact hw
  | ensureAbs h p => exact hw
  | ensureRel h rel => exact hw
  | ensureRelDir h names => exact hw

theorem dwf_treeAfter {t : DTree} {root : Path} (hw : DWF t root) (calls : List DCall) : DWF (treeAfter t calls) root := by
  induction calls generalizing t with
  | nil => exact hw
  | cons c cs ih => exact ih (dwf_dcall hw c)

/-- `EnsureAbsPath` on any node of a well-formed tree: everything it touches is inside the root. -/
theorem ensureAbsPathT_contained {t : DTree} {root : Path} (hw : DWF t root) (hr : isAbs root = true) {h : Nat}
    (hh : h < t.length) (dirPath : Path) (dirs : List (Path × Nat)) (hok : ensureAbsPathT t h dirPath = .ok dirs) :
    ∀ d ∈ dirs, Inside root d.1 := by
  obtain ⟨r', hsl, hres, h47⟩ := slashed_root hr
  unfold ensureAbsPathT at hok
  rw [topOf_eq_zero hw _ h hh hh] at hok
  dsimp only at hok
  rw [hw.2.1, hsl] at hok
  have h0a : isAbs (t.pathOf 0) = true := by rw [hw.2.1]; exact hr
  have h0i : resolve root <+: resolve (t.pathOf 0) := by rw [hw.2.1]; exact List.prefix_refl _
  split at hok
  · cases hok
    exact ensureFrom_inside hw [] (by simp) 0 h0a h0i
  · split at hok
    · cases hok
    · rename_i hpre
      simp at hpre
      obtain ⟨rel, hrel, hharm⟩ := scope_pass_rel hr hres h47 hpre
      rw [hrel] at hok
      cases hok
      exact ensureFrom_inside hw _ hharm 0 h0a h0i

end PB.Paths
