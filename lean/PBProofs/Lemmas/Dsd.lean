import PB.Model.Dsd
import PB.Spec.Dsd
/-
Helper lemmas for C09 (PB.Model.Dsd). The lemmas named `*_table` are `decide`d over the regenerated tables
(`PB.Gen.Dsd`): they are re-checked whenever a constant, a case set, a dispatch table or a mime map changes.
-/
namespace PB.Dsd
open PB PB.Varint PB.Gen.Dsd

/-! ### format identifier -/

theorem toNat_ofNat_lt256 {n : Nat} (h : n < 256) : (UInt8.ofNat n).toNat = n := by
  simp [UInt8.toNat_ofNat']
  omega

theorem unpack8_pack8_small (n : Nat) (h : n < 128) (rest : Bytes) :
    unpack8 (pack8 n ++ rest) = .ok (n, 1) := by
  simp [pack8, h, unpack8, toNat_ofNat_lt256 (show n < 256 by omega)]

theorem pack8_small (n : Nat) (h : n < 128) : pack8 n = [UInt8.ofNat n] := by
  simp [pack8, h]

theorem loadFormat_pack8 (n : Nat) (h : n < 128) (rest : Bytes) (hr : rest ≠ [] ∨ n = RAW) :
    loadFormat (pack8 n ++ rest) = .ok (n, 1) := by
  unfold loadFormat
  rw [unpack8_pack8_small n h rest]
  simp only [pack8_small n h]
  rcases hr with hr | hr
  · cases rest with
    | nil => exact absurd rfl hr
    | cons a t => simp
  · simp [hr]

theorem drop_pack8 (n : Nat) (h : n < 128) (rest : Bytes) : (pack8 n ++ rest).drop 1 = rest := by
  simp [pack8_small n h]

/-! ### table facts (regenerated tables) -/

/-- Every dumpable format id resolves to a format that both switches send to the same codec, is a one-byte
    identifier, is itself a valid serialization format, and is not RAW. -/
theorem dumpable_table :
    ∀ f ∈ dumpableFormats,
      validateSerializationFormat f = some (resolve f) ∧
      validateSerializationFormat (resolve f) = some (resolve f) ∧
      (libOf (resolve f)).isSome = true ∧
      lookup (resolve f) loadDispatch = lookup (resolve f) dumpDispatch ∧
      resolve f < 128 ∧ resolve f ≠ RAW := by
  decide

theorem raw_table :
    validateSerializationFormat RAW = some RAW ∧ lookup RAW dumpDispatch = some .raw ∧
    lookup RAW loadDispatch = some .raw ∧ RAW < 128 := by
  decide

/-- Every compression id resolves to a compression that both functions of compression.go handle with gzip, is a
    one-byte identifier and is not a serialization format (so that `Load` takes the decompression branch). -/
theorem compression_table :
    ∀ cm ∈ compressionFormats,
      validateCompressionFormat cm = some (resolveCompression cm) ∧
      validateCompressionFormat (resolveCompression cm) = some (resolveCompression cm) ∧
      resolveCompression cm ∈ compressGzipCases ∧ resolveCompression cm ∈ decompressGzipCases ∧
      resolveCompression cm < 128 ∧ resolveCompression cm ≠ RAW ∧
      validateSerializationFormat (resolveCompression cm) = none := by
  decide

/-- Every format with a mime type: is a valid serialization format handled by one codec on both sides, is not
    AUTO, and `formatFromAccept` maps its mime type back to it. -/
theorem mime_table :
    ∀ p ∈ formatToMimeType,
      formatFromAccept p.2 = p.1 ∧ p.1 ≠ 0 ∧ p.1 ≠ AUTO ∧
      validateSerializationFormat p.1 = some p.1 ∧ (libOf p.1).isSome = true ∧
      lookup p.1 loadDispatch = lookup p.1 dumpDispatch := by
  decide

/-- Everything `formatFromAccept` can answer besides AUTO has a mime type. -/
theorem accept_range_table :
    ∀ f ∈ defaultSerializationFormat :: mimeTypeToFormat.map Prod.snd,
      f ≠ AUTO ∧ (lookup f formatToMimeType).isSome = true := by
  decide

/-! ### lookup -/

theorem lookup_mem {α β : Type} [DecidableEq α] (k : α) (b : β) (l : List (α × β)) (h : lookup k l = some b) :
    (k, b) ∈ l := by
  induction l with
  | nil => simp [lookup] at h
  | cons p t ih =>
    obtain ⟨a, b'⟩ := p
    unfold lookup at h
    by_cases hk : a = k
    · simp [hk] at h
      subst hk h
      simp
    · simp [hk] at h
      exact List.mem_cons_of_mem _ (ih h)

theorem lookup_snd_mem {α β : Type} [DecidableEq α] (k : α) (b : β) (l : List (α × β)) (h : lookup k l = some b) :
    b ∈ l.map Prod.snd := by
  have := lookup_mem k b l h
  exact List.mem_map.mpr ⟨(k, b), this, rfl⟩

/-! ### non-vacuity fixture -/

/-- A toy codec satisfying the contract: values are byte strings, every codec is "prefix with 7". -/
def toy : Codec Bytes where
  enc _ v := some (7 :: v)
  encIndent _ v := some (7 :: v)
  dec _ b := match b with | 7 :: v => some v | _ => none
  asBytes v := some v
  gz b := 31 :: 139 :: b
  gunz b := match b with | 31 :: 139 :: r => .ok r | _ => .error .gunzip

theorem toy_sound : toy.Sound := by
  constructor <;> intros <;> simp_all [toy]
  all_goals (subst_vars; simp)

end PB.Dsd
