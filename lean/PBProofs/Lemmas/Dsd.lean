import PB.Model.Dsd
import PB.Spec.Dsd
/-
Helper lemmas for C09 (PB.Model.Dsd). The lemmas named `*_table` are `decide`d over the regenerated tables
(`PB.Gen.Dsd`): they are re-checked whenever a constant, a case set, a dispatch table or a mime map changes.
-/
namespace PB.Dsd
open PB PB.Varint PB.Gen.Dsd

/-! ### format identifier -/

theorem toNat_ofNat_lt256 {n : Nat} (h : n < 256) : (UInt8.ofNat n).toNat = n := by
  simp [UInt8.toNat_ofNat']
  omega

theorem unpack8_pack8_small (n : Nat) (h : n < 128) (rest : Bytes) :
    unpack8 (pack8 n ++ rest) = .ok (n, 1) := by
  simp [pack8, h, unpack8, toNat_ofNat_lt256 (show n < 256 by omega)]

theorem pack8_small (n : Nat) (h : n < 128) : pack8 n = [UInt8.ofNat n] := by
  simp [pack8, h]

theorem loadFormat_pack8 (n : Nat) (h : n < 128) (rest : Bytes) (hr : rest ≠ [] ∨ n = RAW) :
    loadFormat (pack8 n ++ rest) = .ok (n, 1) := by
  unfold loadFormat
  rw [unpack8_pack8_small n h rest]
  simp only [pack8_small n h]
  rcases hr with hr | hr
  · cases rest with
    | nil => exact absurd rfl hr
    | cons a t => simp
  · simp [hr]

theorem drop_pack8 (n : Nat) (h : n < 128) (rest : Bytes) : (pack8 n ++ rest).drop 1 = rest := by
  simp [pack8_small n h]

/-! ### table facts (regenerated tables)

The `*_table0` lemmas are `decide`d over the regenerated tables with the default variables set to 0; the lemmas
without `0` lift them to every value of the variables (a label that is not in the AUTO case set never reads them). -/

theorem validateSer_nonAuto (d d' f : Nat) (h : f ∉ serializationAuto) :
    validateSerializationFormat d f = validateSerializationFormat d' f := by
  simp [validateSerializationFormat, h]

theorem validateComp_nonAuto (d d' f : Nat) (h : f ∉ compressionAuto) :
    validateCompressionFormat d f = validateCompressionFormat d' f := by
  simp [validateCompressionFormat, h]

theorem auto_table : AUTO ∈ serializationAuto ∧ AUTO ∈ compressionAuto := by decide

theorem validateSer_auto (d : Nat) : validateSerializationFormat d AUTO = some d := by
  simp [validateSerializationFormat, auto_table.1]

theorem validateComp_auto (d : Nat) : validateCompressionFormat d AUTO = some d := by
  simp [validateCompressionFormat, auto_table.2]

theorem codec_table0 :
    ∀ g ∈ codecFormats,
      validateSerializationFormat 0 g = some g ∧ g ∉ serializationAuto ∧ (libOf g).isSome = true ∧
      lookup g loadDispatch = lookup g dumpDispatch ∧ g < 128 ∧ g ≠ RAW ∧ g ≠ AUTO := by
  decide

/-- Every dumpable format id resolves (whatever the default is, as long as AUTO stands for a codec format) to a
    format that both switches send to the same codec, is a one-byte identifier, is itself a valid serialization
    format under every value of the default, and is not RAW. -/
theorem dumpable_table (d f : Nat) (hf : f ∈ dumpableFormats) (hd : f = AUTO → d ∈ codecFormats) :
      validateSerializationFormat d f = some (resolve d f) ∧
      (∀ d', validateSerializationFormat d' (resolve d f) = some (resolve d f)) ∧
      (libOf (resolve d f)).isSome = true ∧
      lookup (resolve d f) loadDispatch = lookup (resolve d f) dumpDispatch ∧
      resolve d f < 128 ∧ resolve d f ≠ RAW := by
  have hr : resolve d f ∈ codecFormats := by
    unfold resolve
    by_cases ha : f = AUTO
    · simp [ha]; exact hd ha
    · simp only [ha, ite_false]
      simp only [dumpableFormats, List.mem_cons] at hf
      rcases hf with hf | hf
      · exact absurd hf ha
      · exact hf
  obtain ⟨g1, g2, g3, g4, g5, g6, _⟩ := codec_table0 _ hr
  refine ⟨?_, fun d' => by rw [validateSer_nonAuto d' 0 _ g2]; exact g1, g3, g4, g5, g6⟩
  by_cases ha : f = AUTO
  · subst ha
    simp [validateSer_auto, resolve]
  · have : resolve d f = f := by simp [resolve, ha]
    rw [this] at g1 g2 ⊢
    rw [validateSer_nonAuto d 0 _ g2]; exact g1

theorem raw_table0 :
    validateSerializationFormat 0 RAW = some RAW ∧ RAW ∉ serializationAuto ∧ lookup RAW dumpDispatch = some .raw ∧
    lookup RAW loadDispatch = some .raw ∧ RAW < 128 := by
  decide

theorem raw_table :
    (∀ d, validateSerializationFormat d RAW = some RAW) ∧ lookup RAW dumpDispatch = some .raw ∧
    lookup RAW loadDispatch = some .raw ∧ RAW < 128 := by
  obtain ⟨h1, h2, h3, h4, h5⟩ := raw_table0
  exact ⟨fun d => by rw [validateSer_nonAuto d 0 _ h2]; exact h1, h3, h4, h5⟩

theorem gzip_table0 :
    validateCompressionFormat 0 GZIP = some GZIP ∧ GZIP ∉ compressionAuto ∧
    GZIP ∈ compressGzipCases ∧ GZIP ∈ decompressGzipCases ∧ GZIP < 128 ∧ GZIP ≠ RAW ∧
    validateSerializationFormat 0 GZIP = none ∧ GZIP ∉ serializationAuto ∧ GZIP ≠ AUTO := by
  decide

/-- Every compression id resolves (as long as AUTO stands for GZIP) to a compression that both functions of
    compression.go handle with gzip, is a one-byte identifier and is not a serialization format under any value of
    the defaults (so that `Load` takes the decompression branch). -/
theorem compression_table (dc cm : Nat) (hcm : cm ∈ compressionFormats) (hd : cm = AUTO → dc = GZIP) :
      validateCompressionFormat dc cm = some (resolveCompression dc cm) ∧
      (∀ dc', validateCompressionFormat dc' (resolveCompression dc cm) = some (resolveCompression dc cm)) ∧
      resolveCompression dc cm ∈ compressGzipCases ∧ resolveCompression dc cm ∈ decompressGzipCases ∧
      resolveCompression dc cm < 128 ∧ resolveCompression dc cm ≠ RAW ∧
      (∀ d', validateSerializationFormat d' (resolveCompression dc cm) = none) := by
  obtain ⟨g1, g2, g3, g4, g5, g6, g7, g8, g9⟩ := gzip_table0
  have hr : resolveCompression dc cm = GZIP := by
    unfold resolveCompression
    by_cases ha : cm = AUTO
    · simp [ha]; exact hd ha
    · simp only [ha, ite_false]
      simp only [compressionFormats, List.mem_cons, List.mem_nil_iff, or_false] at hcm
      rcases hcm with hcm | hcm
      · exact absurd hcm ha
      · exact hcm
  rw [hr]
  refine ⟨?_, fun dc' => by rw [validateComp_nonAuto dc' 0 _ g2]; exact g1, g3, g4, g5, g6,
    fun d' => by rw [validateSer_nonAuto d' 0 _ g8]; exact g7⟩
  by_cases ha : cm = AUTO
  · subst ha
    rw [validateComp_auto, hd rfl]
  · have : cm = GZIP := by simpa [resolveCompression, ha] using hr
    subst this
    rw [validateComp_nonAuto dc 0 _ g2]; exact g1

theorem mime_table0 :
    ∀ p ∈ formatToMimeType,
      p.2 ≠ [] ∧ (splitOn 44 p.2).findSome? (fun e => lookup (cleanMime e) mimeTypeToFormat) = some p.1 ∧
      p.1 ≠ 0 ∧ p.1 ≠ AUTO ∧ validateSerializationFormat 0 p.1 = some p.1 ∧ p.1 ∉ serializationAuto ∧
      (libOf p.1).isSome = true ∧ lookup p.1 loadDispatch = lookup p.1 dumpDispatch := by
  decide

/-- Everything `formatFromAccept` can answer besides AUTO has a mime type, provided the default has one. -/
theorem accept_range_table :
    ∀ f ∈ mimeFormats ++ mimeTypeToFormat.map Prod.snd,
      f ≠ AUTO ∧ (lookup f formatToMimeType).isSome = true := by
  decide

/-! ### lookup -/

theorem lookup_mem {α β : Type} [DecidableEq α] (k : α) (b : β) (l : List (α × β)) (h : lookup k l = some b) :
    (k, b) ∈ l := by
  induction l with
  | nil => simp [lookup] at h
  | cons p t ih =>
    obtain ⟨a, b'⟩ := p
    unfold lookup at h
    by_cases hk : a = k
    · simp [hk] at h
      subst hk h
      simp
    · simp [hk] at h
      exact List.mem_cons_of_mem _ (ih h)

theorem lookup_snd_mem {α β : Type} [DecidableEq α] (k : α) (b : β) (l : List (α × β)) (h : lookup k l = some b) :
    b ∈ l.map Prod.snd := by
  have := lookup_mem k b l h
  exact List.mem_map.mpr ⟨(k, b), this, rfl⟩

/-! ### list surgery for `cleanMime` -/

theorem dropWhile_append_stop {α : Type} (P : α → Bool) (a : List α) (x : α) (b : List α) (hx : P x = false) :
    (a ++ x :: b).dropWhile P = a.dropWhile P ++ x :: b := by
  induction a with
  | nil => simp [List.dropWhile, hx]
  | cons y t ih =>
    by_cases hy : P y = true
    · simp [List.dropWhile, hy, ih]
    · simp [List.dropWhile, hy]

theorem dropWhile_all {α : Type} (P : α → Bool) (a b : List α) (h : a.all P = true) :
    (a ++ b).dropWhile P = b.dropWhile P := by
  induction a with
  | nil => rfl
  | cons y t ih =>
    simp only [List.all_cons, Bool.and_eq_true] at h
    simp [h.1, ih h.2]

theorem dropWhile_all_nil {α : Type} (P : α → Bool) (a : List α) (h : a.all P = true) : a.dropWhile P = [] := by
  have := dropWhile_all P a [] h
  simpa using this

theorem takeWhile_ne_of_not_mem (sep : Nat) (a : Str) (h : sep ∉ a) : a.takeWhile (· != sep) = a := by
  induction a with
  | nil => rfl
  | cons y t ih =>
    have hy : y ≠ sep := fun e => h (by simp [e])
    have ht : sep ∉ t := fun e => h (List.mem_cons_of_mem _ e)
    have hb : (y != sep) = true := by simp [hy]
    rw [List.takeWhile_cons, hb, ih ht]
    rfl

theorem takeWhile_ne_append (sep : Nat) (a b : Str) (h : sep ∉ a) : (a ++ sep :: b).takeWhile (· != sep) = a := by
  induction a with
  | nil => simp
  | cons y t ih =>
    have hy : y ≠ sep := fun e => h (by simp [e])
    have ht : sep ∉ t := fun e => h (List.mem_cons_of_mem _ e)
    simp [hy, ih ht]

theorem dropWhile_ne_append (sep : Nat) (a b : Str) (h : sep ∉ a) :
    (a ++ sep :: b).dropWhile (· != sep) = sep :: b := by
  induction a with
  | nil => simp
  | cons y t ih =>
    have hy : y ≠ sep := fun e => h (by simp [e])
    have ht : sep ∉ t := fun e => h (List.mem_cons_of_mem _ e)
    simp [hy, ih ht]

/-- Right-trimming stops at a non-space character. -/
theorem rtrim_stop (p : Str) (x : Nat) (q : Str) (hx : isSpace x = false) :
    ((p ++ x :: q).reverse.dropWhile isSpace).reverse = p ++ x :: (q.reverse.dropWhile isSpace).reverse := by
  have : (p ++ x :: q).reverse = q.reverse ++ x :: p.reverse := by simp
  rw [this, dropWhile_append_stop isSpace _ x _ hx]
  simp

theorem ows_isSpace (c : Nat) (h : isOWS c = true) : isSpace c = true := by
  simp [isOWS] at h
  rcases h with h | h <;> subst h <;> decide

theorem all_ows_isSpace (a : Str) (h : a.all isOWS = true) : a.all isSpace = true := by
  simp only [List.all_eq_true] at *
  exact fun c hc => ows_isSpace c (h c hc)

theorem tokenChar_facts (c : Nat) (h : isTokenChar c = true) :
    isSpace c = false ∧ c ≠ 59 ∧ c ≠ 47 ∧ c ≠ 44 ∧ goLower c = asciiLower c := by
  simp only [isTokenChar, Bool.and_eq_true, decide_eq_true_eq, bne_iff_ne, ne_eq] at h
  obtain ⟨⟨⟨⟨h1, h2⟩, h3⟩, h4⟩, h5⟩ := h
  refine ⟨?_, h5, h4, h3, ?_⟩
  · simp [isSpace]; omega
  · unfold goLower asciiLower
    by_cases hu : 65 ≤ c ∧ c ≤ 90
    · simp [hu]
    · have a : c ≠ 0x212A := by omega
      have b : c ≠ 0x130 := by omega
      simp [hu, a, b]

theorem toLower_token (s : Str) (h : s.all isTokenChar = true) : toLower s = s.map asciiLower := by
  unfold toLower
  apply List.map_congr_left
  intro c hc
  exact (tokenChar_facts c (List.all_eq_true.mp h c hc)).2.2.2.2

theorem not_mem_of_all_token (s : Str) (h : s.all isTokenChar = true) : 59 ∉ s ∧ 47 ∉ s := by
  constructor <;> intro hm
  · exact (tokenChar_facts 59 (List.all_eq_true.mp h 59 hm)).2.1 rfl
  · exact (tokenChar_facts 47 (List.all_eq_true.mp h 47 hm)).2.2.1 rfl

/-- The cleaning steps of `FormatFromAccept` extract exactly the (lower-cased) subtype of a well-formed element. -/
theorem cleanMime_element (e sub : Str) (h : ElementWithSubtype e sub) : cleanMime e = sub.map asciiLower := by
  obtain ⟨ws, pre, tail, he, hws, hpre, hne, hsub, htail⟩ := h
  -- body = pre ++ sub: no space, no ';'
  have hbody_tok : ∀ c ∈ pre ++ sub, isSpace c = false ∧ c ≠ 59 := by
    intro c hc
    rcases List.mem_append.mp hc with hc | hc
    · rcases hpre with hp | ⟨ty, hp, hty⟩
      · subst hp; cases hc
      · subst hp
        rcases List.mem_append.mp hc with hc | hc
        · have := tokenChar_facts c (List.all_eq_true.mp hty c hc); exact ⟨this.1, this.2.1⟩
        · simp at hc; subst hc; decide
    · have := tokenChar_facts c (List.all_eq_true.mp hsub c hc); exact ⟨this.1, this.2.1⟩
  have hbody_ne : pre ++ sub ≠ [] := by simp [hne]
  have h59 : 59 ∉ pre ++ sub := fun hm => (hbody_tok 59 hm).2 rfl
  -- split the body at its last character
  obtain ⟨init, z, hz⟩ : ∃ init z, pre ++ sub = init ++ [z] :=
    ⟨(pre ++ sub).dropLast, (pre ++ sub).getLast hbody_ne, (List.dropLast_concat_getLast hbody_ne).symm⟩
  have hzs : isSpace z = false := (hbody_tok z (by rw [hz]; simp)).1
  -- first character of the body is not a space either
  have hhead : ∀ rest : Str, (ws ++ ((pre ++ sub) ++ rest)).dropWhile isSpace = (pre ++ sub) ++ rest := by
    intro rest
    rw [dropWhile_all isSpace ws _ (all_ows_isSpace ws hws)]
    cases hb : pre ++ sub with
    | nil => exact absurd hb hbody_ne
    | cons y t =>
      have : isSpace y = false := (hbody_tok y (by rw [hb]; simp)).1
      simp [this]
  have hcut : cutBefore 59 (trimSpace e) = pre ++ sub := by
    rcases htail with ht | ⟨params, ht⟩
    · have : trimSpace e = pre ++ sub := by
        unfold trimSpace
        rw [he, List.append_assoc, List.append_assoc, ← List.append_assoc pre, hhead tail, hz, List.append_assoc]
        simp only [List.singleton_append]
        rw [rtrim_stop init z tail hzs]
        have : tail.reverse.dropWhile isSpace = [] :=
          dropWhile_all_nil isSpace _ (by simpa using all_ows_isSpace tail ht)
        simp [this]
      rw [this]
      exact takeWhile_ne_of_not_mem 59 _ h59
    · have : ∃ q, trimSpace e = (pre ++ sub) ++ 59 :: q := by
        unfold trimSpace
        rw [he, List.append_assoc, List.append_assoc, ← List.append_assoc pre, hhead tail, ht]
        exact ⟨_, rtrim_stop (pre ++ sub) 59 params (by decide)⟩
      obtain ⟨q, hq⟩ := this
      rw [hq]
      exact takeWhile_ne_append 59 _ q h59
  have h47sub : 47 ∉ sub := (not_mem_of_all_token sub hsub).2
  unfold cleanMime
  simp only [hcut]
  rcases hpre with hp | ⟨ty, hp, hty⟩
  · subst hp
    simp only [List.nil_append, h47sub, ite_false]
    exact toLower_token sub hsub
  · subst hp
    have h47ty : 47 ∉ ty := (not_mem_of_all_token ty hty).2
    have hmem : 47 ∈ ty ++ [47] ++ sub := by simp
    simp only [hmem, ite_true]
    have : cutAfter 47 (ty ++ [47] ++ sub) = sub := by
      unfold cutAfter
      rw [List.append_assoc, List.singleton_append, dropWhile_ne_append 47 ty sub h47ty]
      rfl
    rw [this]
    exact toLower_token sub hsub

/-! ### the loop of `FormatFromAccept` -/

theorem ffaLoop_spec (d : Nat) (es : List Str) (w : Bool) :
    ffaLoop d es w =
      (match es.findSome? (fun e => lookup (cleanMime e) mimeTypeToFormat) with
       | some f => f
       | none => if (w || es.any (fun e => cleanMime e == [42])) = true then d else AUTO) := by
  induction es generalizing w with
  | nil => simp [ffaLoop, List.findSome?]
  | cons e t ih =>
    unfold ffaLoop
    cases hl : lookup (cleanMime e) mimeTypeToFormat with
    | some f => simp [List.findSome?, hl]
    | none =>
      simp only [List.findSome?, hl, ih, List.any_cons]
      cases List.findSome? (fun e => lookup (cleanMime e) mimeTypeToFormat) t with
      | some f => rfl
      | none => simp [Bool.or_assoc]

theorem findSome?_none_all {α β : Type} (g : α → Option β) (l : List α) (h : l.findSome? g = none) :
    ∀ a ∈ l, g a = none := by
  induction l with
  | nil => intro a ha; cases ha
  | cons x t ih =>
    intro a ha
    simp only [List.findSome?] at h
    cases hx : g x with
    | some b => simp [hx] at h
    | none =>
      simp only [hx] at h
      rcases List.mem_cons.mp ha with rfl | ha
      · exact hx
      · exact ih h a ha

theorem findSome?_some_mem {α β : Type} (g : α → Option β) (l : List α) (b : β) (h : l.findSome? g = some b) :
    ∃ a ∈ l, g a = some b := by
  induction l with
  | nil => simp [List.findSome?] at h
  | cons x t ih =>
    simp only [List.findSome?] at h
    cases hx : g x with
    | some b' =>
      simp only [hx] at h
      exact ⟨x, by simp, by rw [hx, h]⟩
    | none =>
      simp only [hx] at h
      obtain ⟨a, ha, hg⟩ := ih h
      exact ⟨a, List.mem_cons_of_mem _ ha, hg⟩

/-- `formatFromAccept` answers AUTO, the default, or a value of `MimeTypeToFormat`. -/
theorem formatFromAccept_range (d : Nat) (a : Str) :
    formatFromAccept d a = AUTO ∨ formatFromAccept d a ∈ d :: mimeTypeToFormat.map Prod.snd := by
  unfold formatFromAccept
  by_cases ha : a = []
  · simp [ha]
  · simp only [ha, ite_false]
    rw [ffaLoop_spec]
    cases hf : (splitOn 44 a).findSome? (fun e => lookup (cleanMime e) mimeTypeToFormat) with
    | some f =>
      obtain ⟨e, _, he⟩ := findSome?_some_mem _ _ f hf
      exact Or.inr (List.mem_cons_of_mem _ (lookup_snd_mem _ _ _ he))
    | none =>
      simp only
      split
      · exact Or.inr (by simp)
      · exact Or.inl rfl

/-- A header with an element whose cleaned name is in the table is answered without reading the default. -/
theorem formatFromAccept_hit (d : Nat) (a : Str) (f : Nat) (ha : a ≠ [])
    (h : (splitOn 44 a).findSome? (fun e => lookup (cleanMime e) mimeTypeToFormat) = some f) :
    formatFromAccept d a = f := by
  unfold formatFromAccept
  simp only [ha, ite_false]
  rw [ffaLoop_spec, h]

/-- Every format with a mime type: is a valid serialization format handled by one codec on both sides, is not
    AUTO, and `formatFromAccept` maps its mime type back to it — under every value of the default variable. -/
theorem mime_table :
    ∀ p ∈ formatToMimeType,
      (∀ d, formatFromAccept d p.2 = p.1) ∧ p.1 ≠ 0 ∧ p.1 ≠ AUTO ∧
      (∀ d, validateSerializationFormat d p.1 = some p.1) ∧ (libOf p.1).isSome = true ∧
      lookup p.1 loadDispatch = lookup p.1 dumpDispatch := by
  intro p hp
  obtain ⟨h1, h2, h3, h4, h5, h6, h7, h8⟩ := mime_table0 p hp
  exact ⟨fun d => formatFromAccept_hit d _ _ h1 h2, h3, h4,
    fun d => by rw [validateSer_nonAuto d 0 _ h6]; exact h5, h7, h8⟩

theorem splitOn_append (sep : Nat) (e rest : Str) (h : sep ∉ e) :
    splitOn sep (e ++ sep :: rest) = e :: splitOn sep rest := by
  induction e with
  | nil => simp [splitOn]
  | cons y t ih =>
    have hy : y ≠ sep := fun e => h (by simp [e])
    have ht : sep ∉ t := fun e => h (List.mem_cons_of_mem _ e)
    simp [splitOn, hy, ih ht]

theorem splitOn_single (sep : Nat) (e : Str) (h : sep ∉ e) : splitOn sep e = [e] := by
  induction e with
  | nil => simp [splitOn]
  | cons y t ih =>
    have hy : y ≠ sep := fun e => h (by simp [e])
    have ht : sep ∉ t := fun e => h (List.mem_cons_of_mem _ e)
    simp [splitOn, hy, ih ht]

/-- Splitting a header written from a (non-empty) list of comma-free elements gives the list back — every element,
    however many there are. -/
theorem splitOn_joinComma (es : List Str) (hne : es ≠ []) (h : ∀ e ∈ es, 44 ∉ e) :
    splitOn 44 (joinComma es) = es := by
  induction es with
  | nil => exact absurd rfl hne
  | cons e t ih =>
    cases t with
    | nil => simpa [joinComma] using splitOn_single 44 e (h e (by simp))
    | cons e' t' =>
      have he : 44 ∉ e := h e (by simp)
      have ih' := ih (by simp) (fun x hx => h x (List.mem_cons_of_mem _ hx))
      simp only [joinComma]
      rw [splitOn_append 44 e _ he, ih']

theorem joinComma_ne_nil (pre post : List Str) (e : Str) (he : e ≠ []) : joinComma (pre ++ e :: post) ≠ [] := by
  cases pre with
  | nil =>
    cases post with
    | nil => simpa [joinComma] using he
    | cons p ps => simp [joinComma, he]
  | cons x t =>
    cases ht : t ++ e :: post with
    | nil => simp at ht
    | cons y ys =>
      have : (x :: t) ++ e :: post = x :: y :: ys := by simp [ht]
      rw [this]
      simp [joinComma]

/-- What `dumpWithoutIdentifier` writes for a format that has a mime type, `LoadAsFormat` reads back. -/
theorem loadAsFormat_dumpWithoutIdentifier {V : Type} (cfg : Cfg) (c : Codec V) (hc : c.Sound) (v : V) (f : Nat) (mime : Str)
    (hm : lookup f formatToMimeType = some mime) (data : Bytes) (hd : dumpWithoutIdentifier cfg c v f [] = .ok data) :
    loadAsFormat c data f = .ok v := by
  obtain ⟨_, _, _, h4, h5, h6⟩ := mime_table (f, mime) (lookup_mem _ _ _ hm)
  simp only at h4 h5 h6
  obtain ⟨l, hl⟩ := Option.isSome_iff_exists.mp h5
  have hdd : lookup f dumpDispatch = some (.lib l) := by
    unfold libOf at hl; split at hl <;> simp_all
  simp only [dumpWithoutIdentifier, h4, hdd] at hd
  have : ¬ (l = .json ∧ ([] : Str) ≠ []) := by simp
  rw [if_neg this] at hd
  cases hp : c.enc l v with
  | none => simp [hp] at hd
  | some p =>
    simp only [hp] at hd
    injection hd with hd
    subst hd
    simp only [loadAsFormat, h6, hdd, hc.dec_enc l v p hp]

/-- ... and it succeeds whenever the codec can encode the value. -/
theorem dumpWithoutIdentifier_succeeds {V : Type} (cfg : Cfg) (c : Codec V) (v : V) (f : Nat) (mime : Str)
    (hm : lookup f formatToMimeType = some mime) (henc : ∀ l, (c.enc l v).isSome = true) :
    ∃ data, dumpWithoutIdentifier cfg c v f [] = .ok data := by
  obtain ⟨_, _, _, h4, h5, _⟩ := mime_table (f, mime) (lookup_mem _ _ _ hm)
  simp only at h4 h5
  obtain ⟨l, hl⟩ := Option.isSome_iff_exists.mp h5
  have hdd : lookup f dumpDispatch = some (.lib l) := by
    unfold libOf at hl; split at hl <;> simp_all
  obtain ⟨p, hp⟩ := Option.isSome_iff_exists.mp (henc l)
  refine ⟨p, ?_⟩
  simp only [dumpWithoutIdentifier, h4, hdd]
  have : ¬ (l = .json ∧ ([] : Str) ≠ []) := by simp
  rw [if_neg this, hp]

/-! ### non-vacuity fixture -/

/-- A toy codec satisfying the contract: values are byte strings, every codec is "prefix with 7". -/
def toy : Codec Bytes where
  enc _ v := some (7 :: v)
  encIndent _ v := some (7 :: v)
  dec _ b := match b with | 7 :: v => some v | _ => none
  asBytes v := some v
  gz b := 31 :: 139 :: b
  gunz b := match b with | 31 :: 139 :: r => .ok r | _ => .error .gunzip

theorem toy_sound : toy.Sound := by
  constructor <;> intros <;> simp_all [toy]
  all_goals (subst_vars; simp)

end PB.Dsd
