import PBProofs.Lemmas.Updater
/-
C19, history level: "the current release" of a resource read off the history of announcements
(`Spec.currentRelease`, `Spec.lastAnnounced`) against the `CurrentRelease` flags of the model.
-/
namespace PB.Updater
open PB.Updater.Spec

/-! ### Registry look-up after an update -/

theorem find_set_hit (id : Str) (r : Res) : ∀ l : List (Str × Res), l.any (fun p => p.1 == id) = true →
    (l.map (fun p => if p.1 == id then (id, r) else p)).find? (fun p => p.1 == id) = some (id, r)
  | [], h => by simp at h
  | p :: l, h => by
    by_cases hp : p.1 = id
    · simp [hp]
    · have hp' : (p.1 == id) = false := by simpa using hp
      simp only [List.any_cons, hp', Bool.false_or] at h
      simp only [List.map_cons, hp', Bool.false_eq_true, if_false, List.find?_cons]
      exact find_set_hit id r l h

theorem find_set_other {id id' : Str} (r : Res) (hne : id' ≠ id) : ∀ l : List (Str × Res),
    (l.map (fun p => if p.1 == id' then (id', r) else p)).find? (fun p => p.1 == id) = l.find? (fun p => p.1 == id)
  | [] => rfl
  | p :: l => by
    simp only [List.map_cons, List.find?_cons]
    by_cases hp : p.1 = id'
    · have h1 : (id' == id) = false := by simpa using hne
      have h2 : (p.1 == id) = false := by rw [hp]; exact h1
      simp only [hp, beq_self_eq_true, if_true, h1]
      exact find_set_other r hne l
    · have hp' : (p.1 == id') = false := by simpa using hp
      simp only [hp', Bool.false_eq_true, if_false]
      rw [find_set_other r hne l]

theorem St.get_set_same (s : St) (id : Str) (r : Res) : (s.set id r).get id = some r := by
  unfold St.set St.get
  split
  · rename_i h
    simp only [find_set_hit id r s.res h, Option.map_some]
  · rename_i h
    have hn : s.res.find? (fun p => p.1 == id) = none := by
      rw [List.find?_eq_none]
      intro p hp hpid
      exact h (List.any_eq_true.mpr ⟨p, hp, hpid⟩)
    simp [List.find?_append, hn]

theorem St.get_set_other (s : St) {id id' : Str} (r : Res) (hne : id' ≠ id) : (s.set id' r).get id = s.get id := by
  unfold St.set St.get
  split
  · simp only [find_set_other r hne]
  · have h1 : (id' == id) = false := by simpa using hne
    simp only [List.find?_append, List.find?_cons, h1, List.find?_nil, Option.or_none]

theorem St.get_mapRes (s : St) (f : Res → Res) (id : Str) : (s.mapRes f).get id = (s.get id).map f := by
  unfold St.mapRes St.get
  simp only []
  induction s.res with
  | nil => rfl
  | cons p l ih =>
    simp only [List.map_cons, List.find?_cons]
    cases hp : p.1 == id
    · simpa using ih
    · simp

/-- identifiers are a key of the registry (the Go map) -/
def IdsNodup (s : St) : Prop := (s.res.map (·.1)).Nodup

theorem St.set_ids {s : St} {id : Str} {r : Res} (h : IdsNodup s) : IdsNodup (s.set id r) := by
  unfold St.set IdsNodup
  split
  · have : (s.res.map (fun p => if p.1 == id then (id, r) else p)).map (·.1) = s.res.map (·.1) := by
      rw [List.map_map]
      apply List.map_congr_left
      intro p _
      simp only [Function.comp]
      split
      · rename_i hp; exact (beq_iff_eq.mp hp).symm
      · rfl
    simp only [this]; exact h
  · rename_i hany
    simp only [List.map_append, List.map_cons, List.map_nil]
    rw [List.nodup_append]
    refine ⟨h, by simp, ?_⟩
    intro a ha b hb
    have hb : b = id := by simpa using hb
    subst hb
    intro hab
    subst hab
    obtain ⟨p, hp, hpa⟩ := List.mem_map.mp ha
    exact hany (List.any_eq_true.mpr ⟨p, hp, by simp [hpa]⟩)

theorem St.mapRes_ids {s : St} {f : Res → Res} (h : IdsNodup s) : IdsNodup (s.mapRes f) := by
  unfold St.mapRes IdsNodup
  simp only [List.map_map]
  exact h

theorem find_of_mem_nodup : ∀ (l : List (Str × Res)), (l.map (·.1)).Nodup → ∀ p ∈ l,
    l.find? (fun q => q.1 == p.1) = some p
  | [], _, p, hp => by simp at hp
  | q :: l, h, p, hp => by
    rw [List.map_cons, List.nodup_cons] at h
    rw [List.find?_cons]
    rcases List.mem_cons.mp hp with rfl | hp'
    · rw [beq_self_eq_true]
    · have : (q.1 == p.1) = false := by
        cases hq : q.1 == p.1
        · rfl
        · exfalso
          apply h.1
          rw [beq_iff_eq.mp hq]
          exact List.mem_map.mpr ⟨p, hp', rfl⟩
      rw [this]
      exact find_of_mem_nodup l h.2 p hp'

theorem St.get_of_mem {s : St} (h : IdsNodup s) {p : Str × Res} (hp : p ∈ s.res) : s.get p.1 = some p.2 := by
  unfold St.get
  rw [find_of_mem_nodup s.res h p hp]
  rfl

theorem St.addResource_ids {s : St} {id ver : Str} {avail cur pre : Bool} {idx : Option Bool} (h : IdsNodup s) :
    IdsNodup (s.addResource id ver avail cur pre idx).1 := by
  simp only [St.addResource]; exact St.set_ids h

theorem step_ids {s : St} (op : Op) (h : IdsNodup s) : IdsNodup (step s op).1 := by
  cases op with
  | setFlags o d p => exact h
  | add id ver avail cur pre idx => simp only [step]; exact St.addResource_ids h
  | addMany items avail cur pre idx =>
    simp only [step]
    induction items generalizing s with
    | nil => exact h
    | cons it rest ih => exact ih (St.addResource_ids h)
  | addVersion id ver avail cur pre =>
    simp only [step]
    split
    · exact h
    · exact St.set_ids h
  | touch id ver kind =>
    simp only [step]
    split
    · split
      · exact St.set_ids h
      · exact h
    · exact h
  | select => exact St.mapRes_ids h
  | getFile id =>
    simp only [step]
    split
    · exact h
    · exact St.set_ids h
  | blacklist id ver =>
    simp only [step]
    split
    · exact h
    · split <;> exact St.set_ids h
  | purge keep => exact St.mapRes_ids h
  | selected => exact h
  | getVersion id =>
    simp only [step]
    split <;> exact h

theorem run_ids (ops : List Op) : ∀ s, IdsNodup s → IdsNodup (run s ops) := by
  induction ops with
  | nil => intro s hs; exact hs
  | cons op ops ih => intro s hs; exact ih _ (step_ids op hs)

theorem idsNodup_init : IdsNodup {} := by simp [IdsNodup]

/-! ### The flags say what the history announced -/

/-- The `CurrentRelease` flags of `r` agree with the current release `c` given by the history:
    an entry is flagged iff it is the announced version; the announced version is listed. -/
def CurInvR (c : Option Ver) (r : Res) : Prop :=
  (∀ rv ∈ r.versions, (rv.cur = true ↔ c = some rv.ver)) ∧ (∀ v, c = some v → ∃ rv ∈ r.versions, rv.ver = v)

theorem curInvR_empty : CurInvR none {} := by
  constructor
  · intro rv h; simp at h
  · intro v h; cases h

/-- entries of `l'` come from `l` with number and flag, or are new and unflagged; no number is lost -/
theorem curInvR_sim {c : Option Ver} {r r' : Res}
    (h1 : ∀ x ∈ r'.versions, (∃ y ∈ r.versions, y.ver = x.ver ∧ y.cur = x.cur) ∨
      (x.cur = false ∧ ∀ y ∈ r.versions, y.ver ≠ x.ver))
    (h2 : ∀ y ∈ r.versions, ∃ x ∈ r'.versions, x.ver = y.ver)
    (h : CurInvR c r) : CurInvR c r' := by
  constructor
  · intro x hx
    rcases h1 x hx with ⟨y, hy, hv, hc⟩ | ⟨hc, hnew⟩
    · rw [← hv, ← hc]; exact h.1 y hy
    · constructor
      · intro hx'; rw [hc] at hx'; cases hx'
      · intro hcx
        obtain ⟨y, hy, hyv⟩ := h.2 _ hcx
        exact absurd hyv (hnew y hy)
  · intro v hv
    obtain ⟨y, hy, hyv⟩ := h.2 v hv
    obtain ⟨x, hx, hxv⟩ := h2 y hy
    exact ⟨x, hx, hxv.trans hyv⟩

theorem mem_updateFirst_of_mem {p : RV → Bool} {f : RV → RV} {l : List RV} {y : RV}
    (hy : y ∈ l) (hf : ∀ x, (f x).ver = x.ver) : ∃ x ∈ updateFirst p f l, x.ver = y.ver := by
  have hm := updateFirst_map_ver (p := p) hf l
  have : y.ver ∈ (updateFirst p f l).map (·.ver) := by rw [hm]; exact List.mem_map.mpr ⟨y, hy, rfl⟩
  obtain ⟨e, he, hev⟩ := List.mem_map.mp this
  exact ⟨e, he, hev⟩

/-- with version numbers a key, the entry numbered `v` of the updated list is the updated one -/
theorem mem_updateFirst_nodup {v : Ver} {f : RV → RV} :
    ∀ {l : List RV}, VerNodup l → ∀ {x : RV}, x ∈ updateFirst (fun rv => rv.ver == v) f l → x.ver = v →
      (∀ x, (f x).ver = x.ver) → ∃ y ∈ l, y.ver = v ∧ x = f y
  | [], _, x, hx, _, _ => by simp [updateFirst] at hx
  | a :: t, hn, x, hx, hxv, hf => by
    rw [VerNodup, List.pairwise_cons] at hn
    unfold updateFirst at hx
    by_cases ha : a.ver = v
    · have ha' : (a.ver == v) = true := by simpa using ha
      simp only [ha', if_true] at hx
      rcases List.mem_cons.mp hx with rfl | hx'
      · exact ⟨a, List.mem_cons_self, ha, rfl⟩
      · exact absurd (ha.trans hxv.symm) (hn.1 x hx')
    · have ha' : (a.ver == v) = false := by simpa using ha
      simp only [ha', Bool.false_eq_true, if_false] at hx
      rcases List.mem_cons.mp hx with rfl | hx'
      · exact absurd hxv ha
      · obtain ⟨y, hy, hyv, hxy⟩ := mem_updateFirst_nodup hn.2 hx' hxv hf
        exact ⟨y, List.mem_cons_of_mem _ hy, hyv, hxy⟩

theorem selectVersion_curInvR {fl : Flags} {c : Option Ver} {r : Res} (h : CurInvR c r) : CurInvR c (r.selectVersion fl) :=
  curInvR_sim (fun x hx => Or.inl ⟨x, mem_sortDesc.mp hx, rfl, rfl⟩) (fun y hy => ⟨y, mem_sortDesc.mpr hy, rfl⟩) h

theorem blacklist_curInvR {fl : Flags} {c : Option Ver} {r : Res} {version : Str} (h : CurInvR c r) :
    CurInvR c (r.blacklist fl version).1 := by
  unfold Res.blacklist
  split
  · exact h
  · split
    · apply selectVersion_curInvR
      refine curInvR_sim ?_ ?_ h
      · intro x hx
        rcases mem_updateFirst hx with hx | ⟨y, hy, _, rfl⟩
        · exact Or.inl ⟨x, hx, rfl, rfl⟩
        · exact Or.inl ⟨y, hy, rfl, rfl⟩
      · intro y hy
        exact mem_updateFirst_of_mem hy (fun _ => rfl)
    · exact h

theorem getFile_curInvR {fl : Flags} {id : Str} {c : Option Ver} {r : Res} (h : CurInvR c r) :
    CurInvR c (r.getFile fl id).1 := by
  unfold Res.getFile
  simp only []
  generalize hg : (if r.selected.isNone then r.selectVersion fl else r) = r1
  have h1 : CurInvR c r1 := by
    subst hg; split
    · exact selectVersion_curInvR h
    · exact h
  split
  · exact h1
  · split
    · exact h1
    · split
      · exact h1
      · split <;> exact h1

theorem purge_curInvR {keep : Int} {c : Option Ver} {r : Res} (h : CurInvR c r) :
    CurInvR (match c with
      | some v => if (r.purge keep).versions.any (fun rv => rv.ver == v) then some v else none
      | none => none) (r.purge keep) := by
  have hsub : ∀ x ∈ (r.purge keep).versions, x ∈ r.versions := by
    rcases purge_shape r keep with ⟨l', hp, he⟩ | ⟨i, _, _, he⟩
    · rw [he]; exact fun x hx => hp.mem_iff.mp hx
    · rw [he]; exact fun x hx => mem_sortDesc.mp (List.mem_of_mem_take hx)
  cases c with
  | none =>
    refine ⟨fun x hx => ?_, fun v hv => by cases hv⟩
    have := h.1 x (hsub x hx)
    simpa using this
  | some v =>
    simp only []
    split
    · rename_i hany
      refine ⟨fun x hx => h.1 x (hsub x hx), ?_⟩
      intro w hw
      cases hw
      obtain ⟨x, hx, hxv⟩ := List.any_eq_true.mp hany
      exact ⟨x, hx, by simpa using hxv⟩
    · rename_i hany
      refine ⟨fun x hx => ?_, fun w hw => by cases hw⟩
      constructor
      · intro hc
        have := (h.1 x (hsub x hx)).mp hc
        cases this
        exact absurd (List.any_eq_true.mpr ⟨x, hx, by simp⟩) hany
      · intro hc; cases hc

theorem addVersion_curInvR {r : Res} {raw : Str} {avail cur pre : Bool} {idx : Option Bool} {c : Option Ver}
    (hn : VerNodup r.versions) (h : CurInvR c r) :
    CurInvR (if cur then parseVer raw else c) (r.addVersion raw avail cur pre idx).1 := by
  unfold Res.addVersion
  simp only []
  cases cur with
  | false =>
    simp only [Bool.false_eq_true, if_false, Bool.or_false]
    split
    · exact h
    · rename_i v _
      refine curInvR_sim ?_ ?_ h
      · intro x hx
        simp only [] at hx
        have old : ∀ z ∈ (if r.versions.any (fun rv => rv.ver == v) then r.versions else r.versions ++ [{ ver := v }]),
            (∃ y ∈ r.versions, y.ver = z.ver ∧ y.cur = z.cur) ∨ (z.cur = false ∧ ∀ y ∈ r.versions, y.ver ≠ z.ver) := by
          intro z hz
          split at hz
          · exact Or.inl ⟨z, hz, rfl, rfl⟩
          · rename_i hany
            rcases List.mem_append.mp hz with hz | hz
            · exact Or.inl ⟨z, hz, rfl, rfl⟩
            · have : z = { ver := v } := by simpa using hz
              subst this
              refine Or.inr ⟨rfl, ?_⟩
              intro y hy hyv
              exact hany (List.any_eq_true.mpr ⟨y, hy, by simpa using hyv⟩)
        rcases mem_updateFirst hx with hx | ⟨y, hy, _, rfl⟩
        · exact old x hx
        · exact old y hy
      · intro y hy
        simp only []
        refine mem_updateFirst_of_mem ?_ (fun _ => rfl)
        split
        · exact hy
        · exact List.mem_append_left _ hy
  | true =>
    simp only [if_true, Bool.or_true]
    split
    · rename_i hparse
      rw [hparse]
      refine ⟨fun x hx => ?_, fun w hw => by cases hw⟩
      simp only [] at hx
      obtain ⟨o, _, rfl⟩ := List.mem_map.mp hx
      simp
    · rename_i v hparse
      rw [hparse]
      simp only []
      generalize hg : (if (r.versions.map (fun rv => { rv with cur := false })).any (fun rv => rv.ver == v)
            then r.versions.map (fun rv => { rv with cur := false })
            else r.versions.map (fun rv => { rv with cur := false }) ++ [{ ver := v }]) = vs2
      have hm1 : (r.versions.map (fun rv : RV => { rv with cur := false })).map (·.ver) = r.versions.map (·.ver) := by
        simp [Function.comp_def]
      have hn1 : VerNodup (r.versions.map (fun rv : RV => { rv with cur := false })) := verNodup_of_map_eq hm1 hn
      have hn2 : VerNodup vs2 := by
        subst hg
        split
        · exact hn1
        · rename_i hany
          rw [VerNodup, List.pairwise_append]
          refine ⟨hn1, List.pairwise_singleton _ _, ?_⟩
          intro a ha b hb
          have hb : b = { ver := v } := by simpa using hb
          subst hb
          intro hav
          apply hany
          exact List.any_eq_true.mpr ⟨a, ha, by simpa using hav⟩
      have hcur2 : ∀ z ∈ vs2, z.cur = false := by
        subst hg
        intro z hz
        split at hz
        · obtain ⟨o, _, rfl⟩ := List.mem_map.mp hz; rfl
        · rcases List.mem_append.mp hz with hz | hz
          · obtain ⟨o, _, rfl⟩ := List.mem_map.mp hz; rfl
          · have : z = { ver := v } := by simpa using hz
            subst this; rfl
      have hhas : ∃ z ∈ vs2, z.ver = v := by
        subst hg
        split
        · rename_i hany
          obtain ⟨z, hz, hzv⟩ := List.any_eq_true.mp hany
          exact ⟨z, hz, by simpa using hzv⟩
        · exact ⟨{ ver := v }, by simp, rfl⟩
      constructor
      · intro x hx
        constructor
        · intro hxc
          rcases mem_updateFirst hx with hx | ⟨y, _, hpy, rfl⟩
          · have := hcur2 x hx; rw [hxc] at this; cases this
          · have : y.ver = v := by simpa using hpy
            simp [this]
        · intro hxv
          have hxv : x.ver = v := by simpa using hxv.symm
          simp only [] at hx
          obtain ⟨y, _, _, rfl⟩ := mem_updateFirst_nodup hn2 hx hxv (fun _ => rfl)
          rfl
      · intro w hw
        cases hw
        obtain ⟨z, hz, hzv⟩ := hhas
        obtain ⟨x, hx, hxv⟩ := mem_updateFirst_of_mem (p := fun rv => rv.ver == v)
          (f := fun rv => { rv with avail := rv.avail || avail, cur := true, pre := rv.pre || pre || !v.pre.isEmpty })
          hz (fun _ => rfl)
        exact ⟨x, hx, hxv.trans hzv⟩

/-! ### ... in every state of every history -/

def CurInv (id : Str) (s : St) (c : Option Ver) : Prop := CurInvR c ((s.get id).getD {})

theorem St.get_inv {s : St} (hi : StInv s) (id : Str) : ResInv ((s.get id).getD {}) :=
  St.get_all resInv_preserved hi

theorem curInv_set_same {id : Str} {s : St} {c : Option Ver} {r : Res} (h : CurInvR c r) : CurInv id (s.set id r) c := by
  unfold CurInv; rw [St.get_set_same]; exact h

theorem curInv_set_other {id id' : Str} {s : St} {c : Option Ver} {r : Res} (hne : id' ≠ id) (h : CurInv id s c) :
    CurInv id (s.set id' r) c := by
  unfold CurInv; rw [St.get_set_other s r hne]; exact h

/-- a call that replaces the resource `id'` (found by `get`) by one with flags and numbers agreeing with `c` -/
theorem curInv_set_of_get {id id' : Str} {s : St} {c : Option Ver} {r r' : Res} (hr : s.get id' = some r)
    (h : CurInv id s c) (hr' : CurInvR c r → CurInvR c r') : CurInv id (s.set id' r') c := by
  by_cases hid : id' = id
  · subst hid
    apply curInv_set_same
    apply hr'
    have := h
    unfold CurInv at this
    rw [hr] at this
    exact this
  · exact curInv_set_other hid h

theorem curInv_mapRes {id : Str} {s : St} {c c' : Option Ver} {f : Res → Res}
    (h : CurInv id s c) (hf : ∀ r, CurInvR c r → CurInvR c' (f r)) (hc : c = none → c' = none) : CurInv id (s.mapRes f) c' := by
  unfold CurInv at *
  rw [St.get_mapRes]
  cases hg : s.get id with
  | none =>
    rw [hg] at h
    have : c = none := by
      cases c with
      | none => rfl
      | some v => obtain ⟨rv, hrv, _⟩ := h.2 v rfl; simp at hrv
    rw [hc this]
    exact curInvR_empty
  | some r =>
    rw [hg] at h
    exact hf r h

theorem addResource_curInv {id id' ver : Str} {avail cur pre : Bool} {idx : Option Bool} {s : St} {c : Option Ver}
    (hi : StInv s) (h : CurInv id s c) :
    CurInv id (s.addResource id' ver avail cur pre idx).1 (if cur && id' == id then parseVer ver else c) := by
  simp only [St.addResource]
  by_cases hid : id' = id
  · subst hid
    apply curInv_set_same
    have := addVersion_curInvR (raw := ver) (avail := avail) (cur := cur) (pre := pre) (idx := idx) (St.get_inv hi id').1 h
    simpa using this
  · have : (id' == id) = false := by simpa using hid
    simp only [this, Bool.and_false, Bool.false_eq_true, if_false]
    exact curInv_set_other hid h

theorem addMany_curInv {id : Str} {avail cur pre : Bool} {idx : Option Bool} :
    ∀ (items : List (Str × Str)) (s : St) (c : Option Ver), StInv s → CurInv id s c →
      CurInv id (items.foldl (fun s it => (s.addResource it.1 it.2 avail cur pre idx).1) s)
        (if cur then announcedIn id c items else c)
  | [], s, c, _, h => by cases cur <;> simpa [announcedIn] using h
  | it :: rest, s, c, hi, h => by
    have h1 := addResource_curInv (id' := it.1) (ver := it.2) (avail := avail) (cur := cur) (pre := pre) (idx := idx) hi h
    have hi1 : StInv (s.addResource it.1 it.2 avail cur pre idx).1 := St.addResource_all resInv_preserved hi
    have := addMany_curInv (avail := avail) (cur := cur) (pre := pre) (idx := idx) rest _ _ hi1 h1
    simp only [List.foldl_cons]
    cases cur
    · simpa using this
    · simpa [announcedIn] using this

theorem step_curInv {id : Str} {s : St} {c : Option Ver} (o : Op) (hi : StInv s) (h : CurInv id s c) :
    CurInv id (step s o).1 (announceStep id s c o) := by
  cases o with
  | setFlags o d p => exact h
  | add id' ver avail cur pre idx =>
    have := addResource_curInv (id' := id') (ver := ver) (avail := avail) (cur := cur) (pre := pre) (idx := idx) hi h
    cases cur <;> simpa [step, announceStep] using this
  | addMany items avail cur pre idx =>
    have := addMany_curInv (avail := avail) (cur := cur) (pre := pre) (idx := idx) items s c hi h
    cases cur <;> simpa [step, announceStep] using this
  | addVersion id' ver avail cur pre =>
    simp only [step]
    cases hg : s.get id' with
    | none =>
      simp only []
      have : announceStep id s c (.addVersion id' ver avail cur pre) = c := by
        cases cur
        · rfl
        · simp only [announceStep]
          by_cases hid : id' = id
          · subst hid; simp [hg]
          · have : (id' == id) = false := by simpa using hid
            simp [this]
      rw [this]; exact h
    | some r =>
      simp only []
      by_cases hid : id' = id
      · subst hid
        apply curInv_set_same
        have hr : CurInvR c r := by have := h; unfold CurInv at this; rw [hg] at this; exact this
        have hn : VerNodup r.versions := by have := St.get_inv hi id'; rw [hg] at this; exact this.1
        have := addVersion_curInvR (raw := ver) (avail := avail) (cur := cur) (pre := pre) (idx := r.index) hn hr
        cases cur <;> simpa [announceStep, hg] using this
      · have hb : (id' == id) = false := by simpa using hid
        have : announceStep id s c (.addVersion id' ver avail cur pre) = c := by
          cases cur <;> simp [announceStep, hb]
        rw [this]
        exact curInv_set_other hid h
  | touch id' ver kind =>
    simp only [step]
    split
    · rename_i r v hr hv
      split
      · exact curInv_set_of_get hr h (fun hr' => hr')
      · exact h
    · exact h
  | select =>
    exact curInv_mapRes h (fun r hr => selectVersion_curInvR hr) (fun hc => hc)
  | getFile id' =>
    simp only [step]
    split
    · exact h
    · rename_i r hr
      exact curInv_set_of_get hr h (fun hr' => getFile_curInvR hr')
  | blacklist id' ver =>
    simp only [step]
    split
    · exact h
    · rename_i r hr
      have := fun hr' : CurInvR c r => blacklist_curInvR (fl := s.fl) (version := ver) hr'
      split <;> (rename_i r' heq; rw [heq] at this; exact curInv_set_of_get hr h this)
  | purge keep =>
    simp only [step, announceStep]
    cases c with
    | none =>
      exact curInv_mapRes h (fun r hr => purge_curInvR (keep := keep) hr) (fun _ => rfl)
    | some v =>
      simp only []
      unfold CurInv at *
      rw [St.get_mapRes]
      cases hg : s.get id with
      | none =>
        rw [hg] at h
        obtain ⟨rv, hrv, _⟩ := h.2 v rfl
        simp at hrv
      | some r =>
        rw [hg] at h
        simp only [Option.map_some, Option.getD_some]
        exact purge_curInvR (keep := keep) h
  | selected => exact h
  | getVersion id' =>
    simp only [step]
    split <;> exact h

theorem runCur_fst (id : Str) : ∀ (ops : List Op) (s : St) (c : Option Ver), (runCur id s c ops).1 = run s ops
  | [], _, _ => rfl
  | o :: ops, s, c => by simp only [runCur, run, List.foldl_cons]; exact runCur_fst id ops _ _

theorem runCur_curInv (id : Str) : ∀ (ops : List Op) (s : St) (c : Option Ver), StInv s → CurInv id s c →
    CurInv id (runCur id s c ops).1 (runCur id s c ops).2
  | [], _, _, _, h => h
  | o :: ops, s, c, hi, h => by
    simp only [runCur]
    exact runCur_curInv id ops _ _ (step_all resInv_preserved o hi) (step_curInv o hi h)

/-- In the state after any history the flags of resource `id` agree with the current release of the history. -/
theorem run_curInv (id : Str) (ops : List Op) : CurInv id (run {} ops) (currentRelease id ops) := by
  have := runCur_curInv id ops {} none stInv_init (by unfold CurInv; exact curInvR_empty)
  rw [runCur_fst] at this
  exact this

/-! ### The current release is the version announced last (unless a purge dropped it) -/

theorem isSome_get_set (s : St) (id id' : Str) (r : Res) :
    ((s.set id' r).get id).isSome = ((s.get id).isSome || id' == id) := by
  by_cases hid : id' = id
  · subst hid; rw [St.get_set_same]; simp
  · rw [St.get_set_other s r hid]
    have : (id' == id) = false := by simpa using hid
    simp [this]

theorem isSome_get_set_of_get {s : St} {id id' : Str} {r r' : Res} (hr : s.get id' = some r) :
    ((s.set id' r').get id).isSome = (s.get id).isSome := by
  rw [isSome_get_set]
  by_cases hid : id' = id
  · subst hid; simp [hr]
  · have : (id' == id) = false := by simpa using hid
    simp [this]

theorem isSome_get_addMany (id : Str) {avail cur pre : Bool} {idx : Option Bool} : ∀ (items : List (Str × Str)) (s : St),
    ((items.foldl (fun s it => (s.addResource it.1 it.2 avail cur pre idx).1) s).get id).isSome =
      ((s.get id).isSome || items.any (fun it => it.1 == id))
  | [], s => by simp
  | it :: rest, s => by
    simp only [List.foldl_cons, List.any_cons]
    rw [isSome_get_addMany id rest]
    simp only [St.addResource, isSome_get_set, Bool.or_assoc]

theorem step_known (id : Str) (s : St) (c : Option Ver) (o : Op) :
    ((step s o).1.get id).isSome = (announcedArgs id (s.get id).isSome c o).1 := by
  cases o with
  | setFlags o d p => rfl
  | add id' ver avail cur pre idx => simp only [step, St.addResource, announcedArgs, isSome_get_set]
  | addMany items avail cur pre idx => simp only [step, announcedArgs, isSome_get_addMany]
  | addVersion id' ver avail cur pre =>
    simp only [step, announcedArgs]
    split
    · rfl
    · rename_i r hr; exact isSome_get_set_of_get hr
  | touch id' ver kind =>
    simp only [step, announcedArgs]
    split
    · rename_i r v hr hv
      split
      · exact isSome_get_set_of_get hr
      · rfl
    · rfl
  | select => simp only [step, announcedArgs, St.get_mapRes, Option.isSome_map]
  | getFile id' =>
    simp only [step, announcedArgs]
    split
    · rfl
    · rename_i r hr; exact isSome_get_set_of_get hr
  | blacklist id' ver =>
    simp only [step, announcedArgs]
    split
    · rfl
    · rename_i r hr
      split <;> exact isSome_get_set_of_get hr
  | purge keep => simp only [step, announcedArgs, St.get_mapRes, Option.isSome_map]
  | selected => rfl
  | getVersion id' =>
    simp only [step, announcedArgs]
    split <;> rfl

theorem announcedIn_rel (id : Str) : ∀ (items : List (Str × Str)) (c c' : Option Ver), (c = none ∨ c = c') →
    announcedIn id c items = none ∨ announcedIn id c items = announcedIn id c' items
  | [], c, c', h => h
  | it :: rest, c, c', h => by
    simp only [announcedIn]
    apply announcedIn_rel id rest
    split
    · exact Or.inr rfl
    · exact h

/-- one call: the current release stays "forgotten, or the version announced last" -/
theorem announceStep_rel (id : Str) (s : St) (o : Op) (c c' : Option Ver) (h : c = none ∨ c = c') :
    announceStep id s c o = none ∨ announceStep id s c o = (announcedArgs id (s.get id).isSome c' o).2 := by
  cases o with
  | add id' ver avail cur pre idx =>
    cases cur
    · simpa [announceStep, announcedArgs] using h
    · simp only [announceStep, announcedArgs, Bool.true_and]
      split
      · exact Or.inr rfl
      · exact h
  | addMany items avail cur pre idx =>
    cases cur
    · simpa [announceStep, announcedArgs] using h
    · simp only [announceStep, announcedArgs, if_true]
      exact announcedIn_rel id items c c' h
  | addVersion id' ver avail cur pre =>
    cases cur
    · simpa [announceStep, announcedArgs] using h
    · simp only [announceStep, announcedArgs, Bool.true_and]
      split
      · exact Or.inr rfl
      · exact h
  | purge keep =>
    simp only [announceStep, announcedArgs]
    cases c with
    | none => exact Or.inl rfl
    | some v =>
      simp only []
      split
      · exact h
      · exact Or.inl rfl
  | setFlags o d p => exact h
  | touch id' ver kind => exact h
  | select => exact h
  | getFile id' => exact h
  | blacklist id' ver => exact h
  | selected => exact h
  | getVersion id' => exact h

/-- one call other than Purge: the current release is exactly what the arguments announce -/
theorem announceStep_eq (id : Str) (s : St) (o : Op) (c : Option Ver) (hp : ∀ k, o ≠ .purge k) :
    announceStep id s c o = (announcedArgs id (s.get id).isSome c o).2 := by
  cases o with
  | add id' ver avail cur pre idx => cases cur <;> simp [announceStep, announcedArgs]
  | addMany items avail cur pre idx => cases cur <;> simp [announceStep, announcedArgs]
  | addVersion id' ver avail cur pre => cases cur <;> simp [announceStep, announcedArgs]
  | purge keep => exact absurd rfl (hp keep)
  | setFlags o d p => rfl
  | touch id' ver kind => rfl
  | select => rfl
  | getFile id' => rfl
  | blacklist id' ver => rfl
  | selected => rfl
  | getVersion id' => rfl

theorem runCur_lastAnnounced (id : Str) : ∀ (ops : List Op) (s : St) (c c' : Option Ver), (c = none ∨ c = c') →
    (runCur id s c ops).2 = none ∨ (runCur id s c ops).2 = lastAnnouncedFrom id (s.get id).isSome c' ops
  | [], _, _, _, h => h
  | o :: ops, s, c, c', h => by
    simp only [runCur, lastAnnouncedFrom]
    rw [← step_known id s c' o]
    exact runCur_lastAnnounced id ops _ _ _ (announceStep_rel id s o c c' h)

theorem runCur_lastAnnounced_nopurge (id : Str) : ∀ (ops : List Op) (s : St) (c : Option Ver),
    (∀ o ∈ ops, ∀ k, o ≠ .purge k) → (runCur id s c ops).2 = lastAnnouncedFrom id (s.get id).isSome c ops
  | [], _, _, _ => rfl
  | o :: ops, s, c, h => by
    simp only [runCur, lastAnnouncedFrom]
    rw [← step_known id s c o, ← announceStep_eq id s o c (h o List.mem_cons_self)]
    exact runCur_lastAnnounced_nopurge id ops _ _ (fun o' ho' => h o' (List.mem_cons_of_mem _ ho'))

/-! ### The documented order against the flags and against the history -/

theorem curOk_iff_H {cur : Option Ver} {fl : Flags} {idx : Option Bool} {vs : List RV}
    (hc : ∀ rv ∈ vs, (rv.cur = true ↔ cur = some rv.ver)) : CurOk fl idx vs ↔ CurOkH cur fl idx vs := by
  constructor
  · rintro ⟨c, ⟨hm, hcc, _⟩, hs⟩
    exact ⟨c, hm, (hc c hm).mp hcc, hs⟩
  · rintro ⟨c, hm, hcc, hs⟩
    refine ⟨c, ⟨hm, (hc c hm).mpr hcc, ?_⟩, hs⟩
    intro w hw hwc
    have := (hc w hw).mp hwc
    rw [hcc] at this
    rw [Option.some.inj this]
    exact Ver.lt_irrefl _

/-- When the flags say what the history announced, the documented order read against the flags and read against the
    history prescribe the same versions. -/
theorem prescribed_iff_H {cur : Option Ver} {fl : Flags} {idx : Option Bool} {vs : List RV}
    (hc : ∀ rv ∈ vs, (rv.cur = true ↔ cur = some rv.ver)) (r : RV) :
    Prescribed fl idx vs r ↔ PrescribedH cur fl idx vs r := by
  have hk := curOk_iff_H (fl := fl) (idx := idx) hc
  constructor
  · intro h
    cases h with
    | dev h1 h2 h3 h4 => exact .dev h1 h2 h3 h4
    | current h1 h2 h3 => exact .current h1 h2.1 ((hc r h2.1).mp h2.2.1) h3
    | newestSelectable h1 h2 h3 h4 => exact .newestSelectable h1 (fun h => h2 (hk.mpr h)) h3 h4
    | newestStable h1 h2 h3 h4 => exact .newestStable h1 (fun h => h2 (hk.mpr h)) h3 h4
    | fallback h1 h2 h3 h4 h5 => exact .fallback h1 (fun h => h2 (hk.mpr h)) h3 h4 h5
  · intro h
    cases h with
    | dev h1 h2 h3 h4 => exact .dev h1 h2 h3 h4
    | current h1 h2 h3 h4 =>
      refine .current h1 ⟨h2, (hc r h2).mpr h3, ?_⟩ h4
      intro w hw hwc
      have := (hc w hw).mp hwc
      rw [h3] at this
      rw [Option.some.inj this]
      exact Ver.lt_irrefl _
    | newestSelectable h1 h2 h3 h4 => exact .newestSelectable h1 (fun h => h2 (hk.mp h)) h3 h4
    | newestStable h1 h2 h3 h4 => exact .newestStable h1 (fun h => h2 (hk.mp h)) h3 h4
    | fallback h1 h2 h3 h4 h5 => exact .fallback h1 (fun h => h2 (hk.mp h)) h3 h4 h5

/-! ### Concrete data for the non-vacuity examples of PBProofs/C19.lean -/
namespace Ex

/-- 1.1.0, 1.2.0, 1.3.0 on disk; the current release is 1.2.0, then 1.3.0, then 1.2.0 again -/
def rollback : List Op := [
  .add (s "app.exe") (s "1.1.0") true false false none,
  .add (s "app.exe") (s "1.2.0") true false false none,
  .add (s "app.exe") (s "1.3.0") true false false none,
  .add (s "app.exe") (s "1.2.0") false true false (some true),
  .select,
  .getFile (s "app.exe"),
  .add (s "app.exe") (s "1.3.0") false true false (some true),
  .select,
  .add (s "app.exe") (s "1.2.0") false true false (some true)]

/-- the announced current release 1.0.0 is not on disk and the registry is offline: 1.5.0 is selected and the purge
    drops 1.0.0 from the list -/
def purgedCurrent : List Op := [
  .add (s "app.exe") (s "1.5.0") true false false none,
  .add (s "app.exe") (s "1.4.0") true false false none,
  .add (s "app.exe") (s "1.3.0") true false false none,
  .add (s "app.exe") (s "1.2.0") true false false none,
  .add (s "app.exe") (s "1.0.0") false true false (some true),
  .select,
  .getFile (s "app.exe"),
  .purge 2]

/-- two flagged entries — not reachable in the model (`reachable_one_current_release`) -/
def twoFlags : List RV := [
  { ver := v 1 3 0, avail := true, cur := true }, { ver := v 1 2 0, avail := true, cur := true },
  { ver := v 1 1 0, avail := true }]

end Ex

end PB.Updater
