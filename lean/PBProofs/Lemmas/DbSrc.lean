import PB.Model.Db
import PB.Gen.MetaSrc
/-
Bridge between the model's `Meta` and the structure `PB.Gen.MetaSrc.Meta` that harness/cmd/extract/golean.go
translates from database/record/meta.go on every run (C02: the source's methods are the model's).
-/
namespace PB.Db

/-- The model's metadata as the translated Go struct. -/
def srcMeta (m : Meta) : PB.Gen.MetaSrc.Meta :=
  { Created := m.created, Modified := m.modified, Expires := m.expires, Deleted := m.deleted,
    secret := m.secret, cronjewel := m.crown }

/-- Values of `int64` range are not changed by Go's wrap-around. -/
theorem wrapI64_inRange (x : Int) (h1 : -(2 : Int) ^ 63 ≤ x) (h2 : x < (2 : Int) ^ 63) : PB.Go.wrapI64 x = x := by
  unfold PB.Go.wrapI64 PB.toInt64
  by_cases hx : 0 ≤ x
  · have e1 : ((x % (2 : Int) ^ 64).toNat : Int) = x := by omega
    have e2 : (x % (2 : Int) ^ 64).toNat % 2 ^ 64 = (x % (2 : Int) ^ 64).toNat := by omega
    simp only [e2]
    split <;> omega
  · have e1 : ((x % (2 : Int) ^ 64).toNat : Int) = x + (2 : Int) ^ 64 := by omega
    have e2 : (x % (2 : Int) ^ 64).toNat % 2 ^ 64 = (x % (2 : Int) ^ 64).toNat := by omega
    simp only [e2]
    split <;> omega

end PB.Db
