import PB.Model.Query
import PB.Spec.Query
/-
Helper lemmas for C11 (database/query): escaping, tokenizer, operand parsers, parser, printer.
-/
namespace PB.Query

/-! ### Escaping -/

theorem unesc_cons_ne {c : Char} (r : List Char) (h : c ≠ '\\') : unesc (c :: r) = c :: unesc r := by
  cases r <;> simp [unesc, h]

theorem unesc_bs_cons (d : Char) (r : List Char) : unesc ('\\' :: d :: r) = d :: unesc r := by
  simp [unesc]

theorem unesc_escBody (t : List Char) : unesc (escBody t) = t := by
  induction t with
  | nil => simp [escBody, unesc]
  | cons c r ih =>
    by_cases h : c = '\\' ∨ c = '"'
    · simp [escBody, h, unesc_bs_cons, ih]
    · have h1 : c ≠ '\\' := fun e => h (Or.inl e)
      simp [escBody, h, unesc_cons_ne _ h1, ih]

theorem special_of_bs {c : Char} (h : c = '\\') : isSpecial c = true := by subst h; decide
theorem special_of_quote {c : Char} (h : c = '"') : isSpecial c = true := by subst h; decide

theorem unesc_bsl (t : List Char) : unesc (bsl t) = t := by
  induction t with
  | nil => simp [bsl, unesc]
  | cons c r ih =>
    by_cases h : isSpecial c = true
    · simp [bsl, h, unesc_bs_cons, ih]
    · have h1 : c ≠ '\\' := fun e => h (special_of_bs e)
      simp [bsl, h, unesc_cons_ne _ h1, ih]

theorem bsl_noSpecial (t : List Char) (h : t.any isSpecial = false) : bsl t = t := by
  induction t with
  | nil => simp [bsl]
  | cons c r ih =>
    simp only [List.any_cons, Bool.or_eq_false_iff] at h
    simp [bsl, h.1, ih h.2]


/-! ### Tokenizer steps -/

theorem lex_skip (m : Mode) (c : Char) (rest : List Char) :
    lexAux true m (c :: rest) = lexAux false (m.push c) rest := by
  cases m <;> simp [lexAux]
theorem lex_quote_close (acc rest : List Char) :
    lexAux false (.quote acc) ('"' :: rest) = (prepToken acc :: ·) <$> lexAux false .idle rest := by
  simp [lexAux]
theorem lex_quote_char (acc rest : List Char) (c : Char) (h : c ≠ '"') :
    lexAux false (.quote acc) (c :: rest) = lexAux (decide (c = '\\')) (.quote (acc ++ [c])) rest := by
  simp [lexAux, h]
theorem lex_idle_sep (c : Char) (rest : List Char) (h : isSep c = true) :
    lexAux false .idle (c :: rest) = (if c = '(' ∨ c = ')' then ([c] :: ·) else id) <$> lexAux false .idle rest := by
  simp [lexAux, h]
theorem lex_idle_quote (rest : List Char) : lexAux false .idle ('"' :: rest) = lexAux false (.quote []) rest := by
  simp [lexAux, isSep]
theorem lex_idle_char (c : Char) (rest : List Char) (h : isSep c = false) (h2 : c ≠ '"') :
    lexAux false .idle (c :: rest) = lexAux (decide (c = '\\')) (.word [c]) rest := by
  simp [lexAux, h, h2]
theorem lex_word_sep (acc : List Char) (c : Char) (rest : List Char) (h : isSep c = true) :
    lexAux false (.word acc) (c :: rest) =
      (fun ts => prepToken acc :: (if c = '(' ∨ c = ')' then [c] :: ts else ts)) <$> lexAux false .idle rest := by
  simp [lexAux, h]
theorem lex_word_char (acc : List Char) (c : Char) (rest : List Char) (h : isSep c = false) (h2 : c ≠ '"') :
    lexAux false (.word acc) (c :: rest) = lexAux (decide (c = '\\')) (.word (acc ++ [c])) rest := by
  simp [lexAux, h, h2]

/-- The rest of the input lets a plain word end here: end of input or a separator. -/
def sepStart : List Char → Bool
  | [] => true
  | c :: _ => isSep c

theorem sep_special {c : Char} (h : isSep c = true) : isSpecial c = true := by
  simp only [isSep, Bool.or_eq_true, decide_eq_true_eq] at h
  simp only [isSpecial, Bool.or_eq_true, decide_eq_true_eq]
  rcases h with ((((h | h) | h) | h) | h) | h <;> simp [h]

theorem not_sep_of_not_special {c : Char} (h : isSpecial c = false) : isSep c = false := by
  cases hs : isSep c with
  | false => rfl
  | true => rw [sep_special hs] at h; cases h

theorem lex_word_end (acc rest : List Char) (ts : List Tok) (hs : sepStart rest = true)
    (h : lexAux false .idle rest = .ok ts) : lexAux false (.word acc) rest = .ok (prepToken acc :: ts) := by
  cases rest with
  | nil => simp [lexAux] at h ⊢; exact h
  | cons s r =>
    simp only [sepStart] at hs
    rw [lex_idle_sep s r hs] at h
    rw [lex_word_sep acc s r hs]
    cases hr : lexAux false .idle r with
    | error e => rw [hr] at h; cases h
    | ok ts' =>
      rw [hr] at h
      by_cases hp : s = '(' ∨ s = ')'
      · simp only [hp, if_true] at h ⊢
        cases h; rfl
      · simp only [hp, if_false] at h ⊢
        cases h; rfl

theorem lex_word_scan (w acc rest : List Char) :
    lexAux false (.word acc) (bsl w ++ rest) = lexAux false (.word (acc ++ bsl w)) rest := by
  induction w generalizing acc with
  | nil => simp [bsl]
  | cons c r ih =>
    by_cases h : isSpecial c = true
    · simp only [bsl, h, if_true, List.cons_append]
      rw [lex_word_char acc '\\' _ (by decide) (by decide)]
      simp only [decide_true, lex_skip, Mode.push]
      rw [ih]; simp
    · have hf : isSpecial c = false := by simpa using h
      have h1 : c ≠ '\\' := fun e => h (special_of_bs e)
      have h2 : c ≠ '"' := fun e => h (special_of_quote e)
      simp only [bsl, hf, Bool.false_eq_true, if_false, List.cons_append]
      rw [lex_word_char acc c _ (not_sep_of_not_special hf) h2]
      simp only [h1, decide_false]
      rw [ih]; simp

theorem lex_idle_bsl (w rest : List Char) (hw : w ≠ []) :
    lexAux false .idle (bsl w ++ rest) = lexAux false (.word (bsl w)) rest := by
  cases w with
  | nil => exact absurd rfl hw
  | cons c r =>
    by_cases h : isSpecial c = true
    · simp only [bsl, h, if_true, List.cons_append]
      rw [lex_idle_char '\\' _ (by decide) (by decide)]
      simp only [decide_true, lex_skip, Mode.push]
      rw [lex_word_scan]; simp
    · have hf : isSpecial c = false := by simpa using h
      have h1 : c ≠ '\\' := fun e => h (special_of_bs e)
      have h2 : c ≠ '"' := fun e => h (special_of_quote e)
      simp only [bsl, hf, Bool.false_eq_true, if_false, List.cons_append]
      rw [lex_idle_char c _ (not_sep_of_not_special hf) h2]
      simp only [h1, decide_false]
      rw [lex_word_scan]; simp

theorem prep_bsl (w : List Char) : prepToken (bsl w) = w := by
  cases w with
  | nil => simp [bsl, prepToken, trimQuote, unesc]
  | cons c r =>
    have := unesc_bsl (c :: r)
    by_cases h : isSpecial c = true
    · simp only [bsl, h, if_true] at this ⊢
      simp [prepToken, trimQuote, this]
    · have hf : isSpecial c = false := by simpa using h
      have h2 : c ≠ '"' := fun e => h (special_of_quote e)
      simp only [bsl, hf, Bool.false_eq_true, if_false] at this ⊢
      simp [prepToken, trimQuote, h2, this]

/-- A backslash-escaped (or plain) word is read back exactly. -/
theorem lex_bsl_word (w rest : List Char) (ts : List Tok) (hw : w ≠ []) (hs : sepStart rest = true)
    (h : lexAux false .idle rest = .ok ts) : lexAux false .idle (bsl w ++ rest) = .ok (w :: ts) := by
  rw [lex_idle_bsl w rest hw, lex_word_end _ rest ts hs h, prep_bsl]

theorem lex_quote_scan (w acc rest : List Char) :
    lexAux false (.quote acc) (escBody w ++ '"' :: rest) =
      (prepToken (acc ++ escBody w) :: ·) <$> lexAux false .idle rest := by
  induction w generalizing acc with
  | nil => simp [escBody, lex_quote_close]
  | cons c r ih =>
    by_cases h : c = '\\' ∨ c = '"'
    · simp only [escBody, h, if_true, List.cons_append]
      rw [lex_quote_char acc _ '\\' (by decide)]
      simp only [decide_true, lex_skip, Mode.push]
      rw [ih]; simp
    · have h1 : c ≠ '\\' := fun e => h (Or.inl e)
      have h2 : c ≠ '"' := fun e => h (Or.inr e)
      simp only [escBody, h, if_false, List.cons_append]
      rw [lex_quote_char acc _ c h2]
      simp only [h1, decide_false]
      rw [ih]; simp

theorem prep_escBody (w : List Char) : prepToken (escBody w) = w := by
  cases w with
  | nil => simp [escBody, prepToken, trimQuote, unesc]
  | cons c r =>
    have := unesc_escBody (c :: r)
    by_cases h : c = '\\' ∨ c = '"'
    · simp only [escBody, h, if_true] at this ⊢
      simp [prepToken, trimQuote, this]
    · have h2 : c ≠ '"' := fun e => h (Or.inr e)
      simp only [escBody, h, if_false] at this ⊢
      simp [prepToken, trimQuote, h2, this]

/-- A quoted word is read back exactly, whatever follows the closing quote. -/
theorem lex_quoted_word (w rest : List Char) (ts : List Tok)
    (h : lexAux false .idle rest = .ok ts) : lexAux false .idle ('"' :: escBody w ++ '"' :: rest) = .ok (w :: ts) := by
  rw [List.cons_append, lex_idle_quote, lex_quote_scan, h]
  simp only [List.nil_append, prep_escBody]
  rfl

theorem lex_ws (g rest : List Char) (hg : g.all isWs = true) :
    lexAux false .idle (g ++ rest) = lexAux false .idle rest := by
  induction g with
  | nil => rfl
  | cons c r ih =>
    simp only [List.all_cons, Bool.and_eq_true] at hg
    have hc := hg.1
    simp only [isWs, Bool.or_eq_true, decide_eq_true_eq] at hc
    have hsep : isSep c = true := by
      simp only [isSep, Bool.or_eq_true, decide_eq_true_eq]
      rcases hc with ((h | h) | h) | h <;> simp [h]
    have hnp : ¬ (c = '(' ∨ c = ')') := by
      rcases hc with ((h | h) | h) | h <;> subst h <;> decide
    rw [List.cons_append, lex_idle_sep c _ hsep, ih hg.2]
    simp only [hnp, if_false]
    cases lexAux false .idle rest <;> rfl

theorem lex_lp (rest : List Char) (ts : List Tok) (h : lexAux false .idle rest = .ok ts) :
    lexAux false .idle ('(' :: rest) = .ok (kwLp :: ts) := by
  rw [lex_idle_sep '(' rest (by decide), h]; rfl

theorem lex_rp (rest : List Char) (ts : List Tok) (h : lexAux false .idle rest = .ok ts) :
    lexAux false .idle (')' :: rest) = .ok (kwRp :: ts) := by
  rw [lex_idle_sep ')' rest (by decide), h]; rfl

theorem sepStart_ws_append (g rest : List Char) (hg : g.all isWs = true) (hr : sepStart rest = true) :
    sepStart (g ++ rest) = true := by
  cases g with
  | nil => exact hr
  | cons c r =>
    simp only [List.all_cons, Bool.and_eq_true] at hg
    have hc := hg.1
    simp only [isWs, Bool.or_eq_true, decide_eq_true_eq] at hc
    simp only [List.cons_append, sepStart, isSep, Bool.or_eq_true, decide_eq_true_eq]
    rcases hc with ((h | h) | h) | h <;> simp [h]

theorem sepStart_gap (g rest : List Char) (hg : gapOK g = true) : sepStart (g ++ rest) = true := by
  simp only [gapOK, Bool.and_eq_true, Bool.not_eq_true'] at hg
  cases g with
  | nil => simp at hg
  | cons c r =>
    have hc := hg.2
    simp only [List.all_cons, Bool.and_eq_true] at hc
    have hc := hc.1
    simp only [isWs, Bool.or_eq_true, decide_eq_true_eq] at hc
    simp only [List.cons_append, sepStart, isSep, Bool.or_eq_true, decide_eq_true_eq]
    rcases hc with ((h | h) | h) | h <;> simp [h]


/-! ### Tokenizing sentences -/

/-- `s` may follow a plain word, and tokenizes to `ts`. -/
def Lx (s : List Char) (ts : List Tok) : Prop := sepStart s = true ∧ lexAux false .idle s = .ok ts

/-- A plain keyword / operator name / number: non-empty, no control characters. -/
def kwOK (k : List Char) : Bool := !k.isEmpty && !k.any isSpecial

theorem lex_kw (k rest : List Char) (ts : List Tok) (hk : kwOK k = true) (h : Lx rest ts) :
    lexAux false .idle (k ++ rest) = .ok (k :: ts) := by
  simp only [kwOK, Bool.and_eq_true, Bool.not_eq_true', List.isEmpty_eq_false_iff] at hk
  have := lex_bsl_word k rest ts hk.1 h.1 h.2
  rwa [bsl_noSpecial k hk.2] at this

theorem lex_word (w : Word) (rest : List Char) (ts : List Tok) (hw : w.wf = true) (h : Lx rest ts) :
    lexAux false .idle (w.render ++ rest) = .ok (w.text :: ts) := by
  obtain ⟨st, t⟩ := w
  cases st with
  | raw =>
    simp only [Word.wf, Bool.and_eq_true, Bool.not_eq_true', List.isEmpty_eq_false_iff] at hw
    have := lex_bsl_word t rest ts hw.1 h.1 h.2
    rw [bsl_noSpecial t hw.2] at this
    simpa [Word.render] using this
  | quoted =>
    have := lex_quoted_word t rest ts h.2
    simpa [Word.render] using this
  | bslash =>
    simp only [Word.wf, Bool.not_eq_true', List.isEmpty_eq_false_iff] at hw
    simpa [Word.render] using lex_bsl_word t rest ts hw h.1 h.2

theorem Lx_gap (g rest : List Char) (ts : List Tok) (hg : gapOK g = true)
    (h : lexAux false .idle rest = .ok ts) : Lx (g ++ rest) ts := by
  refine ⟨sepStart_gap g rest hg, ?_⟩
  simp only [gapOK, Bool.and_eq_true] at hg
  rw [lex_ws g rest hg.2, h]

theorem Lx_ws (g rest : List Char) (ts : List Tok) (hg : g.all isWs = true) (h : Lx rest ts) : Lx (g ++ rest) ts :=
  ⟨sepStart_ws_append g rest hg h.1, by rw [lex_ws g rest hg, h.2]⟩

theorem Lx_gap_word (g : List Char) (w : Word) (rest : List Char) (ts : List Tok) (hg : gapOK g = true)
    (hw : w.wf = true) (h : Lx rest ts) : Lx (g ++ (w.render ++ rest)) (w.text :: ts) :=
  Lx_gap g _ _ hg (lex_word w rest ts hw h)

theorem Lx_gap_kw (g k rest : List Char) (ts : List Tok) (hg : gapOK g = true)
    (hk : kwOK k = true) (h : Lx rest ts) : Lx (g ++ (k ++ rest)) (k :: ts) :=
  Lx_gap g _ _ hg (lex_kw k rest ts hk h)

theorem Lx_lp (rest : List Char) (ts : List Tok) (h : lexAux false .idle rest = .ok ts) : Lx ('(' :: rest) (kwLp :: ts) :=
  ⟨by simp [sepStart, isSep], lex_lp rest ts h⟩

theorem Lx_rp (rest : List Char) (ts : List Tok) (h : lexAux false .idle rest = .ok ts) : Lx (')' :: rest) (kwRp :: ts) :=
  ⟨by simp [sepStart, isSep], lex_rp rest ts h⟩

theorem Lx_nil : Lx [] [] := ⟨rfl, rfl⟩

theorem lookupOpIn_mem (n : Tok) (op : Nat) : ∀ l : List (String × Nat), lookupOpIn n l = some op →
    ∃ k, (k, op) ∈ l ∧ k.toList = n
  | [], h => by simp [lookupOpIn] at h
  | (k, v) :: rest, h => by
    simp only [lookupOpIn] at h
    by_cases hk : k.toList = n
    · simp only [hk, if_true, Option.some.injEq] at h
      exact ⟨k, by simp [h], hk⟩
    · simp only [hk, if_false] at h
      obtain ⟨k', hm, hk'⟩ := lookupOpIn_mem n op rest h
      exact ⟨k', List.mem_cons_of_mem _ hm, hk'⟩

theorem names_kwOK : ∀ p ∈ PB.Gen.Query.operatorNames, kwOK p.1.toList = true := by decide

theorem lookupOp_kwOK {n : Tok} {op : Nat} (h : lookupOp n = some op) : kwOK n = true := by
  obtain ⟨k, hm, hk⟩ := lookupOpIn_mem n op _ h
  have := names_kwOK (k, op) hm
  simpa [hk] using this

mutual
def SCond.toks : SCond → List Tok
  | .clause _ key opn neg val =>
    (if neg = 2 then [kwNot] else []) ++ key.text :: ((if neg = 1 then [kwNot] else []) ++
      opn :: (match val with | none => [] | some v => [v.text]))
  | .group isOr _ _ _ neg kids =>
    (if neg then [kwNot] else []) ++ kwLp :: (membersToks (connective isOr) kids ++ [kwRp])
def membersToks (conn : Tok) : List SCond → List Tok
  | [] => []
  | c :: cs => match cs with
    | [] => c.toks
    | _ :: _ => c.toks ++ conn :: membersToks conn cs
end

theorem kwOK_not : kwOK kwNot = true := by decide
theorem kwOK_conn (b : Bool) : kwOK (connective b) = true := by cases b <;> decide

theorem lex_clause_core (g : List Char) (key : Word) (opn : Tok) (neg : Nat) (hg : gapOK g = true)
    (hkey : key.wf = true) (hopn : kwOK opn = true) (hneg : neg ≤ 2) (X : List Char) (T : List Tok) (hX : Lx X T) :
    lexAux false .idle ((if neg = 2 then kwNot ++ g else []) ++ (key.render ++ ((if neg = 1 then g ++ kwNot else []) ++
      (g ++ (opn ++ X))))) =
      .ok ((if neg = 2 then [kwNot] else []) ++ key.text :: ((if neg = 1 then [kwNot] else []) ++ opn :: T)) := by
  have hop' := Lx_gap_kw g opn _ _ hg hopn hX
  have hneg3 : neg = 0 ∨ neg = 1 ∨ neg = 2 := by omega
  rcases hneg3 with rfl | rfl | rfl
  · have := lex_word key _ _ hkey hop'
    simpa [List.append_assoc] using this
  · have h1 := Lx_gap_kw g kwNot _ _ hg kwOK_not hop'
    have := lex_word key _ _ hkey h1
    simpa [List.append_assoc] using this
  · have h1 := Lx_gap_word g key _ _ hg hkey hop'
    have := lex_kw kwNot _ _ kwOK_not h1
    simpa [List.append_assoc] using this

theorem lex_clause (g : List Char) (key : Word) (opn : Tok) (neg : Nat) (val : Option Word)
    (hwf : (SCond.clause g key opn neg val).wf = true) (rest : List Char) (ts : List Tok) (h : Lx rest ts) :
    lexAux false .idle ((SCond.clause g key opn neg val).render ++ rest) =
      .ok ((SCond.clause g key opn neg val).toks ++ ts) := by
  simp only [SCond.wf, Bool.and_eq_true, decide_eq_true_eq, Bool.not_eq_true'] at hwf
  obtain ⟨⟨⟨⟨hg, hkey⟩, _⟩, hneg⟩, hop⟩ := hwf
  cases hl : lookupOp opn with
  | none => simp [hl] at hop
  | some op =>
    have hopn := lookupOp_kwOK hl
    simp only [hl] at hop
    cases val with
    | none =>
      have := lex_clause_core g key opn neg hg hkey hopn hneg rest ts h
      simpa [SCond.render, SCond.toks, List.append_assoc] using this
    | some v =>
      simp only [Bool.and_eq_true] at hop
      have := lex_clause_core g key opn neg hg hkey hopn hneg _ _ (Lx_gap_word g v rest ts hg hop.2 h)
      simpa [SCond.render, SCond.toks, List.append_assoc] using this

mutual
theorem lex_scond : (c : SCond) → c.wf = true → ∀ (rest : List Char) (ts : List Tok), Lx rest ts →
    lexAux false .idle (c.render ++ rest) = .ok (c.toks ++ ts)
  | .clause g key opn neg val, hwf, rest, ts, h => lex_clause g key opn neg val hwf rest ts h
  | .group isOr g p ng neg kids, hwf, rest, ts, h => by
    simp only [SCond.wf, Bool.and_eq_true, decide_eq_true_eq] at hwf
    obtain ⟨⟨⟨⟨hg, hp⟩, hng⟩, hk⟩, hlen⟩ := hwf
    have hne : kids ≠ [] := by intro e; subst e; simp at hlen
    have h1 : Lx (p ++ ')' :: rest) (kwRp :: ts) := Lx_ws p _ _ hp (Lx_rp rest ts h.2)
    have h2 := lex_members isOr g kids hk hne (p ++ ')' :: rest) (kwRp :: ts) h1 hg
    have h3 : Lx ('(' :: (p ++ (renderMembers (g ++ connective isOr ++ g) kids ++ (p ++ ')' :: rest))))
        (kwLp :: (membersToks (connective isOr) kids ++ kwRp :: ts)) :=
      Lx_lp _ _ (by rw [lex_ws p _ hp]; exact h2)
    cases neg with
    | false => simpa [SCond.render, SCond.toks, List.append_assoc] using h3.2
    | true =>
      have h4 := lex_kw kwNot _ _ kwOK_not (Lx_ws ng _ _ hng h3)
      simpa [SCond.render, SCond.toks, List.append_assoc] using h4
theorem lex_members (isOr : Bool) (g : List Char) : (cs : List SCond) → kidsWf cs = true → cs ≠ [] →
    ∀ (rest : List Char) (ts : List Tok), Lx rest ts → gapOK g = true →
    lexAux false .idle (renderMembers (g ++ connective isOr ++ g) cs ++ rest) =
      .ok (membersToks (connective isOr) cs ++ ts)
  | [], _, hne, _, _, _, _ => absurd rfl hne
  | [c], hk, _, rest, ts, h, _ => by
    simp only [kidsWf, Bool.and_eq_true] at hk
    simpa [renderMembers, membersToks] using lex_scond c hk.1 rest ts h
  | c :: c' :: cs, hk, _, rest, ts, h, hg => by
    simp only [kidsWf, Bool.and_eq_true] at hk
    have hk' : kidsWf (c' :: cs) = true := by simp [kidsWf, hk.2.1, hk.2.2]
    have ih := lex_members isOr g (c' :: cs) hk' (by simp) rest ts h hg
    have h1 : Lx (g ++ (renderMembers (g ++ connective isOr ++ g) (c' :: cs) ++ rest))
        (membersToks (connective isOr) (c' :: cs) ++ ts) := Lx_gap g _ _ hg ih
    have h2 := Lx_gap_kw g (connective isOr) _ _ hg (kwOK_conn isOr) h1
    have := lex_scond c hk.1 _ _ h2
    simpa [renderMembers, membersToks, List.append_assoc] using this
end


/-! ### Numbers are plain words -/

theorem digit_not_special {c : Char} (h : isDigit c = true) : isSpecial c = false := by
  cases hs : isSpecial c with
  | false => rfl
  | true =>
    simp only [isSpecial, Bool.or_eq_true, decide_eq_true_eq] at hs
    rcases hs with ((((((h' | h') | h') | h') | h') | h') | h') | h' <;> subst h' <;> revert h <;> decide

theorem parseNatAux_all_digits : ∀ (t : List Char) (a n : Nat), parseNatAux a t = some n → t.any isSpecial = false
  | [], _, _, _ => rfl
  | c :: r, a, n, h => by
    simp only [parseNatAux] at h
    by_cases hd : isDigit c = true
    · simp only [hd, if_true] at h
      simp [digit_not_special hd, parseNatAux_all_digits r _ n h]
    · simp [hd] at h

theorem parseNat_kwOK {t : List Char} {n : Nat} (h : parseNat t = some n) : kwOK t = true := by
  simp only [parseNat] at h
  by_cases ht : t = []
  · simp [ht] at h
  · simp only [ht, if_false] at h
    simp [kwOK, ht, parseNatAux_all_digits t 0 n h]

theorem parseUint31_kwOK {t : List Char} (h : (parseUint31 t).isSome = true) : kwOK t = true := by
  simp only [parseUint31] at h
  cases hp : parseNat t with
  | none => simp [hp] at h
  | some n => exact parseNat_kwOK hp

/-! ### Tokens of a whole sentence -/

def Sentence.whereToks (s : Sentence) : List Tok :=
  match s.where_ with
  | none => []
  | some c => kwWhere :: (match c with
    | .group isOr _ _ _ false kids => if s.strip then membersToks (connective isOr) kids else c.toks
    | _ => c.toks)

def Sentence.tailToks (s : Sentence) : List Tok :=
  (match s.orderby with | none => [] | some w => [kwOrderby, w.text])
  ++ (match s.limit with | none => [] | some t => [kwLimit, t])
  ++ (match s.offset with | none => [] | some t => [kwOffset, t])

def Sentence.toks (s : Sentence) : List Tok := kwQuery :: s.pfx.text :: (s.whereToks ++ s.tailToks)

def Sentence.renderTail (s : Sentence) : List Char :=
  (match s.orderby with | none => [] | some w => s.gap ++ kwOrderby ++ s.gap ++ w.render)
    ++ (match s.limit with | none => [] | some t => s.gap ++ kwLimit ++ s.gap ++ t)
    ++ (match s.offset with | none => [] | some t => s.gap ++ kwOffset ++ s.gap ++ t)

theorem Sentence.render_eq (s : Sentence) :
    s.render = kwQuery ++ (s.gap ++ (s.pfx.render ++ (s.renderWhere ++ s.renderTail))) := by
  obtain ⟨g, p, w, ob, l, o, st⟩ := s
  cases ob <;> cases l <;> cases o <;> simp [Sentence.render, Sentence.renderTail, List.append_assoc]

theorem Lx_tail (s : Sentence) (hwf : s.wf = true) : Lx s.renderTail s.tailToks := by
  simp only [Sentence.wf, Bool.and_eq_true] at hwf
  obtain ⟨⟨⟨⟨⟨hg, _⟩, _⟩, hob⟩, hlim⟩, hoff⟩ := hwf
  have h3 : Lx (match s.offset with | none => [] | some t => s.gap ++ kwOffset ++ s.gap ++ t)
      (match s.offset with | none => [] | some t => [kwOffset, t]) := by
    cases ho : s.offset with
    | none => exact Lx_nil
    | some t =>
      simp only [ho] at hoff
      have := Lx_gap_kw s.gap kwOffset _ _ hg (by decide) (Lx_gap_kw s.gap t [] [] hg (parseUint31_kwOK hoff) Lx_nil)
      simpa [List.append_assoc] using this
  have h2 : Lx ((match s.limit with | none => [] | some t => s.gap ++ kwLimit ++ s.gap ++ t)
        ++ (match s.offset with | none => [] | some t => s.gap ++ kwOffset ++ s.gap ++ t))
      ((match s.limit with | none => [] | some t => [kwLimit, t])
        ++ (match s.offset with | none => [] | some t => [kwOffset, t])) := by
    cases hl : s.limit with
    | none => simpa using h3
    | some t =>
      simp only [hl] at hlim
      have := Lx_gap_kw s.gap kwLimit _ _ hg (by decide) (Lx_gap_kw s.gap t _ _ hg (parseUint31_kwOK hlim) h3)
      simpa [List.append_assoc] using this
  cases hb : s.orderby with
  | none => simpa [Sentence.renderTail, Sentence.tailToks, hb] using h2
  | some w =>
    simp only [hb] at hob
    have := Lx_gap_kw s.gap kwOrderby _ _ hg (by decide) (Lx_gap_word s.gap w _ _ hg hob h2)
    simpa [Sentence.renderTail, Sentence.tailToks, hb, List.append_assoc] using this

theorem Lx_where (s : Sentence) (hwf : s.wf = true) :
    Lx (s.renderWhere ++ s.renderTail) (s.whereToks ++ s.tailToks) := by
  have ht := Lx_tail s hwf
  simp only [Sentence.wf, Bool.and_eq_true] at hwf
  obtain ⟨⟨⟨⟨⟨hg, _⟩, hw⟩, _⟩, _⟩, _⟩ := hwf
  cases hc : s.where_ with
  | none => simpa [Sentence.renderWhere, Sentence.whereToks, hc] using ht
  | some c =>
    simp only [hc] at hw
    have key : ∀ (R : List Char) (T : List Tok), lexAux false .idle (R ++ s.renderTail) = .ok (T ++ s.tailToks) →
        Lx (s.gap ++ kwWhere ++ s.gap ++ R ++ s.renderTail) (kwWhere :: T ++ s.tailToks) := by
      intro R T h
      have := Lx_gap_kw s.gap kwWhere _ _ hg (by decide) (Lx_gap s.gap _ _ hg h)
      simpa [List.append_assoc] using this
    have hfull := lex_scond c hw _ _ ht
    cases c with
    | clause g k o n v =>
      simpa [Sentence.renderWhere, Sentence.whereToks, hc, List.append_assoc] using key _ _ hfull
    | group isOr g p ng neg kids =>
      cases neg with
      | true => simpa [Sentence.renderWhere, Sentence.whereToks, hc, List.append_assoc] using key _ _ hfull
      | false =>
        cases hst : s.strip with
        | false => simpa [Sentence.renderWhere, Sentence.whereToks, hc, hst, List.append_assoc] using key _ _ hfull
        | true =>
          simp only [SCond.wf, Bool.and_eq_true, decide_eq_true_eq] at hw
          obtain ⟨⟨⟨⟨hg', _⟩, _⟩, hk⟩, hlen⟩ := hw
          have hne : kids ≠ [] := by intro e; subst e; simp at hlen
          have := lex_members isOr g kids hk hne _ _ ht hg'
          simpa [Sentence.renderWhere, Sentence.whereToks, hc, hst, List.append_assoc] using key _ _ this

/-- Tokenizing a well-formed sentence yields exactly its words. -/
theorem lex_sentence (s : Sentence) (hwf : s.wf = true) : lex s.render = .ok s.toks := by
  have hw := Lx_where s hwf
  simp only [Sentence.wf, Bool.and_eq_true] at hwf
  obtain ⟨⟨⟨⟨⟨hg, hp⟩, _⟩, _⟩, _⟩, _⟩ := hwf
  have := lex_kw kwQuery _ _ (by decide) (Lx_gap_word s.gap s.pfx _ _ hg hp hw)
  rw [lex, Sentence.render_eq]
  simpa [Sentence.toks] using this


/-! ### Parser steps -/

section parser
variable (O : Oracle)

theorem pa_lp (cur : Frame) (outer : List Frame) (rest : List Tok) :
    parseAndOr O cur outer (kwLp :: rest) = parseAndOr O Frame.init (cur :: outer) rest := by
  have h1 : (kwLp = kwOrderby) = False := by decide
  have h2 : (kwLp = kwLimit) = False := by decide
  have h3 : (kwLp = kwOffset) = False := by decide
  rw [parseAndOr.eq_def]; simp [h1, h2, h3]

theorem pa_rp_pop (cur p : Frame) (outer : List Frame) (rest : List Tok) :
    parseAndOr O cur (p :: outer) (kwRp :: rest) = parseAndOr O (p.add cur.finish) outer rest := by
  have h0 : (kwRp = kwLp) = False := by decide
  rw [parseAndOr.eq_def]; simp [h0]

theorem pa_not (cur : Frame) (outer : List Frame) (rest : List Tok) :
    parseAndOr O cur outer (kwNot :: rest) = parseAndOr O { cur with wrapNot := true, more := true } outer rest := by
  have h1 : (kwNot = kwOrderby) = False := by decide
  have h2 : (kwNot = kwLimit) = False := by decide
  have h3 : (kwNot = kwOffset) = False := by decide
  have h4 : (kwNot = kwLp) = False := by decide
  have h5 : (kwNot = kwRp) = False := by decide
  have h6 : (kwNot = kwAnd) = False := by decide
  have h7 : (kwNot = kwOr) = False := by decide
  rw [parseAndOr.eq_def]; simp [h1, h2, h3, h4, h5, h6, h7]

theorem pa_and (cur : Frame) (outer : List Frame) (rest : List Tok) (h : (cur.typeSet && cur.isOr) = false) :
    parseAndOr O cur outer (kwAnd :: rest) =
      parseAndOr O { cur with isOr := false, typeSet := true, more := true } outer rest := by
  have h1 : (kwAnd = kwOrderby) = False := by decide
  have h2 : (kwAnd = kwLimit) = False := by decide
  have h3 : (kwAnd = kwOffset) = False := by decide
  have h4 : (kwAnd = kwLp) = False := by decide
  have h5 : (kwAnd = kwRp) = False := by decide
  rw [parseAndOr.eq_def]; simp [h1, h2, h3, h4, h5, h]

theorem pa_or (cur : Frame) (outer : List Frame) (rest : List Tok) (h : (cur.typeSet && !cur.isOr) = false) :
    parseAndOr O cur outer (kwOr :: rest) =
      parseAndOr O { cur with isOr := true, typeSet := true, more := true } outer rest := by
  have h1 : (kwOr = kwOrderby) = False := by decide
  have h2 : (kwOr = kwLimit) = False := by decide
  have h3 : (kwOr = kwOffset) = False := by decide
  have h4 : (kwOr = kwLp) = False := by decide
  have h5 : (kwOr = kwRp) = False := by decide
  have h6 : (kwOr = kwAnd) = False := by decide
  rw [parseAndOr.eq_def]; simp [h1, h2, h3, h4, h5, h6, h]

theorem pa_cl_v (cur : Frame) (outer : List Frame) (key opn v : Tok) (rest : List Tok) (op : Nat)
    (hm : cur.more = true) (hk : isStructural key = false) (hl : lookupOp opn = some op) (hn : opn ≠ kwNot)
    (he : op ≠ opExists) :
    parseAndOr O cur outer (key :: opn :: v :: rest) = parseAndOr O (cur.add (mkWhere O key op (.str v))) outer rest := by
  simp only [isStructural, Bool.or_eq_false_iff, decide_eq_false_iff_not] at hk
  obtain ⟨⟨⟨⟨k1, k2⟩, k3⟩, k4⟩, k5⟩ := hk
  rw [parseAndOr.eq_def]; simp [hm, k1, k2, k3, k4, k5, hn, hl, he]

theorem pa_cl_e (cur : Frame) (outer : List Frame) (key opn : Tok) (rest : List Tok)
    (hm : cur.more = true) (hk : isStructural key = false) (hl : lookupOp opn = some opExists) (hn : opn ≠ kwNot) :
    parseAndOr O cur outer (key :: opn :: rest) = parseAndOr O (cur.add (mkWhere O key opExists .nil)) outer rest := by
  simp only [isStructural, Bool.or_eq_false_iff, decide_eq_false_iff_not] at hk
  obtain ⟨⟨⟨⟨k1, k2⟩, k3⟩, k4⟩, k5⟩ := hk
  rw [parseAndOr.eq_def]; simp [hm, k1, k2, k3, k4, k5, hn, hl]

theorem pa_cl_nv (cur : Frame) (outer : List Frame) (key opn v : Tok) (rest : List Tok) (op : Nat)
    (hm : cur.more = true) (hk : isStructural key = false) (hl : lookupOp opn = some op) (he : op ≠ opExists) :
    parseAndOr O cur outer (key :: kwNot :: opn :: v :: rest) =
      parseAndOr O (cur.add (.not (mkWhere O key op (.str v)))) outer rest := by
  simp only [isStructural, Bool.or_eq_false_iff, decide_eq_false_iff_not] at hk
  obtain ⟨⟨⟨⟨k1, k2⟩, k3⟩, k4⟩, k5⟩ := hk
  rw [parseAndOr.eq_def]; simp [hm, k1, k2, k3, k4, k5, hl, he]

theorem pa_cl_ne (cur : Frame) (outer : List Frame) (key opn : Tok) (rest : List Tok)
    (hm : cur.more = true) (hk : isStructural key = false) (hl : lookupOp opn = some opExists) :
    parseAndOr O cur outer (key :: kwNot :: opn :: rest) =
      parseAndOr O (cur.add (.not (mkWhere O key opExists .nil))) outer rest := by
  simp only [isStructural, Bool.or_eq_false_iff, decide_eq_false_iff_not] at hk
  obtain ⟨⟨⟨⟨k1, k2⟩, k3⟩, k4⟩, k5⟩ := hk
  rw [parseAndOr.eq_def]; simp [hm, k1, k2, k3, k4, k5, hl]

/-- The rest of the snippets lets the root condition end here. -/
def stopStart : List Tok → Bool
  | [] => true
  | t :: _ => t = kwOrderby || t = kwLimit || t = kwOffset

theorem pa_stop (cur : Frame) (tail : List Tok) (hm : cur.more = false) (ht : stopStart tail = true) :
    parseAndOr O cur [] tail = .ok (cur.finish, tail) := by
  cases tail with
  | nil => rw [parseAndOr.eq_def]; simp [hm]
  | cons t r =>
    simp only [stopStart, Bool.or_eq_true, decide_eq_true_eq] at ht
    rw [parseAndOr.eq_def]
    rcases ht with (h | h) | h <;> simp [hm, h]

theorem lookupOp_not : lookupOp kwNot = none := by decide


theorem condList_length (cs : List SCond) : (condList O cs).length = cs.length := by
  induction cs with
  | nil => rfl
  | cons c r ih => simp [condList, ih]

/-- The frame after the members `cs` of a group have been parsed into `f`. -/
def fAfter (f : Frame) (isOr : Bool) (cs : List SCond) : Frame :=
  { isOr := if 2 ≤ cs.length then isOr else f.isOr
    typeSet := f.typeSet || decide (2 ≤ cs.length)
    wrapNot := false
    more := false
    conds := f.conds ++ condList O cs }

theorem add_plain (f : Frame) (c : Cond) (hw : f.wrapNot = false) :
    f.add c = { f with conds := f.conds ++ [c], wrapNot := false, more := false } := by
  simp [Frame.add, hw]

theorem add_wrapped (f : Frame) (c : Cond) (hw : f.wrapNot = false) :
    ({ f with wrapNot := true, more := true } : Frame).add c = f.add (.not c) := by
  simp [Frame.add, hw]

theorem pa_clause (g : List Char) (key : Word) (opn : Tok) (neg : Nat) (val : Option Word)
    (hwf : (SCond.clause g key opn neg val).wf = true) (cur : Frame) (outer : List Frame) (rest : List Tok)
    (hm : cur.more = true) (hw : cur.wrapNot = false) :
    parseAndOr O cur outer ((SCond.clause g key opn neg val).toks ++ rest) =
      parseAndOr O (cur.add ((SCond.clause g key opn neg val).cond O)) outer rest := by
  simp only [SCond.wf, Bool.and_eq_true, decide_eq_true_eq, Bool.not_eq_true'] at hwf
  obtain ⟨⟨⟨⟨_, _⟩, hkey⟩, hneg⟩, hop⟩ := hwf
  cases hl : lookupOp opn with
  | none => simp [hl] at hop
  | some op =>
    have hn : opn ≠ kwNot := by intro e; rw [e, lookupOp_not] at hl; cases hl
    simp only [hl] at hop
    have hneg3 : neg = 0 ∨ neg = 1 ∨ neg = 2 := by omega
    cases val with
    | none =>
      have hop : op = opExists := by simpa using hop
      subst hop
      rcases hneg3 with rfl | rfl | rfl
      · simpa [SCond.toks, SCond.cond, hl] using pa_cl_e O cur outer key.text opn rest hm hkey hl hn
      · simpa [SCond.toks, SCond.cond, hl] using pa_cl_ne O cur outer key.text opn rest hm hkey hl
      · have := pa_cl_e O { cur with wrapNot := true, more := true } outer key.text opn rest rfl hkey hl hn
        rw [add_wrapped _ _ hw] at this
        simpa [SCond.toks, SCond.cond, hl, pa_not] using this
    | some v =>
      simp only [Bool.and_eq_true, decide_eq_true_eq] at hop
      have he : op ≠ opExists := by simpa using hop.1
      rcases hneg3 with rfl | rfl | rfl
      · simpa [SCond.toks, SCond.cond, hl] using pa_cl_v O cur outer key.text opn v.text rest op hm hkey hl hn he
      · simpa [SCond.toks, SCond.cond, hl] using pa_cl_nv O cur outer key.text opn v.text rest op hm hkey hl he
      · have := pa_cl_v O { cur with wrapNot := true, more := true } outer key.text opn v.text rest op rfl hkey hl hn he
        rw [add_wrapped _ _ hw] at this
        simpa [SCond.toks, SCond.cond, hl, pa_not] using this

theorem membersToks_cons2 (conn : Tok) (c c' : SCond) (cs : List SCond) :
    membersToks conn (c :: c' :: cs) = c.toks ++ conn :: membersToks conn (c' :: cs) := by
  simp [membersToks]

theorem finish_group (isOr : Bool) (cs : List SCond) (h : 2 ≤ cs.length) :
    (fAfter O Frame.init isOr cs).finish = if isOr then Cond.or (condList O cs) else Cond.and (condList O cs) := by
  have hl := condList_length O cs
  simp only [fAfter, Frame.init, h, if_true, List.nil_append, Frame.finish]
  match hc : condList O cs, hl with
  | [], hl => simp at hl; omega
  | [c], hl => simp at hl; omega
  | a :: b :: r, _ => rfl

mutual
theorem pa_scond : (c : SCond) → c.wf = true → ∀ (cur : Frame) (outer : List Frame) (rest : List Tok),
    cur.more = true → cur.wrapNot = false →
    parseAndOr O cur outer (c.toks ++ rest) = parseAndOr O (cur.add (c.cond O)) outer rest
  | .clause g key opn neg val, hwf, cur, outer, rest, hm, hw => pa_clause O g key opn neg val hwf cur outer rest hm hw
  | .group isOr g p ng neg kids, hwf, cur, outer, rest, hm, hw => by
    simp only [SCond.wf, Bool.and_eq_true, decide_eq_true_eq] at hwf
    obtain ⟨⟨⟨⟨_, _⟩, _⟩, hk⟩, hlen⟩ := hwf
    have hne : kids ≠ [] := by intro e; subst e; simp at hlen
    have hfin := finish_group O isOr kids hlen
    cases neg with
    | false =>
      have h1 := pa_members isOr kids hk hne Frame.init (cur :: outer) (kwRp :: rest) rfl rfl (by simp [Frame.init])
      simp only [SCond.toks, SCond.cond, Bool.false_eq_true, if_false, List.nil_append, List.cons_append,
        List.append_assoc, List.singleton_append]
      rw [pa_lp, h1, pa_rp_pop, hfin]
    | true =>
      have h1 := pa_members isOr kids hk hne Frame.init ({ cur with wrapNot := true, more := true } :: outer)
        (kwRp :: rest) rfl rfl (by simp [Frame.init])
      simp only [SCond.toks, SCond.cond, if_true, List.cons_append, List.nil_append,
        List.append_assoc, List.singleton_append]
      rw [pa_not, pa_lp, h1, pa_rp_pop, hfin, add_wrapped _ _ hw]
theorem pa_members (isOr : Bool) : (cs : List SCond) → kidsWf cs = true → cs ≠ [] →
    ∀ (f : Frame) (outer : List Frame) (tail : List Tok), f.more = true → f.wrapNot = false →
    (f.typeSet = true → f.isOr = isOr) →
    parseAndOr O f outer (membersToks (connective isOr) cs ++ tail) = parseAndOr O (fAfter O f isOr cs) outer tail
  | [], _, hne, _, _, _, _, _, _ => absurd rfl hne
  | [c], hk, _, f, outer, tail, hm, hw, _ => by
    simp only [kidsWf, Bool.and_eq_true] at hk
    have := pa_scond c hk.1 f outer tail hm hw
    simp only [membersToks]
    rw [this, add_plain f _ hw]
    simp [fAfter, condList]
  | c :: c' :: cs, hk, _, f, outer, tail, hm, hw, hts => by
    simp only [kidsWf, Bool.and_eq_true] at hk
    have hk' : kidsWf (c' :: cs) = true := by simp [kidsWf, hk.2.1, hk.2.2]
    have h1 := pa_scond c hk.1 f outer (connective isOr :: (membersToks (connective isOr) (c' :: cs) ++ tail)) hm hw
    rw [membersToks_cons2, List.append_assoc, List.cons_append, h1, add_plain f _ hw]
    cases isOr with
    | false =>
      have hc : (f.typeSet && f.isOr) = false := by
        cases hts' : f.typeSet with
        | false => rfl
        | true => simp [hts hts']
      refine (pa_and O _ outer _ (by simpa using hc)).trans ?_
      refine (pa_members false (c' :: cs) hk' (by simp) _ outer tail rfl rfl (by simp)).trans ?_
      simp [fAfter, condList, List.append_assoc]
    | true =>
      have hc : (f.typeSet && !f.isOr) = false := by
        cases hts' : f.typeSet with
        | false => rfl
        | true => simp [hts hts']
      refine (pa_or O _ outer _ (by simpa using hc)).trans ?_
      refine (pa_members true (c' :: cs) hk' (by simp) _ outer tail rfl rfl (by simp)).trans ?_
      simp [fAfter, condList, List.append_assoc]
end


/-! ### The clause loop of ParseQuery -/

/-- orderby / limit / offset of the sentence written into `q`. -/
def Sentence.applyTail (s : Sentence) (q : Query) : Query :=
  { q with
    orderBy := match s.orderby with | none => q.orderBy | some w => w.text
    limit := match s.limit with | none => q.limit | some t => ((parseUint31 t).getD 0 : Nat)
    offset := match s.offset with | none => q.offset | some t => ((parseUint31 t).getD 0 : Nat) }

theorem kw_ne1 : (kwOrderby = kwWhere) = False := by decide
theorem kw_ne2 : (kwLimit = kwWhere) = False := by decide
theorem kw_ne3 : (kwLimit = kwOrderby) = False := by decide
theorem kw_ne4 : (kwOffset = kwWhere) = False := by decide
theorem kw_ne5 : (kwOffset = kwOrderby) = False := by decide
theorem kw_ne6 : (kwOffset = kwLimit) = False := by decide

theorem stop_tail (s : Sentence) : stopStart s.tailToks = true := by
  obtain ⟨g, p, w, ob, l, o, st⟩ := s
  cases ob <;> cases l <;> cases o <;> simp [Sentence.tailToks, stopStart]

theorem clausesPost_tail (s : Sentence) (hwf : s.wf = true) (q : Query)
    (h1 : q.orderBy = []) (h2 : q.limit = 0) (h3 : q.offset = 0) :
    clausesPost q s.tailToks = .ok (s.applyTail q) := by
  simp only [Sentence.wf, Bool.and_eq_true] at hwf
  obtain ⟨⟨⟨⟨⟨_, _⟩, _⟩, _⟩, hlim⟩, hoff⟩ := hwf
  obtain ⟨g, p, w, ob, l, o, st⟩ := s
  obtain ⟨qa, qb, qc, qd, qe, qf⟩ := q
  simp only at h1 h2 h3 hlim hoff
  subst h1 h2 h3
  cases ob <;> cases l <;> cases o <;>
    simp only [Option.isSome_iff_exists] at hlim hoff <;>
    (try obtain ⟨n, hn⟩ := hlim) <;> (try obtain ⟨m, hm⟩ := hoff) <;>
    simp [Sentence.tailToks, Sentence.applyTail, clausesPost, kw_ne1, kw_ne2, kw_ne3, kw_ne4, kw_ne5, kw_ne6, *]

theorem clauses_tail (s : Sentence) (hwf : s.wf = true) (q : Query)
    (h1 : q.orderBy = []) (h2 : q.limit = 0) (h3 : q.offset = 0) :
    clauses O q s.tailToks = .ok (s.applyTail q) := by
  simp only [Sentence.wf, Bool.and_eq_true] at hwf
  obtain ⟨⟨⟨⟨⟨_, _⟩, _⟩, _⟩, hlim⟩, hoff⟩ := hwf
  obtain ⟨g, p, w, ob, l, o, st⟩ := s
  obtain ⟨qa, qb, qc, qd, qe, qf⟩ := q
  simp only at h1 h2 h3 hlim hoff
  subst h1 h2 h3
  cases ob <;> cases l <;> cases o <;>
    simp only [Option.isSome_iff_exists] at hlim hoff <;>
    (try obtain ⟨n, hn⟩ := hlim) <;> (try obtain ⟨m, hm⟩ := hoff) <;>
    simp [Sentence.tailToks, Sentence.applyTail, clauses, kw_ne1, kw_ne2, kw_ne3, kw_ne4, kw_ne5, kw_ne6, *]

theorem parse_where (s : Sentence) (hwf : s.wf = true) (c : SCond) (hc : s.where_ = some c) :
    ∃ body, s.whereToks = kwWhere :: body ∧
      parseAndOr O Frame.init [] (body ++ s.tailToks) = .ok (c.cond O, s.tailToks) := by
  have hst := stop_tail s
  simp only [Sentence.wf, Bool.and_eq_true] at hwf
  obtain ⟨⟨⟨⟨⟨_, _⟩, hw⟩, _⟩, _⟩, _⟩ := hwf
  simp only [hc] at hw
  have single : parseAndOr O Frame.init [] (c.toks ++ s.tailToks) = .ok (c.cond O, s.tailToks) := by
    rw [pa_scond O c hw Frame.init [] s.tailToks rfl rfl, pa_stop O _ _ (by simp [Frame.add, Frame.init]) hst]
    simp [Frame.add, Frame.init, Frame.finish]
  cases c with
  | clause g k o n v => exact ⟨_, by simp [Sentence.whereToks, hc], single⟩
  | group isOr g p ng neg kids =>
    cases neg with
    | true => exact ⟨_, by simp [Sentence.whereToks, hc], single⟩
    | false =>
      cases hs : s.strip with
      | false => exact ⟨_, by simp [Sentence.whereToks, hc, hs], single⟩
      | true =>
        refine ⟨membersToks (connective isOr) kids, by simp [Sentence.whereToks, hc, hs], ?_⟩
        simp only [SCond.wf, Bool.and_eq_true, decide_eq_true_eq] at hw
        obtain ⟨⟨⟨⟨_, _⟩, _⟩, hk⟩, hlen⟩ := hw
        have hne : kids ≠ [] := by intro e; subst e; simp at hlen
        rw [pa_members O isOr kids hk hne Frame.init [] s.tailToks rfl rfl (by simp [Frame.init]),
          pa_stop O _ _ (by simp [fAfter]) hst, finish_group O isOr kids hlen]
        cases isOr <;> simp [SCond.cond]

theorem query_eq (s : Sentence) :
    s.query O = s.applyTail { Query.new s.pfx.text with where_ := s.where_.map (·.cond O) } := by
  obtain ⟨g, p, w, ob, l, o, st⟩ := s
  cases ob <;> cases l <;> cases o <;> simp [Sentence.query, Sentence.applyTail, Query.new]

/-- Parsing the words of a well-formed sentence yields the query the grammar assigns to it (then `Check`). -/
theorem parseToks_sentence (s : Sentence) (hwf : s.wf = true) : parseToks O s.toks = (s.query O).check := by
  have hq : (kwQuery ≠ kwQuery) = False := by simp
  rw [query_eq]
  cases hc : s.where_ with
  | none =>
    have : s.whereToks = [] := by simp [Sentence.whereToks, hc]
    simp only [Sentence.toks, this, List.nil_append, parseToks, hq, if_false]
    rw [clauses_tail O s hwf _ rfl rfl rfl]
    simp [Query.new]
  | some c =>
    obtain ⟨body, hb, hp⟩ := parse_where O s hwf c hc
    simp only [Sentence.toks, hb, List.cons_append, parseToks, hq, if_false]
    rw [clauses.eq_def]
    simp only [if_true, hp]
    rw [clausesPost_tail s hwf _ rfl rfl rfl]
    simp [Query.new]

end parser

end PB.Query
