import PB.Model.Modules
import PB.Spec.Modules
import PBProofs.Lemmas.ModulesClosure
set_option linter.unusedSimpArgs false
set_option linter.unusedVariables false
/-!
Helper lemmas for C01 (module lifecycle): runs, step inversion, the structural invariant.
-/
namespace PB.Modules
open PB.Gen.Lifecycle

attribute [local simp] statusDead statusPreparing statusOffline statusStopping statusStarting statusOnline
  readyWaiting readyReady readyNothingToDo prepOwnSkip prepDepWaits startOwnBlocked startOwnSkip startDepWaits
  stopOwnSkip stopRevWaits prepLaunch prepDone startLaunch startDone startFailed stopLaunch stopDone

/-! ### Runs -/

/-- `Runs s0 tr s`: the history `tr` leads from `s0` to `s` (snoc-style, for induction on the last step). -/
inductive Runs (s0 : St) : List Ev → St → Prop
  | nil : Runs s0 [] s0
  | snoc {tr : List Ev} {s : St} {e : Ev} {s' : St} : Runs s0 tr s → step s e = some s' → Runs s0 (tr ++ [e]) s'

theorem Runs.cons {s0 s1 s : St} {e : Ev} {tr : List Ev} (h0 : step s0 e = some s1) (h : Runs s1 tr s) :
    Runs s0 (e :: tr) s := by
  induction h with
  | nil => exact Runs.snoc (tr := []) Runs.nil h0
  | snoc _ hs ih => exact Runs.snoc (tr := e :: _) ih hs

theorem runs_of_run {s0 s : St} {tr : List Ev} (h : run s0 tr = some s) : Runs s0 tr s := by
  induction tr generalizing s0 with
  | nil => simp [run] at h; subst h; exact Runs.nil
  | cons e es ih =>
    simp only [run] at h
    split at h
    · rename_i s1 h1; exact Runs.cons h1 (ih h)
    · cases h

/-! ### Step inversion -/

theorem stepBeg_some {s s' : St} {k : Kind} {m : Nat} (h : stepBeg s k m = some s') :
    m < s.n ∧ passKind s.pc = some k ∧ ready s k m = readyReady ∧
    s' = { s with status := set s.status m (launchStatus k), execCnt := s.execCnt + 1, running := m :: s.running } := by
  unfold stepBeg at h
  split at h
  · rename_i hg; cases h; exact ⟨hg.1, hg.2.1, hg.2.2, rfl⟩
  · cases h

theorem stepFin_some {s s' : St} {k : Kind} {m : Nat} {ok : Bool} (h : stepFin s k m ok = some s') :
    passKind s.pc = some k ∧ m ∈ s.running ∧ s.status m = launchStatus k ∧
    s' = { s with status := set s.status m (finStatus (s.status m) k ok), reportCnt := s.reportCnt + 1,
                  running := s.running.erase m, failed := s.failed || !ok } := by
  unfold stepFin at h
  split at h
  · rename_i hg; cases h; exact ⟨hg.1, hg.2.1, hg.2.2, rfl⟩
  · cases h

theorem stepRet_some {s s' : St} {a : Api} {ok : Bool} (h : stepRet s a ok = some s') :
    s.pc = .done a ok ∧ s' = { s with pc := .idle } := by
  unfold stepRet at h
  split at h
  · rename_i hg; cases h; exact ⟨hg, rfl⟩
  · cases h

theorem stepEnable_some {s s' : St} {m : Nat} {v : Bool} (h : stepEnable s m v = some s') :
    s.pc = .idle ∧ m < s.n ∧ s' = { s with enabled := set s.enabled m v } := by
  unfold stepEnable at h
  split at h
  · rename_i hg; cases h; exact ⟨hg.1, hg.2, rfl⟩
  · cases h

theorem stepSetGlob_some {s s' : St} {g : Glob} {i : Nat} (h : stepSetGlob s g i = some s') :
    s.pc = .idle ∧ ∃ f, s' = { s with gfn := f } := by
  unfold stepSetGlob at h
  split at h
  · cases h
  · rename_i hpc; simp at hpc
    refine ⟨hpc, ?_⟩
    cases g <;> simp only at h <;> (try split at h) <;> cases h <;> exact ⟨_, rfl⟩

theorem stepGlob_some {s s' : St} {g : Glob} {i : Nat} {ok : Bool} (h : stepGlob s g i ok = some s') :
    s.pc = .glob g ∧ s.gfn g = some i ∧ s' = globNext s g ok := by
  unfold stepGlob at h
  split at h
  · rename_i hg; cases h; exact ⟨hg.1, hg.2, rfl⟩
  · cases h

@[simp] theorem set_same {α : Type} (f : Nat → α) (i : Nat) (v : α) : set f i v i = v := by simp [set]
theorem set_other {α : Type} (f : Nat → α) {i j : Nat} (v : α) (h : j ≠ i) : set f i v j = f j := by simp [set, h]

theorem launchStatus_ne_zero (k : Kind) : launchStatus k ≠ 0 := by cases k <;> simp [launchStatus]

/-! ### The ready verdicts, characterised -/

def wanted (s : St) (m : Nat) : Bool := !s.mgmt || s.enabled m || s.asDep m

theorem readyToPrep_ready {s : St} {m : Nat} :
    readyToPrep s m = readyReady ↔ s.status m = statusDead ∧ ∀ d ∈ s.deps m, statusOffline ≤ s.status d := by
  unfold readyToPrep
  split
  · rename_i h; simp at h; simp [h]
  · rename_i h; simp at h
    split
    · rename_i h2; simp at h2; obtain ⟨d, hd, hl⟩ := h2
      simp; intro _; exact ⟨d, hd, by simpa using hl⟩
    · rename_i h2; simp at h2; simp [h]; intro d hd; simpa using h2 d hd

theorem readyToPrep_waiting {s : St} {m : Nat} :
    readyToPrep s m = readyWaiting ↔ s.status m = statusDead ∧ ∃ d ∈ s.deps m, s.status d < statusOffline := by
  unfold readyToPrep
  split
  · rename_i h; simp at h; simp [h]
  · rename_i h; simp at h
    split
    · rename_i h2; simp at h2; obtain ⟨d, hd, hl⟩ := h2; simp [h]; exact ⟨d, hd, by simpa using hl⟩
    · rename_i h2; simp at h2; simp; intro _ d hd; simpa using h2 d hd

theorem wanted_iff {s : St} {m : Nat} : (s.mgmt && !(s.enabled m) && !(s.asDep m)) = true ↔ wanted s m = false := by
  unfold wanted; cases s.mgmt <;> cases s.enabled m <;> cases s.asDep m <;> simp

theorem readyToStart_ready {s : St} {m : Nat} :
    readyToStart s m = readyReady ↔
      wanted s m = true ∧ s.status m = statusOffline ∧ ∀ d ∈ s.deps m, statusOnline ≤ s.status d := by
  unfold readyToStart
  simp only [wanted_iff]
  split
  · rename_i h; simp [h]
  · rename_i h; simp at h
    split
    · rename_i h0; simp at h0; simp; intro _ h2; omega
    · rename_i h0; simp at h0
      split
      · rename_i h1; simp at h1; simp; intro _ h2; omega
      · rename_i h1; simp at h1
        split
        · rename_i h2; simp at h2; obtain ⟨d, hd, hl⟩ := h2
          simp; intro _ _; exact ⟨d, hd, by simpa using hl⟩
        · rename_i h2; simp at h2; simp [h, h1]; intro d hd; simpa using h2 d hd

theorem readyToStart_waiting {s : St} {m : Nat} :
    readyToStart s m = readyWaiting ↔
      wanted s m = true ∧ (s.status m < statusOffline ∨ (s.status m = statusOffline ∧ ∃ d ∈ s.deps m, s.status d < statusOnline)) := by
  unfold readyToStart
  simp only [wanted_iff]
  split
  · rename_i h; simp [h]
  · rename_i h; simp at h
    split
    · rename_i h0; simp at h0; simp [h]; exact Or.inl h0
    · rename_i h0; simp at h0
      split
      · rename_i h1; simp at h1; simp; intro _; omega
      · rename_i h1; simp at h1
        split
        · rename_i h2; simp at h2; obtain ⟨d, hd, hl⟩ := h2
          simp [h, h1]; exact ⟨d, hd, by simpa using hl⟩
        · rename_i h2; simp at h2; simp [h1]; intro _ d hd; simpa using h2 d hd

theorem readyToStop_ready {s : St} {m : Nat} :
    readyToStop s m = readyReady ↔
      (s.mgmt && !s.shutdown && (s.enabled m || s.asDep m)) = false ∧ s.status m = statusOnline ∧
      ∀ r ∈ revDeps s m, s.status r ≤ statusOffline := by
  unfold readyToStop
  split
  · rename_i h; simp [h]
  · rename_i h
    have h' : (s.mgmt && !s.shutdown && (s.enabled m || s.asDep m)) = false := by simpa using h
    split
    · rename_i h1; simp at h1; simp; intro _ h2; omega
    · rename_i h1; simp at h1
      split
      · rename_i h2; simp at h2; obtain ⟨r, hr, hl⟩ := h2
        simp; intro _ _; exact ⟨r, hr, by simpa using hl⟩
      · rename_i h2; simp at h2; simp only [h', h1, true_and]; simp; intro r hr; simpa using h2 r hr

theorem mem_revDeps {s : St} {d r : Nat} : r ∈ revDeps s d ↔ r < s.n ∧ d ∈ s.deps r := by
  simp [revDeps]

/-! ### Structural invariant -/

structure Inv1 (n : Nat) (deps : Nat → List Nat) (mgmt : Bool) (s : St) : Prop where
  hn : s.n = n
  hdeps : s.deps = deps
  hmgmt : s.mgmt = mgmt
  run_lt : ∀ m ∈ s.running, m < s.n
  run_status : ∀ m ∈ s.running, ∃ k, passKind s.pc = some k ∧ s.status m = launchStatus k
  starting_run : ∀ m, s.status m = statusStarting → m ∈ s.running
  stopping_run : ∀ m, s.status m = statusStopping → m ∈ s.running
  nodup : s.running.Nodup
  cnt : s.execCnt = s.reportCnt + s.running.length
  idle_run : passKind s.pc = none → s.running = []
  prep_low : s.pc = .prep → ∀ m, s.status m ≤ statusOffline
  fresh : (s.locked = false ∨ s.pc = .glob .prep) → ∀ m, s.status m = statusDead
  stopX_shutdown : (s.pc = .stopX ∨ s.pc = .glob .shutdown) → s.shutdown = true
  pass_locked : (s.pc = .prep ∨ s.pc = .startS ∨ s.pc = .glob .prep ∨ s.pc = .glob .cmd ∨ ∃ ok, s.pc = .done .start ok) →
    s.locked = true
  range : ∀ m, s.status m ≤ statusOnline
  out_dead : ∀ m, s.n ≤ m → s.status m = statusDead

theorem inv1_init (n : Nat) (deps : Nat → List Nat) (mgmt : Bool) : Inv1 n deps mgmt (init n deps mgmt) := by
  constructor <;> simp [init, passKind]

theorem passKind_glob (g : Glob) : passKind (.glob g) = none := rfl

/-- Nothing is ready to be launched while every module is Dead, outside the prep pass. -/
theorem not_ready_of_dead {s : St} {k : Kind} {m : Nat} (hd : ∀ x, s.status x = statusDead)
    (hr : ready s k m = readyReady) : k = .prep := by
  cases k
  · rfl
  · have := (readyToStart_ready.mp hr).2.1; simp [hd m] at this
  · have := (readyToStop_ready.mp hr).2.1; simp [hd m] at this

theorem inv1_beg {n deps mgmt} {s s' : St} {k : Kind} {m : Nat} (hi : Inv1 n deps mgmt s)
    (h : stepBeg s k m = some s') : Inv1 n deps mgmt s' := by
  obtain ⟨hm, hk, hr, rfl⟩ := stepBeg_some h
  have hnotrun : m ∉ s.running := by
    intro hmem
    obtain ⟨k', hk', hst⟩ := hi.run_status m hmem
    rw [hk] at hk'; cases hk'
    cases k <;> simp [ready, readyToPrep, readyToStart, readyToStop, launchStatus] at hr hst <;> simp [hst] at hr
  constructor
  · exact hi.hn
  · exact hi.hdeps
  · exact hi.hmgmt
  · intro x hx; simp at hx; rcases hx with rfl | hx
    · exact hm
    · exact hi.run_lt x hx
  · intro x hx; simp at hx
    by_cases hxm : x = m
    · subst hxm; exact ⟨k, hk, by simp⟩
    · rcases hx with rfl | hx
      · exact absurd rfl hxm
      · obtain ⟨k', hk', hst⟩ := hi.run_status x hx
        exact ⟨k', hk', by simp [set_other _ _ hxm, hst]⟩
  · intro x hx; simp
    by_cases hxm : x = m
    · exact Or.inl hxm
    · simp [set_other _ _ hxm] at hx; exact Or.inr (hi.starting_run x hx)
  · intro x hx; simp
    by_cases hxm : x = m
    · exact Or.inl hxm
    · simp [set_other _ _ hxm] at hx; exact Or.inr (hi.stopping_run x hx)
  · simp; exact ⟨hnotrun, hi.nodup⟩
  · simp; have := hi.cnt; omega
  · intro hp; simp [hk] at hp
  · intro hp x
    simp at hp
    by_cases hxm : x = m
    · subst hxm
      rw [hp] at hk; simp [passKind] at hk; subst hk; simp [launchStatus]
    · simp [set_other _ _ hxm]; exact hi.prep_low hp x
  · -- before Start (and while the global prep function is due) nothing can be launched
    intro hp; exfalso
    simp at hp
    rcases hp with hp | hp
    · have hd := hi.fresh (Or.inl hp)
      have hkp := not_ready_of_dead hd hr
      subst hkp
      have : s.locked = true := hi.pass_locked (by
        cases hpc : s.pc <;> simp [hpc, passKind] at hk ⊢)
      simp [this] at hp
    · simp [hp, passKind] at hk
  · exact hi.stopX_shutdown
  · exact hi.pass_locked
  · intro x
    by_cases hxm : x = m
    · subst hxm; cases k <;> simp [launchStatus]
    · simp [set_other _ _ hxm]; exact hi.range x
  · intro x hx
    simp at hx
    have hxm : x ≠ m := by omega
    simp [set_other _ _ hxm]; exact hi.out_dead x hx

theorem finStatus_cases (cur : Nat) (k : Kind) (ok : Bool) (h : cur = launchStatus k) :
    finStatus cur k ok = statusOffline ∨ finStatus cur k ok = statusOnline ∨ finStatus cur k ok = statusPreparing := by
  cases k <;> cases ok <;> simp [finStatus, launchStatus] at h ⊢ <;> omega

theorem inv1_fin {n deps mgmt} {s s' : St} {k : Kind} {m : Nat} {ok : Bool} (hi : Inv1 n deps mgmt s)
    (h : stepFin s k m ok = some s') : Inv1 n deps mgmt s' := by
  obtain ⟨hk, hmem, hst, rfl⟩ := stepFin_some h
  have hfs := finStatus_cases (s.status m) k ok hst
  have hmn := hi.run_lt m hmem
  constructor
  · exact hi.hn
  · exact hi.hdeps
  · exact hi.hmgmt
  · intro x hx; exact hi.run_lt x (List.mem_of_mem_erase hx)
  · intro x hx
    have hx' := (hi.nodup.mem_erase_iff).mp hx
    obtain ⟨k', hk', hst'⟩ := hi.run_status x hx'.2
    exact ⟨k', hk', by simp [set_other _ _ hx'.1, hst']⟩
  · intro x hx
    by_cases hxm : x = m
    · subst hxm; simp at hx hfs; omega
    · simp [set_other _ _ hxm] at hx
      exact (hi.nodup.mem_erase_iff).mpr ⟨hxm, hi.starting_run x hx⟩
  · intro x hx
    by_cases hxm : x = m
    · subst hxm; simp at hx hfs; omega
    · simp [set_other _ _ hxm] at hx
      exact (hi.nodup.mem_erase_iff).mpr ⟨hxm, hi.stopping_run x hx⟩
  · exact hi.nodup.erase m
  · simp [List.length_erase_of_mem hmem]
    have := hi.cnt
    have : 0 < s.running.length := List.length_pos_of_mem hmem
    omega
  · intro hp; simp [hk] at hp
  · intro hp x
    simp at hp
    have hlow := hi.prep_low hp
    by_cases hxm : x = m
    · subst hxm
      rw [hp] at hk; simp [passKind] at hk; subst hk
      cases ok <;> simp [finStatus, launchStatus] at hst ⊢ <;> omega
    · simp [set_other _ _ hxm]; exact hlow x
  · intro hp; exfalso
    simp at hp
    rcases hp with hp | hp
    · have := hi.fresh (Or.inl hp) m
      rw [hst] at this
      exact launchStatus_ne_zero k (by simpa using this)
    · simp [hp, passKind] at hk
  · exact hi.stopX_shutdown
  · exact hi.pass_locked
  · intro x
    by_cases hxm : x = m
    · subst hxm; simp at hfs ⊢; omega
    · simp [set_other _ _ hxm]; exact hi.range x
  · intro x hx
    simp at hx
    have hxm : x ≠ m := by omega
    simp [set_other _ _ hxm]; exact hi.out_dead x hx

theorem inv1_ret {n deps mgmt} {s s' : St} {a : Api} {ok : Bool} (hi : Inv1 n deps mgmt s)
    (h : stepRet s a ok = some s') : Inv1 n deps mgmt s' := by
  obtain ⟨hpc, rfl⟩ := stepRet_some h
  have hrun : s.running = [] := hi.idle_run (by simp [hpc, passKind])
  constructor
  · exact hi.hn
  · exact hi.hdeps
  · exact hi.hmgmt
  · exact hi.run_lt
  · intro x hx; simp [hrun] at hx
  · exact hi.starting_run
  · exact hi.stopping_run
  · exact hi.nodup
  · exact hi.cnt
  · intro _; exact hrun
  · intro hp; simp at hp
  · intro hp; simp at hp; exact hi.fresh (Or.inl hp)
  · intro hp; simp at hp
  · intro hp; simp at hp
  · exact hi.range
  · exact hi.out_dead

theorem inv1_enable {n deps mgmt} {s s' : St} {m : Nat} {v : Bool} (hi : Inv1 n deps mgmt s)
    (h : stepEnable s m v = some s') : Inv1 n deps mgmt s' := by
  obtain ⟨_, _, rfl⟩ := stepEnable_some h
  exact ⟨hi.hn, hi.hdeps, hi.hmgmt, hi.run_lt, hi.run_status, hi.starting_run, hi.stopping_run, hi.nodup, hi.cnt,
    hi.idle_run, hi.prep_low, hi.fresh, hi.stopX_shutdown, hi.pass_locked, hi.range, hi.out_dead⟩

theorem inv1_setGlob {n deps mgmt} {s s' : St} {g : Glob} {i : Nat} (hi : Inv1 n deps mgmt s)
    (h : stepSetGlob s g i = some s') : Inv1 n deps mgmt s' := by
  obtain ⟨_, f, rfl⟩ := stepSetGlob_some h
  exact ⟨hi.hn, hi.hdeps, hi.hmgmt, hi.run_lt, hi.run_status, hi.starting_run, hi.stopping_run, hi.nodup, hi.cnt,
    hi.idle_run, hi.prep_low, hi.fresh, hi.stopX_shutdown, hi.pass_locked, hi.range, hi.out_dead⟩

/-- Entering a pass or finishing a call: only the manager's position, the counters, the error flags, the
    dependency marks and the lock flags change, and nothing is in flight. -/
theorem inv1_move {n deps mgmt} {s s' : St} (hi : Inv1 n deps mgmt s)
    (hrun : s.running = [])
    (h1 : s'.n = s.n) (h2 : s'.deps = s.deps) (h3 : s'.mgmt = s.mgmt) (h4 : s'.status = s.status)
    (h5 : s'.running = s.running) (h6 : s'.execCnt = s'.reportCnt)
    (hlow : s'.pc = .prep → (s.pc = .prep ∨ s.locked = false ∨ s.pc = .glob .prep))
    (hfresh : (s'.locked = false ∨ s'.pc = .glob .prep) → (s.locked = false ∨ s.pc = .glob .prep))
    (hsx : (s'.pc = .stopX ∨ s'.pc = .glob .shutdown) → s'.shutdown = true)
    (hlk : (s'.pc = .prep ∨ s'.pc = .startS ∨ s'.pc = .glob .prep ∨ s'.pc = .glob .cmd ∨ ∃ ok, s'.pc = .done .start ok) →
      s'.locked = true) :
    Inv1 n deps mgmt s' := by
  constructor
  · rw [h1]; exact hi.hn
  · rw [h2]; exact hi.hdeps
  · rw [h3]; exact hi.hmgmt
  · rw [h5, hrun]; simp
  · rw [h5, hrun]; simp
  · intro x hx; rw [h4] at hx; have := hi.starting_run x hx; simp [hrun] at this
  · intro x hx; rw [h4] at hx; have := hi.stopping_run x hx; simp [hrun] at this
  · rw [h5, hrun]; simp
  · rw [h5, hrun, h6]; simp
  · intro _; rw [h5]; exact hrun
  · intro hp x; rw [h4]
    rcases hlow hp with hq | hq | hq
    · exact hi.prep_low hq x
    · rw [hi.fresh (Or.inl hq) x]; simp
    · rw [hi.fresh (Or.inr hq) x]; simp
  · intro hp; rw [h4]; exact hi.fresh (hfresh hp)
  · exact hsx
  · exact hlk
  · rw [h4]; exact hi.range
  · rw [h1, h4]; exact hi.out_dead

theorem inv1_call {n deps mgmt} {s s' : St} {a : Api} (hi : Inv1 n deps mgmt s)
    (h : stepCall s a = some s') : Inv1 n deps mgmt s' := by
  cases a with
  | start =>
    simp only [stepCall] at h
    split at h; · cases h
    rename_i hpc; simp at hpc
    have hrun : s.running = [] := hi.idle_run (by simp [hpc, passKind])
    have hcnt := hi.cnt; simp [hrun] at hcnt
    split at h
    · rename_i hlk
      cases h
      exact inv1_move hi hrun rfl rfl rfl rfl rfl hcnt (by simp) (by simp [hlk]) (by simp) (by simp [hlk])
    · rename_i hlk; simp at hlk
      split at h
      · cases h
        exact inv1_move hi hrun rfl rfl rfl rfl rfl hcnt (by simp) (by simp) (by simp) (by simp)
      · split at h
        · cases h
          exact inv1_move hi hrun rfl rfl rfl rfl rfl hcnt (by simp) (by simp [hlk]) (by simp) (by simp)
        · cases h
          exact inv1_move hi hrun rfl rfl rfl rfl rfl rfl (by simp [enterPass, hlk]) (by simp [enterPass]) (by simp [enterPass])
            (by simp [enterPass])
  | manage =>
    simp only [stepCall] at h
    split at h; · cases h
    rename_i hpc; simp at hpc
    have hrun : s.running = [] := hi.idle_run (by simp [hpc, passKind])
    have hcnt := hi.cnt; simp [hrun] at hcnt
    split at h
    · cases h; exact inv1_move hi hrun rfl rfl rfl rfl rfl hcnt (by simp) (by simp [hpc]) (by simp) (by simp)
    · split at h
      · cases h
        exact inv1_move hi hrun rfl rfl rfl rfl rfl rfl (by simp [enterPass]) (by simp [enterPass, hpc]) (by simp [enterPass])
          (by simp [enterPass])
      · split at h; · cases h
        cases h
        exact inv1_move hi hrun rfl rfl rfl rfl rfl rfl (by simp [enterPass, buildEnabledTree]) (by simp [enterPass, buildEnabledTree, hpc])
          (by simp [enterPass, buildEnabledTree]) (by simp [enterPass, buildEnabledTree])
  | shutdown =>
    simp only [stepCall] at h
    split at h; · cases h
    rename_i hpc; simp at hpc
    have hrun : s.running = [] := hi.idle_run (by simp [hpc, passKind])
    have hcnt := hi.cnt; simp [hrun] at hcnt
    split at h
    · cases h; exact inv1_move hi hrun rfl rfl rfl rfl rfl hcnt (by simp) (by simp [hpc]) (by simp) (by simp)
    · split at h
      · cases h
        exact inv1_move hi hrun rfl rfl rfl rfl rfl hcnt (by simp) (by simp [hpc]) (by simp) (by simp)
      · cases h
        exact inv1_move hi hrun rfl rfl rfl rfl rfl rfl (by simp [enterPass]) (by simp [enterPass, hpc]) (by simp [enterPass])
          (by simp [enterPass])

theorem inv1_glob {n deps mgmt} {s s' : St} {g : Glob} {i : Nat} {ok : Bool} (hi : Inv1 n deps mgmt s)
    (h : stepGlob s g i ok = some s') : Inv1 n deps mgmt s' := by
  obtain ⟨hpc, _, rfl⟩ := stepGlob_some h
  have hrun : s.running = [] := hi.idle_run (by simp [hpc, passKind])
  have hcnt := hi.cnt; simp [hrun] at hcnt
  cases g with
  | prep =>
    have hlk : s.locked = true := hi.pass_locked (Or.inr (Or.inr (Or.inl hpc)))
    cases ok
    · exact inv1_move hi hrun rfl rfl rfl rfl rfl hcnt (by simp [globNext]) (by simp [globNext, hlk]) (by simp [globNext])
        (by simp [globNext, hlk])
    · exact inv1_move hi hrun rfl rfl rfl rfl rfl rfl (by simp [globNext, enterPass, hpc]) (by simp [globNext, enterPass, hlk])
        (by simp [globNext, enterPass]) (by simp [globNext, enterPass, hlk])
  | shutdown =>
    have hsd : s.shutdown = true := hi.stopX_shutdown (Or.inr hpc)
    exact inv1_move hi hrun rfl rfl rfl rfl rfl rfl (by simp [globNext, enterPass]) (by simp [globNext, enterPass, hpc])
      (by simp [globNext, enterPass, hsd]) (by simp [globNext, enterPass])
  | cmd =>
    have hlk : s.locked = true := hi.pass_locked (Or.inr (Or.inr (Or.inr (Or.inl hpc))))
    exact inv1_move hi hrun rfl rfl rfl rfl rfl hcnt (by simp [globNext]) (by simp [globNext, hlk]) (by simp [globNext])
      (by simp [globNext, hlk])

theorem passEnd_running {n deps mgmt} {s s' : St} (hi : Inv1 n deps mgmt s) (h : stepPassEnd s = some s') :
    s.running = [] ∧ s.execCnt = s.reportCnt := by
  unfold stepPassEnd at h
  split at h; · cases h
  rename_i hc
  have := hi.cnt
  have hl : s.running.length = 0 := by omega
  exact ⟨List.eq_nil_of_length_eq_zero hl, by omega⟩

theorem stepPassEnd_frame2 {s s' : St} (h : stepPassEnd s = some s') :
    s'.pc ≠ .glob .prep ∧ s'.pc ≠ .stopX ∧ s'.pc ≠ .glob .shutdown ∧
    ((s'.pc = .glob .cmd ∨ s'.pc = .startS ∨ ∃ ok, s'.pc = .done .start ok) → (s.pc = .prep ∨ s.pc = .startS)) ∧
    (s'.execCnt = s'.reportCnt ∨ (s'.execCnt = s.execCnt ∧ s'.reportCnt = s.reportCnt)) ∧
    s'.status = s.status ∧ s'.running = s.running ∧ s'.n = s.n ∧ s'.deps = s.deps ∧ s'.mgmt = s.mgmt ∧
    s'.locked = s.locked ∧ s'.shutdown = s.shutdown ∧ s'.pc ≠ .prep := by
  unfold stepPassEnd at h
  split at h; · cases h
  cases hpc : s.pc <;> simp only [hpc] at h <;> (repeat' split at h) <;>
    first
      | (cases h; done)
      | (cases h; simp_all [enterPass, buildEnabledTree])

theorem inv1_passEnd {n deps mgmt} {s s' : St} (hi : Inv1 n deps mgmt s)
    (h : stepPassEnd s = some s') : Inv1 n deps mgmt s' := by
  obtain ⟨hrun, hcnt⟩ := passEnd_running hi h
  obtain ⟨g1, g2, g3, g4, g5, g6, g7, g8, g9, g10, g11, g12, g13⟩ := stepPassEnd_frame2 h
  have hlk : (s.pc = .prep ∨ s.pc = .startS) → s.locked = true := by
    intro hp; rcases hp with hp | hp
    · exact hi.pass_locked (Or.inl hp)
    · exact hi.pass_locked (Or.inr (Or.inl hp))
  refine inv1_move hi hrun g8 g9 g10 g6 g7 ?_ (fun hp => absurd hp g13) ?_ ?_ ?_
  · rcases g5 with g5 | ⟨g5, g5'⟩
    · exact g5
    · rw [g5, g5']; exact hcnt
  · intro hp; rw [g11] at hp
    rcases hp with hp | hp
    · exact Or.inl hp
    · exact absurd hp g1
  · intro hp; rcases hp with hp | hp
    · exact absurd hp g2
    · exact absurd hp g3
  · intro hp; rw [g11]
    rcases hp with hp | hp | hp | hp | hp
    · exact absurd hp g13
    · exact hlk (g4 (Or.inr (Or.inl hp)))
    · exact absurd hp g1
    · exact hlk (g4 (Or.inl hp))
    · exact hlk (g4 (Or.inr (Or.inr hp)))

theorem inv1_step {n deps mgmt} {s s' : St} {e : Ev} (hi : Inv1 n deps mgmt s)
    (h : step s e = some s') : Inv1 n deps mgmt s' := by
  cases e with
  | call a => exact inv1_call hi h
  | ret a ok => exact inv1_ret hi h
  | beg k m => exact inv1_beg hi h
  | fin k m ok => exact inv1_fin hi h
  | passEnd => exact inv1_passEnd hi h
  | enable m => exact inv1_enable hi h
  | disable m => exact inv1_enable hi h
  | setGlob g i => exact inv1_setGlob hi h
  | glob g i ok => exact inv1_glob hi h

theorem inv1_of_runs {n deps mgmt} {tr : List Ev} {s : St} (h : Runs (init n deps mgmt) tr s) :
    Inv1 n deps mgmt s := by
  induction h with
  | nil => exact inv1_init n deps mgmt
  | snoc _ hs ih => exact inv1_step ih hs

/-! ### Frames of the quiet steps -/

theorem stepCall_frame {s s' : St} {a : Api} (h : stepCall s a = some s') :
    s'.status = s.status ∧ s'.enabled = s.enabled ∧ s'.running = s.running ∧ s'.n = s.n ∧ s'.deps = s.deps ∧
    s'.mgmt = s.mgmt ∧ s.pc = .idle ∧ ((s'.pc = .prep ∨ s'.pc = .glob .prep) → s.locked = false) ∧
    (s.locked = true → s'.locked = true) ∧ (s'.locked = false → s.locked = false) ∧ s'.pc ≠ .glob .cmd := by
  cases a <;> simp only [stepCall] at h <;> (repeat' split at h) <;>
    first
      | (cases h; done)
      | (cases h; simp_all [enterPass, buildEnabledTree])

/-- The command-line operation is due only at the end of the prep pass. -/
theorem stepPassEnd_cmd {s s' : St} (h : stepPassEnd s = some s') (hp : s'.pc = .glob .cmd) : s.pc = .prep := by
  unfold stepPassEnd at h
  split at h; · cases h
  cases hpc : s.pc <;> simp only [hpc] at h <;> (repeat' split at h) <;>
    first
      | (cases h; done)
      | (cases h; simp_all [enterPass, buildEnabledTree])

theorem stepPassEnd_frame {s s' : St} (h : stepPassEnd s = some s') :
    s'.status = s.status ∧ s'.enabled = s.enabled ∧ s'.running = s.running ∧ s'.n = s.n ∧ s'.deps = s.deps ∧
    s'.mgmt = s.mgmt ∧ s'.pc ≠ .prep ∧ s'.locked = s.locked ∧ s'.shutdown = s.shutdown := by
  unfold stepPassEnd at h
  (repeat' split at h) <;>
    first
      | (cases h; done)
      | (cases h; simp_all [enterPass, buildEnabledTree])

/-! ### History functions under one more event -/

open PB.Modules.Spec

theorem lifeOf_snoc (tr : List Ev) (e : Ev) : lifeOf (tr ++ [e]) = lifeUpd (lifeOf tr) e := by
  simp [lifeOf, List.foldl_append]

theorem enabledOf_snoc (tr : List Ev) (e : Ev) : enabledOf (tr ++ [e]) = enabledUpd (enabledOf tr) e := by
  simp [enabledOf, List.foldl_append]

theorem prepBegun_snoc (tr : List Ev) (e : Ev) (m : Nat) :
    prepBegun (tr ++ [e]) m = prepBegun tr m + (if e = .beg .prep m then 1 else 0) := by
  simp [prepBegun, List.countP_append, List.countP_cons]

theorem prepEnded_snoc (tr : List Ev) (e : Ev) (m : Nat) :
    prepEnded (tr ++ [e]) m = prepEnded tr m + (if e = .fin .prep m true ∨ e = .fin .prep m false then 1 else 0) := by
  simp [prepEnded, List.countP_append, List.countP_cons]

theorem startsOk_snoc (tr : List Ev) (e : Ev) (m : Nat) :
    startsOk (tr ++ [e]) m = startsOk tr m + (if e = .fin .start m true then 1 else 0) := by
  simp [startsOk, List.countP_append, List.countP_cons]

theorem stopsBegun_snoc (tr : List Ev) (e : Ev) (m : Nat) :
    stopsBegun (tr ++ [e]) m = stopsBegun tr m + (if e = .beg .stop m then 1 else 0) := by
  simp [stopsBegun, List.countP_append, List.countP_cons]

theorem begun_snoc (tr : List Ev) (e : Ev) :
    begun (tr ++ [e]) = begun tr + (match e with | .beg _ _ => 1 | _ => 0) := by
  cases e <;> simp [begun, List.countP_append, List.countP_cons]

theorem ended_snoc (tr : List Ev) (e : Ev) :
    ended (tr ++ [e]) = ended tr + (match e with | .fin _ _ _ => 1 | _ => 0) := by
  cases e <;> simp [ended, List.countP_append, List.countP_cons]

theorem prepOk_snoc {tr : List Ev} {e : Ev} {m : Nat} : prepOk (tr ++ [e]) m ↔ prepOk tr m ∨ e = .fin .prep m true := by
  simp [prepOk, eq_comm]

theorem startBegun_snoc {tr : List Ev} {e : Ev} : startBegun (tr ++ [e]) ↔ startBegun tr ∨ ∃ m, e = .beg .start m := by
  simp [startBegun, eq_comm]
  constructor
  · rintro ⟨m, h | h⟩
    · exact Or.inl ⟨m, h⟩
    · exact Or.inr ⟨m, h⟩
  · rintro (⟨m, h⟩ | ⟨m, h⟩)
    · exact ⟨m, Or.inl h⟩
    · exact ⟨m, Or.inr h⟩

/-! ### History invariant -/

def lifeCode (st : Nat) : Nat :=
  if st = statusStarting then 1 else if st = statusOnline then 2 else if st = statusStopping then 3 else 0

structure Inv2 (tr : List Ev) (s : St) : Prop where
  life : ∀ m, lifeOf tr m = lifeCode (s.status m)
  prep0 : ∀ m, prepBegun tr m = 0 ↔ s.status m = statusDead
  prep1 : ∀ m, prepBegun tr m ≤ 1
  prepok : ∀ m, statusOffline ≤ s.status m → prepOk tr m
  nostart : startBegun tr → s.locked = true ∧ s.pc ≠ .prep ∧ s.pc ≠ .glob .prep ∧ s.pc ≠ .glob .cmd
  popen : ∀ m, prepBegun tr m = prepEnded tr m + (if s.pc = .prep ∧ m ∈ s.running then 1 else 0)
  cnt : ∀ m, startsOk tr m = stopsBegun tr m + (if s.status m = statusOnline then 1 else 0)
  en : ∀ m, s.enabled m = enabledOf tr m
  en_lt : ∀ m, s.enabled m = true → m < s.n
  bal : begun tr = ended tr + s.running.length
  fresh0 : (s.locked = false ∨ s.pc = .glob .prep) → begun tr = 0

theorem inv2_init (n : Nat) (deps : Nat → List Nat) (mgmt : Bool) : Inv2 [] (init n deps mgmt) := by
  constructor <;> simp [init, lifeOf, lifeCode, prepBegun, prepEnded, prepOk, startBegun, startsOk, stopsBegun, enabledOf, begun, ended]

/-- `call`, `ret`, `passEnd`, `setGlob`, `glob`: no callback event, no status change, nothing in flight. -/
theorem inv2_quiet {tr : List Ev} {s s' : St} {e : Ev} (hi : Inv2 tr s)
    (he : (∃ a, e = .call a) ∨ (∃ a ok, e = .ret a ok) ∨ e = .passEnd ∨ (∃ g i, e = .setGlob g i) ∨ (∃ g i ok, e = .glob g i ok))
    (h4 : s'.status = s.status) (h5 : s'.enabled = s.enabled) (h0 : s'.n = s.n) (hr : s.running = []) (hr' : s'.running = [])
    (hns : startBegun tr → s'.locked = true ∧ s'.pc ≠ .prep ∧ s'.pc ≠ .glob .prep ∧ s'.pc ≠ .glob .cmd)
    (hfr : (s'.locked = false ∨ s'.pc = .glob .prep) → (s.locked = false ∨ s.pc = .glob .prep)) : Inv2 (tr ++ [e]) s' := by
  have hl : lifeOf (tr ++ [e]) = lifeOf tr := by
    rw [lifeOf_snoc]; rcases he with ⟨a, rfl⟩ | ⟨a, ok, rfl⟩ | rfl | ⟨g, i, rfl⟩ | ⟨g, i, ok, rfl⟩ <;> rfl
  have hen : enabledOf (tr ++ [e]) = enabledOf tr := by
    rw [enabledOf_snoc]; rcases he with ⟨a, rfl⟩ | ⟨a, ok, rfl⟩ | rfl | ⟨g, i, rfl⟩ | ⟨g, i, ok, rfl⟩ <;> rfl
  have h1 : ∀ m, prepBegun (tr ++ [e]) m = prepBegun tr m := by
    intro m; rw [prepBegun_snoc]; rcases he with ⟨a, rfl⟩ | ⟨a, ok, rfl⟩ | rfl | ⟨g, i, rfl⟩ | ⟨g, i, ok, rfl⟩ <;> simp
  have h2 : ∀ m, prepEnded (tr ++ [e]) m = prepEnded tr m := by
    intro m; rw [prepEnded_snoc]; rcases he with ⟨a, rfl⟩ | ⟨a, ok, rfl⟩ | rfl | ⟨g, i, rfl⟩ | ⟨g, i, ok, rfl⟩ <;> simp
  have h3 : ∀ m, startsOk (tr ++ [e]) m = startsOk tr m := by
    intro m; rw [startsOk_snoc]; rcases he with ⟨a, rfl⟩ | ⟨a, ok, rfl⟩ | rfl | ⟨g, i, rfl⟩ | ⟨g, i, ok, rfl⟩ <;> simp
  have h6 : ∀ m, stopsBegun (tr ++ [e]) m = stopsBegun tr m := by
    intro m; rw [stopsBegun_snoc]; rcases he with ⟨a, rfl⟩ | ⟨a, ok, rfl⟩ | rfl | ⟨g, i, rfl⟩ | ⟨g, i, ok, rfl⟩ <;> simp
  have h7 : begun (tr ++ [e]) = begun tr := by
    rw [begun_snoc]; rcases he with ⟨a, rfl⟩ | ⟨a, ok, rfl⟩ | rfl | ⟨g, i, rfl⟩ | ⟨g, i, ok, rfl⟩ <;> simp
  have h8 : ended (tr ++ [e]) = ended tr := by
    rw [ended_snoc]; rcases he with ⟨a, rfl⟩ | ⟨a, ok, rfl⟩ | rfl | ⟨g, i, rfl⟩ | ⟨g, i, ok, rfl⟩ <;> simp
  have h9 : ∀ m, prepOk (tr ++ [e]) m ↔ prepOk tr m := by
    intro m; rw [prepOk_snoc]; rcases he with ⟨a, rfl⟩ | ⟨a, ok, rfl⟩ | rfl | ⟨g, i, rfl⟩ | ⟨g, i, ok, rfl⟩ <;> simp
  have h10 : startBegun (tr ++ [e]) ↔ startBegun tr := by
    rw [startBegun_snoc]; rcases he with ⟨a, rfl⟩ | ⟨a, ok, rfl⟩ | rfl | ⟨g, i, rfl⟩ | ⟨g, i, ok, rfl⟩ <;> simp
  constructor
  · intro m; rw [hl, h4]; exact hi.life m
  · intro m; rw [h1, h4]; exact hi.prep0 m
  · intro m; rw [h1]; exact hi.prep1 m
  · intro m hm; rw [h9]; rw [h4] at hm; exact hi.prepok m hm
  · intro hs; exact hns (h10.mp hs)
  · intro m; rw [h1, h2, hr']; have := hi.popen m; simp [hr] at this; simp [this]
  · intro m; rw [h3, h6, h4]; exact hi.cnt m
  · intro m; rw [hen, h5]; exact hi.en m
  · intro m; rw [h5, h0]; exact hi.en_lt m
  · rw [h7, h8, hr']; have := hi.bal; simp [hr] at this; simp [this]
  · intro hp; rw [h7]; exact hi.fresh0 (hfr hp)

theorem lifeCode_launch (k : Kind) : lifeCode (launchStatus k) = match k with | .prep => 0 | .start => 1 | .stop => 3 := by
  cases k <;> simp [lifeCode, launchStatus]

theorem inv2_beg {n deps mgmt} {tr : List Ev} {s s' : St} {k : Kind} {m : Nat} (h1 : Inv1 n deps mgmt s)
    (hi : Inv2 tr s) (h : stepBeg s k m = some s') : Inv2 (tr ++ [.beg k m]) s' := by
  obtain ⟨hm, hk, hr, rfl⟩ := stepBeg_some h
  have hnotrun : m ∉ s.running := by
    intro hmem
    obtain ⟨k', hk', hst⟩ := h1.run_status m hmem
    rw [hk] at hk'; cases hk'
    cases k <;> simp [ready, readyToPrep, readyToStart, readyToStop, launchStatus] at hr hst <;> simp [hst] at hr
  -- the status of m before the launch
  have hold : s.status m = (match k with | .prep => statusDead | .start => statusOffline | .stop => statusOnline) := by
    cases k
    · exact (readyToPrep_ready.mp hr).1
    · exact (readyToStart_ready.mp hr).2.1
    · exact (readyToStop_ready.mp hr).2.1
  have hpc : (s.pc = .prep ↔ k = .prep) := by
    cases hp : s.pc <;> cases k <;> simp [hp, passKind] at hk ⊢
  constructor
  · intro x
    rw [lifeOf_snoc]
    by_cases hxm : x = m
    · subst hxm
      have := hi.life x
      cases k <;> simp [lifeUpd, lifeCode, launchStatus, hold] at this ⊢ <;> exact this
    · have := hi.life x
      cases k <;> simp [lifeUpd, set_other _ _ hxm] <;> exact this
  · intro x
    rw [prepBegun_snoc]
    by_cases hxm : x = m
    · subst hxm
      have := hi.prep0 x
      cases k <;> simp [launchStatus, hold] at this ⊢ <;> omega
    · have : ¬ (Ev.beg k m = Ev.beg .prep x) := by intro he; cases he; exact hxm rfl
      simp [this, set_other _ _ hxm]; exact hi.prep0 x
  · intro x
    rw [prepBegun_snoc]
    by_cases hxm : x = m
    · subst hxm
      have := hi.prep0 x; have := hi.prep1 x
      cases k <;> simp [hold] at * <;> omega
    · have : ¬ (Ev.beg k m = Ev.beg .prep x) := by intro he; cases he; exact hxm rfl
      simp [this]; exact hi.prep1 x
  · intro x hx
    rw [prepOk_snoc]; left
    by_cases hxm : x = m
    · subst hxm
      apply hi.prepok
      cases k <;> simp [launchStatus, hold] at hx ⊢
    · simp [set_other _ _ hxm] at hx; exact hi.prepok x hx
  · intro hs
    rw [startBegun_snoc] at hs
    rcases hs with hs | ⟨x, hx⟩
    · exact hi.nostart hs
    · cases hx
      refine ⟨?_, ?_, ?_, ?_⟩
      · -- before Start nothing is ready to start
        cases hl : s.locked
        · have := not_ready_of_dead (h1.fresh (Or.inl hl)) hr; cases this
        · rfl
      · simp; intro hp; simp [hp, passKind] at hk
      · simp; intro hp; simp [hp, passKind] at hk
      · simp; intro hp; simp [hp, passKind] at hk
  · intro x
    rw [prepBegun_snoc, prepEnded_snoc]
    have := hi.popen x
    by_cases hxm : x = m
    · subst hxm
      cases k <;> simp [hpc, hnotrun] at this ⊢ <;> omega
    · have h' : ¬ (Ev.beg k m = Ev.beg .prep x) := by intro he; cases he; exact hxm rfl
      simp [h', hxm] at this ⊢; exact this
  · intro x
    rw [startsOk_snoc, stopsBegun_snoc]
    have := hi.cnt x
    by_cases hxm : x = m
    · subst hxm
      cases k <;> simp [launchStatus, hold] at this ⊢ <;> omega
    · have h' : ¬ (Ev.beg k m = Ev.beg .stop x) := by intro he; cases he; exact hxm rfl
      simp [h', set_other _ _ hxm] at this ⊢; exact this
  · intro x; rw [enabledOf_snoc]; exact hi.en x
  · exact hi.en_lt
  · rw [begun_snoc, ended_snoc]; have := hi.bal; simp; omega
  · -- nothing can be launched before Start / while the global prep function is due
    intro hp; exfalso
    simp at hp
    rcases hp with hp | hp
    · have hkp := not_ready_of_dead (h1.fresh (Or.inl hp)) hr
      subst hkp
      have : s.locked = true := h1.pass_locked (by
        cases hpc' : s.pc <;> simp [hpc', passKind] at hk ⊢)
      simp [this] at hp
    · simp [hp, passKind] at hk

theorem inv2_fin {n deps mgmt} {tr : List Ev} {s s' : St} {k : Kind} {m : Nat} {ok : Bool} (h1 : Inv1 n deps mgmt s)
    (hi : Inv2 tr s) (h : stepFin s k m ok = some s') : Inv2 (tr ++ [.fin k m ok]) s' := by
  obtain ⟨hk, hmem, hst, rfl⟩ := stepFin_some h
  have hpc : (s.pc = .prep ↔ k = .prep) := by
    cases hp : s.pc <;> cases k <;> simp [hp, passKind] at hk ⊢
  have hne : m ∉ s.running.erase m := fun hx => ((h1.nodup.mem_erase_iff).mp hx).1 rfl
  have hmem' : ∀ x, x ≠ m → (x ∈ s.running.erase m ↔ x ∈ s.running) := by
    intro x hx; rw [h1.nodup.mem_erase_iff]; simp [hx]
  constructor
  · intro x
    rw [lifeOf_snoc]
    by_cases hxm : x = m
    · subst hxm
      have := hi.life x
      cases k <;> cases ok <;> simp [lifeUpd, lifeCode, launchStatus, finStatus, hst] at this ⊢ <;> exact this
    · have := hi.life x
      cases k <;> cases ok <;> simp [lifeUpd, set_other _ _ hxm] <;> exact this
  · intro x
    rw [prepBegun_snoc]
    by_cases hxm : x = m
    · subst hxm
      have := hi.prep0 x
      cases k <;> cases ok <;> simp [launchStatus, finStatus, hst] at this ⊢ <;> omega
    · simp [set_other _ _ hxm]; exact hi.prep0 x
  · intro x; rw [prepBegun_snoc]; simp; exact hi.prep1 x
  · intro x hx
    rw [prepOk_snoc]
    by_cases hxm : x = m
    · subst hxm
      cases k <;> cases ok <;> simp [launchStatus, finStatus, hst] at hx ⊢
      all_goals first
        | (apply hi.prepok; simp [hst, launchStatus]; done)
        | (left; apply hi.prepok; simp [hst, launchStatus]; done)
    · left; simp [set_other _ _ hxm] at hx; exact hi.prepok x hx
  · intro hs
    rw [startBegun_snoc] at hs
    rcases hs with hs | ⟨x, hx⟩
    · exact hi.nostart hs
    · cases hx
  · intro x
    rw [prepBegun_snoc, prepEnded_snoc]
    have := hi.popen x
    by_cases hxm : x = m
    · subst hxm
      cases k <;> cases ok <;> simp [hpc, hne, hmem] at this ⊢ <;> omega
    · have h' : ¬ (Ev.fin k m ok = Ev.fin .prep x true) := by intro he; cases he; exact hxm rfl
      have h'' : ¬ (Ev.fin k m ok = Ev.fin .prep x false) := by intro he; cases he; exact hxm rfl
      simp [h', h'', hmem' x hxm] at this ⊢; exact this
  · intro x
    rw [startsOk_snoc, stopsBegun_snoc]
    have := hi.cnt x
    by_cases hxm : x = m
    · subst hxm
      cases k <;> cases ok <;> simp [launchStatus, finStatus, hst] at this ⊢ <;> omega
    · have h' : ¬ (Ev.fin k m ok = Ev.fin .start x true) := by intro he; cases he; exact hxm rfl
      simp [h', set_other _ _ hxm] at this ⊢; exact this
  · intro x; rw [enabledOf_snoc]; exact hi.en x
  · exact hi.en_lt
  · rw [begun_snoc, ended_snoc]
    have := hi.bal
    have hl := List.length_erase_of_mem hmem
    have : 0 < s.running.length := List.length_pos_of_mem hmem
    simp [hl]; omega
  · intro hp; exfalso
    simp at hp
    rcases hp with hp | hp
    · have := h1.fresh (Or.inl hp) m
      rw [hst] at this
      exact launchStatus_ne_zero k (by simpa using this)
    · simp [hp, passKind] at hk

theorem inv2_enable {tr : List Ev} {s s' : St} {m : Nat} {v : Bool} (hi : Inv2 tr s)
    (h : stepEnable s m v = some s') :
    Inv2 (tr ++ [if v then .enable m else .disable m]) s' := by
  obtain ⟨hpc, hm, rfl⟩ := stepEnable_some h
  have he : ∀ x, enabledOf (tr ++ [if v then Ev.enable m else Ev.disable m]) x = set (enabledOf tr) m v x := by
    intro x; rw [enabledOf_snoc]; cases v <;> simp [enabledUpd]
  constructor
  · intro x; rw [lifeOf_snoc]; cases v <;> exact hi.life x
  · intro x; rw [prepBegun_snoc]; cases v <;> simp <;> exact hi.prep0 x
  · intro x; rw [prepBegun_snoc]; cases v <;> simp <;> exact hi.prep1 x
  · intro x hx; rw [prepOk_snoc]; left; exact hi.prepok x hx
  · intro hs; rw [startBegun_snoc] at hs
    rcases hs with hs | ⟨x, hx⟩
    · exact hi.nostart hs
    · cases v <;> cases hx
  · intro x; rw [prepBegun_snoc, prepEnded_snoc]; have := hi.popen x; cases v <;> simp at this ⊢ <;> exact this
  · intro x; rw [startsOk_snoc, stopsBegun_snoc]; have := hi.cnt x; cases v <;> simp at this ⊢ <;> exact this
  · intro x; rw [he]
    by_cases hxm : x = m
    · subst hxm; simp
    · simp [set_other _ _ hxm]; exact hi.en x
  · intro x hx
    by_cases hxm : x = m
    · subst hxm; exact hm
    · simp [set_other _ _ hxm] at hx; exact hi.en_lt x hx
  · rw [begun_snoc, ended_snoc]; have := hi.bal; cases v <;> simp <;> exact this
  · intro hp; rw [begun_snoc]; have := hi.fresh0 hp; cases v <;> simp <;> exact this

theorem inv2_step {n deps mgmt} {tr : List Ev} {s s' : St} {e : Ev} (h1 : Inv1 n deps mgmt s) (hi : Inv2 tr s)
    (h : step s e = some s') : Inv2 (tr ++ [e]) s' := by
  cases e with
  | call a =>
    obtain ⟨f1, f2, f3, f4, _, _, f7, f8, f9, f10, f11⟩ := stepCall_frame h
    have hr : s.running = [] := h1.idle_run (by simp [f7, passKind])
    refine inv2_quiet hi (Or.inl ⟨a, rfl⟩) f1 f2 f4 hr (by rw [f3]; exact hr) ?_ ?_
    · intro hs
      have := hi.nostart hs
      refine ⟨f9 this.1, ?_, ?_, f11⟩
      · intro hp; have := f8 (Or.inl hp); simp_all
      · intro hp; have := f8 (Or.inr hp); simp_all
    · intro hp
      rcases hp with hp | hp
      · exact Or.inl (f10 hp)
      · exact Or.inl (f8 (Or.inr hp))
  | ret a ok =>
    obtain ⟨hpc, rfl⟩ := stepRet_some h
    have hr : s.running = [] := h1.idle_run (by simp [hpc, passKind])
    refine inv2_quiet hi (Or.inr (Or.inl ⟨a, ok, rfl⟩)) rfl rfl rfl hr hr ?_ ?_
    · intro hs; exact ⟨(hi.nostart hs).1, by simp, by simp, by simp⟩
    · intro hp; simp at hp; exact Or.inl hp
  | beg k m => exact inv2_beg h1 hi h
  | fin k m ok => exact inv2_fin h1 hi h
  | passEnd =>
    obtain ⟨hr, _⟩ := passEnd_running h1 h
    obtain ⟨g1, g2, g3, g4, g5, g6, g7, g8, g9, g10, g11, g12, g13⟩ := stepPassEnd_frame2 h
    obtain ⟨_, f2, _⟩ := stepPassEnd_frame h
    refine inv2_quiet hi (Or.inr (Or.inr (Or.inl rfl))) g6 f2 g8 hr (by rw [g7]; exact hr) ?_ ?_
    · intro hs
      have hn := hi.nostart hs
      refine ⟨by rw [g11]; exact hn.1, g13, g1, ?_⟩
      intro hp
      rcases g4 (Or.inl hp) with hq | hq
      · exact hn.2.1 hq
      · -- from the start pass of Start the command-line operation is never reached
        have := stepPassEnd_cmd h hp
        exact hn.2.1 this
    · intro hp; rw [g11] at hp
      rcases hp with hp | hp
      · exact Or.inl hp
      · exact absurd hp g1
  | enable m => exact inv2_enable (v := true) hi h
  | disable m => exact inv2_enable (v := false) hi h
  | setGlob g i =>
    obtain ⟨hpc, f, rfl⟩ := stepSetGlob_some h
    have hr : s.running = [] := h1.idle_run (by simp [hpc, passKind])
    refine inv2_quiet hi (Or.inr (Or.inr (Or.inr (Or.inl ⟨g, i, rfl⟩)))) rfl rfl rfl hr hr ?_ ?_
    · intro hs; have := hi.nostart hs; exact ⟨this.1, by simp [hpc], by simp [hpc], by simp [hpc]⟩
    · intro hp; exact hp
  | glob g i ok =>
    obtain ⟨hpc, _, rfl⟩ := stepGlob_some h
    have hr : s.running = [] := h1.idle_run (by simp [hpc, passKind])
    refine inv2_quiet hi (Or.inr (Or.inr (Or.inr (Or.inr ⟨g, i, ok, rfl⟩)))) ?_ ?_ ?_ hr ?_ ?_ ?_
    · cases g <;> cases ok <;> simp [globNext, enterPass]
    · cases g <;> cases ok <;> simp [globNext, enterPass]
    · cases g <;> cases ok <;> simp [globNext, enterPass]
    · cases g <;> cases ok <;> simp [globNext, enterPass, hr]
    · intro hs
      have hn := hi.nostart hs
      cases g
      · exact absurd hpc hn.2.2.1
      · cases ok <;> simp [globNext, enterPass, hn.1]
      · exact absurd hpc hn.2.2.2
    · intro hp
      have hlk : s.pc = .glob .prep ∨ s.locked = false := by
        cases g <;> cases ok <;> simp [globNext, enterPass] at hp <;> simp_all
      rcases hlk with hq | hq
      · exact Or.inr hq
      · exact Or.inl hq

theorem inv2_of_runs {n deps mgmt} {tr : List Ev} {s : St} (h : Runs (init n deps mgmt) tr s) : Inv2 tr s := by
  induction h with
  | nil => exact inv2_init n deps mgmt
  | snoc hr hs ih => exact inv2_step (inv1_of_runs hr) ih hs

/-! ### Fix-point arguments -/

theorem noneReady_spec {s : St} {k : Kind} (h : noneReady s k = true) {m : Nat} (hm : m < s.n) :
    ready s k m ≠ readyReady := by
  unfold noneReady at h
  have := (List.all_eq_true.mp h) m (List.mem_range.mpr hm)
  simpa using this

theorem anyWaiting_spec {s : St} {k : Kind} (h : anyWaiting s k = false) {m : Nat} (hm : m < s.n) :
    ready s k m ≠ readyWaiting := by
  unfold anyWaiting at h
  intro hw
  have : (List.range s.n).any (fun m => ready s k m == readyWaiting) = true :=
    List.any_eq_true.mpr ⟨m, List.mem_range.mpr hm, by simp [hw]⟩
  simp [this] at h

theorem exists_max_rank (rank : Nat → Nat) (P : Nat → Prop) (n : Nat) (h : ∃ m, m < n ∧ P m) :
    ∃ m, m < n ∧ P m ∧ ∀ x, x < n → P x → rank x ≤ rank m := by
  induction n with
  | zero => obtain ⟨m, hm, _⟩ := h; omega
  | succ n ih =>
    by_cases hex : ∃ m, m < n ∧ P m
    · obtain ⟨m0, hm0, hp0, hmax⟩ := ih hex
      by_cases hn : P n ∧ rank m0 < rank n
      · refine ⟨n, by omega, hn.1, ?_⟩
        intro x hx hpx
        by_cases hxn : x = n
        · subst hxn; omega
        · have := hmax x (by omega) hpx; omega
      · refine ⟨m0, by omega, hp0, ?_⟩
        intro x hx hpx
        by_cases hxn : x = n
        · subst hxn
          have : ¬ rank m0 < rank x := fun hlt => hn ⟨hpx, hlt⟩
          omega
        · exact hmax x (by omega) hpx
    · obtain ⟨m, hm, hp⟩ := h
      have hmn : m = n := by
        apply Classical.byContradiction; intro hne; exact hex ⟨m, by omega, hp⟩
      subst hmn
      refine ⟨m, by omega, hp, ?_⟩
      intro x hx hpx
      by_cases hxn : x = m
      · subst hxn; omega
      · exact absurd ⟨x, by omega, hpx⟩ hex

/-- The condition under which `readyToStop` leaves an online module alone. -/
def keep (s : St) (m : Nat) : Bool := s.mgmt && !s.shutdown && (s.enabled m || s.asDep m)

/-- When a stop pass has reached its fix point (nothing in flight, no module ready), every module that is
    still online is one the pass had to keep — provided the graph is acyclic and the kept set is closed
    under dependencies. -/
theorem stop_fixpoint {n deps mgmt} {s : St} (h1 : Inv1 n deps mgmt s) (rank : Nat → Nat)
    (hrank : ∀ m, m < s.n → ∀ d ∈ s.deps m, rank d < rank m)
    (hrun : s.running = []) (hnr : noneReady s .stop = true)
    (hclosed : ∀ r, r < s.n → keep s r = true → ∀ d ∈ s.deps r, keep s d = true) :
    ∀ m, m < s.n → s.status m = statusOnline → keep s m = true := by
  intro m hm hon
  apply Classical.byContradiction
  intro hk
  obtain ⟨m0, hm0, ⟨hon0, hk0⟩, hmax⟩ :=
    exists_max_rank rank (fun x => s.status x = statusOnline ∧ keep s x ≠ true) s.n ⟨m, hm, hon, hk⟩
  have hready : readyToStop s m0 = readyReady := by
    rw [readyToStop_ready]
    refine ⟨by simpa [keep] using hk0, hon0, ?_⟩
    intro r hr
    obtain ⟨hrn, hdr⟩ := mem_revDeps.mp hr
    apply Classical.byContradiction
    intro hgt
    have hrange := h1.range r
    have h3 : s.status r ≠ statusStopping := fun h => by have := h1.stopping_run r h; simp [hrun] at this
    have h4 : s.status r ≠ statusStarting := fun h => by have := h1.starting_run r h; simp [hrun] at this
    have h5 : s.status r = statusOnline := by simp at hgt hrange h3 h4 ⊢; omega
    have hkr : keep s r ≠ true := fun hkr => hk0 (hclosed r hrn hkr m0 hdr)
    have := hmax r hrn ⟨h5, hkr⟩
    have := hrank r hrn m0 hdr
    omega
  exact noneReady_spec hnr hm0 hready

theorem start_fixpoint {n deps mgmt} {s : St} (h1 : Inv1 n deps mgmt s)
    (hrun : s.running = []) (hnr : noneReady s .start = true) (hnw : anyWaiting s .start = false) :
    ∀ m, m < s.n → wanted s m = true → s.status m = statusOnline := by
  intro m hm hw
  have hnr' := noneReady_spec hnr hm
  have hnw' := anyWaiting_spec hnw hm
  simp only [ready] at hnr' hnw'
  rw [Ne, readyToStart_ready] at hnr'
  rw [Ne, readyToStart_waiting] at hnw'
  have hrange := h1.range m
  have h3 : s.status m ≠ statusStopping := fun h => by have := h1.stopping_run m h; simp [hrun] at this
  have h4 : s.status m ≠ statusStarting := fun h => by have := h1.starting_run m h; simp [hrun] at this
  apply Classical.byContradiction
  intro h5
  by_cases hlow : s.status m < statusOffline
  · exact hnw' ⟨hw, Or.inl hlow⟩
  · have h2 : s.status m = statusOffline := by simp at hlow hrange h3 h4 h5 ⊢; omega
    by_cases hd : ∃ d ∈ s.deps m, s.status d < statusOnline
    · exact hnw' ⟨hw, Or.inr ⟨h2, hd⟩⟩
    · apply hnr'
      refine ⟨hw, h2, ?_⟩
      intro d hdm
      apply Classical.byContradiction
      intro hlt
      exact hd ⟨d, hdm, by simp at hlt ⊢; omega⟩

/-! ### Wanted / shutdown invariant -/

def AsDepSpec (s : St) : Prop :=
  ∀ m, s.asDep m = true ↔ ∃ e, e < s.n ∧ s.enabled e = true ∧ TransDep s.deps e m

theorem buildEnabledTree_spec {s : St} (hreg : ∀ m, m < s.n → ∀ d ∈ s.deps m, d < s.n) :
    AsDepSpec (buildEnabledTree s) := by
  intro m
  simp only [buildEnabledTree]
  exact closure_spec s.n s.deps s.enabled hreg m

theorem keep_closed {s : St} (hs : AsDepSpec s) :
    ∀ r, r < s.n → keep s r = true → ∀ d ∈ s.deps r, keep s d = true := by
  intro r hr hk d hd
  simp only [keep, Bool.and_eq_true, Bool.or_eq_true] at hk ⊢
  refine ⟨hk.1, Or.inr ?_⟩
  rw [hs d]
  rcases hk.2 with hen | had
  · exact ⟨r, hr, hen, TransDep.direct hd⟩
  · obtain ⟨e, he, hee, ht⟩ := (hs r).mp had
    exact ⟨e, he, hee, transDep_tail ht hd⟩

/-! ### Histories in which Shutdown is final -/

theorem shutdownFinal_prefix {tr : List Ev} {e : Ev} (h : ShutdownFinal (tr ++ [e])) : ShutdownFinal tr := by
  intro t1 t2 ht
  have := h t1 (t2 ++ [e]) (by rw [ht]; simp)
  exact ⟨fun hm => this.1 (List.mem_append_left _ hm), fun hm => this.2 (List.mem_append_left _ hm)⟩

theorem shutdownFinal_call {tr : List Ev} {a : Api} (h : ShutdownFinal (tr ++ [.call a])) (ha : a ≠ .shutdown) :
    Ev.call .shutdown ∉ tr := by
  intro hm
  obtain ⟨t1, t2, ht⟩ := List.append_of_mem hm
  have := h t1 (t2 ++ [.call a]) (by rw [ht]; simp)
  cases a
  · exact this.1 (by simp)
  · exact this.2 (by simp)
  · exact ha rfl

structure Inv3 (tr : List Ev) (s : St) : Prop where
  asdep : (s.pc = .startS ∨ s.pc = .stopM ∨ s.pc = .startM ∨ s.pc = .done .start true ∨
            (s.pc = .done .manage true ∧ s.mgmt = true)) → s.locked = true → AsDepSpec s
  asdep0 : (s.pc = .stopM ∨ s.pc = .startM ∨ (s.pc = .done .manage true ∧ s.mgmt = true)) → s.locked = false →
            ∀ m, s.asDep m = false
  up : (s.pc = .startS ∨ s.pc = .startM) → ∀ m, statusOffline < s.status m → wanted s m = true
  okS : (s.pc = .done .start true ∨ (s.pc = .done .manage true ∧ s.mgmt = true)) →
          ∀ m, m < s.n → (s.status m = statusOnline ↔ wanted s m = true)
  down : ShutdownFinal tr → s.shutdown = true →
          ((∀ m, s.status m ≠ statusOnline) ∧ (s.pc = .idle ∨ ∃ ok, s.pc = .done .shutdown ok)) ∨
          s.pc = .stopX ∨ s.pc = .glob .shutdown
  sd_called : s.shutdown = true → Ev.call .shutdown ∈ tr

theorem inv3_init (n : Nat) (deps : Nat → List Nat) (mgmt : Bool) : Inv3 [] (init n deps mgmt) := by
  constructor <;> simp [init, passKind]

theorem inv3_beg {n deps mgmt} {tr : List Ev} {s s' : St} {k : Kind} {m : Nat} (h1 : Inv1 n deps mgmt s) (hi : Inv3 tr s)
    (h : stepBeg s k m = some s') : Inv3 (tr ++ [.beg k m]) s' := by
  obtain ⟨hm, hk, hr, rfl⟩ := stepBeg_some h
  constructor
  · intro hp; exact hi.asdep hp
  · intro hp; exact hi.asdep0 hp
  · intro hp x hx
    by_cases hxm : x = m
    · subst hxm
      have hks : k = .start := by
        rcases hp with hp | hp <;> simp at hp <;> simp [hp, passKind] at hk <;> exact hk.symm
      subst hks
      exact (readyToStart_ready.mp hr).1
    · simp [set_other _ _ hxm] at hx; exact hi.up hp x (by simpa using hx)
  · intro hp; exfalso
    rcases hp with hp | ⟨hp, _⟩ <;> simp at hp <;> simp [hp, passKind] at hk
  · intro hdom hsd
    rcases hi.down (shutdownFinal_prefix hdom) hsd with ⟨_, hp | ⟨ok, hp⟩⟩ | hp | hp
    · simp [hp, passKind] at hk
    · simp [hp, passKind] at hk
    · exact Or.inr (Or.inl hp)
    · simp [hp, passKind] at hk
  · intro hsd; exact List.mem_append_left _ (hi.sd_called hsd)

theorem inv3_fin {n deps mgmt} {tr : List Ev} {s s' : St} {k : Kind} {m : Nat} {ok : Bool} (h1 : Inv1 n deps mgmt s)
    (hi : Inv3 tr s) (h : stepFin s k m ok = some s') : Inv3 (tr ++ [.fin k m ok]) s' := by
  obtain ⟨hk, hmem, hst, rfl⟩ := stepFin_some h
  constructor
  · intro hp; exact hi.asdep hp
  · intro hp; exact hi.asdep0 hp
  · intro hp x hx
    by_cases hxm : x = m
    · subst hxm
      have hks : k = .start := by
        rcases hp with hp | hp <;> simp at hp <;> simp [hp, passKind] at hk <;> exact hk.symm
      subst hks
      exact hi.up hp x (by simp [hst, launchStatus])
    · simp [set_other _ _ hxm] at hx; exact hi.up hp x (by simpa using hx)
  · intro hp; exfalso
    rcases hp with hp | ⟨hp, _⟩ <;> simp at hp <;> simp [hp, passKind] at hk
  · intro hdom hsd
    rcases hi.down (shutdownFinal_prefix hdom) hsd with ⟨_, hp | ⟨ok', hp⟩⟩ | hp | hp
    · simp [hp, passKind] at hk
    · simp [hp, passKind] at hk
    · exact Or.inr (Or.inl hp)
    · simp [hp, passKind] at hk
  · intro hsd; exact List.mem_append_left _ (hi.sd_called hsd)

theorem inv3_ret {tr : List Ev} {s s' : St} {a : Api} {ok : Bool} (hi : Inv3 tr s)
    (h : stepRet s a ok = some s') : Inv3 (tr ++ [.ret a ok]) s' := by
  obtain ⟨hpc, rfl⟩ := stepRet_some h
  constructor
  · intro hp; simp at hp
  · intro hp; simp at hp
  · intro hp; simp at hp
  · intro hp; simp at hp
  · intro hdom hsd
    rcases hi.down (shutdownFinal_prefix hdom) hsd with ⟨hoff, _⟩ | hp | hp
    · exact Or.inl ⟨hoff, Or.inl rfl⟩
    · simp [hpc] at hp
    · simp [hpc] at hp
  · intro hsd; exact List.mem_append_left _ (hi.sd_called hsd)

theorem inv3_enable {tr : List Ev} {s s' : St} {m : Nat} {v : Bool} (hi : Inv3 tr s)
    (h : stepEnable s m v = some s') : Inv3 (tr ++ [if v then .enable m else .disable m]) s' := by
  obtain ⟨hpc, _, rfl⟩ := stepEnable_some h
  constructor
  · intro hp; simp [hpc] at hp
  · intro hp; simp [hpc] at hp
  · intro hp; simp [hpc] at hp
  · intro hp; simp [hpc] at hp
  · intro hdom hsd
    rcases hi.down (shutdownFinal_prefix hdom) hsd with ⟨hoff, hp⟩ | hp | hp
    · exact Or.inl ⟨hoff, hp⟩
    · simp [hpc] at hp
    · simp [hpc] at hp
  · intro hsd; exact List.mem_append_left _ (hi.sd_called hsd)

theorem inv3_setGlob {tr : List Ev} {s s' : St} {g : Glob} {i : Nat} (hi : Inv3 tr s)
    (h : stepSetGlob s g i = some s') : Inv3 (tr ++ [.setGlob g i]) s' := by
  obtain ⟨hpc, f, rfl⟩ := stepSetGlob_some h
  constructor
  · intro hp; simp [hpc] at hp
  · intro hp; simp [hpc] at hp
  · intro hp; simp [hpc] at hp
  · intro hp; simp [hpc] at hp
  · intro hdom hsd
    rcases hi.down (shutdownFinal_prefix hdom) hsd with ⟨hoff, hp⟩ | hp | hp
    · exact Or.inl ⟨hoff, hp⟩
    · simp [hpc] at hp
    · simp [hpc] at hp
  · intro hsd; exact List.mem_append_left _ (hi.sd_called hsd)

theorem inv3_glob {n deps mgmt} {tr : List Ev} {s s' : St} {g : Glob} {i : Nat} {ok : Bool} (h1 : Inv1 n deps mgmt s)
    (hi : Inv3 tr s) (h : stepGlob s g i ok = some s') : Inv3 (tr ++ [.glob g i ok]) s' := by
  obtain ⟨hpc, _, rfl⟩ := stepGlob_some h
  have hsdsame : (globNext s g ok).shutdown = s.shutdown := by cases g <;> cases ok <;> simp [globNext, enterPass]
  constructor
  · intro hp; exfalso; cases g <;> cases ok <;> simp [globNext, enterPass] at hp
  · intro hp; exfalso; cases g <;> cases ok <;> simp [globNext, enterPass] at hp
  · intro hp; exfalso; cases g <;> cases ok <;> simp [globNext, enterPass] at hp
  · intro hp; exfalso; cases g <;> cases ok <;> simp [globNext, enterPass] at hp
  · intro hdom hsd
    rw [hsdsame] at hsd
    rcases hi.down (shutdownFinal_prefix hdom) hsd with ⟨_, hp | ⟨ok', hp⟩⟩ | hp | hp
    · simp [hpc] at hp
    · simp [hpc] at hp
    · simp [hpc] at hp
    · rw [hpc] at hp; cases hp
      right; left; cases ok <;> simp [globNext, enterPass]
  · intro hsd; rw [hsdsame] at hsd; exact List.mem_append_left _ (hi.sd_called hsd)

theorem inv3_call {n deps mgmt} {tr : List Ev} {s s' : St} {a : Api} (h1 : Inv1 n deps mgmt s) (hi : Inv3 tr s)
    (hreg : ∀ m, m < n → ∀ d ∈ deps m, d < n)
    (h : stepCall s a = some s') : Inv3 (tr ++ [.call a]) s' := by
  have hreg' : ∀ m, m < s.n → ∀ d ∈ s.deps m, d < s.n := by rw [h1.hn, h1.hdeps]; exact hreg
  -- Start / ManageModules: inside the property's histories the shutdown flag is not set
  have hnosd : ∀ x : St, a ≠ .shutdown → x.shutdown = s.shutdown → ShutdownFinal (tr ++ [.call a]) → x.shutdown = true → False := by
    intro x ha hx hdom hxs
    rw [hx] at hxs
    exact shutdownFinal_call hdom ha (hi.sd_called hxs)
  cases a with
  | start =>
    simp only [stepCall] at h
    split at h; · cases h
    rename_i hpc; simp at hpc
    (repeat' split at h) <;> cases h <;>
      exact ⟨by simp [enterPass], by simp [enterPass], by simp [enterPass], by simp [enterPass],
             fun hdom hsd => (hnosd _ (by simp) rfl hdom hsd).elim,
             fun hsd => List.mem_append_left _ (hi.sd_called hsd)⟩
  | manage =>
    simp only [stepCall] at h
    split at h; · cases h
    rename_i hpc; simp at hpc
    split at h
    · rename_i hmg; simp at hmg
      cases h
      exact ⟨by simp [hmg], by simp [hmg], by simp, by simp [hmg],
             fun hdom hsd => (hnosd _ (by simp) rfl hdom hsd).elim,
             fun hsd => List.mem_append_left _ (hi.sd_called hsd)⟩
    · split at h
      · rename_i hlk; simp at hlk
        cases h
        exact ⟨by simp [enterPass, hlk], by simp [enterPass], by simp [enterPass], by simp [enterPass],
               fun hdom hsd => (hnosd _ (by simp) rfl hdom hsd).elim,
               fun hsd => List.mem_append_left _ (hi.sd_called hsd)⟩
      · rename_i hlk; simp at hlk
        split at h; · cases h
        cases h
        refine ⟨?_, by simp [enterPass, buildEnabledTree, hlk], by simp [enterPass], by simp [enterPass],
               fun hdom hsd => (hnosd _ (by simp) rfl hdom hsd).elim,
               fun hsd => List.mem_append_left _ (hi.sd_called hsd)⟩
        intro _ _
        exact buildEnabledTree_spec (s := s) hreg'
  | shutdown =>
    simp only [stepCall] at h
    split at h; · cases h
    rename_i hpc; simp at hpc
    split at h
    · rename_i hsd
      cases h
      refine ⟨by simp, by simp, by simp, by simp, ?_, fun _ => by simp⟩
      intro hdom _
      rcases hi.down (shutdownFinal_prefix hdom) hsd with ⟨hoff, _⟩ | hp | hp
      · exact Or.inl ⟨hoff, Or.inr ⟨false, rfl⟩⟩
      · simp [hpc] at hp
      · simp [hpc] at hp
    · split at h
      · cases h
        exact ⟨by simp, by simp, by simp, by simp, fun _ _ => Or.inr (Or.inr rfl), fun _ => by simp⟩
      · cases h
        exact ⟨by simp [enterPass], by simp [enterPass], by simp [enterPass], by simp [enterPass],
               fun _ _ => Or.inr (Or.inl (by simp [enterPass])), fun _ => by simp⟩

theorem start_pass_done {n deps mgmt} {tr : List Ev} {s : St} (h1 : Inv1 n deps mgmt s) (hi : Inv3 tr s)
    (hp : s.pc = .startS ∨ s.pc = .startM)
    (hrun : s.running = []) (hnr : noneReady s .start = true) (hnw : anyWaiting s .start = false) :
    ∀ m, m < s.n → (s.status m = statusOnline ↔ wanted s m = true) := by
  intro m hm
  constructor
  · intro hon; exact hi.up hp m (by simp [hon])
  · exact start_fixpoint h1 hrun hnr hnw m hm

theorem inv3_passEnd {n deps mgmt} {tr : List Ev} {s s' : St} (h1 : Inv1 n deps mgmt s) (hi : Inv3 tr s)
    (hreg : ∀ m, m < n → ∀ d ∈ deps m, d < n)
    (rank : Nat → Nat) (hrank : ∀ m, m < n → ∀ d ∈ deps m, rank d < rank m)
    (h : stepPassEnd s = some s') : Inv3 (tr ++ [.passEnd]) s' := by
  have hreg' : ∀ m, m < s.n → ∀ d ∈ s.deps m, d < s.n := by rw [h1.hn, h1.hdeps]; exact hreg
  have hrank' : ∀ m, m < s.n → ∀ d ∈ s.deps m, rank d < rank m := by rw [h1.hn, h1.hdeps]; exact hrank
  obtain ⟨hrun, _⟩ := passEnd_running h1 h
  obtain ⟨g1, g2, g3, g4, g5, g6, g7, g8, g9, g10, g11, g12, g13⟩ := stepPassEnd_frame2 h
  have hcalled : s'.shutdown = true → Ev.call .shutdown ∈ tr ++ [.passEnd] := by
    intro hsd; rw [g12] at hsd; exact List.mem_append_left _ (hi.sd_called hsd)
  -- `down` for every pass but the stop pass of Shutdown: inside the property's histories the flag is not set there
  have hdown_other : s.pc ≠ .stopX → ShutdownFinal (tr ++ [.passEnd]) → s'.shutdown = true →
      ((∀ m, s'.status m ≠ statusOnline) ∧ (s'.pc = .idle ∨ ∃ ok, s'.pc = .done .shutdown ok)) ∨
      s'.pc = .stopX ∨ s'.pc = .glob .shutdown := by
    intro hne hdom hsd
    rw [g12] at hsd
    exfalso
    rcases hi.down (shutdownFinal_prefix hdom) hsd with ⟨_, hp | ⟨ok, hp⟩⟩ | hp | hp
    · simp [stepPassEnd, hp] at h
    · simp [stepPassEnd, hp] at h
    · exact hne hp
    · simp [stepPassEnd, hp] at h
  unfold stepPassEnd at h
  split at h; · cases h
  cases hpc : s.pc with
  | idle => simp [hpc] at h
  | done a ok => simp [hpc] at h
  | glob g => simp [hpc] at h
  | prep =>
    have hd := hdown_other (by simp [hpc])
    have hlk : s.locked = true := h1.pass_locked (Or.inl hpc)
    simp only [hpc] at h
    (repeat' split at h) <;> first
      | (cases h; done)
      | (cases h; exact ⟨by simp, by simp, by simp, by simp, hd, hcalled⟩)
      | (cases h
         refine ⟨fun _ _ => buildEnabledTree_spec (s := s) hreg', by simp [enterPass, buildEnabledTree, hlk], ?_, by simp [enterPass],
                 hd, hcalled⟩
         intro _ m hm
         have := h1.prep_low hpc m
         simp [enterPass, buildEnabledTree] at hm this
         omega)
  | startS =>
    have hd := hdown_other (by simp [hpc])
    simp only [hpc] at h
    split at h
    · cases h; exact ⟨by simp, by simp, by simp, by simp, hd, hcalled⟩
    · split at h; · cases h
      rename_i hnr; simp at hnr
      split at h
      · cases h; exact ⟨by simp, by simp, by simp, by simp, hd, hcalled⟩
      · rename_i hnw; simp at hnw
        cases h
        refine ⟨fun _ => hi.asdep (Or.inl hpc), by simp, by simp, ?_, hd, hcalled⟩
        intro _
        show ∀ m, m < s.n → (s.status m = statusOnline ↔ wanted s m = true)
        exact start_pass_done h1 hi (Or.inl hpc) hrun hnr hnw
  | stopM =>
    have hd := hdown_other (by simp [hpc])
    simp only [hpc] at h
    split at h; · cases h
    rename_i hnr; simp at hnr
    cases h
    refine ⟨fun _ => hi.asdep (Or.inr (Or.inl hpc)), fun _ => hi.asdep0 (Or.inl hpc), ?_, by simp [enterPass], hd, hcalled⟩
    intro _ m hm
    simp [enterPass] at hm
    show wanted s m = true
    cases hlk : s.locked
    · -- ManageModules before Start: every module is Dead
      have := h1.fresh (Or.inl hlk) m
      simp [this] at hm
    · have hspec := hi.asdep (Or.inr (Or.inl hpc)) hlk
      have hrange := h1.range m
      have h3 : s.status m ≠ statusStopping := fun h => by have := h1.stopping_run m h; simp [hrun] at this
      have h4 : s.status m ≠ statusStarting := fun h => by have := h1.starting_run m h; simp [hrun] at this
      have h5 : s.status m = statusOnline := by simp at hm hrange h3 h4 ⊢; omega
      have hmn : m < s.n := by
        apply Classical.byContradiction; intro hge
        have := h1.out_dead m (by omega); simp [this] at h5
      have := stop_fixpoint h1 rank hrank' hrun hnr (keep_closed hspec) m hmn h5
      simp [keep] at this
      rcases this.2 with h | h <;> simp [wanted, h]
  | startM =>
    have hd := hdown_other (by simp [hpc])
    simp only [hpc] at h
    split at h
    · cases h; exact ⟨by simp, by simp, by simp, by simp, hd, hcalled⟩
    · split at h; · cases h
      rename_i hnr; simp at hnr
      split at h
      · cases h; exact ⟨by simp, by simp, by simp, by simp, hd, hcalled⟩
      · rename_i hnw; simp at hnw
        cases h
        refine ⟨fun _ => hi.asdep (Or.inr (Or.inr (Or.inl hpc))), fun _ => hi.asdep0 (Or.inr (Or.inl hpc)), by simp, ?_, hd, hcalled⟩
        intro _
        show ∀ m, m < s.n → (s.status m = statusOnline ↔ wanted s m = true)
        exact start_pass_done h1 hi (Or.inr hpc) hrun hnr hnw
  | stopX =>
    have hsd : s.shutdown = true := h1.stopX_shutdown (Or.inl hpc)
    simp only [hpc] at h
    split at h; · cases h
    rename_i hnr; simp at hnr
    cases h
    refine ⟨by simp, by simp, by simp, by simp, ?_, hcalled⟩
    intro _ _
    left
    refine ⟨?_, Or.inr ⟨_, rfl⟩⟩
    intro m hon
    have hmn : m < s.n := by
      apply Classical.byContradiction; intro hge
      have := h1.out_dead m (by omega); simp [this] at hon
    have := stop_fixpoint h1 rank hrank' hrun hnr (by intro r _ hk; simp [keep, hsd] at hk) m hmn hon
    simp [keep, hsd] at this

theorem inv3_step {n deps mgmt} {tr : List Ev} {s s' : St} {e : Ev} (h1 : Inv1 n deps mgmt s) (hi : Inv3 tr s)
    (hreg : ∀ m, m < n → ∀ d ∈ deps m, d < n)
    (rank : Nat → Nat) (hrank : ∀ m, m < n → ∀ d ∈ deps m, rank d < rank m)
    (h : step s e = some s') : Inv3 (tr ++ [e]) s' := by
  cases e with
  | call a => exact inv3_call h1 hi hreg h
  | ret a ok => exact inv3_ret hi h
  | beg k m => exact inv3_beg h1 hi h
  | fin k m ok => exact inv3_fin h1 hi h
  | passEnd => exact inv3_passEnd h1 hi hreg rank hrank h
  | enable m => exact inv3_enable (v := true) hi h
  | disable m => exact inv3_enable (v := false) hi h
  | setGlob g i => exact inv3_setGlob hi h
  | glob g i ok => exact inv3_glob h1 hi h

theorem inv3_of_runs {n deps mgmt} {tr : List Ev} {s : St}
    (hreg : ∀ m, m < n → ∀ d ∈ deps m, d < n)
    (rank : Nat → Nat) (hrank : ∀ m, m < n → ∀ d ∈ deps m, rank d < rank m)
    (h : Runs (init n deps mgmt) tr s) : Inv3 tr s := by
  induction h with
  | nil => exact inv3_init n deps mgmt
  | snoc hr hs ih => exact inv3_step (inv1_of_runs hr) ih hreg rank hrank hs

/-! ### Shutdown is final; dependencies stay online while a module is started -/

theorem step_shutdown_mono {s s' : St} {e : Ev} (h : step s e = some s') (hsd : s.shutdown = true) :
    s'.shutdown = true ∧ ((s'.pc = .stopX ∨ s'.pc = .glob .shutdown) → (s.pc = .stopX ∨ s.pc = .glob .shutdown)) := by
  cases e with
  | call a =>
    cases a <;> simp only [step, stepCall] at h <;> (repeat' split at h) <;>
      first
        | (cases h; done)
        | (cases h; simp_all [enterPass, buildEnabledTree])
  | ret a ok => obtain ⟨_, rfl⟩ := stepRet_some h; simp [hsd]
  | beg k m => obtain ⟨_, _, _, rfl⟩ := stepBeg_some h; simp [hsd]
  | fin k m ok => obtain ⟨_, _, _, rfl⟩ := stepFin_some h; simp [hsd]
  | passEnd =>
    obtain ⟨g1, g2, g3, g4, g5, g6, g7, g8, g9, g10, g11, g12, g13⟩ := stepPassEnd_frame2 h
    refine ⟨by rw [g12]; exact hsd, ?_⟩
    intro hp
    rcases hp with hp | hp
    · exact absurd hp g2
    · exact absurd hp g3
  | enable m => obtain ⟨_, _, rfl⟩ := stepEnable_some h; simp [hsd]
  | disable m => obtain ⟨_, _, rfl⟩ := stepEnable_some h; simp [hsd]
  | setGlob g i => obtain ⟨_, f, rfl⟩ := stepSetGlob_some h; simp [hsd]
  | glob g i ok =>
    obtain ⟨hpc, _, rfl⟩ := stepGlob_some h
    cases g <;> cases ok <;> simp [globNext, enterPass, hsd, hpc]

structure Inv4 (tr : List Ev) (s : St) : Prop where
  done_sd : ∀ ok, s.pc = .done .shutdown ok → s.shutdown = true
  after_sd : (∃ ok, Ev.ret .shutdown ok ∈ tr) → s.shutdown = true ∧ s.pc ≠ .stopX ∧ s.pc ≠ .glob .shutdown
  deps_on : ∀ m, m < s.n → statusOffline < s.status m → ∀ d ∈ s.deps m, s.status d = statusOnline
  lock_called : s.locked = true → Ev.call .start ∈ tr

theorem inv4_init (n : Nat) (deps : Nat → List Nat) (mgmt : Bool) : Inv4 [] (init n deps mgmt) := by
  constructor <;> simp [init]

theorem inv4_step {n deps mgmt} {tr : List Ev} {s s' : St} {e : Ev} (h1 : Inv1 n deps mgmt s) (hi : Inv4 tr s)
    (h : step s e = some s') : Inv4 (tr ++ [e]) s' := by
  have hafter : (∃ ok, Ev.ret .shutdown ok ∈ tr ++ [e]) → s'.shutdown = true ∧ s'.pc ≠ .stopX ∧ s'.pc ≠ .glob .shutdown := by
    rintro ⟨ok, hmem⟩
    rcases List.mem_append.mp hmem with hmem | hmem
    · obtain ⟨hsd, hpc, hpc'⟩ := hi.after_sd ⟨ok, hmem⟩
      obtain ⟨h1', h2'⟩ := step_shutdown_mono h hsd
      refine ⟨h1', fun hp => ?_, fun hp => ?_⟩
      · rcases h2' (Or.inl hp) with hq | hq
        · exact hpc hq
        · exact hpc' hq
      · rcases h2' (Or.inr hp) with hq | hq
        · exact hpc hq
        · exact hpc' hq
    · simp at hmem; subst hmem
      obtain ⟨hpc, rfl⟩ := stepRet_some h
      exact ⟨hi.done_sd ok hpc, by simp, by simp⟩
  -- the lock is only ever set by Start
  have hlock : s'.locked = true → Ev.call .start ∈ tr ++ [e] := by
    intro hl
    by_cases he : e = .call .start
    · subst he; simp
    · have : s.locked = true := by
        cases e with
        | call a =>
          cases a
          · exact absurd rfl he
          · simp only [step, stepCall] at h
            (repeat' split at h) <;> first | (cases h; done) | (cases h; simp_all [enterPass, buildEnabledTree])
          · simp only [step, stepCall] at h
            (repeat' split at h) <;> first | (cases h; done) | (cases h; simp_all [enterPass, buildEnabledTree])
        | ret a ok => obtain ⟨_, rfl⟩ := stepRet_some h; exact hl
        | beg k m => obtain ⟨_, _, _, rfl⟩ := stepBeg_some h; exact hl
        | fin k m ok => obtain ⟨_, _, _, rfl⟩ := stepFin_some h; exact hl
        | passEnd => obtain ⟨_, _, _, _, _, _, _, _, _, _, g11, _⟩ := stepPassEnd_frame2 h; rw [g11] at hl; exact hl
        | enable m => obtain ⟨_, _, rfl⟩ := stepEnable_some h; exact hl
        | disable m => obtain ⟨_, _, rfl⟩ := stepEnable_some h; exact hl
        | setGlob g i => obtain ⟨_, f, rfl⟩ := stepSetGlob_some h; exact hl
        | glob g i ok =>
          obtain ⟨_, _, rfl⟩ := stepGlob_some h
          cases g <;> cases ok <;> simpa [globNext, enterPass] using hl
      exact List.mem_append_left _ (hi.lock_called this)
  cases e with
  | call a =>
    obtain ⟨f1, _, _, f4, f5, _, f7, _, _⟩ := stepCall_frame h
    refine ⟨?_, hafter, by rw [f1, f4, f5]; exact hi.deps_on, hlock⟩
    intro ok hp
    cases a <;> simp only [step, stepCall] at h <;> (repeat' split at h) <;>
      first
        | (cases h; done)
        | (cases h; simp_all [enterPass, buildEnabledTree])
  | ret a ok =>
    obtain ⟨hpc, rfl⟩ := stepRet_some h
    exact ⟨by simp, hafter, hi.deps_on, hlock⟩
  | beg k m =>
    obtain ⟨hm, hk, hr, rfl⟩ := stepBeg_some h
    refine ⟨?_, hafter, ?_, hlock⟩
    · intro ok hp; simp at hp; simp [hp, passKind] at hk
    · intro x hx hgt d hd
      simp at hx hgt hd ⊢
      have hold : s.status m = (match k with | .prep => statusDead | .start => statusOffline | .stop => statusOnline) := by
        cases k
        · exact (readyToPrep_ready.mp hr).1
        · exact (readyToStart_ready.mp hr).2.1
        · exact (readyToStop_ready.mp hr).2.1
      by_cases hxm : x = m
      · subst hxm
        by_cases hdx : d = x
        · subst hdx
          -- a module that names itself as dependency is never ready to start; a stopping one keeps Online deps
          cases k
          · simp [launchStatus] at hgt
          · have := (readyToStart_ready.mp hr).2.2 d hd
            simp [hold] at this
          · have := (readyToStop_ready.mp hr).2.2 d (mem_revDeps.mpr ⟨hx, hd⟩)
            simp [hold] at this
        · rw [set_other _ _ hdx]
          cases k
          · simp [launchStatus] at hgt
          · have := (readyToStart_ready.mp hr).2.2 d hd
            have := h1.range d
            simp at *; omega
          · exact hi.deps_on x hx (by simp [hold]) d hd
      · rw [set_other _ _ hxm] at hgt
        have hdon := hi.deps_on x hx (by simpa using hgt) d hd
        by_cases hdm : d = m
        · subst hdm
          -- m is a dependency of the started module x, so m was Online: only a stop can be launched on it
          cases k
          · simp [hold] at hdon
          · simp [hold] at hdon
          · have := (readyToStop_ready.mp hr).2.2 x (mem_revDeps.mpr ⟨hx, hd⟩)
            simp at this hgt; omega
        · rw [set_other _ _ hdm]; exact hdon
  | fin k m ok =>
    obtain ⟨hk, hmem, hst, rfl⟩ := stepFin_some h
    refine ⟨?_, hafter, ?_, hlock⟩
    · intro ok' hp; simp at hp; simp [hp, passKind] at hk
    · intro x hx hgt d hd
      simp at hx hgt hd ⊢
      by_cases hxm : x = m
      · subst hxm
        have hgt0 : statusOffline < s.status x := by
          cases k <;> cases ok <;> simp [finStatus, launchStatus, hst] at hgt ⊢
        have hdon := hi.deps_on x hx hgt0 d hd
        by_cases hdx : d = x
        · subst hdx; cases k <;> simp [hst, launchStatus] at hdon
        · rw [set_other _ _ hdx]; exact hdon
      · rw [set_other _ _ hxm] at hgt
        have hdon := hi.deps_on x hx (by simpa using hgt) d hd
        by_cases hdm : d = m
        · subst hdm; cases k <;> simp [hst, launchStatus] at hdon
        · rw [set_other _ _ hdm]; exact hdon
  | passEnd =>
    obtain ⟨g1, g2, g3, g4, g5, g6, g7, g8, g9, g10, g11, g12, g13⟩ := stepPassEnd_frame2 h
    refine ⟨?_, hafter, by rw [g6, g8, g9]; exact hi.deps_on, hlock⟩
    intro ok hp
    rw [g12]
    simp only [step] at h
    unfold stepPassEnd at h
    split at h; · cases h
    cases hpc : s.pc <;> simp only [hpc] at h <;> (repeat' split at h) <;>
      first
        | (cases h; done)
        | (cases h; simp [enterPass] at hp; done)
        | exact h1.stopX_shutdown (Or.inl hpc)
  | enable m =>
    obtain ⟨hpc, _, rfl⟩ := stepEnable_some h
    exact ⟨by simp [hpc], hafter, hi.deps_on, hlock⟩
  | disable m =>
    obtain ⟨hpc, _, rfl⟩ := stepEnable_some h
    exact ⟨by simp [hpc], hafter, hi.deps_on, hlock⟩
  | setGlob g i =>
    obtain ⟨hpc, f, rfl⟩ := stepSetGlob_some h
    exact ⟨by simp [hpc], hafter, hi.deps_on, hlock⟩
  | glob g i ok =>
    obtain ⟨hpc, _, rfl⟩ := stepGlob_some h
    refine ⟨?_, hafter, ?_, hlock⟩
    · intro ok' hp; cases g <;> cases ok <;> simp [globNext, enterPass] at hp
    · have e1 : (globNext s g ok).status = s.status := by cases g <;> cases ok <;> simp [globNext, enterPass]
      have e2 : (globNext s g ok).n = s.n := by cases g <;> cases ok <;> simp [globNext, enterPass]
      have e3 : (globNext s g ok).deps = s.deps := by cases g <;> cases ok <;> simp [globNext, enterPass]
      rw [e1, e2, e3]; exact hi.deps_on

theorem inv4_of_runs {n deps mgmt} {tr : List Ev} {s : St} (h : Runs (init n deps mgmt) tr s) : Inv4 tr s := by
  induction h with
  | nil => exact inv4_init n deps mgmt
  | snoc hr hs ih => exact inv4_step (inv1_of_runs hr) ih hs

/-! ### A failed global prep function: nothing ever runs -/

structure Inv5 (tr : List Ev) (s : St) : Prop where
  gfail : (∃ i, Ev.glob .prep i false ∈ tr) →
    (∀ m, s.status m = statusDead) ∧ s.locked = true ∧ s.pc ≠ .prep ∧ s.pc ≠ .glob .prep

theorem inv5_init (n : Nat) (deps : Nat → List Nat) (mgmt : Bool) : Inv5 [] (init n deps mgmt) := by
  constructor; simp

/-- Once every module is Dead and the registry is locked with no prep pass to come, no routine can begin. -/
theorem no_beg_of_dead {s : St} (hd : ∀ m, s.status m = statusDead) (hp : s.pc ≠ .prep) (k : Kind) (m : Nat) :
    stepBeg s k m = none := by
  cases hb : stepBeg s k m with
  | none => rfl
  | some s' =>
    exfalso
    obtain ⟨_, hk, hr, _⟩ := stepBeg_some hb
    have := not_ready_of_dead hd hr
    subst this
    apply hp
    cases hpc : s.pc <;> simp [hpc, passKind] at hk ⊢

theorem inv5_step {n deps mgmt} {tr : List Ev} {s s' : St} {e : Ev} (h1 : Inv1 n deps mgmt s) (hi : Inv5 tr s)
    (h : step s e = some s') : Inv5 (tr ++ [e]) s' := by
  constructor
  rintro ⟨i, hmem⟩
  rcases List.mem_append.mp hmem with hmem | hmem
  · obtain ⟨hd, hl, hp1, hp2⟩ := hi.gfail ⟨i, hmem⟩
    cases e with
    | call a =>
      obtain ⟨f1, _, _, _, _, _, f7, f8, f9, _, _⟩ := stepCall_frame h
      refine ⟨by rw [f1]; exact hd, f9 hl, ?_, ?_⟩
      · intro hp; have := f8 (Or.inl hp); simp [hl] at this
      · intro hp; have := f8 (Or.inr hp); simp [hl] at this
    | ret a ok => obtain ⟨_, rfl⟩ := stepRet_some h; exact ⟨hd, hl, by simp, by simp⟩
    | beg k m => simp only [step] at h; rw [no_beg_of_dead hd hp1] at h; cases h
    | fin k m ok =>
      obtain ⟨_, _, hst, _⟩ := stepFin_some h
      rw [hd m] at hst
      exact absurd hst.symm (by simpa using launchStatus_ne_zero k)
    | passEnd =>
      obtain ⟨g1, g2, g3, g4, g5, g6, g7, g8, g9, g10, g11, g12, g13⟩ := stepPassEnd_frame2 h
      exact ⟨by rw [g6]; exact hd, by rw [g11]; exact hl, g13, g1⟩
    | enable m => obtain ⟨hpc, _, rfl⟩ := stepEnable_some h; exact ⟨hd, hl, hp1, hp2⟩
    | disable m => obtain ⟨hpc, _, rfl⟩ := stepEnable_some h; exact ⟨hd, hl, hp1, hp2⟩
    | setGlob g j => obtain ⟨hpc, f, rfl⟩ := stepSetGlob_some h; exact ⟨hd, hl, hp1, hp2⟩
    | glob g j ok =>
      obtain ⟨hpc, _, rfl⟩ := stepGlob_some h
      cases g
      · exact absurd hpc hp2
      · cases ok <;> simp [globNext, enterPass] <;> exact ⟨hd, hl⟩
      · cases ok <;> simp [globNext, enterPass] <;> exact ⟨hd, hl⟩
  · simp at hmem; subst hmem
    obtain ⟨hpc, _, rfl⟩ := stepGlob_some h
    exact ⟨h1.fresh (Or.inr hpc), h1.pass_locked (Or.inr (Or.inr (Or.inl hpc))), by simp [globNext], by simp [globNext]⟩

theorem inv5_of_runs {n deps mgmt} {tr : List Ev} {s : St} (h : Runs (init n deps mgmt) tr s) : Inv5 tr s := by
  induction h with
  | nil => exact inv5_init n deps mgmt
  | snoc hr hs ih => exact inv5_step (inv1_of_runs hr) ih hs

/-! ### The model's `wanted` is the specification's `Wanted` -/

theorem wanted_iff_spec {n : Nat} {deps : Nat → List Nat} {mgmt : Bool} {tr : List Ev} {s : St}
    (h1 : Inv1 n deps mgmt s) (h2 : Inv2 tr s) (hspec : AsDepSpec s) (m : Nat) :
    wanted s m = true ↔ Wanted deps mgmt (enabledOf tr) m := by
  unfold wanted Wanted
  rw [← h1.hmgmt, ← h1.hdeps]
  have hen : ∀ x, enabledOf tr x = s.enabled x := fun x => (h2.en x).symm
  simp only [hen]
  constructor
  · intro h
    simp only [Bool.or_eq_true, Bool.not_eq_true'] at h
    rcases h with (h | h) | h
    · exact Or.inl h
    · exact Or.inr (Or.inl h)
    · obtain ⟨e, _, he, ht⟩ := (hspec m).mp h
      exact Or.inr (Or.inr ⟨e, he, ht⟩)
  · intro h
    simp only [Bool.or_eq_true, Bool.not_eq_true']
    rcases h with h | h | ⟨e, he, ht⟩
    · exact Or.inl (Or.inl h)
    · exact Or.inl (Or.inr h)
    · exact Or.inr ((hspec m).mpr ⟨e, h2.en_lt e he, he, ht⟩)


/-! ### Reading `lifeOf` off the history: the last start/stop event of a module -/

theorem lifeUpd_apply (f : Nat → Nat) (e : Ev) (d : Nat) :
    lifeUpd f e d = if touches d e then lifeCodeOf e else f d := by
  cases e with
  | beg k m => cases k <;> simp [lifeUpd, touches, lifeCodeOf, set] <;> (split <;> simp_all [eq_comm])
  | fin k m ok => cases k <;> cases ok <;> simp [lifeUpd, touches, lifeCodeOf, set] <;> (split <;> simp_all [eq_comm])
  | _ => simp [lifeUpd, touches]

theorem foldl_lifeUpd (tr : List Ev) (f0 : Nat → Nat) (d : Nat) :
    (tr.foldl lifeUpd f0) d = match lastTouch d tr with | some e => lifeCodeOf e | none => f0 d := by
  induction tr generalizing f0 with
  | nil => simp [lastTouch]
  | cons e es ih =>
    simp only [List.foldl_cons, lastTouch]
    rw [ih]
    cases lastTouch d es with
    | some x => simp
    | none => simp [lifeUpd_apply]; split <;> simp_all

theorem lastTouch_touches {d : Nat} {tr : List Ev} {e : Ev} (h : lastTouch d tr = some e) : touches d e = true := by
  induction tr with
  | nil => simp [lastTouch] at h
  | cons x xs ih =>
    simp only [lastTouch] at h
    cases hx : lastTouch d xs with
    | some y => rw [hx] at h; simp at h; subst h; exact ih hx
    | none => rw [hx] at h; simp at h; obtain ⟨h1, h2⟩ := h; subst h2; exact h1

theorem lifeOf_eq_lastTouch (tr : List Ev) (d : Nat) :
    lifeOf tr d = match lastTouch d tr with | some e => lifeCodeOf e | none => 0 := by
  unfold lifeOf; rw [foldl_lifeUpd]

/-! ### Data for the non-vacuity examples of PBProofs/C01.lean -/

/-- A diamond: 1 and 2 depend on 0, 3 depends on 1 and 2. -/
def diamond : Nat → List Nat
  | 1 => [0]
  | 2 => [0]
  | 3 => [1, 2]
  | _ => []

/-- Start with overlapping callbacks (1 and 2 start concurrently), then Shutdown. -/
def diamondHistory : List Ev :=
  [.call .start,
   .beg .prep 0, .fin .prep 0 true, .beg .prep 2, .beg .prep 1, .fin .prep 1 true, .fin .prep 2 true,
   .beg .prep 3, .fin .prep 3 true, .passEnd,
   .beg .start 0, .fin .start 0 true, .beg .start 1, .beg .start 2, .fin .start 2 true, .fin .start 1 true,
   .beg .start 3, .fin .start 3 true, .passEnd, .ret .start true,
   .call .shutdown, .beg .stop 3, .fin .stop 3 true, .beg .stop 2, .beg .stop 1, .fin .stop 1 false,
   .fin .stop 2 true, .beg .stop 0, .fin .stop 0 true, .passEnd, .ret .shutdown false]

end PB.Modules
