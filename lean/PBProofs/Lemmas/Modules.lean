import PB.Model.Modules
import PB.Spec.Modules
import PBProofs.Lemmas.ModulesClosure
set_option linter.unusedSimpArgs false
set_option linter.unusedVariables false
/-!
Helper lemmas for C01 (module lifecycle): runs, step inversion, the structural invariant.
-/
namespace PB.Modules
open PB.Gen.Lifecycle

attribute [local simp] statusDead statusPreparing statusOffline statusStopping statusStarting statusOnline
  readyWaiting readyReady readyNothingToDo prepOwnSkip prepDepWaits startOwnBlocked startOwnSkip startDepWaits
  stopOwnSkip stopRevWaits prepLaunch prepDone startLaunch startDone startFailed stopLaunch stopDone

/-! ### Runs -/

/-- `Runs s0 tr s`: the history `tr` leads from `s0` to `s` (snoc-style, for induction on the last step). -/
inductive Runs (s0 : St) : List Ev → St → Prop
  | nil : Runs s0 [] s0
  | snoc {tr : List Ev} {s : St} {e : Ev} {s' : St} : Runs s0 tr s → step s e = some s' → Runs s0 (tr ++ [e]) s'

theorem Runs.cons {s0 s1 s : St} {e : Ev} {tr : List Ev} (h0 : step s0 e = some s1) (h : Runs s1 tr s) :
    Runs s0 (e :: tr) s := by
  induction h with
  | nil => exact Runs.snoc (tr := []) Runs.nil h0
  | snoc _ hs ih => exact Runs.snoc (tr := e :: _) ih hs

theorem runs_of_run {s0 s : St} {tr : List Ev} (h : run s0 tr = some s) : Runs s0 tr s := by
  induction tr generalizing s0 with
  | nil => simp [run] at h; subst h; exact Runs.nil
  | cons e es ih =>
    simp only [run] at h
    split at h
    · rename_i s1 h1; exact Runs.cons h1 (ih h)
    · cases h

/-! ### Step inversion -/

theorem stepBeg_some {s s' : St} {k : Kind} {m : Nat} (h : stepBeg s k m = some s') :
    m < s.n ∧ passKind s.pc = some k ∧ ready s k m = readyReady ∧
    s' = { s with status := set s.status m (launchStatus k), execCnt := s.execCnt + 1, running := m :: s.running } := by
  unfold stepBeg at h
  split at h
  · rename_i hg; cases h; exact ⟨hg.1, hg.2.1, hg.2.2, rfl⟩
  · cases h

theorem stepFin_some {s s' : St} {k : Kind} {m : Nat} {ok : Bool} (h : stepFin s k m ok = some s') :
    passKind s.pc = some k ∧ m ∈ s.running ∧ s.status m = launchStatus k ∧
    s' = { s with status := set s.status m (finStatus (s.status m) k ok), reportCnt := s.reportCnt + 1,
                  running := s.running.erase m, failed := s.failed || !ok } := by
  unfold stepFin at h
  split at h
  · rename_i hg; cases h; exact ⟨hg.1, hg.2.1, hg.2.2, rfl⟩
  · cases h

theorem stepRet_some {s s' : St} {a : Api} {ok : Bool} (h : stepRet s a ok = some s') :
    s.pc = .done a ok ∧ s' = { s with pc := .idle } := by
  unfold stepRet at h
  split at h
  · rename_i hg; cases h; exact ⟨hg, rfl⟩
  · cases h

theorem stepEnable_some {s s' : St} {m : Nat} {v : Bool} (h : stepEnable s m v = some s') :
    s.pc = .idle ∧ m < s.n ∧ s' = { s with enabled := set s.enabled m v } := by
  unfold stepEnable at h
  split at h
  · rename_i hg; cases h; exact ⟨hg.1, hg.2, rfl⟩
  · cases h

@[simp] theorem set_same {α : Type} (f : Nat → α) (i : Nat) (v : α) : set f i v i = v := by simp [set]
theorem set_other {α : Type} (f : Nat → α) {i j : Nat} (v : α) (h : j ≠ i) : set f i v j = f j := by simp [set, h]

theorem launchStatus_ne_zero (k : Kind) : launchStatus k ≠ 0 := by cases k <;> simp [launchStatus]

/-! ### The ready verdicts, characterised -/

def wanted (s : St) (m : Nat) : Bool := !s.mgmt || s.enabled m || s.asDep m

theorem readyToPrep_ready {s : St} {m : Nat} :
    readyToPrep s m = readyReady ↔ s.status m = statusDead ∧ ∀ d ∈ s.deps m, statusOffline ≤ s.status d := by
  unfold readyToPrep
  split
  · rename_i h; simp at h; simp [h]
  · rename_i h; simp at h
    split
    · rename_i h2; simp at h2; obtain ⟨d, hd, hl⟩ := h2
      simp; intro _; exact ⟨d, hd, by simpa using hl⟩
    · rename_i h2; simp at h2; simp [h]; intro d hd; simpa using h2 d hd

theorem readyToPrep_waiting {s : St} {m : Nat} :
    readyToPrep s m = readyWaiting ↔ s.status m = statusDead ∧ ∃ d ∈ s.deps m, s.status d < statusOffline := by
  unfold readyToPrep
  split
  · rename_i h; simp at h; simp [h]
  · rename_i h; simp at h
    split
    · rename_i h2; simp at h2; obtain ⟨d, hd, hl⟩ := h2; simp [h]; exact ⟨d, hd, by simpa using hl⟩
    · rename_i h2; simp at h2; simp; intro _ d hd; simpa using h2 d hd

theorem wanted_iff {s : St} {m : Nat} : (s.mgmt && !(s.enabled m) && !(s.asDep m)) = true ↔ wanted s m = false := by
  unfold wanted; cases s.mgmt <;> cases s.enabled m <;> cases s.asDep m <;> simp

theorem readyToStart_ready {s : St} {m : Nat} :
    readyToStart s m = readyReady ↔
      wanted s m = true ∧ s.status m = statusOffline ∧ ∀ d ∈ s.deps m, statusOnline ≤ s.status d := by
  unfold readyToStart
  simp only [wanted_iff]
  split
  · rename_i h; simp [h]
  · rename_i h; simp at h
    split
    · rename_i h0; simp at h0; simp; intro _ h2; omega
    · rename_i h0; simp at h0
      split
      · rename_i h1; simp at h1; simp; intro _ h2; omega
      · rename_i h1; simp at h1
        split
        · rename_i h2; simp at h2; obtain ⟨d, hd, hl⟩ := h2
          simp; intro _ _; exact ⟨d, hd, by simpa using hl⟩
        · rename_i h2; simp at h2; simp [h, h1]; intro d hd; simpa using h2 d hd

theorem readyToStart_waiting {s : St} {m : Nat} :
    readyToStart s m = readyWaiting ↔
      wanted s m = true ∧ (s.status m < statusOffline ∨ (s.status m = statusOffline ∧ ∃ d ∈ s.deps m, s.status d < statusOnline)) := by
  unfold readyToStart
  simp only [wanted_iff]
  split
  · rename_i h; simp [h]
  · rename_i h; simp at h
    split
    · rename_i h0; simp at h0; simp [h]; exact Or.inl h0
    · rename_i h0; simp at h0
      split
      · rename_i h1; simp at h1; simp; intro _; omega
      · rename_i h1; simp at h1
        split
        · rename_i h2; simp at h2; obtain ⟨d, hd, hl⟩ := h2
          simp [h, h1]; exact ⟨d, hd, by simpa using hl⟩
        · rename_i h2; simp at h2; simp [h1]; intro _ d hd; simpa using h2 d hd

theorem readyToStop_ready {s : St} {m : Nat} :
    readyToStop s m = readyReady ↔
      (s.mgmt && !s.shutdown && (s.enabled m || s.asDep m)) = false ∧ s.status m = statusOnline ∧
      ∀ r ∈ revDeps s m, s.status r ≤ statusOffline := by
  unfold readyToStop
  split
  · rename_i h; simp [h]
  · rename_i h
    have h' : (s.mgmt && !s.shutdown && (s.enabled m || s.asDep m)) = false := by simpa using h
    split
    · rename_i h1; simp at h1; simp; intro _ h2; omega
    · rename_i h1; simp at h1
      split
      · rename_i h2; simp at h2; obtain ⟨r, hr, hl⟩ := h2
        simp; intro _ _; exact ⟨r, hr, by simpa using hl⟩
      · rename_i h2; simp at h2; simp only [h', h1, true_and]; simp; intro r hr; simpa using h2 r hr

theorem mem_revDeps {s : St} {d r : Nat} : r ∈ revDeps s d ↔ r < s.n ∧ d ∈ s.deps r := by
  simp [revDeps]

/-! ### Structural invariant -/

structure Inv1 (n : Nat) (deps : Nat → List Nat) (mgmt : Bool) (s : St) : Prop where
  hn : s.n = n
  hdeps : s.deps = deps
  hmgmt : s.mgmt = mgmt
  run_lt : ∀ m ∈ s.running, m < s.n
  run_status : ∀ m ∈ s.running, ∃ k, passKind s.pc = some k ∧ s.status m = launchStatus k
  starting_run : ∀ m, s.status m = statusStarting → m ∈ s.running
  stopping_run : ∀ m, s.status m = statusStopping → m ∈ s.running
  nodup : s.running.Nodup
  cnt : s.execCnt = s.reportCnt + s.running.length
  idle_run : passKind s.pc = none → s.running = []
  prep_low : (s.pc = .prep ∨ s.locked = false) → ∀ m, s.status m ≤ statusOffline
  stopX_shutdown : s.pc = .stopX → s.shutdown = true
  pass_locked : (s.pc = .prep ∨ s.pc = .startS ∨ s.pc = .stopM ∨ s.pc = .startM) → s.locked = true
  range : ∀ m, s.status m ≤ statusOnline
  out_dead : ∀ m, s.n ≤ m → s.status m = statusDead

theorem inv1_init (n : Nat) (deps : Nat → List Nat) (mgmt : Bool) : Inv1 n deps mgmt (init n deps mgmt) := by
  constructor <;> simp [init, passKind]

theorem inv1_beg {n deps mgmt} {s s' : St} {k : Kind} {m : Nat} (hi : Inv1 n deps mgmt s)
    (h : stepBeg s k m = some s') : Inv1 n deps mgmt s' := by
  obtain ⟨hm, hk, hr, rfl⟩ := stepBeg_some h
  have hnotrun : m ∉ s.running := by
    intro hmem
    obtain ⟨k', hk', hst⟩ := hi.run_status m hmem
    rw [hk] at hk'; cases hk'
    cases k <;> simp [ready, readyToPrep, readyToStart, readyToStop, launchStatus] at hr hst <;> simp [hst] at hr
  constructor
  · exact hi.hn
  · exact hi.hdeps
  · exact hi.hmgmt
  · intro x hx; simp at hx; rcases hx with rfl | hx
    · exact hm
    · exact hi.run_lt x hx
  · intro x hx; simp at hx
    by_cases hxm : x = m
    · subst hxm; exact ⟨k, hk, by simp⟩
    · rcases hx with rfl | hx
      · exact absurd rfl hxm
      · obtain ⟨k', hk', hst⟩ := hi.run_status x hx
        exact ⟨k', hk', by simp [set_other _ _ hxm, hst]⟩
  · intro x hx; simp
    by_cases hxm : x = m
    · exact Or.inl hxm
    · simp [set_other _ _ hxm] at hx; exact Or.inr (hi.starting_run x hx)
  · intro x hx; simp
    by_cases hxm : x = m
    · exact Or.inl hxm
    · simp [set_other _ _ hxm] at hx; exact Or.inr (hi.stopping_run x hx)
  · simp; exact ⟨hnotrun, hi.nodup⟩
  · simp; have := hi.cnt; omega
  · intro hp; simp [hk] at hp
  · intro hp x
    by_cases hxm : x = m
    · subst hxm
      rcases hp with hp | hp
      · simp at hp; rw [hp] at hk; simp [passKind] at hk; subst hk; simp [launchStatus]
      · have hlow := hi.prep_low (Or.inr hp)
        cases k
        · simp [launchStatus]
        · -- a start pass runs only once the registry is locked
          exfalso
          have : s.locked = true := hi.pass_locked (by
            cases hpc : s.pc <;> simp [hpc, passKind] at hk ⊢)
          simp [this] at hp
        · -- nothing is online before Start: no module is ready to stop
          exfalso
          have := hlow x
          have h5 := (readyToStop_ready.mp hr).2.1
          simp at this h5
          omega
    · simp [set_other _ _ hxm]; exact hi.prep_low (by simpa using hp) x
  · exact hi.stopX_shutdown
  · exact hi.pass_locked
  · intro x
    by_cases hxm : x = m
    · subst hxm; cases k <;> simp [launchStatus]
    · simp [set_other _ _ hxm]; exact hi.range x
  · intro x hx
    simp at hx
    have hxm : x ≠ m := by omega
    simp [set_other _ _ hxm]; exact hi.out_dead x hx

theorem finStatus_cases (cur : Nat) (k : Kind) (ok : Bool) (h : cur = launchStatus k) :
    finStatus cur k ok = statusOffline ∨ finStatus cur k ok = statusOnline ∨ finStatus cur k ok = statusPreparing := by
  cases k <;> cases ok <;> simp [finStatus, launchStatus] at h ⊢ <;> omega

theorem inv1_fin {n deps mgmt} {s s' : St} {k : Kind} {m : Nat} {ok : Bool} (hi : Inv1 n deps mgmt s)
    (h : stepFin s k m ok = some s') : Inv1 n deps mgmt s' := by
  obtain ⟨hk, hmem, hst, rfl⟩ := stepFin_some h
  have hfs := finStatus_cases (s.status m) k ok hst
  have hmn := hi.run_lt m hmem
  constructor
  · exact hi.hn
  · exact hi.hdeps
  · exact hi.hmgmt
  · intro x hx; exact hi.run_lt x (List.mem_of_mem_erase hx)
  · intro x hx
    have hx' := (hi.nodup.mem_erase_iff).mp hx
    obtain ⟨k', hk', hst'⟩ := hi.run_status x hx'.2
    exact ⟨k', hk', by simp [set_other _ _ hx'.1, hst']⟩
  · intro x hx
    by_cases hxm : x = m
    · subst hxm; simp at hx hfs; omega
    · simp [set_other _ _ hxm] at hx
      exact (hi.nodup.mem_erase_iff).mpr ⟨hxm, hi.starting_run x hx⟩
  · intro x hx
    by_cases hxm : x = m
    · subst hxm; simp at hx hfs; omega
    · simp [set_other _ _ hxm] at hx
      exact (hi.nodup.mem_erase_iff).mpr ⟨hxm, hi.stopping_run x hx⟩
  · exact hi.nodup.erase m
  · simp [List.length_erase_of_mem hmem]
    have := hi.cnt
    have : 0 < s.running.length := List.length_pos_of_mem hmem
    omega
  · intro hp; simp [hk] at hp
  · intro hp x
    have hlow := hi.prep_low hp
    by_cases hxm : x = m
    · subst hxm
      have hk2 : k ≠ .start := by
        intro hks; subst hks
        rcases hp with hp | hp
        · simp at hp; simp [hp, passKind] at hk
        · have : s.locked = true := hi.pass_locked (by
            cases hpc : s.pc <;> simp [hpc, passKind] at hk ⊢)
          simp [this] at hp
      cases k <;> cases ok <;> simp [finStatus, launchStatus] at hst hk2 ⊢ <;> omega
    · simp [set_other _ _ hxm]; exact hlow x
  · exact hi.stopX_shutdown
  · exact hi.pass_locked
  · intro x
    by_cases hxm : x = m
    · subst hxm; simp at hfs ⊢; omega
    · simp [set_other _ _ hxm]; exact hi.range x
  · intro x hx
    simp at hx
    have hxm : x ≠ m := by omega
    simp [set_other _ _ hxm]; exact hi.out_dead x hx

theorem inv1_ret {n deps mgmt} {s s' : St} {a : Api} {ok : Bool} (hi : Inv1 n deps mgmt s)
    (h : stepRet s a ok = some s') : Inv1 n deps mgmt s' := by
  obtain ⟨hpc, rfl⟩ := stepRet_some h
  have hrun : s.running = [] := hi.idle_run (by simp [hpc, passKind])
  constructor
  · exact hi.hn
  · exact hi.hdeps
  · exact hi.hmgmt
  · exact hi.run_lt
  · intro x hx; simp [hrun] at hx
  · exact hi.starting_run
  · exact hi.stopping_run
  · exact hi.nodup
  · exact hi.cnt
  · intro _; exact hrun
  · intro hp; simp at hp; exact hi.prep_low (Or.inr hp)
  · intro hp; simp at hp
  · intro hp; simp at hp
  · exact hi.range
  · exact hi.out_dead

theorem inv1_enable {n deps mgmt} {s s' : St} {m : Nat} {v : Bool} (hi : Inv1 n deps mgmt s)
    (h : stepEnable s m v = some s') : Inv1 n deps mgmt s' := by
  obtain ⟨_, _, rfl⟩ := stepEnable_some h
  exact ⟨hi.hn, hi.hdeps, hi.hmgmt, hi.run_lt, hi.run_status, hi.starting_run, hi.stopping_run, hi.nodup, hi.cnt,
    hi.idle_run, hi.prep_low, hi.stopX_shutdown, hi.pass_locked, hi.range, hi.out_dead⟩

/-- Entering a pass or finishing a call: only the manager's position, the counters, the error flags, the
    dependency marks and the lock flags change, and nothing is in flight. -/
theorem inv1_move {n deps mgmt} {s s' : St} (hi : Inv1 n deps mgmt s)
    (hrun : s.running = [])
    (h1 : s'.n = s.n) (h2 : s'.deps = s.deps) (h3 : s'.mgmt = s.mgmt) (h4 : s'.status = s.status)
    (h5 : s'.running = s.running) (h6 : s'.execCnt = s'.reportCnt)
    (hlow : (s'.pc = .prep ∨ s'.locked = false) → (s.pc = .prep ∨ s.locked = false))
    (hsx : s'.pc = .stopX → s'.shutdown = true)
    (hlk : (s'.pc = .prep ∨ s'.pc = .startS ∨ s'.pc = .stopM ∨ s'.pc = .startM) → s'.locked = true) :
    Inv1 n deps mgmt s' := by
  constructor
  · rw [h1]; exact hi.hn
  · rw [h2]; exact hi.hdeps
  · rw [h3]; exact hi.hmgmt
  · rw [h5, hrun]; simp
  · rw [h5, hrun]; simp
  · intro x hx; rw [h4] at hx; have := hi.starting_run x hx; simp [hrun] at this
  · intro x hx; rw [h4] at hx; have := hi.stopping_run x hx; simp [hrun] at this
  · rw [h5, hrun]; simp
  · rw [h5, hrun, h6]; simp
  · intro _; rw [h5]; exact hrun
  · intro hp; rw [h4]; exact hi.prep_low (hlow hp)
  · exact hsx
  · exact hlk
  · rw [h4]; exact hi.range
  · rw [h1, h4]; exact hi.out_dead

theorem inv1_call {n deps mgmt} {s s' : St} {a : Api} (hi : Inv1 n deps mgmt s)
    (h : stepCall s a = some s') : Inv1 n deps mgmt s' := by
  have hrun : s.running = [] → True := fun _ => trivial
  cases a with
  | start =>
    simp only [stepCall] at h
    split at h; · cases h
    rename_i hpc; simp at hpc
    have hrun : s.running = [] := hi.idle_run (by simp [hpc, passKind])
    have hcnt := hi.cnt; simp [hrun] at hcnt
    split at h; · cases h
    split at h
    · cases h; exact inv1_move hi hrun rfl rfl rfl rfl rfl hcnt (by simp; exact Or.inr) (by simp) (by simp)
    · rename_i hlk; simp at hlk
      split at h
      · cases h
        refine inv1_move hi hrun rfl rfl rfl rfl rfl hcnt ?_ (by simp) (by simp)
        simp
      · cases h
        refine inv1_move hi hrun rfl rfl rfl rfl rfl rfl ?_ (by simp [enterPass]) (by simp [enterPass])
        intro _; exact Or.inr hlk
  | manage =>
    simp only [stepCall] at h
    split at h; · cases h
    rename_i hpc; simp at hpc
    have hrun : s.running = [] := hi.idle_run (by simp [hpc, passKind])
    have hcnt := hi.cnt; simp [hrun] at hcnt
    split at h
    · cases h; exact inv1_move hi hrun rfl rfl rfl rfl rfl hcnt (by simp [hpc]) (by simp) (by simp)
    · split at h; · cases h
      rename_i hlk; simp at hlk
      split at h; · cases h
      cases h
      refine inv1_move hi hrun rfl rfl rfl rfl rfl rfl ?_ (by simp [enterPass]) (by simp [enterPass, buildEnabledTree, hlk])
      simp [enterPass, buildEnabledTree, hlk]
  | shutdown =>
    simp only [stepCall] at h
    split at h; · cases h
    rename_i hpc; simp at hpc
    have hrun : s.running = [] := hi.idle_run (by simp [hpc, passKind])
    have hcnt := hi.cnt; simp [hrun] at hcnt
    split at h
    · cases h; exact inv1_move hi hrun rfl rfl rfl rfl rfl hcnt (by simp [hpc]) (by simp) (by simp)
    · cases h
      refine inv1_move hi hrun rfl rfl rfl rfl rfl rfl ?_ (by simp [enterPass]) (by simp [enterPass])
      simp [enterPass]; exact Or.inr

theorem passEnd_running {n deps mgmt} {s s' : St} (hi : Inv1 n deps mgmt s) (h : stepPassEnd s = some s') :
    s.running = [] ∧ s.execCnt = s.reportCnt := by
  unfold stepPassEnd at h
  split at h; · cases h
  rename_i hc
  have := hi.cnt
  have hl : s.running.length = 0 := by omega
  exact ⟨List.eq_nil_of_length_eq_zero hl, by omega⟩

theorem inv1_passEnd {n deps mgmt} {s s' : St} (hi : Inv1 n deps mgmt s)
    (h : stepPassEnd s = some s') : Inv1 n deps mgmt s' := by
  obtain ⟨hrun, hcnt⟩ := passEnd_running hi h
  have hlk : (s.pc = .prep ∨ s.pc = .stopM) → s.locked = true := by
    intro hp; rcases hp with hp | hp
    · exact hi.pass_locked (Or.inl hp)
    · exact hi.pass_locked (Or.inr (Or.inr (Or.inl hp)))
  unfold stepPassEnd at h
  split at h; · cases h
  split at h <;> (try rename_i hpc) <;> repeat' split at h
  all_goals first
    | (cases h; done)
    | (cases h; exact inv1_move hi hrun rfl rfl rfl rfl rfl hcnt (by simp; exact Or.inr) (by simp) (by simp))
    | (cases h; exact inv1_move hi hrun rfl rfl rfl rfl rfl rfl (by simp [enterPass, buildEnabledTree]; exact Or.inr)
               (by simp [enterPass]) (by simp [enterPass, buildEnabledTree]; exact hlk (Or.inl hpc)))
    | (cases h; exact inv1_move hi hrun rfl rfl rfl rfl rfl rfl (by simp [enterPass, buildEnabledTree]; exact Or.inr)
               (by simp [enterPass]) (by simp [enterPass, buildEnabledTree]; exact hlk (Or.inr hpc)))

theorem inv1_step {n deps mgmt} {s s' : St} {e : Ev} (hi : Inv1 n deps mgmt s)
    (h : step s e = some s') : Inv1 n deps mgmt s' := by
  cases e with
  | call a => exact inv1_call hi h
  | ret a ok => exact inv1_ret hi h
  | beg k m => exact inv1_beg hi h
  | fin k m ok => exact inv1_fin hi h
  | passEnd => exact inv1_passEnd hi h
  | enable m => exact inv1_enable hi h
  | disable m => exact inv1_enable hi h

theorem inv1_of_runs {n deps mgmt} {tr : List Ev} {s : St} (h : Runs (init n deps mgmt) tr s) :
    Inv1 n deps mgmt s := by
  induction h with
  | nil => exact inv1_init n deps mgmt
  | snoc _ hs ih => exact inv1_step ih hs

/-! ### Frames of the quiet steps -/

theorem stepCall_frame {s s' : St} {a : Api} (h : stepCall s a = some s') :
    s'.status = s.status ∧ s'.enabled = s.enabled ∧ s'.running = s.running ∧ s'.n = s.n ∧ s'.deps = s.deps ∧
    s'.mgmt = s.mgmt ∧ s.pc = .idle ∧ (s'.pc = .prep → s.locked = false) ∧ (s.locked = true → s'.locked = true) := by
  cases a <;> simp only [stepCall] at h <;> (repeat' split at h) <;>
    first
      | (cases h; done)
      | (cases h; simp_all [enterPass, buildEnabledTree])

theorem stepPassEnd_frame {s s' : St} (h : stepPassEnd s = some s') :
    s'.status = s.status ∧ s'.enabled = s.enabled ∧ s'.running = s.running ∧ s'.n = s.n ∧ s'.deps = s.deps ∧
    s'.mgmt = s.mgmt ∧ s'.pc ≠ .prep ∧ s'.locked = s.locked ∧ s'.shutdown = s.shutdown := by
  unfold stepPassEnd at h
  (repeat' split at h) <;>
    first
      | (cases h; done)
      | (cases h; simp_all [enterPass, buildEnabledTree])

/-! ### History functions under one more event -/

open PB.Modules.Spec

theorem lifeOf_snoc (tr : List Ev) (e : Ev) : lifeOf (tr ++ [e]) = lifeUpd (lifeOf tr) e := by
  simp [lifeOf, List.foldl_append]

theorem enabledOf_snoc (tr : List Ev) (e : Ev) : enabledOf (tr ++ [e]) = enabledUpd (enabledOf tr) e := by
  simp [enabledOf, List.foldl_append]

theorem prepBegun_snoc (tr : List Ev) (e : Ev) (m : Nat) :
    prepBegun (tr ++ [e]) m = prepBegun tr m + (if e = .beg .prep m then 1 else 0) := by
  simp [prepBegun, List.countP_append, List.countP_cons]

theorem prepEnded_snoc (tr : List Ev) (e : Ev) (m : Nat) :
    prepEnded (tr ++ [e]) m = prepEnded tr m + (if e = .fin .prep m true ∨ e = .fin .prep m false then 1 else 0) := by
  simp [prepEnded, List.countP_append, List.countP_cons]

theorem startsOk_snoc (tr : List Ev) (e : Ev) (m : Nat) :
    startsOk (tr ++ [e]) m = startsOk tr m + (if e = .fin .start m true then 1 else 0) := by
  simp [startsOk, List.countP_append, List.countP_cons]

theorem stopsBegun_snoc (tr : List Ev) (e : Ev) (m : Nat) :
    stopsBegun (tr ++ [e]) m = stopsBegun tr m + (if e = .beg .stop m then 1 else 0) := by
  simp [stopsBegun, List.countP_append, List.countP_cons]

theorem begun_snoc (tr : List Ev) (e : Ev) :
    begun (tr ++ [e]) = begun tr + (match e with | .beg _ _ => 1 | _ => 0) := by
  cases e <;> simp [begun, List.countP_append, List.countP_cons]

theorem ended_snoc (tr : List Ev) (e : Ev) :
    ended (tr ++ [e]) = ended tr + (match e with | .fin _ _ _ => 1 | _ => 0) := by
  cases e <;> simp [ended, List.countP_append, List.countP_cons]

theorem prepOk_snoc {tr : List Ev} {e : Ev} {m : Nat} : prepOk (tr ++ [e]) m ↔ prepOk tr m ∨ e = .fin .prep m true := by
  simp [prepOk, eq_comm]

theorem startBegun_snoc {tr : List Ev} {e : Ev} : startBegun (tr ++ [e]) ↔ startBegun tr ∨ ∃ m, e = .beg .start m := by
  simp [startBegun, eq_comm]
  constructor
  · rintro ⟨m, h | h⟩
    · exact Or.inl ⟨m, h⟩
    · exact Or.inr ⟨m, h⟩
  · rintro (⟨m, h⟩ | ⟨m, h⟩)
    · exact ⟨m, Or.inl h⟩
    · exact ⟨m, Or.inr h⟩

/-! ### History invariant -/

def lifeCode (st : Nat) : Nat :=
  if st = statusStarting then 1 else if st = statusOnline then 2 else if st = statusStopping then 3 else 0

structure Inv2 (tr : List Ev) (s : St) : Prop where
  life : ∀ m, lifeOf tr m = lifeCode (s.status m)
  prep0 : ∀ m, prepBegun tr m = 0 ↔ s.status m = statusDead
  prep1 : ∀ m, prepBegun tr m ≤ 1
  prepok : ∀ m, statusOffline ≤ s.status m → prepOk tr m
  nostart : startBegun tr → s.locked = true ∧ s.pc ≠ .prep
  popen : ∀ m, prepBegun tr m = prepEnded tr m + (if s.pc = .prep ∧ m ∈ s.running then 1 else 0)
  cnt : ∀ m, startsOk tr m = stopsBegun tr m + (if s.status m = statusOnline then 1 else 0)
  en : ∀ m, s.enabled m = enabledOf tr m
  en_lt : ∀ m, s.enabled m = true → m < s.n
  bal : begun tr = ended tr + s.running.length

theorem inv2_init (n : Nat) (deps : Nat → List Nat) (mgmt : Bool) : Inv2 [] (init n deps mgmt) := by
  constructor <;> simp [init, lifeOf, lifeCode, prepBegun, prepEnded, prepOk, startBegun, startsOk, stopsBegun, enabledOf, begun, ended]

/-- `call`, `ret`, `passEnd`: no callback event, no status change, nothing in flight. -/
theorem inv2_quiet {tr : List Ev} {s s' : St} {e : Ev} (hi : Inv2 tr s)
    (he : (∃ a, e = .call a) ∨ (∃ a ok, e = .ret a ok) ∨ e = .passEnd)
    (h4 : s'.status = s.status) (h5 : s'.enabled = s.enabled) (h0 : s'.n = s.n) (hr : s.running = []) (hr' : s'.running = [])
    (hns : startBegun tr → s'.locked = true ∧ s'.pc ≠ .prep) : Inv2 (tr ++ [e]) s' := by
  have hl : lifeOf (tr ++ [e]) = lifeOf tr := by
    rw [lifeOf_snoc]; rcases he with ⟨a, rfl⟩ | ⟨a, ok, rfl⟩ | rfl <;> rfl
  have hen : enabledOf (tr ++ [e]) = enabledOf tr := by
    rw [enabledOf_snoc]; rcases he with ⟨a, rfl⟩ | ⟨a, ok, rfl⟩ | rfl <;> rfl
  have h1 : ∀ m, prepBegun (tr ++ [e]) m = prepBegun tr m := by
    intro m; rw [prepBegun_snoc]; rcases he with ⟨a, rfl⟩ | ⟨a, ok, rfl⟩ | rfl <;> simp
  have h2 : ∀ m, prepEnded (tr ++ [e]) m = prepEnded tr m := by
    intro m; rw [prepEnded_snoc]; rcases he with ⟨a, rfl⟩ | ⟨a, ok, rfl⟩ | rfl <;> simp
  have h3 : ∀ m, startsOk (tr ++ [e]) m = startsOk tr m := by
    intro m; rw [startsOk_snoc]; rcases he with ⟨a, rfl⟩ | ⟨a, ok, rfl⟩ | rfl <;> simp
  have h6 : ∀ m, stopsBegun (tr ++ [e]) m = stopsBegun tr m := by
    intro m; rw [stopsBegun_snoc]; rcases he with ⟨a, rfl⟩ | ⟨a, ok, rfl⟩ | rfl <;> simp
  have h7 : begun (tr ++ [e]) = begun tr := by
    rw [begun_snoc]; rcases he with ⟨a, rfl⟩ | ⟨a, ok, rfl⟩ | rfl <;> simp
  have h8 : ended (tr ++ [e]) = ended tr := by
    rw [ended_snoc]; rcases he with ⟨a, rfl⟩ | ⟨a, ok, rfl⟩ | rfl <;> simp
  have h9 : ∀ m, prepOk (tr ++ [e]) m ↔ prepOk tr m := by
    intro m; rw [prepOk_snoc]; rcases he with ⟨a, rfl⟩ | ⟨a, ok, rfl⟩ | rfl <;> simp
  have h10 : startBegun (tr ++ [e]) ↔ startBegun tr := by
    rw [startBegun_snoc]; rcases he with ⟨a, rfl⟩ | ⟨a, ok, rfl⟩ | rfl <;> simp
  constructor
  · intro m; rw [hl, h4]; exact hi.life m
  · intro m; rw [h1, h4]; exact hi.prep0 m
  · intro m; rw [h1]; exact hi.prep1 m
  · intro m hm; rw [h9]; rw [h4] at hm; exact hi.prepok m hm
  · intro hs; exact hns (h10.mp hs)
  · intro m; rw [h1, h2, hr']; have := hi.popen m; simp [hr] at this; simp [this]
  · intro m; rw [h3, h6, h4]; exact hi.cnt m
  · intro m; rw [hen, h5]; exact hi.en m
  · intro m; rw [h5, h0]; exact hi.en_lt m
  · rw [h7, h8, hr']; have := hi.bal; simp [hr] at this; simp [this]

theorem lifeCode_launch (k : Kind) : lifeCode (launchStatus k) = match k with | .prep => 0 | .start => 1 | .stop => 3 := by
  cases k <;> simp [lifeCode, launchStatus]

theorem inv2_beg {n deps mgmt} {tr : List Ev} {s s' : St} {k : Kind} {m : Nat} (h1 : Inv1 n deps mgmt s)
    (hi : Inv2 tr s) (h : stepBeg s k m = some s') : Inv2 (tr ++ [.beg k m]) s' := by
  obtain ⟨hm, hk, hr, rfl⟩ := stepBeg_some h
  have hnotrun : m ∉ s.running := by
    intro hmem
    obtain ⟨k', hk', hst⟩ := h1.run_status m hmem
    rw [hk] at hk'; cases hk'
    cases k <;> simp [ready, readyToPrep, readyToStart, readyToStop, launchStatus] at hr hst <;> simp [hst] at hr
  -- the status of m before the launch
  have hold : s.status m = (match k with | .prep => statusDead | .start => statusOffline | .stop => statusOnline) := by
    cases k
    · exact (readyToPrep_ready.mp hr).1
    · exact (readyToStart_ready.mp hr).2.1
    · exact (readyToStop_ready.mp hr).2.1
  have hpc : (s.pc = .prep ↔ k = .prep) := by
    cases hp : s.pc <;> cases k <;> simp [hp, passKind] at hk ⊢
  constructor
  · intro x
    rw [lifeOf_snoc]
    by_cases hxm : x = m
    · subst hxm
      have := hi.life x
      cases k <;> simp [lifeUpd, lifeCode, launchStatus, hold] at this ⊢ <;> exact this
    · have := hi.life x
      cases k <;> simp [lifeUpd, set_other _ _ hxm] <;> exact this
  · intro x
    rw [prepBegun_snoc]
    by_cases hxm : x = m
    · subst hxm
      have := hi.prep0 x
      cases k <;> simp [launchStatus, hold] at this ⊢ <;> omega
    · have : ¬ (Ev.beg k m = Ev.beg .prep x) := by intro he; cases he; exact hxm rfl
      simp [this, set_other _ _ hxm]; exact hi.prep0 x
  · intro x
    rw [prepBegun_snoc]
    by_cases hxm : x = m
    · subst hxm
      have := hi.prep0 x; have := hi.prep1 x
      cases k <;> simp [hold] at * <;> omega
    · have : ¬ (Ev.beg k m = Ev.beg .prep x) := by intro he; cases he; exact hxm rfl
      simp [this]; exact hi.prep1 x
  · intro x hx
    rw [prepOk_snoc]; left
    by_cases hxm : x = m
    · subst hxm
      apply hi.prepok
      cases k <;> simp [launchStatus, hold] at hx ⊢
    · simp [set_other _ _ hxm] at hx; exact hi.prepok x hx
  · intro hs
    rw [startBegun_snoc] at hs
    rcases hs with hs | ⟨x, hx⟩
    · exact hi.nostart hs
    · cases hx
      refine ⟨h1.pass_locked ?_, ?_⟩
      · cases hp : s.pc <;> simp [hp, passKind] at hk ⊢
      · simp; intro hp; simp [hp, passKind] at hk
  · intro x
    rw [prepBegun_snoc, prepEnded_snoc]
    have := hi.popen x
    by_cases hxm : x = m
    · subst hxm
      cases k <;> simp [hpc, hnotrun] at this ⊢ <;> omega
    · have h' : ¬ (Ev.beg k m = Ev.beg .prep x) := by intro he; cases he; exact hxm rfl
      simp [h', hxm] at this ⊢; exact this
  · intro x
    rw [startsOk_snoc, stopsBegun_snoc]
    have := hi.cnt x
    by_cases hxm : x = m
    · subst hxm
      cases k <;> simp [launchStatus, hold] at this ⊢ <;> omega
    · have h' : ¬ (Ev.beg k m = Ev.beg .stop x) := by intro he; cases he; exact hxm rfl
      simp [h', set_other _ _ hxm] at this ⊢; exact this
  · intro x; rw [enabledOf_snoc]; exact hi.en x
  · exact hi.en_lt
  · rw [begun_snoc, ended_snoc]; have := hi.bal; simp; omega

theorem inv2_fin {n deps mgmt} {tr : List Ev} {s s' : St} {k : Kind} {m : Nat} {ok : Bool} (h1 : Inv1 n deps mgmt s)
    (hi : Inv2 tr s) (h : stepFin s k m ok = some s') : Inv2 (tr ++ [.fin k m ok]) s' := by
  obtain ⟨hk, hmem, hst, rfl⟩ := stepFin_some h
  have hpc : (s.pc = .prep ↔ k = .prep) := by
    cases hp : s.pc <;> cases k <;> simp [hp, passKind] at hk ⊢
  have hne : m ∉ s.running.erase m := fun hx => ((h1.nodup.mem_erase_iff).mp hx).1 rfl
  have hmem' : ∀ x, x ≠ m → (x ∈ s.running.erase m ↔ x ∈ s.running) := by
    intro x hx; rw [h1.nodup.mem_erase_iff]; simp [hx]
  constructor
  · intro x
    rw [lifeOf_snoc]
    by_cases hxm : x = m
    · subst hxm
      have := hi.life x
      cases k <;> cases ok <;> simp [lifeUpd, lifeCode, launchStatus, finStatus, hst] at this ⊢ <;> exact this
    · have := hi.life x
      cases k <;> cases ok <;> simp [lifeUpd, set_other _ _ hxm] <;> exact this
  · intro x
    rw [prepBegun_snoc]
    by_cases hxm : x = m
    · subst hxm
      have := hi.prep0 x
      cases k <;> cases ok <;> simp [launchStatus, finStatus, hst] at this ⊢ <;> omega
    · simp [set_other _ _ hxm]; exact hi.prep0 x
  · intro x; rw [prepBegun_snoc]; simp; exact hi.prep1 x
  · intro x hx
    rw [prepOk_snoc]
    by_cases hxm : x = m
    · subst hxm
      cases k <;> cases ok <;> simp [launchStatus, finStatus, hst] at hx ⊢
      all_goals first
        | (apply hi.prepok; simp [hst, launchStatus]; done)
        | (left; apply hi.prepok; simp [hst, launchStatus]; done)
    · left; simp [set_other _ _ hxm] at hx; exact hi.prepok x hx
  · intro hs
    rw [startBegun_snoc] at hs
    rcases hs with hs | ⟨x, hx⟩
    · exact hi.nostart hs
    · cases hx
  · intro x
    rw [prepBegun_snoc, prepEnded_snoc]
    have := hi.popen x
    by_cases hxm : x = m
    · subst hxm
      cases k <;> cases ok <;> simp [hpc, hne, hmem] at this ⊢ <;> omega
    · have h' : ¬ (Ev.fin k m ok = Ev.fin .prep x true) := by intro he; cases he; exact hxm rfl
      have h'' : ¬ (Ev.fin k m ok = Ev.fin .prep x false) := by intro he; cases he; exact hxm rfl
      simp [h', h'', hmem' x hxm] at this ⊢; exact this
  · intro x
    rw [startsOk_snoc, stopsBegun_snoc]
    have := hi.cnt x
    by_cases hxm : x = m
    · subst hxm
      cases k <;> cases ok <;> simp [launchStatus, finStatus, hst] at this ⊢ <;> omega
    · have h' : ¬ (Ev.fin k m ok = Ev.fin .start x true) := by intro he; cases he; exact hxm rfl
      simp [h', set_other _ _ hxm] at this ⊢; exact this
  · intro x; rw [enabledOf_snoc]; exact hi.en x
  · exact hi.en_lt
  · rw [begun_snoc, ended_snoc]
    have := hi.bal
    have hl := List.length_erase_of_mem hmem
    have : 0 < s.running.length := List.length_pos_of_mem hmem
    simp [hl]; omega

theorem inv2_enable {tr : List Ev} {s s' : St} {m : Nat} {v : Bool} (hi : Inv2 tr s)
    (h : stepEnable s m v = some s') :
    Inv2 (tr ++ [if v then .enable m else .disable m]) s' := by
  obtain ⟨hpc, hm, rfl⟩ := stepEnable_some h
  have he : ∀ x, enabledOf (tr ++ [if v then Ev.enable m else Ev.disable m]) x = set (enabledOf tr) m v x := by
    intro x; rw [enabledOf_snoc]; cases v <;> simp [enabledUpd]
  constructor
  · intro x; rw [lifeOf_snoc]; cases v <;> exact hi.life x
  · intro x; rw [prepBegun_snoc]; cases v <;> simp <;> exact hi.prep0 x
  · intro x; rw [prepBegun_snoc]; cases v <;> simp <;> exact hi.prep1 x
  · intro x hx; rw [prepOk_snoc]; left; exact hi.prepok x hx
  · intro hs; rw [startBegun_snoc] at hs
    rcases hs with hs | ⟨x, hx⟩
    · exact hi.nostart hs
    · cases v <;> cases hx
  · intro x; rw [prepBegun_snoc, prepEnded_snoc]; have := hi.popen x; cases v <;> simp at this ⊢ <;> exact this
  · intro x; rw [startsOk_snoc, stopsBegun_snoc]; have := hi.cnt x; cases v <;> simp at this ⊢ <;> exact this
  · intro x; rw [he]
    by_cases hxm : x = m
    · subst hxm; simp
    · simp [set_other _ _ hxm]; exact hi.en x
  · intro x hx
    by_cases hxm : x = m
    · subst hxm; exact hm
    · simp [set_other _ _ hxm] at hx; exact hi.en_lt x hx
  · rw [begun_snoc, ended_snoc]; have := hi.bal; cases v <;> simp <;> exact this

theorem inv2_step {n deps mgmt} {tr : List Ev} {s s' : St} {e : Ev} (h1 : Inv1 n deps mgmt s) (hi : Inv2 tr s)
    (h : step s e = some s') : Inv2 (tr ++ [e]) s' := by
  cases e with
  | call a =>
    obtain ⟨f1, f2, f3, f4, _, _, f7, f8, f9⟩ := stepCall_frame h
    have hr : s.running = [] := h1.idle_run (by simp [f7, passKind])
    refine inv2_quiet hi (Or.inl ⟨a, rfl⟩) f1 f2 f4 hr (by rw [f3]; exact hr) ?_
    intro hs
    have := hi.nostart hs
    refine ⟨f9 this.1, ?_⟩
    intro hp; have := f8 hp; simp_all
  | ret a ok =>
    obtain ⟨hpc, rfl⟩ := stepRet_some h
    have hr : s.running = [] := h1.idle_run (by simp [hpc, passKind])
    refine inv2_quiet hi (Or.inr (Or.inl ⟨a, ok, rfl⟩)) rfl rfl rfl hr hr ?_
    intro hs; exact ⟨(hi.nostart hs).1, by simp⟩
  | beg k m => exact inv2_beg h1 hi h
  | fin k m ok => exact inv2_fin h1 hi h
  | passEnd =>
    obtain ⟨hr, _⟩ := passEnd_running h1 h
    obtain ⟨f1, f2, f3, f4, _, _, f7, f8, _⟩ := stepPassEnd_frame h
    refine inv2_quiet hi (Or.inr (Or.inr rfl)) f1 f2 f4 hr (by rw [f3]; exact hr) ?_
    intro hs; exact ⟨by rw [f8]; exact (hi.nostart hs).1, f7⟩
  | enable m => exact inv2_enable (v := true) hi h
  | disable m => exact inv2_enable (v := false) hi h

theorem inv2_of_runs {n deps mgmt} {tr : List Ev} {s : St} (h : Runs (init n deps mgmt) tr s) : Inv2 tr s := by
  induction h with
  | nil => exact inv2_init n deps mgmt
  | snoc hr hs ih => exact inv2_step (inv1_of_runs hr) ih hs

/-! ### Fix-point arguments -/

theorem noneReady_spec {s : St} {k : Kind} (h : noneReady s k = true) {m : Nat} (hm : m < s.n) :
    ready s k m ≠ readyReady := by
  unfold noneReady at h
  have := (List.all_eq_true.mp h) m (List.mem_range.mpr hm)
  simpa using this

theorem anyWaiting_spec {s : St} {k : Kind} (h : anyWaiting s k = false) {m : Nat} (hm : m < s.n) :
    ready s k m ≠ readyWaiting := by
  unfold anyWaiting at h
  intro hw
  have : (List.range s.n).any (fun m => ready s k m == readyWaiting) = true :=
    List.any_eq_true.mpr ⟨m, List.mem_range.mpr hm, by simp [hw]⟩
  simp [this] at h

theorem exists_max_rank (rank : Nat → Nat) (P : Nat → Prop) (n : Nat) (h : ∃ m, m < n ∧ P m) :
    ∃ m, m < n ∧ P m ∧ ∀ x, x < n → P x → rank x ≤ rank m := by
  induction n with
  | zero => obtain ⟨m, hm, _⟩ := h; omega
  | succ n ih =>
    by_cases hex : ∃ m, m < n ∧ P m
    · obtain ⟨m0, hm0, hp0, hmax⟩ := ih hex
      by_cases hn : P n ∧ rank m0 < rank n
      · refine ⟨n, by omega, hn.1, ?_⟩
        intro x hx hpx
        by_cases hxn : x = n
        · subst hxn; omega
        · have := hmax x (by omega) hpx; omega
      · refine ⟨m0, by omega, hp0, ?_⟩
        intro x hx hpx
        by_cases hxn : x = n
        · subst hxn
          have : ¬ rank m0 < rank x := fun hlt => hn ⟨hpx, hlt⟩
          omega
        · exact hmax x (by omega) hpx
    · obtain ⟨m, hm, hp⟩ := h
      have hmn : m = n := by
        apply Classical.byContradiction; intro hne; exact hex ⟨m, by omega, hp⟩
      subst hmn
      refine ⟨m, by omega, hp, ?_⟩
      intro x hx hpx
      by_cases hxn : x = m
      · subst hxn; omega
      · exact absurd ⟨x, by omega, hpx⟩ hex

/-- The condition under which `readyToStop` leaves an online module alone. -/
def keep (s : St) (m : Nat) : Bool := s.mgmt && !s.shutdown && (s.enabled m || s.asDep m)

/-- When a stop pass has reached its fix point (nothing in flight, no module ready), every module that is
    still online is one the pass had to keep — provided the graph is acyclic and the kept set is closed
    under dependencies. -/
theorem stop_fixpoint {n deps mgmt} {s : St} (h1 : Inv1 n deps mgmt s) (rank : Nat → Nat)
    (hrank : ∀ m, m < s.n → ∀ d ∈ s.deps m, rank d < rank m)
    (hrun : s.running = []) (hnr : noneReady s .stop = true)
    (hclosed : ∀ r, r < s.n → keep s r = true → ∀ d ∈ s.deps r, keep s d = true) :
    ∀ m, m < s.n → s.status m = statusOnline → keep s m = true := by
  intro m hm hon
  apply Classical.byContradiction
  intro hk
  obtain ⟨m0, hm0, ⟨hon0, hk0⟩, hmax⟩ :=
    exists_max_rank rank (fun x => s.status x = statusOnline ∧ keep s x ≠ true) s.n ⟨m, hm, hon, hk⟩
  have hready : readyToStop s m0 = readyReady := by
    rw [readyToStop_ready]
    refine ⟨by simpa [keep] using hk0, hon0, ?_⟩
    intro r hr
    obtain ⟨hrn, hdr⟩ := mem_revDeps.mp hr
    apply Classical.byContradiction
    intro hgt
    have hrange := h1.range r
    have h3 : s.status r ≠ statusStopping := fun h => by have := h1.stopping_run r h; simp [hrun] at this
    have h4 : s.status r ≠ statusStarting := fun h => by have := h1.starting_run r h; simp [hrun] at this
    have h5 : s.status r = statusOnline := by simp at hgt hrange h3 h4 ⊢; omega
    have hkr : keep s r ≠ true := fun hkr => hk0 (hclosed r hrn hkr m0 hdr)
    have := hmax r hrn ⟨h5, hkr⟩
    have := hrank r hrn m0 hdr
    omega
  exact noneReady_spec hnr hm0 hready

theorem start_fixpoint {n deps mgmt} {s : St} (h1 : Inv1 n deps mgmt s)
    (hrun : s.running = []) (hnr : noneReady s .start = true) (hnw : anyWaiting s .start = false) :
    ∀ m, m < s.n → wanted s m = true → s.status m = statusOnline := by
  intro m hm hw
  have hnr' := noneReady_spec hnr hm
  have hnw' := anyWaiting_spec hnw hm
  simp only [ready] at hnr' hnw'
  rw [Ne, readyToStart_ready] at hnr'
  rw [Ne, readyToStart_waiting] at hnw'
  have hrange := h1.range m
  have h3 : s.status m ≠ statusStopping := fun h => by have := h1.stopping_run m h; simp [hrun] at this
  have h4 : s.status m ≠ statusStarting := fun h => by have := h1.starting_run m h; simp [hrun] at this
  apply Classical.byContradiction
  intro h5
  by_cases hlow : s.status m < statusOffline
  · exact hnw' ⟨hw, Or.inl hlow⟩
  · have h2 : s.status m = statusOffline := by simp at hlow hrange h3 h4 h5 ⊢; omega
    by_cases hd : ∃ d ∈ s.deps m, s.status d < statusOnline
    · exact hnw' ⟨hw, Or.inr ⟨h2, hd⟩⟩
    · apply hnr'
      refine ⟨hw, h2, ?_⟩
      intro d hdm
      apply Classical.byContradiction
      intro hlt
      exact hd ⟨d, hdm, by simp at hlt ⊢; omega⟩

/-! ### Wanted / shutdown invariant -/

def AsDepSpec (s : St) : Prop :=
  ∀ m, s.asDep m = true ↔ ∃ e, e < s.n ∧ s.enabled e = true ∧ TransDep s.deps e m

theorem buildEnabledTree_spec {s : St} (hreg : ∀ m, m < s.n → ∀ d ∈ s.deps m, d < s.n) :
    AsDepSpec (buildEnabledTree s) := by
  intro m
  simp only [buildEnabledTree]
  exact closure_spec s.n s.deps s.enabled hreg m

theorem keep_closed {s : St} (hs : AsDepSpec s) :
    ∀ r, r < s.n → keep s r = true → ∀ d ∈ s.deps r, keep s d = true := by
  intro r hr hk d hd
  simp only [keep, Bool.and_eq_true, Bool.or_eq_true] at hk ⊢
  refine ⟨hk.1, Or.inr ?_⟩
  rw [hs d]
  rcases hk.2 with hen | had
  · exact ⟨r, hr, hen, TransDep.direct hd⟩
  · obtain ⟨e, he, hee, ht⟩ := (hs r).mp had
    exact ⟨e, he, hee, transDep_tail ht hd⟩

structure Inv3 (s : St) : Prop where
  asdep : (s.pc = .startS ∨ s.pc = .stopM ∨ s.pc = .startM ∨ s.pc = .done .start true ∨
            (s.pc = .done .manage true ∧ s.mgmt = true)) → AsDepSpec s
  up : (s.pc = .startS ∨ s.pc = .startM) → ∀ m, statusOffline < s.status m → wanted s m = true
  okS : (s.pc = .done .start true ∨ (s.pc = .done .manage true ∧ s.mgmt = true)) →
          ∀ m, m < s.n → (s.status m = statusOnline ↔ wanted s m = true)
  down : s.shutdown = true → s.pc ≠ .stopX → ∀ m, s.status m ≠ statusOnline
  sd_pc : s.shutdown = true → passKind s.pc = none ∨ s.pc = .stopX

theorem inv3_init (n : Nat) (deps : Nat → List Nat) (mgmt : Bool) : Inv3 (init n deps mgmt) := by
  constructor <;> simp [init, passKind]

theorem inv3_beg {n deps mgmt} {s s' : St} {k : Kind} {m : Nat} (h1 : Inv1 n deps mgmt s) (hi : Inv3 s)
    (h : stepBeg s k m = some s') : Inv3 s' := by
  obtain ⟨hm, hk, hr, rfl⟩ := stepBeg_some h
  constructor
  · intro hp; exact hi.asdep hp
  · intro hp x hx
    by_cases hxm : x = m
    · subst hxm
      have hks : k = .start := by
        rcases hp with hp | hp <;> simp at hp <;> simp [hp, passKind] at hk <;> exact hk.symm
      subst hks
      exact (readyToStart_ready.mp hr).1
    · simp [set_other _ _ hxm] at hx; exact hi.up hp x (by simpa using hx)
  · intro hp; exfalso
    rcases hp with hp | ⟨hp, _⟩ <;> simp at hp <;> simp [hp, passKind] at hk
  · intro hsd hne x
    exfalso
    rcases hi.sd_pc hsd with hp | hp
    · simp [hp] at hk
    · exact hne hp
  · exact hi.sd_pc

theorem inv3_fin {n deps mgmt} {s s' : St} {k : Kind} {m : Nat} {ok : Bool} (h1 : Inv1 n deps mgmt s) (hi : Inv3 s)
    (h : stepFin s k m ok = some s') : Inv3 s' := by
  obtain ⟨hk, hmem, hst, rfl⟩ := stepFin_some h
  constructor
  · intro hp; exact hi.asdep hp
  · intro hp x hx
    by_cases hxm : x = m
    · subst hxm
      have hks : k = .start := by
        rcases hp with hp | hp <;> simp at hp <;> simp [hp, passKind] at hk <;> exact hk.symm
      subst hks
      exact hi.up hp x (by simp [hst, launchStatus])
    · simp [set_other _ _ hxm] at hx; exact hi.up hp x (by simpa using hx)
  · intro hp; exfalso
    rcases hp with hp | ⟨hp, _⟩ <;> simp at hp <;> simp [hp, passKind] at hk
  · intro hsd hne x
    exfalso
    rcases hi.sd_pc hsd with hp | hp
    · simp [hp] at hk
    · exact hne hp
  · exact hi.sd_pc

theorem inv3_ret {s s' : St} {a : Api} {ok : Bool} (hi : Inv3 s)
    (h : stepRet s a ok = some s') : Inv3 s' := by
  obtain ⟨hpc, rfl⟩ := stepRet_some h
  constructor
  · intro hp; simp at hp
  · intro hp; simp at hp
  · intro hp; simp at hp
  · intro hsd _; exact hi.down hsd (by simp [hpc])
  · intro _; left; simp [passKind]

theorem inv3_enable {s s' : St} {m : Nat} {v : Bool} (hi : Inv3 s)
    (h : stepEnable s m v = some s') : Inv3 s' := by
  obtain ⟨hpc, _, rfl⟩ := stepEnable_some h
  constructor
  · intro hp; simp [hpc] at hp
  · intro hp; simp [hpc] at hp
  · intro hp; simp [hpc] at hp
  · intro hsd hne; exact hi.down hsd hne
  · exact hi.sd_pc

theorem inv3_call {n deps mgmt} {s s' : St} {a : Api} (h1 : Inv1 n deps mgmt s) (hi : Inv3 s)
    (hreg : ∀ m, m < n → ∀ d ∈ deps m, d < n)
    (h : stepCall s a = some s') : Inv3 s' := by
  have hreg' : ∀ m, m < s.n → ∀ d ∈ s.deps m, d < s.n := by rw [h1.hn, h1.hdeps]; exact hreg
  cases a with
  | start =>
    simp only [stepCall] at h
    split at h; · cases h
    rename_i hpc; simp at hpc
    split at h; · cases h
    rename_i hsd
    have hdown : ∀ x : St, x.shutdown = s.shutdown → (x.shutdown = true → x.pc ≠ .stopX → ∀ m, x.status m ≠ statusOnline) := by
      intro x hx hxs; rw [hx] at hxs; exact absurd hxs hsd
    have hsdpc : ∀ x : St, x.shutdown = s.shutdown → (x.shutdown = true → passKind x.pc = none ∨ x.pc = .stopX) := by
      intro x hx hxs; rw [hx] at hxs; exact absurd hxs hsd
    (repeat' split at h) <;> cases h <;>
      exact ⟨by simp [enterPass], by simp [enterPass], by simp [enterPass], hdown _ rfl, hsdpc _ rfl⟩
  | manage =>
    simp only [stepCall] at h
    split at h; · cases h
    rename_i hpc; simp at hpc
    split at h
    · rename_i hmg; simp at hmg
      cases h
      exact ⟨by simp [hmg], by simp, by simp [hmg], fun hsd _ => hi.down hsd (by simp [hpc]), fun _ => Or.inl (by simp [passKind])⟩
    · split at h; · cases h
      split at h; · cases h
      rename_i hsd
      cases h
      refine ⟨?_, by simp [enterPass], by simp [enterPass], ?_, ?_⟩
      · intro _
        have := buildEnabledTree_spec (s := s) hreg'
        exact this
      · intro hx; simp [enterPass, buildEnabledTree] at hx; exact absurd hx hsd
      · intro hx; simp [enterPass, buildEnabledTree] at hx; exact absurd hx hsd
  | shutdown =>
    simp only [stepCall] at h
    split at h; · cases h
    rename_i hpc; simp at hpc
    split at h
    · rename_i hsd
      cases h
      exact ⟨by simp, by simp, by simp, fun _ _ => hi.down hsd (by simp [hpc]), fun _ => Or.inl (by simp [passKind])⟩
    · cases h
      exact ⟨by simp [enterPass], by simp [enterPass], by simp [enterPass], by simp [enterPass], fun _ => Or.inr (by simp [enterPass])⟩

theorem start_pass_done {n deps mgmt} {s : St} (h1 : Inv1 n deps mgmt s) (hi : Inv3 s)
    (hp : s.pc = .startS ∨ s.pc = .startM)
    (hrun : s.running = []) (hnr : noneReady s .start = true) (hnw : anyWaiting s .start = false) :
    ∀ m, m < s.n → (s.status m = statusOnline ↔ wanted s m = true) := by
  intro m hm
  constructor
  · intro hon; exact hi.up hp m (by simp [hon])
  · exact start_fixpoint h1 hrun hnr hnw m hm

theorem no_shutdown_in_pass {s : St} (hi : Inv3 s) {k : Kind} (hk : passKind s.pc = some k) (hne : s.pc ≠ .stopX) :
    s.shutdown = false := by
  cases hsd : s.shutdown
  · rfl
  · rcases hi.sd_pc hsd with hp | hp
    · simp [hp] at hk
    · exact absurd hp hne

theorem inv3_passEnd {n deps mgmt} {s s' : St} (h1 : Inv1 n deps mgmt s) (hi : Inv3 s)
    (hreg : ∀ m, m < n → ∀ d ∈ deps m, d < n)
    (rank : Nat → Nat) (hrank : ∀ m, m < n → ∀ d ∈ deps m, rank d < rank m)
    (h : stepPassEnd s = some s') : Inv3 s' := by
  have hreg' : ∀ m, m < s.n → ∀ d ∈ s.deps m, d < s.n := by rw [h1.hn, h1.hdeps]; exact hreg
  have hrank' : ∀ m, m < s.n → ∀ d ∈ s.deps m, rank d < rank m := by rw [h1.hn, h1.hdeps]; exact hrank
  obtain ⟨hrun, _⟩ := passEnd_running h1 h
  unfold stepPassEnd at h
  split at h; · cases h
  cases hpc : s.pc with
  | idle => simp [hpc] at h
  | done a ok => simp [hpc] at h
  | prep =>
    have hsd : s.shutdown = false := no_shutdown_in_pass hi (k := .prep) (by simp [hpc, passKind]) (by simp [hpc])
    simp only [hpc] at h
    (repeat' split at h) <;> first
      | (cases h; done)
      | (cases h; exact ⟨by simp, by simp, by simp, by simp [hsd], by simp [hsd]⟩)
      | (cases h
         refine ⟨fun _ => buildEnabledTree_spec (s := s) hreg', ?_, by simp [enterPass], by simp [enterPass, buildEnabledTree, hsd],
                 by simp [enterPass, buildEnabledTree, hsd]⟩
         intro _ m hm
         have := h1.prep_low (Or.inl hpc) m
         simp [enterPass, buildEnabledTree] at hm this
         omega)
  | startS =>
    have hsd : s.shutdown = false := no_shutdown_in_pass hi (k := .start) (by simp [hpc, passKind]) (by simp [hpc])
    simp only [hpc] at h
    split at h
    · cases h; exact ⟨by simp, by simp, by simp, by simp [hsd], by simp [hsd]⟩
    · split at h; · cases h
      rename_i hnr; simp at hnr
      split at h
      · cases h; exact ⟨by simp, by simp, by simp, by simp [hsd], by simp [hsd]⟩
      · rename_i hnw; simp at hnw
        cases h
        refine ⟨fun _ => hi.asdep (Or.inl hpc), by simp, ?_, by simp [hsd], by simp [hsd]⟩
        intro _
        show ∀ m, m < s.n → (s.status m = statusOnline ↔ wanted s m = true)
        exact start_pass_done h1 hi (Or.inl hpc) hrun hnr hnw
  | stopM =>
    have hsd : s.shutdown = false := no_shutdown_in_pass hi (k := .stop) (by simp [hpc, passKind]) (by simp [hpc])
    simp only [hpc] at h
    split at h; · cases h
    rename_i hnr; simp at hnr
    cases h
    have hspec := hi.asdep (Or.inr (Or.inl hpc))
    refine ⟨fun _ => hspec, ?_, by simp [enterPass], by simp [enterPass, hsd], by simp [enterPass, hsd]⟩
    intro _ m hm
    simp [enterPass] at hm
    show wanted s m = true
    have hrange := h1.range m
    have h3 : s.status m ≠ statusStopping := fun h => by have := h1.stopping_run m h; simp [hrun] at this
    have h4 : s.status m ≠ statusStarting := fun h => by have := h1.starting_run m h; simp [hrun] at this
    have h5 : s.status m = statusOnline := by simp at hm hrange h3 h4 ⊢; omega
    have hmn : m < s.n := by
      apply Classical.byContradiction; intro hge
      have := h1.out_dead m (by omega); simp [this] at h5
    have := stop_fixpoint h1 rank hrank' hrun hnr (keep_closed hspec) m hmn h5
    simp [keep] at this
    rcases this.2 with h | h <;> simp [wanted, h]
  | startM =>
    have hsd : s.shutdown = false := no_shutdown_in_pass hi (k := .start) (by simp [hpc, passKind]) (by simp [hpc])
    simp only [hpc] at h
    split at h
    · cases h; exact ⟨by simp, by simp, by simp, by simp [hsd], by simp [hsd]⟩
    · split at h; · cases h
      rename_i hnr; simp at hnr
      split at h
      · cases h; exact ⟨by simp, by simp, by simp, by simp [hsd], by simp [hsd]⟩
      · rename_i hnw; simp at hnw
        cases h
        refine ⟨fun _ => hi.asdep (Or.inr (Or.inr (Or.inl hpc))), by simp, ?_, by simp [hsd], by simp [hsd]⟩
        intro _
        show ∀ m, m < s.n → (s.status m = statusOnline ↔ wanted s m = true)
        exact start_pass_done h1 hi (Or.inr hpc) hrun hnr hnw
  | stopX =>
    have hsd : s.shutdown = true := h1.stopX_shutdown hpc
    simp only [hpc] at h
    split at h; · cases h
    rename_i hnr; simp at hnr
    cases h
    refine ⟨by simp, by simp, by simp, ?_, fun _ => Or.inl (by simp [passKind])⟩
    intro _ _ m hon
    have hmn : m < s.n := by
      apply Classical.byContradiction; intro hge
      have := h1.out_dead m (by omega); simp [this] at hon
    have := stop_fixpoint h1 rank hrank' hrun hnr (by intro r _ hk; simp [keep, hsd] at hk) m hmn hon
    simp [keep, hsd] at this

theorem inv3_step {n deps mgmt} {s s' : St} {e : Ev} (h1 : Inv1 n deps mgmt s) (hi : Inv3 s)
    (hreg : ∀ m, m < n → ∀ d ∈ deps m, d < n)
    (rank : Nat → Nat) (hrank : ∀ m, m < n → ∀ d ∈ deps m, rank d < rank m)
    (h : step s e = some s') : Inv3 s' := by
  cases e with
  | call a => exact inv3_call h1 hi hreg h
  | ret a ok => exact inv3_ret hi h
  | beg k m => exact inv3_beg h1 hi h
  | fin k m ok => exact inv3_fin h1 hi h
  | passEnd => exact inv3_passEnd h1 hi hreg rank hrank h
  | enable m => exact inv3_enable hi h
  | disable m => exact inv3_enable hi h

theorem inv3_of_runs {n deps mgmt} {tr : List Ev} {s : St}
    (hreg : ∀ m, m < n → ∀ d ∈ deps m, d < n)
    (rank : Nat → Nat) (hrank : ∀ m, m < n → ∀ d ∈ deps m, rank d < rank m)
    (h : Runs (init n deps mgmt) tr s) : Inv3 s := by
  induction h with
  | nil => exact inv3_init n deps mgmt
  | snoc hr hs ih => exact inv3_step (inv1_of_runs hr) ih hreg rank hrank hs

/-! ### Shutdown is final; dependencies stay online while a module is started -/

theorem step_shutdown_mono {s s' : St} {e : Ev} (h : step s e = some s') (hsd : s.shutdown = true) :
    s'.shutdown = true ∧ (s'.pc = .stopX → s.pc = .stopX) := by
  cases e with
  | call a =>
    cases a <;> simp only [step, stepCall] at h <;> (repeat' split at h) <;>
      first
        | (cases h; done)
        | (cases h; simp_all [enterPass, buildEnabledTree])
  | ret a ok => obtain ⟨_, rfl⟩ := stepRet_some h; simp [hsd]
  | beg k m => obtain ⟨_, _, _, rfl⟩ := stepBeg_some h; simp [hsd]
  | fin k m ok => obtain ⟨_, _, _, rfl⟩ := stepFin_some h; simp [hsd]
  | passEnd =>
    obtain ⟨_, _, _, _, _, _, f7, _, f9⟩ := stepPassEnd_frame h
    refine ⟨by rw [f9]; exact hsd, ?_⟩
    intro hp
    simp only [step] at h
    unfold stepPassEnd at h
    (repeat' split at h) <;> first
      | (cases h; done)
      | (cases h; simp [enterPass] at hp)
  | enable m => obtain ⟨_, _, rfl⟩ := stepEnable_some h; simp [hsd]
  | disable m => obtain ⟨_, _, rfl⟩ := stepEnable_some h; simp [hsd]

structure Inv4 (tr : List Ev) (s : St) : Prop where
  done_sd : ∀ ok, s.pc = .done .shutdown ok → s.shutdown = true
  after_sd : (∃ ok, Ev.ret .shutdown ok ∈ tr) → s.shutdown = true ∧ s.pc ≠ .stopX
  deps_on : ∀ m, m < s.n → statusOffline < s.status m → ∀ d ∈ s.deps m, s.status d = statusOnline

theorem inv4_init (n : Nat) (deps : Nat → List Nat) (mgmt : Bool) : Inv4 [] (init n deps mgmt) := by
  constructor <;> simp [init]

theorem inv4_step {n deps mgmt} {tr : List Ev} {s s' : St} {e : Ev} (h1 : Inv1 n deps mgmt s) (hi : Inv4 tr s)
    (h : step s e = some s') : Inv4 (tr ++ [e]) s' := by
  have hafter : (∃ ok, Ev.ret .shutdown ok ∈ tr ++ [e]) → s'.shutdown = true ∧ s'.pc ≠ .stopX := by
    rintro ⟨ok, hmem⟩
    rcases List.mem_append.mp hmem with hmem | hmem
    · obtain ⟨hsd, hpc⟩ := hi.after_sd ⟨ok, hmem⟩
      obtain ⟨h1', h2'⟩ := step_shutdown_mono h hsd
      exact ⟨h1', fun hp => hpc (h2' hp)⟩
    · simp at hmem; subst hmem
      obtain ⟨hpc, rfl⟩ := stepRet_some h
      exact ⟨hi.done_sd ok hpc, by simp⟩
  cases e with
  | call a =>
    obtain ⟨f1, _, _, f4, f5, _, f7, _, _⟩ := stepCall_frame h
    refine ⟨?_, hafter, by rw [f1, f4, f5]; exact hi.deps_on⟩
    intro ok hp
    cases a <;> simp only [step, stepCall] at h <;> (repeat' split at h) <;>
      first
        | (cases h; done)
        | (cases h; simp_all [enterPass, buildEnabledTree])
  | ret a ok =>
    obtain ⟨hpc, rfl⟩ := stepRet_some h
    exact ⟨by simp, hafter, hi.deps_on⟩
  | beg k m =>
    obtain ⟨hm, hk, hr, rfl⟩ := stepBeg_some h
    refine ⟨?_, hafter, ?_⟩
    · intro ok hp; simp at hp; simp [hp, passKind] at hk
    · intro x hx hgt d hd
      simp at hx hgt hd ⊢
      have hold : s.status m = (match k with | .prep => statusDead | .start => statusOffline | .stop => statusOnline) := by
        cases k
        · exact (readyToPrep_ready.mp hr).1
        · exact (readyToStart_ready.mp hr).2.1
        · exact (readyToStop_ready.mp hr).2.1
      by_cases hxm : x = m
      · subst hxm
        by_cases hdx : d = x
        · subst hdx
          -- a module that names itself as dependency is never ready to start; a stopping one keeps Online deps
          cases k
          · simp [launchStatus] at hgt
          · have := (readyToStart_ready.mp hr).2.2 d hd
            simp [hold] at this
          · have := (readyToStop_ready.mp hr).2.2 d (mem_revDeps.mpr ⟨hx, hd⟩)
            simp [hold] at this
        · rw [set_other _ _ hdx]
          cases k
          · simp [launchStatus] at hgt
          · have := (readyToStart_ready.mp hr).2.2 d hd
            have := h1.range d
            simp at *; omega
          · exact hi.deps_on x hx (by simp [hold]) d hd
      · rw [set_other _ _ hxm] at hgt
        have hdon := hi.deps_on x hx (by simpa using hgt) d hd
        by_cases hdm : d = m
        · subst hdm
          -- m is a dependency of the started module x, so m was Online: only a stop can be launched on it
          cases k
          · simp [hold] at hdon
          · simp [hold] at hdon
          · have := (readyToStop_ready.mp hr).2.2 x (mem_revDeps.mpr ⟨hx, hd⟩)
            simp at this hgt; omega
        · rw [set_other _ _ hdm]; exact hdon
  | fin k m ok =>
    obtain ⟨hk, hmem, hst, rfl⟩ := stepFin_some h
    refine ⟨?_, hafter, ?_⟩
    · intro ok' hp; simp at hp; simp [hp, passKind] at hk
    · intro x hx hgt d hd
      simp at hx hgt hd ⊢
      by_cases hxm : x = m
      · subst hxm
        have hgt0 : statusOffline < s.status x := by
          cases k <;> cases ok <;> simp [finStatus, launchStatus, hst] at hgt ⊢
        have hdon := hi.deps_on x hx hgt0 d hd
        by_cases hdx : d = x
        · subst hdx; cases k <;> simp [hst, launchStatus] at hdon
        · rw [set_other _ _ hdx]; exact hdon
      · rw [set_other _ _ hxm] at hgt
        have hdon := hi.deps_on x hx (by simpa using hgt) d hd
        by_cases hdm : d = m
        · subst hdm; cases k <;> simp [hst, launchStatus] at hdon
        · rw [set_other _ _ hdm]; exact hdon
  | passEnd =>
    obtain ⟨f1, _, _, f4, f5, _, _, _, f9⟩ := stepPassEnd_frame h
    refine ⟨?_, hafter, by rw [f1, f4, f5]; exact hi.deps_on⟩
    intro ok hp
    rw [f9]
    simp only [step] at h
    unfold stepPassEnd at h
    split at h; · cases h
    cases hpc : s.pc <;> simp only [hpc] at h <;> (repeat' split at h) <;>
      first
        | (cases h; done)
        | (cases h; simp [enterPass] at hp; done)
        | exact h1.stopX_shutdown hpc
  | enable m =>
    obtain ⟨hpc, _, rfl⟩ := stepEnable_some h
    exact ⟨by simp [hpc], hafter, hi.deps_on⟩
  | disable m =>
    obtain ⟨hpc, _, rfl⟩ := stepEnable_some h
    exact ⟨by simp [hpc], hafter, hi.deps_on⟩

theorem inv4_of_runs {n deps mgmt} {tr : List Ev} {s : St} (h : Runs (init n deps mgmt) tr s) : Inv4 tr s := by
  induction h with
  | nil => exact inv4_init n deps mgmt
  | snoc hr hs ih => exact inv4_step (inv1_of_runs hr) ih hs

/-! ### The model's `wanted` is the specification's `Wanted` -/

theorem wanted_iff_spec {n : Nat} {deps : Nat → List Nat} {mgmt : Bool} {tr : List Ev} {s : St}
    (h1 : Inv1 n deps mgmt s) (h2 : Inv2 tr s) (hspec : AsDepSpec s) (m : Nat) :
    wanted s m = true ↔ Wanted deps mgmt (enabledOf tr) m := by
  unfold wanted Wanted
  rw [← h1.hmgmt, ← h1.hdeps]
  have hen : ∀ x, enabledOf tr x = s.enabled x := fun x => (h2.en x).symm
  simp only [hen]
  constructor
  · intro h
    simp only [Bool.or_eq_true, Bool.not_eq_true'] at h
    rcases h with (h | h) | h
    · exact Or.inl h
    · exact Or.inr (Or.inl h)
    · obtain ⟨e, _, he, ht⟩ := (hspec m).mp h
      exact Or.inr (Or.inr ⟨e, he, ht⟩)
  · intro h
    simp only [Bool.or_eq_true, Bool.not_eq_true']
    rcases h with h | h | ⟨e, he, ht⟩
    · exact Or.inl (Or.inl h)
    · exact Or.inl (Or.inr h)
    · exact Or.inr ((hspec m).mpr ⟨e, h2.en_lt e he, he, ht⟩)


/-! ### Reading `lifeOf` off the history: the last start/stop event of a module -/

theorem lifeUpd_apply (f : Nat → Nat) (e : Ev) (d : Nat) :
    lifeUpd f e d = if touches d e then lifeCodeOf e else f d := by
  cases e with
  | beg k m => cases k <;> simp [lifeUpd, touches, lifeCodeOf, set] <;> (split <;> simp_all [eq_comm])
  | fin k m ok => cases k <;> cases ok <;> simp [lifeUpd, touches, lifeCodeOf, set] <;> (split <;> simp_all [eq_comm])
  | _ => simp [lifeUpd, touches]

theorem foldl_lifeUpd (tr : List Ev) (f0 : Nat → Nat) (d : Nat) :
    (tr.foldl lifeUpd f0) d = match lastTouch d tr with | some e => lifeCodeOf e | none => f0 d := by
  induction tr generalizing f0 with
  | nil => simp [lastTouch]
  | cons e es ih =>
    simp only [List.foldl_cons, lastTouch]
    rw [ih]
    cases lastTouch d es with
    | some x => simp
    | none => simp [lifeUpd_apply]; split <;> simp_all

theorem lastTouch_touches {d : Nat} {tr : List Ev} {e : Ev} (h : lastTouch d tr = some e) : touches d e = true := by
  induction tr with
  | nil => simp [lastTouch] at h
  | cons x xs ih =>
    simp only [lastTouch] at h
    cases hx : lastTouch d xs with
    | some y => rw [hx] at h; simp at h; subst h; exact ih hx
    | none => rw [hx] at h; simp at h; obtain ⟨h1, h2⟩ := h; subst h2; exact h1

theorem lifeOf_eq_lastTouch (tr : List Ev) (d : Nat) :
    lifeOf tr d = match lastTouch d tr with | some e => lifeCodeOf e | none => 0 := by
  unfold lifeOf; rw [foldl_lifeUpd]

/-! ### Data for the non-vacuity examples of PBProofs/C01.lean -/

/-- A diamond: 1 and 2 depend on 0, 3 depends on 1 and 2. -/
def diamond : Nat → List Nat
  | 1 => [0]
  | 2 => [0]
  | 3 => [1, 2]
  | _ => []

/-- Start with overlapping callbacks (1 and 2 start concurrently), then Shutdown. -/
def diamondHistory : List Ev :=
  [.call .start,
   .beg .prep 0, .fin .prep 0 true, .beg .prep 2, .beg .prep 1, .fin .prep 1 true, .fin .prep 2 true,
   .beg .prep 3, .fin .prep 3 true, .passEnd,
   .beg .start 0, .fin .start 0 true, .beg .start 1, .beg .start 2, .fin .start 2 true, .fin .start 1 true,
   .beg .start 3, .fin .start 3 true, .passEnd, .ret .start true,
   .call .shutdown, .beg .stop 3, .fin .stop 3 true, .beg .stop 2, .beg .stop 1, .fin .stop 1 false,
   .fin .stop 2 true, .beg .stop 0, .fin .stop 0 true, .passEnd, .ret .shutdown false]

end PB.Modules
