import PB.Model.Modules
import PB.Spec.Modules
set_option linter.unusedSimpArgs false
set_option linter.unusedVariables false
/-!
Helper lemmas for C01 (module lifecycle): runs, step inversion, the structural invariant.
-/
namespace PB.Modules
open PB.Gen.Lifecycle

attribute [local simp] statusDead statusPreparing statusOffline statusStopping statusStarting statusOnline
  readyWaiting readyReady readyNothingToDo prepOwnSkip prepDepWaits startOwnBlocked startOwnSkip startDepWaits
  stopOwnSkip stopRevWaits prepLaunch prepDone startLaunch startDone startFailed stopLaunch stopDone

/-! ### Runs -/

/-- `Runs s0 tr s`: the history `tr` leads from `s0` to `s` (snoc-style, for induction on the last step). -/
inductive Runs (s0 : St) : List Ev → St → Prop
  | nil : Runs s0 [] s0
  | snoc {tr : List Ev} {s : St} {e : Ev} {s' : St} : Runs s0 tr s → step s e = some s' → Runs s0 (tr ++ [e]) s'

theorem Runs.cons {s0 s1 s : St} {e : Ev} {tr : List Ev} (h0 : step s0 e = some s1) (h : Runs s1 tr s) :
    Runs s0 (e :: tr) s := by
  induction h with
  | nil => exact Runs.snoc (tr := []) Runs.nil h0
  | snoc _ hs ih => exact Runs.snoc (tr := e :: _) ih hs

theorem runs_of_run {s0 s : St} {tr : List Ev} (h : run s0 tr = some s) : Runs s0 tr s := by
  induction tr generalizing s0 with
  | nil => simp [run] at h; subst h; exact Runs.nil
  | cons e es ih =>
    simp only [run] at h
    split at h
    · rename_i s1 h1; exact Runs.cons h1 (ih h)
    · cases h

/-! ### Step inversion -/

theorem stepBeg_some {s s' : St} {k : Kind} {m : Nat} (h : stepBeg s k m = some s') :
    m < s.n ∧ passKind s.pc = some k ∧ ready s k m = readyReady ∧
    s' = { s with status := set s.status m (launchStatus k), execCnt := s.execCnt + 1, running := m :: s.running } := by
  unfold stepBeg at h
  split at h
  · rename_i hg; cases h; exact ⟨hg.1, hg.2.1, hg.2.2, rfl⟩
  · cases h

theorem stepFin_some {s s' : St} {k : Kind} {m : Nat} {ok : Bool} (h : stepFin s k m ok = some s') :
    passKind s.pc = some k ∧ m ∈ s.running ∧ s.status m = launchStatus k ∧
    s' = { s with status := set s.status m (finStatus (s.status m) k ok), reportCnt := s.reportCnt + 1,
                  running := s.running.erase m, failed := s.failed || !ok } := by
  unfold stepFin at h
  split at h
  · rename_i hg; cases h; exact ⟨hg.1, hg.2.1, hg.2.2, rfl⟩
  · cases h

theorem stepRet_some {s s' : St} {a : Api} {ok : Bool} (h : stepRet s a ok = some s') :
    s.pc = .done a ok ∧ s' = { s with pc := .idle } := by
  unfold stepRet at h
  split at h
  · rename_i hg; cases h; exact ⟨hg, rfl⟩
  · cases h

theorem stepEnable_some {s s' : St} {m : Nat} {v : Bool} (h : stepEnable s m v = some s') :
    s.pc = .idle ∧ m < s.n ∧ s' = { s with enabled := set s.enabled m v } := by
  unfold stepEnable at h
  split at h
  · rename_i hg; cases h; exact ⟨hg.1, hg.2, rfl⟩
  · cases h

@[simp] theorem set_same {α : Type} (f : Nat → α) (i : Nat) (v : α) : set f i v i = v := by simp [set]
theorem set_other {α : Type} (f : Nat → α) {i j : Nat} (v : α) (h : j ≠ i) : set f i v j = f j := by simp [set, h]

theorem launchStatus_ne_zero (k : Kind) : launchStatus k ≠ 0 := by cases k <;> simp [launchStatus]

/-! ### The ready verdicts, characterised -/

def wanted (s : St) (m : Nat) : Bool := !s.mgmt || s.enabled m || s.asDep m

theorem readyToPrep_ready {s : St} {m : Nat} :
    readyToPrep s m = readyReady ↔ s.status m = statusDead ∧ ∀ d ∈ s.deps m, statusOffline ≤ s.status d := by
  unfold readyToPrep
  split
  · rename_i h; simp at h; simp [h]
  · rename_i h; simp at h
    split
    · rename_i h2; simp at h2; obtain ⟨d, hd, hl⟩ := h2
      simp; intro _; exact ⟨d, hd, by simpa using hl⟩
    · rename_i h2; simp at h2; simp [h]; intro d hd; simpa using h2 d hd

theorem readyToPrep_waiting {s : St} {m : Nat} :
    readyToPrep s m = readyWaiting ↔ s.status m = statusDead ∧ ∃ d ∈ s.deps m, s.status d < statusOffline := by
  unfold readyToPrep
  split
  · rename_i h; simp at h; simp [h]
  · rename_i h; simp at h
    split
    · rename_i h2; simp at h2; obtain ⟨d, hd, hl⟩ := h2; simp [h]; exact ⟨d, hd, by simpa using hl⟩
    · rename_i h2; simp at h2; simp; intro _ d hd; simpa using h2 d hd

theorem wanted_iff {s : St} {m : Nat} : (s.mgmt && !(s.enabled m) && !(s.asDep m)) = true ↔ wanted s m = false := by
  unfold wanted; cases s.mgmt <;> cases s.enabled m <;> cases s.asDep m <;> simp

theorem readyToStart_ready {s : St} {m : Nat} :
    readyToStart s m = readyReady ↔
      wanted s m = true ∧ s.status m = statusOffline ∧ ∀ d ∈ s.deps m, statusOnline ≤ s.status d := by
  unfold readyToStart
  simp only [wanted_iff]
  split
  · rename_i h; simp [h]
  · rename_i h; simp at h
    split
    · rename_i h0; simp at h0; simp; intro _ h2; omega
    · rename_i h0; simp at h0
      split
      · rename_i h1; simp at h1; simp; intro _ h2; omega
      · rename_i h1; simp at h1
        split
        · rename_i h2; simp at h2; obtain ⟨d, hd, hl⟩ := h2
          simp; intro _ _; exact ⟨d, hd, by simpa using hl⟩
        · rename_i h2; simp at h2; simp [h, h1]; intro d hd; simpa using h2 d hd

theorem readyToStart_waiting {s : St} {m : Nat} :
    readyToStart s m = readyWaiting ↔
      wanted s m = true ∧ (s.status m < statusOffline ∨ (s.status m = statusOffline ∧ ∃ d ∈ s.deps m, s.status d < statusOnline)) := by
  unfold readyToStart
  simp only [wanted_iff]
  split
  · rename_i h; simp [h]
  · rename_i h; simp at h
    split
    · rename_i h0; simp at h0; simp [h]; exact Or.inl h0
    · rename_i h0; simp at h0
      split
      · rename_i h1; simp at h1; simp; intro _; omega
      · rename_i h1; simp at h1
        split
        · rename_i h2; simp at h2; obtain ⟨d, hd, hl⟩ := h2
          simp [h, h1]; exact ⟨d, hd, by simpa using hl⟩
        · rename_i h2; simp at h2; simp [h1]; intro _ d hd; simpa using h2 d hd

theorem readyToStop_ready {s : St} {m : Nat} :
    readyToStop s m = readyReady ↔
      (s.mgmt && !s.shutdown && (s.enabled m || s.asDep m)) = false ∧ s.status m = statusOnline ∧
      ∀ r ∈ revDeps s m, s.status r ≤ statusOffline := by
  unfold readyToStop
  split
  · rename_i h; simp [h]
  · rename_i h
    have h' : (s.mgmt && !s.shutdown && (s.enabled m || s.asDep m)) = false := by simpa using h
    split
    · rename_i h1; simp at h1; simp; intro _ h2; omega
    · rename_i h1; simp at h1
      split
      · rename_i h2; simp at h2; obtain ⟨r, hr, hl⟩ := h2
        simp; intro _ _; exact ⟨r, hr, by simpa using hl⟩
      · rename_i h2; simp at h2; simp only [h', h1, true_and]; simp; intro r hr; simpa using h2 r hr

theorem mem_revDeps {s : St} {d r : Nat} : r ∈ revDeps s d ↔ r < s.n ∧ d ∈ s.deps r := by
  simp [revDeps]

/-! ### Structural invariant -/

structure Inv1 (n : Nat) (deps : Nat → List Nat) (mgmt : Bool) (s : St) : Prop where
  hn : s.n = n
  hdeps : s.deps = deps
  hmgmt : s.mgmt = mgmt
  run_lt : ∀ m ∈ s.running, m < s.n
  run_status : ∀ m ∈ s.running, ∃ k, passKind s.pc = some k ∧ s.status m = launchStatus k
  starting_run : ∀ m, s.status m = statusStarting → m ∈ s.running
  stopping_run : ∀ m, s.status m = statusStopping → m ∈ s.running
  nodup : s.running.Nodup
  cnt : s.execCnt = s.reportCnt + s.running.length
  idle_run : passKind s.pc = none → s.running = []
  prep_low : (s.pc = .prep ∨ s.locked = false) → ∀ m, s.status m ≤ statusOffline
  stopX_shutdown : s.pc = .stopX → s.shutdown = true
  pass_locked : (s.pc = .prep ∨ s.pc = .startS ∨ s.pc = .stopM ∨ s.pc = .startM) → s.locked = true
  range : ∀ m, s.status m ≤ statusOnline
  out_dead : ∀ m, s.n ≤ m → s.status m = statusDead

theorem inv1_init (n : Nat) (deps : Nat → List Nat) (mgmt : Bool) : Inv1 n deps mgmt (init n deps mgmt) := by
  constructor <;> simp [init, passKind]

theorem inv1_beg {n deps mgmt} {s s' : St} {k : Kind} {m : Nat} (hi : Inv1 n deps mgmt s)
    (h : stepBeg s k m = some s') : Inv1 n deps mgmt s' := by
  obtain ⟨hm, hk, hr, rfl⟩ := stepBeg_some h
  have hnotrun : m ∉ s.running := by
    intro hmem
    obtain ⟨k', hk', hst⟩ := hi.run_status m hmem
    rw [hk] at hk'; cases hk'
    cases k <;> simp [ready, readyToPrep, readyToStart, readyToStop, launchStatus] at hr hst <;> simp [hst] at hr
  constructor
  · exact hi.hn
  · exact hi.hdeps
  · exact hi.hmgmt
  · intro x hx; simp at hx; rcases hx with rfl | hx
    · exact hm
    · exact hi.run_lt x hx
  · intro x hx; simp at hx
    by_cases hxm : x = m
    · subst hxm; exact ⟨k, hk, by simp⟩
    · rcases hx with rfl | hx
      · exact absurd rfl hxm
      · obtain ⟨k', hk', hst⟩ := hi.run_status x hx
        exact ⟨k', hk', by simp [set_other _ _ hxm, hst]⟩
  · intro x hx; simp
    by_cases hxm : x = m
    · exact Or.inl hxm
    · simp [set_other _ _ hxm] at hx; exact Or.inr (hi.starting_run x hx)
  · intro x hx; simp
    by_cases hxm : x = m
    · exact Or.inl hxm
    · simp [set_other _ _ hxm] at hx; exact Or.inr (hi.stopping_run x hx)
  · simp; exact ⟨hnotrun, hi.nodup⟩
  · simp; have := hi.cnt; omega
  · intro hp; simp [hk] at hp
  · intro hp x
    by_cases hxm : x = m
    · subst hxm
      rcases hp with hp | hp
      · simp at hp; rw [hp] at hk; simp [passKind] at hk; subst hk; simp [launchStatus]
      · have hlow := hi.prep_low (Or.inr hp)
        cases k
        · simp [launchStatus]
        · -- a start pass runs only once the registry is locked
          exfalso
          have : s.locked = true := hi.pass_locked (by
            cases hpc : s.pc <;> simp [hpc, passKind] at hk ⊢)
          simp [this] at hp
        · -- nothing is online before Start: no module is ready to stop
          exfalso
          have := hlow x
          have h5 := (readyToStop_ready.mp hr).2.1
          simp at this h5
          omega
    · simp [set_other _ _ hxm]; exact hi.prep_low (by simpa using hp) x
  · exact hi.stopX_shutdown
  · exact hi.pass_locked
  · intro x
    by_cases hxm : x = m
    · subst hxm; cases k <;> simp [launchStatus]
    · simp [set_other _ _ hxm]; exact hi.range x
  · intro x hx
    simp at hx
    have hxm : x ≠ m := by omega
    simp [set_other _ _ hxm]; exact hi.out_dead x hx

theorem finStatus_cases (cur : Nat) (k : Kind) (ok : Bool) (h : cur = launchStatus k) :
    finStatus cur k ok = statusOffline ∨ finStatus cur k ok = statusOnline ∨ finStatus cur k ok = statusPreparing := by
  cases k <;> cases ok <;> simp [finStatus, launchStatus] at h ⊢ <;> omega

theorem inv1_fin {n deps mgmt} {s s' : St} {k : Kind} {m : Nat} {ok : Bool} (hi : Inv1 n deps mgmt s)
    (h : stepFin s k m ok = some s') : Inv1 n deps mgmt s' := by
  obtain ⟨hk, hmem, hst, rfl⟩ := stepFin_some h
  have hfs := finStatus_cases (s.status m) k ok hst
  have hmn := hi.run_lt m hmem
  constructor
  · exact hi.hn
  · exact hi.hdeps
  · exact hi.hmgmt
  · intro x hx; exact hi.run_lt x (List.mem_of_mem_erase hx)
  · intro x hx
    have hx' := (hi.nodup.mem_erase_iff).mp hx
    obtain ⟨k', hk', hst'⟩ := hi.run_status x hx'.2
    exact ⟨k', hk', by simp [set_other _ _ hx'.1, hst']⟩
  · intro x hx
    by_cases hxm : x = m
    · subst hxm; simp at hx hfs; omega
    · simp [set_other _ _ hxm] at hx
      exact (hi.nodup.mem_erase_iff).mpr ⟨hxm, hi.starting_run x hx⟩
  · intro x hx
    by_cases hxm : x = m
    · subst hxm; simp at hx hfs; omega
    · simp [set_other _ _ hxm] at hx
      exact (hi.nodup.mem_erase_iff).mpr ⟨hxm, hi.stopping_run x hx⟩
  · exact hi.nodup.erase m
  · simp [List.length_erase_of_mem hmem]
    have := hi.cnt
    have : 0 < s.running.length := List.length_pos_of_mem hmem
    omega
  · intro hp; simp [hk] at hp
  · intro hp x
    have hlow := hi.prep_low hp
    by_cases hxm : x = m
    · subst hxm
      have hk2 : k ≠ .start := by
        intro hks; subst hks
        rcases hp with hp | hp
        · simp at hp; simp [hp, passKind] at hk
        · have : s.locked = true := hi.pass_locked (by
            cases hpc : s.pc <;> simp [hpc, passKind] at hk ⊢)
          simp [this] at hp
      cases k <;> cases ok <;> simp [finStatus, launchStatus] at hst hk2 ⊢ <;> omega
    · simp [set_other _ _ hxm]; exact hlow x
  · exact hi.stopX_shutdown
  · exact hi.pass_locked
  · intro x
    by_cases hxm : x = m
    · subst hxm; simp at hfs ⊢; omega
    · simp [set_other _ _ hxm]; exact hi.range x
  · intro x hx
    simp at hx
    have hxm : x ≠ m := by omega
    simp [set_other _ _ hxm]; exact hi.out_dead x hx

theorem inv1_ret {n deps mgmt} {s s' : St} {a : Api} {ok : Bool} (hi : Inv1 n deps mgmt s)
    (h : stepRet s a ok = some s') : Inv1 n deps mgmt s' := by
  obtain ⟨hpc, rfl⟩ := stepRet_some h
  have hrun : s.running = [] := hi.idle_run (by simp [hpc, passKind])
  constructor
  · exact hi.hn
  · exact hi.hdeps
  · exact hi.hmgmt
  · exact hi.run_lt
  · intro x hx; simp [hrun] at hx
  · exact hi.starting_run
  · exact hi.stopping_run
  · exact hi.nodup
  · exact hi.cnt
  · intro _; exact hrun
  · intro hp; simp at hp; exact hi.prep_low (Or.inr hp)
  · intro hp; simp at hp
  · intro hp; simp at hp
  · exact hi.range
  · exact hi.out_dead

theorem inv1_enable {n deps mgmt} {s s' : St} {m : Nat} {v : Bool} (hi : Inv1 n deps mgmt s)
    (h : stepEnable s m v = some s') : Inv1 n deps mgmt s' := by
  obtain ⟨_, _, rfl⟩ := stepEnable_some h
  exact ⟨hi.hn, hi.hdeps, hi.hmgmt, hi.run_lt, hi.run_status, hi.starting_run, hi.stopping_run, hi.nodup, hi.cnt,
    hi.idle_run, hi.prep_low, hi.stopX_shutdown, hi.pass_locked, hi.range, hi.out_dead⟩

/-- Entering a pass or finishing a call: only the manager's position, the counters, the error flags, the
    dependency marks and the lock flags change, and nothing is in flight. -/
theorem inv1_move {n deps mgmt} {s s' : St} (hi : Inv1 n deps mgmt s)
    (hrun : s.running = [])
    (h1 : s'.n = s.n) (h2 : s'.deps = s.deps) (h3 : s'.mgmt = s.mgmt) (h4 : s'.status = s.status)
    (h5 : s'.running = s.running) (h6 : s'.execCnt = s'.reportCnt)
    (hlow : (s'.pc = .prep ∨ s'.locked = false) → (s.pc = .prep ∨ s.locked = false))
    (hsx : s'.pc = .stopX → s'.shutdown = true)
    (hlk : (s'.pc = .prep ∨ s'.pc = .startS ∨ s'.pc = .stopM ∨ s'.pc = .startM) → s'.locked = true) :
    Inv1 n deps mgmt s' := by
  constructor
  · rw [h1]; exact hi.hn
  · rw [h2]; exact hi.hdeps
  · rw [h3]; exact hi.hmgmt
  · rw [h5, hrun]; simp
  · rw [h5, hrun]; simp
  · intro x hx; rw [h4] at hx; have := hi.starting_run x hx; simp [hrun] at this
  · intro x hx; rw [h4] at hx; have := hi.stopping_run x hx; simp [hrun] at this
  · rw [h5, hrun]; simp
  · rw [h5, hrun, h6]; simp
  · intro _; rw [h5]; exact hrun
  · intro hp; rw [h4]; exact hi.prep_low (hlow hp)
  · exact hsx
  · exact hlk
  · rw [h4]; exact hi.range
  · rw [h1, h4]; exact hi.out_dead

theorem inv1_call {n deps mgmt} {s s' : St} {a : Api} (hi : Inv1 n deps mgmt s)
    (h : stepCall s a = some s') : Inv1 n deps mgmt s' := by
  have hrun : s.running = [] → True := fun _ => trivial
  cases a with
  | start =>
    simp only [stepCall] at h
    split at h; · cases h
    rename_i hpc; simp at hpc
    have hrun : s.running = [] := hi.idle_run (by simp [hpc, passKind])
    have hcnt := hi.cnt; simp [hrun] at hcnt
    split at h; · cases h
    split at h
    · cases h; exact inv1_move hi hrun rfl rfl rfl rfl rfl hcnt (by simp; exact Or.inr) (by simp) (by simp)
    · rename_i hlk; simp at hlk
      split at h
      · cases h
        refine inv1_move hi hrun rfl rfl rfl rfl rfl hcnt ?_ (by simp) (by simp)
        simp
      · cases h
        refine inv1_move hi hrun rfl rfl rfl rfl rfl rfl ?_ (by simp [enterPass]) (by simp [enterPass])
        intro _; exact Or.inr hlk
  | manage =>
    simp only [stepCall] at h
    split at h; · cases h
    rename_i hpc; simp at hpc
    have hrun : s.running = [] := hi.idle_run (by simp [hpc, passKind])
    have hcnt := hi.cnt; simp [hrun] at hcnt
    split at h
    · cases h; exact inv1_move hi hrun rfl rfl rfl rfl rfl hcnt (by simp [hpc]) (by simp) (by simp)
    · split at h; · cases h
      rename_i hlk; simp at hlk
      split at h; · cases h
      cases h
      refine inv1_move hi hrun rfl rfl rfl rfl rfl rfl ?_ (by simp [enterPass]) (by simp [enterPass, buildEnabledTree, hlk])
      simp [enterPass, buildEnabledTree, hlk]
  | shutdown =>
    simp only [stepCall] at h
    split at h; · cases h
    rename_i hpc; simp at hpc
    have hrun : s.running = [] := hi.idle_run (by simp [hpc, passKind])
    have hcnt := hi.cnt; simp [hrun] at hcnt
    split at h
    · cases h; exact inv1_move hi hrun rfl rfl rfl rfl rfl hcnt (by simp [hpc]) (by simp) (by simp)
    · cases h
      refine inv1_move hi hrun rfl rfl rfl rfl rfl rfl ?_ (by simp [enterPass]) (by simp [enterPass])
      simp [enterPass]; exact Or.inr

theorem passEnd_running {n deps mgmt} {s s' : St} (hi : Inv1 n deps mgmt s) (h : stepPassEnd s = some s') :
    s.running = [] ∧ s.execCnt = s.reportCnt := by
  unfold stepPassEnd at h
  split at h; · cases h
  rename_i hc
  have := hi.cnt
  have hl : s.running.length = 0 := by omega
  exact ⟨List.eq_nil_of_length_eq_zero hl, by omega⟩

theorem inv1_passEnd {n deps mgmt} {s s' : St} (hi : Inv1 n deps mgmt s)
    (h : stepPassEnd s = some s') : Inv1 n deps mgmt s' := by
  obtain ⟨hrun, hcnt⟩ := passEnd_running hi h
  have hlk : (s.pc = .prep ∨ s.pc = .stopM) → s.locked = true := by
    intro hp; rcases hp with hp | hp
    · exact hi.pass_locked (Or.inl hp)
    · exact hi.pass_locked (Or.inr (Or.inr (Or.inl hp)))
  unfold stepPassEnd at h
  split at h; · cases h
  split at h <;> (try rename_i hpc) <;> repeat' split at h
  all_goals first
    | (cases h; done)
    | (cases h; exact inv1_move hi hrun rfl rfl rfl rfl rfl hcnt (by simp; exact Or.inr) (by simp) (by simp))
    | (cases h; exact inv1_move hi hrun rfl rfl rfl rfl rfl rfl (by simp [enterPass, buildEnabledTree]; exact Or.inr)
               (by simp [enterPass]) (by simp [enterPass, buildEnabledTree]; exact hlk (Or.inl hpc)))
    | (cases h; exact inv1_move hi hrun rfl rfl rfl rfl rfl rfl (by simp [enterPass, buildEnabledTree]; exact Or.inr)
               (by simp [enterPass]) (by simp [enterPass, buildEnabledTree]; exact hlk (Or.inr hpc)))

theorem inv1_step {n deps mgmt} {s s' : St} {e : Ev} (hi : Inv1 n deps mgmt s)
    (h : step s e = some s') : Inv1 n deps mgmt s' := by
  cases e with
  | call a => exact inv1_call hi h
  | ret a ok => exact inv1_ret hi h
  | beg k m => exact inv1_beg hi h
  | fin k m ok => exact inv1_fin hi h
  | passEnd => exact inv1_passEnd hi h
  | enable m => exact inv1_enable hi h
  | disable m => exact inv1_enable hi h

theorem inv1_of_runs {n deps mgmt} {tr : List Ev} {s : St} (h : Runs (init n deps mgmt) tr s) :
    Inv1 n deps mgmt s := by
  induction h with
  | nil => exact inv1_init n deps mgmt
  | snoc _ hs ih => exact inv1_step ih hs

/-! ### Frames of the quiet steps -/

theorem stepCall_frame {s s' : St} {a : Api} (h : stepCall s a = some s') :
    s'.status = s.status ∧ s'.enabled = s.enabled ∧ s'.running = s.running ∧ s'.n = s.n ∧ s'.deps = s.deps ∧
    s'.mgmt = s.mgmt ∧ s.pc = .idle ∧ (s'.pc = .prep → s.locked = false) ∧ (s.locked = true → s'.locked = true) := by
  cases a <;> simp only [stepCall] at h <;> (repeat' split at h) <;>
    first
      | (cases h; done)
      | (cases h; simp_all [enterPass, buildEnabledTree])

theorem stepPassEnd_frame {s s' : St} (h : stepPassEnd s = some s') :
    s'.status = s.status ∧ s'.enabled = s.enabled ∧ s'.running = s.running ∧ s'.n = s.n ∧ s'.deps = s.deps ∧
    s'.mgmt = s.mgmt ∧ s'.pc ≠ .prep ∧ s'.locked = s.locked ∧ s'.shutdown = s.shutdown := by
  unfold stepPassEnd at h
  (repeat' split at h) <;>
    first
      | (cases h; done)
      | (cases h; simp_all [enterPass, buildEnabledTree])

/-! ### History functions under one more event -/

open PB.Modules.Spec

theorem lifeOf_snoc (tr : List Ev) (e : Ev) : lifeOf (tr ++ [e]) = lifeUpd (lifeOf tr) e := by
  simp [lifeOf, List.foldl_append]

theorem enabledOf_snoc (tr : List Ev) (e : Ev) : enabledOf (tr ++ [e]) = enabledUpd (enabledOf tr) e := by
  simp [enabledOf, List.foldl_append]

theorem prepBegun_snoc (tr : List Ev) (e : Ev) (m : Nat) :
    prepBegun (tr ++ [e]) m = prepBegun tr m + (if e = .beg .prep m then 1 else 0) := by
  simp [prepBegun, List.countP_append, List.countP_cons]

theorem prepEnded_snoc (tr : List Ev) (e : Ev) (m : Nat) :
    prepEnded (tr ++ [e]) m = prepEnded tr m + (if e = .fin .prep m true ∨ e = .fin .prep m false then 1 else 0) := by
  simp [prepEnded, List.countP_append, List.countP_cons]

theorem startsOk_snoc (tr : List Ev) (e : Ev) (m : Nat) :
    startsOk (tr ++ [e]) m = startsOk tr m + (if e = .fin .start m true then 1 else 0) := by
  simp [startsOk, List.countP_append, List.countP_cons]

theorem stopsBegun_snoc (tr : List Ev) (e : Ev) (m : Nat) :
    stopsBegun (tr ++ [e]) m = stopsBegun tr m + (if e = .beg .stop m then 1 else 0) := by
  simp [stopsBegun, List.countP_append, List.countP_cons]

theorem begun_snoc (tr : List Ev) (e : Ev) :
    begun (tr ++ [e]) = begun tr + (match e with | .beg _ _ => 1 | _ => 0) := by
  cases e <;> simp [begun, List.countP_append, List.countP_cons]

theorem ended_snoc (tr : List Ev) (e : Ev) :
    ended (tr ++ [e]) = ended tr + (match e with | .fin _ _ _ => 1 | _ => 0) := by
  cases e <;> simp [ended, List.countP_append, List.countP_cons]

theorem prepOk_snoc {tr : List Ev} {e : Ev} {m : Nat} : prepOk (tr ++ [e]) m ↔ prepOk tr m ∨ e = .fin .prep m true := by
  simp [prepOk, eq_comm]

theorem startBegun_snoc {tr : List Ev} {e : Ev} : startBegun (tr ++ [e]) ↔ startBegun tr ∨ ∃ m, e = .beg .start m := by
  simp [startBegun, eq_comm]
  constructor
  · rintro ⟨m, h | h⟩
    · exact Or.inl ⟨m, h⟩
    · exact Or.inr ⟨m, h⟩
  · rintro (⟨m, h⟩ | ⟨m, h⟩)
    · exact ⟨m, Or.inl h⟩
    · exact ⟨m, Or.inr h⟩

/-! ### History invariant -/

def lifeCode (st : Nat) : Nat :=
  if st = statusStarting then 1 else if st = statusOnline then 2 else if st = statusStopping then 3 else 0

structure Inv2 (tr : List Ev) (s : St) : Prop where
  life : ∀ m, lifeOf tr m = lifeCode (s.status m)
  prep0 : ∀ m, prepBegun tr m = 0 ↔ s.status m = statusDead
  prep1 : ∀ m, prepBegun tr m ≤ 1
  prepok : ∀ m, statusOffline ≤ s.status m → prepOk tr m
  nostart : startBegun tr → s.locked = true ∧ s.pc ≠ .prep
  popen : ∀ m, prepBegun tr m = prepEnded tr m + (if s.pc = .prep ∧ m ∈ s.running then 1 else 0)
  cnt : ∀ m, startsOk tr m = stopsBegun tr m + (if s.status m = statusOnline then 1 else 0)
  en : ∀ m, s.enabled m = enabledOf tr m
  bal : begun tr = ended tr + s.running.length

theorem inv2_init (n : Nat) (deps : Nat → List Nat) (mgmt : Bool) : Inv2 [] (init n deps mgmt) := by
  constructor <;> simp [init, lifeOf, lifeCode, prepBegun, prepEnded, prepOk, startBegun, startsOk, stopsBegun, enabledOf, begun, ended]

/-- `call`, `ret`, `passEnd`: no callback event, no status change, nothing in flight. -/
theorem inv2_quiet {tr : List Ev} {s s' : St} {e : Ev} (hi : Inv2 tr s)
    (he : (∃ a, e = .call a) ∨ (∃ a ok, e = .ret a ok) ∨ e = .passEnd)
    (h4 : s'.status = s.status) (h5 : s'.enabled = s.enabled) (hr : s.running = []) (hr' : s'.running = [])
    (hns : startBegun tr → s'.locked = true ∧ s'.pc ≠ .prep) : Inv2 (tr ++ [e]) s' := by
  have hl : lifeOf (tr ++ [e]) = lifeOf tr := by
    rw [lifeOf_snoc]; rcases he with ⟨a, rfl⟩ | ⟨a, ok, rfl⟩ | rfl <;> rfl
  have hen : enabledOf (tr ++ [e]) = enabledOf tr := by
    rw [enabledOf_snoc]; rcases he with ⟨a, rfl⟩ | ⟨a, ok, rfl⟩ | rfl <;> rfl
  have h1 : ∀ m, prepBegun (tr ++ [e]) m = prepBegun tr m := by
    intro m; rw [prepBegun_snoc]; rcases he with ⟨a, rfl⟩ | ⟨a, ok, rfl⟩ | rfl <;> simp
  have h2 : ∀ m, prepEnded (tr ++ [e]) m = prepEnded tr m := by
    intro m; rw [prepEnded_snoc]; rcases he with ⟨a, rfl⟩ | ⟨a, ok, rfl⟩ | rfl <;> simp
  have h3 : ∀ m, startsOk (tr ++ [e]) m = startsOk tr m := by
    intro m; rw [startsOk_snoc]; rcases he with ⟨a, rfl⟩ | ⟨a, ok, rfl⟩ | rfl <;> simp
  have h6 : ∀ m, stopsBegun (tr ++ [e]) m = stopsBegun tr m := by
    intro m; rw [stopsBegun_snoc]; rcases he with ⟨a, rfl⟩ | ⟨a, ok, rfl⟩ | rfl <;> simp
  have h7 : begun (tr ++ [e]) = begun tr := by
    rw [begun_snoc]; rcases he with ⟨a, rfl⟩ | ⟨a, ok, rfl⟩ | rfl <;> simp
  have h8 : ended (tr ++ [e]) = ended tr := by
    rw [ended_snoc]; rcases he with ⟨a, rfl⟩ | ⟨a, ok, rfl⟩ | rfl <;> simp
  have h9 : ∀ m, prepOk (tr ++ [e]) m ↔ prepOk tr m := by
    intro m; rw [prepOk_snoc]; rcases he with ⟨a, rfl⟩ | ⟨a, ok, rfl⟩ | rfl <;> simp
  have h10 : startBegun (tr ++ [e]) ↔ startBegun tr := by
    rw [startBegun_snoc]; rcases he with ⟨a, rfl⟩ | ⟨a, ok, rfl⟩ | rfl <;> simp
  constructor
  · intro m; rw [hl, h4]; exact hi.life m
  · intro m; rw [h1, h4]; exact hi.prep0 m
  · intro m; rw [h1]; exact hi.prep1 m
  · intro m hm; rw [h9]; rw [h4] at hm; exact hi.prepok m hm
  · intro hs; exact hns (h10.mp hs)
  · intro m; rw [h1, h2, hr']; have := hi.popen m; simp [hr] at this; simp [this]
  · intro m; rw [h3, h6, h4]; exact hi.cnt m
  · intro m; rw [hen, h5]; exact hi.en m
  · rw [h7, h8, hr']; have := hi.bal; simp [hr] at this; simp [this]

theorem lifeCode_launch (k : Kind) : lifeCode (launchStatus k) = match k with | .prep => 0 | .start => 1 | .stop => 3 := by
  cases k <;> simp [lifeCode, launchStatus]

theorem inv2_beg {n deps mgmt} {tr : List Ev} {s s' : St} {k : Kind} {m : Nat} (h1 : Inv1 n deps mgmt s)
    (hi : Inv2 tr s) (h : stepBeg s k m = some s') : Inv2 (tr ++ [.beg k m]) s' := by
  obtain ⟨hm, hk, hr, rfl⟩ := stepBeg_some h
  have hnotrun : m ∉ s.running := by
    intro hmem
    obtain ⟨k', hk', hst⟩ := h1.run_status m hmem
    rw [hk] at hk'; cases hk'
    cases k <;> simp [ready, readyToPrep, readyToStart, readyToStop, launchStatus] at hr hst <;> simp [hst] at hr
  -- the status of m before the launch
  have hold : s.status m = (match k with | .prep => statusDead | .start => statusOffline | .stop => statusOnline) := by
    cases k
    · exact (readyToPrep_ready.mp hr).1
    · exact (readyToStart_ready.mp hr).2.1
    · exact (readyToStop_ready.mp hr).2.1
  have hpc : (s.pc = .prep ↔ k = .prep) := by
    cases hp : s.pc <;> cases k <;> simp [hp, passKind] at hk ⊢
  constructor
  · intro x
    rw [lifeOf_snoc]
    by_cases hxm : x = m
    · subst hxm
      have := hi.life x
      cases k <;> simp [lifeUpd, lifeCode, launchStatus, hold] at this ⊢ <;> exact this
    · have := hi.life x
      cases k <;> simp [lifeUpd, set_other _ _ hxm] <;> exact this
  · intro x
    rw [prepBegun_snoc]
    by_cases hxm : x = m
    · subst hxm
      have := hi.prep0 x
      cases k <;> simp [launchStatus, hold] at this ⊢ <;> omega
    · have : ¬ (Ev.beg k m = Ev.beg .prep x) := by intro he; cases he; exact hxm rfl
      simp [this, set_other _ _ hxm]; exact hi.prep0 x
  · intro x
    rw [prepBegun_snoc]
    by_cases hxm : x = m
    · subst hxm
      have := hi.prep0 x; have := hi.prep1 x
      cases k <;> simp [hold] at * <;> omega
    · have : ¬ (Ev.beg k m = Ev.beg .prep x) := by intro he; cases he; exact hxm rfl
      simp [this]; exact hi.prep1 x
  · intro x hx
    rw [prepOk_snoc]; left
    by_cases hxm : x = m
    · subst hxm
      apply hi.prepok
      cases k <;> simp [launchStatus, hold] at hx ⊢
    · simp [set_other _ _ hxm] at hx; exact hi.prepok x hx
  · intro hs
    rw [startBegun_snoc] at hs
    rcases hs with hs | ⟨x, hx⟩
    · exact hi.nostart hs
    · cases hx
      refine ⟨h1.pass_locked ?_, ?_⟩
      · cases hp : s.pc <;> simp [hp, passKind] at hk ⊢
      · simp; intro hp; simp [hp, passKind] at hk
  · intro x
    rw [prepBegun_snoc, prepEnded_snoc]
    have := hi.popen x
    by_cases hxm : x = m
    · subst hxm
      cases k <;> simp [hpc, hnotrun] at this ⊢ <;> omega
    · have h' : ¬ (Ev.beg k m = Ev.beg .prep x) := by intro he; cases he; exact hxm rfl
      simp [h', hxm] at this ⊢; exact this
  · intro x
    rw [startsOk_snoc, stopsBegun_snoc]
    have := hi.cnt x
    by_cases hxm : x = m
    · subst hxm
      cases k <;> simp [launchStatus, hold] at this ⊢ <;> omega
    · have h' : ¬ (Ev.beg k m = Ev.beg .stop x) := by intro he; cases he; exact hxm rfl
      simp [h', set_other _ _ hxm] at this ⊢; exact this
  · intro x; rw [enabledOf_snoc]; exact hi.en x
  · rw [begun_snoc, ended_snoc]; have := hi.bal; simp; omega

theorem inv2_fin {n deps mgmt} {tr : List Ev} {s s' : St} {k : Kind} {m : Nat} {ok : Bool} (h1 : Inv1 n deps mgmt s)
    (hi : Inv2 tr s) (h : stepFin s k m ok = some s') : Inv2 (tr ++ [.fin k m ok]) s' := by
  obtain ⟨hk, hmem, hst, rfl⟩ := stepFin_some h
  have hpc : (s.pc = .prep ↔ k = .prep) := by
    cases hp : s.pc <;> cases k <;> simp [hp, passKind] at hk ⊢
  have hne : m ∉ s.running.erase m := fun hx => ((h1.nodup.mem_erase_iff).mp hx).1 rfl
  have hmem' : ∀ x, x ≠ m → (x ∈ s.running.erase m ↔ x ∈ s.running) := by
    intro x hx; rw [h1.nodup.mem_erase_iff]; simp [hx]
  constructor
  · intro x
    rw [lifeOf_snoc]
    by_cases hxm : x = m
    · subst hxm
      have := hi.life x
      cases k <;> cases ok <;> simp [lifeUpd, lifeCode, launchStatus, finStatus, hst] at this ⊢ <;> exact this
    · have := hi.life x
      cases k <;> cases ok <;> simp [lifeUpd, set_other _ _ hxm] <;> exact this
  · intro x
    rw [prepBegun_snoc]
    by_cases hxm : x = m
    · subst hxm
      have := hi.prep0 x
      cases k <;> cases ok <;> simp [launchStatus, finStatus, hst] at this ⊢ <;> omega
    · simp [set_other _ _ hxm]; exact hi.prep0 x
  · intro x; rw [prepBegun_snoc]; simp; exact hi.prep1 x
  · intro x hx
    rw [prepOk_snoc]
    by_cases hxm : x = m
    · subst hxm
      cases k <;> cases ok <;> simp [launchStatus, finStatus, hst] at hx ⊢
      all_goals first
        | (apply hi.prepok; simp [hst, launchStatus]; done)
        | (left; apply hi.prepok; simp [hst, launchStatus]; done)
    · left; simp [set_other _ _ hxm] at hx; exact hi.prepok x hx
  · intro hs
    rw [startBegun_snoc] at hs
    rcases hs with hs | ⟨x, hx⟩
    · exact hi.nostart hs
    · cases hx
  · intro x
    rw [prepBegun_snoc, prepEnded_snoc]
    have := hi.popen x
    by_cases hxm : x = m
    · subst hxm
      cases k <;> cases ok <;> simp [hpc, hne, hmem] at this ⊢ <;> omega
    · have h' : ¬ (Ev.fin k m ok = Ev.fin .prep x true) := by intro he; cases he; exact hxm rfl
      have h'' : ¬ (Ev.fin k m ok = Ev.fin .prep x false) := by intro he; cases he; exact hxm rfl
      simp [h', h'', hmem' x hxm] at this ⊢; exact this
  · intro x
    rw [startsOk_snoc, stopsBegun_snoc]
    have := hi.cnt x
    by_cases hxm : x = m
    · subst hxm
      cases k <;> cases ok <;> simp [launchStatus, finStatus, hst] at this ⊢ <;> omega
    · have h' : ¬ (Ev.fin k m ok = Ev.fin .start x true) := by intro he; cases he; exact hxm rfl
      simp [h', set_other _ _ hxm] at this ⊢; exact this
  · intro x; rw [enabledOf_snoc]; exact hi.en x
  · rw [begun_snoc, ended_snoc]
    have := hi.bal
    have hl := List.length_erase_of_mem hmem
    have : 0 < s.running.length := List.length_pos_of_mem hmem
    simp [hl]; omega

theorem inv2_enable {tr : List Ev} {s s' : St} {m : Nat} {v : Bool} (hi : Inv2 tr s)
    (h : stepEnable s m v = some s') :
    Inv2 (tr ++ [if v then .enable m else .disable m]) s' := by
  obtain ⟨hpc, hm, rfl⟩ := stepEnable_some h
  have he : ∀ x, enabledOf (tr ++ [if v then Ev.enable m else Ev.disable m]) x = set (enabledOf tr) m v x := by
    intro x; rw [enabledOf_snoc]; cases v <;> simp [enabledUpd]
  constructor
  · intro x; rw [lifeOf_snoc]; cases v <;> exact hi.life x
  · intro x; rw [prepBegun_snoc]; cases v <;> simp <;> exact hi.prep0 x
  · intro x; rw [prepBegun_snoc]; cases v <;> simp <;> exact hi.prep1 x
  · intro x hx; rw [prepOk_snoc]; left; exact hi.prepok x hx
  · intro hs; rw [startBegun_snoc] at hs
    rcases hs with hs | ⟨x, hx⟩
    · exact hi.nostart hs
    · cases v <;> cases hx
  · intro x; rw [prepBegun_snoc, prepEnded_snoc]; have := hi.popen x; cases v <;> simp at this ⊢ <;> exact this
  · intro x; rw [startsOk_snoc, stopsBegun_snoc]; have := hi.cnt x; cases v <;> simp at this ⊢ <;> exact this
  · intro x; rw [he]
    by_cases hxm : x = m
    · subst hxm; simp
    · simp [set_other _ _ hxm]; exact hi.en x
  · rw [begun_snoc, ended_snoc]; have := hi.bal; cases v <;> simp <;> exact this

theorem inv2_step {n deps mgmt} {tr : List Ev} {s s' : St} {e : Ev} (h1 : Inv1 n deps mgmt s) (hi : Inv2 tr s)
    (h : step s e = some s') : Inv2 (tr ++ [e]) s' := by
  cases e with
  | call a =>
    obtain ⟨f1, f2, f3, _, _, _, f7, f8, f9⟩ := stepCall_frame h
    have hr : s.running = [] := h1.idle_run (by simp [f7, passKind])
    refine inv2_quiet hi (Or.inl ⟨a, rfl⟩) f1 f2 hr (by rw [f3]; exact hr) ?_
    intro hs
    have := hi.nostart hs
    refine ⟨f9 this.1, ?_⟩
    intro hp; have := f8 hp; simp_all
  | ret a ok =>
    obtain ⟨hpc, rfl⟩ := stepRet_some h
    have hr : s.running = [] := h1.idle_run (by simp [hpc, passKind])
    refine inv2_quiet hi (Or.inr (Or.inl ⟨a, ok, rfl⟩)) rfl rfl hr hr ?_
    intro hs; exact ⟨(hi.nostart hs).1, by simp⟩
  | beg k m => exact inv2_beg h1 hi h
  | fin k m ok => exact inv2_fin h1 hi h
  | passEnd =>
    obtain ⟨hr, _⟩ := passEnd_running h1 h
    obtain ⟨f1, f2, f3, _, _, _, f7, f8, _⟩ := stepPassEnd_frame h
    refine inv2_quiet hi (Or.inr (Or.inr rfl)) f1 f2 hr (by rw [f3]; exact hr) ?_
    intro hs; exact ⟨by rw [f8]; exact (hi.nostart hs).1, f7⟩
  | enable m => exact inv2_enable (v := true) hi h
  | disable m => exact inv2_enable (v := false) hi h

theorem inv2_of_runs {n deps mgmt} {tr : List Ev} {s : St} (h : Runs (init n deps mgmt) tr s) : Inv2 tr s := by
  induction h with
  | nil => exact inv2_init n deps mgmt
  | snoc hr hs ih => exact inv2_step (inv1_of_runs hr) ih hs

end PB.Modules
