import PB.Model.SubsConc
/- Helper lemmas for the interleaving model of subscriptions (C14). -/
namespace PB.SubsConc

end PB.SubsConc
