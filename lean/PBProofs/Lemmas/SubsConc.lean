import PB.Model.SubsConc
/- Helper lemmas for the interleaving model of subscriptions (C14): the safety invariant. -/
namespace PB.SubsConc

def isNotifying : WPc → Bool
  | .notifying _ => true
  | _ => false

def remOf : WPc → List Nat
  | .notifying r => r
  | _ => []

/-- The safety invariant of the lock protocol. -/
structure Inv (st : CSt) : Prop where
  noPanic : st.panicked = false
  wlRd : st.wl = true → st.rd = []
  rdIff : ∀ w, w ∈ st.rd ↔ isNotifying (st.wpc w) = true
  rdNodup : st.rd.Nodup
  /-- what a notifier still has to visit is in the list (nobody can change the list while it holds the read lock) -/
  remSubs : ∀ w i, i ∈ remOf (st.wpc w) → i ∈ st.subs
  /-- every listed subscription has an open feed -/
  subsOpen : ∀ i, i ∈ st.subs → st.made i = true ∧ st.closed i = false
  subsNodup : st.subs.Nodup
  csWl : ∀ c, (st.cpc c).inCS = true → st.wl = true
  csUnique : ∀ c c', (st.cpc c).inCS = true → (st.cpc c').inCS = true → c = c'
  removedOk : ∀ c, st.cpc c = .removed →
    st.closed (st.ctarget c) = false ∧ st.ctarget c ∉ st.subs ∧ st.made (st.ctarget c) = true
  madeAcc : ∀ i, st.made i = true → i ∈ st.subs ∨ st.closed i = true ∨ ∃ c, st.cpc c = .removed ∧ st.ctarget c = i
  doneClosed : ∀ c, (st.cpc c = .unlocking ∨ st.cpc c = .done) → st.closed (st.ctarget c) = true
  enteredMade : ∀ c, st.cpc c ≠ .idle → st.made (st.ctarget c) = true
  closedMade : ∀ i, st.closed i = true → st.made i = true

theorem inv_init : Inv {} := by
  constructor <;> simp [isNotifying, remOf, CPc.inCS]

theorem upd_apply {α : Type} (f : Nat → α) (i j : Nat) (x : α) : upd f i x j = if j = i then x else f j := rfl

theorem inv_wStore {wants : Nat → Nat → Bool} {st st' : CSt} {w : Nat} (h : Inv st)
    (hs : step wants st (.wStore w) = some st') : Inv st' := by
  simp only [step] at hs
  cases hw : st.wpc w with
  | idle =>
    rw [hw] at hs
    simp only [Option.some.injEq] at hs
    subst hs
    have hnot : w ∉ st.rd := by rw [h.rdIff, hw]; simp [isNotifying]
    exact {
      noPanic := h.noPanic, wlRd := h.wlRd, rdNodup := h.rdNodup, subsOpen := h.subsOpen, subsNodup := h.subsNodup,
      csWl := h.csWl, csUnique := h.csUnique, removedOk := h.removedOk, madeAcc := h.madeAcc, doneClosed := h.doneClosed,
      enteredMade := h.enteredMade, closedMade := h.closedMade,
      rdIff := by
        intro x
        by_cases hx : x = w
        · subst hx; simp [isNotifying, hnot]
        · simp only [upd_apply, hx, if_false]; exact h.rdIff x
      remSubs := by
        intro x i hi
        by_cases hx : x = w
        · subst hx; simp [remOf] at hi
        · simp only [upd_apply, hx, if_false] at hi; exact h.remSubs x i hi }
  | stored => rw [hw] at hs; simp at hs
  | notifying r => rw [hw] at hs; simp at hs
  | done => rw [hw] at hs; simp at hs

theorem inv_wRLock {wants : Nat → Nat → Bool} {st st' : CSt} {w : Nat} (h : Inv st)
    (hs : step wants st (.wRLock w) = some st') : Inv st' := by
  simp only [step] at hs
  cases hw : st.wpc w with
  | stored =>
    rw [hw] at hs
    by_cases hwl : st.wl = true
    · simp [hwl] at hs
    · rw [if_neg hwl] at hs
      simp only [Option.some.injEq] at hs
      subst hs
      have hnot : w ∉ st.rd := by rw [h.rdIff, hw]; simp [isNotifying]
      exact {
        noPanic := h.noPanic, subsOpen := h.subsOpen, subsNodup := h.subsNodup,
        csWl := h.csWl, csUnique := h.csUnique, removedOk := h.removedOk, madeAcc := h.madeAcc, doneClosed := h.doneClosed,
        enteredMade := h.enteredMade, closedMade := h.closedMade,
        wlRd := fun hh => absurd hh hwl
        rdNodup := List.nodup_cons.mpr ⟨hnot, h.rdNodup⟩
        rdIff := by
          intro x
          by_cases hx : x = w
          · subst hx; simp [isNotifying]
          · simp only [upd_apply, hx, if_false, List.mem_cons, false_or]; exact h.rdIff x
        remSubs := by
          intro x i hi
          by_cases hx : x = w
          · subst hx; simpa [upd_apply, remOf] using hi
          · simp only [upd_apply, hx, if_false] at hi; exact h.remSubs x i hi }
  | idle => rw [hw] at hs; simp at hs
  | notifying r => rw [hw] at hs; simp at hs
  | done => rw [hw] at hs; simp at hs


/-- Changing only feed buffers, the log and ghost fields keeps the invariant. -/
theorem inv_frame {st st' : CSt} (h : Inv st)
    (e1 : st'.panicked = st.panicked) (e2 : st'.wl = st.wl) (e3 : st'.rd = st.rd) (e4 : st'.wpc = st.wpc)
    (e5 : st'.subs = st.subs) (e6 : st'.made = st.made) (e7 : st'.closed = st.closed) (e8 : st'.cpc = st.cpc)
    (e9 : st'.ctarget = st.ctarget) : Inv st' := by
  constructor
  · rw [e1]; exact h.noPanic
  · rw [e2, e3]; exact h.wlRd
  · rw [e3, e4]; exact h.rdIff
  · rw [e3]; exact h.rdNodup
  · rw [e4, e5]; exact h.remSubs
  · rw [e5, e6, e7]; exact h.subsOpen
  · rw [e5]; exact h.subsNodup
  · rw [e8, e2]; exact h.csWl
  · rw [e8]; exact h.csUnique
  · rw [e8, e7, e9, e5, e6]; exact h.removedOk
  · rw [e6, e5, e7, e8, e9]; exact h.madeAcc
  · rw [e8, e7, e9]; exact h.doneClosed
  · rw [e8, e6, e9]; exact h.enteredMade
  · rw [e7, e6]; exact h.closedMade

/-- A notifier moving on to the rest of its list (whatever happened to buffers and log). -/
theorem inv_advance {st st' : CSt} {w i : Nat} {rem : List Nat} (h : Inv st) (hw : st.wpc w = .notifying (i :: rem))
    (e1 : st'.panicked = false) (e2 : st'.wl = st.wl) (e3 : st'.rd = st.rd) (e4 : st'.wpc = upd st.wpc w (.notifying rem))
    (e5 : st'.subs = st.subs) (e6 : st'.made = st.made) (e7 : st'.closed = st.closed) (e8 : st'.cpc = st.cpc)
    (e9 : st'.ctarget = st.ctarget) : Inv st' := by
  constructor
  · exact e1
  · rw [e2, e3]; exact h.wlRd
  · rw [e3, e4]
    intro x
    by_cases hx : x = w
    · subst hx
      have := h.rdIff x
      rw [hw] at this
      simpa [isNotifying] using this
    · simp only [upd_apply, hx, if_false]; exact h.rdIff x
  · rw [e3]; exact h.rdNodup
  · rw [e4, e5]
    intro x j hj
    by_cases hx : x = w
    · subst hx
      simp [remOf] at hj
      exact h.remSubs x j (by rw [hw]; simp [remOf, hj])
    · simp only [upd_apply, hx, if_false] at hj; exact h.remSubs x j hj
  · rw [e5, e6, e7]; exact h.subsOpen
  · rw [e5]; exact h.subsNodup
  · rw [e8, e2]; exact h.csWl
  · rw [e8]; exact h.csUnique
  · rw [e8, e7, e9, e5, e6]; exact h.removedOk
  · rw [e6, e5, e7, e8, e9]; exact h.madeAcc
  · rw [e8, e7, e9]; exact h.doneClosed
  · rw [e8, e6, e9]; exact h.enteredMade
  · rw [e7, e6]; exact h.closedMade

theorem inv_wVisit {wants : Nat → Nat → Bool} {st st' : CSt} {w : Nat} (h : Inv st)
    (hs : step wants st (.wVisit w) = some st') : Inv st' := by
  simp only [step] at hs
  cases hw : st.wpc w with
  | notifying l =>
    rw [hw] at hs
    cases l with
    | nil => simp at hs
    | cons i rem =>
      simp only [] at hs
      have hopen : st.closed i = false := (h.subsOpen i (h.remSubs w i (by rw [hw]; simp [remOf]))).2
      by_cases hwant : wants w i = true
      · rw [if_pos hwant, if_neg (by simp [hopen])] at hs
        by_cases hroom : (st.buf i).length < cap
        · rw [if_pos hroom] at hs
          simp only [Option.some.injEq] at hs
          subst hs
          exact inv_advance h hw h.noPanic rfl rfl rfl rfl rfl rfl rfl rfl
        · rw [if_neg hroom] at hs
          simp only [Option.some.injEq] at hs
          subst hs
          exact inv_advance h hw h.noPanic rfl rfl rfl rfl rfl rfl rfl rfl
      · rw [if_neg hwant] at hs
        simp only [Option.some.injEq] at hs
        subst hs
        exact inv_advance h hw h.noPanic rfl rfl rfl rfl rfl rfl rfl rfl
  | idle => rw [hw] at hs; simp at hs
  | stored => rw [hw] at hs; simp at hs
  | done => rw [hw] at hs; simp at hs

theorem inv_wRUnlock {wants : Nat → Nat → Bool} {st st' : CSt} {w : Nat} (h : Inv st)
    (hs : step wants st (.wRUnlock w) = some st') : Inv st' := by
  simp only [step] at hs
  cases hw : st.wpc w with
  | notifying l =>
    rw [hw] at hs
    cases l with
    | cons i rem => simp at hs
    | nil =>
      simp only [Option.some.injEq] at hs
      subst hs
      have hin : w ∈ st.rd := by rw [h.rdIff, hw]; simp [isNotifying]
      exact {
        noPanic := h.noPanic, subsOpen := h.subsOpen, subsNodup := h.subsNodup,
        csWl := h.csWl, csUnique := h.csUnique, removedOk := h.removedOk, madeAcc := h.madeAcc, doneClosed := h.doneClosed,
        enteredMade := h.enteredMade, closedMade := h.closedMade,
        wlRd := by
          intro hh
          have := h.wlRd hh
          rw [this] at hin
          simp at hin
        rdNodup := h.rdNodup.erase w
        rdIff := by
          intro x
          by_cases hx : x = w
          · subst hx
            simp [isNotifying, h.rdNodup.mem_erase_iff]
          · simp only [upd_apply, hx, if_false]
            rw [← h.rdIff x]
            simp [h.rdNodup.mem_erase_iff, hx]
        remSubs := by
          intro x i hi
          by_cases hx : x = w
          · subst hx; simp [remOf] at hi
          · simp only [upd_apply, hx, if_false] at hi; exact h.remSubs x i hi }
  | idle => rw [hw] at hs; simp at hs
  | stored => rw [hw] at hs; simp at hs
  | done => rw [hw] at hs; simp at hs

theorem no_notifier {st : CSt} (h : Inv st) (hrd : st.rd = []) (w : Nat) : remOf (st.wpc w) = [] := by
  have := h.rdIff w
  rw [hrd] at this
  cases hw : st.wpc w with
  | notifying l => rw [hw] at this; simp [isNotifying] at this
  | _ => rfl

theorem inv_add {wants : Nat → Nat → Bool} {st st' : CSt} {i : Nat} (h : Inv st)
    (hs : step wants st (.add i) = some st') : Inv st' := by
  simp only [step] at hs
  by_cases hc : (st.wl || !st.rd.isEmpty || st.made i) = true
  · rw [if_pos hc] at hs; simp at hs
  · rw [if_neg hc] at hs
    simp only [Option.some.injEq] at hs
    subst hs
    simp only [Bool.or_eq_true, not_or, Bool.not_eq_true, Bool.not_eq_eq_eq_not, Bool.not_true] at hc
    obtain ⟨⟨hwl, hrd⟩, hmade⟩ := hc
    have hrd' : st.rd = [] := by simpa using hrd
    have hnin : i ∉ st.subs := fun hm => by have := (h.subsOpen i hm).1; rw [hmade] at this; simp at this
    have hncl : st.closed i = false := by
      cases hcl : st.closed i with
      | false => rfl
      | true => have := h.closedMade i hcl; rw [hmade] at this; simp at this
    exact {
      noPanic := h.noPanic, wlRd := h.wlRd, rdIff := h.rdIff, rdNodup := h.rdNodup, csWl := h.csWl, csUnique := h.csUnique,
      doneClosed := h.doneClosed,
      remSubs := by
        intro w j hj
        rw [no_notifier h hrd' w] at hj
        simp at hj
      subsOpen := by
        intro j hj
        simp only [List.mem_append, List.mem_singleton] at hj
        rcases hj with hj | rfl
        · have := h.subsOpen j hj
          have hne : j ≠ i := fun e => hnin (e ▸ hj)
          simp only [upd_apply, hne, if_false]
          exact this
        · simp [hncl]
      subsNodup := by
        rw [List.nodup_append]
        exact ⟨h.subsNodup, by simp, by intro a ha b hb; simp at hb; subst hb; exact fun e => hnin (e ▸ ha)⟩
      removedOk := by
        intro c hc
        obtain ⟨a, b, d⟩ := h.removedOk c hc
        have hne : st.ctarget c ≠ i := fun e => by rw [e, hmade] at d; simp at d
        refine ⟨a, ?_, by simp only [upd_apply, hne, if_false]; exact d⟩
        simp only [List.mem_append, List.mem_singleton, not_or]
        exact ⟨b, hne⟩
      madeAcc := by
        intro j hj
        by_cases hji : j = i
        · subst hji; exact Or.inl (by simp)
        · simp only [upd_apply, hji, if_false] at hj
          rcases h.madeAcc j hj with a | a | a
          · exact Or.inl (by simp [a])
          · exact Or.inr (Or.inl a)
          · exact Or.inr (Or.inr a)
      enteredMade := by
        intro c hc
        have := h.enteredMade c hc
        by_cases hji : st.ctarget c = i
        · simp [upd_apply, hji]
        · simp only [upd_apply, hji, if_false]; exact this
      closedMade := by
        intro j hj
        have := h.closedMade j hj
        by_cases hji : j = i
        · simp [upd_apply, hji]
        · simp only [upd_apply, hji, if_false]; exact this }


theorem inCS_cases {p : CPc} : p.inCS = true ↔ p = .locked ∨ p = .removed ∨ p = .unlocking := by
  cases p <;> simp [CPc.inCS]

theorem inv_cEnter {wants : Nat → Nat → Bool} {st st' : CSt} {c i : Nat} (h : Inv st)
    (hs : step wants st (.cEnter c i) = some st') : Inv st' := by
  simp only [step] at hs
  cases hc : st.cpc c with
  | idle =>
    rw [hc] at hs
    by_cases hm : st.made i = true
    · rw [if_pos hm] at hs
      simp only [Option.some.injEq] at hs
      subst hs
      have other : ∀ x, x ≠ c → upd st.cpc c CPc.entered x = st.cpc x := fun x hx => by simp [upd_apply, hx]
      have othert : ∀ x, x ≠ c → upd st.ctarget c i x = st.ctarget x := fun x hx => by simp [upd_apply, hx]
      exact {
        noPanic := h.noPanic, wlRd := h.wlRd, rdIff := h.rdIff, rdNodup := h.rdNodup, remSubs := h.remSubs,
        subsOpen := h.subsOpen, subsNodup := h.subsNodup, closedMade := h.closedMade,
        csWl := by
          intro x hx
          by_cases hxc : x = c
          · subst hxc; simp [CPc.inCS] at hx
          · simp only [upd_apply, hxc, if_false] at hx; exact h.csWl x hx
        csUnique := by
          intro x y hx hy
          by_cases hxc : x = c
          · subst hxc; simp [CPc.inCS] at hx
          · by_cases hyc : y = c
            · subst hyc; simp [CPc.inCS] at hy
            · simp only [upd_apply, hxc, if_false] at hx; simp only [upd_apply, hyc, if_false] at hy; exact h.csUnique x y hx hy
        removedOk := by
          intro x hx
          by_cases hxc : x = c
          · subst hxc; simp at hx
          · simp only [upd_apply, hxc, if_false] at hx ⊢; exact h.removedOk x hx
        madeAcc := by
          intro j hj
          rcases h.madeAcc j hj with a | a | ⟨x, hx1, hx2⟩
          · exact Or.inl a
          · exact Or.inr (Or.inl a)
          · have hxc : x ≠ c := fun e => by rw [e, hc] at hx1; simp at hx1
            exact Or.inr (Or.inr ⟨x, by simp only [upd_apply, hxc, if_false]; exact hx1, by simp only [upd_apply, hxc, if_false]; exact hx2⟩)
        doneClosed := by
          intro x hx
          by_cases hxc : x = c
          · subst hxc; simp at hx
          · simp only [upd_apply, hxc, if_false] at hx ⊢; exact h.doneClosed x hx
        enteredMade := by
          intro x hx
          by_cases hxc : x = c
          · subst hxc; simp [hm]
          · simp only [upd_apply, hxc, if_false] at hx ⊢; exact h.enteredMade x hx }
    · rw [if_neg hm] at hs; simp at hs
  | entered => rw [hc] at hs; simp at hs
  | locked => rw [hc] at hs; simp at hs
  | removed => rw [hc] at hs; simp at hs
  | unlocking => rw [hc] at hs; simp at hs
  | done => rw [hc] at hs; simp at hs

theorem inv_cLock {wants : Nat → Nat → Bool} {st st' : CSt} {c : Nat} (h : Inv st)
    (hs : step wants st (.cLock c) = some st') : Inv st' := by
  simp only [step] at hs
  cases hc : st.cpc c with
  | entered =>
    rw [hc] at hs
    by_cases hcond : (st.wl || !st.rd.isEmpty) = true
    · rw [if_pos hcond] at hs; simp at hs
    · rw [if_neg hcond] at hs
      simp only [Option.some.injEq] at hs
      subst hs
      simp only [Bool.or_eq_true, not_or, Bool.not_eq_true, Bool.not_eq_eq_eq_not, Bool.not_true] at hcond
      obtain ⟨hwl, hrd⟩ := hcond
      have hrd' : st.rd = [] := by simpa using hrd
      have nocs : ∀ x, (st.cpc x).inCS = true → False := fun x hx => by have := h.csWl x hx; rw [hwl] at this; simp at this
      have other : ∀ x, x ≠ c → upd st.cpc c CPc.locked x = st.cpc x := fun x hx => by simp [upd_apply, hx]
      exact {
        noPanic := h.noPanic, rdIff := h.rdIff, rdNodup := h.rdNodup, remSubs := h.remSubs,
        subsOpen := h.subsOpen, subsNodup := h.subsNodup, closedMade := h.closedMade,
        wlRd := fun _ => hrd'
        csWl := fun _ _ => rfl
        csUnique := by
          intro x y hx hy
          by_cases hxc : x = c
          · by_cases hyc : y = c
            · rw [hxc, hyc]
            · simp only [upd_apply, hyc, if_false] at hy; exact absurd hy (fun e => nocs y e)
          · simp only [upd_apply, hxc, if_false] at hx; exact absurd hx (fun e => nocs x e)
        removedOk := by
          intro x hx
          by_cases hxc : x = c
          · subst hxc; simp at hx
          · simp only [upd_apply, hxc, if_false] at hx; exact absurd (by rw [hx]; rfl) (fun e => nocs x e)
        madeAcc := by
          intro j hj
          rcases h.madeAcc j hj with a | a | ⟨x, hx1, _⟩
          · exact Or.inl a
          · exact Or.inr (Or.inl a)
          · exact absurd (by rw [hx1]; rfl) (fun e => nocs x e)
        doneClosed := by
          intro x hx
          by_cases hxc : x = c
          · subst hxc; simp at hx
          · simp only [upd_apply, hxc, if_false] at hx; exact h.doneClosed x hx
        enteredMade := by
          intro x _
          by_cases hxc : x = c
          · subst hxc; exact h.enteredMade x (by rw [hc]; simp)
          · rename_i hx
            simp only [upd_apply, hxc, if_false] at hx
            exact h.enteredMade x hx }
  | idle => rw [hc] at hs; simp at hs
  | locked => rw [hc] at hs; simp at hs
  | removed => rw [hc] at hs; simp at hs
  | unlocking => rw [hc] at hs; simp at hs
  | done => rw [hc] at hs; simp at hs


theorem inv_cRemove {wants : Nat → Nat → Bool} {st st' : CSt} {c : Nat} (h : Inv st)
    (hs : step wants st (.cRemove c) = some st') : Inv st' := by
  simp only [step] at hs
  cases hc : st.cpc c with
  | locked =>
    rw [hc] at hs
    have hcs : (st.cpc c).inCS = true := by rw [hc]; rfl
    have hwl := h.csWl c hcs
    have hrd := h.wlRd hwl
    have only : ∀ x, (st.cpc x).inCS = true → x = c := fun x hx => h.csUnique x c hx hcs
    have hmade := h.enteredMade c (by rw [hc]; simp)
    by_cases hin : st.subs.contains (st.ctarget c) = true
    · rw [if_pos hin] at hs
      simp only [Option.some.injEq] at hs
      subst hs
      have hin' : st.ctarget c ∈ st.subs := by simpa using hin
      exact {
        noPanic := h.noPanic, wlRd := h.wlRd, rdIff := h.rdIff, rdNodup := h.rdNodup, closedMade := h.closedMade,
        remSubs := by
          intro w j hj
          rw [no_notifier h hrd w] at hj
          simp at hj
        subsOpen := fun j hj => h.subsOpen j (List.mem_of_mem_erase hj)
        subsNodup := h.subsNodup.erase _
        csWl := fun _ _ => hwl
        csUnique := by
          intro x y hx hy
          have hx' : x = c := by
            by_cases hxc : x = c
            · exact hxc
            · simp only [upd_apply, hxc, if_false] at hx; exact only x hx
          have hy' : y = c := by
            by_cases hyc : y = c
            · exact hyc
            · simp only [upd_apply, hyc, if_false] at hy; exact only y hy
          rw [hx', hy']
        removedOk := by
          intro x hx
          by_cases hxc : x = c
          · subst hxc
            exact ⟨(h.subsOpen _ hin').2, by simp [h.subsNodup.mem_erase_iff], hmade⟩
          · simp only [upd_apply, hxc, if_false] at hx
            exact absurd (only x (by rw [hx]; rfl)) hxc
        madeAcc := by
          intro j hj
          rcases h.madeAcc j hj with a | a | ⟨x, hx1, _⟩
          · by_cases hjt : j = st.ctarget c
            · exact Or.inr (Or.inr ⟨c, by simp [upd_apply], hjt.symm⟩)
            · exact Or.inl (by simp [h.subsNodup.mem_erase_iff, hjt, a])
          · exact Or.inr (Or.inl a)
          · have := only x (by rw [hx1]; rfl)
            rw [this, hc] at hx1
            simp at hx1
        doneClosed := by
          intro x hx
          by_cases hxc : x = c
          · subst hxc; simp [upd_apply] at hx
          · simp only [upd_apply, hxc, if_false] at hx; exact h.doneClosed x hx
        enteredMade := by
          intro x hx
          by_cases hxc : x = c
          · subst hxc; exact hmade
          · simp only [upd_apply, hxc, if_false] at hx; exact h.enteredMade x hx }
    · rw [if_neg hin] at hs
      simp only [Option.some.injEq] at hs
      subst hs
      have hnin : st.ctarget c ∉ st.subs := by simpa using hin
      have hclosed : st.closed (st.ctarget c) = true := by
        rcases h.madeAcc _ hmade with a | a | ⟨x, hx1, _⟩
        · exact absurd a hnin
        · exact a
        · have := only x (by rw [hx1]; rfl)
          rw [this, hc] at hx1
          simp at hx1
      exact {
        noPanic := h.noPanic, wlRd := h.wlRd, rdIff := h.rdIff, rdNodup := h.rdNodup, closedMade := h.closedMade,
        remSubs := h.remSubs, subsOpen := h.subsOpen, subsNodup := h.subsNodup,
        csWl := fun _ _ => hwl
        csUnique := by
          intro x y hx hy
          have hx' : x = c := by
            by_cases hxc : x = c
            · exact hxc
            · simp only [upd_apply, hxc, if_false] at hx; exact only x hx
          have hy' : y = c := by
            by_cases hyc : y = c
            · exact hyc
            · simp only [upd_apply, hyc, if_false] at hy; exact only y hy
          rw [hx', hy']
        removedOk := by
          intro x hx
          by_cases hxc : x = c
          · subst hxc; simp [upd_apply] at hx
          · simp only [upd_apply, hxc, if_false] at hx
            exact absurd (only x (by rw [hx]; rfl)) hxc
        madeAcc := by
          intro j hj
          rcases h.madeAcc j hj with a | a | ⟨x, hx1, _⟩
          · exact Or.inl a
          · exact Or.inr (Or.inl a)
          · have := only x (by rw [hx1]; rfl)
            rw [this, hc] at hx1
            simp at hx1
        doneClosed := by
          intro x hx
          by_cases hxc : x = c
          · subst hxc; exact hclosed
          · simp only [upd_apply, hxc, if_false] at hx; exact h.doneClosed x hx
        enteredMade := by
          intro x hx
          by_cases hxc : x = c
          · subst hxc; exact hmade
          · simp only [upd_apply, hxc, if_false] at hx; exact h.enteredMade x hx }
  | idle => rw [hc] at hs; simp at hs
  | entered => rw [hc] at hs; simp at hs
  | removed => rw [hc] at hs; simp at hs
  | unlocking => rw [hc] at hs; simp at hs
  | done => rw [hc] at hs; simp at hs

theorem inv_cClose {wants : Nat → Nat → Bool} {st st' : CSt} {c : Nat} (h : Inv st)
    (hs : step wants st (.cClose c) = some st') : Inv st' := by
  simp only [step] at hs
  cases hc : st.cpc c with
  | removed =>
    rw [hc] at hs
    obtain ⟨hopen, hnin, hmade⟩ := h.removedOk c hc
    have hcs : (st.cpc c).inCS = true := by rw [hc]; rfl
    have hwl := h.csWl c hcs
    have only : ∀ x, (st.cpc x).inCS = true → x = c := fun x hx => h.csUnique x c hx hcs
    rw [if_neg (by simp [hopen])] at hs
    simp only [Option.some.injEq] at hs
    subst hs
    exact {
      noPanic := h.noPanic, wlRd := h.wlRd, rdIff := h.rdIff, rdNodup := h.rdNodup,
      remSubs := h.remSubs, subsNodup := h.subsNodup, enteredMade := by
        intro x hx
        by_cases hxc : x = c
        · subst hxc; exact hmade
        · simp only [upd_apply, hxc, if_false] at hx; exact h.enteredMade x hx
      subsOpen := by
        intro j hj
        have hne : j ≠ st.ctarget c := fun e => hnin (e ▸ hj)
        simp only [upd_apply, hne, if_false]
        exact h.subsOpen j hj
      csWl := fun _ _ => hwl
      csUnique := by
        intro x y hx hy
        have hx' : x = c := by
          by_cases hxc : x = c
          · exact hxc
          · simp only [upd_apply, hxc, if_false] at hx; exact only x hx
        have hy' : y = c := by
          by_cases hyc : y = c
          · exact hyc
          · simp only [upd_apply, hyc, if_false] at hy; exact only y hy
        rw [hx', hy']
      removedOk := by
        intro x hx
        by_cases hxc : x = c
        · subst hxc; simp [upd_apply] at hx
        · simp only [upd_apply, hxc, if_false] at hx
          exact absurd (only x (by rw [hx]; rfl)) hxc
      madeAcc := by
        intro j hj
        by_cases hjt : j = st.ctarget c
        · exact Or.inr (Or.inl (by simp [upd_apply, hjt]))
        · rcases h.madeAcc j hj with a | a | ⟨x, hx1, hx2⟩
          · exact Or.inl a
          · exact Or.inr (Or.inl (by simp only [upd_apply, hjt, if_false]; exact a))
          · have := only x (by rw [hx1]; rfl)
            rw [this] at hx2
            exact absurd hx2.symm hjt
      doneClosed := by
        intro x hx
        by_cases hxc : x = c
        · subst hxc; simp [upd_apply]
        · simp only [upd_apply, hxc, if_false] at hx
          have := h.doneClosed x hx
          by_cases ht : st.ctarget x = st.ctarget c
          · simp [upd_apply, ht]
          · simp only [upd_apply, ht, if_false]; exact this
      closedMade := by
        intro j hj
        by_cases hjt : j = st.ctarget c
        · rw [hjt]; exact hmade
        · simp only [upd_apply, hjt, if_false] at hj; exact h.closedMade j hj }
  | idle => rw [hc] at hs; simp at hs
  | entered => rw [hc] at hs; simp at hs
  | locked => rw [hc] at hs; simp at hs
  | unlocking => rw [hc] at hs; simp at hs
  | done => rw [hc] at hs; simp at hs

theorem inv_cUnlock {wants : Nat → Nat → Bool} {st st' : CSt} {c : Nat} (h : Inv st)
    (hs : step wants st (.cUnlock c) = some st') : Inv st' := by
  simp only [step] at hs
  cases hc : st.cpc c with
  | unlocking =>
    rw [hc] at hs
    simp only [Option.some.injEq] at hs
    subst hs
    have hcs : (st.cpc c).inCS = true := by rw [hc]; rfl
    have only : ∀ x, (st.cpc x).inCS = true → x = c := fun x hx => h.csUnique x c hx hcs
    have nocs : ∀ x, (upd st.cpc c CPc.done x).inCS = true → False := by
      intro x hx
      by_cases hxc : x = c
      · subst hxc; simp [upd_apply, CPc.inCS] at hx
      · simp only [upd_apply, hxc, if_false] at hx; exact hxc (only x hx)
    exact {
      noPanic := h.noPanic, rdIff := h.rdIff, rdNodup := h.rdNodup, closedMade := h.closedMade,
      remSubs := h.remSubs, subsOpen := h.subsOpen, subsNodup := h.subsNodup,
      wlRd := fun hh => by simp at hh
      csWl := fun x hx => absurd hx (fun e => nocs x e)
      csUnique := fun x _ hx _ => absurd hx (fun e => nocs x e)
      removedOk := by
        intro x hx
        have hx' : upd st.cpc c CPc.done x = CPc.removed := hx
        exact absurd (show (upd st.cpc c CPc.done x).inCS = true by rw [hx']; rfl) (fun e => nocs x e)
      madeAcc := by
        intro j hj
        rcases h.madeAcc j hj with a | a | ⟨x, hx1, _⟩
        · exact Or.inl a
        · exact Or.inr (Or.inl a)
        · have := only x (by rw [hx1]; rfl)
          rw [this, hc] at hx1
          simp at hx1
      doneClosed := by
        intro x hx
        by_cases hxc : x = c
        · subst hxc; exact h.doneClosed x (Or.inl hc)
        · simp only [upd_apply, hxc, if_false] at hx; exact h.doneClosed x hx
      enteredMade := by
        intro x hx
        by_cases hxc : x = c
        · subst hxc; exact h.enteredMade x (by rw [hc]; simp)
        · simp only [upd_apply, hxc, if_false] at hx; exact h.enteredMade x hx }
  | idle => rw [hc] at hs; simp at hs
  | entered => rw [hc] at hs; simp at hs
  | locked => rw [hc] at hs; simp at hs
  | removed => rw [hc] at hs; simp at hs
  | done => rw [hc] at hs; simp at hs

theorem inv_consume {wants : Nat → Nat → Bool} {st st' : CSt} {i : Nat} (h : Inv st)
    (hs : step wants st (.consume i) = some st') : Inv st' := by
  simp only [step] at hs
  cases hb : st.buf i with
  | nil => rw [hb] at hs; simp at hs
  | cons w rest =>
    rw [hb] at hs
    simp only [Option.some.injEq] at hs
    subst hs
    exact inv_frame h rfl rfl rfl rfl rfl rfl rfl rfl rfl

theorem inv_step {wants : Nat → Nat → Bool} {st st' : CSt} (a : Act) (h : Inv st) (hs : step wants st a = some st') :
    Inv st' := by
  cases a with
  | wStore w => exact inv_wStore h hs
  | wRLock w => exact inv_wRLock h hs
  | wVisit w => exact inv_wVisit h hs
  | wRUnlock w => exact inv_wRUnlock h hs
  | add i => exact inv_add h hs
  | cEnter c i => exact inv_cEnter h hs
  | cLock c => exact inv_cLock h hs
  | cRemove c => exact inv_cRemove h hs
  | cClose c => exact inv_cClose h hs
  | cUnlock c => exact inv_cUnlock h hs
  | consume i => exact inv_consume h hs

theorem inv_reach {wants : Nat → Nat → Bool} {st : CSt} (h : Reach wants st) : Inv st := by
  induction h with
  | init => exact inv_init
  | step a _ hs ih => exact inv_step a ih hs


/-! ## Delivery and order bookkeeping -/

/-- The subscriptions writer `w` attempted to send to, in order. -/
def entries (log : List (Nat × Nat × Bool)) (w : Nat) : List Nat := (log.filter (fun e => e.1 == w)).map (·.2.1)

/-- The writers whose record was accepted into feed `i`, in order. -/
def acceptedBy (log : List (Nat × Nat × Bool)) (i : Nat) : List Nat :=
  (log.filter (fun e => e.2.1 == i && e.2.2)).map (·.1)

theorem entries_append (log : List (Nat × Nat × Bool)) (x i : Nat) (b : Bool) (w : Nat) :
    entries (log ++ [(x, i, b)]) w = if x = w then entries log w ++ [i] else entries log w := by
  unfold entries
  by_cases h : x = w
  · simp [List.filter_append, h]
  · simp [List.filter_append, h]

theorem acceptedBy_append (log : List (Nat × Nat × Bool)) (x i : Nat) (b : Bool) (j : Nat) :
    acceptedBy (log ++ [(x, i, b)]) j = if i = j ∧ b = true then acceptedBy log j ++ [x] else acceptedBy log j := by
  unfold acceptedBy
  by_cases h : i = j
  · cases b <;> simp [List.filter_append, h]
  · simp [List.filter_append, h]

def LogOk (wants : Nat → Nat → Bool) (st : CSt) (w : Nat) : Prop :=
  match st.wpc w with
  | .idle => entries st.log w = []
  | .stored => entries st.log w = []
  | .notifying rem => ∃ pre, st.snap w = pre ++ rem ∧ entries st.log w = pre.filter (wants w)
  | .done => entries st.log w = (st.snap w).filter (wants w)

structure DInv (wants : Nat → Nat → Bool) (st : CSt) : Prop where
  cReq : ∀ c, st.cpc c ≠ .idle → st.cancelReq (st.ctarget c) = true
  reqSubs : ∀ i, st.made i = true → st.cancelReq i = false → i ∈ st.subs
  actMade : ∀ w i, st.wpc w ≠ .idle → st.activeAtStart w i = true → st.made i = true
  snapAct : ∀ w i, (isNotifying (st.wpc w) = true ∨ st.wpc w = .done) → st.activeAtStart w i = true →
    st.cancelReq i = false → i ∈ st.snap w
  logSnap : ∀ w, LogOk wants st w
  snapNodup : ∀ w, (st.snap w).Nodup
  markLe : ∀ w, st.mark w ≤ st.log.length
  before : ∀ w, st.wpc w ≠ .idle → ∀ e ∈ st.log.take (st.mark w), e.1 ≠ w
  after : ∀ w2 w1, st.wpc w2 ≠ .idle → st.doneAtStart w2 w1 = true →
    st.wpc w1 = .done ∧ ∀ e ∈ st.log.drop (st.mark w2), e.1 ≠ w1
  feed : ∀ i, st.consumed i ++ st.buf i = acceptedBy st.log i
  sound : ∀ e ∈ st.log, wants e.1 e.2.1 = true

theorem dinv_init (wants : Nat → Nat → Bool) : DInv wants {} := by
  constructor <;> simp [LogOk, entries, acceptedBy, isNotifying]

/-- Cancel-side actions and `add`: they do not touch writers, log, snapshots or feeds. -/
theorem dinv_frame_w {wants : Nat → Nat → Bool} {st st' : CSt} (h : DInv wants st)
    (e1 : st'.wpc = st.wpc) (e2 : st'.log = st.log) (e3 : st'.snap = st.snap) (e4 : st'.activeAtStart = st.activeAtStart)
    (e5 : st'.mark = st.mark) (e6 : st'.doneAtStart = st.doneAtStart) (e7 : st'.buf = st.buf) (e8 : st'.consumed = st.consumed)
    (c1 : ∀ c, st'.cpc c ≠ .idle → st'.cancelReq (st'.ctarget c) = true)
    (c2 : ∀ i, st'.made i = true → st'.cancelReq i = false → i ∈ st'.subs)
    (c3 : ∀ i, st.made i = true → st'.made i = true)
    (c4 : ∀ i, st'.cancelReq i = false → st.cancelReq i = false) : DInv wants st' := by
  constructor
  · exact c1
  · exact c2
  · rw [e1, e4]; exact fun w i a b => c3 i (h.actMade w i a b)
  · rw [e1, e4, e3]; exact fun w i a b c => h.snapAct w i a b (c4 i c)
  · intro w
    have := h.logSnap w
    unfold LogOk at this ⊢
    rw [e1, e2, e3]; exact this
  · rw [e3]; exact h.snapNodup
  · rw [e5, e2]; exact h.markLe
  · rw [e1, e2, e5]; exact h.before
  · rw [e1, e6, e2, e5]; exact h.after
  · rw [e7, e8, e2]; exact h.feed
  · rw [e2]; exact h.sound


theorem entries_nil_not_mem {log : List (Nat × Nat × Bool)} {w : Nat} (h : entries log w = []) : ∀ e ∈ log, e.1 ≠ w := by
  intro e he hw
  unfold entries at h
  have : e ∈ log.filter (fun e => e.1 == w) := by simp [he, hw]
  have h2 : log.filter (fun e => e.1 == w) = [] := by simpa using h
  rw [h2] at this
  simp at this

theorem dinv_cancel_side {wants : Nat → Nat → Bool} {st st' : CSt} (a : Act) (hi : Inv st) (h : DInv wants st)
    (hs : step wants st a = some st')
    (ha : (∃ i, a = .add i) ∨ (∃ c i, a = .cEnter c i) ∨ (∃ c, a = .cLock c) ∨ (∃ c, a = .cRemove c) ∨ (∃ c, a = .cClose c) ∨
      (∃ c, a = .cUnlock c)) : DInv wants st' := by
  rcases ha with ⟨i, rfl⟩ | ⟨c, i, rfl⟩ | ⟨c, rfl⟩ | ⟨c, rfl⟩ | ⟨c, rfl⟩ | ⟨c, rfl⟩
  · -- add
    simp only [step] at hs
    by_cases hc : (st.wl || !st.rd.isEmpty || st.made i) = true
    · rw [if_pos hc] at hs; simp at hs
    · rw [if_neg hc] at hs
      simp only [Option.some.injEq] at hs
      subst hs
      refine dinv_frame_w h rfl rfl rfl rfl rfl rfl rfl rfl h.cReq ?_ ?_ (fun _ x => x)
      · intro j hj hq
        by_cases hji : j = i
        · simp [hji]
        · simp only [upd_apply, hji, if_false] at hj
          simp [h.reqSubs j hj hq]
      · intro j hj
        by_cases hji : j = i
        · simp [upd_apply, hji]
        · simp only [upd_apply, hji, if_false]; exact hj
  · -- cEnter
    simp only [step] at hs
    cases hc : st.cpc c with
    | idle =>
      rw [hc] at hs
      by_cases hm : st.made i = true
      · rw [if_pos hm] at hs
        simp only [Option.some.injEq] at hs
        subst hs
        refine dinv_frame_w h rfl rfl rfl rfl rfl rfl rfl rfl ?_ ?_ (fun _ x => x) ?_
        · intro x hx
          by_cases hxc : x = c
          · subst hxc; simp [upd_apply]
          · simp only [upd_apply, hxc, if_false] at hx ⊢
            by_cases ht : st.ctarget x = i
            · simp [ht]
            · simp only [ht, if_false]; exact h.cReq x hx
        · intro j hj hq
          by_cases hji : j = i
          · subst hji; simp [upd_apply] at hq
          · simp only [upd_apply, hji, if_false] at hq; exact h.reqSubs j hj hq
        · intro j hq
          by_cases hji : j = i
          · subst hji; simp [upd_apply] at hq
          · simp only [upd_apply, hji, if_false] at hq; exact hq
      · rw [if_neg hm] at hs; simp at hs
    | entered => rw [hc] at hs; simp at hs
    | locked => rw [hc] at hs; simp at hs
    | removed => rw [hc] at hs; simp at hs
    | unlocking => rw [hc] at hs; simp at hs
    | done => rw [hc] at hs; simp at hs
  · -- cLock
    simp only [step] at hs
    cases hc : st.cpc c with
    | entered =>
      rw [hc] at hs
      by_cases hcond : (st.wl || !st.rd.isEmpty) = true
      · rw [if_pos hcond] at hs; simp at hs
      · rw [if_neg hcond] at hs
        simp only [Option.some.injEq] at hs
        subst hs
        refine dinv_frame_w h rfl rfl rfl rfl rfl rfl rfl rfl ?_ h.reqSubs (fun _ x => x) (fun _ x => x)
        intro x hx
        by_cases hxc : x = c
        · subst hxc; exact h.cReq x (by rw [hc]; simp)
        · simp only [upd_apply, hxc, if_false] at hx; exact h.cReq x hx
    | idle => rw [hc] at hs; simp at hs
    | locked => rw [hc] at hs; simp at hs
    | removed => rw [hc] at hs; simp at hs
    | unlocking => rw [hc] at hs; simp at hs
    | done => rw [hc] at hs; simp at hs
  · -- cRemove
    simp only [step] at hs
    cases hc : st.cpc c with
    | locked =>
      rw [hc] at hs
      have hreq := h.cReq c (by rw [hc]; simp)
      have c1 : ∀ p : CPc, p ≠ .idle → ∀ x, upd st.cpc c p x ≠ .idle → st.cancelReq (st.ctarget x) = true := by
        intro p _ x hx
        by_cases hxc : x = c
        · subst hxc; exact hreq
        · simp only [upd_apply, hxc, if_false] at hx; exact h.cReq x hx
      by_cases hin : st.subs.contains (st.ctarget c) = true
      · rw [if_pos hin] at hs
        simp only [Option.some.injEq] at hs
        subst hs
        refine dinv_frame_w h rfl rfl rfl rfl rfl rfl rfl rfl (c1 .removed (by simp)) ?_ (fun _ x => x) (fun _ x => x)
        intro j hj hq
        have hne : j ≠ st.ctarget c := fun e => by rw [e, hreq] at hq; simp at hq
        simp [hi.subsNodup.mem_erase_iff, hne, h.reqSubs j hj hq]
      · rw [if_neg hin] at hs
        simp only [Option.some.injEq] at hs
        subst hs
        exact dinv_frame_w h rfl rfl rfl rfl rfl rfl rfl rfl (c1 .unlocking (by simp)) h.reqSubs (fun _ x => x) (fun _ x => x)
    | idle => rw [hc] at hs; simp at hs
    | entered => rw [hc] at hs; simp at hs
    | removed => rw [hc] at hs; simp at hs
    | unlocking => rw [hc] at hs; simp at hs
    | done => rw [hc] at hs; simp at hs
  · -- cClose
    simp only [step] at hs
    cases hc : st.cpc c with
    | removed =>
      rw [hc] at hs
      have hreq := h.cReq c (by rw [hc]; simp)
      have c1 : ∀ x, upd st.cpc c CPc.unlocking x ≠ .idle → st.cancelReq (st.ctarget x) = true := by
        intro x hx
        by_cases hxc : x = c
        · subst hxc; exact hreq
        · simp only [upd_apply, hxc, if_false] at hx; exact h.cReq x hx
      by_cases hcl : st.closed (st.ctarget c) = true
      · rw [if_pos hcl] at hs
        simp only [Option.some.injEq] at hs
        subst hs
        exact dinv_frame_w h rfl rfl rfl rfl rfl rfl rfl rfl c1 h.reqSubs (fun _ x => x) (fun _ x => x)
      · rw [if_neg hcl] at hs
        simp only [Option.some.injEq] at hs
        subst hs
        exact dinv_frame_w h rfl rfl rfl rfl rfl rfl rfl rfl c1 h.reqSubs (fun _ x => x) (fun _ x => x)
    | idle => rw [hc] at hs; simp at hs
    | entered => rw [hc] at hs; simp at hs
    | locked => rw [hc] at hs; simp at hs
    | unlocking => rw [hc] at hs; simp at hs
    | done => rw [hc] at hs; simp at hs
  · -- cUnlock
    simp only [step] at hs
    cases hc : st.cpc c with
    | unlocking =>
      rw [hc] at hs
      simp only [Option.some.injEq] at hs
      subst hs
      refine dinv_frame_w h rfl rfl rfl rfl rfl rfl rfl rfl ?_ h.reqSubs (fun _ x => x) (fun _ x => x)
      intro x hx
      by_cases hxc : x = c
      · subst hxc; exact h.cReq x (by rw [hc]; simp)
      · simp only [upd_apply, hxc, if_false] at hx; exact h.cReq x hx
    | idle => rw [hc] at hs; simp at hs
    | entered => rw [hc] at hs; simp at hs
    | locked => rw [hc] at hs; simp at hs
    | removed => rw [hc] at hs; simp at hs
    | done => rw [hc] at hs; simp at hs


theorem dinv_wStore {wants : Nat → Nat → Bool} {st st' : CSt} {w : Nat} (h : DInv wants st)
    (hs : step wants st (.wStore w) = some st') : DInv wants st' := by
  simp only [step] at hs
  cases hw : st.wpc w with
  | idle =>
    rw [hw] at hs
    simp only [Option.some.injEq] at hs
    subst hs
    have hent : entries st.log w = [] := by have := h.logSnap w; unfold LogOk at this; rw [hw] at this; exact this
    have hne : ∀ x, st.wpc x = .done → x ≠ w := fun x hx e => by rw [e, hw] at hx; simp at hx
    exact {
      cReq := h.cReq, reqSubs := h.reqSubs, snapNodup := h.snapNodup, feed := h.feed, sound := h.sound,
      actMade := by
        intro x i hx ha
        by_cases hxw : x = w
        · subst hxw; simpa [upd_apply] using ha
        · simp only [upd_apply, hxw, if_false] at hx ha; exact h.actMade x i hx ha
      snapAct := by
        intro x i hx ha hq
        by_cases hxw : x = w
        · subst hxw; simp [upd_apply, isNotifying] at hx
        · simp only [upd_apply, hxw, if_false] at hx ha; exact h.snapAct x i hx ha hq
      logSnap := by
        intro x
        by_cases hxw : x = w
        · subst hxw; unfold LogOk; simp [upd_apply, hent]
        · have := h.logSnap x
          unfold LogOk at this ⊢
          simp only [upd_apply, hxw, if_false]; exact this
      markLe := by
        intro x
        by_cases hxw : x = w
        · subst hxw; simp [upd_apply]
        · simp only [upd_apply, hxw, if_false]; exact h.markLe x
      before := by
        intro x hx e he
        by_cases hxw : x = w
        · subst hxw
          simp only [upd_apply, if_true, List.take_length] at he
          exact entries_nil_not_mem hent e he
        · simp only [upd_apply, hxw, if_false] at hx he; exact h.before x hx e he
      after := by
        intro w2 w1 hx hd
        by_cases hxw : w2 = w
        · subst hxw
          simp only [upd_apply, if_true] at hd ⊢
          have hdone : st.wpc w1 = .done := by simpa using hd
          have := hne w1 hdone
          simp [this, hdone]
        · simp only [upd_apply, hxw, if_false] at hx hd ⊢
          obtain ⟨a, b⟩ := h.after w2 w1 hx hd
          have := hne w1 a
          simp only [this, if_false]
          exact ⟨a, b⟩ }
  | stored => rw [hw] at hs; simp at hs
  | notifying r => rw [hw] at hs; simp at hs
  | done => rw [hw] at hs; simp at hs

theorem dinv_wRLock {wants : Nat → Nat → Bool} {st st' : CSt} {w : Nat} (hi : Inv st) (h : DInv wants st)
    (hs : step wants st (.wRLock w) = some st') : DInv wants st' := by
  simp only [step] at hs
  cases hw : st.wpc w with
  | stored =>
    rw [hw] at hs
    by_cases hwl : st.wl = true
    · simp [hwl] at hs
    · rw [if_neg hwl] at hs
      simp only [Option.some.injEq] at hs
      subst hs
      have hent : entries st.log w = [] := by have := h.logSnap w; unfold LogOk at this; rw [hw] at this; exact this
      have hne : ∀ x, st.wpc x = .done → x ≠ w := fun x hx e => by rw [e, hw] at hx; simp at hx
      have nonidle : ∀ x, upd st.wpc w (WPc.notifying st.subs) x ≠ .idle → st.wpc x ≠ .idle := by
        intro x hx
        by_cases hxw : x = w
        · subst hxw; rw [hw]; simp
        · simp only [upd_apply, hxw, if_false] at hx; exact hx
      exact {
        cReq := h.cReq, reqSubs := h.reqSubs, feed := h.feed, sound := h.sound, markLe := h.markLe,
        actMade := fun x i hx ha => h.actMade x i (nonidle x hx) ha
        snapAct := by
          intro x i hx ha hq
          by_cases hxw : x = w
          · subst hxw
            simp only [upd_apply, if_true]
            exact h.reqSubs i (h.actMade x i (by rw [hw]; simp) ha) hq
          · simp only [upd_apply, hxw, if_false] at hx ⊢; exact h.snapAct x i hx ha hq
        logSnap := by
          intro x
          by_cases hxw : x = w
          · subst hxw; unfold LogOk; simp only [upd_apply, if_true]; exact ⟨[], by simp, by simp [hent]⟩
          · have := h.logSnap x
            unfold LogOk at this ⊢
            simp only [upd_apply, hxw, if_false]; exact this
        snapNodup := by
          intro x
          by_cases hxw : x = w
          · subst hxw; simp only [upd_apply, if_true]; exact hi.subsNodup
          · simp only [upd_apply, hxw, if_false]; exact h.snapNodup x
        before := fun x hx e he => h.before x (nonidle x hx) e he
        after := by
          intro w2 w1 hx hd
          obtain ⟨a, b⟩ := h.after w2 w1 (nonidle w2 hx) hd
          have := hne w1 a
          simp only [upd_apply, this, if_false]
          exact ⟨a, b⟩ }
  | idle => rw [hw] at hs; simp at hs
  | notifying r => rw [hw] at hs; simp at hs
  | done => rw [hw] at hs; simp at hs

/-- The common part of the three outcomes of one loop iteration (attempt accepted / buffer full / not for this subscriber). -/
theorem dinv_visit_core {wants : Nat → Nat → Bool} {st st' : CSt} {w i : Nat} {rem : List Nat} (h : DInv wants st)
    (hw : st.wpc w = .notifying (i :: rem)) (app : List (Nat × Nat × Bool))
    (happ : app = [] ∧ wants w i = false ∨ ∃ b, app = [(w, i, b)] ∧ wants w i = true)
    (e1 : st'.wpc = upd st.wpc w (.notifying rem)) (e2 : st'.log = st.log ++ app) (e3 : st'.snap = st.snap)
    (e4 : st'.activeAtStart = st.activeAtStart) (e5 : st'.mark = st.mark) (e6 : st'.doneAtStart = st.doneAtStart)
    (e7 : st'.cpc = st.cpc) (e8 : st'.ctarget = st.ctarget) (e9 : st'.cancelReq = st.cancelReq) (e10 : st'.made = st.made)
    (e11 : st'.subs = st.subs)
    (hfeed : ∀ j, st'.consumed j ++ st'.buf j = acceptedBy (st.log ++ app) j) : DInv wants st' := by
  have nonidle : ∀ x, upd st.wpc w (WPc.notifying rem) x ≠ .idle → st.wpc x ≠ .idle := by
    intro x hx
    by_cases hxw : x = w
    · subst hxw; rw [hw]; simp
    · simp only [upd_apply, hxw, if_false] at hx; exact hx
  have hne : ∀ x, st.wpc x = .done → x ≠ w := fun x hx e => by rw [e, hw] at hx; simp at hx
  have appw : ∀ e ∈ app, e.1 = w := by
    intro e he
    rcases happ with ⟨rfl, _⟩ | ⟨b, rfl, _⟩
    · simp at he
    · simp at he; rw [he]
  have entx : ∀ x, x ≠ w → entries (st.log ++ app) x = entries st.log x := by
    intro x hx
    rcases happ with ⟨rfl, _⟩ | ⟨b, rfl, _⟩
    · simp
    · rw [entries_append]
      have hwx : ¬ w = x := fun e => hx (Eq.symm e)
      simp [hwx]
  constructor
  · rw [e7, e9, e8]; exact h.cReq
  · rw [e10, e9, e11]; exact h.reqSubs
  · rw [e1, e4, e10]; exact fun x j hx ha => h.actMade x j (nonidle x hx) ha
  · rw [e1, e4, e9, e3]
    intro x j hx ha hq
    by_cases hxw : x = w
    · subst hxw; exact h.snapAct x j (Or.inl (by rw [hw]; rfl)) ha hq
    · simp only [upd_apply, hxw, if_false] at hx; exact h.snapAct x j hx ha hq
  · intro x
    unfold LogOk
    rw [e1, e2, e3]
    by_cases hxw : x = w
    · subst hxw
      simp only [upd_apply, if_true]
      have := h.logSnap x
      unfold LogOk at this
      rw [hw] at this
      obtain ⟨pre, hp1, hp2⟩ := this
      refine ⟨pre ++ [i], by simp [hp1], ?_⟩
      rcases happ with ⟨rfl, hwn⟩ | ⟨b, rfl, hwy⟩
      · simp [hp2, List.filter_append, hwn]
      · rw [entries_append]; simp [hp2, List.filter_append, hwy]
    · simp only [upd_apply, hxw, if_false]
      rw [entx x hxw]
      have := h.logSnap x
      unfold LogOk at this
      exact this
  · rw [e3]; exact h.snapNodup
  · rw [e5, e2]; intro x; have := h.markLe x; simp; omega
  · rw [e1, e2, e5]
    intro x hx e he
    rw [List.take_append_of_le_length (h.markLe x)] at he
    exact h.before x (nonidle x hx) e he
  · rw [e1, e6, e2, e5]
    intro w2 w1 hx hd
    obtain ⟨a, b⟩ := h.after w2 w1 (nonidle w2 hx) hd
    have hw1 := hne w1 a
    refine ⟨by simp only [upd_apply, hw1, if_false]; exact a, ?_⟩
    intro e he
    rw [List.drop_append_of_le_length (h.markLe w2)] at he
    rcases List.mem_append.mp he with he | he
    · exact b e he
    · rw [appw e he]; exact fun e' => hw1 e'.symm
  · rw [e2]; exact hfeed
  · rw [e2]
    intro e he
    rcases List.mem_append.mp he with he | he
    · exact h.sound e he
    · rcases happ with ⟨rfl, _⟩ | ⟨b, rfl, hwy⟩
      · simp at he
      · simp at he; rw [he]; exact hwy

theorem dinv_wVisit {wants : Nat → Nat → Bool} {st st' : CSt} {w : Nat} (hi : Inv st) (h : DInv wants st)
    (hs : step wants st (.wVisit w) = some st') : DInv wants st' := by
  simp only [step] at hs
  cases hw : st.wpc w with
  | notifying l =>
    rw [hw] at hs
    cases l with
    | nil => simp at hs
    | cons i rem =>
      simp only [] at hs
      have hopen : st.closed i = false := (hi.subsOpen i (hi.remSubs w i (by rw [hw]; simp [remOf]))).2
      by_cases hwant : wants w i = true
      · rw [if_pos hwant, if_neg (by simp [hopen])] at hs
        by_cases hroom : (st.buf i).length < cap
        · rw [if_pos hroom] at hs
          simp only [Option.some.injEq] at hs
          subst hs
          refine dinv_visit_core h hw [(w, i, true)] (Or.inr ⟨true, rfl, hwant⟩) rfl rfl rfl rfl rfl rfl rfl rfl rfl rfl rfl ?_
          intro j
          rw [acceptedBy_append]
          by_cases hij : i = j
          · subst hij; simp [upd_apply, ← h.feed i, List.append_assoc]
          · have hji : j ≠ i := fun e => hij e.symm
            simp only [upd_apply, hji, if_false, hij, false_and]; exact h.feed j
        · rw [if_neg hroom] at hs
          simp only [Option.some.injEq] at hs
          subst hs
          refine dinv_visit_core h hw [(w, i, false)] (Or.inr ⟨false, rfl, hwant⟩) rfl rfl rfl rfl rfl rfl rfl rfl rfl rfl rfl ?_
          intro j
          rw [acceptedBy_append]
          simp only [Bool.false_eq_true, and_false, if_false]; exact h.feed j
      · rw [if_neg hwant] at hs
        simp only [Option.some.injEq] at hs
        subst hs
        refine dinv_visit_core h hw [] (Or.inl ⟨rfl, by simpa using hwant⟩) rfl (by simp) rfl rfl rfl rfl rfl rfl rfl rfl rfl ?_
        intro j
        simp only [List.append_nil]; exact h.feed j
  | idle => rw [hw] at hs; simp at hs
  | stored => rw [hw] at hs; simp at hs
  | done => rw [hw] at hs; simp at hs

theorem dinv_wRUnlock {wants : Nat → Nat → Bool} {st st' : CSt} {w : Nat} (h : DInv wants st)
    (hs : step wants st (.wRUnlock w) = some st') : DInv wants st' := by
  simp only [step] at hs
  cases hw : st.wpc w with
  | notifying l =>
    rw [hw] at hs
    cases l with
    | cons i rem => simp at hs
    | nil =>
      simp only [Option.some.injEq] at hs
      subst hs
      have nonidle : ∀ x, upd st.wpc w WPc.done x ≠ .idle → st.wpc x ≠ .idle := by
        intro x hx
        by_cases hxw : x = w
        · subst hxw; rw [hw]; simp
        · simp only [upd_apply, hxw, if_false] at hx; exact hx
      exact {
        cReq := h.cReq, reqSubs := h.reqSubs, feed := h.feed, sound := h.sound, markLe := h.markLe, snapNodup := h.snapNodup,
        actMade := fun x i hx ha => h.actMade x i (nonidle x hx) ha
        snapAct := by
          intro x i hx ha hq
          by_cases hxw : x = w
          · subst hxw; exact h.snapAct x i (Or.inl (by rw [hw]; rfl)) ha hq
          · simp only [upd_apply, hxw, if_false] at hx; exact h.snapAct x i hx ha hq
        logSnap := by
          intro x
          by_cases hxw : x = w
          · subst hxw
            have := h.logSnap x
            unfold LogOk at this ⊢
            rw [hw] at this
            obtain ⟨pre, hp1, hp2⟩ := this
            simp only [upd_apply, if_true]
            rw [hp2, hp1]; simp
          · have := h.logSnap x
            unfold LogOk at this ⊢
            simp only [upd_apply, hxw, if_false]; exact this
        before := fun x hx e he => h.before x (nonidle x hx) e he
        after := by
          intro w2 w1 hx hd
          obtain ⟨a, b⟩ := h.after w2 w1 (nonidle w2 hx) hd
          refine ⟨?_, b⟩
          by_cases hw1 : w1 = w
          · simp [upd_apply, hw1]
          · simp only [upd_apply, hw1, if_false]; exact a }
  | idle => rw [hw] at hs; simp at hs
  | stored => rw [hw] at hs; simp at hs
  | done => rw [hw] at hs; simp at hs

theorem dinv_consume {wants : Nat → Nat → Bool} {st st' : CSt} {i : Nat} (h : DInv wants st)
    (hs : step wants st (.consume i) = some st') : DInv wants st' := by
  simp only [step] at hs
  cases hb : st.buf i with
  | nil => rw [hb] at hs; simp at hs
  | cons w rest =>
    rw [hb] at hs
    simp only [Option.some.injEq] at hs
    subst hs
    exact {
      cReq := h.cReq, reqSubs := h.reqSubs, actMade := h.actMade, snapAct := h.snapAct, logSnap := h.logSnap,
      snapNodup := h.snapNodup, markLe := h.markLe, before := h.before, after := h.after, sound := h.sound,
      feed := by
        intro j
        by_cases hji : j = i
        · subst hji
          have := h.feed j
          rw [hb] at this
          simp [upd_apply, ← this]
        · simp only [upd_apply, hji, if_false]; exact h.feed j }

theorem dinv_step {wants : Nat → Nat → Bool} {st st' : CSt} (a : Act) (hi : Inv st) (h : DInv wants st)
    (hs : step wants st a = some st') : DInv wants st' := by
  cases a with
  | wStore w => exact dinv_wStore h hs
  | wRLock w => exact dinv_wRLock hi h hs
  | wVisit w => exact dinv_wVisit hi h hs
  | wRUnlock w => exact dinv_wRUnlock h hs
  | add i => exact dinv_cancel_side _ hi h hs (Or.inl ⟨i, rfl⟩)
  | cEnter c i => exact dinv_cancel_side _ hi h hs (Or.inr (Or.inl ⟨c, i, rfl⟩))
  | cLock c => exact dinv_cancel_side _ hi h hs (Or.inr (Or.inr (Or.inl ⟨c, rfl⟩)))
  | cRemove c => exact dinv_cancel_side _ hi h hs (Or.inr (Or.inr (Or.inr (Or.inl ⟨c, rfl⟩))))
  | cClose c => exact dinv_cancel_side _ hi h hs (Or.inr (Or.inr (Or.inr (Or.inr (Or.inl ⟨c, rfl⟩)))))
  | cUnlock c => exact dinv_cancel_side _ hi h hs (Or.inr (Or.inr (Or.inr (Or.inr (Or.inr ⟨c, rfl⟩)))))
  | consume i => exact dinv_consume h hs

theorem dinv_reach {wants : Nat → Nat → Bool} {st : CSt} (h : Reach wants st) : DInv wants st := by
  induction h with
  | init => exact dinv_init wants
  | step a hr hs ih => exact dinv_step a (inv_reach hr) ih hs


/-! ## What a single step can do to the log and to closed flags -/

theorem step_log {wants : Nat → Nat → Bool} {st st' : CSt} {a : Act} (hs : step wants st a = some st') :
    st'.log = st.log ∨ ∃ w i rem b, a = .wVisit w ∧ st.wpc w = .notifying (i :: rem) ∧ st'.log = st.log ++ [(w, i, b)] := by
  cases a <;> simp only [step] at hs <;> (repeat' split at hs) <;> cases hs <;>
    first
    | exact Or.inl rfl
    | exact Or.inr ⟨_, _, _, true, rfl, by assumption, rfl⟩
    | exact Or.inr ⟨_, _, _, false, rfl, by assumption, rfl⟩

theorem step_closed_mono {wants : Nat → Nat → Bool} {st st' : CSt} {a : Act} (hs : step wants st a = some st') (i : Nat)
    (hc : st.closed i = true) : st'.closed i = true := by
  cases a <;> simp only [step] at hs <;> (repeat' split at hs) <;> cases hs <;>
    first
    | exact hc
    | (rename_i c _ _ _
       by_cases hi : i = st.ctarget c
       · simp [upd_apply, hi]
       · simp only [upd_apply, hi, if_false]; exact hc)

/-- Run a list of actions (`none` if one of them is not enabled). -/
def runActs (wants : Nat → Nat → Bool) : List Act → CSt → Option CSt
  | [], st => some st
  | a :: as, st => (step wants st a).bind (runActs wants as)

theorem reach_runActs {wants : Nat → Nat → Bool} : ∀ (acts : List Act) (st st' : CSt), Reach wants st →
    runActs wants acts st = some st' → Reach wants st' := by
  intro acts
  induction acts with
  | nil => intro st st' hr h; simp [runActs] at h; exact h ▸ hr
  | cons a as ih =>
    intro st st' hr h
    simp only [runActs] at h
    cases hs : step wants st a with
    | none => rw [hs] at h; simp at h
    | some s1 => rw [hs] at h; exact ih s1 st' (Reach.step a hr hs) h

theorem count_filter_nodup (p : Nat → Bool) : ∀ (l : List Nat) (i : Nat), l.Nodup → i ∈ l →
    (l.filter p).count i = if p i then 1 else 0 := by
  intro l
  induction l with
  | nil => intro i _ hi; simp at hi
  | cons x xs ih =>
    intro i hn hi
    simp only [List.nodup_cons] at hn
    simp only [List.mem_cons] at hi
    by_cases hxi : x = i
    · subst hxi
      have : (xs.filter p).count x = 0 := List.count_eq_zero.mpr (fun hm => hn.1 (List.mem_filter.mp hm).1)
      by_cases hp : p x = true
      · simp [List.filter, hp, this]
      · simp [List.filter, hp, this]
    · have hi' : i ∈ xs := by rcases hi with hi | hi; exact absurd hi.symm hxi; exact hi
      have := ih i hn.2 hi'
      by_cases hp : p x = true
      · simp [List.filter, hp, List.count_cons, hxi, this]
      · simp [List.filter, hp, this]

end PB.SubsConc
