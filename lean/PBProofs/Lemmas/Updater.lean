import PB.Model.Updater
import PB.Spec.Updater
/- Helper lemmas for C19 (version order, sorting, selection cascade, purge boundary, file names). -/
namespace PB.Updater
open PB.Updater.Spec

/-! ### The version order is a strict total order -/

theorem strLt_irrefl : ∀ a : Str, strLt a a = false
  | [] => rfl
  | x :: xs => by simp [strLt, strLt_irrefl xs]

theorem strLt_trans : ∀ a b c : Str, strLt a b = true → strLt b c = true → strLt a c = true
  | [], [], _ => by simp [strLt]
  | [], _ :: _, [] => by simp [strLt]
  | [], _ :: _, _ :: _ => by simp [strLt]
  | _ :: _, [], _ => by simp [strLt]
  | _ :: _, _ :: _, [] => by simp [strLt]
  | x :: xs, y :: ys, z :: zs => by
    intro h1 h2
    simp only [strLt] at *
    have ih := strLt_trans xs ys zs
    (repeat' split at h1) <;> (repeat' split at h2) <;> (repeat' split) <;> first | rfl | omega | (simp_all) | skip
    all_goals first | omega | (apply ih <;> assumption)

theorem strLt_total : ∀ a b : Str, strLt a b = false → strLt b a = false → a = b
  | [], [] => by simp
  | [], _ :: _ => by simp [strLt]
  | _ :: _, [] => by simp [strLt]
  | x :: xs, y :: ys => by
    intro h1 h2
    simp only [strLt] at h1 h2
    have ih := strLt_total xs ys
    (repeat' split at h1) <;> (repeat' split at h2) <;> first | contradiction | omega | skip
    have : x = y := by omega
    subst this
    rw [ih h1 h2]

theorem preLt_irrefl (a : Str) : preLt a a = false := by
  unfold preLt; split <;> simp_all [strLt_irrefl]

theorem Ver.lt_irrefl (a : Ver) : a.lt a = false := by
  simp [Ver.lt, preLt_irrefl]

theorem preLt_trans (a b c : Str) : preLt a b = true → preLt b c = true → preLt a c = true := by
  unfold preLt
  intro h1 h2
  (repeat' split at h1) <;> (repeat' split at h2) <;> (repeat' split) <;> simp_all
  exact strLt_trans a b c h1 h2

theorem preLt_total (a b : Str) : preLt a b = false → preLt b a = false → a = b := by
  unfold preLt
  intro h1 h2
  (repeat' split at h1) <;> (repeat' split at h2) <;> simp_all [List.isEmpty_iff]
  exact strLt_total a b h1 h2

theorem Ver.lt_trans (a b c : Ver) : a.lt b = true → b.lt c = true → a.lt c = true := by
  unfold Ver.lt
  intro h1 h2
  have := preLt_trans a.pre b.pre c.pre
  (repeat' split at h1) <;> (repeat' split at h2) <;> (repeat' split) <;> simp_all <;> omega

theorem Ver.lt_total (a b : Ver) : a.lt b = false → b.lt a = false → a = b := by
  unfold Ver.lt
  intro h1 h2
  have := preLt_total a.pre b.pre
  cases a; cases b
  (repeat' split at h1) <;> (repeat' split at h2) <;> simp_all <;> omega

theorem Ver.lt_asymm (a b : Ver) : a.lt b = true → b.lt a = false := by
  intro h
  cases h2 : b.lt a
  · rfl
  · have := Ver.lt_trans a b a h h2
    simp [Ver.lt_irrefl] at this

/-- "not older than" is transitive -/
theorem Ver.ge_trans (a b c : Ver) : a.lt b = false → b.lt c = false → a.lt c = false := by
  intro h1 h2
  cases h : a.lt c
  · rfl
  · cases hba : b.lt a
    · have := Ver.lt_total a b h1 hba
      subst this
      simp [h] at h2
    · have := Ver.lt_trans b a c hba h
      simp [this] at h2

/-! ### Sorting newest first -/

/-- newest first: no element is older than a later one -/
def Sorted (l : List RV) : Prop := l.Pairwise (fun a b => a.ver.lt b.ver = false)

/-- version numbers are pairwise different: the version number is a key of the list -/
def VerNodup (l : List RV) : Prop := l.Pairwise (fun a b => a.ver ≠ b.ver)

theorem insertDesc_perm (x : RV) : ∀ l, (insertDesc x l).Perm (x :: l)
  | [] => List.Perm.refl _
  | y :: ys => by
    unfold insertDesc
    split
    · exact ((insertDesc_perm x ys).cons y).trans (List.Perm.swap x y ys)
    · exact List.Perm.refl _

theorem sortDesc_perm : ∀ l, (sortDesc l).Perm l
  | [] => List.Perm.refl _
  | x :: xs => (insertDesc_perm x (sortDesc xs)).trans ((sortDesc_perm xs).cons x)

theorem insertDesc_sorted (x : RV) : ∀ l, Sorted l → Sorted (insertDesc x l)
  | [], _ => by simp [insertDesc, Sorted]
  | y :: ys, h => by
    unfold insertDesc
    have hy := List.pairwise_cons.mp h
    split
    · rename_i hlt
      apply List.pairwise_cons.mpr
      refine ⟨?_, insertDesc_sorted x ys hy.2⟩
      intro z hz
      rcases List.mem_cons.mp ((insertDesc_perm x ys).mem_iff.mp hz) with hz | hz
      · subst hz; exact Ver.lt_asymm _ _ hlt
      · exact hy.1 z hz
    · rename_i hlt
      have hlt' : x.ver.lt y.ver = false := by simpa using hlt
      apply List.pairwise_cons.mpr
      refine ⟨?_, h⟩
      intro z hz
      rcases List.mem_cons.mp hz with rfl | hz
      · exact hlt'
      · exact Ver.ge_trans _ _ _ hlt' (hy.1 z hz)

theorem sortDesc_sorted : ∀ l, Sorted (sortDesc l)
  | [] => by simp [sortDesc, Sorted]
  | x :: xs => insertDesc_sorted x _ (sortDesc_sorted xs)

theorem mem_sortDesc {l : List RV} {x : RV} : x ∈ sortDesc l ↔ x ∈ l := (sortDesc_perm l).mem_iff

theorem VerNodup.perm {l l' : List RV} (p : l.Perm l') (h : VerNodup l) : VerNodup l' :=
  (p.pairwise_iff (fun {_ _} h => Ne.symm h)).mp h

theorem verNodup_sortDesc {l : List RV} (h : VerNodup l) : VerNodup (sortDesc l) :=
  h.perm (sortDesc_perm l).symm

theorem VerNodup.eq_of_ver {l : List RV} (h : VerNodup l) {a b : RV} (ha : a ∈ l) (hb : b ∈ l)
    (e : a.ver = b.ver) : a = b := by
  induction l with
  | nil => cases ha
  | cons x xs ih =>
    have hx := List.pairwise_cons.mp h
    rcases List.mem_cons.mp ha with h1 | h1
    · rcases List.mem_cons.mp hb with h2 | h2
      · rw [h1, h2]
      · subst h1; exact absurd e (hx.1 b h2)
    · rcases List.mem_cons.mp hb with h2 | h2
      · subst h2; exact absurd e.symm (hx.1 a h1)
      · exact ih hx.2 h1 h2

/-- in a sorted list the first element with a quality is a newest element with that quality -/
theorem find_sorted_newest {s : List RV} (hs : Sorted s) {p : RV → Bool} {r : RV}
    (h : s.find? p = some r) : Newest (fun rv => p rv = true) s r := by
  obtain ⟨hp, as, bs, rfl, has⟩ := List.find?_eq_some_iff_append.mp h
  refine ⟨by simp, hp, ?_⟩
  intro w hw hpw
  have hs' := List.pairwise_append.mp hs
  rcases List.mem_append.mp hw with hw | hw
  · have := has w hw; simp [hpw] at this
  · rcases List.mem_cons.mp hw with rfl | hw
    · exact Ver.lt_irrefl _
    · exact (List.pairwise_cons.mp hs'.2.1).1 w hw

theorem Newest.perm {P : RV → Prop} {l l' : List RV} (p : l.Perm l') {r : RV} (h : Newest P l r) : Newest P l' r :=
  ⟨p.mem_iff.mp h.1, h.2.1, fun w hw => h.2.2 w (p.mem_iff.mpr hw)⟩

theorem Newest.unique {P : RV → Prop} {l : List RV} (hn : VerNodup l) {r r' : RV}
    (h : Newest P l r) (h' : Newest P l r') : r = r' :=
  hn.eq_of_ver h.1 h'.1 (Ver.lt_total _ _ (h.2.2 r' h'.1 h'.2.1) (h'.2.2 r h.1 h.2.1))

/-! ### The specification only depends on the set of versions -/

theorem newest_congr {P : RV → Prop} {l l' : List RV} (hm : ∀ x, x ∈ l ↔ x ∈ l') (r : RV) :
    Newest P l r ↔ Newest P l' r := by
  simp only [Newest, hm]

theorem devAvail_congr {l l' : List RV} (hm : ∀ x, x ∈ l ↔ x ∈ l') : DevAvail l ↔ DevAvail l' := by
  simp only [DevAvail, hm]

theorem curOk_congr {fl idx} {l l' : List RV} (hm : ∀ x, x ∈ l ↔ x ∈ l') : CurOk fl idx l ↔ CurOk fl idx l' := by
  simp only [CurOk, newest_congr hm]

theorem anySel_congr {fl idx} {l l' : List RV} (hm : ∀ x, x ∈ l ↔ x ∈ l') : AnySel fl idx l ↔ AnySel fl idx l' := by
  simp only [AnySel, hm]

theorem anyStableSel_congr {fl idx} {l l' : List RV} (hm : ∀ x, x ∈ l ↔ x ∈ l') :
    AnyStableSel fl idx l ↔ AnyStableSel fl idx l' := by
  simp only [AnyStableSel, hm]

theorem prescribed_congr {fl idx} {l l' : List RV} (hm : ∀ x, x ∈ l ↔ x ∈ l') {r : RV}
    (h : Prescribed fl idx l r) : Prescribed fl idx l' r := by
  cases h with
  | dev h1 h2 h3 h4 => exact .dev h1 ((hm r).mp h2) h3 h4
  | current h1 h2 h3 => exact .current (by rwa [← devAvail_congr hm]) ((newest_congr hm r).mp h2) h3
  | newestSelectable h1 h2 h3 h4 =>
    exact .newestSelectable (by rwa [← devAvail_congr hm]) (by rwa [← curOk_congr hm]) h3 ((newest_congr hm r).mp h4)
  | newestStable h1 h2 h3 h4 =>
    exact .newestStable (by rwa [← devAvail_congr hm]) (by rwa [← curOk_congr hm]) (by rwa [← anySel_congr hm])
      ((newest_congr hm r).mp h4)
  | fallback h1 h2 h3 h4 h5 =>
    exact .fallback (by rwa [← devAvail_congr hm]) (by rwa [← curOk_congr hm]) (by rwa [← anySel_congr hm])
      (by rwa [← anyStableSel_congr hm]) ((newest_congr hm r).mp h5)

/-! ### The cascade meets the specification -/

theorem find_none_iff {s : List RV} {p : RV → Bool} : s.find? p = none ↔ ∀ x ∈ s, p x = false := by
  simp [List.find?_eq_none]

theorem selectFrom_nil_iff {fl idx} {s : List RV} : selectFrom fl idx s = none ↔ s = [] := by
  cases s with
  | nil => simp [selectFrom]
  | cons a t =>
    simp only [selectFrom, Option.orElse_eq_orElse, Option.orElse_eq_or, reduceCtorEq, iff_false]
    intro h
    simp [Option.or_eq_none_iff] at h

theorem selectFrom_prescribed_sorted {fl idx} {s : List RV} (hs : Sorted s) (hn : VerNodup s) {r : RV}
    (h : selectFrom fl idx s = some r) : Prescribed fl idx s r := by
  cases s with
  | nil => simp [selectFrom] at h
  | cons first tl =>
    simp only [selectFrom, Option.orElse_eq_orElse, Option.orElse_eq_or, Option.or_eq_some_iff] at h
    -- step 1
    rcases h with hdev | ⟨hdev, h⟩
    · cases hd : fl.dev <;> simp only [hd, Bool.false_eq_true, if_false, if_true, reduceCtorEq] at hdev
      have hm := List.mem_of_find?_eq_some hdev
      have hp := List.find?_some hdev
      simp only [Bool.and_eq_true, beq_iff_eq] at hp
      exact .dev hd hm hp.1 hp.2
    have ndev : ¬(fl.dev = true ∧ DevAvail (first :: tl)) := by
      rintro ⟨hd, d, hdm, hdv, hda⟩
      simp only [hd, if_true] at hdev
      have := find_none_iff.mp hdev d hdm
      simp [hdv, hda] at this
    -- step 2
    rcases h with hcur | ⟨hcur, h⟩
    · cases hc : (first :: tl).find? (·.cur) with
      | none => simp [hc] at hcur
      | some c =>
        simp only [hc] at hcur
        split at hcur
        · rename_i hsel
          cases hcur
          exact .current ndev (find_sorted_newest hs hc) hsel
        · cases hcur
    have ncur : ¬CurOk fl idx (first :: tl) := by
      rintro ⟨c, hcn, hcs⟩
      cases hc : (first :: tl).find? (·.cur) with
      | none => have := find_none_iff.mp hc c hcn.1; simp [hcn.2.1] at this
      | some c' =>
        have := Newest.unique hn (find_sorted_newest hs hc) hcn
        subst this
        simp only [hc] at hcur
        simp [show selectable fl idx c' = true from hcs] at hcur
    -- step 3
    rcases h with hpre | ⟨hpre, h⟩
    · cases hu : fl.usePre <;> simp only [hu, Bool.false_eq_true, if_false, if_true, reduceCtorEq] at hpre
      exact .newestSelectable ndev ncur hu (find_sorted_newest hs hpre)
    have npre : ¬(fl.usePre = true ∧ AnySel fl idx (first :: tl)) := by
      rintro ⟨hu, x, hxm, hxs⟩
      simp only [hu, if_true] at hpre
      have := find_none_iff.mp hpre x hxm
      simp [show selectable fl idx x = true from hxs] at this
    -- step 4
    rcases h with hst | ⟨hst, h⟩
    · have := find_sorted_newest hs hst
      refine .newestStable ndev ncur npre ⟨this.1, ?_, ?_⟩
      · have := this.2.1; simpa [Sel] using this
      · intro w hw hpw
        exact this.2.2 w hw (by simpa [Sel] using hpw)
    have nst : ¬AnyStableSel fl idx (first :: tl) := by
      rintro ⟨x, hxm, hxp, hxs⟩
      have := find_none_iff.mp hst x hxm
      simp [hxp, show selectable fl idx x = true from hxs] at this
    -- step 5
    cases h
    refine .fallback ndev ncur npre nst ⟨by simp, trivial, ?_⟩
    intro w hw _
    rcases List.mem_cons.mp hw with rfl | hw
    · exact Ver.lt_irrefl _
    · exact (List.pairwise_cons.mp hs).1 w hw

theorem selectFrom_mem {fl idx} {s : List RV} {r : RV} (h : selectFrom fl idx s = some r) : r ∈ s := by
  cases s with
  | nil => simp [selectFrom] at h
  | cons first tl =>
    simp only [selectFrom, Option.orElse_eq_orElse, Option.orElse_eq_or, Option.or_eq_some_iff] at h
    rcases h with h | ⟨-, h | ⟨-, h | ⟨-, h | ⟨-, h⟩⟩⟩⟩
    · split at h
      · exact List.mem_of_find?_eq_some h
      · cases h
    · cases hc : (first :: tl).find? (·.cur) with
      | none => simp [hc] at h
      | some c =>
        simp only [hc] at h
        split at h
        · cases h; exact List.mem_of_find?_eq_some hc
        · cases h
    · split at h
      · exact List.mem_of_find?_eq_some h
      · cases h
    · exact List.mem_of_find?_eq_some h
    · cases h; simp

/-! ### The specification determines the version -/

theorem prescribed_unique_aux {fl idx} {vs : List RV} (hn : VerNodup vs) {r r' : RV}
    (h : Prescribed fl idx vs r) (h' : Prescribed fl idx vs r') : r = r' := by
  cases h with
  | dev a1 a2 a3 a4 =>
    have hD : fl.dev = true ∧ DevAvail vs := ⟨a1, r, a2, a3, a4⟩
    cases h' with
    | dev b1 b2 b3 b4 => exact hn.eq_of_ver a2 b2 (a3.trans b3.symm)
    | current b1 => exact absurd hD b1
    | newestSelectable b1 => exact absurd hD b1
    | newestStable b1 => exact absurd hD b1
    | fallback b1 => exact absurd hD b1
  | current a1 a2 a3 =>
    have hC : CurOk fl idx vs := ⟨r, a2, a3⟩
    cases h' with
    | dev b1 b2 b3 b4 => exact absurd ⟨b1, r', b2, b3, b4⟩ a1
    | current b1 b2 b3 => exact Newest.unique hn a2 b2
    | newestSelectable b1 b2 => exact absurd hC b2
    | newestStable b1 b2 => exact absurd hC b2
    | fallback b1 b2 => exact absurd hC b2
  | newestSelectable a1 a2 a3 a4 =>
    have hS : fl.usePre = true ∧ AnySel fl idx vs := ⟨a3, r, a4.1, a4.2.1⟩
    cases h' with
    | dev b1 b2 b3 b4 => exact absurd ⟨b1, r', b2, b3, b4⟩ a1
    | current b1 b2 b3 => exact absurd ⟨r', b2, b3⟩ a2
    | newestSelectable b1 b2 b3 b4 => exact Newest.unique hn a4 b4
    | newestStable b1 b2 b3 => exact absurd hS b3
    | fallback b1 b2 b3 => exact absurd hS b3
  | newestStable a1 a2 a3 a4 =>
    have hT : AnyStableSel fl idx vs := ⟨r, a4.1, a4.2.1.1, a4.2.1.2⟩
    cases h' with
    | dev b1 b2 b3 b4 => exact absurd ⟨b1, r', b2, b3, b4⟩ a1
    | current b1 b2 b3 => exact absurd ⟨r', b2, b3⟩ a2
    | newestSelectable b1 b2 b3 b4 => exact absurd ⟨b3, r', b4.1, b4.2.1⟩ a3
    | newestStable b1 b2 b3 b4 => exact Newest.unique hn a4 b4
    | fallback b1 b2 b3 b4 => exact absurd hT b4
  | fallback a1 a2 a3 a4 a5 =>
    cases h' with
    | dev b1 b2 b3 b4 => exact absurd ⟨b1, r', b2, b3, b4⟩ a1
    | current b1 b2 b3 => exact absurd ⟨r', b2, b3⟩ a2
    | newestSelectable b1 b2 b3 b4 => exact absurd ⟨b3, r', b4.1, b4.2.1⟩ a3
    | newestStable b1 b2 b3 b4 => exact absurd ⟨r', b4.1, b4.2.1.1, b4.2.1.2⟩ a4
    | fallback b1 b2 b3 b4 b5 => exact Newest.unique hn a5 b5

theorem selectable_not_bl {fl idx} {rv : RV} (h : selectable fl idx rv = true) : rv.bl = false := by
  unfold selectable at h
  cases hb : rv.bl
  · rfl
  · simp [hb] at h

/-! ### Purge -/

theorem boundaryIdx_spec (act sel : Option Ver) :
    ∀ (l : List RV) (skA skS skT : Bool) (k i : Nat),
      boundaryIdx act sel skA skS skT k l = some i →
      ∃ j, i = k + j ∧ j ≤ l.length ∧
        (∀ a, act = some a → skA = true ∨ ∃ rv ∈ l.take j, rv.ver = a) ∧
        (∀ a, sel = some a → skS = true ∨ ∃ rv ∈ l.take j, rv.ver = a) ∧
        (skT = true ∨ ∃ rv ∈ l.take j, rv.pre = false)
  | [], _, _, _, _, _, h => by simp [boundaryIdx] at h
  | rv :: rest, skA, skS, skT, k, i, h => by
    unfold boundaryIdx at h
    split at h
    · obtain ⟨j, hi, hj, hA, hS, hT⟩ := boundaryIdx_spec act sel rest _ _ _ _ _ h
      refine ⟨j + 1, by omega, by simp; omega, ?_, ?_, ?_⟩
      · intro a ha
        rcases hA a ha with h1 | ⟨x, hx, hxa⟩
        · rcases Bool.or_eq_true_iff.mp h1 with h1 | h1
          · exact Or.inl h1
          · refine Or.inr ⟨rv, by simp, ?_⟩
            have : act = some rv.ver := by simpa using h1
            rw [ha] at this; cases this; rfl
        · exact Or.inr ⟨x, by simp [hx], hxa⟩
      · intro a ha
        rcases hS a ha with h1 | ⟨x, hx, hxa⟩
        · rcases Bool.or_eq_true_iff.mp h1 with h1 | h1
          · exact Or.inl h1
          · refine Or.inr ⟨rv, by simp, ?_⟩
            have : sel = some rv.ver := by simpa using h1
            rw [ha] at this; cases this; rfl
        · exact Or.inr ⟨x, by simp [hx], hxa⟩
      · rcases hT with h1 | ⟨x, hx, hxa⟩
        · rcases Bool.or_eq_true_iff.mp h1 with h1 | h1
          · exact Or.inl h1
          · exact Or.inr ⟨rv, by simp, by simpa using h1⟩
        · exact Or.inr ⟨x, by simp [hx], hxa⟩
    · rename_i hc
      cases h
      refine ⟨0, by omega, by omega, ?_, ?_, ?_⟩
      · intro a ha
        left
        cases hs : skA
        · simp [hs, ha] at hc
        · rfl
      · intro a ha
        left
        cases hs : skS
        · simp [hs, ha] at hc
        · rfl
      · left
        cases hs : skT
        · simp [hs] at hc
        · rfl

/-- What `Purge` does: nothing but (possibly) re-sorting, or cutting the sorted list behind the boundary. -/
theorem purge_shape (r : Res) (keep : Int) :
    (∃ l', l'.Perm r.versions ∧ r.purge keep = { r with versions := l' }) ∨
    (∃ i, boundaryIdx r.active r.selected false false false 0 (sortDesc r.versions) = some i ∧
      i + keepOf keep < (sortDesc r.versions).length ∧
      r.purge keep = { r with
        versions := (sortDesc r.versions).take (i + keepOf keep),
        disk := r.disk.filter (fun fk =>
          !(((sortDesc r.versions).drop (i + keepOf keep)).filter (·.avail)).any (fun rv => rv.ver == fk.1)) }) := by
  unfold Res.purge
  split
  · exact Or.inl ⟨r.versions, List.Perm.refl _, rfl⟩
  · simp only []
    split
    · exact Or.inl ⟨_, sortDesc_perm _, rfl⟩
    · rename_i i hi
      split
      · exact Or.inl ⟨_, sortDesc_perm _, rfl⟩
      · rename_i hb
        exact Or.inr ⟨i, hi, by simp at hb; omega, rfl⟩

theorem mem_purge_disk {disk : List FileKey} {gone : List RV} {fk : FileKey} :
    fk ∈ disk.filter (fun fk => !(gone.filter (·.avail)).any (fun rv => rv.ver == fk.1)) ↔
      fk ∈ disk ∧ ∀ rv ∈ gone, rv.avail = true → rv.ver ≠ fk.1 := by
  simp only [List.mem_filter, Bool.not_eq_true', List.any_eq_false, beq_iff_eq, and_imp]

/-- entries before and behind a cut of a list with pairwise different version numbers differ -/
theorem verNodup_cut {s : List RV} (hn : VerNodup s) (n : Nat) {a b : RV}
    (ha : a ∈ s.take n) (hb : b ∈ s.drop n) : a.ver ≠ b.ver := by
  have := hn
  rw [VerNodup, ← List.take_append_drop n s] at this
  exact (List.pairwise_append.mp this).2.2 a ha b hb

theorem sorted_cut {s : List RV} (hs : Sorted s) (n : Nat) {a b : RV}
    (ha : a ∈ s.take n) (hb : b ∈ s.drop n) : a.ver.lt b.ver = false := by
  have := hs
  rw [Sorted, ← List.take_append_drop n s] at this
  exact (List.pairwise_append.mp this).2.2 a ha b hb

/-- every required version that is listed sits before the boundary found by the search -/
theorem required_before_boundary {r : Res} (hn : VerNodup r.versions) {i : Nat}
    (hi : boundaryIdx r.active r.selected false false false 0 (sortDesc r.versions) = some i)
    {v : Ver} (hreq : Required r v) {e : RV} (he : e ∈ sortDesc r.versions) (hev : e.ver = v) :
    e ∈ (sortDesc r.versions).take i := by
  obtain ⟨j, hij, _, hA, hS, hT⟩ := boundaryIdx_spec _ _ _ _ _ _ _ _ hi
  have hij : i = j := by omega
  subst hij
  have hns := verNodup_sortDesc hn
  have key : ∀ x ∈ (sortDesc r.versions).take i, x.ver = v → e ∈ (sortDesc r.versions).take i := by
    intro x hx hxv
    have : x = e := hns.eq_of_ver (List.mem_of_mem_take hx) he (hxv.trans hev.symm)
    rwa [← this]
  rcases hreq with h | h | ⟨rv, hnew, hrv⟩
  · rcases hA v h with h | ⟨x, hx, hxv⟩
    · cases h
    · exact key x hx hxv
  · rcases hS v h with h | ⟨x, hx, hxv⟩
    · cases h
    · exact key x hx hxv
  · rcases hT with h | ⟨t, ht, htp⟩
    · cases h
    · -- e is the newest stable entry; t is a stable entry before the boundary
      have hrve : rv = e := hns.eq_of_ver (mem_sortDesc.mpr hnew.1) he (hrv.trans hev.symm)
      subst hrve
      rcases List.mem_append.mp (by rw [List.take_append_drop]; exact he :
          rv ∈ (sortDesc r.versions).take i ++ (sortDesc r.versions).drop i) with h | h
      · exact h
      · have h1 := sorted_cut (sortDesc_sorted r.versions) i ht h
        have h2 := hnew.2.2 t (mem_sortDesc.mp (List.mem_of_mem_take ht)) htp
        exact absurd (Ver.lt_total _ _ h1 h2) (verNodup_cut hns i ht h)

theorem mem_take_mono {α : Type} {l : List α} {x : α} {i : Nat} (k : Nat) (h : x ∈ l.take i) : x ∈ l.take (i + k) := by
  have : l.take i = (l.take (i + k)).take i := by rw [List.take_take]; congr 1; omega
  rw [this] at h
  exact List.mem_of_mem_take h

/-! ### Blacklist -/

theorem validCount_perm {l l' : List RV} (p : l.Perm l') : validCount l = validCount l' := by
  unfold validCount
  exact (p.filter _).length_eq

theorem validCount_updateFirst_bl (p : RV → Bool) :
    ∀ l : List RV, validCount l ≤ validCount (updateFirst p (fun rv => { rv with bl := true }) l) + 1
  | [] => by simp [updateFirst, validCount]
  | x :: xs => by
    have ih := validCount_updateFirst_bl p xs
    unfold updateFirst
    split
    · simp only [validCount, List.filter_cons] at *
      split <;> split <;> simp_all <;> omega
    · simp only [validCount, List.filter_cons] at *
      split <;> simp_all <;> omega

/-- number of versions that are not blacklisted (dev versions included) -/
def nonBl (vs : List RV) : Nat := (vs.filter (fun rv => !rv.bl)).length

theorem validCount_le_nonBl : ∀ l : List RV, validCount l ≤ nonBl l
  | [] => by simp [validCount, nonBl]
  | x :: xs => by
    have ih := validCount_le_nonBl xs
    simp only [validCount, nonBl, List.filter_cons] at *
    split <;> split <;> simp_all <;> omega

theorem blacklist_ok_shape {fl : Flags} {r : Res} {version : Str} (hok : (r.blacklist fl version).2 = none) :
    r.versions.any (fun rv => rv.ver.str == version) = true ∧
    (r.blacklist fl version).1 = Res.selectVersion fl { r with
      versions := updateFirst (fun rv => rv.ver.str == version) (fun rv => { rv with bl := true }) r.versions } := by
  unfold Res.blacklist at hok ⊢
  split at hok
  · simp at hok
  · split at hok
    · rename_i h1 h2
      simp only [if_neg h1, if_pos h2]
      exact ⟨h2, trivial⟩
    · simp at hok

theorem updateFirst_bl_mem {version : Str} : ∀ l : List RV, l.any (fun rv => rv.ver.str == version) = true →
    ∃ rv ∈ updateFirst (fun rv => rv.ver.str == version) (fun rv => { rv with bl := true }) l,
      rv.bl = true ∧ rv.ver.str = version
  | [], h => by simp at h
  | a :: t, h => by
    unfold updateFirst
    split
    · rename_i ha
      exact ⟨{ a with bl := true }, by simp, rfl, by simpa using ha⟩
    · rename_i ha
      have : t.any (fun rv => rv.ver.str == version) = true := by
        simp only [List.any_cons, Bool.or_eq_true] at h
        rcases h with h | h
        · exact absurd h ha
        · exact h
      obtain ⟨rv, hrv, h1, h2⟩ := updateFirst_bl_mem t this
      exact ⟨rv, by simp [hrv], h1, h2⟩

/-! ### updateFirst, diskAdd -/

theorem updateFirst_map_ver {p : RV → Bool} {f : RV → RV} (hf : ∀ x, (f x).ver = x.ver) :
    ∀ l : List RV, (updateFirst p f l).map (·.ver) = l.map (·.ver)
  | [] => rfl
  | x :: xs => by
    unfold updateFirst
    split
    · simp [hf]
    · simp [updateFirst_map_ver hf xs]

theorem mem_updateFirst {p : RV → Bool} {f : RV → RV} {x : RV} :
    ∀ {l : List RV}, x ∈ updateFirst p f l → x ∈ l ∨ ∃ y ∈ l, p y = true ∧ x = f y
  | [], h => by simp [updateFirst] at h
  | a :: as, h => by
    unfold updateFirst at h
    split at h
    · rename_i hp
      rcases List.mem_cons.mp h with rfl | h
      · exact Or.inr ⟨a, by simp, hp, rfl⟩
      · exact Or.inl (by simp [h])
    · rcases List.mem_cons.mp h with rfl | h
      · exact Or.inl (by simp)
      · rcases mem_updateFirst h with h | ⟨y, hy, hpy, hxy⟩
        · exact Or.inl (by simp [h])
        · exact Or.inr ⟨y, by simp [hy], hpy, hxy⟩

theorem verNodup_iff_map {l : List RV} : VerNodup l ↔ (l.map (·.ver)).Pairwise (· ≠ ·) := by
  unfold VerNodup
  rw [List.pairwise_map]

theorem verNodup_of_map_eq {l l' : List RV} (h : l'.map (·.ver) = l.map (·.ver)) (hn : VerNodup l) : VerNodup l' := by
  rw [verNodup_iff_map] at *
  rwa [h]

theorem mem_diskAdd {k x : FileKey} {d : List FileKey} : x ∈ diskAdd k d ↔ x = k ∨ x ∈ d := by
  unfold diskAdd
  split
  · rename_i h
    have : k ∈ d := by simpa using h
    constructor
    · exact Or.inr
    · rintro (rfl | h) <;> assumption
  · simp [or_comm]

/-! ### Invariant of all histories -/

/-- version numbers are a key of the list; the selected and the active version are listed; every version
    listed as available has its file on disk -/
def ResInv (r : Res) : Prop :=
  VerNodup r.versions ∧
  (∀ v, r.selected = some v → ∃ rv ∈ r.versions, rv.ver = v) ∧
  (∀ v, r.active = some v → ∃ rv ∈ r.versions, rv.ver = v) ∧
  ListingSound r

def StInv (s : St) : Prop := ∀ p ∈ s.res, ResInv p.2

theorem resInv_empty : ResInv {} := by
  refine ⟨List.Pairwise.nil, ?_, ?_, ?_⟩ <;> intro _ h <;> simp at h

theorem selectVersion_inv {fl : Flags} {r : Res} (h : ResInv r) : ResInv (r.selectVersion fl) := by
  obtain ⟨hn, _, hA, hL⟩ := h
  refine ⟨verNodup_sortDesc hn, ?_, ?_, ?_⟩
  · intro v hv
    simp only [Res.selectVersion, Option.map_eq_some_iff] at hv
    obtain ⟨rv, hrv, rfl⟩ := hv
    exact ⟨rv, selectFrom_mem hrv, rfl⟩
  · intro v hv
    obtain ⟨rv, hrv, hrvv⟩ := hA v hv
    exact ⟨rv, mem_sortDesc.mpr hrv, hrvv⟩
  · intro rv hrv ha
    exact hL rv (mem_sortDesc.mp hrv) ha

theorem addVersion_inv {r : Res} {raw : Str} {avail cur pre : Bool} {idx : Option Bool} (h : ResInv r) :
    ResInv (r.addVersion raw avail cur pre idx).1 := by
  obtain ⟨hn, hS, hA, hL⟩ := h
  -- the list after the reset of the current-release flags
  have hvs1 : ∀ (vs1 : List RV), vs1 = (if cur then r.versions.map (fun rv => { rv with cur := false }) else r.versions) →
      vs1.map (·.ver) = r.versions.map (·.ver) ∧ ∀ e ∈ vs1, ∃ o ∈ r.versions, e.ver = o.ver ∧ e.avail = o.avail := by
    intro vs1 hv
    subst hv
    split
    · refine ⟨by simp [Function.comp_def], ?_⟩
      intro e he
      obtain ⟨o, ho, rfl⟩ := List.mem_map.mp he
      exact ⟨o, ho, rfl, rfl⟩
    · exact ⟨rfl, fun e he => ⟨e, he, rfl, rfl⟩⟩
  unfold Res.addVersion
  simp only []
  generalize hg : (if cur then r.versions.map (fun rv => { rv with cur := false }) else r.versions) = vs1
  obtain ⟨hm1, he1⟩ := hvs1 vs1 hg.symm
  have hn1 : VerNodup vs1 := verNodup_of_map_eq hm1 hn
  have mem1 : ∀ v, (∃ rv ∈ r.versions, rv.ver = v) → ∃ rv ∈ vs1, rv.ver = v := by
    intro v ⟨rv, hrv, hv⟩
    have : v ∈ vs1.map (·.ver) := by rw [hm1]; exact List.mem_map.mpr ⟨rv, hrv, hv⟩
    obtain ⟨e, he, hev⟩ := List.mem_map.mp this
    exact ⟨e, he, hev⟩
  split
  · -- malformed version: only the flags were reset and the index re-pointed
    refine ⟨hn1, fun v hv => mem1 v (hS v hv), fun v hv => mem1 v (hA v hv), ?_⟩
    intro e he ha
    obtain ⟨o, ho, hov, hoa⟩ := he1 e he
    simp only [] at *
    rw [hov]; exact hL o ho (hoa ▸ ha)
  · rename_i v hparse
    generalize hg2 : (if vs1.any (fun rv => rv.ver == v) then vs1 else vs1 ++ [{ ver := v }]) = vs2
    have hn2 : VerNodup vs2 := by
      subst hg2
      split
      · exact hn1
      · rename_i hany
        rw [VerNodup, List.pairwise_append]
        refine ⟨hn1, List.pairwise_singleton _ _, ?_⟩
        intro a ha b hb
        have hb : b = { ver := v } := by simpa using hb
        subst hb
        intro hav
        apply hany
        exact List.any_eq_true.mpr ⟨a, ha, by simpa using hav⟩
    have he2 : ∀ e ∈ vs2, e ∈ vs1 ∨ e = { ver := v } := by
      subst hg2
      intro e he
      split at he
      · exact Or.inl he
      · rcases List.mem_append.mp he with h | h
        · exact Or.inl h
        · exact Or.inr (by simpa using h)
    have sub2 : ∀ e ∈ vs1, e ∈ vs2 := by
      subst hg2
      intro e he
      split
      · exact he
      · exact List.mem_append_left _ he
    have hm3 := updateFirst_map_ver (p := fun rv => rv.ver == v)
      (f := fun rv => { rv with avail := rv.avail || avail, cur := rv.cur || cur, pre := rv.pre || pre || !v.pre.isEmpty })
      (fun _ => rfl) vs2
    have mem3 : ∀ w, (∃ rv ∈ vs1, rv.ver = w) → ∃ rv ∈ updateFirst (fun rv => rv.ver == v)
        (fun rv => { rv with avail := rv.avail || avail, cur := rv.cur || cur, pre := rv.pre || pre || !v.pre.isEmpty }) vs2, rv.ver = w := by
      intro w ⟨rv, hrv, hw⟩
      have : w ∈ (updateFirst (fun rv => rv.ver == v)
        (fun rv => { rv with avail := rv.avail || avail, cur := rv.cur || cur, pre := rv.pre || pre || !v.pre.isEmpty }) vs2).map (·.ver) := by
        rw [hm3]; exact List.mem_map.mpr ⟨rv, sub2 rv hrv, hw⟩
      obtain ⟨e, he, hev⟩ := List.mem_map.mp this
      exact ⟨e, he, hev⟩
    refine ⟨verNodup_of_map_eq hm3 hn2, fun w hw => mem3 w (mem1 w (hS w hw)), fun w hw => mem3 w (mem1 w (hA w hw)), ?_⟩
    intro e he ha
    simp only [] at he ha ⊢
    have old : ∀ x ∈ vs2, x.avail = true → (x.ver, 0) ∈ r.disk := by
      intro x hx hxa
      rcases he2 x hx with h | h
      · obtain ⟨o, ho, hov, hoa⟩ := he1 x h
        rw [hov]; exact hL o ho (hoa ▸ hxa)
      · subst h; simp at hxa
    have goal : (e.ver, 0) ∈ r.disk ∨ (avail = true ∧ e.ver = v) := by
      rcases mem_updateFirst he with h | ⟨y, hy, hpy, rfl⟩
      · exact Or.inl (old e h ha)
      · simp only [Bool.or_eq_true] at ha
        have hyv : y.ver = v := by simpa using hpy
        rcases ha with h | h
        · exact Or.inl (old y hy h)
        · exact Or.inr ⟨h, hyv⟩
    rcases goal with h | ⟨h1, h2⟩
    · split
      · exact mem_diskAdd.mpr (Or.inr h)
      · exact h
    · simp only [h1, if_true]
      exact mem_diskAdd.mpr (Or.inl (by rw [h2]))

theorem blacklist_inv {fl : Flags} {r : Res} {version : Str} (h : ResInv r) : ResInv (r.blacklist fl version).1 := by
  unfold Res.blacklist
  split
  · exact h
  · split
    · apply selectVersion_inv
      obtain ⟨hn, hS, hA, hL⟩ := h
      have hm := updateFirst_map_ver (p := fun rv => rv.ver.str == version) (f := fun rv => { rv with bl := true })
        (fun _ => rfl) r.versions
      have mem : ∀ w, (∃ rv ∈ r.versions, rv.ver = w) → ∃ rv ∈ updateFirst (fun rv => rv.ver.str == version)
          (fun rv => { rv with bl := true }) r.versions, rv.ver = w := by
        intro w ⟨rv, hrv, hw⟩
        have : w ∈ (updateFirst (fun rv => rv.ver.str == version) (fun rv => { rv with bl := true }) r.versions).map (·.ver) := by
          rw [hm]; exact List.mem_map.mpr ⟨rv, hrv, hw⟩
        obtain ⟨e, he, hev⟩ := List.mem_map.mp this
        exact ⟨e, he, hev⟩
      refine ⟨verNodup_of_map_eq hm hn, fun w hw => mem w (hS w hw), fun w hw => mem w (hA w hw), ?_⟩
      intro e he ha
      rcases mem_updateFirst he with h | ⟨y, hy, _, rfl⟩
      · exact hL e h ha
      · exact hL y hy ha
    · exact h

theorem purge_inv {r : Res} {keep : Int} (h : ResInv r) : ResInv (r.purge keep) := by
  obtain ⟨hn, hS, hA, hL⟩ := h
  rcases purge_shape r keep with ⟨l', hp, he⟩ | ⟨i, hi, hlt, he⟩
  · rw [he]
    refine ⟨hn.perm hp.symm, ?_, ?_, ?_⟩
    · intro v hv; obtain ⟨rv, hrv, hrvv⟩ := hS v hv; exact ⟨rv, hp.mem_iff.mpr hrv, hrvv⟩
    · intro v hv; obtain ⟨rv, hrv, hrvv⟩ := hA v hv; exact ⟨rv, hp.mem_iff.mpr hrv, hrvv⟩
    · intro rv hrv ha; exact hL rv (hp.mem_iff.mp hrv) ha
  · rw [he]
    have hns := verNodup_sortDesc hn
    refine ⟨?_, ?_, ?_, ?_⟩
    · have := hns
      rw [VerNodup, ← List.take_append_drop (i + keepOf keep) (sortDesc r.versions)] at this
      exact (List.pairwise_append.mp this).1
    · intro v hv
      obtain ⟨rv, hrv, hrvv⟩ := hS v hv
      exact ⟨rv, mem_take_mono _ (required_before_boundary hn hi (Or.inr (Or.inl hv)) (mem_sortDesc.mpr hrv) hrvv), hrvv⟩
    · intro v hv
      obtain ⟨rv, hrv, hrvv⟩ := hA v hv
      exact ⟨rv, mem_take_mono _ (required_before_boundary hn hi (Or.inl hv) (mem_sortDesc.mpr hrv) hrvv), hrvv⟩
    · intro rv hrv ha
      refine mem_purge_disk.mpr ⟨hL rv (mem_sortDesc.mp (List.mem_of_mem_take hrv)) ha, ?_⟩
      intro g hg _ hgv
      exact verNodup_cut hns _ hrv hg hgv.symm

theorem getFile_inv {fl : Flags} {id : Str} {r : Res} (h : ResInv r) : ResInv (r.getFile fl id).1 := by
  unfold Res.getFile
  simp only []
  generalize hg : (if r.selected.isNone then r.selectVersion fl else r) = r1
  have h1 : ResInv r1 := by
    subst hg
    split
    · exact selectVersion_inv h
    · exact h
  split
  · exact h1
  · rename_i v hv
    split
    · exact h1
    · rename_i rv hrv
      have hmem := List.mem_of_find?_eq_some hrv
      have hver : rv.ver = v := by have := List.find?_some hrv; simpa using this
      obtain ⟨hn, hS, hA, hL⟩ := h1
      split
      · exact ⟨hn, hS, fun w hw => by cases hw; exact ⟨rv, hmem, hver⟩, hL⟩
      · split
        · exact ⟨hn, hS, hA, hL⟩
        · refine ⟨hn, hS, fun w hw => by cases hw; exact ⟨rv, hmem, hver⟩, ?_⟩
          intro e he ha
          exact mem_diskAdd.mpr (Or.inr (hL e he ha))

theorem diskAdd_inv {r : Res} {k : FileKey} (h : ResInv r) : ResInv { r with disk := diskAdd k r.disk } := by
  obtain ⟨hn, hS, hA, hL⟩ := h
  exact ⟨hn, hS, hA, fun e he ha => mem_diskAdd.mpr (Or.inr (hL e he ha))⟩

theorem St.get_mem {s : St} {id : Str} {r : Res} (h : s.get id = some r) : ∃ p ∈ s.res, p.2 = r := by
  unfold St.get at h
  obtain ⟨p, hp, rfl⟩ := Option.map_eq_some_iff.mp h
  exact ⟨p, List.mem_of_find?_eq_some hp, rfl⟩

/-- a property of single resources that every API call preserves -/
structure Preserved (P : Res → Prop) : Prop where
  empty : P {}
  add : ∀ (r : Res) raw avail cur pre idx, P r → P (r.addVersion raw avail cur pre idx).1
  select : ∀ fl (r : Res), P r → P (r.selectVersion fl)
  blacklist : ∀ fl (r : Res) v, P r → P (r.blacklist fl v).1
  purge : ∀ (r : Res) keep, P r → P (r.purge keep)
  getFile : ∀ fl id (r : Res), P r → P (r.getFile fl id).1
  disk : ∀ (r : Res) k, P r → P { r with disk := diskAdd k r.disk }

def StAll (P : Res → Prop) (s : St) : Prop := ∀ p ∈ s.res, P p.2

theorem St.set_all {P : Res → Prop} {s : St} {id : Str} {r : Res} (hs : StAll P s) (hr : P r) : StAll P (s.set id r) := by
  unfold St.set
  split
  · intro p hp
    obtain ⟨q, hq, rfl⟩ := List.mem_map.mp hp
    split
    · exact hr
    · exact hs q hq
  · intro p hp
    rcases List.mem_append.mp hp with h | h
    · exact hs p h
    · have : p = (id, r) := by simpa using h
      subst this; exact hr

theorem St.mapRes_all {P : Res → Prop} {s : St} {f : Res → Res} (hs : StAll P s) (hf : ∀ r, P r → P (f r)) :
    StAll P (s.mapRes f) := by
  intro p hp
  obtain ⟨q, hq, rfl⟩ := List.mem_map.mp hp
  exact hf _ (hs q hq)

theorem St.get_all {P : Res → Prop} (hP : Preserved P) {s : St} {id : Str} (hs : StAll P s) : P ((s.get id).getD {}) := by
  cases h : s.get id with
  | none => exact hP.empty
  | some r => obtain ⟨p, hp, rfl⟩ := St.get_mem h; exact hs p hp

theorem St.addResource_all {P : Res → Prop} (hP : Preserved P) {s : St} {id ver : Str} {avail cur pre : Bool}
    {idx : Option Bool} (hs : StAll P s) : StAll P (s.addResource id ver avail cur pre idx).1 := by
  simp only [St.addResource]
  exact St.set_all hs (hP.add _ _ _ _ _ _ (St.get_all hP hs))

theorem step_all {P : Res → Prop} (hP : Preserved P) {s : St} (op : Op) (hs : StAll P s) : StAll P (step s op).1 := by
  cases op with
  | setFlags o d p => exact hs
  | add id ver avail cur pre idx =>
    simp only [step]
    exact St.addResource_all hP hs
  | addMany items avail cur pre idx =>
    simp only [step]
    induction items generalizing s with
    | nil => exact hs
    | cons it rest ih => exact ih (St.addResource_all hP hs)
  | addVersion id ver avail cur pre =>
    simp only [step]
    split
    · exact hs
    · rename_i r hr
      obtain ⟨p, hp, rfl⟩ := St.get_mem hr
      exact St.set_all hs (hP.add _ _ _ _ _ _ (hs p hp))
  | touch id ver kind =>
    simp only [step]
    split
    · rename_i r v hr hv
      split
      · obtain ⟨p, hp, rfl⟩ := St.get_mem hr
        exact St.set_all hs (hP.disk _ _ (hs p hp))
      · exact hs
    · exact hs
  | select => exact St.mapRes_all hs (fun r hr => hP.select _ r hr)
  | getFile id =>
    simp only [step]
    split
    · exact hs
    · rename_i r hr
      obtain ⟨p, hp, rfl⟩ := St.get_mem hr
      exact St.set_all hs (hP.getFile _ _ _ (hs p hp))
  | blacklist id ver =>
    simp only [step]
    split
    · exact hs
    · rename_i r hr
      obtain ⟨p, hp, rfl⟩ := St.get_mem hr
      have := hP.blacklist s.fl _ ver (hs p hp)
      split <;> (rename_i r' heq; rw [heq] at this; exact St.set_all hs this)
  | purge keep => exact St.mapRes_all hs (fun r hr => hP.purge r keep hr)
  | selected => exact hs
  | getVersion id =>
    simp only [step]
    split <;> exact hs

theorem run_all {P : Res → Prop} (hP : Preserved P) (ops : List Op) : ∀ s, StAll P s → StAll P (run s ops) := by
  induction ops with
  | nil => intro s hs; exact hs
  | cons op ops ih => intro s hs; exact ih _ (step_all hP op hs)

theorem stAll_init (P : Res → Prop) : StAll P {} := by intro p hp; simp at hp

theorem resInv_preserved : Preserved ResInv where
  empty := resInv_empty
  add := fun _ _ _ _ _ _ h => addVersion_inv h
  select := fun _ _ h => selectVersion_inv h
  blacklist := fun _ _ _ h => blacklist_inv h
  purge := fun _ _ h => purge_inv h
  getFile := fun _ _ _ h => getFile_inv h
  disk := fun _ _ h => diskAdd_inv h

theorem run_inv (ops : List Op) : ∀ s, StInv s → StInv (run s ops) := run_all resInv_preserved ops

theorem stInv_init : StInv {} := stAll_init _

/-! ### At most one current release -/

/-- all entries flagged as current release carry the same version number (with `VerNodup`: there is at most one) -/
def OneCurrent (r : Res) : Prop := ∀ a ∈ r.versions, ∀ b ∈ r.versions, a.cur = true → b.cur = true → a.ver = b.ver

/-- lists whose entries all come from `l` (same version number, same flag) inherit the property -/
theorem oneCurrent_of_sub {l l' : List RV}
    (h : ∀ a ∈ l, ∀ b ∈ l, a.cur = true → b.cur = true → a.ver = b.ver)
    (hsub : ∀ x ∈ l', ∃ y ∈ l, y.ver = x.ver ∧ y.cur = x.cur) :
    ∀ a ∈ l', ∀ b ∈ l', a.cur = true → b.cur = true → a.ver = b.ver := by
  intro a ha b hb hac hbc
  obtain ⟨a', ha', hav, hacur⟩ := hsub a ha
  obtain ⟨b', hb', hbv, hbcur⟩ := hsub b hb
  rw [← hav, ← hbv]
  exact h a' ha' b' hb' (hacur ▸ hac) (hbcur ▸ hbc)

theorem selectVersion_oneCurrent {fl : Flags} {r : Res} (h : OneCurrent r) : OneCurrent (r.selectVersion fl) :=
  oneCurrent_of_sub h (fun x hx => ⟨x, mem_sortDesc.mp hx, rfl, rfl⟩)

theorem purge_oneCurrent {r : Res} {keep : Int} (h : OneCurrent r) : OneCurrent (r.purge keep) := by
  rcases purge_shape r keep with ⟨l', hp, he⟩ | ⟨i, _, _, he⟩
  · rw [he]; exact oneCurrent_of_sub h (fun x hx => ⟨x, hp.mem_iff.mp hx, rfl, rfl⟩)
  · rw [he]; exact oneCurrent_of_sub h (fun x hx => ⟨x, mem_sortDesc.mp (List.mem_of_mem_take hx), rfl, rfl⟩)

theorem blacklist_oneCurrent {fl : Flags} {r : Res} {version : Str} (h : OneCurrent r) :
    OneCurrent (r.blacklist fl version).1 := by
  unfold Res.blacklist
  split
  · exact h
  · split
    · apply selectVersion_oneCurrent
      refine oneCurrent_of_sub h ?_
      intro x hx
      rcases mem_updateFirst hx with hx | ⟨y, hy, _, rfl⟩
      · exact ⟨x, hx, rfl, rfl⟩
      · exact ⟨y, hy, rfl, rfl⟩
    · exact h

theorem getFile_oneCurrent {fl : Flags} {id : Str} {r : Res} (h : OneCurrent r) : OneCurrent (r.getFile fl id).1 := by
  unfold Res.getFile
  simp only []
  generalize hg : (if r.selected.isNone then r.selectVersion fl else r) = r1
  have h1 : OneCurrent r1 := by
    subst hg; split
    · exact selectVersion_oneCurrent h
    · exact h
  split
  · exact h1
  · split
    · exact h1
    · split
      · exact h1
      · split <;> exact h1

theorem addVersion_oneCurrent {r : Res} {raw : Str} {avail cur pre : Bool} {idx : Option Bool} (h : OneCurrent r) :
    OneCurrent (r.addVersion raw avail cur pre idx).1 := by
  unfold Res.addVersion
  simp only []
  cases cur with
  | false =>
    -- no flag is reset, none is set
    simp only [Bool.false_eq_true, if_false, Bool.or_false]
    split
    · exact h
    · rename_i v _
      simp only []
      intro a ha b hb hac hbc
      have key : ∀ x ∈ updateFirst (fun rv => rv.ver == v)
          (fun rv => { rv with avail := rv.avail || avail, pre := rv.pre || pre || !v.pre.isEmpty })
          (if r.versions.any (fun rv => rv.ver == v) then r.versions else r.versions ++ [{ ver := v }]),
          x.cur = true → ∃ y ∈ r.versions, y.ver = x.ver ∧ y.cur = true := by
        intro x hx hxc
        have old : ∀ z ∈ (if r.versions.any (fun rv => rv.ver == v) then r.versions else r.versions ++ [{ ver := v }]),
            z.cur = true → z ∈ r.versions := by
          intro z hz hzc
          split at hz
          · exact hz
          · rcases List.mem_append.mp hz with hz | hz
            · exact hz
            · have : z = { ver := v } := by simpa using hz
              subst this; simp at hzc
        rcases mem_updateFirst hx with hx | ⟨y, hy, _, rfl⟩
        · exact ⟨x, old x hx hxc, rfl, hxc⟩
        · exact ⟨y, old y hy hxc, rfl, hxc⟩
      obtain ⟨a', ha', hav, hac'⟩ := key a ha hac
      obtain ⟨b', hb', hbv, hbc'⟩ := key b hb hbc
      rw [← hav, ← hbv]
      exact h a' ha' b' hb' hac' hbc'
  | true =>
    -- every flag is reset first; afterwards only the entry with number `v` can carry it
    simp only [if_true, Bool.or_true]
    split
    · intro a ha b hb hac
      simp only [] at ha
      obtain ⟨o, _, rfl⟩ := List.mem_map.mp ha
      simp at hac
    · rename_i v _
      simp only []
      have key : ∀ x ∈ updateFirst (fun rv => rv.ver == v)
          (fun rv => { rv with avail := rv.avail || avail, cur := true, pre := rv.pre || pre || !v.pre.isEmpty })
          (if (r.versions.map (fun rv => { rv with cur := false })).any (fun rv => rv.ver == v)
            then r.versions.map (fun rv => { rv with cur := false })
            else r.versions.map (fun rv => { rv with cur := false }) ++ [{ ver := v }]),
          x.cur = true → x.ver = v := by
        intro x hx hxc
        have old : ∀ z ∈ (if (r.versions.map (fun rv => { rv with cur := false })).any (fun rv => rv.ver == v)
            then r.versions.map (fun rv => { rv with cur := false })
            else r.versions.map (fun rv => { rv with cur := false }) ++ [{ ver := v }]), z.cur = false := by
          intro z hz
          split at hz
          · obtain ⟨o, _, rfl⟩ := List.mem_map.mp hz; rfl
          · rcases List.mem_append.mp hz with hz | hz
            · obtain ⟨o, _, rfl⟩ := List.mem_map.mp hz; rfl
            · have : z = { ver := v } := by simpa using hz
              subst this; rfl
        rcases mem_updateFirst hx with hx | ⟨y, _, hpy, rfl⟩
        · have := old x hx; simp [hxc] at this
        · simpa using hpy
      intro a ha b hb hac hbc
      rw [key a ha hac, key b hb hbc]

theorem oneCurrent_preserved : Preserved OneCurrent where
  empty := by intro a ha; simp at ha
  add := fun _ _ _ _ _ _ h => addVersion_oneCurrent h
  select := fun _ _ h => selectVersion_oneCurrent h
  blacklist := fun _ _ _ h => blacklist_oneCurrent h
  purge := fun _ _ h => purge_oneCurrent h
  getFile := fun _ _ _ h => getFile_oneCurrent h
  disk := fun _ _ h => h

instance (l : List RV) : Decidable (VerNodup l) := by unfold VerNodup; infer_instance
instance (id : Str) : Decidable (ValidIdentifier id) := by unfold ValidIdentifier; infer_instance

/-! ### Concrete data for the non-vacuity examples of PBProofs/C19.lean -/
namespace Ex

def s (x : String) : Str := x.toList.map Char.toNat
def v (a b c : Nat) (p : String := "") : Ver := ⟨a, b, c, s p⟩

/-- the resource of `TestVersionSelection` -/
def testVersions : List RV := [
  { ver := v 1 2 2, avail := true }, { ver := v 1 2 3, avail := true },
  { ver := v 1 2 4 "beta", avail := true, pre := true }, { ver := v 1 2 4 "staging", avail := true, pre := true },
  { ver := v 1 2 5 }, { ver := v 1 2 6 "beta", pre := true }, { ver := v 0 0 0, avail := true }]
def testRes : Res := { versions := testVersions, index := some true }

/-- only pre-releases, the newest one blacklisted -/
def preOnly : List RV := [
  { ver := v 1 1 3 "rc", avail := true, pre := true }, { ver := v 1 2 0 "rc", avail := true, pre := true, bl := true }]

/-- six versions, all on disk, newest selected and active (DESIGN §7 #25) -/
def six : Res :=
  let vs : List RV := [5, 4, 3, 2, 1, 0].map (fun m => { ver := v 1 m 0, avail := true })
  { versions := vs, active := some (v 1 5 0), selected := some (v 1 5 0), disk := vs.map (fun rv => (rv.ver, 0)) }

/-- three old versions selected/active, then three newer ones added behind them (not re-selected yet) -/
def unsortedTail : Res :=
  let vs : List RV := [(1, 2), (1, 1), (1, 0), (2, 0), (2, 1), (2, 2)].map (fun m => { ver := v m.1 m.2 0, avail := true })
  { versions := vs, active := some (v 1 2 0), selected := some (v 1 2 0), disk := vs.map (fun rv => (rv.ver, 0)) }

def history : List Op := [
  .setFlags true false false,
  .add (s "app.exe") (s "1.0.0") true false false none,
  .add (s "app.exe") (s "1.1.0") true false false none,
  .add (s "app.exe") (s "v1.2") true false false none,
  .add (s "app.exe") (s "1.3.0-beta") true false false none,
  .add (s "app.exe") (s "1.2.0") false true false (some true),
  .add (s "app.exe") (s "0") true false false none,
  .add (s "app.exe") (s "0.9.0") true false false none,
  .select, .getFile (s "app.exe"), .purge 2]

end Ex

end PB.Updater
