import PB.Model.Varint
/- Helper lemmas for the varint model (C10, reused by C16 and C08). -/
namespace PB.Varint
open PB

theorem toNat_ofNat_lt {n : Nat} (h : n < 256) : (UInt8.ofNat n).toNat = n := by
  simp [UInt8.toNat_ofNat']; omega

theorem putUvarint_lt {n : Nat} (h : n < 128) : putUvarint n = [UInt8.ofNat n] := by
  rw [putUvarint]; simp [h]

theorem putUvarint_ge {n : Nat} (h : ¬ n < 128) :
    putUvarint n = UInt8.ofNat (n % 128 + 128) :: putUvarint (n / 128) := by
  rw [putUvarint]; simp [h]

theorem putUvarint_length_pos (n : Nat) : 0 < (putUvarint n).length := by
  by_cases h : n < 128
  · rw [putUvarint_lt h]; simp
  · rw [putUvarint_ge h]; simp

theorem pow7_succ (i : Nat) : 2 ^ (7 * (i + 1)) = 2 ^ (7 * i) * 128 := by
  rw [Nat.mul_add, Nat.pow_add]

/-- Main round-trip lemma, generalised over the loop state of `binary.Uvarint`. -/
theorem uvarintAux_put (n : Nat) : ∀ (i x : Nat) (rest : Bytes), n * 2 ^ (7 * i) < 2 ^ 64 → i ≤ 9 →
    uvarintAux i x (putUvarint n ++ rest) = .ok (x + n * 2 ^ (7 * i)) (i + (putUvarint n).length) := by
  induction n using Nat.strongRecOn with
  | _ n ih =>
    intro i x rest hb hi
    by_cases h : n < 128
    · rw [putUvarint_lt h]
      have hn : (UInt8.ofNat n).toNat = n := toNat_ofNat_lt (by omega)
      have h9 : ¬ (i = 9 ∧ n > 1) := by
        rintro ⟨rfl, h1⟩
        have : n * 2 ^ 63 < 2 ^ 64 := hb
        omega
      simp only [List.cons_append, List.nil_append, uvarintAux, hn, List.length_cons, List.length_nil]
      have h10 : ¬ i = 10 := by omega
      simp [h10, h, h9]
    · rw [putUvarint_ge h]
      have hbyte : (UInt8.ofNat (n % 128 + 128)).toNat = n % 128 + 128 := toNat_ofNat_lt (by omega)
      have hi8 : i ≤ 8 := by
        rcases Nat.lt_or_ge 8 i with hc | hc
        · have : i = 9 := by omega
          subst this
          have : n * 2 ^ 63 < 2 ^ 64 := hb
          omega
        · exact hc
      have hb' : n / 128 * 2 ^ (7 * (i + 1)) < 2 ^ 64 := by
        rw [pow7_succ]
        have h1 : n / 128 * 128 ≤ n := Nat.div_mul_le_self n 128
        have h2 : n / 128 * 128 * 2 ^ (7 * i) ≤ n * 2 ^ (7 * i) := Nat.mul_le_mul_right _ h1
        have h3 : n / 128 * (2 ^ (7 * i) * 128) = n / 128 * 128 * 2 ^ (7 * i) := by
          rw [Nat.mul_comm (2 ^ (7 * i)) 128, Nat.mul_assoc]
        omega
      have := ih (n / 128) (by omega) (i + 1) (x + (n % 128) * 2 ^ (7 * i)) rest hb' (by omega)
      simp only [List.cons_append, uvarintAux, hbyte, List.length_cons]
      have h10 : ¬ i = 10 := by omega
      have hm : (n % 128 + 128) % 128 = n % 128 := by omega
      have hlt : ¬ (n % 128 + 128 < 128) := by omega
      simp only [h10, hlt, if_false, hm]
      rw [this, pow7_succ]
      have hdm : n = 128 * (n / 128) + n % 128 := (Nat.div_add_mod n 128).symm
      congr 1
      · generalize 2 ^ (7 * i) = P
        generalize n / 128 = q at hdm
        generalize n % 128 = r at hdm
        subst hdm
        grind
      · omega

theorem uvarint_put (n : Nat) (rest : Bytes) (h : n < 2 ^ 64) :
    uvarint (putUvarint n ++ rest) = .ok n (putUvarint n).length := by
  have := uvarintAux_put n 0 0 rest (by simpa using h) (by omega)
  simpa [uvarint] using this

end PB.Varint

namespace PB.Varint
open PB

/-- Little-endian base-128 value of the low seven bits of each byte (the meaning of a varint). -/
def value : Bytes → Nat
  | [] => 0
  | b :: bs => b.toNat % 128 + 128 * value bs

theorem uvarintAux_ok : ∀ (bs : Bytes) (i x v k : Nat), uvarintAux i x bs = .ok v k → i ≤ 10 →
    i < k ∧ k ≤ i + bs.length ∧ k ≤ 10 ∧ v = x + 2 ^ (7 * i) * value (bs.take (k - i)) := by
  intro bs
  induction bs with
  | nil => intro i x v k h; simp [uvarintAux] at h
  | cons b bs ih =>
    intro i x v k h hi10
    simp only [uvarintAux] at h
    split at h
    · cases h
    · split at h
      · split at h
        · cases h
        · rename_i h10 hlt h9
          injection h with hv hk
          subst hv hk
          have : i + 1 - i = 1 := by omega
          refine ⟨by omega, by simp, by omega, ?_⟩
          rw [this]
          simp [value]
          have : b.toNat % 128 = b.toNat := by omega
          rw [this, Nat.mul_comm]
      · rename_i h10 hge
        have := ih (i + 1) _ v k h (by omega)
        obtain ⟨h1, h2, h3, h4⟩ := this
        refine ⟨by omega, by simp; omega, h3, ?_⟩
        have hk : k - i = (k - (i + 1)) + 1 := by omega
        rw [hk, List.take_succ_cons, h4, pow7_succ]
        simp only [value]
        generalize value (List.take (k - (i + 1)) bs) = V
        generalize 2 ^ (7 * i) = P
        generalize b.toNat % 128 = r
        grind

theorem uvarintAux_lt : ∀ (bs : Bytes) (i x v k : Nat), uvarintAux i x bs = .ok v k → i ≤ 10 →
    x < 2 ^ (7 * i) → v < 2 ^ 64 := by
  intro bs
  induction bs with
  | nil => intro i x v k h; simp [uvarintAux] at h
  | cons b bs ih =>
    intro i x v k h hi10 hx
    simp only [uvarintAux] at h
    split at h
    · cases h
    · split at h
      · split at h
        · cases h
        · rename_i h10 hlt h9
          injection h with hv hk
          subst hv
          have hcases : i = 0 ∨ i = 1 ∨ i = 2 ∨ i = 3 ∨ i = 4 ∨ i = 5 ∨ i = 6 ∨ i = 7 ∨ i = 8 ∨ i = 9 := by omega
          rcases hcases with rfl | rfl | rfl | rfl | rfl | rfl | rfl | rfl | rfl | rfl <;> simp at hx h9 ⊢ <;> omega
      · rename_i h10 hge
        refine ih (i + 1) _ v k h (by omega) ?_
        rw [pow7_succ]
        have : b.toNat % 128 < 128 := Nat.mod_lt _ (by omega)
        have h1 : b.toNat % 128 * 2 ^ (7 * i) ≤ 127 * 2 ^ (7 * i) := Nat.mul_le_mul_right _ (by omega)
        omega

end PB.Varint

namespace PB.Varint
open PB

theorem putUvarint_length_le : ∀ (k n : Nat), n < 128 ^ (k + 1) → (putUvarint n).length ≤ k + 1 := by
  intro k
  induction k with
  | zero => intro n h; rw [putUvarint_lt (by simpa using h)]; simp
  | succ k ih =>
    intro n h
    by_cases hn : n < 128
    · rw [putUvarint_lt hn]; simp
    · rw [putUvarint_ge hn]
      have : n / 128 < 128 ^ (k + 1) := by
        rw [Nat.div_lt_iff_lt_mul (by omega)]
        rw [Nat.pow_succ] at h; exact h
      have := ih _ this
      simp; omega

theorem putUvarint_length_ge : ∀ (k n : Nat), 128 ^ k ≤ n → k + 1 ≤ (putUvarint n).length := by
  intro k
  induction k with
  | zero => intro n _; have := putUvarint_length_pos n; omega
  | succ k ih =>
    intro n h
    have h128 : 128 ≤ n := by
      have : 128 ^ 1 ≤ 128 ^ (k + 1) := Nat.pow_le_pow_right (by omega) (by omega)
      omega
    rw [putUvarint_ge (by omega)]
    have : 128 ^ k ≤ n / 128 := by
      rw [Nat.le_div_iff_mul_le (by omega)]
      rw [Nat.pow_succ] at h; exact h
    have := ih _ this
    simp; omega

theorem value_lt : ∀ (bs : Bytes), value bs < 128 ^ bs.length := by
  intro bs
  induction bs with
  | nil => simp [value]
  | cons b bs ih =>
    simp only [value, List.length_cons, Nat.pow_succ]
    have : b.toNat % 128 < 128 := Nat.mod_lt _ (by omega)
    omega

/-- All bytes of a proper prefix of a standard encoding carry the continuation bit, so decoding a
    truncated encoding reports "buffer too small". -/
theorem uvarintAux_truncated (n : Nat) : ∀ (i x j : Nat), j < (putUvarint n).length → i + j ≤ 10 →
    uvarintAux i x ((putUvarint n).take j) = .small := by
  induction n using Nat.strongRecOn with
  | _ n ih =>
    intro i x j hj hij
    cases j with
    | zero => simp [uvarintAux]
    | succ j =>
      by_cases hn : n < 128
      · rw [putUvarint_lt hn] at hj; simp at hj
      · rw [putUvarint_ge hn] at hj ⊢
        have hbyte : (UInt8.ofNat (n % 128 + 128)).toNat = n % 128 + 128 := toNat_ofNat_lt (by omega)
        simp only [List.take_succ_cons, uvarintAux, hbyte]
        have h10 : ¬ i = 10 := by omega
        have hlt : ¬ (n % 128 + 128 < 128) := by omega
        simp only [h10, hlt, if_false]
        exact ih (n / 128) (by omega) (i + 1) _ j (by simpa using hj) (by omega)

/-- Shape of the standard base-128 form: every byte but the last has the continuation bit, the last has
    not, and (for multi-byte encodings) the last byte is non-zero, i.e. there is no padding. -/
def Standard (bs : Bytes) : Prop :=
  ∃ init last, bs = init ++ [last] ∧ (∀ b ∈ init, 128 ≤ b.toNat) ∧ last.toNat < 128 ∧ (init ≠ [] → last.toNat ≠ 0)

theorem putUvarint_standard (n : Nat) : Standard (putUvarint n) := by
  induction n using Nat.strongRecOn with
  | _ n ih =>
    by_cases hn : n < 128
    · rw [putUvarint_lt hn]
      exact ⟨[], UInt8.ofNat n, by simp, by simp, by rw [toNat_ofNat_lt (by omega)]; exact hn, by simp⟩
    · rw [putUvarint_ge hn]
      obtain ⟨init, last, h1, h2, h3, h4⟩ := ih (n / 128) (by omega)
      refine ⟨UInt8.ofNat (n % 128 + 128) :: init, last, by rw [h1]; simp, ?_, h3, ?_⟩
      · intro b hb
        rcases List.mem_cons.mp hb with rfl | hb
        · rw [toNat_ofNat_lt (by omega)]; omega
        · exact h2 b hb
      · intro _
        by_cases hi : init = []
        · subst hi
          simp at h1
          by_cases hq : n / 128 < 128
          · rw [putUvarint_lt hq] at h1
            injection h1 with h1 _
            rw [← h1, toNat_ofNat_lt (by omega)]
            omega
          · rw [putUvarint_ge hq] at h1
            have := putUvarint_length_pos (n / 128 / 128)
            have hl := congrArg List.length h1
            simp only [List.length_cons, List.length_nil] at hl; omega
        · exact h4 hi

end PB.Varint
