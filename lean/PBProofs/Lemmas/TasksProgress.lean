import PBProofs.Lemmas.Tasks
/-
Progress lemmas for the task scheduler model: the handlers are never stuck.
-/
set_option linter.unusedSimpArgs false
set_option linter.unusedVariables false
namespace PB.Tasks

section InvWaitSection
attribute [local simp] setNow setQh setSh setTask

/-- The queue handler only waits while the slot count is positive. -/
def InvWait (s : St) : Prop := ∀ _u : Nat, s.qh = .waiting → 0 < s.wg

syntax "fin_wait " ident ident : tactic
macro_rules
  | `(tactic| fin_wait $x $t) => `(tactic| ((try simp at *) <;> (try grind)))

theorem invWait_stepAt {s s' : St} {a : Act} (hi : InvWait s) (h : stepAt s a = some s') : InvWait s' := by
  cases a with
  | newInert t => simp only [stepAt] at h; cases h; intro x; have hx := hi x; have ht := hi t; fin_wait x t
  | queue t => simp only [stepAt] at h; cases h; intro x; have hx := hi x; have ht := hi t; simp only [doQueue]; (repeat' split) <;> fin_wait x t
  | queueP t => simp only [stepAt] at h; cases h; intro x; have hx := hi x; have ht := hi t; simp only [doQueueP]; (repeat' split) <;> fin_wait x t
  | asap t b =>
    simp only [stepAt] at h; split at h
    · cases h
    · cases h; intro x; have hx := hi x; have ht := hi t; simp only [doAsap]; (repeat' split) <;> fin_wait x t
  | maxDelay t d => simp only [stepAt] at h; cases h; intro x; have hx := hi x; have ht := hi t; fin_wait x t
  | schedule t tm => simp only [stepAt] at h; cases h; intro x; have hx := hi x; have ht := hi t; simp only [doSchedule]; (repeat' split) <;> fin_wait x t
  | cancel t => simp only [stepAt] at h; cases h; intro x; have hx := hi x; have ht := hi t; simp only [doCancel]; fin_wait x t
  | qhWait =>
    simp only [stepAt] at h; split at h
    · cases h
    · cases h; intro x; have hx := hi x; ((try simp at *) <;> (try grind))
  | qhPop =>
    simp only [stepAt] at h; (repeat' split at h) <;> cases h <;> intro x <;> have hx := hi x <;> ((try simp at *) <;> (try grind))
  | runQ =>
    simp only [stepAt] at h; split at h
    · rename_i t hq
      cases h; intro x; have hx := hi x; have ht := hi t
      simp only [runSection, runResOf]; (repeat' split) <;> fin_wait x t
    · cases h
  | runS =>
    simp only [stepAt] at h; split at h
    · rename_i t hq
      cases h; intro x; have hx := hi x; have ht := hi t
      simp only [runSection, runResOf]; (repeat' split) <;> fin_wait x t
    · cases h
  | spawnQ =>
    simp only [stepAt] at h; split at h
    · rename_i t hq
      cases h; intro x; have hx := hi x; have ht := hi t; fin_wait x t
    · cases h
  | spawnS =>
    simp only [stepAt] at h; split at h
    · rename_i t hq
      cases h; intro x; have hx := hi x; have ht := hi t; fin_wait x t
    · cases h
  | fnBegin t =>
    simp only [stepAt] at h; split at h
    · cases h
    · cases h; intro x; have hx := hi x; have ht := hi t; fin_wait x t
  | fnEnd t =>
    simp only [stepAt] at h; split at h
    · cases h
    · cases h; intro x; have hx := hi x; have ht := hi t; fin_wait x t
  | finish t =>
    simp only [stepAt] at h; split at h
    · cases h
    · cases h; intro x; have hx := hi x; have ht := hi t; fin_wait x t
  | slotFree t b =>
    simp only [stepAt] at h; (repeat' split at h) <;> (try cases h)
    all_goals (intro x; have hx := hi x; have ht := hi t; (repeat' split) <;> fin_wait x t)
  | shFetch =>
    simp only [stepAt] at h; (repeat' split at h) <;> (try cases h)
    · intro x; have hx := hi x; ((try simp at *) <;> (try grind))
    · intro x; have hx := hi x; ((try simp at *) <;> (try grind))
    · rename_i t hf; have hf2 := fetchRes_run hf; intro x; have hx := hi x; have ht := hi t; fin_wait x t
    · rename_i t hf; have hf2 := fetchRes_asap hf; intro x; have hx := hi x; have ht := hi t; fin_wait x t

theorem reachable_invWait {s : St} (h : Reachable s) : InvWait s := by
  induction h with
  | init => intro _ hq; simp [init] at hq
  | step now a _ hs ih =>
    have := step_eq hs
    exact invWait_stepAt (s := setNow _ now) (by intro u hq; exact ih u (by simpa [setNow] using hq)) this.2

end InvWaitSection

/-- A handler that holds a task which carries a queue flag and is neither cancelled nor executing starts it. -/
theorem held_is_started {s : St} (now : Nat) (hn : s.now ≤ now) (t : Nat) (hq : s.qh = .hold t)
    (hflag : (s.tasks t).inQ = true ∨ (s.tasks t).inP = true)
    (hc : (s.tasks t).canceled = false) (hx : (s.tasks t).executing = false) :
    ∃ s2, step s now .runQ = some s2 ∧ Starts (setNow s now) .runQ t ∧
      (s2.tasks t).starts = (s.tasks t).starts + 1 := by
  have hlt : ¬ now < s.now := by omega
  have hres : runResOf (setNow s now) t = .started := by
    rcases hflag with hf | hf <;> simp [runResOf, setNow, Task.active, hf, hc, hx]
  refine ⟨setQh (runSection (setNow s now) t (shHoldsAsap (setNow s now) t)) (.pre t), ?_, ⟨Or.inl ⟨rfl, by simp [setNow, hq]⟩, hres⟩, ?_⟩
  · have hq' : (setNow s now).qh = .hold t := by simp [setNow, hq]
    simp only [step, hlt, if_false, stepAt, hq', hres, if_true]
  · simp [setQh, runSection, hres, setTask]
    simp [setNow]

/-- The head of the prioritized queue (or of the normal queue if the prioritized queue is empty) is picked
    and started by the queue handler's next two steps, provided it is neither cancelled nor executing. -/
theorem head_is_started {s : St} (h : Reachable s) (now : Nat) (hn : s.now ≤ now) (t : Nat)
    (hq : s.qh = .ready)
    (hhead : (∃ ps, s.prio = t :: ps) ∨ (s.prio = [] ∧ ∃ qs, s.queue = t :: qs))
    (hc : (s.tasks t).canceled = false) (hx : (s.tasks t).executing = false) :
    ∃ s1 s2, step s now .qhPop = some s1 ∧ step s1 now .runQ = some s2 ∧ Starts (setNow s1 now) .runQ t ∧
      (s2.tasks t).starts = (s.tasks t).starts + 1 := by
  have hi := (reachable_inv h).lists
  have hflag : (s.tasks t).inQ = true ∨ (s.tasks t).inP = true := by
    rcases hhead with ⟨ps, hp⟩ | ⟨_, qs, hqq⟩
    · exact Or.inr (hi.memP t (by simp [hp]))
    · exact Or.inl (hi.memQ t (by simp [hqq]))
  have hlt : ¬ now < s.now := by omega
  have hpop : ∃ s1, step s now .qhPop = some s1 ∧ s1.qh = .hold t ∧ s1.tasks = s.tasks ∧ s1.now = now := by
    rcases hhead with ⟨ps, hp⟩ | ⟨hp, qs, hqq⟩
    · exact ⟨{ setNow s now with prio := ps, qh := .hold t }, by simp [step, hlt, stepAt, setNow, hq, hp], rfl, rfl, rfl⟩
    · exact ⟨{ setNow s now with queue := qs, qh := .hold t }, by simp [step, hlt, stepAt, setNow, hq, hp, hqq], rfl, rfl, rfl⟩
  obtain ⟨s1, h1, h1q, h1t, h1n⟩ := hpop
  obtain ⟨s2, h2, h2s, h2c⟩ := held_is_started (s := s1) now (by omega) t h1q (by simpa [h1t] using hflag)
    (by simpa [h1t] using hc) (by simpa [h1t] using hx)
  exact ⟨s1, s2, h1, h2, h2s, by simpa [h1t] using h2c⟩

/-- A waiting queue handler is never stuck for good: there is a slot watcher, and every slot watcher gives
    up at the latest `maxExecutionWait` after it was started. -/
theorem watcher_times_out {s : St} (now : Nat) (hn : s.now ≤ now) (w : Watcher) (hw : w ∈ s.watchers)
    (hwg : 0 < s.wg) (ht : w.tm + maxExecutionWait ≤ now) :
    ∃ s', step s now (.slotFree w.t true) = some s' ∧ s'.wg = s.wg - 1 := by
  have hlt : ¬ now < s.now := by omega
  have hfind : ∃ w', (setNow s now).watchers.find? (fun x => x.t == w.t &&
      (released (setNow s now) x || (true && decide (x.tm + maxExecutionWait ≤ (setNow s now).now)))) = some w' := by
    have : ((setNow s now).watchers.find? (fun x => x.t == w.t &&
      (released (setNow s now) x || (true && decide (x.tm + maxExecutionWait ≤ (setNow s now).now))))).isSome = true := by
      rw [List.find?_isSome]
      exact ⟨w, by simpa [setNow] using hw, by simp [setNow, ht]⟩
    exact Option.isSome_iff_exists.1 this
  obtain ⟨w', hw'⟩ := hfind
  have hwg' : ¬ (setNow s now).wg = 0 := by simp [setNow]; omega
  simp only [step, hlt, if_false, stepAt, hw', hwg']
  exact ⟨_, rfl, by simp [setTask, setNow]⟩

end PB.Tasks
