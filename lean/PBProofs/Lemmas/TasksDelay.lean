import PBProofs.Lemmas.Tasks
/-
What the time in a max-delay entry of the schedule is: as long as no time given to `Schedule` has replaced it,
`executeAt` of an `overtime` entry is the clock reading of the task's last queueing call plus the max delay that
call used (history fields `qAt`, `qMd`).
-/
set_option linter.unusedSimpArgs false
set_option linter.unusedVariables false
namespace PB.Tasks

def InvDelay (s : St) : Prop :=
  ∀ t, t ∈ s.sched → (s.tasks t).overtime = true → (s.tasks t).eaUser = false →
    (s.tasks t).executeAt = (s.tasks t).qAt + (s.tasks t).qMd

syntax "fin_delay " ident ident ident : tactic
macro_rules
  | `(tactic| fin_delay $x $t $hL) => `(tactic|
      (by_cases e : $x = $t
       · subst e; (try simp [Task.active, Task.prepped, Task.submitted, Task.removed, setTask, setQh, setSh, shHoldsAsap, mem_rmSched_iff $hL, mem_prepSched_iff, mem_schedWith_iff] at *) <;> grind
       · have e' : ¬ $t = $x := fun h => e h.symm
         (try simp only [Task.active, shHoldsAsap] at *)
         (try simp [e, e', setTask, setQh, setSh, mem_rmSched_iff $hL, mem_prepSched_iff, mem_schedWith_iff])
         (try grind)))

theorem invDelay_stepAt {s s' : St} {a : Act} (hL : InvLists s) (hE : InvEarly s) (hi : InvDelay s)
    (h : stepAt s a = some s') : InvDelay s' := by
  cases a with
  | newInert t => simp only [stepAt] at h; cases h; intro x; have hx := hi x; have ht := hi t; have hSt := hL.memS t; fin_delay x t hL
  | queue t => simp only [stepAt] at h; cases h; intro x; have hx := hi x; have ht := hi t; have hSt := hL.memS t; simp only [doQueue]; (repeat' split) <;> fin_delay x t hL
  | queueP t => simp only [stepAt] at h; cases h; intro x; have hx := hi x; have ht := hi t; have hSt := hL.memS t; simp only [doQueueP]; (repeat' split) <;> fin_delay x t hL
  | asap t b =>
    simp only [stepAt] at h; split at h
    · cases h
    · cases h; intro x; have hx := hi x; have ht := hi t; have hSt := hL.memS t; simp only [doAsap]; (repeat' split) <;> fin_delay x t hL
  | maxDelay t d => simp only [stepAt] at h; cases h; intro x; have hx := hi x; have ht := hi t; have hSt := hL.memS t; fin_delay x t hL
  | schedule t tm => simp only [stepAt] at h; cases h; intro x; have hx := hi x; have ht := hi t; have hSt := hL.memS t; simp only [doSchedule]; (repeat' split) <;> fin_delay x t hL
  | cancel t => simp only [stepAt] at h; cases h; intro x; have hx := hi x; have ht := hi t; have hSt := hL.memS t; simp only [doCancel]; fin_delay x t hL
  | qhWait =>
    simp only [stepAt] at h; split at h
    · cases h
    · cases h; intro x; have hx := hi x; ((try simp at *) <;> grind)
  | qhPop =>
    simp only [stepAt] at h; (repeat' split at h) <;> cases h <;> intro x <;> have hx := hi x <;> ((try simp at *) <;> grind)
  | runQ =>
    simp only [stepAt] at h; split at h
    · rename_i t hq
      cases h; intro x; have hx := hi x; have ht := hi t; have hSt := hL.memS t
      simp only [runSection, runResOf, setQh, setSh]; (repeat' split) <;> fin_delay x t hL
    · cases h
  | runS =>
    simp only [stepAt] at h; split at h
    · rename_i t hq
      cases h; intro x; have hx := hi x; have ht := hi t; have hSt := hL.memS t
      simp only [runSection, runResOf, setQh, setSh]; (repeat' split) <;> fin_delay x t hL
    · cases h
  | spawnQ =>
    simp only [stepAt] at h; split at h
    · rename_i t hq
      cases h; intro x; have hx := hi x; have ht := hi t; fin_delay x t hL
    · cases h
  | spawnS =>
    simp only [stepAt] at h; split at h
    · rename_i t hq
      cases h; intro x; have hx := hi x; have ht := hi t; fin_delay x t hL
    · cases h
  | fnBegin t =>
    simp only [stepAt] at h; split at h
    · cases h
    · cases h; intro x; have hx := hi x; have ht := hi t; fin_delay x t hL
  | fnEnd t =>
    simp only [stepAt] at h; split at h
    · cases h
    · cases h; intro x; have hx := hi x; have ht := hi t; fin_delay x t hL
  | finish t =>
    simp only [stepAt] at h; split at h
    · cases h
    · cases h; intro x; have hx := hi x; have ht := hi t; fin_delay x t hL
  | slotFree t b =>
    simp only [stepAt] at h; (repeat' split at h) <;> (try cases h)
    all_goals (intro x; have hx := hi x; have ht := hi t; (repeat' split) <;> fin_delay x t hL)
  | shFetch =>
    simp only [stepAt] at h; (repeat' split at h) <;> (try cases h)
    · intro x; have hx := hi x; ((try simp at *) <;> grind)
    · intro x; have hx := hi x; ((try simp at *) <;> grind)
    · rename_i t hf; have hf2 := fetchRes_run hf; intro x; have hx := hi x; have ht := hi t; fin_delay x t hL
    · rename_i t hf; have hf2 := fetchRes_asap hf; have hEt := (hE t).2.2.2.1; intro x; have hx := hi x; have ht := hi t; fin_delay x t hL

theorem invDelay_setNow {s : St} {n : Nat} (hi : InvDelay s) : InvDelay (setNow s n) := by
  intro t; simpa [setNow] using hi t

theorem reachable_invDelay {s : St} (h : Reachable s) : InvDelay s := by
  induction h with
  | init => intro t; simp [init]
  | step now a hr hs ih =>
    have hI := inv_setNow (step_eq hs).1 (reachable_inv hr)
    exact invDelay_stepAt hI.lists hI.early (invDelay_setNow ih) (step_eq hs).2

/-- What a fetch step of the schedule handler does: it was idle, and it now holds the first entry's task for a
    direct run resp. for `StartASAP` exactly if the fetch section took that branch; else it stays idle. -/
theorem shFetch_result {s s' : St} (h : stepAt s .shFetch = some s') :
    s.sh = .idle ∧
    ((∃ t, fetchRes s = .run t ∧ s'.sh = .holdRun t) ∨ (∃ t, fetchRes s = .asap t ∧ s'.sh = .holdAsap t) ∨
     s'.sh = .idle) := by
  simp only [stepAt] at h
  split at h
  · cases h
  · rename_i hidle
    have hidle' : s.sh = .idle := by simpa using hidle
    refine ⟨hidle', ?_⟩
    cases hf : fetchRes s with
    | none => simp only [hf] at h; cases h; exact Or.inr (Or.inr hidle')
    | notDue t => simp only [hf] at h; cases h; exact Or.inr (Or.inr hidle')
    | run t => simp only [hf] at h; cases h; exact Or.inl ⟨t, rfl, rfl⟩
    | asap t => simp only [hf] at h; cases h; exact Or.inr (Or.inl ⟨t, rfl, rfl⟩)

end PB.Tasks
