import PBProofs.Lemmas.TasksProj
/-
Invariants of the task scheduler model (PB.Model.Tasks) and their preservation by every action.
-/
set_option linter.unusedSimpArgs false
set_option linter.unusedVariables false
namespace PB.Tasks

attribute [local simp] setNow setQh setSh setTask

def preQ (s : St) (t : Nat) : Nat := if s.qh = .pre t then 1 else 0
def preS (s : St) (t : Nat) : Nat := if s.sh = .pre t then 1 else 0
def asapHeld (s : St) (t : Nat) : Nat := if s.sh = .holdAsap t then 1 else 0
def b2n (b : Bool) : Nat := if b then 1 else 0

/-- Exclusion: per task at most one execution is in progress, and exactly then `executing` is set. -/
def InvRun (s : St) : Prop :=
  ∀ t, preQ s t + preS s t + (s.tasks t).sp + (s.tasks t).fn + (s.tasks t).dn ≤ 1 ∧
    ((s.tasks t).executing = true ↔ preQ s t + preS s t + (s.tasks t).sp + (s.tasks t).fn + (s.tasks t).dn = 1)

/-- Credit: every start, every pending queue membership and every promotion in flight is paid for by a
    distinct submission. -/
def InvCredit (s : St) : Prop :=
  ∀ t, (s.tasks t).starts + b2n ((s.tasks t).inQ || (s.tasks t).inP) + asapHeld s t ≤ (s.tasks t).subs

syntax "fin_task " ident ident : tactic
macro_rules
  | `(tactic| fin_task $x $t) => `(tactic|
      (by_cases e : $x = $t
       · subst e; (try simp [preQ, preS, asapHeld, b2n, Task.active] at *) <;> grind
       · have e' : ¬ $t = $x := fun h => e h.symm
         (try simp only [preQ, preS, asapHeld, b2n, Task.active] at *)
         (try simp [e, e'])
         (try grind)))

/-! ### InvRun -/

theorem invRun_stepAt {s s' : St} {a : Act} (hi : InvRun s) (h : stepAt s a = some s') : InvRun s' := by
  cases a with
  | newInert t => simp only [stepAt] at h; cases h; intro x; have hx := hi x; have ht := hi t; fin_task x t
  | queue t => simp only [stepAt] at h; cases h; intro x; have hx := hi x; have ht := hi t; simp only [doQueue]; (repeat' split) <;> fin_task x t
  | queueP t => simp only [stepAt] at h; cases h; intro x; have hx := hi x; have ht := hi t; simp only [doQueueP]; (repeat' split) <;> fin_task x t
  | asap t b =>
    simp only [stepAt] at h; split at h
    · cases h
    · cases h; intro x; have hx := hi x; have ht := hi t; simp only [doAsap]; (repeat' split) <;> fin_task x t
  | maxDelay t d => simp only [stepAt] at h; cases h; intro x; have hx := hi x; have ht := hi t; fin_task x t
  | schedule t tm => simp only [stepAt] at h; cases h; intro x; have hx := hi x; have ht := hi t; simp only [doSchedule]; (repeat' split) <;> fin_task x t
  | cancel t => simp only [stepAt] at h; cases h; intro x; have hx := hi x; have ht := hi t; simp only [doCancel]; fin_task x t
  | qhWait =>
    simp only [stepAt] at h; split at h
    · cases h
    · cases h; intro x; have hx := hi x; (simp [preQ, preS, asapHeld, b2n] at * <;> grind)
  | qhPop =>
    simp only [stepAt] at h; (repeat' split at h) <;> cases h <;> intro x <;> have hx := hi x <;> (simp [preQ, preS, asapHeld, b2n] at * <;> grind)
  | runQ =>
    simp only [stepAt] at h; split at h
    · rename_i t hq
      cases h; intro x; have hx := hi x; have ht := hi t
      simp only [runSection, runResOf]; (repeat' split) <;> fin_task x t
    · cases h
  | runS =>
    simp only [stepAt] at h; split at h
    · rename_i t hq
      cases h; intro x; have hx := hi x; have ht := hi t
      simp only [runSection, runResOf]; (repeat' split) <;> fin_task x t
    · cases h
  | spawnQ =>
    simp only [stepAt] at h; split at h
    · rename_i t hq
      cases h; intro x; have hx := hi x; have ht := hi t; fin_task x t
    · cases h
  | spawnS =>
    simp only [stepAt] at h; split at h
    · rename_i t hq
      cases h; intro x; have hx := hi x; have ht := hi t; fin_task x t
    · cases h
  | fnBegin t =>
    simp only [stepAt] at h; split at h
    · cases h
    · cases h; intro x; have hx := hi x; have ht := hi t; fin_task x t
  | fnEnd t =>
    simp only [stepAt] at h; split at h
    · cases h
    · cases h; intro x; have hx := hi x; have ht := hi t; fin_task x t
  | finish t =>
    simp only [stepAt] at h; split at h
    · cases h
    · cases h; intro x; have hx := hi x; have ht := hi t; fin_task x t
  | slotFree t b =>
    simp only [stepAt] at h; (repeat' split at h) <;> (try cases h)
    all_goals (intro x; have hx := hi x; have ht := hi t; (repeat' split) <;> fin_task x t)
  | shFetch =>
    simp only [stepAt] at h; (repeat' split at h) <;> (try cases h)
    · intro x; have hx := hi x; (simp [preQ, preS, asapHeld, b2n] at * <;> grind)
    · intro x; have hx := hi x; (simp [preQ, preS, asapHeld, b2n] at * <;> grind)
    · rename_i t hf; intro x; have hx := hi x; have ht := hi t; fin_task x t
    · rename_i t hf; intro x; have hx := hi x; have ht := hi t; fin_task x t

/-! ### InvCredit -/

theorem invCredit_stepAt {s s' : St} {a : Act} (hi : InvCredit s) (h : stepAt s a = some s') : InvCredit s' := by
  cases a with
  | newInert t => simp only [stepAt] at h; cases h; intro x; have hx := hi x; have ht := hi t; fin_task x t
  | queue t => simp only [stepAt] at h; cases h; intro x; have hx := hi x; have ht := hi t; simp only [doQueue]; (repeat' split) <;> fin_task x t
  | queueP t => simp only [stepAt] at h; cases h; intro x; have hx := hi x; have ht := hi t; simp only [doQueueP]; (repeat' split) <;> fin_task x t
  | asap t b =>
    simp only [stepAt] at h; split at h
    · cases h
    · cases h; intro x; have hx := hi x; have ht := hi t; simp only [doAsap]; (repeat' split) <;> fin_task x t
  | maxDelay t d => simp only [stepAt] at h; cases h; intro x; have hx := hi x; have ht := hi t; fin_task x t
  | schedule t tm => simp only [stepAt] at h; cases h; intro x; have hx := hi x; have ht := hi t; simp only [doSchedule]; (repeat' split) <;> fin_task x t
  | cancel t => simp only [stepAt] at h; cases h; intro x; have hx := hi x; have ht := hi t; simp only [doCancel]; fin_task x t
  | qhWait =>
    simp only [stepAt] at h; split at h
    · cases h
    · cases h; intro x; have hx := hi x; (simp [preQ, preS, asapHeld, b2n] at * <;> grind)
  | qhPop =>
    simp only [stepAt] at h; (repeat' split at h) <;> cases h <;> intro x <;> have hx := hi x <;> (simp [preQ, preS, asapHeld, b2n] at * <;> grind)
  | runQ =>
    simp only [stepAt] at h; split at h
    · rename_i t hq
      cases h; intro x; have hx := hi x; have ht := hi t
      simp only [runSection, runResOf]; (repeat' split) <;> fin_task x t
    · cases h
  | runS =>
    simp only [stepAt] at h; split at h
    · rename_i t hq
      cases h; intro x; have hx := hi x; have ht := hi t
      simp only [runSection, runResOf]; (repeat' split) <;> fin_task x t
    · cases h
  | spawnQ =>
    simp only [stepAt] at h; split at h
    · rename_i t hq
      cases h; intro x; have hx := hi x; have ht := hi t; fin_task x t
    · cases h
  | spawnS =>
    simp only [stepAt] at h; split at h
    · rename_i t hq
      cases h; intro x; have hx := hi x; have ht := hi t; fin_task x t
    · cases h
  | fnBegin t =>
    simp only [stepAt] at h; split at h
    · cases h
    · cases h; intro x; have hx := hi x; have ht := hi t; fin_task x t
  | fnEnd t =>
    simp only [stepAt] at h; split at h
    · cases h
    · cases h; intro x; have hx := hi x; have ht := hi t; fin_task x t
  | finish t =>
    simp only [stepAt] at h; split at h
    · cases h
    · cases h; intro x; have hx := hi x; have ht := hi t; fin_task x t
  | slotFree t b =>
    simp only [stepAt] at h; (repeat' split at h) <;> (try cases h)
    all_goals (intro x; have hx := hi x; have ht := hi t; (repeat' split) <;> fin_task x t)
  | shFetch =>
    simp only [stepAt] at h; (repeat' split at h) <;> (try cases h)
    · intro x; have hx := hi x; (simp [preQ, preS, asapHeld, b2n] at * <;> grind)
    · intro x; have hx := hi x; (simp [preQ, preS, asapHeld, b2n] at * <;> grind)
    · rename_i t hf; intro x; have hx := hi x; have ht := hi t; fin_task x t
    · rename_i t hf; intro x; have hx := hi x; have ht := hi t; fin_task x t

/-! ### Lists -/

theorem mem_insertSched (ea : Nat → Nat) (t tm x : Nat) (l : List Nat) :
    x ∈ insertSched ea t tm l ↔ x = t ∨ x ∈ l := by
  induction l with
  | nil => simp [insertSched]
  | cons e es ih => simp only [insertSched]; split <;> simp [ih] <;> grind

theorem nodup_insertSched (ea : Nat → Nat) (t tm : Nat) (l : List Nat) (h1 : t ∉ l) (h2 : l.Nodup) :
    (insertSched ea t tm l).Nodup := by
  induction l with
  | nil => simp [insertSched]
  | cons e es ih =>
    simp only [insertSched]; split
    · simp_all
    · simp_all [mem_insertSched]; grind

theorem mem_schedWith (s : St) (t tm x : Nat) : x ∈ schedWith s t tm ↔ x = t ∨ (x ∈ s.sched ∧ x ≠ t) ∨ (x ∈ s.sched.erase t) := by
  simp only [schedWith, mem_insertSched]
  constructor
  · intro h; rcases h with h | h
    · exact Or.inl h
    · exact Or.inr (Or.inr h)
  · intro h; rcases h with h | ⟨h, hne⟩ | h
    · exact Or.inl h
    · exact Or.inr ((List.mem_erase_of_ne hne).2 h)
    · exact Or.inr h

theorem nodup_schedWith (s : St) (t tm : Nat) (h : s.sched.Nodup) : (schedWith s t tm).Nodup := by
  apply nodup_insertSched
  · exact fun hm => (List.Nodup.mem_erase_iff h).1 hm |>.1 rfl
  · exact h.erase t


theorem mem_prepSched {s : St} {t x : Nat} (h : x ∈ prepSched s t) :
    (x = t ∧ (s.tasks t).maxDelay ≠ 0) ∨ x ∈ s.sched := by
  simp only [prepSched] at h; split at h
  · rename_i hm
    rw [mem_schedWith] at h
    rcases h with h | ⟨h, _⟩ | h
    · left; exact ⟨h, by simpa using hm⟩
    · right; exact h
    · right; exact List.mem_of_mem_erase h
  · right; exact h

theorem nodup_prepSched {s : St} (t : Nat) (h : s.sched.Nodup) : (prepSched s t).Nodup := by
  simp only [prepSched]; split
  · exact nodup_schedWith s t _ h
  · exact h

/-- Membership flags after `prepForQueueing` of an active task `t` (whatever else the call changes). -/
theorem memS_prep {s : St} {t : Nat} (hi : ∀ x, x ∈ s.sched → (s.tasks x).inS = true) (k' : Task)
    (hk : k'.inS = ((s.tasks t).prepped s.now).inS) :
    ∀ x, x ∈ prepSched s t → ((fun y => if y = t then k' else s.tasks y) x).inS = true := by
  intro x hx
  rcases mem_prepSched hx with ⟨e, hm⟩ | h
  · subst e; simp [hk, hm]
  · by_cases e : x = t
    · subst e; simp [hk]; right; exact hi x h
    · simp [e, hi x h]

/-- Structure of the three lists: members carry their membership flag, no duplicates, the two run queues are
    strictly sorted by their submission stamps, stamps are bounded by the stamp counter. -/
structure InvLists (s : St) : Prop where
  memQ : ∀ t, t ∈ s.queue → (s.tasks t).inQ = true
  memP : ∀ t, t ∈ s.prio → (s.tasks t).inP = true
  memS : ∀ t, t ∈ s.sched → (s.tasks t).inS = true
  ndS : s.sched.Nodup
  sortQ : s.queue.Pairwise (fun a b => s.qkey a < s.qkey b)
  sortP : s.prio.Pairwise (fun a b => s.pkey a < s.pkey b)
  bndQ : ∀ t, t ∈ s.queue → s.qkey t ≤ s.clock
  bndP : ∀ t, t ∈ s.prio → - (s.clock : Int) ≤ s.pkey t ∧ s.pkey t ≤ s.clock

theorem InvLists.ndQ {s : St} (h : InvLists s) : s.queue.Nodup :=
  h.sortQ.imp (fun hab => by intro e; subst e; exact Nat.lt_irrefl _ hab)

theorem InvLists.ndP {s : St} (h : InvLists s) : s.prio.Nodup :=
  h.sortP.imp (fun hab => by intro e; subst e; exact Int.lt_irrefl _ hab)

/-- Frame: lists, stamps and membership flags untouched, stamp counter not decreased. -/
theorem invLists_frame {s s' : St} (hi : InvLists s)
    (hq : s'.queue = s.queue) (hp : s'.prio = s.prio) (hs : s'.sched = s.sched)
    (hqk : s'.qkey = s.qkey) (hpk : s'.pkey = s.pkey) (hc : s.clock ≤ s'.clock)
    (hf : ∀ x, (s'.tasks x).inQ = (s.tasks x).inQ ∧ (s'.tasks x).inP = (s.tasks x).inP ∧ (s'.tasks x).inS = (s.tasks x).inS) :
    InvLists s' := by
  constructor
  · intro t ht; rw [(hf t).1]; exact hi.memQ t (hq ▸ ht)
  · intro t ht; rw [(hf t).2.1]; exact hi.memP t (hp ▸ ht)
  · intro t ht; rw [(hf t).2.2]; exact hi.memS t (hs ▸ ht)
  · rw [hs]; exact hi.ndS
  · rw [hq, hqk]; exact hi.sortQ
  · rw [hp, hpk]; exact hi.sortP
  · intro t ht; rw [hqk]; exact Nat.le_trans (hi.bndQ t (hq ▸ ht)) hc
  · intro t ht; rw [hpk]; have := hi.bndP t (hp ▸ ht); omega

theorem mem_rmQueue {s : St} (hi : InvLists s) {t x : Nat} (h : x ∈ rmQueue s t) : x ∈ s.queue ∧ x ≠ t := by
  simp only [rmQueue] at h; split at h
  · have := (List.Nodup.mem_erase_iff hi.ndQ).1 h; exact ⟨this.2, this.1⟩
  · rename_i hn; refine ⟨h, fun e => hn ?_⟩; subst e; exact hi.memQ _ h

theorem mem_rmPrio {s : St} (hi : InvLists s) {t x : Nat} (h : x ∈ rmPrio s t) : x ∈ s.prio ∧ x ≠ t := by
  simp only [rmPrio] at h; split at h
  · have := (List.Nodup.mem_erase_iff hi.ndP).1 h; exact ⟨this.2, this.1⟩
  · rename_i hn; refine ⟨h, fun e => hn ?_⟩; subst e; exact hi.memP _ h

theorem mem_rmSched {s : St} (hi : InvLists s) {t x : Nat} (h : x ∈ rmSched s t) : x ∈ s.sched ∧ x ≠ t := by
  simp only [rmSched] at h; split at h
  · have := (List.Nodup.mem_erase_iff hi.ndS).1 h; exact ⟨this.2, this.1⟩
  · rename_i hn; refine ⟨h, fun e => hn ?_⟩; subst e; exact hi.memS _ h

theorem rmQueue_sublist (s : St) (t : Nat) : (rmQueue s t).Sublist s.queue := by
  simp only [rmQueue]; split
  · exact List.erase_sublist
  · exact List.Sublist.refl _

theorem rmPrio_sublist (s : St) (t : Nat) : (rmPrio s t).Sublist s.prio := by
  simp only [rmPrio]; split
  · exact List.erase_sublist
  · exact List.Sublist.refl _

theorem rmSched_sublist (s : St) (t : Nat) : (rmSched s t).Sublist s.sched := by
  simp only [rmSched]; split
  · exact List.erase_sublist
  · exact List.Sublist.refl _

/-- After `removeFromQueues` of task `t` (whatever else changes in its record). -/
theorem invLists_removed {s s' : St} {t : Nat} (hi : InvLists s)
    (hq : s'.queue = rmQueue s t) (hp : s'.prio = rmPrio s t) (hs : s'.sched = rmSched s t)
    (hqk : s'.qkey = s.qkey) (hpk : s'.pkey = s.pkey) (hc : s'.clock = s.clock)
    (hne : ∀ x, x ≠ t → s'.tasks x = s.tasks x) : InvLists s' := by
  constructor
  · intro x hx; rw [hq] at hx; have := mem_rmQueue hi hx; rw [hne x this.2]; exact hi.memQ x this.1
  · intro x hx; rw [hp] at hx; have := mem_rmPrio hi hx; rw [hne x this.2]; exact hi.memP x this.1
  · intro x hx; rw [hs] at hx; have := mem_rmSched hi hx; rw [hne x this.2]; exact hi.memS x this.1
  · rw [hs]; exact hi.ndS.sublist (rmSched_sublist s t)
  · rw [hq, hqk]; exact hi.sortQ.sublist (rmQueue_sublist s t)
  · rw [hp, hpk]; exact hi.sortP.sublist (rmPrio_sublist s t)
  · intro x hx; rw [hq] at hx; rw [hqk, hc]; exact hi.bndQ x (mem_rmQueue hi hx).1
  · intro x hx; rw [hp] at hx; rw [hpk, hc]; exact hi.bndP x (mem_rmPrio hi hx).1

syntax "frame_fin " ident : tactic
macro_rules
  | `(tactic| frame_fin $t) => `(tactic|
      (intro x; by_cases e : x = $t <;> simp [e]))

/-- `StartASAP` of an active task after `prepForQueueing`, for any new record `k1` that agrees with the old
    one on the queue flags and with the prepared one on the schedule flag. -/
theorem invLists_asap_core {s : St} (hi : InvLists s) (t : Nat) (k1 : Task) (sh' : SH)
    (hk : k1.inP = (s.tasks t).inP ∧ k1.inQ = (s.tasks t).inQ ∧ k1.inS = ((s.tasks t).prepped s.now).inS) :
    InvLists (
      if !k1.inP then
        { setTask s t { k1 with inP := true } with
          sched := prepSched s t, prio := t :: s.prio, clock := s.clock + 1, sh := sh',
          pkey := fun x => if x = t then - ((s.clock + 1 : Nat) : Int) else s.pkey x }
      else if s.prio.contains t then
        { setTask s t k1 with
          sched := prepSched s t, prio := t :: s.prio.erase t, clock := s.clock + 1, sh := sh',
          pkey := fun x => if x = t then - ((s.clock + 1 : Nat) : Int) else s.pkey x }
      else
        { setTask s t k1 with sched := prepSched s t, clock := s.clock + 1, sh := sh' }) := by
  have hQ : ∀ k : Task, k.inQ = (s.tasks t).inQ →
      ∀ x, x ∈ s.queue → ((fun y => if y = t then k else s.tasks y) x).inQ = true := by
    intro k hkq x hx; by_cases e : x = t
    · subst e; simp [hkq]; exact hi.memQ x hx
    · simp [e]; exact hi.memQ x hx
  split
  · rename_i hin
    have hnin : t ∉ s.prio := fun hm => by have := hi.memP t hm; simp_all
    constructor <;> simp
    · exact hQ _ hk.2.1
    · intro x hx; have e : x ≠ t := fun e => hnin (e ▸ hx)
      simp [e]; exact hi.memP x hx
    · exact memS_prep hi.memS _ (by simp [hk.2.2])
    · exact nodup_prepSched t hi.ndS
    · exact hi.sortQ
    · refine ⟨?_, ?_⟩
      · intro a ha
        have ea : a ≠ t := fun e => hnin (e ▸ ha)
        have := hi.bndP a ha
        simp [ea]; omega
      · exact hi.sortP.imp_of_mem (fun {a b} ha hb hab => by
          have ea : a ≠ t := fun e => hnin (e ▸ ha)
          have eb : b ≠ t := fun e => hnin (e ▸ hb)
          simpa [ea, eb] using hab)
    · intro x hx; exact Nat.le_succ_of_le (hi.bndQ x hx)
    · refine ⟨by omega, ?_⟩
      intro x hx
      have e : x ≠ t := fun e => hnin (e ▸ hx)
      have := hi.bndP x hx
      simp [e]; omega
  · split
    · rename_i hin hcont
      have hers : ∀ x, x ∈ s.prio.erase t → x ∈ s.prio ∧ x ≠ t := fun x hx => by
        have := (List.Nodup.mem_erase_iff hi.ndP).1 hx; exact ⟨this.2, this.1⟩
      constructor <;> simp
      · exact hQ _ hk.2.1
      · refine ⟨by simpa using hin, ?_⟩
        intro x hx; have := hers x hx
        simp [this.2]; exact hi.memP x this.1
      · exact memS_prep hi.memS _ (by simp [hk.2.2])
      · exact nodup_prepSched t hi.ndS
      · exact hi.sortQ
      · refine ⟨?_, ?_⟩
        · intro a ha
          have := hers a ha
          have hb := hi.bndP a this.1
          simp [this.2]; omega
        · exact (hi.sortP.sublist List.erase_sublist).imp_of_mem (fun {a b} ha hb hab => by
            have ea := (hers a ha).2
            have eb := (hers b hb).2
            simpa [ea, eb] using hab)
      · intro x hx; exact Nat.le_succ_of_le (hi.bndQ x hx)
      · refine ⟨by omega, ?_⟩
        intro x hx
        have := hers x hx
        have hb := hi.bndP x this.1
        simp [this.2]; omega
    · rename_i hin hcont
      constructor <;> simp
      · exact hQ _ hk.2.1
      · intro x hx; by_cases e : x = t
        · subst e; simp [hk.1]; exact hi.memP x hx
        · simp [e]; exact hi.memP x hx
      · exact memS_prep hi.memS _ (by simp [hk.2.2])
      · exact nodup_prepSched t hi.ndS
      · exact hi.sortQ
      · exact hi.sortP
      · intro x hx; exact Nat.le_succ_of_le (hi.bndQ x hx)
      · intro x hx; have := hi.bndP x hx; omega

theorem invLists_stepAt {s s' : St} {a : Act} (hi : InvLists s) (h : stepAt s a = some s') : InvLists s' := by
  cases a with
  | newInert t => simp only [stepAt] at h; cases h; apply invLists_frame hi <;> (try simp) ; frame_fin t
  | maxDelay t d => simp only [stepAt] at h; cases h; apply invLists_frame hi <;> (try simp) ; frame_fin t
  | cancel t => simp only [stepAt, doCancel] at h; cases h; apply invLists_frame hi <;> (try simp) ; frame_fin t
  | qhWait =>
    simp only [stepAt] at h; split at h
    · cases h
    · cases h; apply invLists_frame hi <;> simp
  | spawnQ =>
    simp only [stepAt] at h; split at h
    · rename_i t hq; cases h; apply invLists_frame hi <;> (try simp) ; frame_fin t
    · cases h
  | spawnS =>
    simp only [stepAt] at h; split at h
    · rename_i t hq; cases h; apply invLists_frame hi <;> (try simp) ; frame_fin t
    · cases h
  | fnBegin t =>
    simp only [stepAt] at h; split at h
    · cases h
    · cases h; apply invLists_frame hi <;> (try simp) ; frame_fin t
  | fnEnd t =>
    simp only [stepAt] at h; split at h
    · cases h
    · cases h; apply invLists_frame hi <;> (try simp) ; frame_fin t
  | finish t =>
    simp only [stepAt] at h; split at h
    · cases h
    · cases h; apply invLists_frame hi <;> (try simp) ; frame_fin t
  | slotFree t b =>
    simp only [stepAt] at h; (repeat' split at h) <;> (try cases h)
    all_goals (apply invLists_frame hi <;> (try simp) ; intro x; by_cases e : x = t <;> simp [e] <;> split <;> simp)
  | shFetch =>
    simp only [stepAt] at h; (repeat' split at h) <;> (try cases h)
    · exact hi
    · exact hi
    · rename_i t hf; apply invLists_frame hi <;> (try simp) ; frame_fin t
    · rename_i t hf; apply invLists_frame hi <;> (try simp) ; frame_fin t
  | qhPop =>
    simp only [stepAt] at h; split at h
    · cases h
    · split at h
      · rename_i t ps hp; cases h
        have hs := hi.sortP; rw [hp] at hs
        constructor <;> simp
        · exact hi.memQ
        · intro x hx; exact hi.memP x (by rw [hp]; exact List.mem_cons_of_mem _ hx)
        · exact hi.memS
        · exact hi.ndS
        · exact hi.sortQ
        · exact (List.pairwise_cons.1 hs).2
        · exact hi.bndQ
        · intro x hx; exact hi.bndP x (by rw [hp]; exact List.mem_cons_of_mem _ hx)
      · split at h
        · rename_i hp t qs hq; cases h
          have hs := hi.sortQ; rw [hq] at hs
          constructor <;> simp
          · intro x hx; exact hi.memQ x (by rw [hq]; exact List.mem_cons_of_mem _ hx)
          · exact hi.memP
          · exact hi.memS
          · exact hi.ndS
          · exact (List.pairwise_cons.1 hs).2
          · exact hi.sortP
          · intro x hx; exact hi.bndQ x (by rw [hq]; exact List.mem_cons_of_mem _ hx)
          · exact hi.bndP
        · cases h; apply invLists_frame hi <;> simp
  | queue t =>
    simp only [stepAt, doQueue] at h; cases h
    split
    · exact hi
    · split
      · rename_i hact hin
        constructor <;> simp
        · intro x hx; by_cases e : x = t
          · subst e; simpa using hin
          · simp [e]; exact hi.memQ x hx
        · intro x hx; by_cases e : x = t
          · subst e; simp; exact hi.memP x hx
          · simp [e]; exact hi.memP x hx
        · exact memS_prep hi.memS _ (by simp)
        · exact nodup_prepSched t hi.ndS
        · exact hi.sortQ
        · exact hi.sortP
        · intro x hx; exact Nat.le_succ_of_le (hi.bndQ x hx)
        · intro x hx; have := hi.bndP x hx; omega
      · rename_i hact hin
        have hnin : t ∉ s.queue := fun hm => by have := hi.memQ t hm; simp_all
        constructor <;> simp
        · intro x hx; by_cases e : x = t
          · subst e; simp
          · simp [e]; rcases hx with hx | hx
            · exact hi.memQ x hx
            · exact absurd hx e
        · intro x hx; by_cases e : x = t
          · subst e; simp; exact hi.memP x hx
          · simp [e]; exact hi.memP x hx
        · exact memS_prep hi.memS _ (by simp)
        · exact nodup_prepSched t hi.ndS
        · rw [List.pairwise_append]
          refine ⟨?_, by simp, ?_⟩
          · exact hi.sortQ.imp_of_mem (fun {a b} ha hb hab => by
              have ea : a ≠ t := fun e => hnin (e ▸ ha)
              have eb : b ≠ t := fun e => hnin (e ▸ hb)
              simpa [ea, eb] using hab)
          · intro a ha b hb
            simp at hb; subst hb
            have ea : a ≠ b := fun e => hnin (e ▸ ha)
            have := hi.bndQ a ha
            simp [ea]; omega
        · exact hi.sortP
        · intro x hx; rcases hx with hx | hx
          · have e : x ≠ t := fun e => hnin (e ▸ hx)
            have := hi.bndQ x hx
            simp [e]; omega
          · subst hx; simp
        · intro x hx; have := hi.bndP x hx; omega
  | runQ =>
    simp only [stepAt] at h; split at h
    · rename_i t hq; cases h
      simp only [runSection]; split
      · apply invLists_frame hi <;> simp
      all_goals (apply invLists_removed (t := t) hi <;> (try simp) ; intro x e; simp [e])
    · cases h
  | runS =>
    simp only [stepAt] at h; split at h
    · rename_i t hq; cases h
      simp only [runSection]; split
      · apply invLists_frame hi <;> simp
      all_goals (apply invLists_removed (t := t) hi <;> (try simp) ; intro x e; simp [e])
    · cases h
  | schedule t tm =>
    simp only [stepAt, doSchedule] at h; cases h
    split
    · apply invLists_removed (t := t) hi <;> (try simp) ; intro x e; simp [e]
    · split
      · apply invLists_frame hi <;> (try simp) ; frame_fin t
      · constructor <;> simp
        · intro x hx; by_cases e : x = t
          · subst e; simp; exact hi.memQ x hx
          · simp [e]; exact hi.memQ x hx
        · intro x hx; by_cases e : x = t
          · subst e; simp; exact hi.memP x hx
          · simp [e]; exact hi.memP x hx
        · intro x hx; by_cases e : x = t
          · subst e; simp
          · simp [e]; rw [mem_schedWith] at hx
            rcases hx with hx | hx | hx
            · exact absurd hx e
            · exact hi.memS x hx.1
            · exact hi.memS x (List.mem_of_mem_erase hx)
        · exact nodup_schedWith s t tm hi.ndS
        · exact hi.sortQ
        · exact hi.sortP
        · exact hi.bndQ
        · exact hi.bndP
  | queueP t =>
    simp only [stepAt, doQueueP] at h; cases h
    split
    · exact hi
    · split
      · rename_i hact hin
        constructor <;> simp
        · intro x hx; by_cases e : x = t
          · subst e; simp; exact hi.memQ x hx
          · simp [e]; exact hi.memQ x hx
        · intro x hx; by_cases e : x = t
          · subst e; simpa using hin
          · simp [e]; exact hi.memP x hx
        · exact memS_prep hi.memS _ (by simp)
        · exact nodup_prepSched t hi.ndS
        · exact hi.sortQ
        · exact hi.sortP
        · intro x hx; exact Nat.le_succ_of_le (hi.bndQ x hx)
        · intro x hx; have := hi.bndP x hx; omega
      · rename_i hact hin
        have hnin : t ∉ s.prio := fun hm => by have := hi.memP t hm; simp_all
        constructor <;> simp
        · intro x hx; by_cases e : x = t
          · subst e; simp; exact hi.memQ x hx
          · simp [e]; exact hi.memQ x hx
        · intro x hx; by_cases e : x = t
          · subst e; simp
          · simp [e]; rcases hx with hx | hx
            · exact hi.memP x hx
            · exact absurd hx e
        · exact memS_prep hi.memS _ (by simp)
        · exact nodup_prepSched t hi.ndS
        · exact hi.sortQ
        · rw [List.pairwise_append]
          refine ⟨?_, by simp, ?_⟩
          · exact hi.sortP.imp_of_mem (fun {a b} ha hb hab => by
              have ea : a ≠ t := fun e => hnin (e ▸ ha)
              have eb : b ≠ t := fun e => hnin (e ▸ hb)
              simpa [ea, eb] using hab)
          · intro a ha b hb
            simp at hb; subst hb
            have ea : a ≠ b := fun e => hnin (e ▸ ha)
            have := hi.bndP a ha
            simp [ea]; omega
        · intro x hx; exact Nat.le_succ_of_le (hi.bndQ x hx)
        · intro x hx; rcases hx with hx | hx
          · have e : x ≠ t := fun e => hnin (e ▸ hx)
            have := hi.bndP x hx
            simp [e]; omega
          · subst hx; simp; omega
  | asap t b =>
    simp only [stepAt] at h; split at h
    · cases h
    cases h
    cases b
    · simp only [doAsap]; split
      · apply invLists_frame hi <;> simp
      · exact invLists_asap_core hi t _ _ (by simp)
    · simp only [doAsap]; split
      · apply invLists_frame hi <;> simp
      · exact invLists_asap_core hi t _ _ (by simp)


/-- A submission that is still owed is remembered: the task carries a queue flag, or the schedule handler is
    about to call `StartASAP` on it — unless the request was dropped (finding). -/
def InvOwed (s : St) : Prop :=
  ∀ t, (s.tasks t).owed = true → (s.tasks t).canceled = false → (s.tasks t).dropped = false →
    (s.tasks t).inQ = true ∨ (s.tasks t).inP = true ∨ s.sh = .holdAsap t

theorem invOwed_stepAt {s s' : St} {a : Act} (hi : InvOwed s) (h : stepAt s a = some s') : InvOwed s' := by
  cases a with
  | newInert t => simp only [stepAt] at h; cases h; intro x; have hx := hi x; have ht := hi t; fin_task x t
  | queue t => simp only [stepAt] at h; cases h; intro x; have hx := hi x; have ht := hi t; simp only [doQueue]; (repeat' split) <;> fin_task x t
  | queueP t => simp only [stepAt] at h; cases h; intro x; have hx := hi x; have ht := hi t; simp only [doQueueP]; (repeat' split) <;> fin_task x t
  | asap t b =>
    simp only [stepAt] at h; split at h
    · cases h
    · cases h; intro x; have hx := hi x; have ht := hi t; simp only [doAsap]; (repeat' split) <;> fin_task x t
  | maxDelay t d => simp only [stepAt] at h; cases h; intro x; have hx := hi x; have ht := hi t; fin_task x t
  | schedule t tm => simp only [stepAt] at h; cases h; intro x; have hx := hi x; have ht := hi t; simp only [doSchedule]; (repeat' split) <;> fin_task x t
  | cancel t => simp only [stepAt] at h; cases h; intro x; have hx := hi x; have ht := hi t; simp only [doCancel]; fin_task x t
  | qhWait =>
    simp only [stepAt] at h; split at h
    · cases h
    · cases h; intro x; have hx := hi x; (simp [preQ, preS, asapHeld, b2n] at * <;> grind)
  | qhPop =>
    simp only [stepAt] at h; (repeat' split at h) <;> cases h <;> intro x <;> have hx := hi x <;> (simp [preQ, preS, asapHeld, b2n] at * <;> grind)
  | runQ =>
    simp only [stepAt] at h; split at h
    · rename_i t hq
      cases h; intro x; have hx := hi x; have ht := hi t
      simp only [runSection, runResOf]; (repeat' split) <;> fin_task x t
    · cases h
  | runS =>
    simp only [stepAt] at h; split at h
    · rename_i t hq
      cases h; intro x; have hx := hi x; have ht := hi t
      simp only [runSection, runResOf]; (repeat' split) <;> fin_task x t
    · cases h
  | spawnQ =>
    simp only [stepAt] at h; split at h
    · rename_i t hq
      cases h; intro x; have hx := hi x; have ht := hi t; fin_task x t
    · cases h
  | spawnS =>
    simp only [stepAt] at h; split at h
    · rename_i t hq
      cases h; intro x; have hx := hi x; have ht := hi t; fin_task x t
    · cases h
  | fnBegin t =>
    simp only [stepAt] at h; split at h
    · cases h
    · cases h; intro x; have hx := hi x; have ht := hi t; fin_task x t
  | fnEnd t =>
    simp only [stepAt] at h; split at h
    · cases h
    · cases h; intro x; have hx := hi x; have ht := hi t; fin_task x t
  | finish t =>
    simp only [stepAt] at h; split at h
    · cases h
    · cases h; intro x; have hx := hi x; have ht := hi t; fin_task x t
  | slotFree t b =>
    simp only [stepAt] at h; (repeat' split at h) <;> (try cases h)
    all_goals (intro x; have hx := hi x; have ht := hi t; (repeat' split) <;> fin_task x t)
  | shFetch =>
    simp only [stepAt] at h; (repeat' split at h) <;> (try cases h)
    · intro x; have hx := hi x; (simp [preQ, preS, asapHeld, b2n] at * <;> grind)
    · intro x; have hx := hi x; (simp [preQ, preS, asapHeld, b2n] at * <;> grind)
    · rename_i t hf; intro x; have hx := hi x; have ht := hi t; fin_task x t
    · rename_i t hf; intro x; have hx := hi x; have ht := hi t; fin_task x t


theorem mem_rmQueue_of_ne (s : St) {x t : Nat} (e : x ≠ t) : x ∈ rmQueue s t ↔ x ∈ s.queue := by
  simp only [rmQueue]; split
  · exact List.mem_erase_of_ne e
  · rfl

theorem mem_rmPrio_of_ne (s : St) {x t : Nat} (e : x ≠ t) : x ∈ rmPrio s t ↔ x ∈ s.prio := by
  simp only [rmPrio]; split
  · exact List.mem_erase_of_ne e
  · rfl

/-- A queue flag means: the task is in that queue, or the queue handler has just taken it out and holds it. -/
def InvHold (s : St) : Prop :=
  ∀ t, ((s.tasks t).inQ = true → t ∈ s.queue ∨ s.qh = .hold t) ∧
       ((s.tasks t).inP = true → t ∈ s.prio ∨ s.qh = .hold t)

syntax "fin_hold " ident ident : tactic
macro_rules
  | `(tactic| fin_hold $x $t) => `(tactic|
      (by_cases e : $x = $t
       · subst e; (try simp [Task.active] at *) <;> grind
       · have e' : ¬ $t = $x := fun h => e h.symm
         (try simp only [Task.active] at *)
         (try simp [e, e', mem_rmQueue_of_ne, mem_rmPrio_of_ne, List.mem_erase_of_ne])
         (try grind)))

theorem invHold_stepAt {s s' : St} {a : Act} (hi : InvHold s) (h : stepAt s a = some s') : InvHold s' := by
  cases a with
  | newInert t => simp only [stepAt] at h; cases h; intro x; have hx := hi x; have ht := hi t; fin_hold x t
  | queue t => simp only [stepAt] at h; cases h; intro x; have hx := hi x; have ht := hi t; simp only [doQueue]; (repeat' split) <;> fin_hold x t
  | queueP t => simp only [stepAt] at h; cases h; intro x; have hx := hi x; have ht := hi t; simp only [doQueueP]; (repeat' split) <;> fin_hold x t
  | asap t b =>
    simp only [stepAt] at h; split at h
    · cases h
    · cases h; intro x; have hx := hi x; have ht := hi t; simp only [doAsap]; (repeat' split) <;> fin_hold x t
  | maxDelay t d => simp only [stepAt] at h; cases h; intro x; have hx := hi x; have ht := hi t; fin_hold x t
  | schedule t tm => simp only [stepAt] at h; cases h; intro x; have hx := hi x; have ht := hi t; simp only [doSchedule]; (repeat' split) <;> fin_hold x t
  | cancel t => simp only [stepAt] at h; cases h; intro x; have hx := hi x; have ht := hi t; simp only [doCancel]; fin_hold x t
  | qhWait =>
    simp only [stepAt] at h; split at h
    · cases h
    · cases h; intro x; have hx := hi x; ((try simp at *) <;> grind)
  | qhPop =>
    simp only [stepAt] at h; (repeat' split at h) <;> cases h <;> intro x <;> have hx := hi x <;> ((try simp at *) <;> grind)
  | runQ =>
    simp only [stepAt] at h; split at h
    · rename_i t hq
      cases h; intro x; have hx := hi x; have ht := hi t
      simp only [runSection, runResOf]; (repeat' split) <;> fin_hold x t
    · cases h
  | runS =>
    simp only [stepAt] at h; split at h
    · rename_i t hq
      cases h; intro x; have hx := hi x; have ht := hi t
      simp only [runSection, runResOf]; (repeat' split) <;> fin_hold x t
    · cases h
  | spawnQ =>
    simp only [stepAt] at h; split at h
    · rename_i t hq
      cases h; intro x; have hx := hi x; have ht := hi t; fin_hold x t
    · cases h
  | spawnS =>
    simp only [stepAt] at h; split at h
    · rename_i t hq
      cases h; intro x; have hx := hi x; have ht := hi t; fin_hold x t
    · cases h
  | fnBegin t =>
    simp only [stepAt] at h; split at h
    · cases h
    · cases h; intro x; have hx := hi x; have ht := hi t; fin_hold x t
  | fnEnd t =>
    simp only [stepAt] at h; split at h
    · cases h
    · cases h; intro x; have hx := hi x; have ht := hi t; fin_hold x t
  | finish t =>
    simp only [stepAt] at h; split at h
    · cases h
    · cases h; intro x; have hx := hi x; have ht := hi t; fin_hold x t
  | slotFree t b =>
    simp only [stepAt] at h; (repeat' split at h) <;> (try cases h)
    all_goals (intro x; have hx := hi x; have ht := hi t; (repeat' split) <;> fin_hold x t)
  | shFetch =>
    simp only [stepAt] at h; (repeat' split at h) <;> (try cases h)
    · intro x; have hx := hi x; ((try simp at *) <;> grind)
    · intro x; have hx := hi x; ((try simp at *) <;> grind)
    · rename_i t hf; intro x; have hx := hi x; have ht := hi t; fin_hold x t
    · rename_i t hf; intro x; have hx := hi x; have ht := hi t; fin_hold x t


theorem fetchRes_asap {s : St} {t : Nat} (h : fetchRes s = .asap t) :
    t ∈ s.sched ∧ (s.tasks t).executeAt ≤ s.now ∧ (s.tasks t).overtime = false := by
  simp only [fetchRes] at h
  split at h
  · cases h
  · rename_i u us hs
    have key : ∀ b o, PB.Gen.Tasks.fetchOut b o = .asap → b = false ∧ o = false := by decide
    generalize hb : decide (s.now < (s.tasks u).executeAt) = b at h
    cases hf : PB.Gen.Tasks.fetchOut b (s.tasks u).overtime <;> simp only [hf] at h <;> cases h
    obtain ⟨h1, h2⟩ := key _ _ hf
    subst h1; simp at hb
    exact ⟨by simp [hs], by omega, h2⟩

theorem fetchRes_run {s : St} {t : Nat} (h : fetchRes s = .run t) :
    t ∈ s.sched ∧ (s.tasks t).executeAt ≤ s.now ∧ (s.tasks t).overtime = true := by
  simp only [fetchRes] at h
  split at h
  · cases h
  · rename_i u us hs
    have key : ∀ b o, PB.Gen.Tasks.fetchOut b o = .run → b = false ∧ o = true := by decide
    generalize hb : decide (s.now < (s.tasks u).executeAt) = b at h
    cases hf : PB.Gen.Tasks.fetchOut b (s.tasks u).overtime <;> simp only [hf] at h <;> cases h
    obtain ⟨h1, h2⟩ := key _ _ hf
    subst h1; simp at hb
    exact ⟨by simp [hs], by omega, h2⟩

theorem mem_schedWith_iff (s : St) (t tm x : Nat) : x ∈ schedWith s t tm ↔ x = t ∨ x ∈ s.sched := by
  rw [mem_schedWith]
  constructor
  · intro h; rcases h with h | h | h
    · exact Or.inl h
    · exact Or.inr h.1
    · exact Or.inr (List.mem_of_mem_erase h)
  · intro h; rcases h with h | h
    · exact Or.inl h
    · by_cases e : x = t
      · exact Or.inl e
      · exact Or.inr (Or.inl ⟨h, e⟩)

theorem mem_prepSched_iff (s : St) (t x : Nat) :
    x ∈ prepSched s t ↔ ((s.tasks t).maxDelay ≠ 0 ∧ x = t) ∨ x ∈ s.sched := by
  simp only [prepSched]; split
  · rename_i hm; rw [mem_schedWith_iff]; simp at hm; simp [hm]
  · rename_i hm; simp at hm; simp [hm]

theorem mem_rmSched_iff {s : St} (hi : InvLists s) (t x : Nat) : x ∈ rmSched s t ↔ x ∈ s.sched ∧ x ≠ t := by
  constructor
  · exact mem_rmSched hi
  · intro ⟨h, e⟩; simp only [rmSched]; split
    · exact (List.mem_erase_of_ne e).2 h
    · exact h


/-- Scheduled times: which tasks may sit in a run queue without a submission from outside, and what
    `executeAt` of a schedule entry means. -/
def InvEarly (s : St) : Prop :=
  ∀ t,
    (s.sh = .holdAsap t → (s.tasks t).prom = true) ∧
    ((s.tasks t).userSub = false → ((s.tasks t).inQ = true ∨ (s.tasks t).inP = true) → (s.tasks t).prom = true) ∧
    ((s.tasks t).prom = true → (s.tasks t).promAt ≤ s.now ∧ (s.tasks t).promAt ∈ (s.tasks t).schedHist) ∧
    (t ∈ s.sched → (s.tasks t).overtime = false → (s.tasks t).eaUser = false → s.sh = .holdRun t) ∧
    (t ∈ s.sched → (s.tasks t).eaUser = false → (s.tasks t).canceled = false →
      ((s.tasks t).inQ = true ∨ (s.tasks t).inP = true)) ∧
    ((s.tasks t).eaUser = true → (s.tasks t).executeAt ∈ (s.tasks t).schedHist)

syntax "fin_early " ident ident ident : tactic
macro_rules
  | `(tactic| fin_early $x $t $hL) => `(tactic|
      (by_cases e : $x = $t
       · subst e; (try simp [Task.active, shHoldsAsap, mem_rmSched_iff $hL, mem_prepSched_iff, mem_schedWith_iff] at *) <;> grind
       · have e' : ¬ $t = $x := fun h => e h.symm
         (try simp only [Task.active, shHoldsAsap] at *)
         (try simp [e, e', mem_rmSched_iff $hL, mem_prepSched_iff, mem_schedWith_iff])
         (try grind)))

theorem invEarly_stepAt {s s' : St} {a : Act} (hL : InvLists s) (hi : InvEarly s) (h : stepAt s a = some s') : InvEarly s' := by
  cases a with
  | newInert t => simp only [stepAt] at h; cases h; intro x; have hx := hi x; have ht := hi t; fin_early x t hL
  | queue t => simp only [stepAt] at h; cases h; intro x; have hx := hi x; have ht := hi t; simp only [doQueue]; (repeat' split) <;> fin_early x t hL
  | queueP t => simp only [stepAt] at h; cases h; intro x; have hx := hi x; have ht := hi t; simp only [doQueueP]; (repeat' split) <;> fin_early x t hL
  | asap t b =>
    simp only [stepAt] at h; split at h
    · cases h
    · cases h; intro x; have hx := hi x; have ht := hi t; simp only [doAsap]; (repeat' split) <;> fin_early x t hL
  | maxDelay t d => simp only [stepAt] at h; cases h; intro x; have hx := hi x; have ht := hi t; fin_early x t hL
  | schedule t tm => simp only [stepAt] at h; cases h; intro x; have hx := hi x; have ht := hi t; simp only [doSchedule]; (repeat' split) <;> fin_early x t hL
  | cancel t => simp only [stepAt] at h; cases h; intro x; have hx := hi x; have ht := hi t; simp only [doCancel]; fin_early x t hL
  | qhWait =>
    simp only [stepAt] at h; split at h
    · cases h
    · cases h; intro x; have hx := hi x; ((try simp at *) <;> grind)
  | qhPop =>
    simp only [stepAt] at h; (repeat' split at h) <;> cases h <;> intro x <;> have hx := hi x <;> ((try simp at *) <;> grind)
  | runQ =>
    simp only [stepAt] at h; split at h
    · rename_i t hq
      cases h; intro x; have hx := hi x; have ht := hi t
      simp only [runSection, runResOf]; (repeat' split) <;> fin_early x t hL
    · cases h
  | runS =>
    simp only [stepAt] at h; split at h
    · rename_i t hq
      cases h; intro x; have hx := hi x; have ht := hi t
      simp only [runSection, runResOf]; (repeat' split) <;> fin_early x t hL
    · cases h
  | spawnQ =>
    simp only [stepAt] at h; split at h
    · rename_i t hq
      cases h; intro x; have hx := hi x; have ht := hi t; fin_early x t hL
    · cases h
  | spawnS =>
    simp only [stepAt] at h; split at h
    · rename_i t hq
      cases h; intro x; have hx := hi x; have ht := hi t; fin_early x t hL
    · cases h
  | fnBegin t =>
    simp only [stepAt] at h; split at h
    · cases h
    · cases h; intro x; have hx := hi x; have ht := hi t; fin_early x t hL
  | fnEnd t =>
    simp only [stepAt] at h; split at h
    · cases h
    · cases h; intro x; have hx := hi x; have ht := hi t; fin_early x t hL
  | finish t =>
    simp only [stepAt] at h; split at h
    · cases h
    · cases h; intro x; have hx := hi x; have ht := hi t; fin_early x t hL
  | slotFree t b =>
    simp only [stepAt] at h; (repeat' split at h) <;> (try cases h)
    all_goals (intro x; have hx := hi x; have ht := hi t; (repeat' split) <;> fin_early x t hL)
  | shFetch =>
    simp only [stepAt] at h; (repeat' split at h) <;> (try cases h)
    · intro x; have hx := hi x; ((try simp at *) <;> grind)
    · intro x; have hx := hi x; ((try simp at *) <;> grind)
    · rename_i t hf; have hf2 := fetchRes_run hf; intro x; have hx := hi x; have ht := hi t; fin_early x t hL
    · rename_i t hf; have hf2 := fetchRes_asap hf; intro x; have hx := hi x; have ht := hi t; fin_early x t hL


def qhPast (q : QH) : Prop := q = .ready ∨ (∃ t, q = .hold t) ∨ (∃ t, q = .pre t)

/-- Slot accounting: `queueWg` counts the slot watchers; while the queue handler is past its wait, no watcher
    of an execution started by it is left; an execution started by the queue handler that has not returned,
    was not cancelled and did not exceed the execution-wait limit still has its watcher. -/
def InvWatch (s : St) : Prop :=
  ∀ u : Nat,
    s.wg = s.watchers.length ∧
    (qhPast s.qh → ∀ w, w ∈ s.watchers → w.byQh = false) ∧
    ((s.tasks u).byQh = true → 0 < (s.tasks u).sp + (s.tasks u).fn → (s.tasks u).ctxDone = false →
      (s.tasks u).tmo = false → ∃ w, w ∈ s.watchers ∧ w.t = u ∧ w.gen = (s.tasks u).gen ∧ w.byQh = true)

syntax "fin_watch " ident ident : tactic
macro_rules
  | `(tactic| fin_watch $x $t) => `(tactic|
      (by_cases e : $x = $t
       · subst e; (try simp [Task.active, qhPast, preQ, preS] at *) <;> grind
       · have e' : ¬ $t = $x := fun h => e h.symm
         (try simp only [Task.active, qhPast, preQ, preS] at *)
         (try simp [e, e'])
         (try grind)))

set_option maxHeartbeats 2000000 in
theorem invWatch_stepAt {s s' : St} {a : Act} (hR : InvRun s) (hi : InvWatch s) (h : stepAt s a = some s') : InvWatch s' := by
  cases a with
  | newInert t => simp only [stepAt] at h; cases h; intro x; have hx := hi x; have ht := hi t; (have hRx := hR x; have hRt := hR t; fin_watch x t)
  | queue t => simp only [stepAt] at h; cases h; intro x; have hx := hi x; have ht := hi t; simp only [doQueue]; (repeat' split) <;> (have hRx := hR x; have hRt := hR t; fin_watch x t)
  | queueP t => simp only [stepAt] at h; cases h; intro x; have hx := hi x; have ht := hi t; simp only [doQueueP]; (repeat' split) <;> (have hRx := hR x; have hRt := hR t; fin_watch x t)
  | asap t b =>
    simp only [stepAt] at h; split at h
    · cases h
    · cases h; intro x; have hx := hi x; have ht := hi t; simp only [doAsap]; (repeat' split) <;> (have hRx := hR x; have hRt := hR t; fin_watch x t)
  | maxDelay t d => simp only [stepAt] at h; cases h; intro x; have hx := hi x; have ht := hi t; (have hRx := hR x; have hRt := hR t; fin_watch x t)
  | schedule t tm => simp only [stepAt] at h; cases h; intro x; have hx := hi x; have ht := hi t; simp only [doSchedule]; (repeat' split) <;> (have hRx := hR x; have hRt := hR t; fin_watch x t)
  | cancel t => simp only [stepAt] at h; cases h; intro x; have hx := hi x; have ht := hi t; simp only [doCancel]; (have hRx := hR x; have hRt := hR t; fin_watch x t)
  | qhWait =>
    simp only [stepAt] at h; split at h
    · cases h
    · cases h; intro x; have hx := hi x; ((try simp [qhPast] at *) <;> grind)
  | qhPop =>
    simp only [stepAt] at h; (repeat' split at h) <;> cases h <;> intro x <;> have hx := hi x <;> ((try simp [qhPast] at *) <;> grind)
  | runQ =>
    simp only [stepAt] at h; split at h
    · rename_i t hq
      cases h; intro x; have hx := hi x; have ht := hi t
      simp only [runSection, runResOf]; (repeat' split) <;> (have hRx := hR x; have hRt := hR t; fin_watch x t)
    · cases h
  | runS =>
    simp only [stepAt] at h; split at h
    · rename_i t hq
      cases h; intro x; have hx := hi x; have ht := hi t
      simp only [runSection, runResOf]; (repeat' split) <;> (have hRx := hR x; have hRt := hR t; fin_watch x t)
    · cases h
  | spawnQ =>
    simp only [stepAt] at h; split at h
    · rename_i t hq
      cases h; intro x; have hx := hi x; have ht := hi t; (have hRx := hR x; have hRt := hR t; fin_watch x t)
    · cases h
  | spawnS =>
    simp only [stepAt] at h; split at h
    · rename_i t hq
      cases h; intro x; have hx := hi x; have ht := hi t; (have hRx := hR x; have hRt := hR t; fin_watch x t)
    · cases h
  | fnBegin t =>
    simp only [stepAt] at h; split at h
    · cases h
    · cases h; intro x; have hx := hi x; have ht := hi t; (have hRx := hR x; have hRt := hR t; fin_watch x t)
  | fnEnd t =>
    simp only [stepAt] at h; split at h
    · cases h
    · cases h; intro x; have hx := hi x; have ht := hi t; (have hRx := hR x; have hRt := hR t; fin_watch x t)
  | finish t =>
    simp only [stepAt] at h; split at h
    · cases h
    · cases h; intro x; have hx := hi x; have ht := hi t; (have hRx := hR x; have hRt := hR t; fin_watch x t)
  | slotFree t b =>
    simp only [stepAt] at h
    split at h
    · cases h
    · rename_i w hw
      split at h
      · cases h
      · rename_i hwg; cases h
        have hmem : w ∈ s.watchers := List.mem_of_find?_eq_some hw
        have hp := List.find?_some hw
        have hlen : (s.watchers.erase w).length = s.watchers.length - 1 := List.length_erase_of_mem hmem
        intro u; have hu := hi u; have hRu := hR u
        refine ⟨?_, ?_, ?_⟩
        · simp [hlen]; omega
        · intro hq x hx
          have hx' := List.mem_of_mem_erase hx
          by_cases hc : (s.wg - 1 = 0 ∧ s.qh = QH.waiting)
          · have : (s.watchers.erase w).length = 0 := by rw [hlen]; omega
            have : s.watchers.erase w = [] := List.length_eq_zero_iff.1 this
            simp [this] at hx
          · have hq' : qhPast s.qh := by
              simp only [qhPast] at hq ⊢
              have hne : ¬ ((s.wg - 1 = 0 && s.qh == QH.waiting) = true) := by simpa using hc
              simpa [hne] using hq
            exact hu.2.1 hq' x hx'
        · have hwt : w.t = t := by simp at hp; exact hp.1
          by_cases e : u = t
          · subst e
            simp only [setTask, if_pos]
            intro hb hsp hctx htmo
            by_cases hc : (b && !released s w && w.gen == (s.tasks u).gen) = true
            · simp [hc] at htmo
            · simp [hc] at hb hsp hctx htmo ⊢
              obtain ⟨w0, hw0, h1, h2, h3⟩ := hu.2.2 hb hsp hctx htmo
              refine ⟨w0, ?_, h1, h2, h3⟩
              apply (List.mem_erase_of_ne ?_).2 hw0
              intro hww; subst hww
              simp [released, h1, h2, hctx] at hp hc
              simp [hp] at hc
          · simp only [setTask, if_neg e]
            intro hb hsp hctx htmo
            obtain ⟨w0, hw0, h1, h2, h3⟩ := hu.2.2 hb hsp hctx htmo
            refine ⟨w0, ?_, h1, h2, h3⟩
            apply (List.mem_erase_of_ne ?_).2 hw0
            intro hww; subst hww; exact e (h1.symm.trans hwt)

  | shFetch =>
    simp only [stepAt] at h; (repeat' split at h) <;> (try cases h)
    · intro x; have hx := hi x; ((try simp [qhPast] at *) <;> grind)
    · intro x; have hx := hi x; ((try simp [qhPast] at *) <;> grind)
    · rename_i t hf; have hf2 := fetchRes_run hf; intro x; have hx := hi x; have ht := hi t; (have hRx := hR x; have hRt := hR t; fin_watch x t)
    · rename_i t hf; have hf2 := fetchRes_asap hf; intro x; have hx := hi x; have ht := hi t; (have hRx := hR x; have hRt := hR t; fin_watch x t)

/-! ### All invariants together -/

structure Inv (s : St) : Prop where
  run : InvRun s
  credit : InvCredit s
  lists : InvLists s
  owed : InvOwed s
  hold : InvHold s
  early : InvEarly s
  watch : InvWatch s

theorem inv_init : Inv init := by
  refine ⟨?_, ?_, ?_, ?_, ?_, ?_, ?_⟩
  · intro t; simp [init, preQ, preS]
  · intro t; simp [init, b2n, asapHeld]
  · constructor <;> simp [init]
  · intro t; simp [init]
  · intro t; simp [init]
  · intro t; simp [init]
  · intro t; simp [init, qhPast]

theorem inv_setNow {s : St} {n : Nat} (hn : s.now ≤ n) (hi : Inv s) : Inv (setNow s n) := by
  refine ⟨hi.run, hi.credit, ?_, hi.owed, hi.hold, ?_, hi.watch⟩
  · exact ⟨hi.lists.memQ, hi.lists.memP, hi.lists.memS, hi.lists.ndS, hi.lists.sortQ, hi.lists.sortP,
      hi.lists.bndQ, hi.lists.bndP⟩
  · intro t
    have h := hi.early t
    refine ⟨h.1, h.2.1, ?_, h.2.2.2.1, h.2.2.2.2.1, h.2.2.2.2.2⟩
    intro hp; have := h.2.2.1 hp
    exact ⟨Nat.le_trans this.1 hn, this.2⟩

theorem inv_stepAt {s s' : St} {a : Act} (hi : Inv s) (h : stepAt s a = some s') : Inv s' :=
  ⟨invRun_stepAt hi.run h, invCredit_stepAt hi.credit h, invLists_stepAt hi.lists h, invOwed_stepAt hi.owed h,
   invHold_stepAt hi.hold h, invEarly_stepAt hi.lists hi.early h, invWatch_stepAt hi.run hi.watch h⟩

theorem step_eq {s s' : St} {now : Nat} {a : Act} (h : step s now a = some s') :
    s.now ≤ now ∧ stepAt (setNow s now) a = some s' := by
  simp only [step] at h
  split at h
  · cases h
  · exact ⟨by omega, h⟩

theorem inv_step {s s' : St} {now : Nat} {a : Act} (hi : Inv s) (h : step s now a = some s') : Inv s' :=
  inv_stepAt (inv_setNow (step_eq h).1 hi) (step_eq h).2

theorem reachable_inv {s : St} (h : Reachable s) : Inv s := by
  induction h with
  | init => exact inv_init
  | step now a _ hs ih => exact inv_step ih hs

/-! ### What a step can change -/

/-- The step is the locked check section of `runWithLocking` on task `t`, issued by the handler holding `t`,
    and it takes the branch that enters the executing state. -/
def Starts (s : St) (a : Act) (t : Nat) : Prop :=
  ((a = .runQ ∧ s.qh = .hold t) ∨ (a = .runS ∧ s.sh = .holdRun t)) ∧ runResOf s t = .started

/-- The step discards the pending request of `t`: check section on `t` while `t` is executing. -/
def Drops (s : St) (a : Act) (t : Nat) : Prop :=
  ((a = .runQ ∧ s.qh = .hold t) ∨ (a = .runS ∧ s.sh = .holdRun t)) ∧ runResOf s t = .executing

syntax "fin_chg " ident ident : tactic
macro_rules
  | `(tactic| fin_chg $x $t) => `(tactic|
      (by_cases e : $x = $t
       · subst e; (try simp [Task.active, Starts, Drops, runResOf] at *) <;> (try grind)
       · have e' : ¬ $t = $x := fun h => e h.symm
         (try simp [e, e'])
         (try grind)))

theorem starts_change {s s' : St} {a : Act}  (h : stepAt s a = some s') : ∀ x, (s'.tasks x).starts = (s.tasks x).starts ∨ ((s'.tasks x).starts = (s.tasks x).starts + 1 ∧ Starts s a x) := by
  cases a with
  | newInert t => simp only [stepAt] at h; cases h; intro x; have hx := (fun _ : Nat => True.intro) x; have ht := (fun _ : Nat => True.intro) t; fin_chg x t
  | queue t => simp only [stepAt] at h; cases h; intro x; have hx := (fun _ : Nat => True.intro) x; have ht := (fun _ : Nat => True.intro) t; simp only [doQueue]; (repeat' split) <;> fin_chg x t
  | queueP t => simp only [stepAt] at h; cases h; intro x; have hx := (fun _ : Nat => True.intro) x; have ht := (fun _ : Nat => True.intro) t; simp only [doQueueP]; (repeat' split) <;> fin_chg x t
  | asap t b =>
    simp only [stepAt] at h; split at h
    · cases h
    · cases h; intro x; have hx := (fun _ : Nat => True.intro) x; have ht := (fun _ : Nat => True.intro) t; simp only [doAsap]; (repeat' split) <;> fin_chg x t
  | maxDelay t d => simp only [stepAt] at h; cases h; intro x; have hx := (fun _ : Nat => True.intro) x; have ht := (fun _ : Nat => True.intro) t; fin_chg x t
  | schedule t tm => simp only [stepAt] at h; cases h; intro x; have hx := (fun _ : Nat => True.intro) x; have ht := (fun _ : Nat => True.intro) t; simp only [doSchedule]; (repeat' split) <;> fin_chg x t
  | cancel t => simp only [stepAt] at h; cases h; intro x; have hx := (fun _ : Nat => True.intro) x; have ht := (fun _ : Nat => True.intro) t; simp only [doCancel]; fin_chg x t
  | qhWait =>
    simp only [stepAt] at h; split at h
    · cases h
    · cases h; intro x; have hx := (fun _ : Nat => True.intro) x; ((try simp) <;> (try grind))
  | qhPop =>
    simp only [stepAt] at h; (repeat' split at h) <;> cases h <;> intro x <;> have hx := (fun _ : Nat => True.intro) x <;> ((try simp) <;> (try grind))
  | runQ =>
    simp only [stepAt] at h; split at h
    · rename_i t hq
      cases h; intro x; have hx := (fun _ : Nat => True.intro) x; have ht := (fun _ : Nat => True.intro) t
      simp only [runSection, runResOf]; (repeat' split) <;> fin_chg x t
    · cases h
  | runS =>
    simp only [stepAt] at h; split at h
    · rename_i t hq
      cases h; intro x; have hx := (fun _ : Nat => True.intro) x; have ht := (fun _ : Nat => True.intro) t
      simp only [runSection, runResOf]; (repeat' split) <;> fin_chg x t
    · cases h
  | spawnQ =>
    simp only [stepAt] at h; split at h
    · rename_i t hq
      cases h; intro x; have hx := (fun _ : Nat => True.intro) x; have ht := (fun _ : Nat => True.intro) t; fin_chg x t
    · cases h
  | spawnS =>
    simp only [stepAt] at h; split at h
    · rename_i t hq
      cases h; intro x; have hx := (fun _ : Nat => True.intro) x; have ht := (fun _ : Nat => True.intro) t; fin_chg x t
    · cases h
  | fnBegin t =>
    simp only [stepAt] at h; split at h
    · cases h
    · cases h; intro x; have hx := (fun _ : Nat => True.intro) x; have ht := (fun _ : Nat => True.intro) t; fin_chg x t
  | fnEnd t =>
    simp only [stepAt] at h; split at h
    · cases h
    · cases h; intro x; have hx := (fun _ : Nat => True.intro) x; have ht := (fun _ : Nat => True.intro) t; fin_chg x t
  | finish t =>
    simp only [stepAt] at h; split at h
    · cases h
    · cases h; intro x; have hx := (fun _ : Nat => True.intro) x; have ht := (fun _ : Nat => True.intro) t; fin_chg x t
  | slotFree t b =>
    simp only [stepAt] at h; (repeat' split at h) <;> (try cases h)
    all_goals (intro x; have hx := (fun _ : Nat => True.intro) x; have ht := (fun _ : Nat => True.intro) t; (repeat' split) <;> fin_chg x t)
  | shFetch =>
    simp only [stepAt] at h; (repeat' split at h) <;> (try cases h)
    · intro x; have hx := (fun _ : Nat => True.intro) x; ((try simp) <;> (try grind))
    · intro x; have hx := (fun _ : Nat => True.intro) x; ((try simp) <;> (try grind))
    · rename_i t hf; have hf2 := fetchRes_run hf; intro x; have hx := (fun _ : Nat => True.intro) x; have ht := (fun _ : Nat => True.intro) t; fin_chg x t
    · rename_i t hf; have hf2 := fetchRes_asap hf; intro x; have hx := (fun _ : Nat => True.intro) x; have ht := (fun _ : Nat => True.intro) t; fin_chg x t

theorem canceled_mono {s s' : St} {a : Act}  (h : stepAt s a = some s') : ∀ x, (s.tasks x).canceled = true → (s'.tasks x).canceled = true := by
  cases a with
  | newInert t => simp only [stepAt] at h; cases h; intro x; have hx := (fun _ : Nat => True.intro) x; have ht := (fun _ : Nat => True.intro) t; fin_chg x t
  | queue t => simp only [stepAt] at h; cases h; intro x; have hx := (fun _ : Nat => True.intro) x; have ht := (fun _ : Nat => True.intro) t; simp only [doQueue]; (repeat' split) <;> fin_chg x t
  | queueP t => simp only [stepAt] at h; cases h; intro x; have hx := (fun _ : Nat => True.intro) x; have ht := (fun _ : Nat => True.intro) t; simp only [doQueueP]; (repeat' split) <;> fin_chg x t
  | asap t b =>
    simp only [stepAt] at h; split at h
    · cases h
    · cases h; intro x; have hx := (fun _ : Nat => True.intro) x; have ht := (fun _ : Nat => True.intro) t; simp only [doAsap]; (repeat' split) <;> fin_chg x t
  | maxDelay t d => simp only [stepAt] at h; cases h; intro x; have hx := (fun _ : Nat => True.intro) x; have ht := (fun _ : Nat => True.intro) t; fin_chg x t
  | schedule t tm => simp only [stepAt] at h; cases h; intro x; have hx := (fun _ : Nat => True.intro) x; have ht := (fun _ : Nat => True.intro) t; simp only [doSchedule]; (repeat' split) <;> fin_chg x t
  | cancel t => simp only [stepAt] at h; cases h; intro x; have hx := (fun _ : Nat => True.intro) x; have ht := (fun _ : Nat => True.intro) t; simp only [doCancel]; fin_chg x t
  | qhWait =>
    simp only [stepAt] at h; split at h
    · cases h
    · cases h; intro x; have hx := (fun _ : Nat => True.intro) x; ((try simp) <;> (try grind))
  | qhPop =>
    simp only [stepAt] at h; (repeat' split at h) <;> cases h <;> intro x <;> have hx := (fun _ : Nat => True.intro) x <;> ((try simp) <;> (try grind))
  | runQ =>
    simp only [stepAt] at h; split at h
    · rename_i t hq
      cases h; intro x; have hx := (fun _ : Nat => True.intro) x; have ht := (fun _ : Nat => True.intro) t
      simp only [runSection, runResOf]; (repeat' split) <;> fin_chg x t
    · cases h
  | runS =>
    simp only [stepAt] at h; split at h
    · rename_i t hq
      cases h; intro x; have hx := (fun _ : Nat => True.intro) x; have ht := (fun _ : Nat => True.intro) t
      simp only [runSection, runResOf]; (repeat' split) <;> fin_chg x t
    · cases h
  | spawnQ =>
    simp only [stepAt] at h; split at h
    · rename_i t hq
      cases h; intro x; have hx := (fun _ : Nat => True.intro) x; have ht := (fun _ : Nat => True.intro) t; fin_chg x t
    · cases h
  | spawnS =>
    simp only [stepAt] at h; split at h
    · rename_i t hq
      cases h; intro x; have hx := (fun _ : Nat => True.intro) x; have ht := (fun _ : Nat => True.intro) t; fin_chg x t
    · cases h
  | fnBegin t =>
    simp only [stepAt] at h; split at h
    · cases h
    · cases h; intro x; have hx := (fun _ : Nat => True.intro) x; have ht := (fun _ : Nat => True.intro) t; fin_chg x t
  | fnEnd t =>
    simp only [stepAt] at h; split at h
    · cases h
    · cases h; intro x; have hx := (fun _ : Nat => True.intro) x; have ht := (fun _ : Nat => True.intro) t; fin_chg x t
  | finish t =>
    simp only [stepAt] at h; split at h
    · cases h
    · cases h; intro x; have hx := (fun _ : Nat => True.intro) x; have ht := (fun _ : Nat => True.intro) t; fin_chg x t
  | slotFree t b =>
    simp only [stepAt] at h; (repeat' split at h) <;> (try cases h)
    all_goals (intro x; have hx := (fun _ : Nat => True.intro) x; have ht := (fun _ : Nat => True.intro) t; (repeat' split) <;> fin_chg x t)
  | shFetch =>
    simp only [stepAt] at h; (repeat' split at h) <;> (try cases h)
    · intro x; have hx := (fun _ : Nat => True.intro) x; ((try simp) <;> (try grind))
    · intro x; have hx := (fun _ : Nat => True.intro) x; ((try simp) <;> (try grind))
    · rename_i t hf; have hf2 := fetchRes_run hf; intro x; have hx := (fun _ : Nat => True.intro) x; have ht := (fun _ : Nat => True.intro) t; fin_chg x t
    · rename_i t hf; have hf2 := fetchRes_asap hf; intro x; have hx := (fun _ : Nat => True.intro) x; have ht := (fun _ : Nat => True.intro) t; fin_chg x t

theorem dropped_change {s s' : St} {a : Act}  (h : stepAt s a = some s') : ∀ x, (s'.tasks x).dropped = true → (s.tasks x).dropped = true ∨ Drops s a x := by
  cases a with
  | newInert t => simp only [stepAt] at h; cases h; intro x; have hx := (fun _ : Nat => True.intro) x; have ht := (fun _ : Nat => True.intro) t; fin_chg x t
  | queue t => simp only [stepAt] at h; cases h; intro x; have hx := (fun _ : Nat => True.intro) x; have ht := (fun _ : Nat => True.intro) t; simp only [doQueue]; (repeat' split) <;> fin_chg x t
  | queueP t => simp only [stepAt] at h; cases h; intro x; have hx := (fun _ : Nat => True.intro) x; have ht := (fun _ : Nat => True.intro) t; simp only [doQueueP]; (repeat' split) <;> fin_chg x t
  | asap t b =>
    simp only [stepAt] at h; split at h
    · cases h
    · cases h; intro x; have hx := (fun _ : Nat => True.intro) x; have ht := (fun _ : Nat => True.intro) t; simp only [doAsap]; (repeat' split) <;> fin_chg x t
  | maxDelay t d => simp only [stepAt] at h; cases h; intro x; have hx := (fun _ : Nat => True.intro) x; have ht := (fun _ : Nat => True.intro) t; fin_chg x t
  | schedule t tm => simp only [stepAt] at h; cases h; intro x; have hx := (fun _ : Nat => True.intro) x; have ht := (fun _ : Nat => True.intro) t; simp only [doSchedule]; (repeat' split) <;> fin_chg x t
  | cancel t => simp only [stepAt] at h; cases h; intro x; have hx := (fun _ : Nat => True.intro) x; have ht := (fun _ : Nat => True.intro) t; simp only [doCancel]; fin_chg x t
  | qhWait =>
    simp only [stepAt] at h; split at h
    · cases h
    · cases h; intro x; have hx := (fun _ : Nat => True.intro) x; ((try simp) <;> (try grind))
  | qhPop =>
    simp only [stepAt] at h; (repeat' split at h) <;> cases h <;> intro x <;> have hx := (fun _ : Nat => True.intro) x <;> ((try simp) <;> (try grind))
  | runQ =>
    simp only [stepAt] at h; split at h
    · rename_i t hq
      cases h; intro x; have hx := (fun _ : Nat => True.intro) x; have ht := (fun _ : Nat => True.intro) t
      simp only [runSection, runResOf]; (repeat' split) <;> fin_chg x t
    · cases h
  | runS =>
    simp only [stepAt] at h; split at h
    · rename_i t hq
      cases h; intro x; have hx := (fun _ : Nat => True.intro) x; have ht := (fun _ : Nat => True.intro) t
      simp only [runSection, runResOf]; (repeat' split) <;> fin_chg x t
    · cases h
  | spawnQ =>
    simp only [stepAt] at h; split at h
    · rename_i t hq
      cases h; intro x; have hx := (fun _ : Nat => True.intro) x; have ht := (fun _ : Nat => True.intro) t; fin_chg x t
    · cases h
  | spawnS =>
    simp only [stepAt] at h; split at h
    · rename_i t hq
      cases h; intro x; have hx := (fun _ : Nat => True.intro) x; have ht := (fun _ : Nat => True.intro) t; fin_chg x t
    · cases h
  | fnBegin t =>
    simp only [stepAt] at h; split at h
    · cases h
    · cases h; intro x; have hx := (fun _ : Nat => True.intro) x; have ht := (fun _ : Nat => True.intro) t; fin_chg x t
  | fnEnd t =>
    simp only [stepAt] at h; split at h
    · cases h
    · cases h; intro x; have hx := (fun _ : Nat => True.intro) x; have ht := (fun _ : Nat => True.intro) t; fin_chg x t
  | finish t =>
    simp only [stepAt] at h; split at h
    · cases h
    · cases h; intro x; have hx := (fun _ : Nat => True.intro) x; have ht := (fun _ : Nat => True.intro) t; fin_chg x t
  | slotFree t b =>
    simp only [stepAt] at h; (repeat' split at h) <;> (try cases h)
    all_goals (intro x; have hx := (fun _ : Nat => True.intro) x; have ht := (fun _ : Nat => True.intro) t; (repeat' split) <;> fin_chg x t)
  | shFetch =>
    simp only [stepAt] at h; (repeat' split at h) <;> (try cases h)
    · intro x; have hx := (fun _ : Nat => True.intro) x; ((try simp) <;> (try grind))
    · intro x; have hx := (fun _ : Nat => True.intro) x; ((try simp) <;> (try grind))
    · rename_i t hf; have hf2 := fetchRes_run hf; intro x; have hx := (fun _ : Nat => True.intro) x; have ht := (fun _ : Nat => True.intro) t; fin_chg x t
    · rename_i t hf; have hf2 := fetchRes_asap hf; intro x; have hx := (fun _ : Nat => True.intro) x; have ht := (fun _ : Nat => True.intro) t; fin_chg x t

theorem doAsap_prio (s : St) (t : Nat) (b : Bool) (hact : (s.tasks t).canceled = false) :
    (doAsap s t b).prio =
      if (s.tasks t).inP = false then t :: s.prio
      else if t ∈ s.prio then t :: s.prio.erase t else s.prio := by
  cases b <;> simp [doAsap, Task.active, hact] <;> (repeat' split) <;> simp_all [setTask]

theorem reachable_runTrace {s s' : St} (tr : List (Nat × Act)) (hr : Reachable s) (h : runTrace s tr = some s') :
    Reachable s' := by
  induction tr generalizing s with
  | nil => simp [runTrace] at h; subst h; exact hr
  | cons e rest ih =>
    obtain ⟨n, a⟩ := e
    simp only [runTrace] at h
    split at h
    · cases h
    · rename_i s1 hs1; exact ih (Reachable.step n a hr hs1) h

end PB.Tasks
