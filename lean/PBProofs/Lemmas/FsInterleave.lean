import PB.Model.FsInterleave
import PB.Spec.FsCrash
/- Interleavings of two writers: completeness of the enumeration and the kernel exploration of two renameio writers. -/
namespace PB.FsAtomic

theorem interleavings_nil_right (a : List Call) : interleavings a [] = [a] := by
  cases a <;> rfl

theorem interleavings_cons_cons (x y : Call) (a b : List Call) :
    interleavings (x :: a) (y :: b) = (interleavings a (y :: b)).map (x :: ·) ++ (interleavings (x :: a) b).map (y :: ·) := by
  rfl

/-- `interleavings` is complete for `Interleave`. -/
theorem interleave_mem {a b t : List Call} (h : Interleave a b t) : t ∈ interleavings a b := by
  induction h with
  | nil => simp [interleavings]
  | @left c a b t _ ih =>
    cases b with
    | nil => rw [interleavings_nil_right] at ih ⊢; simp at ih ⊢; exact ih
    | cons y b' => rw [interleavings_cons_cons]; exact List.mem_append_left _ (List.mem_map.2 ⟨t, ih, rfl⟩)
  | @right c a b t _ ih =>
    cases a with
    | nil => simp only [interleavings] at ih ⊢; simp at ih ⊢; exact ih
    | cons x a' => rw [interleavings_cons_cons]; exact List.mem_append_right _ (List.mem_map.2 ⟨t, ih, rfl⟩)

def tmpF2 : Path := ["R", "tmp", ".f#2"]

def oneChunk : List Seg := [⟨1, 0, 5000⟩]

/-- all 924 interleavings of two renameio publish sequences with private temp files, destination absent -/
theorem renameio_pair_explored_absent :
    (interleavings (publishSeq tmpF destF 6 0o644 oneChunk) (publishSeq tmpF2 destF 7 0o600 oneChunk)).all
      (fun t => safePublish (baseFS none) destF (baseOld none) (some (.file (written oneChunk), [])) t) = true := by
  decide +kernel

/-- … destination holding a previous (durable) file -/
theorem renameio_pair_explored_file :
    (interleavings (publishSeq tmpF destF 6 0o644 oneChunk) (publishSeq tmpF2 destF 7 0o600 oneChunk)).all
      (fun t => safePublish (baseFS (some ([⟨0, 0, 100⟩], 0o644))) destF (baseOld (some ([⟨0, 0, 100⟩], 0o644)))
        (some (.file (written oneChunk), [])) t) = true := by
  decide +kernel

end PB.FsAtomic
