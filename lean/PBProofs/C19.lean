import PB.Model.Updater
import PB.Gen.Updater
namespace PB.C19
open PB PB.Updater

theorem regex_literals :
    PB.Gen.Updater.fileVersionRegex = "_v[0-9]+-[0-9]+-[0-9]+(-[a-z]+)?" ∧
    PB.Gen.Updater.rawVersionRegex = "^[0-9]+\\.[0-9]+\\.[0-9]+(-[a-z]+)?$" := by decide

end PB.C19
