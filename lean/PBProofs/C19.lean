import PBProofs.Lemmas.Updater
import PBProofs.Lemmas.UpdaterNames
import PBProofs.Lemmas.UpdaterHistory
import PB.Gen.Updater
/-
C19 — The updater selects the prescribed version and never purges what is needed.
Property theorems only (helper lemmas live in PBProofs/Lemmas/Updater.lean; the declarative
selection order is PB/Spec/Updater.lean).
-/
namespace PB.C19
open PB PB.Updater PB.Updater.Spec

/-! ### "Newest" is well defined -/

/-- The order on version numbers (go-version's `Compare` on `x.y.z(-alpha)`) is a strict total order:
    irreflexive, transitive, and two versions neither of which is older are equal. -/
theorem version_order_strict_total (a b c : Ver) :
    a.lt a = false ∧ (a.lt b = true → b.lt c = true → a.lt c = true) ∧ (a.lt b = false → b.lt a = false → a = b) :=
  ⟨Ver.lt_irrefl a, Ver.lt_trans a b c, Ver.lt_total a b⟩

/-! ### Selection = the documented order -/

/-- `selectVersion` (sort newest first, then the cascade) selects a version the documented order prescribes,
    for every list of versions with pairwise different version numbers, all flags and every index setting;
    it selects nothing only when there are no versions. -/
theorem select_prescribed (fl : Flags) (r : Res) (hn : VerNodup r.versions) :
    match (r.selectVersion fl).selected with
    | none => r.versions = []
    | some v => ∃ rv, rv ∈ r.versions ∧ rv.ver = v ∧ Prescribed fl r.index r.versions rv := by
  simp only [Res.selectVersion]
  cases h : selectFrom fl r.index (sortDesc r.versions) with
  | none =>
    have := selectFrom_nil_iff.mp h
    have hp := (sortDesc_perm r.versions).length_eq
    simp only [Option.map_none]
    cases hv : r.versions with
    | nil => rfl
    | cons a t => rw [hv] at hp this; simp [this] at hp
  | some rv =>
    simp only [Option.map_some]
    have hm := fun x => (mem_sortDesc (l := r.versions) (x := x))
    exact ⟨rv, (hm rv).mp (selectFrom_mem h), rfl,
      prescribed_congr hm (selectFrom_prescribed_sorted (sortDesc_sorted _) (verNodup_sortDesc hn) h)⟩

/-- The documented order determines the version: the specification is a function of the *set* of versions. -/
theorem prescribed_unique (fl : Flags) (idx : Option Bool) (vs : List RV) (hn : VerNodup vs) (a b : RV)
    (ha : Prescribed fl idx vs a) (hb : Prescribed fl idx vs b) : a = b :=
  prescribed_unique_aux hn ha hb

/-- The result does not depend on how `sort.Sort` orders the slice: the cascade applied to *any* newest-first
    arrangement of the same versions picks the same version (covers unstable sorting algorithms). -/
theorem select_sort_independent (fl : Flags) (idx : Option Bool) (vs s s' : List RV) (hn : VerNodup vs)
    (hp : s.Perm vs) (hs : Sorted s) (hp' : s'.Perm vs) (hs' : Sorted s') :
    selectFrom fl idx s = selectFrom fl idx s' := by
  cases h : selectFrom fl idx s with
  | none =>
    have := selectFrom_nil_iff.mp h
    subst this
    have : s' = [] := by
      have := (hp'.trans hp.symm).length_eq
      cases s' with
      | nil => rfl
      | cons a t => simp at this
    subst this
    simp [selectFrom]
  | some a =>
    cases h' : selectFrom fl idx s' with
    | none =>
      have := selectFrom_nil_iff.mp h'
      subst this
      have := (hp.trans hp'.symm).length_eq
      cases s with
      | nil => simp [selectFrom] at h
      | cons a t => simp at this
    | some b =>
      have ha := prescribed_congr (fun x => hp.mem_iff) (selectFrom_prescribed_sorted hs (hn.perm hp.symm) h)
      have hb := prescribed_congr (fun x => hp'.mem_iff) (selectFrom_prescribed_sorted hs' (hn.perm hp'.symm) h')
      rw [prescribed_unique_aux hn ha hb]

/-- Outside dev mode a blacklisted version is prescribed (hence selected) only as the last resort:
    the current release is not selectable, nothing selectable qualifies in steps 3 and 4, and it is the newest version. -/
theorem blacklisted_only_as_last_resort (fl : Flags) (idx : Option Bool) (vs : List RV) (rv : RV)
    (hdev : fl.dev = false) (h : Prescribed fl idx vs rv) (hbl : rv.bl = true) :
    LastResort fl idx vs ∧ Newest (fun _ => True) vs rv := by
  cases h with
  | dev h1 => simp [hdev] at h1
  | current _ _ h3 => have := selectable_not_bl h3; simp [hbl] at this
  | newestSelectable _ _ _ h4 => have := selectable_not_bl h4.2.1; simp [hbl] at this
  | newestStable _ _ _ h4 => have := selectable_not_bl h4.2.1.2; simp [hbl] at this
  | fallback _ h2 h3 h4 h5 => exact ⟨⟨h2, h3, h4⟩, h5⟩

/-! ### Purge -/

/-- Purge neither removes a file of the active version, the selected version or the newest stable version,
    nor drops such a version from the list — for every `keep`, all flags, every order of the list. -/
theorem purge_keeps_required (r : Res) (keep : Int) (hn : VerNodup r.versions) (v : Ver) (hreq : Required r v) :
    (∀ k, (v, k) ∈ r.disk → (v, k) ∈ (r.purge keep).disk) ∧
    (∀ rv ∈ r.versions, rv.ver = v → rv ∈ (r.purge keep).versions) := by
  rcases purge_shape r keep with ⟨l', hp, he⟩ | ⟨i, hi, hlt, he⟩
  · rw [he]; exact ⟨fun k h => h, fun rv h _ => hp.mem_iff.mpr h⟩
  · rw [he]
    constructor
    · intro k hk
      refine mem_purge_disk.mpr ⟨hk, ?_⟩
      intro g hg _ hgv
      have h1 := required_before_boundary hn hi hreq (List.mem_of_mem_drop hg) hgv
      exact verNodup_cut (verNodup_sortDesc hn) _ (mem_take_mono (keepOf keep) h1) hg rfl
    · intro rv hrv hrvv
      exact mem_take_mono (keepOf keep) (required_before_boundary hn hi hreq (mem_sortDesc.mpr hrv) hrvv)

/-- Whenever Purge removes anything (an entry or a file), at least `max keep 2` *further* versions — none of them
    active, selected or the newest stable one — stay listed (and, by `purge_removes_only_unlisted`, keep their files). -/
theorem purge_keeps_further (r : Res) (keep : Int) (hn : VerNodup r.versions)
    (hpurged : (r.purge keep).versions.length ≠ r.versions.length ∨ (r.purge keep).disk ≠ r.disk) :
    ∃ further : List RV, further.length = keepOf keep ∧ 2 ≤ keepOf keep ∧ (keep ≥ 2 → keepOf keep = keep.toNat) ∧
      further.Sublist (r.purge keep).versions ∧ ∀ e ∈ further, ¬Required r e.ver := by
  rcases purge_shape r keep with ⟨l', hp, he⟩ | ⟨i, hi, hlt, he⟩
  · rw [he] at hpurged
    rcases hpurged with h | h
    · exact absurd hp.length_eq h
    · exact absurd rfl h
  · rw [he]
    refine ⟨((sortDesc r.versions).take (i + keepOf keep)).drop i, ?_, ?_, ?_, List.drop_sublist _ _, ?_⟩
    · simp only [List.length_drop, List.length_take]; omega
    · unfold keepOf; split <;> omega
    · intro h; unfold keepOf; split <;> omega
    · intro e he hreq
      have he' : e ∈ (sortDesc r.versions).drop i := by
        rw [List.drop_take] at he
        exact List.mem_of_mem_take he
      have h1 := required_before_boundary hn hi hreq (List.mem_of_mem_drop he') rfl
      exact verNodup_cut (verNodup_sortDesc hn) i h1 he' rfl

/-- Purge removes only files of versions it also drops from the list; it never adds files or entries and leaves
    the selected and active version untouched. -/
theorem purge_removes_only_unlisted (r : Res) (keep : Int) (hn : VerNodup r.versions) :
    (∀ rv ∈ (r.purge keep).versions, ∀ k, (rv.ver, k) ∈ r.disk → (rv.ver, k) ∈ (r.purge keep).disk) ∧
    (∀ rv ∈ (r.purge keep).versions, rv ∈ r.versions) ∧
    (∀ fk ∈ (r.purge keep).disk, fk ∈ r.disk) ∧
    (r.purge keep).selected = r.selected ∧ (r.purge keep).active = r.active := by
  rcases purge_shape r keep with ⟨l', hp, he⟩ | ⟨i, hi, hlt, he⟩
  · rw [he]; exact ⟨fun _ _ _ h => h, fun rv h => hp.mem_iff.mp h, fun _ h => h, rfl, rfl⟩
  · rw [he]
    refine ⟨?_, fun rv h => mem_sortDesc.mp (List.mem_of_mem_take h), fun fk h => (mem_purge_disk.mp h).1, rfl, rfl⟩
    intro rv hrv k hk
    refine mem_purge_disk.mpr ⟨hk, ?_⟩
    intro g hg _ hgv
    exact verNodup_cut (verNodup_sortDesc hn) _ hrv hg hgv.symm

/-- After a purge the resource lists as available only versions whose file is on disk
    (if that was the case before: Purge itself never breaks it). -/
theorem purge_listing_sound (r : Res) (keep : Int) (hn : VerNodup r.versions) (h : ListingSound r) :
    ListingSound (r.purge keep) := by
  intro rv hrv ha
  have hp := purge_removes_only_unlisted r keep hn
  exact hp.1 rv hrv 0 (h rv (hp.2.1 rv hrv) ha)

/-- Everything Purge drops is older than everything it keeps. -/
theorem purge_drops_only_older (r : Res) (keep : Int) (hn : VerNodup r.versions) (g e : RV)
    (hg : g ∈ r.versions) (hgone : g ∉ (r.purge keep).versions) (he : e ∈ (r.purge keep).versions) :
    g.ver.lt e.ver = true := by
  rcases purge_shape r keep with ⟨l', hp, hpe⟩ | ⟨i, hi, hlt, hpe⟩
  · rw [hpe] at hgone; exact absurd (hp.mem_iff.mpr hg) hgone
  · rw [hpe] at hgone he
    have hgs : g ∈ (sortDesc r.versions).take (i + keepOf keep) ++ (sortDesc r.versions).drop (i + keepOf keep) := by
      rw [List.take_append_drop]; exact mem_sortDesc.mpr hg
    rcases List.mem_append.mp hgs with h | h
    · exact absurd h hgone
    · have h1 := sorted_cut (sortDesc_sorted r.versions) _ he h
      have h2 := verNodup_cut (verNodup_sortDesc hn) _ he h
      cases hlt' : g.ver.lt e.ver
      · exact absurd (Ver.lt_total _ _ h1 hlt') h2
      · rfl

/-- While any version is blacklisted, Purge does nothing at all. -/
theorem purge_paused_by_blacklist (r : Res) (keep : Int) (rv : RV) (hrv : rv ∈ r.versions) (hbl : rv.bl = true) :
    r.purge keep = r := by
  unfold Res.purge
  have : r.versions.any (·.bl) = true := List.any_eq_true.mpr ⟨rv, hrv, hbl⟩
  simp [this]

/-! ### Blacklist -/

/-- The last non-blacklisted version cannot be blacklisted: `Blacklist` succeeds only if at least two
    non-blacklisted (non-dev) versions exist, at least one is left afterwards, a refusal changes nothing, and a
    resource that has a non-blacklisted version always keeps one. -/
theorem cannot_blacklist_last (fl : Flags) (r : Res) (version : Str) :
    ((r.blacklist fl version).2 = none →
      2 ≤ validCount r.versions ∧ 1 ≤ validCount (r.blacklist fl version).1.versions) ∧
    (validCount r.versions ≤ 1 → (r.blacklist fl version).2 = some .last) ∧
    ((r.blacklist fl version).2 ≠ none → (r.blacklist fl version).1 = r) ∧
    (1 ≤ nonBl r.versions → 1 ≤ nonBl (r.blacklist fl version).1.versions) := by
  unfold Res.blacklist
  split
  · rename_i h
    exact ⟨fun h' => absurd h' (by simp), fun _ => rfl, fun _ => rfl, fun h' => h'⟩
  · rename_i h
    split
    · have h1 := validCount_updateFirst_bl (fun rv => rv.ver.str == version) r.versions
      have h2 := validCount_perm (sortDesc_perm (updateFirst (fun rv => rv.ver.str == version)
        (fun rv => { rv with bl := true }) r.versions))
      have h3 := validCount_le_nonBl (sortDesc (updateFirst (fun rv => rv.ver.str == version)
        (fun rv => { rv with bl := true }) r.versions))
      simp only [Res.selectVersion]
      refine ⟨fun _ => ⟨by omega, by omega⟩, fun h' => by omega, fun h' => absurd rfl h', fun _ => by omega⟩
    · exact ⟨fun h' => absurd h' (by simp), fun h' => by omega, fun _ => rfl, fun h' => h'⟩

/-- A successful `Blacklist` marks the named version and re-selects: the new selection is again the one the
    documented order prescribes (now with that version blacklisted). -/
theorem blacklist_reselects (fl : Flags) (r : Res) (version : Str) (hn : VerNodup r.versions)
    (hok : (r.blacklist fl version).2 = none) :
    (∃ rv ∈ (r.blacklist fl version).1.versions, rv.bl = true ∧ rv.ver.str = version) ∧
    ∃ v rv, (r.blacklist fl version).1.selected = some v ∧ rv ∈ (r.blacklist fl version).1.versions ∧ rv.ver = v ∧
      Prescribed fl (r.blacklist fl version).1.index (r.blacklist fl version).1.versions rv := by
  obtain ⟨hany, hshape⟩ := blacklist_ok_shape hok
  rw [hshape]
  generalize hu : updateFirst (fun rv => rv.ver.str == version) (fun rv => { rv with bl := true }) r.versions = upd
  have hm := updateFirst_map_ver (p := fun rv => rv.ver.str == version) (f := fun rv => { rv with bl := true })
    (fun _ => rfl) r.versions
  rw [hu] at hm
  have hnu : VerNodup upd := verNodup_of_map_eq hm hn
  constructor
  · obtain ⟨rv, hrv, h1, h2⟩ := updateFirst_bl_mem r.versions hany
    rw [hu] at hrv
    exact ⟨rv, mem_sortDesc.mpr hrv, h1, h2⟩
  · have hsel := select_prescribed fl { r with versions := upd } hnu
    simp only [Res.selectVersion] at hsel ⊢
    cases hc : selectFrom fl r.index (sortDesc upd) with
    | none =>
      simp only [hc, Option.map_none] at hsel
      subst hsel
      cases hr : r.versions with
      | nil => rw [hr] at hany; simp at hany
      | cons a t => rw [hr] at hu; unfold updateFirst at hu; split at hu <;> cases hu
    | some rv =>
      simp only [hc, Option.map_some] at hsel ⊢
      obtain ⟨rv', hm', hv', hp'⟩ := hsel
      exact ⟨rv.ver, rv', rfl, mem_sortDesc.mpr hm', hv', prescribed_congr (fun x => mem_sortDesc.symm) hp'⟩

/-! ### GetFile -/

/-- `GetFile` hands out exactly the selected version (selecting first if nothing is selected yet), under its
    versioned path, marks it active and its file is on disk; the only refusal is "not available locally" when the
    registry is offline. -/
theorem getFile_hands_out_selected (fl : Flags) (id : Str) (r : Res) (hinv : ResInv r) (hne : r.versions ≠ []) :
    match (r.getFile fl id).2 with
    | .file v p => (r.getFile fl id).1.selected = some v ∧ (r.getFile fl id).1.active = some v ∧
        (v, 0) ∈ (r.getFile fl id).1.disk ∧ p = getVersionedPath id v.str ∧
        (r.selected = none → ∃ rv ∈ r.versions, rv.ver = v ∧ Prescribed fl r.index r.versions rv)
    | .errNotLocal => fl.online = false ∧ (r.getFile fl id).1.active = r.active
    | _ => False := by
  unfold Res.getFile
  simp only []
  have hsp := select_prescribed fl r hinv.1
  generalize hg : (if r.selected.isNone then r.selectVersion fl else r) = r1
  have h1 : ResInv r1 := by
    subst hg; split
    · exact selectVersion_inv hinv
    · exact hinv
  have hact : r1.active = r.active := by subst hg; split <;> rfl
  have hsel1 : ∀ v, r1.selected = some v → r.selected = none → ∃ rv ∈ r.versions, rv.ver = v ∧ Prescribed fl r.index r.versions rv := by
    intro v hv hnone
    subst hg
    simp only [hnone, Option.isNone_none, if_true] at hv
    rw [hv] at hsp
    exact hsp
  have hsome : r1.selected ≠ none := by
    subst hg
    split
    · intro hnone
      rw [hnone] at hsp
      exact hne hsp
    · rename_i h; simpa using h
  cases hsel : r1.selected with
  | none => exact absurd hsel hsome
  | some v =>
    simp only []
    obtain ⟨rv, hrv, hrvv⟩ := h1.2.1 v hsel
    cases hf : r1.versions.find? (fun rv => rv.ver == v) with
    | none =>
      have := List.find?_eq_none.mp hf rv hrv
      simp [hrvv] at this
    | some rv' =>
      simp only []
      have hmem := List.mem_of_find?_eq_some hf
      have hver : rv'.ver = v := by have := List.find?_some hf; simpa using this
      have hdisk : rv'.avail = true → (v, 0) ∈ r1.disk := fun ha => hver ▸ h1.2.2.2 rv' hmem ha
      cases ha : rv'.avail with
      | true =>
        simp only [if_true]
        exact ⟨trivial, trivial, hdisk ha, trivial, hsel1 v hsel⟩
      | false =>
        cases hon : fl.online with
        | false =>
          simp only [Bool.false_eq_true, if_false, Bool.not_false, if_true]
          exact ⟨trivial, hact⟩
        | true =>
          simp only [Bool.false_eq_true, if_false, Bool.not_true]
          exact ⟨trivial, trivial, mem_diskAdd.mpr (Or.inl rfl), trivial, hsel1 v hsel⟩

/-! ### Every history -/

/-- In every state reachable by any sequence of API calls, for every resource: version numbers are a key of
    `Versions` (so the hypotheses `VerNodup` above always hold), the selected and the active version are listed,
    and every version listed as available has its file on disk. -/
theorem reachable_inv (ops : List Op) : ∀ p ∈ (run {} ops).res, ResInv p.2 :=
  run_inv ops {} stInv_init

/-- In every reachable state at most one version of a resource is flagged as the current release: "the current
    release" of the documented order is well defined (`Newest cur` in `Prescribed.current` is *the* flagged entry). -/
theorem reachable_one_current_release (ops : List Op) :
    ∀ p ∈ (run {} ops).res, ∀ a ∈ p.2.versions, ∀ b ∈ p.2.versions, a.cur = true → b.cur = true → a = b := by
  intro p hp a ha b hb hac hbc
  have h1 := run_all oneCurrent_preserved ops {} (stAll_init _) p hp
  exact (reachable_inv ops p hp).1.eq_of_ver ha hb (h1 a ha b hb hac hbc)

/-- **The flags say what the history announced.** In the state after any history, for every resource: an entry is
    flagged `CurrentRelease` iff it is the version most recently announced as the current release of that resource
    (`Spec.currentRelease`, read off the calls, never off the flags), and that version is listed. In particular a
    current release that moves back to an already known, older version (a pulled release) takes the flag with it. -/
theorem history_current_release (ops : List Op) :
    ∀ p ∈ (run {} ops).res,
      (∀ rv ∈ p.2.versions, (rv.cur = true ↔ currentRelease p.1 ops = some rv.ver)) ∧
      (∀ v, currentRelease p.1 ops = some v → ∃ rv ∈ p.2.versions, rv.ver = v) := by
  intro p hp
  have h := run_curInv p.1 ops
  unfold CurInv at h
  rw [St.get_of_mem (run_ids ops {} idsNodup_init) hp] at h
  exact h

/-- The current release of a history is the version named by the last announcement for the resource — read off the
    call arguments alone (`Spec.lastAnnounced`) — or nothing, when a `Purge` has dropped that version from the
    resource since; in a history without `Purge` it is exactly the version announced last. -/
theorem current_release_last_announced (id : Str) (ops : List Op) :
    (currentRelease id ops = none ∨ currentRelease id ops = lastAnnounced id ops) ∧
    ((∀ o ∈ ops, ∀ k, o ≠ .purge k) → currentRelease id ops = lastAnnounced id ops) :=
  ⟨runCur_lastAnnounced id ops {} none none (Or.inl rfl), fun h => runCur_lastAnnounced_nopurge id ops {} none h⟩

/-- In every reachable state the documented order read against the `CurrentRelease` flags (`Prescribed`, what the
    per-resource theorems above are stated with) and read against the history of announcements (`PrescribedH`)
    prescribe the same versions — for all registry flags and index settings. -/
theorem history_orders_agree (ops : List Op) :
    ∀ p ∈ (run {} ops).res, ∀ fl idx rv,
      Prescribed fl idx p.2.versions rv ↔ PrescribedH (currentRelease p.1 ops) fl idx p.2.versions rv :=
  fun p hp _ _ rv => prescribed_iff_H (history_current_release ops p hp).1 rv

/-- After `SelectVersions` in any reachable state, every resource has selected the version the documented order
    prescribes for its versions, its index and the current registry flags (the current release being the flagged entry). -/
theorem history_select_prescribed_flags (ops : List Op) :
    ∀ p ∈ (step (run {} ops) .select).1.res,
      match p.2.selected with
      | none => p.2.versions = []
      | some v => ∃ rv ∈ p.2.versions, rv.ver = v ∧ Prescribed (run {} ops).fl p.2.index p.2.versions rv := by
  intro p hp
  simp only [step, St.mapRes] at hp
  obtain ⟨q, hq, rfl⟩ := List.mem_map.mp hp
  have hinv := reachable_inv ops q hq
  have := select_prescribed (run {} ops).fl q.2 hinv.1
  simp only []
  cases hs : (q.2.selectVersion (run {} ops).fl).selected with
  | none =>
    rw [hs] at this
    simp only [Res.selectVersion, this, sortDesc]
  | some v =>
    rw [hs] at this
    obtain ⟨rv, hm, hv, hpr⟩ := this
    exact ⟨rv, mem_sortDesc.mpr hm, hv, prescribed_congr (fun x => mem_sortDesc.symm) hpr⟩

/-- After `SelectVersions` at the end of **any history**, every resource has selected the version the documented order
    prescribes, where "the current release" is the version the history announced last for that resource
    (`Spec.currentRelease`) — not "some entry whose flag happens to be set". -/
theorem history_select_prescribed (ops : List Op) :
    ∀ p ∈ (step (run {} ops) .select).1.res,
      match p.2.selected with
      | none => p.2.versions = []
      | some v => ∃ rv ∈ p.2.versions, rv.ver = v ∧
          PrescribedH (currentRelease p.1 ops) (run {} ops).fl p.2.index p.2.versions rv := by
  intro p hp
  have hf := history_select_prescribed_flags ops p hp
  simp only [step, St.mapRes] at hp
  obtain ⟨q, hq, rfl⟩ := List.mem_map.mp hp
  have hc := (history_current_release ops q hq).1
  have hc' : ∀ rv ∈ (q.2.selectVersion (run {} ops).fl).versions,
      (rv.cur = true ↔ currentRelease q.1 ops = some rv.ver) := fun rv hrv => hc rv (mem_sortDesc.mp hrv)
  simp only [] at hf ⊢
  cases hs : (q.2.selectVersion (run {} ops).fl).selected with
  | none => rw [hs] at hf; exact hf
  | some v =>
    rw [hs] at hf
    obtain ⟨rv, hm, hv, hpr⟩ := hf
    exact ⟨rv, hm, hv, (prescribed_iff_H hc' rv).mp hpr⟩

/-- `Purge(keep)` in any reachable state, for every resource: no file of a required version is removed and no
    required version unlisted; if anything is purged at least `max keep 2` further versions stay; files are removed
    only for versions that are unlisted; afterwards the resource lists as available only versions whose files exist. -/
theorem history_purge_safe (ops : List Op) (keep : Int) :
    ∀ q ∈ (run {} ops).res,
      (q.1, q.2.purge keep) ∈ (step (run {} ops) (.purge keep)).1.res ∧
      (∀ v, Required q.2 v → (∀ k, (v, k) ∈ q.2.disk → (v, k) ∈ (q.2.purge keep).disk) ∧
        ∀ rv ∈ q.2.versions, rv.ver = v → rv ∈ (q.2.purge keep).versions) ∧
      (((q.2.purge keep).versions.length ≠ q.2.versions.length ∨ (q.2.purge keep).disk ≠ q.2.disk) →
        ∃ further : List RV, further.length = keepOf keep ∧ 2 ≤ keepOf keep ∧ further.Sublist (q.2.purge keep).versions ∧
          ∀ e ∈ further, ¬Required q.2 e.ver) ∧
      (∀ rv ∈ (q.2.purge keep).versions, ∀ k, (rv.ver, k) ∈ q.2.disk → (rv.ver, k) ∈ (q.2.purge keep).disk) ∧
      ListingSound (q.2.purge keep) := by
  intro q hq
  have hinv := reachable_inv ops q hq
  refine ⟨?_, fun v hv => purge_keeps_required q.2 keep hinv.1 v hv, ?_, (purge_removes_only_unlisted q.2 keep hinv.1).1,
    purge_listing_sound q.2 keep hinv.1 hinv.2.2.2⟩
  · simp only [step, St.mapRes]
    exact List.mem_map.mpr ⟨q, hq, rfl⟩
  · intro hp
    obtain ⟨f, h1, h2, _, h4, h5⟩ := purge_keeps_further q.2 keep hinv.1 hp
    exact ⟨f, h1, h2, h4, h5⟩

/-! ### Versioned file names -/

/-- (identifier, version) → file name → (identifier, version) is the identity for every identifier of the
    documented form and every version of the documented raw format `x.y.z(-alpha)`. -/
theorem filename_roundtrip (id ver : Str) (hv : matchRawVersion ver = true) (hid : ValidIdentifier id) :
    getIdentifierAndVersion (getVersionedPath id ver) = some (id, ver) := by
  obtain ⟨d1, d2, d3, suf, hp, rfl⟩ := matchRawVersion_shape hv
  obtain ⟨hdir, hnos, hjoin⟩ := pathSplit_spec id
  obtain ⟨hnodot, hsplit⟩ := splitDot_spec (pathSplit id).2
  unfold ValidIdentifier at hid
  generalize hd : (pathSplit id).1 = dir at *
  generalize hf : (pathSplit id).2 = file at *
  generalize hst : (splitDot file).1 = stem at *
  generalize hex : (splitDot file).2 = ext at *
  have hvp : getVersionedPath id (verText 46 d1 d2 d3 suf) =
      dir ++ (stem ++ 95 :: (118 :: verText 45 d1 d2 d3 suf ++ extTail ext)) := by
    unfold getVersionedPath
    have e1 : pathSplit id = (dir, file) := by rw [← hd, ← hf]
    have e2 : splitDot file = (stem, ext) := by rw [← hst, ← hex]
    simp only [e1, e2, replace_dots hp]
    cases ext <;> simp [extTail]
  have hfile : file = stem ++ extTail ext := hsplit.symm
  have hno : 47 ∉ stem ++ 95 :: (118 :: verText 45 d1 d2 d3 suf ++ extTail ext) := by
    rw [hfile] at hnos
    simp only [List.mem_append, not_or] at hnos
    simp only [List.mem_append, List.mem_cons, not_or]
    exact ⟨hnos.1, by decide, ⟨by decide, verText45_noslash hp⟩, hnos.2⟩
  have hfind : findFileVer (stem ++ 95 :: (118 :: verText 45 d1 d2 d3 suf ++ extTail ext)) =
      some (stem, 95 :: 118 :: verText 45 d1 d2 d3 suf, extTail ext) := by
    rw [findFileVer_skip _ stem hid]
    have hm := matchFileVer_run hp (extTail_cases ext)
    simp only [List.cons_append] at hm
    unfold findFileVer
    simp only [List.cons_append, hm, Option.map_some, List.append_nil]
    congr 2
    have : (95 :: 118 :: (verText 45 d1 d2 d3 suf ++ extTail ext)) =
        (95 :: 118 :: verText 45 d1 d2 d3 suf) ++ extTail ext := by simp
    rw [this, List.drop_left]
  rw [hvp]
  unfold getIdentifierAndVersion
  simp only [pathSplit_append dir hdir _ hno, hfind, dropWhile_uv hp, replace_dashes hp]
  rw [← hfile, hjoin]

/-- file name → (identifier, version) → file name is the identity for every file name of the documented form
    (version directly in front of the extension), and the version it yields has the documented raw format. -/
theorem filename_roundtrip_back (p id v : Str) (h : getIdentifierAndVersion p = some (id, v))
    (hdoc : VersionBeforeExtension p) : getVersionedPath id v = p ∧ matchRawVersion v = true := by
  obtain ⟨hdir, hnos, hjoin⟩ := pathSplit_spec p
  unfold VersionBeforeExtension at hdoc
  unfold getIdentifierAndVersion at h
  generalize hd : (pathSplit p).1 = dir at *
  generalize hf : (pathSplit p).2 = file at *
  have e1 : pathSplit p = (dir, file) := by rw [← hd, ← hf]
  simp only [e1] at h
  cases hfind : findFileVer file with
  | none => simp [hfind] at h
  | some t =>
    obtain ⟨b, m, a⟩ := t
    simp only [hfind, Option.some.injEq, Prod.mk.injEq] at h
    obtain ⟨hid, hv⟩ := h
    obtain ⟨hnodot, htail⟩ := hdoc b m a hfind
    obtain ⟨hfile, hm⟩ := findFileVer_spec hfind
    obtain ⟨d1, d2, d3, suf, rest, hp, rfl, hrest⟩ := matchFileVer_shape hm
    rw [dropWhile_uv hp, replace_dashes hp] at hv
    subst hv
    refine ⟨?_, matchRawVersion_run hp⟩
    obtain ⟨ext, hext⟩ : ∃ ext, a = extTail ext := by
      rcases htail with rfl | ⟨e, rfl⟩
      · exact ⟨none, rfl⟩
      · exact ⟨some e, rfl⟩
    subst hext
    have hno : 47 ∉ b ++ extTail ext := by
      rw [hfile] at hnos
      simp only [List.mem_append, not_or] at hnos ⊢
      exact ⟨hnos.1.1, hnos.2⟩
    unfold getVersionedPath
    rw [← hid]
    simp only [pathSplit_append dir hdir _ hno, splitDot_append b hnodot ext, replace_dots hp]
    rw [← hjoin, hfile]
    cases ext <;> simp [extTail]

/-- Different (identifier, version) pairs of the documented form never share a file name — the storage layout
    keeps the files of different versions (and resources) apart. -/
theorem versioned_path_injective (id id' ver ver' : Str) (hv : matchRawVersion ver = true) (hid : ValidIdentifier id)
    (hv' : matchRawVersion ver' = true) (hid' : ValidIdentifier id')
    (h : getVersionedPath id ver = getVersionedPath id' ver') : id = id' ∧ ver = ver' := by
  have h1 := filename_roundtrip id ver hv hid
  have h2 := filename_roundtrip id' ver' hv' hid'
  rw [h, h2] at h1
  cases h1
  exact ⟨rfl, rfl⟩

/-! ### Regenerated regex literals -/

/-- The two regular expressions the hand-written matchers `matchFileVer` / `matchRawVersion` implement. -/
theorem regex_literals :
    PB.Gen.Updater.fileVersionRegex = "_v[0-9]+-[0-9]+-[0-9]+(-[a-z]+)?" ∧
    PB.Gen.Updater.rawVersionRegex = "^[0-9]+\\.[0-9]+\\.[0-9]+(-[a-z]+)?$" := by decide

/-! ### Non-vacuity: the hypotheses are satisfiable and every branch occurs -/

section Examples
open Ex

-- `TestVersionSelection`: the four flag settings of the test and the blacklist step
example : (testRes.selectVersion ⟨true, true, true⟩).selected = some (v 0 0 0) := by decide
example : (testRes.selectVersion ⟨true, false, true⟩).selected = some (v 1 2 6 "beta") := by decide
example : (testRes.selectVersion ⟨true, false, false⟩).selected = some (v 1 2 5) := by decide
example : (testRes.selectVersion ⟨false, false, false⟩).selected = some (v 1 2 3) := by decide
example : ((testRes.selectVersion ⟨false, false, false⟩).blacklist ⟨false, false, false⟩ (s "1.2.3")).1.selected
    = some (v 1 2 2) := by decide
example : VerNodup testVersions := by decide
-- the dev step with a pre-release of 0.0.0 sorting behind the dev version
example : (Res.selectVersion ⟨false, true, false⟩ { versions := [{ ver := v 1 0 0, avail := true },
    { ver := v 0 0 0, avail := true }, { ver := v 0 0 0 "alpha", avail := true, pre := true }] }).selected
    = some (v 0 0 0) := by decide
-- the current release wins over newer selectable versions; not when it is not selectable
example : (Res.selectVersion ⟨false, false, true⟩ { versions := [{ ver := v 2 0 0, avail := true },
    { ver := v 1 0 0, avail := true, cur := true }] }).selected = some (v 1 0 0) := by decide
example : (Res.selectVersion ⟨false, false, true⟩ { index := some true, versions := [{ ver := v 2 0 0, avail := true },
    { ver := v 1 0 0, cur := true }] }).selected = some (v 2 0 0) := by decide
-- a blacklisted version as last resort: pre-releases are off and only pre-releases exist
example : (Res.selectVersion ⟨true, false, false⟩ { versions := preOnly }).selected = some (v 1 2 0 "rc") := by decide
example : LastResort ⟨true, false, false⟩ none preOnly := by
  refine ⟨?_, ?_, ?_⟩
  · rintro ⟨c, ⟨hm, hc, _⟩, _⟩
    simp only [preOnly, List.mem_cons, List.not_mem_nil, or_false] at hm
    rcases hm with rfl | rfl <;> simp at hc
  · rintro ⟨h, _⟩; cases h
  · rintro ⟨x, hm, hp, _⟩
    simp only [preOnly, List.mem_cons, List.not_mem_nil, or_false] at hm
    rcases hm with rfl | rfl <;> simp at hp
-- the last valid version cannot be blacklisted; the first of two can
example : ((Res.blacklist {} { versions := [{ ver := v 1 0 0, avail := true }, { ver := v 0 0 0, avail := true }] } (s "1.0.0")).2)
    = some .last := by decide
example : ((Res.blacklist {} { versions := [{ ver := v 1 0 0, avail := true }, { ver := v 1 1 0, avail := true }] } (s "1.0.0")).2)
    = none := by decide
-- Purge: six versions, keep 2: the newest three stay listed, the files of the three oldest go
example : (six.purge 2).versions.map (·.ver) = [v 1 5 0, v 1 4 0, v 1 3 0] ∧
    (six.purge 2).disk = [(v 1 5 0, 0), (v 1 4 0, 0), (v 1 3 0, 0)] := by decide
example : (six.purge 2).versions.length ≠ six.versions.length := by decide
example : Required six (v 1 5 0) := Or.inl rfl
example : ResInv six := by
  refine ⟨by decide, ?_, ?_, ?_⟩
  · intro w hw; cases hw; exact ⟨{ ver := v 1 5 0, avail := true }, by decide, rfl⟩
  · intro w hw; cases hw; exact ⟨{ ver := v 1 5 0, avail := true }, by decide, rfl⟩
  · unfold ListingSound; decide
-- versions added behind the sorted part: the newest ones survive, 1.2.0 (active, selected) too
example : (unsortedTail.purge 2).versions.map (·.ver) = [v 2 2 0, v 2 1 0, v 2 0 0, v 1 2 0, v 1 1 0, v 1 0 0] := by decide
example : (unsortedTail.purge 0).disk.length = 6 := by decide
example : (Res.purge { unsortedTail with active := none, selected := some (v 2 2 0) } 1).versions.map (·.ver)
    = [v 2 2 0, v 2 1 0, v 2 0 0] := by decide
-- a whole history: non-canonical spellings are merged, the current release is downloaded, old versions purged
example : ((run {} history).get (s "app.exe")).map (fun r => (r.selected, r.active, r.versions.map (·.ver), r.disk.length))
    = some (some (v 1 2 0), some (v 1 2 0), [v 1 3 0 "beta", v 1 2 0, v 1 1 0, v 1 0 0], 4) := by decide
-- the current release moves between known versions: 1.2.0, forward to 1.3.0, back to 1.2.0 (a pulled release) —
-- the history says 1.2.0, exactly one entry is flagged, and 1.2.0 is selected although the newer 1.3.0 was current before
example : currentRelease (s "app.exe") rollback = some (v 1 2 0) ∧ lastAnnounced (s "app.exe") rollback = some (v 1 2 0) := by decide
example : currentRelease (s "app.exe") (rollback.take 7) = some (v 1 3 0) := by decide
example : ((run {} rollback).get (s "app.exe")).map (fun r => (r.versions.filter (·.cur)).map (·.ver)) = some [v 1 2 0] := by decide
example : ((step (run {} (rollback.take 7)) .select).1.get (s "app.exe")).map (·.selected) = some (some (v 1 3 0)) := by decide
example : ((step (run {} rollback) .select).1.get (s "app.exe")).map (·.selected) = some (some (v 1 2 0)) := by decide
-- an announcement that does not parse withdraws the current release; `AddResources` announces for every resource of the map
example : currentRelease (s "app.exe") (rollback ++ [.add (s "app.exe") (s "1..2") false true false none]) = none := by decide
example : currentRelease (s "app.exe") (rollback ++ [.addMany [(s "lib", s "2.0.0"), (s "app.exe", s "v1.1")] false true false none])
    = some (v 1 1 0) := by decide
example : currentRelease (s "lib") (rollback ++ [.addMany [(s "lib", s "2.0.0"), (s "app.exe", s "v1.1")] false true false none])
    = some (v 2 0 0) := by decide
-- a purge that drops the announced version makes the resource forget it (the announcement is still the last one)
example : currentRelease (s "app.exe") purgedCurrent = none ∧ lastAnnounced (s "app.exe") purgedCurrent = some (v 1 0 0) ∧
    currentRelease (s "app.exe") (purgedCurrent.take 7) = some (v 1 0 0) := by decide
-- why the history matters: on a list with two flagged entries (what a reset that runs only for new versions leaves
-- behind) the order read against the flags takes the newer flagged entry, the order read against the history does not
example : Prescribed {} none twoFlags { ver := v 1 3 0, avail := true, cur := true } := by
  refine .current (fun h => absurd h.1 (by decide)) ⟨by decide, rfl, ?_⟩ (by unfold Sel; decide)
  intro w hw _
  simp only [twoFlags, List.mem_cons, List.not_mem_nil, or_false] at hw
  rcases hw with rfl | rfl | rfl <;> decide
example : PrescribedH (some (v 1 2 0)) {} none twoFlags { ver := v 1 2 0, avail := true, cur := true } :=
  .current (fun h => absurd h.1 (by decide)) (by decide) rfl (by unfold Sel; decide)
example : ¬PrescribedH (some (v 1 2 0)) {} none twoFlags { ver := v 1 3 0, avail := true, cur := true } := by
  have hk : CurOkH (some (v 1 2 0)) {} none twoFlags :=
    ⟨{ ver := v 1 2 0, avail := true, cur := true }, by decide, rfl, by unfold Sel; decide⟩
  intro h
  cases h with
  | dev h1 => cases h1
  | current _ _ h3 => exact absurd h3 (by decide)
  | newestSelectable _ h2 => exact h2 hk
  | newestStable _ h2 => exact h2 hk
  | fallback _ h2 => exact h2 hk
-- file names
example : getVersionedPath (s "path/to/file.exe") (s "1.2.3-beta") = s "path/to/file_v1-2-3-beta.exe" := by decide
example : getIdentifierAndVersion (s "path/to/file_v1-2-3-beta.exe") = some (s "path/to/file.exe", s "1.2.3-beta") := by decide
example : ValidIdentifier (s "path/to/file.exe") ∧ matchRawVersion (s "1.2.3-beta") = true := by decide
example : VersionBeforeExtension (s "path/to/file_v1-2-3-beta.exe") := by
  intro b m a h
  have : findFileVer (pathSplit (s "path/to/file_v1-2-3-beta.exe")).2 = some (s "file", s "_v1-2-3-beta", s ".exe") := by decide
  rw [this] at h; cases h; exact ⟨by decide, Or.inr ⟨_, rfl⟩⟩
-- outside the documented form the round trip is lost (why the hypotheses are there)
example : getIdentifierAndVersion (getVersionedPath (s "tool_v2-0-0.exe") (s "1.0.0")) ≠ some (s "tool_v2-0-0.exe", s "1.0.0") := by decide
example : ¬ValidIdentifier (s "tool_v2-0-0.exe") := by decide
example : getIdentifierAndVersion (s "a.b_v1-2-3.c") = some (s "a.b.c", s "1.2.3") ∧
    getVersionedPath (s "a.b.c") (s "1.2.3") ≠ s "a.b_v1-2-3.c" := by decide

end Examples

end PB.C19
