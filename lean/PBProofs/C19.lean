import PBProofs.Lemmas.Updater
import PB.Gen.Updater
/-
C19 — The updater selects the prescribed version and never purges what is needed.
Property theorems only (helper lemmas live in PBProofs/Lemmas/Updater.lean; the declarative
selection order is PB/Spec/Updater.lean).
-/
namespace PB.C19
open PB PB.Updater PB.Updater.Spec

/-! ### Selection = the documented order -/

/-- `selectVersion` (sort newest first, then the cascade) selects a version the documented order prescribes,
    for every list of versions with pairwise different version numbers, all flags and every index setting;
    it selects nothing only when there are no versions. -/
theorem select_prescribed (fl : Flags) (r : Res) (hn : VerNodup r.versions) :
    match (r.selectVersion fl).selected with
    | none => r.versions = []
    | some v => ∃ rv, rv ∈ r.versions ∧ rv.ver = v ∧ Prescribed fl r.index r.versions rv := by
  simp only [Res.selectVersion]
  cases h : selectFrom fl r.index (sortDesc r.versions) with
  | none =>
    have := selectFrom_nil_iff.mp h
    have hp := (sortDesc_perm r.versions).length_eq
    simp only [Option.map_none]
    cases hv : r.versions with
    | nil => rfl
    | cons a t => rw [hv] at hp this; simp [this] at hp
  | some rv =>
    simp only [Option.map_some]
    have hm := fun x => (mem_sortDesc (l := r.versions) (x := x))
    exact ⟨rv, (hm rv).mp (selectFrom_mem h), rfl,
      prescribed_congr hm (selectFrom_prescribed_sorted (sortDesc_sorted _) (verNodup_sortDesc hn) h)⟩

/-- The documented order determines the version: the specification is a function of the *set* of versions. -/
theorem prescribed_unique (fl : Flags) (idx : Option Bool) (vs : List RV) (hn : VerNodup vs) (a b : RV)
    (ha : Prescribed fl idx vs a) (hb : Prescribed fl idx vs b) : a = b :=
  prescribed_unique_aux hn ha hb

/-- The result does not depend on how `sort.Sort` orders the slice: the cascade applied to *any* newest-first
    arrangement of the same versions picks the same version (covers unstable sorting algorithms). -/
theorem select_sort_independent (fl : Flags) (idx : Option Bool) (vs s s' : List RV) (hn : VerNodup vs)
    (hp : s.Perm vs) (hs : Sorted s) (hp' : s'.Perm vs) (hs' : Sorted s') :
    selectFrom fl idx s = selectFrom fl idx s' := by
  cases h : selectFrom fl idx s with
  | none =>
    have := selectFrom_nil_iff.mp h
    subst this
    have : s' = [] := by
      have := (hp'.trans hp.symm).length_eq
      cases s' with
      | nil => rfl
      | cons a t => simp at this
    subst this
    simp [selectFrom]
  | some a =>
    cases h' : selectFrom fl idx s' with
    | none =>
      have := selectFrom_nil_iff.mp h'
      subst this
      have := (hp.trans hp'.symm).length_eq
      cases s with
      | nil => simp [selectFrom] at h
      | cons a t => simp at this
    | some b =>
      have ha := prescribed_congr (fun x => hp.mem_iff) (selectFrom_prescribed_sorted hs (hn.perm hp.symm) h)
      have hb := prescribed_congr (fun x => hp'.mem_iff) (selectFrom_prescribed_sorted hs' (hn.perm hp'.symm) h')
      rw [prescribed_unique_aux hn ha hb]

/-- Outside dev mode a blacklisted version is prescribed (hence selected) only as the last resort:
    the current release is not selectable, nothing selectable qualifies in steps 3 and 4, and it is the newest version. -/
theorem blacklisted_only_as_last_resort (fl : Flags) (idx : Option Bool) (vs : List RV) (rv : RV)
    (hdev : fl.dev = false) (h : Prescribed fl idx vs rv) (hbl : rv.bl = true) :
    LastResort fl idx vs ∧ Newest (fun _ => True) vs rv := by
  cases h with
  | dev h1 => simp [hdev] at h1
  | current _ _ h3 => have := selectable_not_bl h3; simp [hbl] at this
  | newestSelectable _ _ _ h4 => have := selectable_not_bl h4.2.1; simp [hbl] at this
  | newestStable _ _ _ h4 => have := selectable_not_bl h4.2.1.2; simp [hbl] at this
  | fallback _ h2 h3 h4 h5 => exact ⟨⟨h2, h3, h4⟩, h5⟩

/-! ### Regenerated regex literals -/

/-- The two regular expressions the hand-written matchers `matchFileVer` / `matchRawVersion` implement. -/
theorem regex_literals :
    PB.Gen.Updater.fileVersionRegex = "_v[0-9]+-[0-9]+-[0-9]+(-[a-z]+)?" ∧
    PB.Gen.Updater.rawVersionRegex = "^[0-9]+\\.[0-9]+\\.[0-9]+(-[a-z]+)?$" := by decide

end PB.C19
