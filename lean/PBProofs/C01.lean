import PBProofs.Lemmas.Modules
/-
C01 — Modules start after their dependencies, stop before them, and all get stopped.

Property theorems only (helper lemmas live in PBProofs/Lemmas/Modules.lean and ModulesClosure.lean).
They speak about every history `tr` of the manager model `PB.Modules.step` from a fresh registry
`init n deps mgmt`: any number `n` of modules, any dependency function, any interleaving of callback
begins/ends (`beg`/`fin`), any set of failing callbacks (`fin … false`), any sequence of Start /
ManageModules / Shutdown / Enable / Disable calls (also ManageModules before Start, Start and ManageModules
after Shutdown, repeated calls), with or without a global prep function, a global shutdown function and a
command-line operation (`setGlob`/`glob`). History vocabulary (`lifeOf`, `prepBegun`, `startsOk`, `Wanted`, `Acyclic` …) is defined in
PB/Spec/Modules.lean without reference to the manager's state.
-/
namespace PB.C01
open PB.Modules PB.Modules.Spec PB.Gen.Lifecycle

attribute [local simp] statusDead statusPreparing statusOffline statusStopping statusStarting statusOnline

/-! ### (a) A start routine begins only after every dependency has finished starting successfully -/

/-- Whenever the start routine of `m` begins, every dependency `d` of `m` is in run state 2: the last
    start/stop event of `d` in the history is "start finished successfully" (see `lifeOf_eq_two_iff`). -/
theorem start_after_deps (n : Nat) (deps : Nat → List Nat) (mgmt : Bool) (tr : List Ev) (s s' : St) (m : Nat)
    (hrun : run (init n deps mgmt) tr = some s) (hbeg : step s (.beg .start m) = some s') :
    ∀ d ∈ deps m, lifeOf tr d = 2 := by
  have hr := runs_of_run hrun
  have h1 := inv1_of_runs hr
  have h2 := inv2_of_runs hr
  obtain ⟨_, _, hready, _⟩ := stepBeg_some hbeg
  intro d hd
  have hge := (readyToStart_ready.mp hready).2.2 d (by rw [h1.hdeps]; exact hd)
  have hle := h1.range d
  rw [h2.life d]
  have : s.status d = statusOnline := by simp at hge hle ⊢; omega
  simp [lifeCode, this]

/-! ### (b) A stop routine begins only after every started dependent has completely stopped -/

/-- Whenever the stop routine of `d` begins, every registered module `r` that depends on `d` is in run
    state 0: it was never started, its last start failed, or its stop routine has ended. -/
theorem stop_before_deps (n : Nat) (deps : Nat → List Nat) (mgmt : Bool) (tr : List Ev) (s s' : St) (d : Nat)
    (hrun : run (init n deps mgmt) tr = some s) (hbeg : step s (.beg .stop d) = some s') :
    ∀ r, r < n → d ∈ deps r → lifeOf tr r = 0 := by
  have hr := runs_of_run hrun
  have h1 := inv1_of_runs hr
  have h2 := inv2_of_runs hr
  obtain ⟨_, _, hready, _⟩ := stepBeg_some hbeg
  intro r hrn hdr
  have hle := (readyToStop_ready.mp hready).2.2 r (mem_revDeps.mpr ⟨by rw [h1.hn]; exact hrn, by rw [h1.hdeps]; exact hdr⟩)
  rw [h2.life r]
  simp at hle
  unfold lifeCode
  repeat' split
  all_goals simp at *
  all_goals omega

/-- At every moment, every module that is starting, online or stopping has all its dependencies online. -/
theorem deps_online_while_started (n : Nat) (deps : Nat → List Nat) (mgmt : Bool) (tr : List Ev) (s : St)
    (hrun : run (init n deps mgmt) tr = some s) (m : Nat) (hm : m < n) (hup : statusOffline < s.status m) :
    ∀ d ∈ deps m, s.status d = statusOnline := by
  have hr := runs_of_run hrun
  have h1 := inv1_of_runs hr
  have h4 := inv4_of_runs hr
  intro d hd
  exact h4.deps_on m (by rw [h1.hn]; exact hm) hup d (by rw [h1.hdeps]; exact hd)

/-! ### (c) Prep runs once per module, after the prep of its dependencies, before any start -/

/-- When the prep routine of `m` begins it has never begun before, the prep of every dependency has
    finished successfully, and no start routine has begun yet. -/
theorem prep_once_and_ordered (n : Nat) (deps : Nat → List Nat) (mgmt : Bool) (tr : List Ev) (s s' : St) (m : Nat)
    (hrun : run (init n deps mgmt) tr = some s) (hbeg : step s (.beg .prep m) = some s') :
    prepBegun tr m = 0 ∧ (∀ d ∈ deps m, prepOk tr d) ∧ ¬ startBegun tr := by
  have hr := runs_of_run hrun
  have h1 := inv1_of_runs hr
  have h2 := inv2_of_runs hr
  obtain ⟨_, hk, hready, _⟩ := stepBeg_some hbeg
  obtain ⟨hdead, hdeps⟩ := readyToPrep_ready.mp hready
  refine ⟨(h2.prep0 m).mpr hdead, ?_, ?_⟩
  · intro d hd
    exact h2.prepok d (hdeps d (by rw [h1.hdeps]; exact hd))
  · intro hs
    have := (h2.nostart hs).2
    cases hpc : s.pc <;> simp [hpc, passKind] at hk this

/-- In every history the prep routine of a module begins at most once. -/
theorem prep_at_most_once (n : Nat) (deps : Nat → List Nat) (mgmt : Bool) (tr : List Ev) (s : St)
    (hrun : run (init n deps mgmt) tr = some s) (m : Nat) : prepBegun tr m ≤ 1 :=
  (inv2_of_runs (runs_of_run hrun)).prep1 m

/-- When any start routine begins, the module's own prep has finished successfully and no prep routine
    of any module is still running. -/
theorem start_after_all_prep (n : Nat) (deps : Nat → List Nat) (mgmt : Bool) (tr : List Ev) (s s' : St) (x : Nat)
    (hrun : run (init n deps mgmt) tr = some s) (hbeg : step s (.beg .start x) = some s') :
    prepOk tr x ∧ ∀ m, prepBegun tr m = prepEnded tr m := by
  have hr := runs_of_run hrun
  have h2 := inv2_of_runs hr
  obtain ⟨_, hk, hready, _⟩ := stepBeg_some hbeg
  refine ⟨h2.prepok x (by rw [(readyToStart_ready.mp hready).2.1]; simp), ?_⟩
  intro m
  have := h2.popen m
  have hne : s.pc ≠ .prep := by intro hp; simp [hp, passKind] at hk
  simpa [hne] using this

/-! ### (d) After Start or a management pass returned nil, exactly the wanted modules are online -/

/-- Start returned nil ⇒ a registered module is online iff it is wanted: every module, or with module
    management the enabled modules and their transitive dependencies. -/
theorem start_ok_wanted_online (n : Nat) (deps : Nat → List Nat) (mgmt : Bool) (hac : Acyclic n deps)
    (tr : List Ev) (s s' : St)
    (hrun : run (init n deps mgmt) tr = some s) (hret : step s (.ret .start true) = some s') :
    ∀ m, m < n → (s.status m = statusOnline ↔ Wanted deps mgmt (enabledOf tr) m) := by
  obtain ⟨hreg, rank, hrank⟩ := hac
  have hr := runs_of_run hrun
  have h1 := inv1_of_runs hr
  have h2 := inv2_of_runs hr
  have h3 := inv3_of_runs hreg rank hrank hr
  obtain ⟨hpc, _⟩ := stepRet_some hret
  intro m hm
  rw [h3.okS (Or.inl hpc) m (by rw [h1.hn]; exact hm)]
  have hlk : s.locked = true := h1.pass_locked (Or.inr (Or.inr (Or.inr (Or.inr ⟨true, hpc⟩))))
  exact wanted_iff_spec h1 h2 (h3.asdep (Or.inr (Or.inr (Or.inr (Or.inl hpc)))) hlk) m

/-- A management pass (ManageModules with module management enabled) returned nil ⇒ a registered module
    is online iff it is enabled or a transitive dependency of an enabled module. This includes a
    ManageModules call before Start (it can only return nil when no module is enabled: nothing is online and
    nothing is wanted) and after Shutdown. -/
theorem manage_ok_wanted_online (n : Nat) (deps : Nat → List Nat) (hac : Acyclic n deps)
    (tr : List Ev) (s s' : St)
    (hrun : run (init n deps true) tr = some s) (hret : step s (.ret .manage true) = some s') :
    ∀ m, m < n → (s.status m = statusOnline ↔ Wanted deps true (enabledOf tr) m) := by
  obtain ⟨hreg, rank, hrank⟩ := hac
  have hr := runs_of_run hrun
  have h1 := inv1_of_runs hr
  have h2 := inv2_of_runs hr
  have h3 := inv3_of_runs hreg rank hrank hr
  obtain ⟨hpc, _⟩ := stepRet_some hret
  intro m hm
  cases hlk : s.locked
  · -- before Start: every module is Dead, so (by the start pass's verdict) none is enabled
    have hdead := h1.fresh (Or.inl hlk)
    have hokS := h3.okS (Or.inr ⟨hpc, h1.hmgmt⟩)
    have hnoen : ∀ x, s.enabled x = false := by
      intro x
      cases hx : s.enabled x
      · rfl
      · have hxn := h2.en_lt x hx
        have := (hokS x hxn).mpr (by simp [wanted, hx])
        simp [hdead x] at this
    constructor
    · intro hon; simp [hdead m] at hon
    · intro hw
      exfalso
      rcases hw with hw | hw | ⟨e, he, _⟩
      · cases hw
      · rw [← h2.en m, hnoen m] at hw; cases hw
      · rw [← h2.en e, hnoen e] at he; cases he
  · rw [h3.okS (Or.inr ⟨hpc, h1.hmgmt⟩) m (by rw [h1.hn]; exact hm)]
    exact wanted_iff_spec h1 h2 (h3.asdep (Or.inr (Or.inr (Or.inr (Or.inr ⟨hpc, h1.hmgmt⟩)))) hlk) m

/-- `buildEnabledTree` marks exactly the transitive dependencies of the enabled modules. -/
theorem enabled_tree_is_transitive_closure (s : St) (hreg : ∀ m, m < s.n → ∀ d ∈ s.deps m, d < s.n) (m : Nat) :
    (buildEnabledTree s).asDep m = true ↔ ∃ e, e < s.n ∧ s.enabled e = true ∧ TransDep s.deps e m :=
  buildEnabledTree_spec hreg m

/-! ### (e) When Shutdown returns everything is stopped — whatever failed before -/

/-- Shutdown returned (with or without error) ⇒ no module is online, every module's stop routine was
    invoked exactly once per successful run of its start routine, and no callback is still running. No
    hypothesis about failures: prep, start and stop routines may have failed in any combination before.
    The history is one the property quantifies over: Shutdown is final (`ShutdownFinal`: no Start or
    ManageModules call follows a Shutdown call — the code does not refuse them, see
    `shutdown_not_final_refuted`). -/
theorem shutdown_stops_everything (n : Nat) (deps : Nat → List Nat) (mgmt : Bool) (hac : Acyclic n deps)
    (tr : List Ev) (s s' : St) (ok : Bool) (hdom : ShutdownFinal tr)
    (hrun : run (init n deps mgmt) tr = some s) (hret : step s (.ret .shutdown ok) = some s') :
    (∀ m, s.status m ≠ statusOnline) ∧ (∀ m, stopsBegun tr m = startsOk tr m) ∧ begun tr = ended tr := by
  obtain ⟨hreg, rank, hrank⟩ := hac
  have hr := runs_of_run hrun
  have h1 := inv1_of_runs hr
  have h2 := inv2_of_runs hr
  have h3 := inv3_of_runs hreg rank hrank hr
  have h4 := inv4_of_runs hr
  obtain ⟨hpc, _⟩ := stepRet_some hret
  have hsd := h4.done_sd ok hpc
  have hoff : ∀ m, s.status m ≠ statusOnline := by
    rcases h3.down hdom hsd with ⟨hoff, _⟩ | hp | hp
    · exact hoff
    · simp [hpc] at hp
    · simp [hpc] at hp
  refine ⟨hoff, ?_, ?_⟩
  · intro m; have := h2.cnt m; simp [hoff m] at this; omega
  · have := h2.bal; rw [h1.idle_run (by simp [hpc, passKind])] at this; simpa using this

/-- The Shutdown call that does the work (the first one: it returns from the stop pass, any later one
    returns "shutdown already initiated") stops everything in EVERY history, whatever was called before:
    the state reached by the `passEnd` of Shutdown's stop pass has no module online. -/
theorem effective_shutdown_stops_everything (n : Nat) (deps : Nat → List Nat) (mgmt : Bool) (hac : Acyclic n deps)
    (tr : List Ev) (s s' : St)
    (hrun : run (init n deps mgmt) tr = some s) (hpc : s.pc = .stopX) (hend : step s .passEnd = some s') :
    (∀ m, s'.status m ≠ statusOnline) ∧ (∀ m, stopsBegun tr m = startsOk tr m) ∧ begun tr = ended tr ∧
    ∃ ok, s'.pc = .done .shutdown ok := by
  obtain ⟨hreg, rank, hrank⟩ := hac
  have hr := runs_of_run hrun
  have h1 := inv1_of_runs hr
  have h2 := inv2_of_runs hr
  have hreg' : ∀ m, m < s.n → ∀ d ∈ s.deps m, d < s.n := by rw [h1.hn, h1.hdeps]; exact hreg
  have hrank' : ∀ m, m < s.n → ∀ d ∈ s.deps m, rank d < rank m := by rw [h1.hn, h1.hdeps]; exact hrank
  obtain ⟨hrun0, _⟩ := passEnd_running h1 hend
  have hsd : s.shutdown = true := h1.stopX_shutdown (Or.inl hpc)
  simp only [step] at hend
  unfold stepPassEnd at hend
  split at hend; · cases hend
  simp only [hpc] at hend
  split at hend; · cases hend
  rename_i hnr; simp at hnr
  cases hend
  have hoff : ∀ m, s.status m ≠ statusOnline := by
    intro m hon
    have hmn : m < s.n := by
      apply Classical.byContradiction; intro hge
      have := h1.out_dead m (by omega); simp [this] at hon
    have := stop_fixpoint h1 rank hrank' hrun0 hnr (by intro r _ hk; simp [keep, hsd] at hk) m hmn hon
    simp [keep, hsd] at this
  refine ⟨hoff, ?_, ?_, ⟨_, rfl⟩⟩
  · intro m; have := h2.cnt m; simp [hoff m] at this; omega
  · have := h2.bal; rw [hrun0] at this; simpa using this

/-- And it stays that way: at every later point of a history in which Shutdown is final no module is online
    and the counts match. -/
theorem nothing_online_after_shutdown (n : Nat) (deps : Nat → List Nat) (mgmt : Bool) (hac : Acyclic n deps)
    (tr : List Ev) (s : St) (ok : Bool) (hdom : ShutdownFinal tr)
    (hrun : run (init n deps mgmt) tr = some s) (hsd : Ev.ret .shutdown ok ∈ tr) :
    (∀ m, s.status m ≠ statusOnline) ∧ (∀ m, stopsBegun tr m = startsOk tr m) := by
  obtain ⟨hreg, rank, hrank⟩ := hac
  have hr := runs_of_run hrun
  have h2 := inv2_of_runs hr
  have h3 := inv3_of_runs hreg rank hrank hr
  have h4 := inv4_of_runs hr
  obtain ⟨hflag, hpc, hpc'⟩ := h4.after_sd ⟨ok, hsd⟩
  have hoff : ∀ m, s.status m ≠ statusOnline := by
    rcases h3.down hdom hflag with ⟨hoff, _⟩ | hp | hp
    · exact hoff
    · exact absurd hp hpc
    · exact absurd hp hpc'
  refine ⟨hoff, ?_⟩
  intro m; have := h2.cnt m; simp [hoff m] at this; omega

/-- `ShutdownFinal` cannot be dropped: the code refuses neither a first Start after Shutdown nor a
    ManageModules after Shutdown. Witness: Shutdown, then Start (one module), then Shutdown again — the second
    Shutdown returns "shutdown already initiated" while the module is online. -/
theorem shutdown_not_final_witness :
    ∃ (tr : List Ev) (s s' : St), run (init 1 (fun _ => []) false) tr = some s ∧
      step s (.ret .shutdown false) = some s' ∧ s.status 0 = statusOnline ∧ ¬ ShutdownFinal tr := by
  let tr : List Ev := [.call .shutdown, .passEnd, .ret .shutdown true, .call .start, .beg .prep 0, .fin .prep 0 true, .passEnd,
    .beg .start 0, .fin .start 0 true, .passEnd, .ret .start true, .call .shutdown]
  have h1 : ((run (init 1 (fun _ => []) false) tr).map (fun x => (x.pc, x.status 0))) =
      some (.done .shutdown false, statusOnline) := by decide
  match hs : run (init 1 (fun _ => []) false) tr with
  | none => simp [hs] at h1
  | some s =>
    simp [hs] at h1
    refine ⟨tr, s, { s with pc := .idle }, hs, by simp [step, stepRet, h1.1], h1.2, ?_⟩
    intro hf
    have := (hf [] _ rfl).1
    simp at this

/-- Whenever Start, ManageModules or Shutdown returns — with or without error — every callback that has
    begun has ended: nothing keeps starting or stopping behind the caller's back. -/
theorem no_callback_running_when_call_returns (n : Nat) (deps : Nat → List Nat) (mgmt : Bool)
    (tr : List Ev) (s s' : St) (a : Api) (ok : Bool)
    (hrun : run (init n deps mgmt) tr = some s) (hret : step s (.ret a ok) = some s') :
    begun tr = ended tr ∧ ∀ m, s.status m ≠ statusStarting ∧ s.status m ≠ statusStopping := by
  have hr := runs_of_run hrun
  have h1 := inv1_of_runs hr
  have h2 := inv2_of_runs hr
  obtain ⟨hpc, _⟩ := stepRet_some hret
  have hrun0 : s.running = [] := h1.idle_run (by simp [hpc, passKind])
  refine ⟨?_, ?_⟩
  · have := h2.bal; rw [hrun0] at this; simpa using this
  · intro m
    exact ⟨fun h => by have := h1.starting_run m h; simp [hrun0] at this,
           fun h => by have := h1.stopping_run m h; simp [hrun0] at this⟩

/-! ### (f) What the manager is told about a routine is what the routine did -/

/-- The result path from `fn()` to the manager's `rep.err != nil` (regenerated from `startCtrlFn`,
    `runCtrlFnWithTimeout`, `Module.prep/start/stopAllTasks` and the three manager loops: the error value is
    handed on unchanged and only compared with nil; the deferred panic handler replaces it): the manager sees
    a failure exactly when the routine returned a non-nil error — whatever value — or panicked. The `ok` of
    `fin k m ok`, which the acceptor computes with `ctrlFailureSeen`, is therefore the routine's real outcome. -/
theorem ctrl_failure_is_seen (returnedErr panicked : Bool) :
    ctrlFailureSeen returnedErr panicked = (returnedErr || panicked) := by
  cases returnedErr <;> cases panicked <;> rfl

/-! ### (g) The process-wide functions around the module routines, and calls outside Start … Shutdown -/

/-- Before Start is called nothing ever runs: a ManageModules (or Shutdown) call before Start begins no
    routine of any module. -/
theorem nothing_begins_before_start (n : Nat) (deps : Nat → List Nat) (mgmt : Bool) (tr : List Ev) (s : St)
    (hrun : run (init n deps mgmt) tr = some s) (hns : Ev.call .start ∉ tr) :
    begun tr = 0 ∧ ∀ m, s.status m = statusDead := by
  have hr := runs_of_run hrun
  have hl : s.locked = false := by
    cases h : s.locked
    · rfl
    · exact absurd ((inv4_of_runs hr).lock_called h) hns
  exact ⟨(inv2_of_runs hr).fresh0 (Or.inl hl), (inv1_of_runs hr).fresh (Or.inl hl)⟩

/-- The global prep function runs before everything else: when it runs, no routine of any module has begun;
    if it returns an error, Start returns an error right away. -/
theorem global_prep_runs_first (n : Nat) (deps : Nat → List Nat) (mgmt : Bool) (tr : List Ev) (s s' : St) (i : Nat) (ok : Bool)
    (hrun : run (init n deps mgmt) tr = some s) (hg : step s (.glob .prep i ok) = some s') :
    begun tr = 0 ∧ (ok = false → s'.pc = .done .start false) ∧ (ok = true → s'.pc = .prep) := by
  have hr := runs_of_run hrun
  obtain ⟨hpc, _, rfl⟩ := stepGlob_some hg
  refine ⟨(inv2_of_runs hr).fresh0 (Or.inr hpc), ?_, ?_⟩
  · intro h; subst h; rfl
  · intro h; subst h; rfl

/-- If the global prep function failed, nothing ever runs — not in this Start and not in any later call:
    every module stays Dead and no routine can begin. -/
theorem global_prep_failure_nothing_runs (n : Nat) (deps : Nat → List Nat) (mgmt : Bool) (tr : List Ev) (s : St) (i : Nat)
    (hrun : run (init n deps mgmt) tr = some s) (hf : Ev.glob .prep i false ∈ tr) :
    (∀ m, s.status m = statusDead) ∧ ∀ k m, step s (.beg k m) = none := by
  have hr := runs_of_run hrun
  obtain ⟨hd, _, hp, _⟩ := (inv5_of_runs hr).gfail ⟨i, hf⟩
  exact ⟨hd, fun k m => no_beg_of_dead hd hp k m⟩

/-- The global shutdown function runs first: nothing is running when it is called, and the stop pass of
    Shutdown begins after it. -/
theorem global_shutdown_runs_first (n : Nat) (deps : Nat → List Nat) (mgmt : Bool) (tr : List Ev) (s s' : St) (i : Nat) (ok : Bool)
    (hrun : run (init n deps mgmt) tr = some s) (hg : step s (.glob .shutdown i ok) = some s') :
    begun tr = ended tr ∧ s'.pc = .stopX ∧ s'.execCnt = 0 := by
  have hr := runs_of_run hrun
  have h1 := inv1_of_runs hr
  obtain ⟨hpc, _, rfl⟩ := stepGlob_some hg
  refine ⟨?_, rfl, rfl⟩
  have := (inv2_of_runs hr).bal
  rw [h1.idle_run (by simp [hpc, passKind])] at this
  simpa using this

/-- A command-line operation runs after every module is prepared and instead of starting them: no start
    routine has begun, no prep routine is running, and Start returns an error (ErrCleanExit) whatever the
    operation returned. -/
theorem cmdline_operation_ends_start (n : Nat) (deps : Nat → List Nat) (mgmt : Bool) (tr : List Ev) (s s' : St) (i : Nat) (ok : Bool)
    (hrun : run (init n deps mgmt) tr = some s) (hg : step s (.glob .cmd i ok) = some s') :
    ¬ startBegun tr ∧ (∀ m, prepBegun tr m = prepEnded tr m) ∧ s'.pc = .done .start false := by
  have hr := runs_of_run hrun
  have h2 := inv2_of_runs hr
  obtain ⟨hpc, _, rfl⟩ := stepGlob_some hg
  refine ⟨fun hs => (h2.nostart hs).2.2.2 hpc, ?_, by cases ok <;> rfl⟩
  intro m
  have := h2.popen m
  simpa [hpc] using this

/-- `SetGlobalPrepFn` / `SetGlobalShutdownFn` keep the first function they were given, `SetCmdLineOperation`
    the last. -/
theorem setGlob_keeps (s s' : St) (g : Glob) (i : Nat) (h : step s (.setGlob g i) = some s') :
    (g ≠ .cmd → ∀ j, s.gfn g = some j → s'.gfn g = some j) ∧ (g ≠ .cmd → s.gfn g = none → s'.gfn g = some i) ∧
    (g = .cmd → s'.gfn g = some i) := by
  simp only [step, stepSetGlob] at h
  split at h; · cases h
  cases g <;> simp only at h
  · cases hg : s.gfn .prep <;> simp [hg] at h <;> subst h <;> simp [hg]
  · cases hg : s.gfn .shutdown <;> simp [hg] at h <;> subst h <;> simp [hg]
  · cases h; simp

/-! ### What the run states of (a) and (b) mean, in terms of events only -/

/-- Run state 2 ("finished starting successfully"): the last start/stop event of `d` in the history is
    the successful end of its start routine. -/
theorem lifeOf_eq_two_iff (tr : List Ev) (d : Nat) :
    lifeOf tr d = 2 ↔ lastTouch d tr = some (.fin .start d true) := by
  rw [lifeOf_eq_lastTouch]
  cases h : lastTouch d tr with
  | none => simp
  | some e =>
    have ht := lastTouch_touches h
    cases e with
    | beg k m => cases k <;> simp [lifeCodeOf]
    | fin k m ok =>
      cases k <;> cases ok <;> simp [lifeCodeOf, touches] at ht ⊢
      exact ht
    | _ => simp [touches] at ht

/-- Run state 0 ("not started or completely stopped"): `r` has no start/stop event at all, or the last
    one is a failed start or the end of its stop routine. -/
theorem lifeOf_eq_zero_iff (tr : List Ev) (r : Nat) :
    lifeOf tr r = 0 ↔ lastTouch r tr = none ∨ lastTouch r tr = some (.fin .start r false) ∨
      ∃ ok, lastTouch r tr = some (.fin .stop r ok) := by
  rw [lifeOf_eq_lastTouch]
  cases h : lastTouch r tr with
  | none => simp
  | some e =>
    have ht := lastTouch_touches h
    cases e with
    | beg k m => cases k <;> simp [lifeCodeOf, touches] at ht ⊢
    | fin k m ok =>
      cases k <;> cases ok <;> simp [lifeCodeOf, touches] at ht ⊢
      all_goals first | exact ht | exact ht.symm
    | _ => simp [touches] at ht

/-! ### Non-vacuity: concrete histories that the model runs, meeting the hypotheses above -/

example : Acyclic 4 diamond :=
  ⟨by intro m hm d hd; match m, hm with
      | 0, _ => simp [diamond] at hd
      | 1, _ => simp [diamond] at hd; omega
      | 2, _ => simp [diamond] at hd; omega
      | 3, _ => simp [diamond] at hd; omega,
   id, by intro m hm d hd; match m, hm with
      | 0, _ => simp [diamond] at hd
      | 1, _ => simp [diamond] at hd; simp [hd]
      | 2, _ => simp [diamond] at hd; simp [hd]
      | 3, _ => simp [diamond] at hd; rcases hd with rfl | rfl <;> simp⟩

/-- Start with overlapping callbacks (1 and 2 start and stop concurrently, a stop fails), then Shutdown. -/
example : (run (init 4 diamond false) diamondHistory).isSome = true := by decide

/-- the same graph: 3's start would begin before its dependency 2 is online — not a run of the model -/
example : (run (init 4 diamond false)
    [.call .start, .beg .prep 0, .fin .prep 0 true, .beg .prep 2, .beg .prep 1, .fin .prep 1 true, .fin .prep 2 true,
     .beg .prep 3, .fin .prep 3 true, .passEnd,
     .beg .start 0, .fin .start 0 true, .beg .start 1, .beg .start 2, .fin .start 1 true, .beg .start 3]).isSome = false := by
  decide

/-- "B depends on A, B fails to start, Shutdown": Start returns an error only after everything it launched
    has reported, B is back in Offline, and Shutdown stops A. -/
example : (run (init 2 (fun m => if m = 1 then [0] else []) false)
    [.call .start, .beg .prep 0, .fin .prep 0 true, .beg .prep 1, .fin .prep 1 true, .passEnd,
     .beg .start 0, .fin .start 0 true, .beg .start 1, .fin .start 1 false, .passEnd, .ret .start false,
     .call .shutdown, .beg .stop 0, .fin .stop 0 true, .passEnd, .ret .shutdown true]).isSome = true := by
  decide

/-- … and Shutdown cannot return while A is still online. -/
example : (run (init 2 (fun m => if m = 1 then [0] else []) false)
    [.call .start, .beg .prep 0, .fin .prep 0 true, .beg .prep 1, .fin .prep 1 true, .passEnd,
     .beg .start 0, .fin .start 0 true, .beg .start 1, .fin .start 1 false, .passEnd, .ret .start false,
     .call .shutdown, .passEnd]).isSome = false := by
  decide

/-- Module management: only 2 is enabled, so 2 and its dependency 0 start; then 3 is enabled and a
    management pass brings up 1 and 3; disabling everything stops all four in order. -/
example : (run (init 4 diamond true)
    [.enable 2, .call .start,
     .beg .prep 0, .fin .prep 0 true, .beg .prep 1, .fin .prep 1 true, .beg .prep 2, .fin .prep 2 true,
     .beg .prep 3, .fin .prep 3 true, .passEnd,
     .beg .start 0, .fin .start 0 true, .beg .start 2, .fin .start 2 true, .passEnd, .ret .start true,
     .enable 3, .call .manage, .passEnd, .beg .start 1, .fin .start 1 true, .beg .start 3, .fin .start 3 true,
     .passEnd, .ret .manage true,
     .disable 2, .disable 3, .call .manage, .beg .stop 3, .fin .stop 3 true, .beg .stop 1, .beg .stop 2,
     .fin .stop 2 true, .fin .stop 1 true, .beg .stop 0, .fin .stop 0 true, .passEnd, .passEnd, .ret .manage true]).isSome = true := by
  decide

/-- A global prep function (number 7; a second one, 8, is set later and ignored), a global shutdown function
    and the run: global prep, prep pass, start pass; Shutdown runs the global shutdown function, then stops. -/
example : (run (init 2 (fun m => if m = 1 then [0] else []) false)
    [.setGlob .prep 7, .setGlob .prep 8, .setGlob .shutdown 3, .call .start, .glob .prep 7 true,
     .beg .prep 0, .fin .prep 0 true, .beg .prep 1, .fin .prep 1 true, .passEnd,
     .beg .start 0, .fin .start 0 true, .beg .start 1, .fin .start 1 true, .passEnd, .ret .start true,
     .call .shutdown, .glob .shutdown 3 true, .beg .stop 1, .fin .stop 1 true, .beg .stop 0, .fin .stop 0 true, .passEnd,
     .ret .shutdown true]).isSome = true := by
  decide

/-- … the ignored second global prep function cannot be the one that runs -/
example : (run (init 2 (fun m => if m = 1 then [0] else []) false)
    [.setGlob .prep 7, .setGlob .prep 8, .call .start, .glob .prep 8 true]).isSome = false := by
  decide

/-- A failing global prep function: Start returns an error, a later management pass cannot start anything
    (the enabled module is unprepared: error), Shutdown has nothing to stop. -/
example : (run (init 2 (fun m => if m = 1 then [0] else []) true)
    [.setGlob .prep 1, .enable 1, .call .start, .glob .prep 1 false, .ret .start false,
     .call .manage, .passEnd, .passEnd, .ret .manage false, .call .shutdown, .passEnd, .ret .shutdown true]).isSome = true := by
  decide

/-- A command-line operation: every module is prepared, the operation runs, Start returns an error, nothing
    was started; the operation set last is the one that runs. -/
example : (run (init 2 (fun m => if m = 1 then [0] else []) false)
    [.setGlob .cmd 4, .setGlob .cmd 5, .call .start, .beg .prep 0, .fin .prep 0 true, .beg .prep 1, .fin .prep 1 true, .passEnd,
     .glob .cmd 5 true, .ret .start false, .call .shutdown, .passEnd, .ret .shutdown true]).isSome = true := by
  decide

/-- ManageModules before Start: with an enabled module it returns an error (the module is unprepared), with
    none it returns nil; nothing runs either way. Then Start works as usual. -/
example : (run (init 2 (fun m => if m = 1 then [0] else []) true)
    [.call .manage, .passEnd, .passEnd, .ret .manage true,
     .enable 1, .call .manage, .passEnd, .passEnd, .ret .manage false,
     .call .start, .beg .prep 0, .fin .prep 0 true, .beg .prep 1, .fin .prep 1 true, .passEnd,
     .beg .start 0, .fin .start 0 true, .beg .start 1, .fin .start 1 true, .passEnd, .ret .start true]).isSome = true := by
  decide

/-- ManageModules after Shutdown (the code does not refuse it): the enabled modules are started again. -/
example : (run (init 2 (fun m => if m = 1 then [0] else []) true)
    [.enable 1, .call .start, .beg .prep 0, .fin .prep 0 true, .beg .prep 1, .fin .prep 1 true, .passEnd,
     .beg .start 0, .fin .start 0 true, .beg .start 1, .fin .start 1 true, .passEnd, .ret .start true,
     .call .shutdown, .beg .stop 1, .fin .stop 1 true, .beg .stop 0, .fin .stop 0 true, .passEnd, .ret .shutdown true,
     .call .manage, .passEnd, .beg .start 0, .fin .start 0 true, .beg .start 1, .fin .start 1 true, .passEnd,
     .ret .manage true]).isSome = true := by
  decide

/-- The domain predicate holds for the ordinary history and fails for the one above. -/
example : ShutdownFinal [Ev.call .start, .ret .start true, .call .manage, .ret .manage true, .call .shutdown, .ret .shutdown true,
    .call .shutdown, .ret .shutdown false] := by
  intro t1 t2 h
  have hlen := congrArg List.length h
  simp at hlen
  match t1, h with
  | [], h => simp at h
  | [_], h => simp at h
  | [_, _], h => simp at h
  | [_, _, _], h => simp at h
  | [_, _, _, _], h => simp at h; obtain ⟨_, _, _, _, rfl⟩ := h; simp
  | [_, _, _, _, _], h => simp at h
  | [_, _, _, _, _, _], h => simp at h; obtain ⟨_, _, _, _, _, _, rfl⟩ := h; simp
  | [_, _, _, _, _, _, _], h => simp at h
  | _ :: _ :: _ :: _ :: _ :: _ :: _ :: _ :: t, h => simp at hlen; omega

end PB.C01
