import PBProofs.Lemmas.Modules
/-
C01 — Modules start after their dependencies, stop before them, and all get stopped.

Property theorems only (helper lemmas live in PBProofs/Lemmas/Modules.lean and ModulesClosure.lean).
They speak about every history `tr` of the manager model `PB.Modules.step` from a fresh registry
`init n deps mgmt`: any number `n` of modules, any dependency function, any interleaving of callback
begins/ends (`beg`/`fin`), any set of failing callbacks (`fin … false`), any Enable/Disable/ManageModules
sequence. History vocabulary (`lifeOf`, `prepBegun`, `startsOk`, `Wanted`, `Acyclic` …) is defined in
PB/Spec/Modules.lean without reference to the manager's state.
-/
namespace PB.C01
open PB.Modules PB.Modules.Spec PB.Gen.Lifecycle

attribute [local simp] statusDead statusPreparing statusOffline statusStopping statusStarting statusOnline

/-! ### (a) A start routine begins only after every dependency has finished starting successfully -/

/-- Whenever the start routine of `m` begins, every dependency `d` of `m` is in run state 2: the last
    start/stop event of `d` in the history is "start finished successfully" (see `lifeOf_eq_two_iff`). -/
theorem start_after_deps (n : Nat) (deps : Nat → List Nat) (mgmt : Bool) (tr : List Ev) (s s' : St) (m : Nat)
    (hrun : run (init n deps mgmt) tr = some s) (hbeg : step s (.beg .start m) = some s') :
    ∀ d ∈ deps m, lifeOf tr d = 2 := by
  have hr := runs_of_run hrun
  have h1 := inv1_of_runs hr
  have h2 := inv2_of_runs hr
  obtain ⟨_, _, hready, _⟩ := stepBeg_some hbeg
  intro d hd
  have hge := (readyToStart_ready.mp hready).2.2 d (by rw [h1.hdeps]; exact hd)
  have hle := h1.range d
  rw [h2.life d]
  have : s.status d = statusOnline := by simp at hge hle ⊢; omega
  simp [lifeCode, this]

/-! ### (b) A stop routine begins only after every started dependent has completely stopped -/

/-- Whenever the stop routine of `d` begins, every registered module `r` that depends on `d` is in run
    state 0: it was never started, its last start failed, or its stop routine has ended. -/
theorem stop_before_deps (n : Nat) (deps : Nat → List Nat) (mgmt : Bool) (tr : List Ev) (s s' : St) (d : Nat)
    (hrun : run (init n deps mgmt) tr = some s) (hbeg : step s (.beg .stop d) = some s') :
    ∀ r, r < n → d ∈ deps r → lifeOf tr r = 0 := by
  have hr := runs_of_run hrun
  have h1 := inv1_of_runs hr
  have h2 := inv2_of_runs hr
  obtain ⟨_, _, hready, _⟩ := stepBeg_some hbeg
  intro r hrn hdr
  have hle := (readyToStop_ready.mp hready).2.2 r (mem_revDeps.mpr ⟨by rw [h1.hn]; exact hrn, by rw [h1.hdeps]; exact hdr⟩)
  rw [h2.life r]
  simp at hle
  unfold lifeCode
  repeat' split
  all_goals simp at *
  all_goals omega

/-- At every moment, every module that is starting, online or stopping has all its dependencies online. -/
theorem deps_online_while_started (n : Nat) (deps : Nat → List Nat) (mgmt : Bool) (tr : List Ev) (s : St)
    (hrun : run (init n deps mgmt) tr = some s) (m : Nat) (hm : m < n) (hup : statusOffline < s.status m) :
    ∀ d ∈ deps m, s.status d = statusOnline := by
  have hr := runs_of_run hrun
  have h1 := inv1_of_runs hr
  have h4 := inv4_of_runs hr
  intro d hd
  exact h4.deps_on m (by rw [h1.hn]; exact hm) hup d (by rw [h1.hdeps]; exact hd)

/-! ### (c) Prep runs once per module, after the prep of its dependencies, before any start -/

/-- When the prep routine of `m` begins it has never begun before, the prep of every dependency has
    finished successfully, and no start routine has begun yet. -/
theorem prep_once_and_ordered (n : Nat) (deps : Nat → List Nat) (mgmt : Bool) (tr : List Ev) (s s' : St) (m : Nat)
    (hrun : run (init n deps mgmt) tr = some s) (hbeg : step s (.beg .prep m) = some s') :
    prepBegun tr m = 0 ∧ (∀ d ∈ deps m, prepOk tr d) ∧ ¬ startBegun tr := by
  have hr := runs_of_run hrun
  have h1 := inv1_of_runs hr
  have h2 := inv2_of_runs hr
  obtain ⟨_, hk, hready, _⟩ := stepBeg_some hbeg
  obtain ⟨hdead, hdeps⟩ := readyToPrep_ready.mp hready
  refine ⟨(h2.prep0 m).mpr hdead, ?_, ?_⟩
  · intro d hd
    exact h2.prepok d (hdeps d (by rw [h1.hdeps]; exact hd))
  · intro hs
    have := (h2.nostart hs).2
    cases hpc : s.pc <;> simp [hpc, passKind] at hk this

/-- In every history the prep routine of a module begins at most once. -/
theorem prep_at_most_once (n : Nat) (deps : Nat → List Nat) (mgmt : Bool) (tr : List Ev) (s : St)
    (hrun : run (init n deps mgmt) tr = some s) (m : Nat) : prepBegun tr m ≤ 1 :=
  (inv2_of_runs (runs_of_run hrun)).prep1 m

/-- When any start routine begins, the module's own prep has finished successfully and no prep routine
    of any module is still running. -/
theorem start_after_all_prep (n : Nat) (deps : Nat → List Nat) (mgmt : Bool) (tr : List Ev) (s s' : St) (x : Nat)
    (hrun : run (init n deps mgmt) tr = some s) (hbeg : step s (.beg .start x) = some s') :
    prepOk tr x ∧ ∀ m, prepBegun tr m = prepEnded tr m := by
  have hr := runs_of_run hrun
  have h2 := inv2_of_runs hr
  obtain ⟨_, hk, hready, _⟩ := stepBeg_some hbeg
  refine ⟨h2.prepok x (by rw [(readyToStart_ready.mp hready).2.1]; simp), ?_⟩
  intro m
  have := h2.popen m
  have hne : s.pc ≠ .prep := by intro hp; simp [hp, passKind] at hk
  simpa [hne] using this

/-! ### (d) After Start or a management pass returned nil, exactly the wanted modules are online -/

/-- Start returned nil ⇒ a registered module is online iff it is wanted: every module, or with module
    management the enabled modules and their transitive dependencies. -/
theorem start_ok_wanted_online (n : Nat) (deps : Nat → List Nat) (mgmt : Bool) (hac : Acyclic n deps)
    (tr : List Ev) (s s' : St)
    (hrun : run (init n deps mgmt) tr = some s) (hret : step s (.ret .start true) = some s') :
    ∀ m, m < n → (s.status m = statusOnline ↔ Wanted deps mgmt (enabledOf tr) m) := by
  obtain ⟨hreg, rank, hrank⟩ := hac
  have hr := runs_of_run hrun
  have h1 := inv1_of_runs hr
  have h2 := inv2_of_runs hr
  have h3 := inv3_of_runs hreg rank hrank hr
  obtain ⟨hpc, _⟩ := stepRet_some hret
  intro m hm
  rw [h3.okS (Or.inl hpc) m (by rw [h1.hn]; exact hm)]
  exact wanted_iff_spec h1 h2 (h3.asdep (Or.inr (Or.inr (Or.inr (Or.inl hpc))))) m

/-- A management pass (ManageModules with module management enabled) returned nil ⇒ a registered module
    is online iff it is enabled or a transitive dependency of an enabled module. -/
theorem manage_ok_wanted_online (n : Nat) (deps : Nat → List Nat) (hac : Acyclic n deps)
    (tr : List Ev) (s s' : St)
    (hrun : run (init n deps true) tr = some s) (hret : step s (.ret .manage true) = some s') :
    ∀ m, m < n → (s.status m = statusOnline ↔ Wanted deps true (enabledOf tr) m) := by
  obtain ⟨hreg, rank, hrank⟩ := hac
  have hr := runs_of_run hrun
  have h1 := inv1_of_runs hr
  have h2 := inv2_of_runs hr
  have h3 := inv3_of_runs hreg rank hrank hr
  obtain ⟨hpc, _⟩ := stepRet_some hret
  intro m hm
  rw [h3.okS (Or.inr ⟨hpc, h1.hmgmt⟩) m (by rw [h1.hn]; exact hm)]
  exact wanted_iff_spec h1 h2 (h3.asdep (Or.inr (Or.inr (Or.inr (Or.inr ⟨hpc, h1.hmgmt⟩))))) m

/-- `buildEnabledTree` marks exactly the transitive dependencies of the enabled modules. -/
theorem enabled_tree_is_transitive_closure (s : St) (hreg : ∀ m, m < s.n → ∀ d ∈ s.deps m, d < s.n) (m : Nat) :
    (buildEnabledTree s).asDep m = true ↔ ∃ e, e < s.n ∧ s.enabled e = true ∧ TransDep s.deps e m :=
  buildEnabledTree_spec hreg m

/-! ### (e) When Shutdown returns everything is stopped — whatever failed before -/

/-- Shutdown returned (with or without error) ⇒ no module is online, every module's stop routine was
    invoked exactly once per successful run of its start routine, and no callback is still running. No
    hypothesis about failures: prep, start and stop routines may have failed in any combination before. -/
theorem shutdown_stops_everything (n : Nat) (deps : Nat → List Nat) (mgmt : Bool) (hac : Acyclic n deps)
    (tr : List Ev) (s s' : St) (ok : Bool)
    (hrun : run (init n deps mgmt) tr = some s) (hret : step s (.ret .shutdown ok) = some s') :
    (∀ m, s.status m ≠ statusOnline) ∧ (∀ m, stopsBegun tr m = startsOk tr m) ∧ begun tr = ended tr := by
  obtain ⟨hreg, rank, hrank⟩ := hac
  have hr := runs_of_run hrun
  have h1 := inv1_of_runs hr
  have h2 := inv2_of_runs hr
  have h3 := inv3_of_runs hreg rank hrank hr
  have h4 := inv4_of_runs hr
  obtain ⟨hpc, _⟩ := stepRet_some hret
  have hsd := h4.done_sd ok hpc
  have hoff := h3.down hsd (by simp [hpc])
  refine ⟨hoff, ?_, ?_⟩
  · intro m; have := h2.cnt m; simp [hoff m] at this; omega
  · have := h2.bal; rw [h1.idle_run (by simp [hpc, passKind])] at this; simpa using this

/-- And it stays that way: at every later point of the history no module is online and the counts match. -/
theorem nothing_online_after_shutdown (n : Nat) (deps : Nat → List Nat) (mgmt : Bool) (hac : Acyclic n deps)
    (tr : List Ev) (s : St) (ok : Bool)
    (hrun : run (init n deps mgmt) tr = some s) (hsd : Ev.ret .shutdown ok ∈ tr) :
    (∀ m, s.status m ≠ statusOnline) ∧ (∀ m, stopsBegun tr m = startsOk tr m) := by
  obtain ⟨hreg, rank, hrank⟩ := hac
  have hr := runs_of_run hrun
  have h2 := inv2_of_runs hr
  have h3 := inv3_of_runs hreg rank hrank hr
  have h4 := inv4_of_runs hr
  obtain ⟨hflag, hpc⟩ := h4.after_sd ⟨ok, hsd⟩
  have hoff := h3.down hflag hpc
  refine ⟨hoff, ?_⟩
  intro m; have := h2.cnt m; simp [hoff m] at this; omega

/-- Whenever Start, ManageModules or Shutdown returns — with or without error — every callback that has
    begun has ended: nothing keeps starting or stopping behind the caller's back. -/
theorem no_callback_running_when_call_returns (n : Nat) (deps : Nat → List Nat) (mgmt : Bool)
    (tr : List Ev) (s s' : St) (a : Api) (ok : Bool)
    (hrun : run (init n deps mgmt) tr = some s) (hret : step s (.ret a ok) = some s') :
    begun tr = ended tr ∧ ∀ m, s.status m ≠ statusStarting ∧ s.status m ≠ statusStopping := by
  have hr := runs_of_run hrun
  have h1 := inv1_of_runs hr
  have h2 := inv2_of_runs hr
  obtain ⟨hpc, _⟩ := stepRet_some hret
  have hrun0 : s.running = [] := h1.idle_run (by simp [hpc, passKind])
  refine ⟨?_, ?_⟩
  · have := h2.bal; rw [hrun0] at this; simpa using this
  · intro m
    exact ⟨fun h => by have := h1.starting_run m h; simp [hrun0] at this,
           fun h => by have := h1.stopping_run m h; simp [hrun0] at this⟩

/-! ### What the run states of (a) and (b) mean, in terms of events only -/

/-- Run state 2 ("finished starting successfully"): the last start/stop event of `d` in the history is
    the successful end of its start routine. -/
theorem lifeOf_eq_two_iff (tr : List Ev) (d : Nat) :
    lifeOf tr d = 2 ↔ lastTouch d tr = some (.fin .start d true) := by
  rw [lifeOf_eq_lastTouch]
  cases h : lastTouch d tr with
  | none => simp
  | some e =>
    have ht := lastTouch_touches h
    cases e with
    | beg k m => cases k <;> simp [lifeCodeOf]
    | fin k m ok =>
      cases k <;> cases ok <;> simp [lifeCodeOf, touches] at ht ⊢
      exact ht
    | _ => simp [touches] at ht

/-- Run state 0 ("not started or completely stopped"): `r` has no start/stop event at all, or the last
    one is a failed start or the end of its stop routine. -/
theorem lifeOf_eq_zero_iff (tr : List Ev) (r : Nat) :
    lifeOf tr r = 0 ↔ lastTouch r tr = none ∨ lastTouch r tr = some (.fin .start r false) ∨
      ∃ ok, lastTouch r tr = some (.fin .stop r ok) := by
  rw [lifeOf_eq_lastTouch]
  cases h : lastTouch r tr with
  | none => simp
  | some e =>
    have ht := lastTouch_touches h
    cases e with
    | beg k m => cases k <;> simp [lifeCodeOf, touches] at ht ⊢
    | fin k m ok =>
      cases k <;> cases ok <;> simp [lifeCodeOf, touches] at ht ⊢
      all_goals first | exact ht | exact ht.symm
    | _ => simp [touches] at ht

/-! ### Non-vacuity: concrete histories that the model runs, meeting the hypotheses above -/

example : Acyclic 4 diamond :=
  ⟨by intro m hm d hd; match m, hm with
      | 0, _ => simp [diamond] at hd
      | 1, _ => simp [diamond] at hd; omega
      | 2, _ => simp [diamond] at hd; omega
      | 3, _ => simp [diamond] at hd; omega,
   id, by intro m hm d hd; match m, hm with
      | 0, _ => simp [diamond] at hd
      | 1, _ => simp [diamond] at hd; simp [hd]
      | 2, _ => simp [diamond] at hd; simp [hd]
      | 3, _ => simp [diamond] at hd; rcases hd with rfl | rfl <;> simp⟩

/-- Start with overlapping callbacks (1 and 2 start and stop concurrently, a stop fails), then Shutdown. -/
example : (run (init 4 diamond false) diamondHistory).isSome = true := by decide

/-- the same graph: 3's start would begin before its dependency 2 is online — not a run of the model -/
example : (run (init 4 diamond false)
    [.call .start, .beg .prep 0, .fin .prep 0 true, .beg .prep 2, .beg .prep 1, .fin .prep 1 true, .fin .prep 2 true,
     .beg .prep 3, .fin .prep 3 true, .passEnd,
     .beg .start 0, .fin .start 0 true, .beg .start 1, .beg .start 2, .fin .start 1 true, .beg .start 3]).isSome = false := by
  decide

/-- "B depends on A, B fails to start, Shutdown": Start returns an error only after everything it launched
    has reported, B is back in Offline, and Shutdown stops A. -/
example : (run (init 2 (fun m => if m = 1 then [0] else []) false)
    [.call .start, .beg .prep 0, .fin .prep 0 true, .beg .prep 1, .fin .prep 1 true, .passEnd,
     .beg .start 0, .fin .start 0 true, .beg .start 1, .fin .start 1 false, .passEnd, .ret .start false,
     .call .shutdown, .beg .stop 0, .fin .stop 0 true, .passEnd, .ret .shutdown true]).isSome = true := by
  decide

/-- … and Shutdown cannot return while A is still online. -/
example : (run (init 2 (fun m => if m = 1 then [0] else []) false)
    [.call .start, .beg .prep 0, .fin .prep 0 true, .beg .prep 1, .fin .prep 1 true, .passEnd,
     .beg .start 0, .fin .start 0 true, .beg .start 1, .fin .start 1 false, .passEnd, .ret .start false,
     .call .shutdown, .passEnd]).isSome = false := by
  decide

/-- Module management: only 2 is enabled, so 2 and its dependency 0 start; then 3 is enabled and a
    management pass brings up 1 and 3; disabling everything stops all four in order. -/
example : (run (init 4 diamond true)
    [.enable 2, .call .start,
     .beg .prep 0, .fin .prep 0 true, .beg .prep 1, .fin .prep 1 true, .beg .prep 2, .fin .prep 2 true,
     .beg .prep 3, .fin .prep 3 true, .passEnd,
     .beg .start 0, .fin .start 0 true, .beg .start 2, .fin .start 2 true, .passEnd, .ret .start true,
     .enable 3, .call .manage, .passEnd, .beg .start 1, .fin .start 1 true, .beg .start 3, .fin .start 3 true,
     .passEnd, .ret .manage true,
     .disable 2, .disable 3, .call .manage, .beg .stop 3, .fin .stop 3 true, .beg .stop 1, .beg .stop 2,
     .fin .stop 2 true, .fin .stop 1 true, .beg .stop 0, .fin .stop 0 true, .passEnd, .passEnd, .ret .manage true]).isSome = true := by
  decide

end PB.C01
