import PBProofs.Lemmas.DbApi
/-
C13 — Every database-API message gets the replies its protocol prescribes.

Property theorems only (helper lemmas live in PBProofs/Lemmas/DbApi.lean). The model
(PB/Model/DbApi.lean) describes api/database.go after the `fix:` commits listed in notes/c13.md;
the reply protocol is PB/Spec/DbApiProto.lean.

Quantifiers: all byte strings as messages; all observation sequences of a handler (= every behaviour
of its environment: database results, iterator and feed contents, cancels closing them, concurrent
writes feeding them, the teardown signal); all interleavings of any number of handlers on a
connection; all request histories against the abstract database.
-/
set_option linter.unusedSimpArgs false
set_option linter.unusedVariables false

namespace PB.C13
open PB PB.DbApi PB.DbApiProto

/-! ### 1. Classification: total, and every non-malformed class has exactly one wire form -/

/-- Every well-formed request is classified as itself (no well-formed request is taken for
    malformed, or for another command). -/
theorem classify_render (m : Msg) (hwf : WF m) : classify (render m) = m := by
  cases m with
  | malformed => exact absurd hwf (by simp [WF])
  | unknown op => exact absurd hwf (by simp [WF])
  | cancel op =>
    simp only [WF] at hwf
    have h1 : cut bar (op ++ bar :: sCancel) = some (op, sCancel) := cut_append bar op sCancel hwf
    have h2 : cut bar sCancel = none := by decide
    simp [classify, render, h1, h2]
  | read c op arg =>
    simp only [WF] at hwf
    have h1 : cut bar (op ++ bar :: (c.bytes ++ bar :: arg)) = some (op, c.bytes ++ bar :: arg) :=
      cut_append bar op _ hwf
    have h2 : cut bar (c.bytes ++ bar :: arg) = some (c.bytes, arg) := cut_append bar _ _ (rcmd_bytes_nobar c)
    simp [classify, render, h1, h2, rcmdOf_bytes]
  | write c op key payload =>
    simp only [WF] at hwf
    have h1 : cut bar (op ++ bar :: (c.bytes ++ bar :: (key ++ bar :: payload))) =
        some (op, c.bytes ++ bar :: (key ++ bar :: payload)) := cut_append bar op _ hwf.1
    have h2 : cut bar (c.bytes ++ bar :: (key ++ bar :: payload)) = some (c.bytes, key ++ bar :: payload) :=
      cut_append bar _ _ (wcmd_bytes_nobar c)
    have h3 : cut bar (key ++ bar :: payload) = some (key, payload) := cut_append bar _ _ hwf.2
    simp [classify, render, h1, h2, h3, rcmdOf_wbytes, wcmdOf_bytes]

/-- Conversely: whatever is dispatched to a handler is a well-formed request and the message is its
    wire form — so the classes are exclusive and nothing else reaches a handler. -/
theorem classify_sound (b : Bytes) (hs : (classify b).spawns = true) :
    WF (classify b) ∧ render (classify b) = b := by
  unfold classify at hs ⊢
  cases h1 : cut bar b with
  | none => simp [h1, Msg.spawns] at hs
  | some p1 =>
    obtain ⟨op, r1⟩ := p1
    obtain ⟨e1, n1⟩ := cut_some bar b op r1 h1
    simp only [h1] at hs ⊢
    cases h2 : cut bar r1 with
    | none =>
      simp only [h2] at hs ⊢
      by_cases hc : r1 = sCancel
      · simp [hc, WF, render, n1, e1]
      · simp [hc, Msg.spawns] at hs
    | some p2 =>
      obtain ⟨cmd, arg⟩ := p2
      obtain ⟨e2, n2⟩ := cut_some bar r1 cmd arg h2
      simp only [h2] at hs ⊢
      cases h3 : rcmdOf cmd with
      | some c =>
        have := rcmdOf_some cmd c h3
        simp [WF, render, n1, e1, e2, this]
      | none =>
        simp only [h3] at hs ⊢
        cases h4 : wcmdOf cmd with
        | none => simp [h4, Msg.spawns] at hs
        | some c =>
          simp only [h4] at hs ⊢
          cases h5 : cut bar arg with
          | none => simp [h5, Msg.spawns] at hs
          | some p3 =>
            obtain ⟨key, payload⟩ := p3
            obtain ⟨e3, n3⟩ := cut_some bar arg key payload h5
            have := wcmdOf_some cmd c h4
            simp [WF, render, n1, n3, e1, e2, e3, this]

/-- A malformed message / unknown method yields exactly one error reply (sent by Handle itself),
    which is a complete conversation for it; everything else is dispatched to exactly one handler. -/
theorem unspawned_answered_with_one_error (b : Bytes) (hs : (classify b).spawns = false) :
    ∃ e, syncReplies (classify b) = [errReply (classify b).op e] ∧
      Conforms (classify b).kind (tys (syncReplies (classify b))) := by
  generalize classify b = m at hs ⊢
  cases m <;> simp [Msg.spawns] at hs
  · exact ⟨.malformed, rfl, .fin, by simp [syncReplies, tys, errReply, Msg.kind, init, run, delta], trivial⟩
  · exact ⟨.unknown, rfl, .fin, by simp [syncReplies, tys, errReply, Msg.kind, init, run, delta], trivial⟩

/-! ### 2. Every handler follows its protocol, whatever its environment does -/

/-- At every moment, under every behaviour of the environment, what a handler has sent so far is a
    legal beginning of its request's conversation. -/
theorem replies_conform (m : Msg) (hs : m.spawns = true) (obs : List Obs) :
    ConformsPrefix m.kind (tys (runPc (.start m) obs).2) := by
  obtain ⟨p, hr, _⟩ := runPc_sim (.start m) obs (init m.kind) (by simp [sim, hs])
  exact ⟨p, hr⟩

/-- When a handler has returned (without connection teardown) its request's conversation is complete:
    get: one ok|error; query: (ok|warning)* then exactly one done|error; sub/qsub: ended by done (or
    refused by an error); create/update/insert/delete: exactly one success|error; cancel: silent or one error. -/
theorem replies_conform_returned (m : Msg) (hs : m.spawns = true) (obs : List Obs)
    (hfin : (runPc (.start m) obs).1 = .fin) : Conforms m.kind (tys (runPc (.start m) obs).2) := by
  obtain ⟨p, hr, hsim⟩ := runPc_sim (.start m) obs (init m.kind) (by simp [sim, hs])
  rw [hfin] at hsim
  exact ⟨p, hr, (completeB_iff p).mp (by simpa [sim] using hsim)⟩

/-- A handler that returned because of the connection teardown was a query or subscription in some
    legal intermediate phase; it sent nothing on that occasion. -/
theorem replies_conform_teardown (m : Msg) (hs : m.spawns = true) (obs : List Obs)
    (hdown : (runPc (.start m) obs).1 = .down) :
    ∃ p, run (init m.kind) (tys (runPc (.start m) obs).2) = some p ∧ Open p := by
  obtain ⟨p, hr, hsim⟩ := runPc_sim (.start m) obs (init m.kind) (by simp [sim, hs])
  rw [hdown] at hsim
  exact ⟨p, hr, (openB_iff p).mp (by simpa [sim] using hsim)⟩

/-- One-shot requests: a returned get / create / update / insert / delete handler has sent exactly one reply. -/
theorem one_shot_exactly_one_reply (m : Msg) (hs : m.spawns = true) (hk : m.kind = .get ∨ m.kind = .write)
    (obs : List Obs) (hfin : (runPc (.start m) obs).1 = .fin) :
    ((runPc (.start m) obs).2).length = 1 ∧
      (m.kind = .get → tys (runPc (.start m) obs).2 = [.ok] ∨ tys (runPc (.start m) obs).2 = [.error]) ∧
      (m.kind = .write → tys (runPc (.start m) obs).2 = [.success] ∨ tys (runPc (.start m) obs).2 = [.error]) := by
  obtain ⟨p, hr, hsim⟩ := runPc_sim (.start m) obs (init m.kind) (by simp [sim, hs])
  rw [hfin] at hsim
  have hc : completeB p = true := by simpa [sim] using hsim
  have hlen : ∀ l : List Reply, (tys l = [.ok] ∨ tys l = [.error] ∨ tys l = [.success]) → l.length = 1 := by
    intro l h
    have : (tys l).length = 1 := by rcases h with h | h | h <;> simp [h]
    simpa [tys] using this
  rcases hk with hk | hk
  · rw [hk] at hr
    have := run_get1 _ p hr hc
    refine ⟨hlen _ (by rcases this with h | h <;> simp [h]), fun _ => this, fun h => by simp [hk] at h⟩
  · rw [hk] at hr
    have := run_write1 _ p hr hc
    refine ⟨hlen _ (by rcases this with h | h <;> simp [h]), fun h => by simp [hk] at h, fun _ => this⟩

/-- Queries: zero or more records (ok, or warning for a record that cannot be marshalled) and then
    exactly one done or error — also when the iterator was cancelled under the handler. -/
theorem query_replies_shape (op arg : Bytes) (obs : List Obs)
    (hfin : (runPc (.start (.read .query op arg)) obs).1 = .fin) :
    ∃ recs t, tys (runPc (.start (.read .query op arg)) obs).2 = recs ++ [t] ∧
      (∀ x ∈ recs, x = .ok ∨ x = .warning) ∧ (t = .done ∨ t = .error) := by
  obtain ⟨p, hr, hsim⟩ := runPc_sim (.start (.read .query op arg)) obs .q (by simp [sim, Msg.spawns, Msg.kind, init])
  rw [hfin] at hsim
  exact run_q _ p hr (by simpa [sim] using hsim)

/-- Subscriptions: once the feed is closed (cancel) the loop answers `done` and returns; a returned
    handler never sends again. -/
theorem sub_closed_then_done (op : Bytes) (e : Option Err) (obs : List Obs) :
    runPc (.sloop op) (.closed e :: obs) = (.fin, [{ op := op, ty := .done }]) := by
  have hfin : ∀ os : List Obs, runPc .fin os = (.fin, []) := by
    intro os
    induction os with
    | nil => rfl
    | cons o os ih => simp [runPc, step, ih]
  simp [runPc, step, stepSub, hfin]

/-! ### 3. Replies carry the request's operation ID -/

theorem replies_carry_opid (m : Msg) (obs : List Obs) :
    (∀ r ∈ (runPc (.start m) obs).2, r.op = m.op) ∧ (∀ r ∈ syncReplies m, r.op = m.op) := by
  refine ⟨runPc_op (.start m) obs m.op (Or.inl rfl), ?_⟩
  cases m <;> simp [syncReplies, errReply, Msg.op]

/-- On the wire: the client reads the operation ID back off every reply built by `send`. -/
theorem wire_carries_opid (op : Bytes) (ty : RType) (k d : Bytes) (h : bar ∉ op) :
    wireOp (send op ty k d) = op := by
  unfold wireOp send
  have : cut bar (op ++ bar :: (rtypeBytes ty ++ ((if k = [] then [] else [bar] ++ k) ++ (if d = [] then [] else [bar] ++ d)))) =
      some (op, rtypeBytes ty ++ ((if k = [] then [] else [bar] ++ k) ++ (if d = [] then [] else [bar] ++ d))) :=
    cut_append bar op _ h
  simp only [List.append_assoc, List.singleton_append] at this ⊢
  simp [this]

/-! ### 4. Every interleaving of concurrently handled requests -/

/-- For every sequence of message deliveries and handler steps — any number of handlers, any
    interleaving, any observations (cancels, concurrent writes feeding subscriptions, teardown) — the
    trace of requests and replies is accepted: per operation ID the replies can be attributed to the
    requests issued under it such that each request's replies follow its protocol. -/
theorem every_interleaving_accepted (acts : List Act) : Accepted (connRun {} acts).trace := by
  obtain ⟨cfg, hcfg, _⟩ := good_run {} acts good_init
  intro hnil
  rw [hnil] at hcfg
  cases hcfg

/-- A reply handed to the send function is final: whatever is delivered or done afterwards (any messages, any
    handler steps, any observations), the trace so far stays as it is — later activity only appends. In the model
    requests and replies are values; no reply shares storage with the request buffer or with a later reply. The
    correspondence run ties exactly this to the code: the harness' send function keeps the slices it is given and
    reads them again after later operations (`late`), requests arrive in buffers with spare capacity. -/
theorem sent_replies_are_final (c : Conn) (acts : List Act) :
    ∃ more, (connRun c acts).trace = c.trace ++ more := by
  induction acts generalizing c with
  | nil => exact ⟨[], by simp [connRun]⟩
  | cons a as ih =>
    obtain ⟨m2, h2⟩ := ih (connStep c a)
    have h1 : ∃ m1, (connStep c a).trace = c.trace ++ m1 := by
      cases a with
      | deliver msg =>
        refine ⟨[.req (classify msg).op (classify msg).kind] ++
          (if (classify msg).spawns then [] else (syncReplies (classify msg)).map evOfReply), ?_⟩
        simp only [connStep, List.append_assoc]
      | tstep i o =>
        simp only [connStep]
        cases c.threads[i]? with
        | none => exact ⟨[], by simp⟩
        | some t => exact ⟨_, rfl⟩
    obtain ⟨m1, h1⟩ := h1
    exact ⟨m1 ++ m2, by simp only [connRun]; rw [h2, h1, List.append_assoc]⟩

/-- The executable trace acceptor (run by the tie on recorded traces of the real code) accepts exactly
    the traces that can be explained: every request opens a conversation in its kind's initial phase and
    every reply advances ONE conversation of its own operation ID by a step the protocol allows. -/
theorem acceptor_decides_explanation (es : List Ev) :
    Accepted es ↔ ∃ c', Explained [] es c' := by
  unfold Accepted
  constructor
  · intro h
    cases hl : accRun accInit es with
    | nil => exact absurd hl h
    | cons c' rest =>
      have : c' ∈ accRun accInit es := by rw [hl]; simp
      obtain ⟨c, hc, he⟩ := (accRun_iff accInit es c').mp this
      simp [accInit] at hc
      subst hc
      exact ⟨c', he⟩
  · rintro ⟨c', he⟩ hnil
    have : c' ∈ accRun accInit es := (accRun_iff accInit es c').mpr ⟨[], by simp [accInit], he⟩
    rw [hnil] at this
    cases this

/-- In an explanation every request's phase is the one the protocol automaton reaches over the replies
    attributed to that request (so each request's own replies form a legal conversation prefix). -/
theorem explained_conversations_reachable (es : List Ev) (c' : Config) (h : Explained [] es c') :
    ∀ r ∈ c', ∃ ts, run (init r.kind) ts = some r.ph :=
  explained_reach [] c' es h (by simp)

/-! ### 5. A record written through the API is read back unchanged (plus `_meta`) -/

/-- After an acknowledged create/update of `key` with payload `f :: body` in a key/record store,
    and after any further history of requests that neither write nor delete that key, `get key`
    answers with exactly one reply: the record with the written JSON content (to which MarshalRecord adds
    the `_meta` section) if the payload was a JSON object in JSON format — and an error otherwise. -/
theorem written_record_reads_back (st : St) (msg : Bytes) (an : Annot) (c : WCmd) (op key : Bytes)
    (f b : UInt8) (rest : Bytes)
    (hc : classify msg = .write c op key (f :: b :: rest)) (hci : c ≠ .insert)
    (hack : ({ op := op, ty := .success } : Reply) ∈ (handle st msg an).2)
    (hplain : (slot st.dbs (parseKey key).1 (parseKey key).2).map (·.1) = some .plain)
    (hist : List (Bytes × Annot))
    (hnt : ∀ x ∈ hist, ¬ touches x.1 (parseKey key).1 (parseKey key).2)
    (getMsg : Bytes) (an2 : Annot) (op2 : Bytes) (hg : classify getMsg = .read .get op2 key) :
    (handle (runMsgs (handle st msg an).1 hist) getMsg an2).2 =
      if f = fmtJSON ∧ an.obj = true then
        [{ op := op2, ty := .ok, key := fullKey (parseKey key).1 (parseKey key).2,
           data := some { json := b :: rest, untracked := false } }]
      else [errReply op2 (if f = fmtJSON then .other else .format)] := by
  have h1 := put_ack_slot st msg an c op key f b rest hc hci hack hplain
  have h2 := runMsgs_frame (handle st msg an).1 hist _ _ hnt
  rw [handle_get _ getMsg an2 op2 key hg]
  simp only [getAnswer]
  rw [getRec_of_slot _ key _ (h2.trans h1)]
  by_cases hf : f = fmtJSON
  · by_cases ho : an.obj = true
    · simp [permitted, marshal, hf, ho]
    · simp [permitted, marshal, hf, ho]
  · simp [permitted, marshal, hf]

/-- A create / update / insert / delete that is answered with an error has changed no record of any
    database (in particular an insert of which a later value is refused leaves nothing of the earlier
    values behind). -/
theorem refused_write_changes_nothing (st : St) (msg : Bytes) (an : Annot) (op : Bytes) (e : Err)
    (hk : (classify msg).kind = .write)
    (herr : (handle st msg an).2 = [errReply op e]) : (handle st msg an).1.dbs = st.dbs :=
  refused_write_dbs st msg an op e hk herr

/-! ### Non-vacuity -/

-- classification of concrete messages: `7|get|db:k`, `7|cancel`, `7|create|db:k|J{}`, `x`, `7|foo|y`, `7|create|db:k`
example : classify [55, 124, 103, 101, 116, 124, 100, 98, 58, 107] = .read .get [55] [100, 98, 58, 107] := by decide
example : classify [55, 124, 99, 97, 110, 99, 101, 108] = .cancel [55] := by decide
example : classify [55, 124, 99, 114, 101, 97, 116, 101, 124, 100, 98, 58, 107, 124, 74, 123, 125] =
    .write .create [55] [100, 98, 58, 107] [74, 123, 125] := by decide
example : classify [120] = .malformed := by decide
example : classify [55, 124, 102, 111, 111, 124, 121] = .unknown [55] := by decide
example : classify [55, 124, 99, 114, 101, 97, 116, 101, 124, 100, 98, 58, 107] = .malformed := by decide

-- a query whose iterator yields a record, a record that cannot be marshalled, and is then closed
example :
    let r1 : RecView := { key := [107], marshal := .ok { json := [123, 125], untracked := false }, deleted := false, isNew := true }
    let r2 : RecView := { key := [108], marshal := .error .format, deleted := false, isNew := true }
    tys (runPc (.start (.read .query [55] [])) [.res (.ok ()), .item r1, .item r2, .closed none]).2 = [.ok, .warning, .done] := by
  decide

-- a qsub: query part, done, then notifications, cancelled (feed closed), done
example :
    let r1 : RecView := { key := [107], marshal := .ok { json := [123, 125], untracked := false }, deleted := false, isNew := false }
    let r2 : RecView := { key := [107], marshal := .ok { json := [], untracked := false }, deleted := true, isNew := false }
    runPc (.start (.read .qsub [55] [])) [.res (.ok ()), .res (.ok ()), .item r1, .closed none, .item r1, .item r2, .closed none]
      = (.fin, [{ op := [55], ty := .ok, key := [107], data := some { json := [123, 125], untracked := false } },
                { op := [55], ty := .done },
                { op := [55], ty := .upd, key := [107], data := some { json := [123, 125], untracked := false } },
                { op := [55], ty := .del, key := [107] },
                { op := [55], ty := .done }]) := by
  decide

-- an interleaving: a query and a get under the same operation ID, their replies interleaved, plus a malformed message
example :
    let r1 : RecView := { key := [107], marshal := .ok { json := [123, 125], untracked := false }, deleted := false, isNew := true }
    (connRun {} [.deliver [55, 124, 113, 117, 101, 114, 121, 124, 113], .deliver [55, 124, 103, 101, 116, 124, 107], .deliver [120],
                 .tstep 0 (.res (.ok ())), .tstep 0 (.item r1), .tstep 1 (.got (.error .notfound)), .tstep 0 (.closed none)]).trace
      = [.req [55] .query, .req [55] .get, .req [] .bad, .rep [] .error, .rep [55] .ok, .rep [55] .error, .rep [55] .done] := by
  decide

-- the acceptor does reject: a second terminator for a query, a reply under a foreign operation ID
example : accRun accInit [.req [55] .query, .rep [55] .done, .rep [55] .done] = [] := by decide
example : accRun accInit [.req [55] .get, .rep [56] .ok] = [] := by decide
example : ¬ Conforms .get [.ok, .ok] := by
  intro ⟨p, h, _⟩
  simp [run, init, delta] at h

-- a refused insert (no accessor: the record is CBOR) answers with one error and changes nothing
example :
    let st : St := { dbs := [{ name := [100, 98], kind := .plain, recs := [([107], { fmt := 67, data := [1] })] }] }
    (handle st [49, 124, 105, 110, 115, 101, 114, 116, 124, 100, 98, 58, 107, 124, 123, 125] {}).2 = [errReply [49] .noacc] := by
  decide

-- read back in a concrete database: create db:k with J{} then get
example :
    let st : St := { dbs := [{ name := [100, 98], kind := .plain }] }
    let st1 := (handle st [49, 124, 99, 114, 101, 97, 116, 101, 124, 100, 98, 58, 107, 124, 74, 123, 125] {}).1
    (handle st1 [50, 124, 103, 101, 116, 124, 100, 98, 58, 107] {}).2 =
      [{ op := [50], ty := .ok, key := [100, 98, 58, 107], data := some { json := [123, 125], untracked := false } }] := by
  decide

end PB.C13
