import PBProofs.Lemmas.ManagedInv
import PBProofs.Lemmas.ManagedStop
/-
C06 — A panic in managed code is contained, reported and leaves accounting intact.

Theorems about `PB.Managed` (lean/PB/Model/Managed.lean): any number of managed executions of every kind
(RunWorker/StartWorker, event hooks, API requests, service workers, tasks, microtasks, prep/start/stop
routines), each with an arbitrary sequence of outcomes `ok | err | canceled | restart | panic v` of its user
function, interleaved arbitrarily (`run` over any list of actions, new items arriving at any time).
`Reachable s` = some interleaving leads from an idle module to `s`.
-/
namespace PB.C06
open PB.Managed

/-- Accounting, at every moment of every interleaving: each work counter (`workerCnt`, `taskCnt`,
    `microTaskCnt`, global `microTasks`) is exactly the number of items currently between their increment
    and their decrement — whatever the functions of other items returned or panicked with. -/
theorem counters_count_running_items (s : St) (h : Reachable s) :
    s.w = sumBy Item.cw s.items ∧ s.t = sumBy Item.ct s.items ∧ s.m = sumBy Item.cm s.items ∧
    s.g = sumBy Item.cg s.items ∧ (s.c = true ↔ sumBy Item.cc s.items = 1) := by
  have hi := reachable_inv h
  refine ⟨hi.w, hi.t, hi.m, hi.g, ?_⟩
  have := hi.c
  cases hc : s.c <;> simp [hc] at this ⊢ <;> omega

/-- An item that has finished — normally, with an error or by a panic, after any number of runs — has left
    no trace in any counter: they are what the *other* items account for. -/
theorem finished_item_leaves_no_trace (s : St) (h : Reachable s) (i : Nat) (it : Item)
    (hit : s.items[i]? = some it) (hd : it.done = true) (x : Item) (hx : x.done = true) :
    s.w = sumBy Item.cw (s.items.set i x) ∧ s.t = sumBy Item.ct (s.items.set i x) ∧
    s.m = sumBy Item.cm (s.items.set i x) ∧ s.g = sumBy Item.cg (s.items.set i x) := by
  have hi := reachable_inv h
  obtain ⟨a1, a2, a3, a4, _, _⟩ := done_contrib it hd
  obtain ⟨b1, b2, b3, b4, _, _⟩ := done_contrib x hx
  simp only [sumBy_set _ _ _ _ _ hit, a1, a2, a3, a4, b1, b2, b3, b4]
  have := hi.w; have := hi.t; have := hi.m; have := hi.g
  omega

/-- Counters restored: when everything that was started has finished, all four counters are back at zero
    and `ctrlFuncRunning` is unset — for every number of items, every kind, every outcome sequence
    (any number of panics with any values) and every interleaving. -/
theorem counters_restored (s : St) (h : Reachable s) (hd : s.allDone = true) :
    s.w = 0 ∧ s.t = 0 ∧ s.m = 0 ∧ s.g = 0 ∧ s.c = false := by
  have hi := reachable_inv h
  have hall := (allDone_iff s).mp hd
  have z := fun (f : Item → Int) (hf : ∀ it, it.done = true → f it = 0) =>
    sumBy_all_zero f s.items (fun a ha => hf a (hall a ha))
  have zw := z Item.cw (fun it h => (done_contrib it h).1)
  have zt := z Item.ct (fun it h => (done_contrib it h).2.1)
  have zm := z Item.cm (fun it h => (done_contrib it h).2.2.1)
  have zg := z Item.cg (fun it h => (done_contrib it h).2.2.2.1)
  have zc := z Item.cc (fun it h => (done_contrib it h).2.2.2.2.1)
  refine ⟨by rw [hi.w, zw], by rw [hi.t, zt], by rw [hi.m, zm], by rw [hi.g, zg], ?_⟩
  have := hi.c
  cases hc : s.c <;> simp [hc] at this ⊢
  omega

/-- Panic → panic error (blocking run variants RunWorker and Run*MicroTask): if the last run of the user
    function panicked with `v`, the call returns an error that identifies itself as a panic, carries exactly
    the value `recover()` delivered (never the nil interface) and a stack trace. -/
theorem panic_becomes_panic_error (s : St) (h : Reachable s) (i : Nat) (it : Item) (v : PCls)
    (hit : s.items[i]? = some it) (hk : it.kind = .runWorker ∨ it.kind = .mt true)
    (hd : it.done = true) (hp : it.cur = .panic v) :
    ∃ r, it.ret = some (.panicErr r) ∧ r.isPanic = true ∧ r.val = recovered v ∧ r.val ≠ .nil ∧ r.stack = true ∧
      (r.typ = .worker ∨ r.typ = .microtask) := by
  have hl := (reachable_inv h).loc i it hit
  rcases hk with hk | hk
  · have hpc : it.pc = 5 := by simpa [Item.done, hk] using hd
    have := hl.retW (Or.inl hk) (by omega)
    rw [hp, recoverRet_panic] at this
    exact ⟨panicReport .worker v, this, by simp [Report.isPanic, panicReport], by simp [panicReport],
      by simp [panicReport, recovered_ne_nil], by simp [panicReport], Or.inl (by simp [panicReport])⟩
  · have hpc : it.pc = 7 := by simpa [Item.done, hk] using hd
    have := hl.retM true hk (by omega)
    rw [hp, recoverRet_panic] at this
    exact ⟨panicReport .microtask v, this, by simp [Report.isPanic, panicReport], by simp [panicReport],
      by simp [panicReport, recovered_ne_nil], by simp [panicReport], Or.inr (by simp [panicReport])⟩

/-- … and without a panic the blocking variants hand the function's own result through unchanged. -/
theorem run_variant_returns_function_result (s : St) (h : Reachable s) (i : Nat) (it : Item)
    (hit : s.items[i]? = some it) (hk : it.kind = .runWorker ∨ it.kind = .mt true)
    (hd : it.done = true) (hp : it.cur.isPanic = false) :
    it.ret = some (match it.cur with | .err => .err | .canceled => .canceled | .restart => .restart | _ => .nil) := by
  have hl := (reachable_inv h).loc i it hit
  rcases hk with hk | hk
  · have hpc : it.pc = 5 := by simpa [Item.done, hk] using hd
    have := hl.retW (Or.inl hk) (by omega)
    cases hc : it.cur <;> simp_all [recoverRet, Outcome.isPanic]
  · have hpc : it.pc = 7 := by simpa [Item.done, hk] using hd
    have := hl.retM true hk (by omega)
    cases hc : it.cur <;> simp_all [recoverRet, Outcome.isPanic]

/-- API requests: a handler function that panics before it has written anything is answered with status 500,
    and the surrounding RunWorker returns nil (the handler-level recover has already dealt with the panic) —
    with dev mode off (plain page) and on (page with the panic value and the stack trace). -/
theorem api_panic_answers_500 (s : St) (h : Reachable s) (i : Nat) (it : Item) (v : PCls) (dev : Bool)
    (hit : s.items[i]? = some it) (hk : it.kind = .api false dev) (hd : it.done = true) (hp : it.cur = .panic v) :
    it.http = 500 ∧ it.ret = some .nil ∧ it.detail = dev := by
  have hl := (reachable_inv h).loc i it hit
  have hpc : it.pc = 5 := by simpa [Item.done, hk] using hd
  have := hl.api false dev hk (by omega)
  rw [hp] at this
  simp [httpStatus, Outcome.isPanic] at this
  exact ⟨this.2.1, this.1, this.2.2⟩

/-- API requests: the handler-level recover reports the panic through the module error channel — with the value
    `recover()` delivered, type "custom" — in both branches of its `if devMode()`, before it answers. -/
theorem api_panic_is_reported_in_every_mode (env : Env) (it : Item) (aw dev : Bool) (v : PCls)
    (hk : it.kind = .api aw dev) (hp : it.pc = 2) (hc : it.cur = .panic v) :
    ∃ it', itemStep env it false = some (it', { rep := some (panicReport .custom v) }) ∧
      it'.reps = it.reps + 1 ∧ it'.ret = some .nil ∧ it'.http = (if aw then 202 else 500) ∧ it'.detail = dev := by
  cases dev <;>
    simp [itemStep, workerStep, hk, hp, hc, recovered_ne_nil, httpStatus]

/-- Reported once: when all items have finished, the number of reports handed to `Report()` — delivered on
    the error channel or dropped because it was full — equals the number of panics raised, over all items,
    all their runs and all interleavings. -/
theorem reported_once (s : St) (h : Reachable s) (hd : s.allDone = true) :
    s.feed.length + s.dropped = sumNat Item.pans s.items := by
  have hi := reachable_inv h
  have hall := (allDone_iff s).mp hd
  rw [hi.reps]
  apply sumNat_congr
  intro it hit
  have := (inv_loc_mem hi hit).bal
  rw [done_pendingReport it (hall it hit)] at this
  omega

/-- … and none is lost as long as the channel (set, of capacity `cap`) has room — whether or not anybody
    reads it: then the feed holds exactly one report per panic. -/
theorem every_panic_delivered_when_channel_has_room (s : St) (h : Reachable s) (hd : s.allDone = true)
    (hset : s.chanSet = true) (hroom : sumNat Item.pans s.items ≤ s.cap) :
    s.dropped = 0 ∧ s.feed.length = sumNat Item.pans s.items := by
  have hi := reachable_inv h
  have h1 := reported_once s h hd
  obtain ⟨_, _, _, h4⟩ := hi.cap
  simp [hset] at h4
  omega

/-- The source has the shape the model is written over (regenerated from /repo on every run): `ModuleError`
    declares none of `Unwrap` / `Is` / `As`; the switch of `runServiceWorker` has exactly these cases in this
    order; `Report()` takes the lock, sets `lastReportedError`, and sends with `select { case ch <- me: default: }`; the
    handler-level recover of the API creates and reports the panic error first and answers — dev-mode page or plain
    page, both 500 — afterwards. -/
theorem source_shape :
    PB.Gen.Managed.moduleErrorChainMethods = [] ∧
    PB.Gen.Managed.svcSwitch = [("err == nil", "return"), ("errors.Is(err, context.Canceled)", "return"),
      ("errors.Is(err, ErrRestartNow)", "loop"), ("default", "backoff")] ∧
    PB.Gen.Managed.reportSend = "select-default" ∧
    PB.Gen.Managed.reportSeq = ["lock", "defer unlock", "last = me", "send", "stderr"] ∧
    PB.Gen.Managed.apiRecoverSeq = ["new", "report", "if devMode { respond 500 detail } else { respond 500 plain }"] ∧
    -- `stopAllTasks` receives the stop routine's result into its own `err` — the one it reports to the pass — where
    -- its wait ends by completion (blocking receive) and where it ends by the stop timeout (receive or give up)
    PB.Gen.Managed.stopFetch = [("completed", "recv", "="), ("timeout", "select-default", "=")] ∧
    PB.Gen.Managed.stopReportErr = "err" ∧
    fetchAssigns "completed" = true ∧ fetchAssigns "timeout" = true := by
  decide

/-- The report step, whatever the state of the channel (unset; capacity 0, 1, n; full; consumer reading,
    parked or gone): with room or a parked consumer the report is appended to the feed and nothing is dropped;
    otherwise the feed is unchanged, the report is counted as dropped and only `lastReportedError` keeps it. -/
theorem report_delivered_iff_room (s : St) (r : Report) :
    (s.canSend = true → (s.report r).feed = s.feed ++ [r] ∧ (s.report r).dropped = s.dropped) ∧
    (s.canSend = false → (s.report r).feed = s.feed ∧ (s.report r).dropped = s.dropped + 1) ∧
    (s.report r).last = some r :=
  ⟨report_delivered s r, fun h => ⟨(report_dropped s r h).1, (report_dropped s r h).2.1⟩, report_last s r⟩

/-- Reporting never blocks: `Report()` runs inside the deferred recover block, before the counters are
    decremented and before the blocking run variant returns — the send is the non-blocking one, so no state
    of the channel can hold the recovering goroutine. -/
theorem report_never_blocks (s : St) : s.reportBlocks = false := reportBlocks_false s

/-- … and it touches nothing but the channel and `lastReportedError`: counters, flags and items are as before. -/
theorem report_leaves_accounting (s : St) (r : Report) :
    (s.report r).w = s.w ∧ (s.report r).t = s.t ∧ (s.report r).m = s.m ∧ (s.report r).g = s.g ∧
    (s.report r).c = s.c ∧ (s.report r).items = s.items ∧ (s.report r).stopFlag = s.stopFlag ∧
    (s.report r).stopCompleted = s.stopCompleted := by
  simp

/-- Nothing blocks: in every reachable state — in particular with the error channel unset, full or unread —
    every unfinished managed execution can take its next step (a prep/start/stop routine only waits for the
    module's control slot). Together with `counters_restored` and `module_still_stoppable`: every execution can
    run to its end, and then the counters are back and the stop completes. -/
theorem unfinished_item_can_step (s : St) (h : Reachable s) (i : Nat) (it : Item)
    (hit : s.items[i]? = some it) (hd : it.done = false)
    (hc : (it.kind = .ctrl ∨ it.kind = .stop) → it.pc = 0 → sumBy Item.cc s.items = 0) :
    ∃ s', step s (.item i false) = some s' := by
  have hl := (reachable_inv h).loc i it hit
  obtain ⟨it', e, hs⟩ := itemStep_enabled s.env it hl.bound hd (by
    intro hk hp; simpa [St.env] using hc hk hp)
  exact ⟨s.apply i it' e, by simp [step, hit, hs, reportBlocks_false]⟩

/-- The decision of the service-worker loop as a function of what `runWorker` returned: finished only for nil
    and for a returned error that wraps context.Canceled; a panic error always takes the back-off restart. -/
theorem service_worker_decision (r : Ret) :
    svcDecide r = (match r with
      | .nil => .finished | .canceled => .finished | .restart => .restartNow | .err => .backoff
      | .panicErr _ => .backoff) := by
  cases r with
  | nil => exact svcDecide_nil
  | err => exact svcDecide_err
  | canceled => exact svcDecide_canceled
  | restart => exact svcDecide_restart
  | panicErr rp => exact svcDecide_panicErr rp

/-- A panic error matches no sentinel the managed-execution code compares with, whatever the panic value is
    (an error that is or wraps context.Canceled, ErrRestartNow, context.DeadlineExceeded, ErrCleanExit, …). -/
theorem panic_error_matches_no_sentinel (t : TType) (v : PCls) (sn : Sentinel) :
    (Ret.panicErr (panicReport t v)).is sn = false := panicErr_is_no_sentinel _ sn

/-- Every report an item program makes identifies itself as a panic and carries a non-nil value and a stack trace. -/
theorem reports_identify_as_panic (s : St) (h : Reachable s) (r : Report) (hr : r ∈ s.feed) :
    r.isPanic = true ∧ r.stack = true ∧ r.val ≠ .nil := by
  have := (reachable_inv h).feedPanic r hr
  simp [Report.isPanic, this]

/-- The clause "reported through the channel" needs the proviso: with a full (here: unbuffered, unserviced)
    channel the report of a panicking worker is dropped; only `lastReportedError` keeps it. -/
theorem report_dropped_when_channel_full :
    (run (St.init 0) [.spawn { kind := .runWorker, outs := [.panic .str] }, .item 0 false, .item 0 false,
      .item 0 false, .item 0 false, .item 0 false]).map (fun s => (s.feed.length, s.dropped, s.last, s.allDone))
      = some (0, 1, some (panicReport .worker .str), true) := by decide

/-- Lifecycle: a prep routine that panics makes `Start()` return an error (whatever the other routines do). -/
theorem start_fails_when_prep_panics (preps starts : List (Option Outcome)) (v : PCls)
    (hp : some (.panic v) ∈ preps) :
    (startResult (preps.map fun o => (runCtrl .ctrl o).1) (starts.map fun o => (runCtrl .ctrl o).1)).isSome = true := by
  have hm : CtrlRet.panicMsg ∈ preps.map (fun o => (runCtrl .ctrl o).1) :=
    List.mem_map.mpr ⟨_, hp, by rw [runCtrl_panic .ctrl (Or.inl rfl)]⟩
  have := passFirstErr_of_mem hm rfl
  unfold startResult
  split
  · rfl
  · rename_i hn; simp [hn] at this

/-- Lifecycle: a start routine that panics makes `Start()` return an error. -/
theorem start_fails_when_start_panics (preps starts : List (Option Outcome)) (v : PCls)
    (hp : some (.panic v) ∈ starts) :
    (startResult (preps.map fun o => (runCtrl .ctrl o).1) (starts.map fun o => (runCtrl .ctrl o).1)).isSome = true := by
  have hm : CtrlRet.panicMsg ∈ starts.map (fun o => (runCtrl .ctrl o).1) :=
    List.mem_map.mpr ⟨_, hp, by rw [runCtrl_panic .ctrl (Or.inl rfl)]⟩
  have := passFirstErr_of_mem hm rfl
  unfold startResult
  split
  · rfl
  · exact this

/-- The two places where `stopAllTasks` fetches the stop routine's result: once the result is on the channel (the
    routine's goroutine has reported, cleared the control flag, run its check and sent), the stopper's step — whether
    its wait ends because `stopComplete` was closed or because the stop timeout fired (work of the module still
    running) — puts exactly that result into the `err` it reports to the pass. For every result, in every state. -/
theorem stop_result_fetched_on_both_paths (s : St) (i : Nat) (it : Item) (r : CtrlRet) (timeout : Bool)
    (hit : s.items[i]? = some it) (hw : it.stopperWaiting = true) (hs : it.sent = true) (hc : it.cret = some r)
    (hcomp : timeout = false → s.stopCompleted = true) :
    ∃ s' it', step s (.stopper i timeout) = some s' ∧ s'.items[i]? = some it' ∧ it'.waited = some timeout ∧
      it'.passErr = r ∧ it'.kind = it.kind ∧ it'.pc = it.pc ∧ s'.stopCompleted = s.stopCompleted := by
  have hg : timeout = true ∨ (s.stopCompleted = true ∧ it.sent = true) := by
    cases timeout
    · exact Or.inr ⟨hcomp rfl, hs⟩
    · exact Or.inl rfl
  let it' : Item := { it with waited := some timeout, sawSent := it.sent, passErr := stopErr timeout it.sent it.cret }
  refine ⟨{ s with items := s.items.set i it' }, it', ?_, set_getElem?_self hit, rfl, ?_, rfl, rfl, rfl⟩
  · simp only [step, hit, hw, hg, and_self, if_true, it']
  · simp only [it', hs, hc, stopErr_sent]

/-- … so in every reachable state: a stop item whose routine panicked and whose stopper has left its wait reports the
    panic error to the pass — after completion always, after a stop timeout whenever the routine's result was there
    when the stopper looked (`sawSent`; a stop routine that is itself still executing when the timeout fires is
    outside the statement: see the example below). -/
theorem stop_panic_reaches_report (s : St) (h : Reachable s) (i : Nat) (it : Item) (v : PCls) (w : Bool)
    (hit : s.items[i]? = some it) (hk : it.kind = .stop) (hf : it.hasFn = true) (hp : it.cur = .panic v)
    (hw : it.waited = some w) (hsaw : w = true → it.sawSent = true) :
    it.passErr = .panicMsg ∧ it.done = true := by
  have hl := (reachable_inv h).loc i it hit
  obtain ⟨p1, p2, p3⟩ := ((reachable_stopInv h).loc i it hit).pass w hw
  have hss : it.sawSent = true := by
    cases w
    · exact p3 rfl
    · exact hsaw rfl
  have hpc : it.pc = 9 := ((reachable_stopInv h).loc i it hit).sentS hk (p2 hss)
  have hc := hl.cretS hk hf (by omega)
  rw [hp, recoverCtrl_panic] at hc
  refine ⟨?_, by simp [Item.done, hk, hpc]⟩
  rw [p1, hss, hc, stopErr_sent]

/-- A module stopped on its own state (`runStop`): a panicking stop routine reaches the pass as a panic error and is
    reported once, whether all work returns in time or a worker outlives the stop timeout. -/
theorem stopped_module_reports_routine_panic (v : PCls) (linger : Bool) :
    runStop (some (.panic v)) linger = (.panicMsg, [panicReport .ctrl v]) := runStop_panic v linger

/-- Lifecycle: a management pass in which a stop routine (of a module whose work returns in time, or of one that
    runs into its stop timeout) or a start routine panics returns an error. -/
theorem manage_fails_when_routine_panics (stops : List (Option Outcome × Bool)) (starts : List (Option Outcome))
    (v : PCls) (l : Bool) (hp : (some (.panic v), l) ∈ stops ∨ some (.panic v) ∈ starts) :
    (manageResult (stops.map fun o => (runStop o.1 o.2).1) (starts.map fun o => (runCtrl .ctrl o).1)).isSome = true := by
  unfold manageResult
  split
  · rfl
  · rename_i hn
    rcases hp with hp | hp
    · have hm : CtrlRet.panicMsg ∈ stops.map (fun o => (runStop o.1 o.2).1) :=
        List.mem_map.mpr ⟨_, hp, by rw [runStop_panic]⟩
      exact passLastErr_of_mem hm rfl
    · have hm : CtrlRet.panicMsg ∈ starts.map (fun o => (runCtrl .ctrl o).1) :=
        List.mem_map.mpr ⟨_, hp, by rw [runCtrl_panic .ctrl (Or.inl rfl)]⟩
      have := passFirstErr_of_mem hm rfl
      simp [hn] at this

/-- Lifecycle: a stop routine that panics makes `Shutdown()` return an error — also when a piece of work of that
    module outlives the stop timeout (`true` in the second component), whatever the other modules do. -/
theorem shutdown_fails_when_stop_panics (stops : List (Option Outcome × Bool)) (v : PCls) (l : Bool)
    (hp : (some (.panic v), l) ∈ stops) :
    (shutdownResult (stops.map fun o => (runStop o.1 o.2).1)).isSome = true := by
  have hm : CtrlRet.panicMsg ∈ stops.map (fun o => (runStop o.1 o.2).1) :=
    List.mem_map.mpr ⟨_, hp, by rw [runStop_panic]⟩
  exact passLastErr_of_mem hm rfl

/-- The panicking routine itself is reported (as a panic of type "module-control") and leaves the module's
    own accounting clean: flag unset, stop complete. -/
theorem lifecycle_panic_is_reported (k : Kind) (hk : k = .ctrl ∨ k = .stop) (v : PCls) :
    runCtrl k (some (.panic v)) = (.panicMsg, [panicReport .ctrl v]) := runCtrl_panic k hk v

/-- Service workers are restarted (1): a service worker leaves its loop only when the module is stopping
    (stop flag or cancelled context) or its function ended with nil / context.Canceled — never because of a panic. -/
theorem service_worker_exits_only_when_finished_or_stopping (s : St) (h : Reachable s) (i : Nat) (it : Item)
    (hit : s.items[i]? = some it) (hk : it.kind = .svc) (hd : it.done = true) :
    s.stopFlag = true ∨ s.ctxDone = true ∨ it.cur = .ok ∨ it.cur = .canceled := by
  have hpc : it.pc = 7 := by simpa [Item.done, hk] using hd
  rcases (reachable_inv h).svc i it hit hk (by omega) with h | h | h
  · exact Or.inl h
  · exact Or.inr (Or.inl h)
  · right; right
    cases hc : it.cur <;>
      simp_all [Outcome.restarts, recoverRet, recovered_ne_nil, svcDecide_nil, svcDecide_err, svcDecide_canceled,
        svcDecide_restart, svcDecide_panicErr]

/-- Service workers are restarted (2): after a run that panicked (or failed, or asked for a restart), with the
    module not stopping, at most three steps of the worker (report and back-off, timer, loop head) put it
    inside its function again; its worker count is kept throughout and no outcome is skipped. -/
theorem service_worker_restarts (env : Env) (it : Item) (hk : it.kind = .svc) (hp : it.pc = 3)
    (hr : it.cur.restarts = true) (hs : env.stopFlag = false) :
    ∃ n it', n ≤ 3 ∧ itemIter env n it = some it' ∧ it'.kind = .svc ∧ it'.inFn = true ∧ it'.cw = 1 ∧
      it'.outs = it.outs ∧ it'.runs = it.runs := by
  obtain ⟨n, it', h1, h2, h3, h4, h5, h6, h7⟩ := svc_restart_path env it hk hp hr hs
  exact ⟨n, it', h1, h2, h3, by simp [Item.inFn, h3, h4], h5, h6, h7⟩

/-- Service workers are restarted (3): on its own and never told to stop, a service worker whose function
    produces the outcomes `os` (and nil afterwards) runs it once per outcome up to and including the first
    nil / context.Canceled — every panic, error or restart request in between is followed by another run —
    and then ends. -/
theorem service_worker_runs_until_finished (env : Env) (hs : env.stopFlag = false) (os : List Outcome) :
    ∃ n it', itemIter env n { kind := .svc, outs := os } = some it' ∧ it'.done = true ∧ it'.runs = svcRuns os := by
  obtain ⟨n, it', h1, h2, h3, h4⟩ :=
    svc_loop_runs env hs os { kind := .svc, outs := os, pc := 1 } rfl rfl rfl
  refine ⟨n + 1, it', ?_, by simp [Item.done, h2, h3], by simpa using h4⟩
  rw [itemIter_succ env n _ { kind := .svc, outs := os, pc := 1 } { dw := 1 } (by simp [itemStep, svcStep])]
  exact h1

/-- A panic restarts: the premise of `service_worker_restarts` holds for every panic value — also for one
    that is or wraps context.Canceled or ErrRestartNow. -/
theorem panic_restarts_service_worker (v : PCls) : (Outcome.panic v).restarts = true := by
  simp [Outcome.restarts, recoverRet, recovered_ne_nil, svcDecide_panicErr]

/-- … so: a service worker whose function panicked — with any value — while the module is not stopping is
    inside its function again after the report, the back-off and the loop head; it keeps its worker count. -/
theorem panic_in_service_worker_leads_to_restart (env : Env) (it : Item) (v : PCls) (hk : it.kind = .svc)
    (hp : it.pc = 3) (hc : it.cur = .panic v) (hs : env.stopFlag = false) :
    ∃ it', itemIter env 3 it = some it' ∧ it'.kind = .svc ∧ it'.inFn = true ∧ it'.cw = 1 ∧
      it'.reps = it.reps + 1 ∧ it'.failCnt = it.failCnt + 1 ∧ it'.outs = it.outs := by
  let it2 : Item :=
    { it with pc := 2, ret := some (.panicErr (panicReport .worker v)), reps := it.reps + 1, failCnt := it.failCnt + 1 }
  refine ⟨it2, ?_, by simp [it2, hk], by simp [it2, Item.inFn, hk], by simp [it2, Item.cw, hk], rfl, rfl, rfl⟩
  simp [itemIter, itemStep, svcStep, hk, hp, hc, recoverRet, recovered_ne_nil, svcDecide_panicErr, hs, it2]

/-- Tasks (1): in every reachable state a task's `executing` flag is set exactly while an execution is in
    progress; in particular it is reset after an execution that panicked. -/
theorem task_executing_reset (s : St) (h : Reachable s) (i : Nat) (it : Item)
    (hit : s.items[i]? = some it) (hk : it.kind = .task) :
    (it.executing = true ↔ 1 ≤ it.pc ∧ it.pc ≤ 6) ∧ (it.done = true → it.executing = false) := by
  have hl := (reachable_inv h).loc i it hit
  have he := hl.exec hk
  refine ⟨he, ?_⟩
  intro hd
  have : it.pc = 7 ∨ it.pc = 8 := by simpa [Item.done, hk] using hd
  cases hx : it.executing
  · rfl
  · have := he.mp hx; omega

/-- Tasks (2): the panicked task can run again — queued once more (module not stopping, task not cancelled)
    the queue handler's attempt puts it into execution. -/
theorem task_can_run_again (s : St) (h : Reachable s) (i : Nat) (it : Item) (outs : List Outcome)
    (hit : s.items[i]? = some it) (hk : it.kind = .task) (hd : it.done = true)
    (hc : it.canceled = false) (hs : s.stopFlag = false) (hx : s.ctxDone = false) :
    ∃ s1 s2 it2, step s (.queue i outs) = some s1 ∧ step s1 (.item i false) = some s2 ∧
      s2.items[i]? = some it2 ∧ it2.pc = 1 ∧ it2.executing = true ∧ it2.kind = .task := by
  have hex := (task_executing_reset s h i it hit hk).2 hd
  have hpc : it.pc = 7 ∨ it.pc = 8 := by simpa [Item.done, hk] using hd
  let it0 : Item := { it with pc := 0, outs := it.outs ++ outs }
  let s1 : St := { s with items := s.items.set i it0 }
  let it2 : Item := { it0 with pc := 1, executing := true }
  have h1 : step s (.queue i outs) = some s1 := by
    simp [step, hit, hk, hpc, s1, it0]
  have hit0 : s1.items[i]? = some it0 := set_getElem?_self hit
  have hstep : itemStep s1.env it0 false = some (it2, {}) := by
    simp [itemStep, taskStep, it0, it2, hk, hex, hc, St.env, s1, hs, hx]
  refine ⟨s1, s1.apply i it2 {}, it2, h1, ?_, ?_, rfl, rfl, by simp [it2, it0, hk]⟩
  · simp [step, hit0, hstep]
  · rw [apply_items]; exact set_getElem?_self hit0

/-- The module can still be stopped: once a stop has been initiated and everything — the stop routine and
    all workers, tasks and microtasks, however they ended — has finished, `checkIfStopComplete` has closed
    `stopComplete` (the last finisher saw all counters at zero), so `stopAllTasks` proceeds without waiting
    for the timeout. -/
theorem module_still_stoppable (s : St) (h : Reachable s) (hd : s.allDone = true) (hs : s.stopFlag = true) :
    s.stopCompleted = true := by
  have hi := reachable_inv h
  have hall := (allDone_iff s).mp hd
  have z := sumBy_all_zero Item.pendingCheck s.items (fun a ha => (done_contrib a (hall a ha)).2.2.2.2.2)
  cases hc : s.stopCompleted
  · have := hi.stop hs hc; omega
  · rfl

/-! ### Non-vacuity: concrete interleavings -/

/-- Three items (a RunWorker that panics with a string, a high-priority microtask that panics with nil, a
    healthy StartWorker) interleaved; all finish, counters are zero, two reports, the panic errors returned. -/
example :
    (run (St.init 8)
      [.spawn { kind := .runWorker, outs := [.panic .str] }, .spawn { kind := .mt true, outs := [.panic .nil] },
       .item 0 false, .spawn { kind := .startWorker, outs := [.ok] }, .item 1 false, .item 2 false, .item 1 false,
       .item 0 false, .item 1 false, .item 2 false, .item 0 false, .item 1 false, .item 2 false, .item 0 false,
       .item 1 false, .item 2 false, .item 0 false, .item 1 false, .item 2 false, .item 1 false]).map
      (fun s => (s.allDone, s.w, s.t, s.m, s.g, s.feed, s.items.map (·.ret)))
    = some (true, 0, 0, 0, 0, [panicReport .worker .str, panicReport .microtask .nil],
        [some (.panicErr (panicReport .worker .str)), some (.panicErr (panicReport .microtask .nil)), some .nil]) := by
  rfl

/-- A service worker whose function panics twice and then returns nil runs three times. -/
example :
    (run (St.init 8)
      ([.spawn { kind := .svc, outs := [.panic .rt, .panic .err, .ok] }] ++ List.replicate 14 (.item 0 false))).map
      (fun s => (s.allDone, s.w, s.feed.length, s.items.map (·.runs)))
    = some (true, 0, 2, [3]) := by
  rfl

example : svcRuns [.panic .rt, .err, .restart, .panic .nil, .ok, .panic .str] = 5 := by decide

/-- A task that panics, is queued again and runs to the end; a stop with a panicking stop routine completes. -/
example :
    (run (St.init 8)
      ([.spawn { kind := .task, outs := [.panic .strct] }] ++ List.replicate 7 (.item 0 false) ++
       [.queue 0 [.ok]] ++ List.replicate 7 (.item 0 false) ++
       [.spawn { kind := .stop, outs := [.panic .other] }] ++ List.replicate 9 (.item 1 false))).map
      (fun s => (s.allDone, s.t, s.c, s.stopFlag, s.stopCompleted, s.feed.length, s.items.map (·.runs), s.items.map (·.cret)))
    = some (true, 0, false, true, true, 2, [2, 1], [none, some .panicMsg]) := by
  rfl

/-- The hypotheses of `task_can_run_again` are met after a panicking execution. -/
example :
    (run (St.init 8) ([.spawn { kind := .task, outs := [.panic .str] }] ++ List.replicate 7 (.item 0 false))).map
      (fun s => (s.items.map (fun it => (it.done, it.canceled, it.executing, it.cur)), s.stopFlag, s.ctxDone))
    = some ([(true, false, false, .panic .str)], false, false) := by
  rfl

/-- An API handler that panics: 500, report of type "custom", RunWorker returns nil. -/
example :
    (run (St.init 8) ([.spawn { kind := .api false false, outs := [.panic .nil] }, .spawn { kind := .api false true, outs := [.panic .errCanceled] }]
        ++ List.replicate 5 (.item 0 false) ++ List.replicate 5 (.item 1 false))).map
      (fun s => (s.allDone, s.w, s.feed, s.items.map (fun it => (it.http, it.detail, it.ret))))
    = some (true, 0, [⟨.panic, .custom, .nilerr, true⟩, ⟨.panic, .custom, .errCanceled, true⟩],
        [(500, false, some .nil), (500, true, some .nil)]) := by
  rfl

/-- A service worker that panics with `context.Canceled`, with an error wrapping `ErrRestartNow`, and then
    returns a wrapped `context.Canceled`: three runs, two reports, both panics restarted with back-off. -/
example :
    (run (St.init 8)
      ([.spawn { kind := .svc, outs := [.panic .errCanceled, .panic .errRestart, .canceled] }] ++
        List.replicate 14 (.item 0 false))).map
      (fun s => (s.allDone, s.w, s.feed.length, s.items.map (fun it => (it.runs, it.failCnt))))
    = some (true, 0, 2, [(3, 2)]) := by
  rfl

/-- Three panicking workers, a channel of capacity 1 that nobody reads: all three return their panic error,
    the counters are back, one report delivered, two dropped. -/
example :
    (run (St.init 1)
      ([.spawn { kind := .runWorker, outs := [.panic .str] }, .spawn { kind := .mt true, outs := [.panic .rt] },
        .spawn { kind := .task, outs := [.panic .errCanceled] }] ++
        List.replicate 5 (.item 0 false) ++ List.replicate 7 (.item 1 false) ++ List.replicate 7 (.item 2 false))).map
      (fun s => (s.allDone, s.w, s.t, s.m, s.g, s.feed.length, s.dropped, s.items.map (fun it => it.ret.isSome)))
    = some (true, 0, 0, 0, 0, 1, 2, [true, true, false]) := by
  rfl

/-- An unbuffered channel with a consumer parked in the receive takes the report; without a channel it is only
    kept as `lastReportedError`. -/
example :
    (run (St.init 0)
      ([.recv, .spawn { kind := .runWorker, outs := [.panic .str] }] ++ List.replicate 5 (.item 0 false))).map
      (fun s => (s.allDone, s.feed, s.taken, s.waiting, s.dropped))
    = some (true, [panicReport .worker .str], 1, 0, 0) := by
  rfl
example :
    (run (St.init' false 4)
      ([.spawn { kind := .runWorker, outs := [.panic .str] }] ++ List.replicate 5 (.item 0 false))).map
      (fun s => (s.allDone, s.w, s.feed.length, s.dropped, s.last))
    = some (true, 0, 0, 1, some (panicReport .worker .str)) := by
  rfl

/-- A worker that ignores the stop (stays inside its function) and a stop routine that panics: the stop routine's
    goroutine runs to its end, `stopComplete` stays open (worker count 1), the wait can only end by the timeout, the
    non-blocking fetch finds the result; reported to the pass: the panic error. One panic report. -/
example :
    (run (St.init 8)
      ([.spawn { kind := .startWorker }, .item 0 false,
        .spawn { kind := .stop, outs := [.panic .str] }] ++ List.replicate 9 (.item 1 false) ++ [.stopper 1 true])).map
      (fun s => (s.w, s.stopCompleted, s.feed, s.items.map (fun it => (it.done, it.waited, it.sawSent, it.passErr))))
    = some (1, false, [panicReport .ctrl .str], [(false, none, false, .nil), (true, some true, true, .panicMsg)]) := by
  rfl
/-- … the completion branch is not enabled there (the channel is not closed) -/
example :
    (run (St.init 8)
      ([.spawn { kind := .startWorker }, .item 0 false,
        .spawn { kind := .stop, outs := [.panic .str] }] ++ List.replicate 9 (.item 1 false) ++ [.stopper 1 false])).isSome
    = false := by
  rfl
/-- … and when everything returns, both ways of ending the wait give the same report -/
example :
    (run (St.init 8)
      ([.spawn { kind := .stop, outs := [.panic .rt] }] ++ List.replicate 9 (.item 0 false) ++ [.stopper 0 false])).map
      (fun s => (s.stopCompleted, s.items.map (fun it => (it.waited, it.passErr))))
    = some (true, [(some false, .panicMsg)]) := by
  rfl
example :
    (run (St.init 8)
      ([.spawn { kind := .stop, outs := [.panic .rt] }] ++ List.replicate 9 (.item 0 false) ++ [.stopper 0 true])).map
      (fun s => (s.stopCompleted, s.items.map (fun it => (it.waited, it.passErr))))
    = some (true, [(some true, .panicMsg)]) := by
  rfl
/-- The proviso of `stop_panic_reaches_report`: a stop timeout that fires while the stop routine itself is still
    executing finds nothing on the channel ("stop function is still running"): nil is reported to the pass, the
    routine's later panic is reported on the error channel only. -/
example :
    (run (St.init 8)
      ([.spawn { kind := .stop, outs := [.panic .str] }] ++ List.replicate 4 (.item 0 false) ++ [.stopper 0 true] ++
        List.replicate 5 (.item 0 false))).map
      (fun s => (s.feed, s.items.map (fun it => (it.done, it.cret, it.waited, it.sawSent, it.passErr))))
    = some ([panicReport .ctrl .str], [(true, some .panicMsg, some true, false, .nil)]) := by
  rfl
/-- the stopper of a stop routine that has not been started yet is not waiting -/
example :
    (run (St.init 8) [.spawn { kind := .stop, outs := [.ok] }, .item 0 false, .stopper 0 true]).isSome = false := by
  rfl

/-- Lifecycle passes: a panicking start routine among healthy ones, a panicking stop routine. -/
example : startResult ([some .ok, none].map fun o => (runCtrl .ctrl o).1)
    ([some .ok, some (.panic .str), none].map fun o => (runCtrl .ctrl o).1) = some .panicMsg := by rfl
example : shutdownResult ([(some .ok, false), (some (.panic .rt), true), (none, false)].map fun o => (runStop o.1 o.2).1)
    = some .panicMsg := by
  rfl
example : (runStop (some .err) true).1 = .err ∧ (runStop none true).1 = .nil ∧ (runStop (some .ok) false).1 = .nil := by
  refine ⟨rfl, rfl, rfl⟩

end PB.C06
