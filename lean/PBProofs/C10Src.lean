import PBProofs.C10
import PB.Gen.VarintSrc
/-
C10, translator tie: every function of formats/varint, translated from the Go source on every run
(`PB.Gen.VarintSrc`, harness/cmd/extract/golean.go), never panics and computes exactly what the hand-written
model `PB.Model.Varint` computes (including the error message returned). The property theorems of
`PBProofs/C10.lean` therefore hold for the translated source; a change to the Go code that alters behaviour
breaks one of these theorems on the next run.
-/
namespace PB.C10Src
open PB PB.Varint
open PB.Go (Res wrapU mkBytes putUvarintInto len inIdx byteAt inSlice slice wrapI64)

/-- How a model result appears at the Go level: `(value, count, nil)` or `(0, 0, err)`. -/
def goNK (largeMsg : String) : Except PB.Varint.Err (Nat × Nat) → Int × Int × PB.Go.Err
  | .ok (v, n) => ((v : Int), (n : Int), none)
  | .error .small => (0, 0, some "ErrBufTooSmall")
  | .error .large => (0, 0, some largeMsg)
  | .error .nodata => (0, 0, some "varint: not enough data for given block length")

def msg64 : String := "varint: encoded integer greater than 18446744073709551615 (uint64)"

theorem ofNat_toNat_natCast (n : Nat) : UInt8.ofNat (Int.toNat (n : Int)) = UInt8.ofNat n := by simp

theorem Pack8_eq (n : Nat) (h : n < 2 ^ 8) : PB.Gen.VarintSrc.Pack8 (n : Int) = .ok (pack8 n) := by
  unfold PB.Gen.VarintSrc.Pack8 pack8
  by_cases hn : n < 128
  · have : ((n : Int) < 128) := by omega
    simp [hn, this, mkBytes]
  · have : ¬ ((n : Int) < 128) := by omega
    simp [hn, this, mkBytes]

theorem wrapU64_natCast (n : Nat) (h : n < 2 ^ 64) : wrapU 64 (n : Int) = (n : Int) := by
  unfold wrapU; omega

theorem putUvarintInto_ok (cap n : Nat) (hl : (putUvarint n).length ≤ cap) :
    putUvarintInto (cap : Int) (n : Int) = .ok (putUvarint n) := by
  unfold putUvarintInto
  have h1 : ¬ ((cap : Int) < 0) := by omega
  have h2 : (((putUvarint n).length : Int) ≤ (cap : Int)) := by omega
  simp only [h1, if_false, Int.toNat_natCast, h2, if_true]

theorem Pack16_eq (n : Nat) (h : n < 2 ^ 16) : PB.Gen.VarintSrc.Pack16 (n : Int) = .ok (pack16 n) := by
  unfold PB.Gen.VarintSrc.Pack16 pack16
  rw [wrapU64_natCast n (by omega)]
  exact putUvarintInto_ok 3 n (putUvarint_length_le 2 n (by omega))

theorem Pack32_eq (n : Nat) (h : n < 2 ^ 32) : PB.Gen.VarintSrc.Pack32 (n : Int) = .ok (pack32 n) := by
  unfold PB.Gen.VarintSrc.Pack32 pack32
  rw [wrapU64_natCast n (by omega)]
  exact putUvarintInto_ok 5 n (putUvarint_length_le 4 n (by omega))

theorem Pack64_eq (n : Nat) (h : n < 2 ^ 64) : PB.Gen.VarintSrc.Pack64 (n : Int) = .ok (pack64 n) := by
  unfold PB.Gen.VarintSrc.Pack64 pack64
  exact putUvarintInto_ok 10 n (putUvarint_length_le 9 n (by omega))

theorem Unpack8_eq (b : Bytes) :
    PB.Gen.VarintSrc.Unpack8 b = .ok (goNK "varint: encoded integer greater than 255 (uint8)" (unpack8 b)) := by
  unfold PB.Gen.VarintSrc.Unpack8
  cases b with
  | nil => simp [len, unpack8, goNK]
  | cons b0 rest =>
    have hl1 : ¬ ((rest.length : Int) + 1 < 1) := by omega
    by_cases h0 : b0.toNat < 128
    · have : ((b0.toNat : Int) < 128) := by omega
      simp [len, inIdx, byteAt, unpack8, goNK, h0, this, hl1]
    · have hn : ¬ ((b0.toNat : Int) < 128) := by omega
      cases rest with
      | nil => simp [len, inIdx, byteAt, unpack8, goNK, h0, hn]
      | cons b1 rest' =>
        have hl2 : ¬ ((rest'.length : Int) + 1 + 1 < 2) := by omega
        have hl3 : ¬ ((rest'.length : Int) + 1 + 1 < 1) := by omega
        have hl4 : ((1 : Int) < (rest'.length : Int) + 1 + 1) := by omega
        have hl5 : ((0 : Int) < (rest'.length : Int) + 1 + 1) := by omega
        by_cases h1 : b1 = 1
        · subst h1
          simp [len, inIdx, byteAt, unpack8, goNK, h0, hn, hl2, hl3, hl4, hl5]
        · have : ¬ ((b1.toNat : Int) = 1) := by
            intro hh
            apply h1
            have h' : b1.toNat = 1 := by omega
            exact UInt8.toNat_inj.mp (by simpa using h')
          simp [len, inIdx, byteAt, unpack8, goNK, h0, hn, h1, this, hl2, hl3, hl4, hl5]

/-- `binary.Uvarint` never reports success with a count of 0 bytes, and its value fits 64 bits. -/
theorem uvarint_ok_pos (b : Bytes) (v n : Nat) (h : uvarint b = .ok v n) : 0 < n ∧ v < 2 ^ 64 := by
  obtain ⟨a, _, c, _⟩ := PB.C10.uvarint_sound b v n h
  exact ⟨a, c⟩

/-- Go-level result of the three `UnpackW` functions built on `binary.Uvarint`, as a function of what
    `binary.Uvarint` returns (the two "too large" messages differ, so this is stated on the intrinsic). -/
def goUnpackW (limit : Option Nat) (msgW : String) (b : Bytes) : Int × Int × PB.Go.Err :=
  match uvarint b with
  | .small => (0, 0, some "ErrBufTooSmall")
  | .overflow => (0, 0, some msg64)
  | .ok v n => match limit with
    | some l => if v > l then (0, 0, some msgW) else ((v : Int), (n : Int), none)
    | none => ((v : Int), (n : Int), none)

/-- Forgetting the message text gives the model's result. -/
def forget : Int × Int × PB.Go.Err → Except PB.Varint.Err (Nat × Nat)
  | (v, n, none) => .ok (v.toNat, n.toNat)
  | (_, _, some m) => if m = "ErrBufTooSmall" then .error .small else .error .large

theorem forget_goUnpackW_some (l : Nat) (msgW : String) (hm : msgW ≠ "ErrBufTooSmall") (b : Bytes) :
    forget (goUnpackW (some l) msgW b) = unpackW l b := by
  unfold goUnpackW unpackW
  cases uvarint b with
  | small => simp [forget]
  | overflow => simp [forget, msg64]
  | ok v n => by_cases h : v > l <;> simp [forget, h, hm]

theorem forget_goUnpackW_none (b : Bytes) : forget (goUnpackW none "" b) = unpack64 b := by
  unfold goUnpackW unpack64
  cases uvarint b with
  | small => simp [forget]
  | overflow => simp [forget, msg64]
  | ok v n => simp [forget]

theorem wrapU_natCast (bits v : Nat) (h : v < 2 ^ bits) : wrapU bits (v : Int) = (v : Int) := by
  unfold wrapU
  have : (v : Int) < (2 : Int) ^ bits := by exact_mod_cast h
  exact Int.emod_eq_of_lt (by omega) this

theorem Unpack16_eq (b : Bytes) : PB.Gen.VarintSrc.Unpack16 b =
    .ok (goUnpackW (some 65535) "varint: encoded integer greater than 65535 (uint16)" b) := by
  unfold PB.Gen.VarintSrc.Unpack16 PB.Go.uvarint goUnpackW
  cases hu : uvarint b with
  | small => simp
  | overflow => simp [msg64]
  | ok v n =>
    obtain ⟨hn, _⟩ := uvarint_ok_pos b v n hu
    have h1 : n ≠ 0 := by omega
    by_cases hl : v > 65535
    · have : ((65535 : Int) < (v : Int)) := by omega
      simp [h1, hl, this]
    · have : ¬ ((65535 : Int) < (v : Int)) := by omega
      have hw := wrapU_natCast 16 v (by omega)
      simp [h1, hl, this, hw]

theorem Unpack32_eq (b : Bytes) : PB.Gen.VarintSrc.Unpack32 b =
    .ok (goUnpackW (some 4294967295) "varint: encoded integer greater than 4294967295 (uint32)" b) := by
  unfold PB.Gen.VarintSrc.Unpack32 PB.Go.uvarint goUnpackW
  cases hu : uvarint b with
  | small => simp
  | overflow => simp [msg64]
  | ok v n =>
    obtain ⟨hn, _⟩ := uvarint_ok_pos b v n hu
    have h1 : n ≠ 0 := by omega
    by_cases hl : v > 4294967295
    · have : ((4294967295 : Int) < (v : Int)) := by omega
      simp [h1, hl, this]
    · have : ¬ ((4294967295 : Int) < (v : Int)) := by omega
      have hw := wrapU_natCast 32 v (by omega)
      simp [h1, hl, this, hw]

theorem Unpack64_eq (b : Bytes) : PB.Gen.VarintSrc.Unpack64 b = .ok (goUnpackW none "" b) := by
  unfold PB.Gen.VarintSrc.Unpack64 PB.Go.uvarint goUnpackW
  cases hu : uvarint b with
  | small => simp
  | overflow => simp [msg64]
  | ok v n =>
    obtain ⟨hn, _⟩ := uvarint_ok_pos b v n hu
    have h1 : n ≠ 0 := by omega
    simp [h1]

theorem wrapI64_natCast (v : Nat) (h : v < 2 ^ 63) : wrapI64 (v : Int) = (v : Int) := by
  unfold wrapI64 PB.toInt64
  have h1 : ((v : Int) % (2 : Int) ^ 64).toNat = v := by omega
  rw [h1]
  have h2 : v % 2 ^ 64 = v := by omega
  simp only [h2]
  split <;> omega

theorem PrependLength_eq (data : Bytes) (h : data.length < 2 ^ 64) :
    PB.Gen.VarintSrc.PrependLength data = .ok (prependLength data) := by
  unfold PB.Gen.VarintSrc.PrependLength prependLength
  simp only [len]
  rw [wrapU64_natCast _ h, Pack64_eq _ h]

/-- Go-level result of `GetNextBlock` given the model's result. -/
def goBlock : Except PB.Varint.Err (Bytes × Nat) → Bytes × Int × PB.Go.Err
  | .ok (blk, tot) => (blk, (tot : Int), none)
  | .error .small => ([], 0, some "ErrBufTooSmall")
  | .error .large => ([], 0, some msg64)
  | .error .nodata => ([], 0, some "varint: not enough data for given block length")

/-- `GetNextBlock` translated from the source never panics and computes the model's result, for every input
    slice of fewer than 2^63 - 10 bytes (every slice a Go program can hold) and every declared length. -/
theorem GetNextBlock_eq (data : Bytes) (h : data.length + 10 < 2 ^ 63) :
    PB.Gen.VarintSrc.GetNextBlock data = .ok (goBlock (getNextBlock data)) := by
  unfold PB.Gen.VarintSrc.GetNextBlock
  rw [Unpack64_eq]
  unfold goUnpackW getNextBlock unpack64
  cases hu : uvarint data with
  | small => simp [goBlock]
  | overflow => simp [goBlock, msg64]
  | ok l n =>
    obtain ⟨hn0, hnl, hn10, _⟩ := uvarintAux_ok data 0 0 l n hu (by omega)
    simp only [Nat.zero_add] at hnl
    have hlen : wrapU 64 (len data) = (data.length : Int) := by
      unfold len; exact wrapU64_natCast _ (by omega)
    simp only [hlen]
    by_cases hbig : l > data.length
    · have : ((l : Int) > (data.length : Int)) := by omega
      simp [goBlock, hbig, this]
    · have hnb : ¬ ((l : Int) > (data.length : Int)) := by omega
      have hw1 : wrapI64 (l : Int) = (l : Int) := wrapI64_natCast l (by omega)
      have hw2 : wrapI64 ((l : Int) + (n : Int)) = (l : Int) + (n : Int) := by
        have := wrapI64_natCast (l + n) (by omega)
        simpa using this
      by_cases htot : l + n > data.length
      · have : (len data < (l : Int) + (n : Int)) := by unfold len; omega
        simp [goBlock, hbig, hnb, hw1, hw2, htot, this]
      · have h3 : ¬ (len data < (l : Int) + (n : Int)) := by unfold len; omega
        have hs : inSlice data (n : Int) ((l : Int) + (n : Int)) = true := by
          unfold inSlice; simp; omega
        have hsl : slice data (n : Int) ((l : Int) + (n : Int)) = (data.drop n).take l := by
          unfold slice
          have : ((l : Int) + (n : Int) - (n : Int)).toNat = l := by omega
          simp [this]
        simp [goBlock, hbig, hnb, hw1, hw2, htot, h3, hs, hsl]

/-- The advertised size computed by the translated `EncodedSize` is the length of the packed form. -/
theorem EncodedSize_eq (n : Nat) (h : n < 2 ^ 64) :
    PB.Gen.VarintSrc.EncodedSize (n : Int) = .ok ((pack64 n).length : Int) := by
  unfold PB.Gen.VarintSrc.EncodedSize pack64
  have hle := fun k => putUvarint_length_le k n
  have hge := fun k => putUvarint_length_ge k n
  have hpos := putUvarint_length_pos n
  simp only [decide_eq_true_eq]
  repeat' split
  all_goals first
    | (have a := hle 0 (by omega); congr 1; omega)
    | (have a := hle 1 (by omega); have b := hge 1 (by omega); congr 1; omega)
    | (have a := hle 2 (by omega); have b := hge 2 (by omega); congr 1; omega)
    | (have a := hle 3 (by omega); have b := hge 3 (by omega); congr 1; omega)
    | (have a := hle 4 (by omega); have b := hge 4 (by omega); congr 1; omega)
    | (have a := hle 5 (by omega); have b := hge 5 (by omega); congr 1; omega)
    | (have a := hle 6 (by omega); have b := hge 6 (by omega); congr 1; omega)
    | (have a := hle 7 (by omega); have b := hge 7 (by omega); congr 1; omega)
    | (have a := hle 8 (by omega); have b := hge 8 (by omega); congr 1; omega)
    | (have a := hle 9 (by omega); have b := hge 9 (by omega); congr 1; omega)

/-- No translated function of the package can panic on any input of its parameter types
    (slices shorter than 2^63 - 10 bytes). -/
theorem varint_package_never_panics (b : Bytes) (hb : b.length + 10 < 2 ^ 63) (n8 n16 n32 n64 : Nat)
    (h8 : n8 < 2 ^ 8) (h16 : n16 < 2 ^ 16) (h32 : n32 < 2 ^ 32) (h64 : n64 < 2 ^ 64) :
    PB.Gen.VarintSrc.Pack8 n8 ≠ .panic ∧ PB.Gen.VarintSrc.Pack16 n16 ≠ .panic ∧ PB.Gen.VarintSrc.Pack32 n32 ≠ .panic ∧
    PB.Gen.VarintSrc.Pack64 n64 ≠ .panic ∧ PB.Gen.VarintSrc.Unpack8 b ≠ .panic ∧ PB.Gen.VarintSrc.Unpack16 b ≠ .panic ∧
    PB.Gen.VarintSrc.Unpack32 b ≠ .panic ∧ PB.Gen.VarintSrc.Unpack64 b ≠ .panic ∧
    PB.Gen.VarintSrc.PrependLength b ≠ .panic ∧ PB.Gen.VarintSrc.GetNextBlock b ≠ .panic ∧
    PB.Gen.VarintSrc.EncodedSize n64 ≠ .panic := by
  rw [Pack8_eq n8 h8, Pack16_eq n16 h16, Pack32_eq n32 h32, Pack64_eq n64 h64, Unpack8_eq, Unpack16_eq, Unpack32_eq,
    Unpack64_eq, PrependLength_eq b (by omega), GetNextBlock_eq b hb, EncodedSize_eq n64 h64]
  simp

end PB.C10Src
