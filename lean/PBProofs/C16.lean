import PBProofs.Lemmas.Container
/-
C16 — A container is a faithful byte queue.
Refinement of the concrete representation (compartment list + offset, `PB.Model.Container`) to the
plain byte queue `PB.Spec.ByteQueue`, for every finite operation sequence.
-/
namespace PB.C16
open PB PB.Varint PB.Container
open PB.ByteQueue (Op Out)

/-- Every container built by `New(data...)` satisfies the representation invariant and holds the
    concatenation of the given slices (empty, one slice, many slices, empty slices inside). -/
theorem new_refines (ds : List Bytes) : Inv (new ds) ∧ abs (new ds) = ds.flatten :=
  ⟨inv_new ds, abs_new ds⟩

/-- One public method call: the invariant is kept, the new abstract queue and the observable result
    (bytes, numbers, lengths, success / error kind) are exactly those of the byte-queue operation. -/
theorem refines_step (c : C) (h : Inv c) (op : Op) :
    Inv (step c op).1 ∧ abs (step c op).1 = (PB.ByteQueue.step (abs c) op).1 ∧
    (step c op).2 = (PB.ByteQueue.step (abs c) op).2 := by
  obtain ⟨a, b⟩ := step_refines c h op
  have b1 := congrArg Prod.fst b
  have b2 := congrArg Prod.snd b
  exact ⟨a, b1, b2⟩

/-- Any finite sequence of operations on the container yields the same results as on the byte queue. -/
theorem refines_run (ops : List Op) : ∀ (c : C), Inv c →
    Inv (run c ops).1 ∧ abs (run c ops).1 = (PB.ByteQueue.run (abs c) ops).1 ∧
    (run c ops).2 = (PB.ByteQueue.run (abs c) ops).2 := by
  induction ops with
  | nil => intro c h; exact ⟨h, rfl, rfl⟩
  | cons op ops ih =>
    intro c h
    obtain ⟨a, b, o⟩ := refines_step c h op
    obtain ⟨a', b', o'⟩ := ih (step c op).1 a
    simp only [run, PB.ByteQueue.run]
    rw [b] at b' o'
    exact ⟨a', b', by rw [o, o']⟩

/-- The statement of the property for containers created from any list of slices. -/
theorem container_is_byte_queue (ds : List Bytes) (ops : List Op) :
    (run (new ds) ops).2 = (PB.ByteQueue.run ds.flatten ops).2 ∧
    abs (run (new ds) ops).1 = (PB.ByteQueue.run ds.flatten ops).1 := by
  obtain ⟨_, b, o⟩ := refines_run ops (new ds) (inv_new ds)
  rw [abs_new] at b o
  exact ⟨o, b⟩

/-! ### Several containers: operations that take another container as their argument -/

open PB.ByteQueue (WOp)

/-- `AppendContainer(other)` appends ALL compartments of `other`, whatever `other.offset` is. With `other` in any
    state its history can leave it in (the invariant: consumed slots are empty) the receiver gains exactly the
    bytes `other` still holds — also for `c.AppendContainer(c)`. -/
theorem appendContainer_any_state (c d : C) (hc : Inv c) (hd : Inv d) :
    Inv (appendContainer c d) ∧ abs (appendContainer c d) = abs c ++ abs d ∧
    Inv (appendContainerAsBlock c d) ∧ abs (appendContainerAsBlock c d) = abs c ++ pack64 (abs d).length ++ abs d := by
  obtain ⟨a, b⟩ := appendContainer_spec c d hc hd
  obtain ⟨a', b'⟩ := appendContainerAsBlock_spec c d hc hd
  exact ⟨a, b, a', b'⟩

/-- … and this really depends on consumed slots being emptied (`c.compartments[i] = nil` in `skip` and
    `WriteToSlice`): an argument whose consumed slot still holds its old bytes gives them back. -/
theorem appendContainer_needs_emptied_slots :
    ∃ c d : C, Inv c ∧ ¬ Inv d ∧ d.offset ≤ d.comps.length ∧ abs (appendContainer c d) ≠ abs c ++ abs d :=
  ⟨⟨[[120]], 0⟩, ⟨[[97, 98], [99]], 1⟩, by simp [PB.Container.Inv], by simp [PB.Container.Inv], by decide, by decide⟩

/-- One operation on a world of containers (a single-container call on any of them, or an append of one to
    another — or to itself) keeps every invariant and agrees with the same operation on a world of byte queues. -/
theorem world_refines_step (w : List C) (h : WInv w) (op : WOp) :
    WInv (wstep w op).1 ∧ (wstep w op).1.map abs = (PB.ByteQueue.wstep (w.map abs) op).1 ∧
    (wstep w op).2 = (PB.ByteQueue.wstep (w.map abs) op).2 := wstep_refines w h op

theorem world_refines_run (ops : List WOp) : ∀ (w : List C), WInv w →
    WInv (wrun w ops).1 ∧ (wrun w ops).1.map abs = (PB.ByteQueue.wrun (w.map abs) ops).1 ∧
    (wrun w ops).2 = (PB.ByteQueue.wrun (w.map abs) ops).2 := by
  induction ops with
  | nil => intro w h; exact ⟨h, rfl, rfl⟩
  | cons op ops ih =>
    intro w h
    obtain ⟨a, b, o⟩ := world_refines_step w h op
    obtain ⟨a', b', o'⟩ := ih (wstep w op).1 a
    simp only [wrun, PB.ByteQueue.wrun]
    rw [b] at b' o'
    exact ⟨a', b', by rw [o, o']⟩

/-- Any finite history of any number of containers, with containers handed to each other in whatever state
    they are, yields the results of the same history on plain byte queues. -/
theorem containers_are_byte_queues (ops : List WOp) :
    (wrun [] ops).2 = (PB.ByteQueue.wrun [] ops).2 ∧ (wrun [] ops).1.map abs = (PB.ByteQueue.wrun [] ops).1 := by
  obtain ⟨_, b, o⟩ := world_refines_run ops [] (by intro c hc; simp at hc)
  exact ⟨o, b⟩

/-! ### Corollaries named after the clauses of the statement (about the spec, hence about the container) -/

/-- Every byte comes out exactly once, in order and unmodified (byte-queue side): appending any slices and
    then draining returns exactly the concatenation and leaves nothing. -/
theorem spec_append_then_drain (q : Bytes) (more : List Bytes) :
    (PB.ByteQueue.run q (more.map Op.append ++ [Op.getAll, Op.length])).2.drop more.length
      = [Out.bytes (q ++ more.flatten), Out.num 0] := by
  induction more generalizing q with
  | nil => simp [PB.ByteQueue.run, PB.ByteQueue.step]
  | cons m more ih =>
    simp only [List.map_cons, List.cons_append, PB.ByteQueue.run, PB.ByteQueue.step, List.length_cons,
      List.drop_succ_cons, List.flatten_cons]
    rw [ih (q ++ m)]
    simp

/-- … and therefore for the container, whatever slices it was created from. -/
theorem every_byte_once_in_order (ds more : List Bytes) :
    (run (new ds) (more.map Op.append ++ [Op.getAll, Op.length])).2.drop more.length
      = [Out.bytes (ds.flatten ++ more.flatten), Out.num 0] := by
  rw [(container_is_byte_queue ds _).1]
  exact spec_append_then_drain ds.flatten more

/-- A request for more data than is held fails and leaves the queue as it was. -/
theorem get_too_much_leaves_queue (c : C) (h : Inv c) (n : Int) (hn : n.toNat > (abs c).length) (h0 : 0 < n) :
    (step c (.get n)).2 = .err "notenough" ∧ abs (step c (.get n)).1 = abs c := by
  obtain ⟨_, b, o⟩ := refines_step c h (.get n)
  rw [b, o]
  have : ¬ n ≤ 0 := by omega
  simp [PB.ByteQueue.step, PB.ByteQueue.get, PB.ByteQueue.outGet, this, hn]

/-- A failed number read (truncated or oversized varint) leaves the queue as it was. -/
theorem failed_number_read_leaves_queue (c : C) (h : Inv c) (e : String)
    (he : (step c .getNextN64).2 = .err e) : abs (step c .getNextN64).1 = abs c := by
  obtain ⟨_, b, o⟩ := refines_step c h .getNextN64
  rw [b]
  rw [o] at he
  simp only [PB.ByteQueue.step, PB.ByteQueue.getNextN] at he ⊢
  cases hu : unpack64 (PB.ByteQueue.peek (abs c) 10) with
  | error e' => simp [PB.ByteQueue.outNum]
  | ok p => rw [hu] at he; simp [PB.ByteQueue.outNum] at he

/-- A number that was put in is read back exactly and consumes exactly its own bytes (no continuation
    byte left behind), for every uint64 and whatever follows it. -/
theorem number_roundtrip (q : Bytes) (n : Nat) (hn : n < 2 ^ 64) :
    PB.ByteQueue.step (pack64 n ++ q) .getNextN64 = (q, .num n) := by
  simp only [PB.ByteQueue.step, PB.ByteQueue.getNextN, PB.ByteQueue.peek]
  have h10 : (pack64 n).length ≤ 10 := by
    have := putUvarint_length_le 9 n (by omega); simpa [pack64] using this
  have hsplit : List.take 10 (pack64 n ++ q) = pack64 n ++ List.take (10 - (pack64 n).length) q := by
    rw [List.take_append, List.take_of_length_le h10]
  have hu : unpack64 (pack64 n ++ List.take (10 - (pack64 n).length) q) = .ok (n, (pack64 n).length) := by
    have := uvarint_put n (List.take (10 - (putUvarint n).length) q) hn
    simp only [unpack64, pack64, this]
  have h10' : ¬ ((10 : Int) ≤ 0) := by omega
  simp only [h10', if_false]
  have : Int.toNat 10 = 10 := rfl
  rw [this, hsplit, hu]
  simp [PB.ByteQueue.outNum]

/-- Generic form of `number_roundtrip`: an encoding `p` of at most `k` bytes that the decoder reads back
    exactly (whatever follows it) is read back exactly from the front of the queue and nothing else is consumed. -/
theorem getNextN_roundtrip (unpack : Bytes → Except PB.Varint.Err (Nat × Nat)) (k : Nat) (hk : 0 < k)
    (p q : Bytes) (n : Nat) (hp : p.length ≤ k) (hu : ∀ rest, unpack (p ++ rest) = .ok (n, p.length)) :
    PB.ByteQueue.getNextN unpack (k : Int) (p ++ q) = (q, .ok n) := by
  have hk' : ¬ ((k : Int) ≤ 0) := by omega
  simp only [PB.ByteQueue.getNextN, PB.ByteQueue.peek, hk', if_false, Int.toNat_natCast]
  rw [List.take_append, List.take_of_length_le hp, hu]
  simp

/-- Numbers of the narrow widths written with `Pack8/16/32` and put into a container are read back exactly by
    `GetNextN8/16/32`, consuming exactly their own bytes. -/
theorem narrow_number_roundtrip (q : Bytes) (n : Nat) :
    (n < 2 ^ 8 → PB.ByteQueue.step (pack8 n ++ q) .getNextN8 = (q, .num n)) ∧
    (n < 2 ^ 16 → PB.ByteQueue.step (pack16 n ++ q) .getNextN16 = (q, .num n)) ∧
    (n < 2 ^ 32 → PB.ByteQueue.step (pack32 n ++ q) .getNextN32 = (q, .num n)) := by
  refine ⟨fun h => ?_, fun h => ?_, fun h => ?_⟩
  · have hu : ∀ rest, unpack8 (pack8 n ++ rest) = .ok (n, (pack8 n).length) := by
      intro rest
      unfold pack8
      by_cases hn : n < 128
      · simp [hn, unpack8, toNat_ofNat_lt (show n < 256 by omega)]
      · simp [hn, unpack8, toNat_ofNat_lt (show n < 256 by omega)]
    have hl : (pack8 n).length ≤ 2 := by unfold pack8; split <;> simp
    have := getNextN_roundtrip unpack8 2 (by omega) (pack8 n) q n hl hu
    simp only [PB.ByteQueue.step]
    rw [show ((2 : Nat) : Int) = 2 from rfl] at this
    rw [this]; rfl
  · have hu : ∀ rest, unpack16 (pack16 n ++ rest) = .ok (n, (pack16 n).length) := by
      intro rest
      have := uvarint_put n rest (by omega)
      simp [unpack16, unpackW, pack16, this]; omega
    have hl : (pack16 n).length ≤ 3 := by
      have := putUvarint_length_le 2 n (by omega); simpa [pack16] using this
    have := getNextN_roundtrip unpack16 3 (by omega) (pack16 n) q n hl hu
    simp only [PB.ByteQueue.step]
    rw [show ((3 : Nat) : Int) = 3 from rfl] at this
    rw [this]; rfl
  · have hu : ∀ rest, unpack32 (pack32 n ++ rest) = .ok (n, (pack32 n).length) := by
      intro rest
      have := uvarint_put n rest (by omega)
      simp [unpack32, unpackW, pack32, this]; omega
    have hl : (pack32 n).length ≤ 5 := by
      have := putUvarint_length_le 4 n (by omega); simpa [pack32] using this
    have := getNextN_roundtrip unpack32 5 (by omega) (pack32 n) q n hl hu
    simp only [PB.ByteQueue.step]
    rw [show ((5 : Nat) : Int) = 5 from rfl] at this
    rw [this]; rfl

/-- A block whose declared length exceeds what is held is an error (for every declared length up to 2^64-1)
    — never a panic, an empty "successful" block or data that was not put in. -/
theorem oversized_block_is_error (q : Bytes) (sz n : Nat)
    (hu : unpack64 (q.take 10) = .ok (sz, n)) (hbig : sz > (q.drop n).length) :
    PB.ByteQueue.step q .getNextBlock = (q.drop n, .err "notenough") := by
  have h10 : Int.toNat 10 = 10 := rfl
  simp only [PB.ByteQueue.step, PB.ByteQueue.getNextBlock, PB.ByteQueue.getNextN, PB.ByteQueue.peek, h10]
  have h10' : ¬ ((10 : Int) ≤ 0) := by omega
  simp only [h10', if_false, hu, hbig, if_true, PB.ByteQueue.outBlock]

/-! ### Constructors and serialization.go -/

/-- `NewContainer(data...)` ("DEPRECATED … it's the same thing") builds exactly the container `New(data...)`
    builds, so everything proved from `New` holds from `NewContainer`. -/
theorem newContainer_eq_new (ds : List Bytes) : newContainer ds = new ds := rfl

/-- `MarshalJSON` keeps the queue (it only restructures the compartments) and returns the JSON form of
    exactly the bytes held. -/
theorem marshalJSON_keeps_queue (c : C) (h : Inv c) :
    Inv (marshalJSON c).1 ∧ abs (marshalJSON c).1 = abs c ∧ (marshalJSON c).2 = PB.Base64.jsonEnc (abs c) := by
  obtain ⟨a, b, o⟩ := compileData_spec c h
  exact ⟨a, b, by simp [marshalJSON, o]⟩

/-- JSON round trip: the text `MarshalJSON` produces for a container `c` decodes (modelled codec: base64
    in quotes) and `UnmarshalJSON` of it into ANY container `d` — fresh or used, whatever its offset — leaves
    `d` holding exactly the bytes of `c`, in a state satisfying the representation invariant. -/
theorem container_json_roundtrip (c d : C) (h : Inv c) :
    ∃ raw, PB.Base64.jsonDec (marshalJSON c).2 = .ok raw ∧
      (unmarshalJSON d (some raw)).2 = .ok () ∧
      Inv (unmarshalJSON d (some raw)).1 ∧ abs (unmarshalJSON d (some raw)).1 = abs c := by
  obtain ⟨_, _, o⟩ := marshalJSON_keeps_queue c h
  refine ⟨abs c, ?_, rfl, by simp [unmarshalJSON, PB.Container.Inv], by simp [unmarshalJSON, abs]⟩
  rw [o]
  exact PB.Base64.jsonDec_jsonEnc (abs c)

/-- The same with the codec as a parameter: for ANY decoder that inverts the encoder on the text produced. -/
theorem container_json_roundtrip_param (enc : Bytes → Bytes) (dec : Bytes → Option Bytes)
    (hcodec : ∀ b, dec (enc b) = some b) (c d : C) (h : Inv c) :
    abs (unmarshalJSON d (dec (enc (compileData c).2))).1 = abs c := by
  obtain ⟨_, _, o⟩ := compileData_spec c h
  rw [hcodec, o]
  simp [unmarshalJSON, abs]

/-- A text the JSON decoder rejects leaves the container exactly as it was (not only its abstract queue). -/
theorem failed_unmarshal_leaves_container (c : C) : unmarshalJSON c none = (c, .error .json) := rfl

/-- `WriteAllTo` into a writer that takes `budget` bytes and then fails: exactly the first `budget` bytes of
    the queue reach the writer, in order; `nil` is returned iff everything fitted; the container is not
    touched (the function does not return a new container state at all). -/
theorem writeAllTo_writes_prefix (c : C) (budget : Nat) :
    writeAllTo c budget = ((abs c).take budget, decide ((abs c).length ≤ budget)) := by
  simp [writeAllTo, wtaLoop_spec, abs]

theorem writeAllTo_complete (c : C) (budget : Nat) (hb : (abs c).length ≤ budget) :
    writeAllTo c budget = (abs c, true) := by
  rw [writeAllTo_writes_prefix, List.take_of_length_le hb]
  simp [hb]

/-- `GetNextN16` / `GetNextN32` hand at most 3 / 5 bytes to the decoder: the "greater than uint64" exit of
    `Unpack16` / `Unpack32` (the `r < 0` branch) cannot be reached through the container — a varint needs
    its tenth byte to overflow. -/
theorem narrow_reads_cannot_overflow (bs : Bytes) (h : bs.length ≤ 9) : uvarint bs ≠ .overflow := by
  have aux : ∀ (bs : Bytes) (i x : Nat), i + bs.length ≤ 9 → uvarintAux i x bs ≠ .overflow := by
    intro bs
    induction bs with
    | nil => intro i x _; simp [uvarintAux]
    | cons b rest ih =>
      intro i x hi
      simp only [List.length_cons] at hi
      have h10 : i ≠ 10 := by omega
      have h9 : ¬ (i = 9 ∧ b.toNat > 1) := by omega
      simp only [uvarintAux, h10, if_false, h9]
      by_cases hb : b.toNat < 128
      · simp [hb]
      · simp only [hb, if_false]
        exact ih (i + 1) _ (by omega)
  exact aux bs 0 0 (by omega)

/-! ### Non-vacuity: a state with spare slots, offset > 0 and consumed (nil) slots -/

example : (run (new [[1, 2], [], [3]]) [.prepend [9], .get 2, .getNextN8, .length]).2
    = [.unit, .bytes [9, 1], .num 2, .num 1] := by decide
example : (run (new [[1, 2], [], [3]]) [.prepend [9], .get 2]).1.offset = 5 ∧
    (run (new [[1, 2], [], [3]]) [.prepend [9], .get 2]).1.comps.length = 8 := by decide
example : Inv (run (new []) [.prepend [1], .getAll, .append [5]]).1 := by
  exact (refines_run _ _ (inv_new _)).1
example : (run (new []) [.peek 3, .get 1, .getNextN16, .getNextBlock]).2
    = [.bytes [], .err "notenough", .err "small", .err "small"] := by decide
example : (run (newContainer [[1, 2], [], [3]]) [.prepend [9], .get 1, .writeAllTo 2, .writeAllTo 3,
      .unmarshalJSON (some [7, 7]), .length, .unmarshalJSON none, .getAll]).2
    = [.unit, .bytes [9], .wts [1, 2] false, .wts [1, 2, 3] true,
       .unit, .num 2, .err "json", .bytes [7, 7]] := by decide
example : (run (newContainer [[1, 2], [], [3]]) [.prepend [9], .get 1, .marshalJSON, .length]).2
    = [.unit, .bytes [9], .bytes [34, 65, 81, 73, 68, 34], .num 3] := by decide +kernel
set_option maxRecDepth 8000 in
example : PB.Base64.jsonDec [34, 65, 81, 73, 68, 34] = .ok [1, 2, 3] := by decide
set_option maxRecDepth 8000 in
example : PB.Base64.jsonDec [34, 65, 81, 61, 68, 34] = .err := by decide
set_option maxRecDepth 8000 in
example : PB.Base64.jsonDec [91, 49, 93] = .delegated := by decide
/- the scenario of a container handed over after part of it was consumed: New("ab","cd","ef"); Get(3);
   x.AppendContainer(it) must give "x" ++ "def" -/
example : (wrun [] [.newc [[97, 98], [99, 100], [101, 102]], .newc [[120]], .on 0 (.get 3), .appendFrom 1 0,
      .on 1 .getAll, .on 0 (.prepend [9]), .appendFrom 0 0, .on 0 .getAll, .on 7 .length]).2
    = [.unit, .unit, .bytes [97, 98, 99], .unit, .bytes [120, 100, 101, 102], .unit, .unit,
       .bytes [9, 100, 101, 102, 9, 100, 101, 102], .err "noslot"] := by decide

end PB.C16
