import PBProofs.Lemmas.Container
/-
C16 — A container is a faithful byte queue.
Refinement of the concrete representation (compartment list + offset, `PB.Model.Container`) to the
plain byte queue `PB.Spec.ByteQueue`, for every finite operation sequence.
-/
namespace PB.C16
open PB PB.Varint PB.Container
open PB.ByteQueue (Op Out)

/-- Every container built by `New(data...)` satisfies the representation invariant and holds the
    concatenation of the given slices (empty, one slice, many slices, empty slices inside). -/
theorem new_refines (ds : List Bytes) : Inv (new ds) ∧ abs (new ds) = ds.flatten :=
  ⟨inv_new ds, abs_new ds⟩

/-- One public method call: the invariant is kept, the new abstract queue and the observable result
    (bytes, numbers, lengths, success / error kind) are exactly those of the byte-queue operation. -/
theorem refines_step (c : C) (h : Inv c) (op : Op) :
    Inv (step c op).1 ∧ abs (step c op).1 = (PB.ByteQueue.step (abs c) op).1 ∧
    (step c op).2 = (PB.ByteQueue.step (abs c) op).2 := by
  obtain ⟨a, b⟩ := step_refines c h op
  have b1 := congrArg Prod.fst b
  have b2 := congrArg Prod.snd b
  exact ⟨a, b1, b2⟩

/-- Any finite sequence of operations on the container yields the same results as on the byte queue. -/
theorem refines_run (ops : List Op) : ∀ (c : C), Inv c →
    Inv (run c ops).1 ∧ abs (run c ops).1 = (PB.ByteQueue.run (abs c) ops).1 ∧
    (run c ops).2 = (PB.ByteQueue.run (abs c) ops).2 := by
  induction ops with
  | nil => intro c h; exact ⟨h, rfl, rfl⟩
  | cons op ops ih =>
    intro c h
    obtain ⟨a, b, o⟩ := refines_step c h op
    obtain ⟨a', b', o'⟩ := ih (step c op).1 a
    simp only [run, PB.ByteQueue.run]
    rw [b] at b' o'
    exact ⟨a', b', by rw [o, o']⟩

/-- The statement of the property for containers created from any list of slices. -/
theorem container_is_byte_queue (ds : List Bytes) (ops : List Op) :
    (run (new ds) ops).2 = (PB.ByteQueue.run ds.flatten ops).2 ∧
    abs (run (new ds) ops).1 = (PB.ByteQueue.run ds.flatten ops).1 := by
  obtain ⟨_, b, o⟩ := refines_run ops (new ds) (inv_new ds)
  rw [abs_new] at b o
  exact ⟨o, b⟩

/-! ### Corollaries named after the clauses of the statement (about the spec, hence about the container) -/

/-- Every byte comes out exactly once, in order and unmodified (byte-queue side): appending any slices and
    then draining returns exactly the concatenation and leaves nothing. -/
theorem spec_append_then_drain (q : Bytes) (more : List Bytes) :
    (PB.ByteQueue.run q (more.map Op.append ++ [Op.getAll, Op.length])).2.drop more.length
      = [Out.bytes (q ++ more.flatten), Out.num 0] := by
  induction more generalizing q with
  | nil => simp [PB.ByteQueue.run, PB.ByteQueue.step]
  | cons m more ih =>
    simp only [List.map_cons, List.cons_append, PB.ByteQueue.run, PB.ByteQueue.step, List.length_cons,
      List.drop_succ_cons, List.flatten_cons]
    rw [ih (q ++ m)]
    simp

/-- … and therefore for the container, whatever slices it was created from. -/
theorem every_byte_once_in_order (ds more : List Bytes) :
    (run (new ds) (more.map Op.append ++ [Op.getAll, Op.length])).2.drop more.length
      = [Out.bytes (ds.flatten ++ more.flatten), Out.num 0] := by
  rw [(container_is_byte_queue ds _).1]
  exact spec_append_then_drain ds.flatten more

/-- A request for more data than is held fails and leaves the queue as it was. -/
theorem get_too_much_leaves_queue (c : C) (h : Inv c) (n : Int) (hn : n.toNat > (abs c).length) (h0 : 0 < n) :
    (step c (.get n)).2 = .err "notenough" ∧ abs (step c (.get n)).1 = abs c := by
  obtain ⟨_, b, o⟩ := refines_step c h (.get n)
  rw [b, o]
  have : ¬ n ≤ 0 := by omega
  simp [PB.ByteQueue.step, PB.ByteQueue.get, PB.ByteQueue.outGet, this, hn]

/-- A failed number read (truncated or oversized varint) leaves the queue as it was. -/
theorem failed_number_read_leaves_queue (c : C) (h : Inv c) (e : String)
    (he : (step c .getNextN64).2 = .err e) : abs (step c .getNextN64).1 = abs c := by
  obtain ⟨_, b, o⟩ := refines_step c h .getNextN64
  rw [b]
  rw [o] at he
  simp only [PB.ByteQueue.step, PB.ByteQueue.getNextN] at he ⊢
  cases hu : unpack64 (PB.ByteQueue.peek (abs c) 10) with
  | error e' => simp [PB.ByteQueue.outNum]
  | ok p => rw [hu] at he; simp [PB.ByteQueue.outNum] at he

/-- A number that was put in is read back exactly and consumes exactly its own bytes (no continuation
    byte left behind), for every uint64 and whatever follows it. -/
theorem number_roundtrip (q : Bytes) (n : Nat) (hn : n < 2 ^ 64) :
    PB.ByteQueue.step (pack64 n ++ q) .getNextN64 = (q, .num n) := by
  simp only [PB.ByteQueue.step, PB.ByteQueue.getNextN, PB.ByteQueue.peek]
  have h10 : (pack64 n).length ≤ 10 := by
    have := putUvarint_length_le 9 n (by omega); simpa [pack64] using this
  have hsplit : List.take 10 (pack64 n ++ q) = pack64 n ++ List.take (10 - (pack64 n).length) q := by
    rw [List.take_append, List.take_of_length_le h10]
  have hu : unpack64 (pack64 n ++ List.take (10 - (pack64 n).length) q) = .ok (n, (pack64 n).length) := by
    have := uvarint_put n (List.take (10 - (putUvarint n).length) q) hn
    simp only [unpack64, pack64, this]
  have h10' : ¬ ((10 : Int) ≤ 0) := by omega
  simp only [h10', if_false]
  have : Int.toNat 10 = 10 := rfl
  rw [this, hsplit, hu]
  simp [PB.ByteQueue.outNum]

/-- A block whose declared length exceeds what is held is an error (for every declared length up to 2^64-1)
    — never a panic, an empty "successful" block or data that was not put in. -/
theorem oversized_block_is_error (q : Bytes) (sz n : Nat)
    (hu : unpack64 (q.take 10) = .ok (sz, n)) (hbig : sz > (q.drop n).length) :
    PB.ByteQueue.step q .getNextBlock = (q.drop n, .err "notenough") := by
  have h10 : Int.toNat 10 = 10 := rfl
  simp only [PB.ByteQueue.step, PB.ByteQueue.getNextBlock, PB.ByteQueue.getNextN, PB.ByteQueue.peek, h10]
  have h10' : ¬ ((10 : Int) ≤ 0) := by omega
  simp only [h10', if_false, hu, hbig, if_true, PB.ByteQueue.outBlock]

/-! ### Non-vacuity: a state with spare slots, offset > 0 and consumed (nil) slots -/

example : (run (new [[1, 2], [], [3]]) [.prepend [9], .get 2, .getNextN8, .length]).2
    = [.unit, .bytes [9, 1], .num 2, .num 1] := by decide
example : (run (new [[1, 2], [], [3]]) [.prepend [9], .get 2]).1.offset = 5 ∧
    (run (new [[1, 2], [], [3]]) [.prepend [9], .get 2]).1.comps.length = 8 := by decide
example : Inv (run (new []) [.prepend [1], .getAll, .append [5]]).1 := by
  exact (refines_run _ _ (inv_new _)).1
example : (run (new []) [.peek 3, .get 1, .getNextN16, .getNextBlock]).2
    = [.bytes [], .err "notenough", .err "small", .err "small"] := by decide

end PB.C16
