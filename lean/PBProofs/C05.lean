import PBProofs.Lemmas.StopProto
/-!
# C05 — Stopping a module waits for all of its managed work

Theorems about `PB.StopProto` (model of `modules/modules.go`, `worker.go`, `tasks.go`, `microtasks.go`,
`status.go`, `stop.go`): all reachable states = every dependency graph, every number and kind of running work
items, every number of finishing goroutines, every interleaving of their atomic steps with the stop sequence,
any number of start/stop cycles. Timeouts are a nondeterministic action; the statement's proviso ("as long as each
returns within the stop timeout") is the hypothesis `tmo = 0`.

On the pinned tree the full-strength safety statement was FALSE (two straggler races across phases: a check parked
between its counter reads and the CAS across a restart; the start routine's goroutine clearing `ctrlFuncRunning`
after the stopper had set it). Both were first reproduced on the implementation by forced schedules, then repaired
by two `fix:` commits; this file proves the full-strength statement about the model of the repaired code, and keeps
the two former counterexample schedules as `example`s that the repaired protocol rejects.
-/
namespace PB.C05
open PB.StopProto PB.Gen.StopProto

/-- The model's stop sequence and check sequence are the ones written in the source (regenerated every run),
    and the status order used by `readyToStop` (`> StatusOffline`) is the source's. -/
theorem gen_matches_model :
    stopSeq = ["ctrlFuncRunning.Set", "stopFlag.Set", "cancelCtx", "startCtrlFn", "<-m.stopComplete", "<-stopFnError",
               "<-time.After(moduleStopTimeout)", "time.After(moduleStopTimeout)", "<-stopFnError",
               "status=StatusOffline", "reports<-"] ∧
    checkSeq = ["stopFlag.IsSet", "Lock", "defer", "Unlock", "stopFlag.IsSet", "ctrlFuncRunning.IsNotSet",
                "workerCnt==0", "taskCnt==0", "microTaskCnt==0", "stopCompleted.SetToIf(false,true)",
                "close(stopComplete)"] ∧
    revDepWaitCond = "revDep.Status() > StatusOffline" ∧ onlineSoonResult = "!m.stopFlag.IsSet()" ∧
    serviceWorkerLoopHead = "if m.IsStopping() { return }" ∧
    statusDead < statusOffline ∧ statusPreparing < statusOffline ∧ statusOffline < statusStopping ∧
    statusStopping < statusStarting ∧ statusStarting < statusOnline := by
  decide

/-- The context is cancelled no later than the moment the stop routine is invoked: whenever the stopper starts the
    stop routine (`ctrlSet` / nil branch while `Stopping`) the context is already cancelled, the stop routine body
    observes a cancelled context, and it stays cancelled until the module is started again. -/
theorem cancel_before_stopfn {s : St} (h : Reach s) :
    (∀ s', s.status = statusStopping → step s .ctrlSet = some s' → s.ctx = 1) ∧
    (∀ s', step s .ctrlUnsetNil = some s' → s.ctx = 1) ∧
    (∀ c s', s.status = statusStopping ∨ s.stopped → step s (.fnEnter c) = some s' → c = true) ∧
    (s.stopped → s.ctx = 1) := by
  have hi := inv_reach h
  unfold StopProto.Inv at hi
  refine ⟨?_, ?_, ?_, ?_⟩
  · intro s' hst hs
    simp only [step] at hs
    (repeat' split at hs) <;> cases hs <;> grind
  · intro s' hs
    simp only [step] at hs
    (repeat' split at hs) <;> cases hs <;> grind
  · intro c s' hst hs
    simp only [step, St.stopped] at hs hst
    (repeat' split at hs) <;> cases hs <;> grind
  · intro hst; simp only [St.stopped] at hst; grind

/-- Safety, full strength: a module that its stopper reported `Offline` in a cycle whose wait did not time out has:
    stop routine returned (and its goroutine cleared the control flag), every item that was counted when the stop
    flag was set has decremented (= its function returned), completion was signalled on the channel.
    For all reachable states: any number of cycles, items, finishing goroutines, any interleaving. -/
theorem offline_only_after_work_returned {s : St} (h : Reach s) (hstop : s.stopped) (hto : s.tmo = 0) :
    s.status = statusOffline ∧ s.fnpc = 3 ∧ s.aW = 0 ∧ s.aT = 0 ∧ s.aM = 0 ∧ s.closed = 1 := by
  simp only [St.stopped] at hstop
  have h6 : 7 ≤ s.spc := by omega
  clear hstop
  have hi := inv_reach h
  unfold StopProto.Inv at hi
  have hc : s.closed = 1 := by grind (splits := 40)
  have hcomp : s.completed = 1 := by grind (splits := 40)
  and_intros <;> grind (splits := 40)

/-- `Offline` is written by the stopper only (after a start): status `Offline` with a started module means stopped. -/
theorem status_tracks_stopper {s : St} (h : Reach s) :
    (s.stopped → s.status = statusOffline) ∧
    (1 ≤ s.spc → s.spc ≤ 6 → s.status = statusStopping) ∧
    (s.status = statusStopping → 1 ≤ s.spc ∧ s.spc ≤ 6) := by
  have hi := inv_reach h
  unfold StopProto.Inv at hi
  simp only [St.stopped]
  grind

/-- former counterexample 1 (pinned tree): a finisher of cycle 1 stalls between its last read and the CAS and wins
    the CAS of cycle 2. In the repaired protocol the stalled check holds the module lock, so the first cycle's
    `Offline` write (and every later `stop()`) has to wait for it: the schedule is not a run. -/
def staleCheckerRun : List Act :=
  [.startBegin, .online, .inc .w, .stopBegin, .sCtrl, .sFlag, .sCancel, .ctrlUnsetNil, .dec .w true,
   .cFast true, .cLock, .cFlag true, .cCtrl true, .cW true, .cT true, .cM true,   -- parked before the CAS
   .cFast true]                                                                  -- the other finisher …

example : (run init staleCheckerRun).isSome = true := by decide
example : (run init (staleCheckerRun ++ [.cLock])).isSome = false := by decide     -- … cannot enter the check
example : (run init (staleCheckerRun ++ [.sTimeout, .sOffline])).isSome = false := by decide  -- nor can Offline be written

/-- former counterexample 2 (pinned tree): the start routine's goroutine performs its deferred `UnSet` only after
    the stopper's manual `Set`. In the repaired code the module goes `Online` only after that goroutine has cleared
    the flag and finished its check, so the schedule is not a run. -/
def lateStartUnsetRun : List Act := [.startBegin, .ctrlSet, .fnExit, .online]

example : (run init lateStartUnsetRun).isSome = false := by decide
example : (run init [.startBegin, .ctrlSet, .fnExit, .ctrlUnset, .online]).isSome = true := by decide

/-- The completion channel is closed at most once per cycle: no double-close panic, in every reachable state. -/
theorem single_close {s : St} (h : Reach s) : s.dbl = 0 ∧ s.k7 + s.closed ≤ 1 := by
  have hi := inv_reach h
  unfold StopProto.Inv at hi
  grind

/-- "quiet": stopper waiting or later, stop routine's goroutine done, all three counters zero,
    completion not yet signalled on the channel. -/
def Quiet (s : St) : Prop :=
  5 ≤ s.spc ∧ s.fnpc = 3 ∧ s.aW + s.bW = 0 ∧ s.aT + s.bT = 0 ∧ s.aM + s.bM = 0 ∧ s.closed = 0

/-- No lost completion: in a quiet state some goroutine still has a `checkIfStopComplete` step pending, and that
    step is enabled (the protocol cannot be stuck before the close; the lock is only ever held by a check that can
    move). -/
theorem no_lost_completion {s : St} (h : Reach s) (hq : Quiet s) :
    ∃ a : Act, a.isCheck = true ∧ (step s a).isSome = true := by
  have hi := inv_reach h
  unfold StopProto.Inv at hi
  unfold Quiet at hq
  by_cases hd : 0 < s.kd
  · exact ⟨.cUnlock, rfl, by simp [step, hd]⟩
  by_cases h7 : 0 < s.k7
  · exact ⟨.cClose, rfl, by simp [step, h7]; split <;> rfl⟩
  by_cases h6 : 0 < s.k6
  · have hc : s.completed = 0 := by grind
    exact ⟨.cCas true, rfl, by simp [step, h6, hc]⟩
  by_cases h5 : 0 < s.k5
  · exact ⟨.cM true, rfl, by simp [step, h5]; grind⟩
  by_cases h4 : 0 < s.k4
  · exact ⟨.cT true, rfl, by simp [step, h4]; grind⟩
  by_cases h3 : 0 < s.k3
  · exact ⟨.cW true, rfl, by simp [step, h3]; grind⟩
  by_cases h2 : 0 < s.k2
  · have hc : s.ctrl = 0 := by grind
    exact ⟨.cCtrl true, rfl, by simp [step, h2, hc]⟩
  have hf : s.flag = 1 := by grind
  by_cases h1 : 0 < s.k1
  · exact ⟨.cFlag true, rfl, by simp [step, h1, hf]⟩
  have hlk : s.lk = 0 := by grind
  by_cases hkf : 0 < s.kf
  · exact ⟨.cLock, rfl, by simp [step, hkf, hlk]⟩
  have h0 : 0 < s.k0 := by grind
  exact ⟨.cFast true, rfl, by simp [step, h0, hf]⟩

/-- A check step taken in a quiet state never gives up: afterwards the channel is closed or the state is still quiet
    (no pending check aborts on a stale or inconsistent read). -/
theorem quiet_preserved {s s' : St} {a : Act} (h : Reach s) (hq : Quiet s) (ha : a.isCheck = true)
    (hs : step s a = some s') : s'.closed = 1 ∨ Quiet s' := by
  have hi := inv_reach h
  unfold StopProto.Inv at hi
  unfold Quiet at hq ⊢
  cases a with
  | cFast o => cases o <;> simp only [step] at hs <;> (repeat' split at hs) <;> cases hs <;> (try dsimp only) <;> grind
  | cFlag o => cases o <;> simp only [step] at hs <;> (repeat' split at hs) <;> cases hs <;> (try dsimp only) <;> grind
  | cCtrl o => cases o <;> simp only [step] at hs <;> (repeat' split at hs) <;> cases hs <;> (try dsimp only) <;> grind
  | cW o => cases o <;> simp only [step] at hs <;> (repeat' split at hs) <;> cases hs <;> (try dsimp only) <;> grind
  | cT o => cases o <;> simp only [step] at hs <;> (repeat' split at hs) <;> cases hs <;> (try dsimp only) <;> grind
  | cM o => cases o <;> simp only [step] at hs <;> (repeat' split at hs) <;> cases hs <;> (try dsimp only) <;> grind
  | cCas o => cases o <;> simp only [step] at hs <;> (repeat' split at hs) <;> cases hs <;> (try dsimp only) <;> grind
  | cClose => simp only [step] at hs; (repeat' split at hs) <;> cases hs <;> (try dsimp only) <;> grind
  | cLock => simp only [step] at hs; (repeat' split at hs) <;> cases hs <;> (try dsimp only) <;> grind
  | cUnlock => simp only [step] at hs; (repeat' split at hs) <;> cases hs <;> (try dsimp only) <;> grind
  | _ => simp [Act.isCheck] at ha

/-- Promptness: from a quiet state, every sequence of check steps (the finishing goroutines running, no new work,
    no timeout) has length at most `mu s` (10 per pending check), and ends with the channel closed or in a quiet state
    where a further check step is enabled. Hence completion is signalled after finitely many steps of the finishing
    goroutines themselves — nobody waits for the stop timeout. -/
theorem prompt_completion {s : St} (h : Reach s) (hq : Quiet s) :
    ∀ (as : List Act) (s' : St), (∀ a ∈ as, a.isCheck = true) → run s as = some s' →
      as.length + mu s' ≤ mu s ∧
      (s'.closed = 1 ∨ (Quiet s' ∧ ∃ a : Act, a.isCheck = true ∧ (step s' a).isSome = true)) := by
  intro as
  induction as generalizing s with
  | nil =>
    intro s' _ hr
    simp [run] at hr; subst hr
    exact ⟨by simp, Or.inr ⟨hq, no_lost_completion h hq⟩⟩
  | cons a as ih =>
    intro s' hall hr
    simp only [run] at hr
    split at hr
    · rename_i s1 h1
      have ha := hall a (by simp)
      have hmu := mu_decreases ha h1
      have hr1 := Reach.step h h1
      rcases quiet_preserved h hq ha h1 with hc | hq1
      · -- closed: it stays closed under check steps (closed only reset by stopBegin)
        have : ∀ (bs : List Act) (t t' : St), t.closed = 1 → (∀ b ∈ bs, b.isCheck = true) → run t bs = some t' →
            t'.closed = 1 ∧ bs.length + mu t' ≤ mu t := by
          intro bs
          induction bs with
          | nil => intro t t' hc _ hr; simp [run] at hr; subst hr; exact ⟨hc, by simp⟩
          | cons b bs ihb =>
            intro t t' hc hb hr
            simp only [run] at hr
            split at hr
            · rename_i t1 ht1
              have hb1 := hb b (by simp)
              have hm := mu_decreases hb1 ht1
              have hc1 : t1.closed = 1 := by
                cases b with
                | cFlag o => cases o <;> simp only [step] at ht1 <;> (repeat' split at ht1) <;> cases ht1 <;> exact hc
                | cCtrl o => cases o <;> simp only [step] at ht1 <;> (repeat' split at ht1) <;> cases ht1 <;> exact hc
                | cW o => cases o <;> simp only [step] at ht1 <;> (repeat' split at ht1) <;> cases ht1 <;> exact hc
                | cT o => cases o <;> simp only [step] at ht1 <;> (repeat' split at ht1) <;> cases ht1 <;> exact hc
                | cM o => cases o <;> simp only [step] at ht1 <;> (repeat' split at ht1) <;> cases ht1 <;> exact hc
                | cCas o => cases o <;> simp only [step] at ht1 <;> (repeat' split at ht1) <;> cases ht1 <;> exact hc
                | cFast o => cases o <;> simp only [step] at ht1 <;> (repeat' split at ht1) <;> cases ht1 <;> exact hc
                | cLock => simp only [step] at ht1; (repeat' split at ht1) <;> cases ht1 <;> exact hc
                | cUnlock => simp only [step] at ht1; (repeat' split at ht1) <;> cases ht1 <;> exact hc
                | cClose => simp only [step] at ht1; (repeat' split at ht1) <;> cases ht1 <;> first | exact hc | rfl
                | _ => simp [Act.isCheck] at hb1
              have := ihb t1 t' hc1 (fun b hb' => hb b (by simp [hb'])) hr
              exact ⟨this.1, by simp; omega⟩
            · cases hr
        have := this as s1 s' hc (fun b hb => hall b (by simp [hb])) hr
        exact ⟨by simp; omega, Or.inl this.1⟩
      · have := ih hr1 hq1 s' (fun b hb => hall b (by simp [hb])) hr
        exact ⟨by simp; omega, this.2⟩
    · cases hr

/-- … and once the channel is closed the waiting stopper's wake-up is enabled (no timeout needed). -/
theorem closed_wakes_stopper {s : St} (hc : s.closed = 1) (hw : s.spc = 5) : (step s .sWake).isSome = true := by
  simp [step, hc, hw]

/-- A worker / microtask / hook whose function starts on a module that is past the stopper's cancel (stopping or
    stopped, not restarted) receives an already cancelled context. -/
theorem late_work_sees_cancelled_ctx {s s' : St} {c : Bool} (h : Reach s) (hlate : 4 ≤ s.spc)
    (hs : step s (.workEnter c) = some s') : c = true := by
  have hi := inv_reach h
  unfold StopProto.Inv at hi
  simp only [step] at hs
  (repeat' split at hs) <;> cases hs <;> grind

/-- `OnlineSoon()` is false from the stopper's `stopFlag.Set` until the module is started again, so `NewTask`
    returns a cancelled task, `Queue/StartASAP/Schedule` and `runWithLocking` (`isActive`) do nothing,
    `TriggerEvent` does not start hooks and hooks of the stopped module are skipped. -/
theorem stopped_module_runs_no_new_task_or_event {s s' : St} {o : Bool} (h : Reach s) (hflag : 3 ≤ s.spc)
    (hs : step s (.gate o) = some s') : o = false := by
  have hi := inv_reach h
  unfold StopProto.Inv at hi
  simp only [step] at hs
  (repeat' split at hs) <;> cases hs <;> grind

/-- A service worker is not re-run on a stopping module: while the stop flag stays set (= until the module is started
    again), along every run the number of times a service worker's function is run again is bounded by the number of
    service workers that were already back at the head of their restart loop before the flag was set (`swTop0`, each at
    most once); a service worker whose function returns after the flag was set — whatever it returns, `ErrRestartNow`
    included — leaves its loop. Hence its counter decrement follows its return without another execution, and
    `prompt_completion` applies: a worker answering the cancellation with "restart me" cannot keep the stop waiting. -/
theorem stopping_service_worker_not_rerun {s : St} :
    ∀ (as : List Act) (s' : St), s.flag = 1 → (∀ a ∈ as, a ≠ Act.startBegin) → run s as = some s' →
      s'.flag = 1 ∧ (as.map Act.rerun).sum + s'.swTop0 ≤ s.swTop0 := by
  intro as
  induction as generalizing s with
  | nil => intro s' hf _ hr; simp [run] at hr; subst hr; simp [hf]
  | cons a as ih =>
    intro s' hf hall hr
    simp only [run] at hr
    split at hr
    · rename_i s1 h1
      have h := rerun_step h1 hf (hall a (by simp))
      have := ih s' h.1 (fun b hb => hall b (by simp [hb])) hr
      exact ⟨this.1, by simp; omega⟩
    · cases hr

/-- … in particular a function return while the flag is set never adds a re-runnable service worker. -/
theorem return_while_stopping_leaves_loop {s s' : St} (h : Reach s) (hstop : 3 ≤ s.spc)
    (hs : step s .swReturn = some s') : s'.swTop0 = s.swTop0 ∧ s'.swTop1 = s.swTop1 + 1 := by
  have hi := inv_reach h
  unfold StopProto.Inv at hi
  have hf : s.flag = 1 := by grind
  simp only [step, hf] at hs
  cases hs
  simp

/-- Dependencies wait: the manager begins stopping module `d` only while every module `r` that depends on `d`
    is at most `Offline`; and if such an `r` was stopped without timeout, its stop routine has
    returned and all its work counted at flag time has returned. -/
theorem dependencies_wait {n : Nat} {deps : List (List Nat)} {S S' : Sys} {d : Nat}
    (h : SReach n deps S) (hs : sstep S (.mod d .stopBegin) = some S') :
    ∀ (r : Nat) (sr : St), S.mods[r]? = some sr → d ∈ S.depsOf r →
      sr.status ≤ statusOffline ∧
      (sr.stopped → sr.tmo = 0 → sr.fnpc = 3 ∧ sr.aW = 0 ∧ sr.aT = 0 ∧ sr.aM = 0) := by
  intro r sr hr hd
  have hinv := sinv_reach h
  have hreach := hinv.2.1 r sr hr
  refine ⟨?_, fun hst ht => ?_⟩
  · simp only [sstep] at hs
    split at hs
    · cases hs
    · split at hs
      · rename_i hg
        have hall := hg.2
        simp only [Sys.revDepsDown, List.all_eq_true, List.mem_range] at hall
        have hlt : r < S.mods.length := by
          rcases Nat.lt_or_ge r S.mods.length with h | h
          · exact h
          · simp [List.getElem?_eq_none h] at hr
        have := hall r hlt
        have hst : S.statusOf r = sr.status := by
          simp only [Sys.statusOf, List.getD_eq_getElem?_getD, hr, Option.getD_some]
        simp [hst] at this
        exact this.resolve_left (fun hn => hn hd)
      · cases hs
  · have := offline_only_after_work_returned hreach hst ht
    exact ⟨this.2.1, this.2.2.1, this.2.2.2.1, this.2.2.2.2.1⟩

/-- Shutdown waits: `stopModules` (hence `Shutdown`) returns only when every stopper it launched has reported:
    no module is between `stop()` and its report, so every module stopped in this pass is `Offline`, and (no timeout) its stop routine has returned and all its work counted at flag time has returned. -/
theorem shutdown_waits {n : Nat} {deps : List (List Nat)} {S S' : Sys}
    (h : SReach n deps S) (hm : S.mode = 1) (hs : sstep S .passEnd = some S') :
    ∀ (i : Nat) (s : St), S.mods[i]? = some s →
      (s.spc = 0 ∨ s.spc = 8) ∧
      (s.spc = 8 → s.status = statusOffline ∧
        (s.tmo = 0 → s.fnpc = 3 ∧ s.aW = 0 ∧ s.aT = 0 ∧ s.aM = 0 ∧ s.closed = 1)) := by
  intro i s hi
  have hinv := sinv_reach h
  have hreach := hinv.2.1 i s hi
  have hcnt := hinv.2.2.1 hm
  simp only [sstep] at hs
  split at hs
  · rename_i hg
    have h0 : nActive S.mods = 0 := by omega
    have ha := nActive_zero_of S.mods i s hi h0
    have hI := inv_reach hreach
    unfold StopProto.Inv at hI
    have hspc : s.spc = 0 ∨ s.spc = 8 := by
      simp only [St.active] at ha
      split at ha
      · cases ha
      · have := hI.1; omega
    refine ⟨hspc, fun h8 => ?_⟩
    have hst : s.stopped := Or.inr h8
    refine ⟨(status_tracks_stopper hreach).1 hst, fun ht => ?_⟩
    have := offline_only_after_work_returned hreach hst ht
    exact ⟨this.2.1, this.2.2.1, this.2.2.2.1, this.2.2.2.2.1, this.2.2.2.2.2⟩
  · split at hs
    · omega
    · cases hs

/-! ## non-vacuity -/

/-- one complete check by a goroutine that finds everything done -/
def chk : List Act := [.cFast true, .cLock, .cFlag true, .cCtrl true, .cW true, .cT true, .cM true]

/-- two workers, a task and a microtask running, start and stop routine present; a microtask arrives during the
    stop; everything returns; the last finisher's check completes the stop; late work after `Offline`. -/
def cleanRun : List Act :=
  [.startBegin, .ctrlSet, .fnEnter false, .inc .w, .workEnter false, .fnExit, .ctrlUnset, .cFast false, .online,
   .inc .w, .inc .t, .inc .m, .workEnter false, .gate true,
   .stopBegin, .sCtrl, .dec .w true, .cFast false, .sFlag, .gate false, .sCancel, .ctrlSet, .fnEnter true,
   .inc .m, .workEnter true, .dec .m false, .cFast true, .cLock, .cFlag true, .cCtrl false, .cUnlock,
   .dec .t true, .dec .m true, .fnExit, .ctrlUnset,
   .cFast true, .cFast true, .cFast true, .cLock, .cFlag true, .cCtrl true, .cW false, .cUnlock,
   .dec .w true] ++ chk ++ [.cCas true, .cClose, .sWake, .cUnlock, .sOffline, .sReport,
   .cLock, .cFlag true, .cCtrl true, .cW true, .cT true, .cM true, .cCas false, .cUnlock,
   .inc .w, .workEnter true, .gate false, .dec .w false] ++ chk ++ [.cCas false, .cUnlock]

def cleanEnd : St := (run init cleanRun).getD init

example : run init cleanRun = some cleanEnd ∧ (cleanEnd.spc = 7 ∨ cleanEnd.spc = 8) ∧
    cleanEnd.tmo = 0 ∧ cleanEnd.closed = 1 ∧ cleanEnd.fnpc = 3 := by decide

/-- a quiet state with pending checks exists (hypotheses of `no_lost_completion` / `prompt_completion`). -/
def quietMid : St := (run init (cleanRun.take 44)).getD init

example : run init (cleanRun.take 44) = some quietMid ∧ 5 ≤ quietMid.spc ∧ quietMid.fnpc = 3 ∧
    quietMid.aW + quietMid.bW = 0 ∧ quietMid.aT + quietMid.bT = 0 ∧ quietMid.aM + quietMid.bM = 0 ∧
    quietMid.closed = 0 ∧ 0 < mu quietMid := by decide

/-- a service worker that answers the cancellation with `ErrRestartNow` leaves its loop; running it again is not a run
    of the model; before the flag is set it may be run again. -/
example : (run init [.startBegin, .online, .inc .w, .workEnter false, .stopBegin, .sCtrl, .sFlag, .sCancel, .swReturn,
    .swExit true, .dec .w true]).isSome = true := by decide
example : (run init [.startBegin, .online, .inc .w, .workEnter false, .stopBegin, .sCtrl, .sFlag, .sCancel, .swReturn,
    .swRerun]).isSome = false := by decide
example : (run init [.startBegin, .online, .inc .w, .workEnter false, .swReturn, .swRerun, .workEnter false,
    .stopBegin, .sCtrl, .swReturn, .sFlag, .swRerun, .workEnter false, .swReturn, .swExit true]).isSome = true := by decide

/-- a timeout run is accepted by the model (the proviso is a hypothesis, not a restriction of the model). -/
example : (run init [.startBegin, .online, .inc .w, .stopBegin, .sCtrl, .sFlag, .sCancel, .ctrlUnsetNil,
    .cFast true, .cLock, .cFlag true, .cCtrl true, .cW false, .cUnlock, .sTimeout, .sOffline, .sReport]).isSome = true := by
  decide

/-- three modules, 2 depends on 1 depends on 0: a shutdown pass in dependency order is a run of the system,
    and stopping module 0 first is rejected. -/
def chain3 : List (List Nat) := [[], [0], [1]]

def upActs (i : Nat) : List SAct := [.mod i .startBegin, .mod i .online]
def downActs (i : Nat) : List SAct :=
  [.mod i .stopBegin, .mod i .sCtrl, .mod i .sFlag, .mod i .sCancel, .mod i .ctrlUnsetNil, .mod i (.cFast true),
   .mod i .cLock, .mod i (.cFlag true),
   .mod i (.cCtrl true), .mod i (.cW true), .mod i (.cT true), .mod i (.cM true), .mod i (.cCas true), .mod i .cClose,
   .mod i .cUnlock, .mod i .sWake, .mod i .sOffline, .mod i .sReport]

example : (srun (Sys.init 3 chain3)
    ([.passBegin false] ++ upActs 0 ++ upActs 1 ++ upActs 2 ++ [.passEnd, .passBegin true] ++
      downActs 2 ++ downActs 1 ++ downActs 0 ++ [.passEnd])).isSome = true := by decide

example : (srun (Sys.init 3 chain3)
    ([.passBegin false] ++ upActs 0 ++ upActs 1 ++ upActs 2 ++ [.passEnd, .passBegin true, .mod 0 .stopBegin])).isSome
      = false := by decide

example : (srun (Sys.init 3 chain3)
    ([.passBegin false] ++ upActs 0 ++ upActs 1 ++ upActs 2 ++ [.passEnd, .passBegin true] ++
      (downActs 2).take 5 ++ [.passEnd])).isSome = false := by decide

end PB.C05
