import PBProofs.Lemmas.StopProto
/-!
# C05 — Stopping a module waits for all of its managed work

Theorems about `PB.StopProto` (model of `modules/modules.go`, `worker.go`, `tasks.go`, `microtasks.go`,
`status.go`, `stop.go`): all reachable states = every dependency graph, every number and kind of running work
items, every number of finishing goroutines, every interleaving of their atomic steps with the stop sequence,
any number of start/stop cycles **and of failed start attempts (the module returns to `Offline` without having been
stopped, its work and its context live on), work started before the first start (prep phase), restarts after a stop
that timed out**. Timeouts are a nondeterministic action; the statement's proviso ("as long as each returns within
the stop timeout") is the hypothesis `tmo = 0`.

On the pinned tree the full-strength safety statement was FALSE (two straggler races across phases: a check parked
between its counter reads and the CAS across a restart; the start routine's goroutine clearing `ctrlFuncRunning`
after the stopper had set it). Both were first reproduced on the implementation by forced schedules, then repaired
by two `fix:` commits; this file proves the full-strength statement about the model of the repaired code, and keeps
the two former counterexample schedules as `example`s that the repaired protocol rejects.
-/
namespace PB.C05
open PB.StopProto PB.Gen.StopProto

/-- The model's stop sequence and check sequence are the ones written in the source (regenerated every run),
    and the status order used by `readyToStop` (`> StatusOffline`) is the source's. -/
theorem gen_matches_model :
    stopSeq = ["ctrlFuncRunning.Set", "stopFlag.Set", "cancelCtx", "startCtrlFn", "<-m.stopComplete", "<-stopFnError",
               "<-time.After(moduleStopTimeout)", "time.After(moduleStopTimeout)", "<-stopFnError",
               "status=StatusOffline", "reports<-"] ∧
    checkSeq = ["stopFlag.IsSet", "Lock", "defer", "Unlock", "stopFlag.IsSet", "ctrlFuncRunning.IsNotSet",
                "workerCnt==0", "taskCnt==0", "microTaskCnt==0", "stopCompleted.SetToIf(false,true)",
                "close(stopComplete)"] ∧
    revDepWaitCond = "revDep.Status() > StatusOffline" ∧ onlineSoonResult = "!m.stopFlag.IsSet()" ∧
    serviceWorkerLoopHead = "if m.IsStopping() { return }" ∧
    -- between two runs of its function a service worker waits only in the back-off select, which the cancellation of
    -- `m.Ctx` ends by leaving the loop (the extractor fails on any other waiting statement in the restart loop)
    backoffWait = ["<-time.After(sleepFor):", "<-m.Ctx.Done():return"] ∧
    backoffEndsOnCancel = true ∧ backoffHasTimer = true ∧
    -- `start()`: status, then cancel the current context, install a fresh one, clear the stop flag (`startOps`),
    -- all inside one locked section; its goroutine only writes the status (`online` / `startFail`); `prep()` only
    -- writes the status; nothing else in the package replaces or cancels a module context
    startSeq = ["m.Lock()", "if m.status != StatusOffline { return }", "m.status = StatusStarting",
                "if m.cancelCtx != nil { m.cancelCtx() }",
                "m.Ctx, m.cancelCtx = context.WithCancel(context.Background())", "m.stopFlag.UnSet()",
                "m.Unlock()", "go"] ∧
    startOps = [.cancelCur, .renew, .unsetFlag] ∧
    startResultSeq = ["err:status=StatusOffline", "ok:status=StatusOnline", "ok:close(m.startComplete)"] ∧
    prepSeq = ["status=StatusPreparing", "status=StatusOffline"] ∧
    ctxWriters = ["start:m.Ctx", "initNewModule:literal"] ∧ ctxCancellers = ["start", "stopAllTasks"] ∧
    statusDead < statusOffline ∧ statusPreparing < statusOffline ∧ statusOffline < statusStopping ∧
    statusStopping < statusStarting ∧ statusStarting < statusOnline := by
  decide

/-- The context is cancelled no later than the moment the stop routine is invoked: whenever the stopper starts the
    stop routine (`ctrlSet` / nil branch while `Stopping`) the context is already cancelled, the stop routine body
    observes a cancelled context, and it stays cancelled until the module is started again. -/
theorem cancel_before_stopfn {s : St} (h : Reach s) :
    (∀ s', s.status = statusStopping → step s .ctrlSet = some s' → s.ctx = 1) ∧
    (∀ s', step s .ctrlUnsetNil = some s' → s.ctx = 1) ∧
    (∀ c s', s.status = statusStopping ∨ s.stopped → step s (.fnEnter c) = some s' → c = true) ∧
    (s.stopped → s.ctx = 1) := by
  have hi := inv_reach h
  unfold StopProto.Inv at hi
  refine ⟨?_, ?_, ?_, ?_⟩
  · intro s' hst hs
    simp only [step] at hs
    (repeat' split at hs) <;> cases hs <;> grind
  · intro s' hs
    simp only [step] at hs
    (repeat' split at hs) <;> cases hs <;> grind
  · intro c s' hst hs
    simp only [step, St.stopped] at hs hst
    (repeat' split at hs) <;> cases hs <;> grind
  · intro hst; simp only [St.stopped] at hst; grind

/-- Safety, full strength: a module that its stopper reported `Offline` in a cycle whose wait did not time out has:
    stop routine returned (and its goroutine cleared the control flag), every item that was counted when the stop
    flag was set has decremented (= its function returned), completion was signalled on the channel.
    For all reachable states: any number of cycles, items, finishing goroutines, any interleaving. -/
theorem offline_only_after_work_returned {s : St} (h : Reach s) (hstop : s.stopped) (hto : s.tmo = 0) :
    s.status = statusOffline ∧ s.fnpc = 3 ∧ s.aW = 0 ∧ s.aT = 0 ∧ s.aM = 0 ∧ s.closed = 1 := by
  simp only [St.stopped] at hstop
  have h6 : 7 ≤ s.spc := by omega
  clear hstop
  have hi := inv_reach h
  unfold StopProto.Inv at hi
  have hc : s.closed = 1 := by grind (splits := 40)
  have hcomp : s.completed = 1 := by grind (splits := 40)
  and_intros <;> grind (splits := 40)

/-- `Offline` is written by the stopper only (after a start): status `Offline` with a started module means stopped. -/
theorem status_tracks_stopper {s : St} (h : Reach s) :
    (s.stopped → s.status = statusOffline) ∧
    (1 ≤ s.spc → s.spc ≤ 6 → s.status = statusStopping) ∧
    (s.status = statusStopping → 1 ≤ s.spc ∧ s.spc ≤ 6) := by
  have hi := inv_reach h
  unfold StopProto.Inv at hi
  simp only [St.stopped]
  grind

/-- former counterexample 1 (pinned tree): a finisher of cycle 1 stalls between its last read and the CAS and wins
    the CAS of cycle 2. In the repaired protocol the stalled check holds the module lock, so the first cycle's
    `Offline` write (and every later `stop()`) has to wait for it: the schedule is not a run. -/
def staleCheckerRun : List Act :=
  [.startBegin, .online, .inc .w, .stopBegin, .sCtrl, .sFlag, .sCancel, .ctrlUnsetNil, .dec .w true,
   .cFast true, .cLock, .cFlag true, .cCtrl true, .cW true, .cT true, .cM true,   -- parked before the CAS
   .cFast true]                                                                  -- the other finisher …

example : (run prepped staleCheckerRun).isSome = true := by decide
example : (run prepped (staleCheckerRun ++ [.cLock])).isSome = false := by decide     -- … cannot enter the check
example : (run prepped (staleCheckerRun ++ [.sTimeout, .sOffline])).isSome = false := by decide  -- nor can Offline be written

/-- former counterexample 2 (pinned tree): the start routine's goroutine performs its deferred `UnSet` only after
    the stopper's manual `Set`. In the repaired code the module goes `Online` only after that goroutine has cleared
    the flag and finished its check, so the schedule is not a run. -/
def lateStartUnsetRun : List Act := [.startBegin, .ctrlSet, .fnExit, .online]

example : (run prepped lateStartUnsetRun).isSome = false := by decide
example : (run prepped [.startBegin, .ctrlSet, .fnExit, .ctrlUnset, .online]).isSome = true := by decide

/-- The completion channel is closed at most once per cycle: no double-close panic, in every reachable state. -/
theorem single_close {s : St} (h : Reach s) : s.dbl = 0 ∧ s.k7 + s.closed ≤ 1 := by
  have hi := inv_reach h
  unfold StopProto.Inv at hi
  grind

/-- "quiet": stopper waiting or later, stop routine's goroutine done, all three counters zero,
    completion not yet signalled on the channel. -/
def Quiet (s : St) : Prop :=
  5 ≤ s.spc ∧ s.fnpc = 3 ∧ s.aW + s.bW = 0 ∧ s.aT + s.bT = 0 ∧ s.aM + s.bM = 0 ∧ s.closed = 0

/-- No lost completion: in a quiet state some goroutine still has a `checkIfStopComplete` step pending, and that
    step is enabled (the protocol cannot be stuck before the close; the lock is only ever held by a check that can
    move). -/
theorem no_lost_completion {s : St} (h : Reach s) (hq : Quiet s) :
    ∃ a : Act, a.isCheck = true ∧ (step s a).isSome = true := by
  have hi := inv_reach h
  unfold StopProto.Inv at hi
  unfold Quiet at hq
  by_cases hd : 0 < s.kd
  · exact ⟨.cUnlock, rfl, by simp [step, hd]⟩
  by_cases h7 : 0 < s.k7
  · exact ⟨.cClose, rfl, by simp [step, h7]; split <;> rfl⟩
  by_cases h6 : 0 < s.k6
  · have hc : s.completed = 0 := by grind
    exact ⟨.cCas true, rfl, by simp [step, h6, hc]⟩
  by_cases h5 : 0 < s.k5
  · exact ⟨.cM true, rfl, by simp [step, h5]; grind⟩
  by_cases h4 : 0 < s.k4
  · exact ⟨.cT true, rfl, by simp [step, h4]; grind⟩
  by_cases h3 : 0 < s.k3
  · exact ⟨.cW true, rfl, by simp [step, h3]; grind⟩
  by_cases h2 : 0 < s.k2
  · have hc : s.ctrl = 0 := by grind
    exact ⟨.cCtrl true, rfl, by simp [step, h2, hc]⟩
  have hf : s.flag = 1 := by grind
  by_cases h1 : 0 < s.k1
  · exact ⟨.cFlag true, rfl, by simp [step, h1, hf]⟩
  have hlk : s.lk = 0 := by grind
  by_cases hkf : 0 < s.kf
  · exact ⟨.cLock, rfl, by simp [step, hkf, hlk]⟩
  have h0 : 0 < s.k0 := by grind
  exact ⟨.cFast true, rfl, by simp [step, h0, hf]⟩

/-- A check step taken in a quiet state never gives up: afterwards the channel is closed or the state is still quiet
    (no pending check aborts on a stale or inconsistent read). -/
theorem quiet_preserved {s s' : St} {a : Act} (h : Reach s) (hq : Quiet s) (ha : a.isCheck = true)
    (hs : step s a = some s') : s'.closed = 1 ∨ Quiet s' := by
  have hi := inv_reach h
  unfold StopProto.Inv at hi
  unfold Quiet at hq ⊢
  cases a with
  | cFast o => cases o <;> simp only [step] at hs <;> (repeat' split at hs) <;> cases hs <;> (try dsimp only) <;> grind
  | cFlag o => cases o <;> simp only [step] at hs <;> (repeat' split at hs) <;> cases hs <;> (try dsimp only) <;> grind
  | cCtrl o => cases o <;> simp only [step] at hs <;> (repeat' split at hs) <;> cases hs <;> (try dsimp only) <;> grind
  | cW o => cases o <;> simp only [step] at hs <;> (repeat' split at hs) <;> cases hs <;> (try dsimp only) <;> grind
  | cT o => cases o <;> simp only [step] at hs <;> (repeat' split at hs) <;> cases hs <;> (try dsimp only) <;> grind
  | cM o => cases o <;> simp only [step] at hs <;> (repeat' split at hs) <;> cases hs <;> (try dsimp only) <;> grind
  | cCas o => cases o <;> simp only [step] at hs <;> (repeat' split at hs) <;> cases hs <;> (try dsimp only) <;> grind
  | cClose => simp only [step] at hs; (repeat' split at hs) <;> cases hs <;> (try dsimp only) <;> grind
  | cLock => simp only [step] at hs; (repeat' split at hs) <;> cases hs <;> (try dsimp only) <;> grind
  | cUnlock => simp only [step] at hs; (repeat' split at hs) <;> cases hs <;> (try dsimp only) <;> grind
  | _ => simp [Act.isCheck] at ha

/-- Promptness: from a quiet state, every sequence of check steps (the finishing goroutines running, no new work,
    no timeout) has length at most `mu s` (10 per pending check), and ends with the channel closed or in a quiet state
    where a further check step is enabled. Hence completion is signalled after finitely many steps of the finishing
    goroutines themselves — nobody waits for the stop timeout. -/
theorem prompt_completion {s : St} (h : Reach s) (hq : Quiet s) :
    ∀ (as : List Act) (s' : St), (∀ a ∈ as, a.isCheck = true) → run s as = some s' →
      as.length + mu s' ≤ mu s ∧
      (s'.closed = 1 ∨ (Quiet s' ∧ ∃ a : Act, a.isCheck = true ∧ (step s' a).isSome = true)) := by
  intro as
  induction as generalizing s with
  | nil =>
    intro s' _ hr
    simp [run] at hr; subst hr
    exact ⟨by simp, Or.inr ⟨hq, no_lost_completion h hq⟩⟩
  | cons a as ih =>
    intro s' hall hr
    simp only [run] at hr
    split at hr
    · rename_i s1 h1
      have ha := hall a (by simp)
      have hmu := mu_decreases ha h1
      have hr1 := Reach.step h h1
      rcases quiet_preserved h hq ha h1 with hc | hq1
      · -- closed: it stays closed under check steps (closed only reset by stopBegin)
        have : ∀ (bs : List Act) (t t' : St), t.closed = 1 → (∀ b ∈ bs, b.isCheck = true) → run t bs = some t' →
            t'.closed = 1 ∧ bs.length + mu t' ≤ mu t := by
          intro bs
          induction bs with
          | nil => intro t t' hc _ hr; simp [run] at hr; subst hr; exact ⟨hc, by simp⟩
          | cons b bs ihb =>
            intro t t' hc hb hr
            simp only [run] at hr
            split at hr
            · rename_i t1 ht1
              have hb1 := hb b (by simp)
              have hm := mu_decreases hb1 ht1
              have hc1 : t1.closed = 1 := by
                cases b with
                | cFlag o => cases o <;> simp only [step] at ht1 <;> (repeat' split at ht1) <;> cases ht1 <;> exact hc
                | cCtrl o => cases o <;> simp only [step] at ht1 <;> (repeat' split at ht1) <;> cases ht1 <;> exact hc
                | cW o => cases o <;> simp only [step] at ht1 <;> (repeat' split at ht1) <;> cases ht1 <;> exact hc
                | cT o => cases o <;> simp only [step] at ht1 <;> (repeat' split at ht1) <;> cases ht1 <;> exact hc
                | cM o => cases o <;> simp only [step] at ht1 <;> (repeat' split at ht1) <;> cases ht1 <;> exact hc
                | cCas o => cases o <;> simp only [step] at ht1 <;> (repeat' split at ht1) <;> cases ht1 <;> exact hc
                | cFast o => cases o <;> simp only [step] at ht1 <;> (repeat' split at ht1) <;> cases ht1 <;> exact hc
                | cLock => simp only [step] at ht1; (repeat' split at ht1) <;> cases ht1 <;> exact hc
                | cUnlock => simp only [step] at ht1; (repeat' split at ht1) <;> cases ht1 <;> exact hc
                | cClose => simp only [step] at ht1; (repeat' split at ht1) <;> cases ht1 <;> first | exact hc | rfl
                | _ => simp [Act.isCheck] at hb1
              have := ihb t1 t' hc1 (fun b hb' => hb b (by simp [hb'])) hr
              exact ⟨this.1, by simp; omega⟩
            · cases hr
        have := this as s1 s' hc (fun b hb => hall b (by simp [hb])) hr
        exact ⟨by simp; omega, Or.inl this.1⟩
      · have := ih hr1 hq1 s' (fun b hb => hall b (by simp [hb])) hr
        exact ⟨by simp; omega, this.2⟩
    · cases hr

/-- … and once the channel is closed the waiting stopper's wake-up is enabled (no timeout needed). -/
theorem closed_wakes_stopper {s : St} (hc : s.closed = 1) (hw : s.spc = 5) : (step s .sWake).isSome = true := by
  simp [step, hc, hw]

/-- A worker / microtask / hook whose function starts on a module that is past the stopper's cancel (stopping or
    stopped, no start attempt since) receives an already cancelled context — whichever of the module's contexts it is
    handed (the current one, or for a task a child of an earlier one). -/
theorem late_work_sees_cancelled_ctx {s s' : St} {g : Nat} {c : Bool} (h : Reach s) (hlate : 4 ≤ s.spc)
    (hs : step s (.workEnter g c) = some s') : c = true := by
  have hi := inv_reach h
  have ho := oldLive_reach h
  unfold StopProto.Inv at hi
  have hctx : s.ctx = 1 := by grind
  simp only [step] at hs
  split at hs
  · rename_i hg
    have : s.genCancelled g = true := by
      by_cases hgg : g = s.gen
      · simp [St.genCancelled, hgg, hctx]
      · exact genCancelled_of_oldLive_nil ho g hgg
    exact hg.2.mpr this
  · cases hs

/-- **Clause 1 for every history.** (a) At every moment every context the module ever had, except the current one,
    is cancelled: `start()` cancels the context it replaces, whether the module was stopped before or not (failed
    start, work started in the prep phase, repeated attempts). (b) When the stopper invokes the stop routine (either
    branch of `startCtrlFn`), while the stop routine runs and while the module stays stopped, the current one is
    cancelled too — so *every* context ever handed to a piece of work of the module is cancelled, and (c) a running
    work function that looks at its context (`ctxObs`) from the stopper's cancel on sees it cancelled, whatever
    generation it holds. -/
theorem every_context_cancelled_at_stopfn {s : St} (h : Reach s) :
    (∀ g, g < s.gen → s.genCancelled g = true) ∧
    (∀ s', s.status = statusStopping → step s .ctrlSet = some s' → ∀ g, g ≤ s.gen → s.genCancelled g = true) ∧
    (∀ s', step s .ctrlUnsetNil = some s' → ∀ g, g ≤ s.gen → s.genCancelled g = true) ∧
    (4 ≤ s.spc → ∀ g, g ≤ s.gen → s.genCancelled g = true) ∧
    (∀ g c s', 4 ≤ s.spc → step s (.ctxObs g c) = some s' → c = true) := by
  have hi := inv_reach h
  have ho := oldLive_reach h
  unfold StopProto.Inv at hi
  have all : s.ctx = 1 → ∀ g, g ≤ s.gen → s.genCancelled g = true := by
    intro hctx g _
    by_cases hgg : g = s.gen
    · simp [St.genCancelled, hgg, hctx]
    · exact genCancelled_of_oldLive_nil ho g hgg
  refine ⟨?_, ?_, ?_, ?_, ?_⟩
  · intro g hg; exact genCancelled_of_oldLive_nil ho g (by omega)
  · intro s' hst hs
    apply all
    simp only [step] at hs
    (repeat' split at hs) <;> cases hs <;> grind
  · intro s' hs
    apply all
    simp only [step] at hs
    (repeat' split at hs) <;> cases hs <;> grind
  · intro h4; apply all; grind
  · intro g c s' h4 hs
    simp only [step] at hs
    split at hs
    · rename_i hg
      exact hg.2.mpr (all (by grind) g hg.1)
    · cases hs

/-- `start()` — first start, restart after a stop, retry after a failed attempt alike — leaves every earlier context
    cancelled and installs a fresh live one with the next number. -/
theorem start_cancels_every_earlier_context {s s' : St} (h : Reach s) (hs : step s .startBegin = some s') :
    s'.gen = s.gen + 1 ∧ s'.genCancelled s'.gen = false ∧ s'.flag = 0 ∧
    ∀ g, g ≤ s.gen → s'.genCancelled g = true := by
  have hr := Reach.step h hs
  have ho := oldLive_reach hr
  simp only [step] at hs
  simp only [startCtx, startOps, List.foldl, applyStartOp] at hs
  split at hs
  · cases hs
    refine ⟨rfl, by simp [St.genCancelled], rfl, ?_⟩
    intro g hg
    exact genCancelled_of_oldLive_nil ho g (by dsimp only; omega)
  · cases hs

/-- What is true of a module that is not stopped: its current context is live until its stopper cancels it. In
    particular after a **failed start** (status back to `Offline`, `spc = 0`) the context handed to the work that the
    failed attempt left behind stays live — that work is told to stop only by the next `start()` (retry), and if
    there is none, by nobody: the module is `Offline`, so neither module management nor `Shutdown` stops it. -/
theorem unstopped_module_context_is_live {s : St} (h : Reach s) (hns : s.spc ≤ 3) :
    s.genCancelled s.gen = false := by
  have hi := inv_reach h
  unfold StopProto.Inv at hi
  have : s.ctx = 0 := by grind
  simp [St.genCancelled, this]

/-- … and a failed start changes nothing but the status: counters, context and flags stay as the attempt left
    them; the module can be started again at once (`startBegin` enabled when no check holds the lock). -/
theorem failed_start_leaves_work_and_context {s s' : St} (hs : step s .startFail = some s') :
    s'.status = statusOffline ∧ s'.gen = s.gen ∧ s'.ctx = s.ctx ∧ s'.flag = s.flag ∧
    s'.aW = s.aW ∧ s'.aT = s.aT ∧ s'.aM = s.aM ∧ (step s' .startBegin).isSome = true ∧
    (step s' .stopBegin).isSome = false := by
  simp only [step] at hs
  split at hs
  · rename_i hg
    cases hs
    simp [step, hg.2.1, hg.2.2.1, hg.2.2.2]
    decide
  · cases hs

/-- `OnlineSoon()` is false from the stopper's `stopFlag.Set` until the module is started again, so `NewTask`
    returns a cancelled task, `Queue/StartASAP/Schedule` and `runWithLocking` (`isActive`) do nothing,
    `TriggerEvent` does not start hooks and hooks of the stopped module are skipped. -/
theorem stopped_module_runs_no_new_task_or_event {s s' : St} {o : Bool} (h : Reach s) (hflag : 3 ≤ s.spc)
    (hs : step s (.gate o) = some s') : o = false := by
  have hi := inv_reach h
  unfold StopProto.Inv at hi
  simp only [step] at hs
  (repeat' split at hs) <;> cases hs <;> grind

/-- A service worker is not re-run on a stopping module: while the stop flag stays set (= until the module is started
    again), along every run the number of times a service worker's function is run again is bounded by the number of
    service workers that were already back at the head of their restart loop before the flag was set (`swTop0`, each at
    most once); a service worker whose function returns after the flag was set — whatever it returns, `ErrRestartNow`
    included — leaves its loop. Hence its counter decrement follows its return without another execution, and
    `prompt_completion` applies: a worker answering the cancellation with "restart me" cannot keep the stop waiting. -/
theorem stopping_service_worker_not_rerun {s : St} :
    ∀ (as : List Act) (s' : St), s.flag = 1 → (∀ a ∈ as, a ≠ Act.startBegin) → run s as = some s' →
      s'.flag = 1 ∧ (as.map Act.rerun).sum + s'.swTop0 ≤ s.swTop0 := by
  intro as
  induction as generalizing s with
  | nil => intro s' hf _ hr; simp [run] at hr; subst hr; simp [hf]
  | cons a as ih =>
    intro s' hf hall hr
    simp only [run] at hr
    split at hr
    · rename_i s1 h1
      have h := rerun_step h1 hf (hall a (by simp))
      have := ih s' h.1 (fun b hb => hall b (by simp [hb])) hr
      exact ⟨this.1, by simp; omega⟩
    · cases hr

/-- … in particular a function return while the flag is set never adds a re-runnable service worker. -/
theorem return_while_stopping_leaves_loop {s s' : St} (h : Reach s) (hstop : 3 ≤ s.spc)
    (hs : step s .swReturn = some s') : s'.swTop0 = s.swTop0 ∧ s'.swTop1 = s.swTop1 + 1 := by
  have hi := inv_reach h
  unfold StopProto.Inv at hi
  have hf : s.flag = 1 := by grind
  simp only [step, hf] at hs
  cases hs
  simp

/-- ends of a back-off wait that need no timer: the `<-m.Ctx.Done()` case of the select -/
def _root_.PB.StopProto.Act.isBackoffCancel : Act → Bool
  | .swCtxDone _ => true
  | _ => false

/-- **The stop ends a back-off wait.** A service worker that waits in the back-off between two runs of its function
    (its function has returned, it is still counted in `workerCnt`) is released by the cancellation, not by its timer:
    from the stopper's cancel on (until the module is started again) — and at any time for a waiter whose select
    holds a context that a later `start()` replaced — the `<-m.Ctx.Done()` case of every waiter is enabled; taking it
    leaves the restart loop (the counter decrement follows) without another execution and without touching the
    waiters at the loop head. For every reachable state: any number of waiters, any history of restarts. -/
theorem backoff_ends_on_cancel {s : St} (h : Reach s) (g : Nat) (hg : s.swBk.contains g = true)
    (hc : 4 ≤ s.spc ∨ g ≠ s.gen) :
    ∃ s', step s (.swCtxDone g) = some s' ∧ s'.swBk = s.swBk.erase g ∧ s'.swBk.length + 1 = s.swBk.length ∧
      s'.swTop0 = s.swTop0 ∧ s'.swTop1 = s.swTop1 ∧ s'.spc = s.spc ∧ (Act.swCtxDone g).rerun = 0 := by
  have hi := inv_reach h
  have ho := oldLive_reach h
  unfold StopProto.Inv at hi
  have hcan : s.genCancelled g = true := by
    by_cases hgg : g = s.gen
    · have hctx : s.ctx = 1 := by
        rcases hc with hc | hc
        · grind
        · exact absurd hgg hc
      simp [St.genCancelled, hgg, hctx]
    · exact genCancelled_of_oldLive_nil ho g hgg
  have hmem : g ∈ s.swBk := by simpa using hg
  have hen : backoffEndsOnCancel = true := by decide
  refine ⟨{ s with swBk := s.swBk.erase g }, ?_, rfl, ?_, rfl, rfl, rfl, rfl⟩
  · simp only [step, hen, hg, hcan, and_self, if_true]
  · simp [List.length_erase_of_mem hmem]
    have : 0 < s.swBk.length := List.length_pos_of_mem hmem
    omega

/-- … hence after the cancellation all back-off waits end within as many steps as there are waiters, none of them a
    timer step: every sequence of `Ctx.Done()` steps from a state past the stopper's cancel shortens the list of
    waiters by one per step, and ends with no waiter left or with a further such step enabled. Together with
    `prompt_completion` (the decrements and checks that follow): a service worker that is in its back-off when the
    stop begins, or enters it as its answer to the cancellation, does not keep the module `Stopping` for the length
    of the back-off. -/
theorem backoff_drains_without_timer {s : St} (h : Reach s) (hc : 4 ≤ s.spc) :
    ∀ (as : List Act) (s' : St), (∀ a ∈ as, a.isBackoffCancel = true) → run s as = some s' →
      as.length + s'.swBk.length = s.swBk.length ∧ (as.map Act.rerun).sum = 0 ∧
      (s'.swBk = [] ∨ ∃ g, s'.swBk.contains g = true ∧ (step s' (.swCtxDone g)).isSome = true) := by
  intro as
  induction as generalizing s with
  | nil =>
    intro s' _ hr
    simp [run] at hr; subst hr
    refine ⟨by simp, by simp, ?_⟩
    cases hb : s.swBk with
    | nil => exact Or.inl rfl
    | cons g gs =>
      refine Or.inr ⟨g, by simp, ?_⟩
      obtain ⟨s1, h1, _⟩ := backoff_ends_on_cancel h g (by simp [hb]) (Or.inl hc)
      simp [h1]
  | cons a as ih =>
    intro s' hall hr
    simp only [run] at hr
    split at hr
    · rename_i s1 h1
      have ha := hall a (by simp)
      cases a with
      | swCtxDone g =>
        have hg : s.swBk.contains g = true := by
          simp only [step] at h1
          split at h1
          · rename_i hgd; exact hgd.2.1
          · cases h1
        obtain ⟨s2, h2, _, hlen, _, _, hspc, _⟩ := backoff_ends_on_cancel h g hg (Or.inl hc)
        rw [h1] at h2; cases h2
        have := ih (Reach.step h h1) (by omega) s' (fun b hb => hall b (by simp [hb])) hr
        refine ⟨by simp; omega, by simp [Act.rerun, this.2.1], this.2.2⟩
      | _ => simp [Act.isBackoffCancel] at ha
    · cases hr

/-- The other way out of the back-off, the timer, leads to the head of the restart loop, where `IsStopping()` is
    read: a timer that fires while the module is stopping adds no re-runnable service worker (so
    `stopping_service_worker_not_rerun` covers the waiters too: its bound does not mention them). -/
theorem backoff_timer_while_stopping_leaves_loop {s s' : St} {g : Nat} (h : Reach s) (hstop : 3 ≤ s.spc)
    (hs : step s (.swTimer g) = some s') :
    s'.swTop0 = s.swTop0 ∧ s'.swTop1 = s.swTop1 + 1 ∧ s'.swBk = s.swBk.erase g := by
  have hi := inv_reach h
  unfold StopProto.Inv at hi
  have hf : s.flag = 1 := by grind
  simp only [step, hf] at hs
  split at hs
  · simp at hs; cases hs; simp
  · cases hs

/-- Dependencies wait: the manager begins stopping module `d` only while every module `r` that depends on `d`
    is at most `Offline`; and if such an `r` was stopped without timeout, its stop routine has
    returned and all its work counted at flag time has returned. -/
theorem dependencies_wait {n : Nat} {deps : List (List Nat)} {S S' : Sys} {d : Nat}
    (h : SReach n deps S) (hs : sstep S (.mod d .stopBegin) = some S') :
    ∀ (r : Nat) (sr : St), S.mods[r]? = some sr → d ∈ S.depsOf r →
      sr.status ≤ statusOffline ∧
      (sr.stopped → sr.tmo = 0 → sr.fnpc = 3 ∧ sr.aW = 0 ∧ sr.aT = 0 ∧ sr.aM = 0) := by
  intro r sr hr hd
  have hinv := sinv_reach h
  have hreach := hinv.2.1 r sr hr
  refine ⟨?_, fun hst ht => ?_⟩
  · simp only [sstep] at hs
    split at hs
    · cases hs
    · split at hs
      · rename_i hg
        have hall := hg.2
        simp only [Sys.revDepsDown, List.all_eq_true, List.mem_range] at hall
        have hlt : r < S.mods.length := by
          rcases Nat.lt_or_ge r S.mods.length with h | h
          · exact h
          · simp [List.getElem?_eq_none h] at hr
        have := hall r hlt
        have hst : S.statusOf r = sr.status := by
          simp only [Sys.statusOf, List.getD_eq_getElem?_getD, hr, Option.getD_some]
        simp [hst] at this
        exact this.resolve_left (fun hn => hn hd)
      · cases hs
  · have := offline_only_after_work_returned hreach hst ht
    exact ⟨this.2.1, this.2.2.1, this.2.2.2.1, this.2.2.2.2.1⟩

/-- Shutdown waits: `stopModules` (hence `Shutdown`) returns only when every stopper it launched has reported:
    no module is between `stop()` and its report, so every module stopped in this pass is `Offline`, and (no timeout) its stop routine has returned and all its work counted at flag time has returned. -/
theorem shutdown_waits {n : Nat} {deps : List (List Nat)} {S S' : Sys}
    (h : SReach n deps S) (hm : S.mode = 1) (hs : sstep S .passEnd = some S') :
    ∀ (i : Nat) (s : St), S.mods[i]? = some s →
      (s.spc = 0 ∨ s.spc = 8) ∧
      (s.spc = 8 → s.status = statusOffline ∧
        (s.tmo = 0 → s.fnpc = 3 ∧ s.aW = 0 ∧ s.aT = 0 ∧ s.aM = 0 ∧ s.closed = 1)) := by
  intro i s hi
  have hinv := sinv_reach h
  have hreach := hinv.2.1 i s hi
  have hcnt := hinv.2.2.1 hm
  simp only [sstep] at hs
  split at hs
  · rename_i hg
    have h0 : nActive S.mods = 0 := by omega
    have ha := nActive_zero_of S.mods i s hi h0
    have hI := inv_reach hreach
    unfold StopProto.Inv at hI
    have hspc : s.spc = 0 ∨ s.spc = 8 := by
      simp only [St.active] at ha
      split at ha
      · cases ha
      · have := hI.1; omega
    refine ⟨hspc, fun h8 => ?_⟩
    have hst : s.stopped := Or.inr h8
    refine ⟨(status_tracks_stopper hreach).1 hst, fun ht => ?_⟩
    have := offline_only_after_work_returned hreach hst ht
    exact ⟨this.2.1, this.2.2.1, this.2.2.2.1, this.2.2.2.2.1, this.2.2.2.2.2⟩
  · split at hs
    · omega
    · cases hs

/-! ## non-vacuity -/

/-- one complete check by a goroutine that finds everything done -/
def chk : List Act := [.cFast true, .cLock, .cFlag true, .cCtrl true, .cW true, .cT true, .cM true]

/-- two workers, a task and a microtask running, start and stop routine present; a microtask arrives during the
    stop; everything returns; the last finisher's check completes the stop; late work after `Offline`. -/
def cleanRun : List Act :=
  [.startBegin, .ctrlSet, .fnEnter false, .inc .w, .workEnter 1 false, .fnExit, .ctrlUnset, .cFast false, .online,
   .inc .w, .inc .t, .inc .m, .workEnter 1 false, .gate true,
   .stopBegin, .sCtrl, .dec .w true, .cFast false, .sFlag, .gate false, .sCancel, .ctrlSet, .fnEnter true,
   .inc .m, .workEnter 1 true, .dec .m false, .cFast true, .cLock, .cFlag true, .cCtrl false, .cUnlock,
   .dec .t true, .dec .m true, .fnExit, .ctrlUnset,
   .cFast true, .cFast true, .cFast true, .cLock, .cFlag true, .cCtrl true, .cW false, .cUnlock,
   .dec .w true] ++ chk ++ [.cCas true, .cClose, .sWake, .cUnlock, .sOffline, .sReport,
   .cLock, .cFlag true, .cCtrl true, .cW true, .cT true, .cM true, .cCas false, .cUnlock,
   .inc .w, .workEnter 1 true, .gate false, .dec .w false] ++ chk ++ [.cCas false, .cUnlock]

def cleanEnd : St := (run prepped cleanRun).getD init

example : run prepped cleanRun = some cleanEnd ∧ (cleanEnd.spc = 7 ∨ cleanEnd.spc = 8) ∧
    cleanEnd.tmo = 0 ∧ cleanEnd.closed = 1 ∧ cleanEnd.fnpc = 3 := by decide

/-- a quiet state with pending checks exists (hypotheses of `no_lost_completion` / `prompt_completion`). -/
def quietMid : St := (run prepped (cleanRun.take 44)).getD init

example : run prepped (cleanRun.take 44) = some quietMid ∧ 5 ≤ quietMid.spc ∧ quietMid.fnpc = 3 ∧
    quietMid.aW + quietMid.bW = 0 ∧ quietMid.aT + quietMid.bT = 0 ∧ quietMid.aM + quietMid.bM = 0 ∧
    quietMid.closed = 0 ∧ 0 < mu quietMid := by decide

/-- a service worker that answers the cancellation with `ErrRestartNow` leaves its loop; running it again is not a run
    of the model; before the flag is set it may be run again. -/
example : (run prepped [.startBegin, .online, .inc .w, .workEnter 1 false, .stopBegin, .sCtrl, .sFlag, .sCancel, .swReturn,
    .swExit true, .dec .w true]).isSome = true := by decide
example : (run prepped [.startBegin, .online, .inc .w, .workEnter 1 false, .stopBegin, .sCtrl, .sFlag, .sCancel, .swReturn,
    .swRerun]).isSome = false := by decide
example : (run prepped [.startBegin, .online, .inc .w, .workEnter 1 false, .swReturn, .swRerun, .workEnter 1 false,
    .stopBegin, .sCtrl, .swReturn, .sFlag, .swRerun, .workEnter 1 false, .swReturn, .swExit true]).isSome = true := by decide

/-! ### the back-off wait of a service worker -/

/-- a service worker whose function fails shortly before the stop is in its back-off when the stop begins: before the
    cancel only its timer can end the wait, after the cancel the `Ctx.Done()` case is enabled and leaves the loop -/
def backoffAtStop : List Act :=
  [.startBegin, .online, .inc .w, .workEnter 1 false, .swReturn, .swBackoff false, .stopBegin, .sCtrl, .sFlag]

example : (run prepped (backoffAtStop ++ [.swCtxDone 1])).isSome = false := by decide
example : (run prepped (backoffAtStop ++ [.sCancel, .swCtxDone 1, .dec .w true])).isSome = true := by decide
example : ((run prepped (backoffAtStop ++ [.sCancel])).getD init).swBk = [1] ∧
    ((run prepped (backoffAtStop ++ [.sCancel, .swCtxDone 1])).getD init).swBk = [] := by decide
/-- its timer firing while the module stops puts it at the loop head with `IsStopping()` true: no re-run -/
example : (run prepped (backoffAtStop ++ [.swTimer 1, .swExit true, .dec .w true])).isSome = true := by decide
example : (run prepped (backoffAtStop ++ [.swTimer 1, .swRerun])).isSome = false := by decide
/-- before the stop the timer leads to a re-run -/
example : (run prepped [.startBegin, .online, .inc .w, .workEnter 1 false, .swReturn, .swBackoff false, .swTimer 1, .swRerun,
    .workEnter 1 false]).isSome = true := by decide
/-- a service worker that answers the cancellation with a plain error (or a panic) enters the back-off with the
    context already cancelled and leaves through `Ctx.Done()` -/
example : (run prepped [.startBegin, .online, .inc .w, .workEnter 1 false, .stopBegin, .sCtrl, .sFlag, .sCancel, .swReturn,
    .swBackoff true, .swCtxDone 1, .dec .w true]).isSome = true := by decide
/-- a waiter that outlives a timed-out stop and a restart holds the replaced context 1: its wait can end at once -/
example : (run prepped [.startBegin, .online, .inc .w, .workEnter 1 false, .stopBegin, .sCtrl, .sFlag, .sCancel, .swReturn,
    .swBackoff true, .ctrlUnsetNil, .cFast true, .cLock, .cFlag true, .cCtrl true, .cW false, .cUnlock, .sTimeout, .sOffline,
    .sReport, .startBegin, .online, .swCtxDone 1, .dec .w true]).isSome = true := by decide

/-! ### other life cycles: prep work, failed starts, retries, restart after a timed-out stop -/

example : run init [.prepBegin, .prepDone] = some prepped := by decide

/-- A worker started in the prep phase (context 0), a first start that launches a worker (context 1) and fails, a
    second failing attempt, a third that succeeds; the stop. Each `start()` cancels the context it replaces: the
    prep worker sees context 0 cancelled from the first start on, the worker of the first attempt sees context 1
    live after the failure and cancelled from the retry on; at the stop routine's entry every context is cancelled. -/
def failedStartRun : List Act :=
  [.prepBegin, .ctrlSet, .fnEnter false, .inc .w, .workEnter 0 false, .fnExit, .ctrlUnset, .cFast false, .prepDone,
   .startBegin, .ctxObs 0 true, .ctrlSet, .fnEnter false, .inc .w, .workEnter 1 false, .fnExit, .ctrlUnset, .cFast false,
   .startFail, .ctxObs 1 false, .inc .m, .workEnter 1 false,
   .startBegin, .ctxObs 1 true, .ctxObs 2 false, .ctrlSet, .fnExit, .ctrlUnset, .cFast false, .startFail,
   .startBegin, .ctxObs 2 true, .ctrlSet, .fnExit, .ctrlUnset, .cFast false, .online, .inc .w, .workEnter 3 false,
   .inc .t, .workEnter 2 true,                                                  -- a task created during attempt 2
   .stopBegin, .sCtrl, .sFlag, .sCancel, .ctrlSet, .fnEnter true,
   .ctxObs 0 true, .ctxObs 1 true, .ctxObs 2 true, .ctxObs 3 true]

example : (run init failedStartRun).isSome = true := by decide
/-- … the leftovers are counted: three workers, a task and a microtask are running when the stop routine is entered -/
example : ((run init failedStartRun).getD init).aW = 3 ∧ ((run init failedStartRun).getD init).aM = 1 ∧
    ((run init failedStartRun).getD init).aT = 1 ∧ ((run init failedStartRun).getD init).gen = 3 := by decide
/-- observing context 1 live after the retry, or any context live in the stop routine, is not a run of the model -/
example : (run init (failedStartRun.take 24 ++ [.ctxObs 1 false])).isSome = false := by decide
example : (run init (failedStartRun ++ [.ctxObs 1 false])).isSome = false := by decide
/-- a module whose start failed is not stopped: neither `stop()` nor a cancel is enabled, its context stays live -/
example : (run init (failedStartRun.take 19 ++ [.stopBegin])).isSome = false := by decide
example : (run init (failedStartRun.take 19 ++ [.sCancel])).isSome = false := by decide
example : (run init (failedStartRun.take 19 ++ [.ctxObs 1 false, .workEnter 1 false])).isSome = true := by decide

/-- Sensitivity to the shape of `start()`: with the cancel dropped, or performed after the renewal (on the NEW
    context), the context of a failed attempt is replaced while live — it can never be cancelled afterwards —
    respectively the fresh context is born cancelled. The model's `startOps` is the source's order (pinned in
    `gen_matches_model`). -/
def afterFailedStart : St := (run init (failedStartRun.take 19)).getD init

example : afterFailedStart.status = statusOffline ∧ afterFailedStart.ctx = 0 ∧ afterFailedStart.gen = 1 := by decide
example : (startCtx startOps afterFailedStart).oldLive = [] ∧ (startCtx startOps afterFailedStart).ctx = 0 := by decide
example : (startCtx [.renew, .unsetFlag] afterFailedStart).oldLive = [1] := by decide
example : (startCtx [.renew, .cancelCur, .unsetFlag] afterFailedStart).oldLive = [1] ∧
    (startCtx [.renew, .cancelCur, .unsetFlag] afterFailedStart).ctx = 1 := by decide

/-- restart after a stop that timed out: the worker of the first cycle is still running (context 1, cancelled) when
    the module is started again and stopped a second time. -/
example : (run prepped [.startBegin, .online, .inc .w, .workEnter 1 false, .stopBegin, .sCtrl, .sFlag, .sCancel,
    .ctrlUnsetNil, .cFast true, .cLock, .cFlag true, .cCtrl true, .cW false, .cUnlock, .sTimeout, .sOffline, .sReport,
    .startBegin, .online, .ctxObs 1 true, .inc .w, .workEnter 2 false, .stopBegin, .sCtrl, .sFlag, .sCancel,
    .ctxObs 1 true, .ctxObs 2 true]).isSome = true := by decide

/-- a timeout run is accepted by the model (the proviso is a hypothesis, not a restriction of the model). -/
example : (run prepped [.startBegin, .online, .inc .w, .stopBegin, .sCtrl, .sFlag, .sCancel, .ctrlUnsetNil,
    .cFast true, .cLock, .cFlag true, .cCtrl true, .cW false, .cUnlock, .sTimeout, .sOffline, .sReport]).isSome = true := by
  decide

/-- three modules, 2 depends on 1 depends on 0: a shutdown pass in dependency order is a run of the system,
    and stopping module 0 first is rejected. -/
def chain3 : List (List Nat) := [[], [0], [1]]

def upActs (i : Nat) : List SAct := [.mod i .prepBegin, .mod i .prepDone, .mod i .startBegin, .mod i .online]
def downActs (i : Nat) : List SAct :=
  [.mod i .stopBegin, .mod i .sCtrl, .mod i .sFlag, .mod i .sCancel, .mod i .ctrlUnsetNil, .mod i (.cFast true),
   .mod i .cLock, .mod i (.cFlag true),
   .mod i (.cCtrl true), .mod i (.cW true), .mod i (.cT true), .mod i (.cM true), .mod i (.cCas true), .mod i .cClose,
   .mod i .cUnlock, .mod i .sWake, .mod i .sOffline, .mod i .sReport]

example : (srun (Sys.init 3 chain3)
    ([.passBegin false] ++ upActs 0 ++ upActs 1 ++ upActs 2 ++ [.passEnd, .passBegin true] ++
      downActs 2 ++ downActs 1 ++ downActs 0 ++ [.passEnd])).isSome = true := by decide

example : (srun (Sys.init 3 chain3)
    ([.passBegin false] ++ upActs 0 ++ upActs 1 ++ upActs 2 ++ [.passEnd, .passBegin true, .mod 0 .stopBegin])).isSome
      = false := by decide

example : (srun (Sys.init 3 chain3)
    ([.passBegin false] ++ upActs 0 ++ upActs 1 ++ upActs 2 ++ [.passEnd, .passBegin true] ++
      (downActs 2).take 5 ++ [.passEnd])).isSome = false := by decide

end PB.C05
