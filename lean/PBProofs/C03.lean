import PB.Model.Db
import PB.Spec.KVStore
import PB.Spec.PermissionLattice
import PB.Gen.DbPerm
import PBProofs.Lemmas.Db
import PBProofs.Lemmas.DbSim
import PBProofs.Lemmas.DbPerm
import PB.Model.DbInj
import PBProofs.Lemmas.DbInj
import PB.Model.Iter
import PBProofs.Lemmas.IterHandOver
import PB.Gen.DbIter
import PB.Gen.DbReg
import PBProofs.Lemmas.IterRegQuery
/-
C03 — Secret and crown-jewel records never cross a non-privileged database interface.
Property theorems only (helper lemmas live in PBProofs/Lemmas/DbPerm.lean).
-/
namespace PB.C03
open PB.Db PB.KV PB.Perm

/-! ### The permission check is the lattice; the source's decision table and the API's privileges -/

theorem permitted_iff_lattice (m : Meta) (loc int : Bool) :
    m.permitted loc int = true ↔ Perm.permitted loc int m := by
  unfold Meta.permitted Perm.permitted
  cases loc <;> cases int <;> cases m.crown <;> cases m.secret <;> simp

/-- The switch of `Meta.CheckPermission` as it stands in the source (regenerated on every run) is the model's. -/
theorem source_checkPermission_is_model (m : Meta) (loc int : Bool) :
    PB.Gen.DbPerm.checkPermission m.crown m.secret loc int = m.permitted loc int := by
  unfold PB.Gen.DbPerm.checkPermission Meta.permitted
  cases loc <;> cases int <;> cases m.crown <;> cases m.secret <;> rfl

theorem source_hasAllPermissions_is_model (o : Opts) :
    PB.Gen.DbPerm.hasAllPermissions o.loc o.int = o.all := by
  unfold PB.Gen.DbPerm.hasAllPermissions Opts.all; rfl

/-- Every interface the database API opens (`NewInterface(nil)`) is neither local nor internal. -/
theorem api_is_unprivileged : ∀ p ∈ PB.Gen.DbPerm.apiInterfaces, p = (false, false) := by decide

/-- Every function of package api that constructs a `DatabaseAPI` (regenerated list over all files of the package; the
    extractor refuses a constructor the harness has no driver for) gives it an interface that is neither local nor
    internal — the in-process constructor and the websocket endpoint alike. -/
theorem api_constructors_unprivileged : ∀ c ∈ PB.Gen.DbPerm.apiConstructors, c.2 = (false, false) := by decide

/-- The privileges an interface acts with are the ones its creator put into the options, for every cache setting: no
    function of package database (regenerated list over all non-test files) writes `Local` / `Internal` of an `Options`
    value, replaces the options of an `Interface`, or builds options of its own — `NewInterface` in particular raises
    neither flag, whatever `CacheSize` / `DelayCachedWrites` say. The model's `Opts` (which every theorem below
    quantifies over, `cache := .delay` included) are therefore the options handed to `NewInterface`. -/
theorem source_interface_keeps_requested_privileges : PB.Gen.DbPerm.optionPrivilegeWrites = [] := by decide

/-- A delayed write cache on an interface that is not both local and internal (nothing in `NewInterface` forbids the
    combination): `FlushCache` goes through `PutMany`, which refuses it — the storage, the read cache and the
    subscribers' feed are what they were, whatever waits in the write set. -/
theorem flush_without_all_permissions_stores_nothing (cfg : Cfg) (o : Opts) (st : ISt) (now : Int)
    (ha : o.all = false) :
    (ifFlush cfg o st now).1.store = st.store ∧ (ifFlush cfg o st now).1.cache = st.cache ∧
    (ifFlush cfg o st now).1.notes = st.notes := by
  unfold ifFlush; split <;> simp [ha]

example : (ifFlush {} { loc := true, int := false, cache := .delay }
    { wcache := [{ key := "k" }] } 100).1.store = [] := by decide

/-- More privileges never see less. -/
theorem permitted_monotone (m : Meta) (l i l' i' : Bool) (hl : l = true → l' = true) (hi : i = true → i' = true)
    (h : m.permitted l i = true) : m.permitted l' i' = true := by
  rcases m with ⟨_, _, _, _, s, c⟩
  cases l <;> cases i <;> cases l' <;> cases i' <;> cases s <;> cases c <;> simp_all [Meta.permitted]

/-! ### Nothing that is not permitted is returned, listed or pushed -/

/-- Whatever the state of storage, cache and write set: every record in the result of any interface operation is
    permitted for the interface's privileges. -/
theorem outputs_permitted (cfg : Cfg) (o : Opts) (st : ISt) (op : Op) (now : Int) :
    ∀ r ∈ outRecs (Db.step cfg o st op now).2, r.md.permitted o.loc o.int = true := by
  intro r hr
  cases op with
  | get k =>
    simp only [Db.step] at hr; unfold ifGet at hr
    cases hg : getRecord cfg o st k now with
    | mk res st1 =>
      rw [hg] at hr
      cases res with
      | error e => simp [outRecs] at hr
      | ok x =>
        simp [outRecs] at hr; subst hr
        exact getRecord_permitted cfg o st k now _ (by rw [hg])
  | query q =>
    simp only [Db.step] at hr; unfold ifQuery at hr
    split at hr
    · simp [outRecs] at hr
    · simp only [outRecs, storeQuery, List.mem_filter] at hr
      have := hr.2; unfold Query.selects at this; simp at this; exact this.1.2
  | exists_ k => simp only [Db.step, ifExists_noRecs] at hr; cases hr
  | put x => simp only [Db.step, ifPut_noRecs] at hr; cases hr
  | putNew x => simp only [Db.step, ifPut_noRecs] at hr; cases hr
  | delete k => simp only [Db.step, ifModify_noRecs] at hr; cases hr
  | setAbs k t => simp only [Db.step, ifModify_noRecs] at hr; cases hr
  | setRel k d => simp only [Db.step, ifModify_noRecs] at hr; cases hr
  | mkSecret k => simp only [Db.step, ifModify_noRecs] at hr; cases hr
  | mkCrown k => simp only [Db.step, ifModify_noRecs] at hr; cases hr
  | insert k a p => simp only [Db.step, ifInsert_noRecs] at hr; cases hr
  | putMany rs => simp only [Db.step, ifPutMany_noRecs] at hr; cases hr
  | purge q => simp only [Db.step, ifPurge_noRecs] at hr; cases hr
  | maintain t sk => simp [Db.step, outRecs] at hr
  | flush => simp only [Db.step, ifFlush_noRecs] at hr; cases hr
  | clear => simp [Db.step, ifClear, outRecs] at hr
  | evict k => simp [Db.step, outRecs] at hr

/-- A subscription feed only ever receives records permitted for the subscriber's privileges. -/
theorem feed_permitted (subs : List Sub) (notes : List Rec)
    (h : ∀ s ∈ subs, ∀ r ∈ s.feed, r.md.permitted s.loc s.int = true) :
    ∀ s ∈ deliver subs notes, ∀ r ∈ s.feed, r.md.permitted s.loc s.int = true := by
  unfold deliver
  induction notes generalizing subs with
  | nil => exact h
  | cons x rest ih =>
    simp only [List.foldl_cons]
    apply ih
    intro s hs r hr
    simp only [List.mem_map] at hs
    obtain ⟨s0, hs0, rfl⟩ := hs
    unfold Sub.notify at hr ⊢
    split at hr
    · rename_i hc
      simp only [List.mem_append, List.mem_singleton] at hr
      rcases hr with hr | hr
      · simp only [hc, if_true]; exact h s0 hs0 r hr
      · subst hr; simp only [hc, if_true]; simp at hc; exact hc.1
    · rename_i hc; simp only [hc]; exact h s0 hs0 r hr

/-- Queries on an injected runtime database filter by the caller's privileges. -/
theorem registry_query_permitted (provided : List Rec) (q : Query) (loc int : Bool) (now : Int) :
    ∀ r ∈ registryQuery provided q loc int now, r.md.permitted loc int = true ∧ r.md.valid now = true := by
  intro r hr
  unfold registryQuery at hr
  simp only [List.mem_filter] at hr
  have := hr.2; simp at this; exact ⟨this.1.2, this.1.1.2⟩

/-- Batch writes need all permissions. -/
theorem putMany_requires_all (cfg : Cfg) (o : Opts) (st : ISt) (rs : List Rec) (now : Int) (h : o.all = false) :
    ifPutMany cfg o st rs now = (st, .err .denied) := by
  unfold ifPutMany; simp [h]

/-! ### No write-through -/

/-- Reference level: whatever a non-privileged interface calls, a visible record it may not see stays exactly as it
    is — put, put-new, delete, expiry and flag changes, attribute insert, batch write, purge. -/
theorem reference_no_write_through (cfg : Cfg) (o : Opts) (m : Store) (hn : m.NodupKeys) (now : Int)
    (k : String) (r : Rec) (hv : vis now (m.get k) = some r) (hp : r.md.permitted o.loc o.int = false) (op : Op) :
    (KV.step cfg o m op now).1.get k = m.get k := by
  have hall := not_permitted_not_all o r hp
  have hget : KV.get o m k now = .error .denied := by
    unfold KV.get; rw [hv]; simp [hasAccess_eq_permitted, hp]
  have hmod : ∀ k' f, (KV.modify cfg.backend o m k' now f).1.get k = m.get k := by
    intro k' f
    unfold KV.modify
    by_cases hk : k' = k
    · subst hk; rw [hget]
    · cases hg : KV.get o m k' now with
      | error e => rfl
      | ok r0 =>
        simp only
        apply kvstore_get_ne
        simp only; rw [kvget_key hg]; exact fun e => hk e.symm
  have hput : ∀ x isNew, (KV.put cfg.backend o m x now isNew).1.get k = m.get k := by
    intro x isNew
    by_cases hk : x.key = k
    · subst hk; rw [kvput_blocked cfg.backend o m x now isNew r hv hp]
    · rcases kvput_cases cfg.backend o m x now isNew with h | h <;> rw [h]
      apply kvstore_get_ne; simp only; exact fun e => hk e.symm
  cases op with
  | get k' => rfl
  | exists_ k' => rfl
  | put x => exact hput x false
  | putNew x => exact hput x true
  | delete k' => exact hmod k' _
  | setAbs k' t => exact hmod k' _
  | setRel k' d => exact hmod k' _
  | mkSecret k' => exact hmod k' _
  | mkCrown k' => exact hmod k' _
  | insert k' a p =>
    simp only [KV.step, KV.insert]
    by_cases hk : k' = k
    · subst hk; rw [hget]
    · cases hg : KV.get o m k' now with
      | error e => rfl
      | ok r0 =>
        simp only
        split
        · rfl
        · apply kvstore_get_ne
          simp only; rw [kvget_key hg]; exact fun e => hk e.symm
  | putMany rs => simp only [KV.step]; simp [hall]
  | query q => simp only [KV.step]; split <;> rfl
  | purge q =>
    simp only [KV.step]
    split
    · rfl
    · split
      · rfl
      · simp only
        rw [Store.get_filter hn, (vis_some hv).1]
        have : q.purges o.loc o.int now r = false := by unfold Query.purges; simp [hp]
        simp [this]
  | maintain t sk => rfl
  | flush => rfl
  | clear => rfl
  | evict k' => rfl

/-- Interface level (through the refinement): the stored record a non-privileged interface may not see is what a
    reader finds afterwards too — for every backend, delete mode and (exclusively used) read cache. -/
theorem no_write_through (cfg : Cfg) (o : Opts) (hd : o.cache ≠ .delay) (now : Int) (hpos : 0 < now)
    (st : ISt) (m : Store) (hs : Sim cfg o now st m) (op : Op) (hsafe : cacheSafe o op)
    (k : String) (r : Rec) (hv : vis now (st.store.get k) = some r) (hp : r.md.permitted o.loc o.int = false) :
    vis now ((Db.step cfg o st op now).1.store.get k) = some r := by
  have h1 := (step_sim hs hpos hd op hsafe).1.view k
  have hv' : vis now (m.get k) = some r := by rw [← hs.view k]; exact hv
  rw [h1, reference_no_write_through cfg o m hs.ndm now k r hv' hp op]
  exact hv'

/-- Every cache setting, the delayed write cache included, and whatever waits in the write set: a single-key write
    (put, put-new, delete, both expiry setters, both flag setters, attribute insert) aimed at a key under which the
    storage holds a visible record the interface may not see — and of which the interface's cache holds no copy — is
    answered `denied` and leaves storage, cache, write set and the subscribers' feed exactly as they were. (What a
    non-privileged interface may put into its own cache and write set are records it is permitted to see:
    `outputs_permitted` is stated for any cache and write-set content.) -/
theorem hidden_record_write_refused_every_cache_mode (cfg : Cfg) (o : Opts) (st : ISt) (k : String) (r : Rec) (now : Int)
    (hc : st.cache.get k = none) (hs : st.store.get k = some r) (hv : r.md.valid now = true)
    (hp : r.md.permitted o.loc o.int = false) (op : Op)
    (hop : (∃ x, op = .put x ∧ x.key = k) ∨ (∃ x, op = .putNew x ∧ x.key = k) ∨ op = .delete k ∨ (∃ t, op = .setAbs k t) ∨
      (∃ d, op = .setRel k d) ∨ op = .mkSecret k ∨ op = .mkCrown k ∨ (∃ a p, op = .insert k a p)) :
    Db.step cfg o st op now = (st, .err .denied) := by
  have ha : o.all = false := by
    cases hl : o.loc <;> cases hi : o.int <;> simp_all [Opts.all, Meta.permitted]
  have hg : getRecord cfg o st k now = (.error .denied, st) := by
    unfold getRecord checkCache
    by_cases hn : o.cache = .none <;> simp [hn, hc, ctlGet, hs, hv, Opts.hasAccess, ha, hp]
  have hm : getMeta cfg o st k now = (.error .denied, st) := by
    unfold getMeta checkCache
    by_cases hn : o.cache = .none <;> simp [hn, hc, ctlGet, hs, hv, hp]
  rcases hop with ⟨x, rfl, rfl⟩ | ⟨x, rfl, rfl⟩ | rfl | ⟨t, rfl⟩ | ⟨d, rfl⟩ | rfl | rfl | ⟨a, p, rfl⟩
  · simp [Db.step, ifPut, ha, hm]
  · simp [Db.step, ifPut, ha, hm]
  all_goals simp [Db.step, ifModify, ifInsert, hg]

example : (Db.step {} { loc := false, int := false, cache := .delay }
    { store := [{ key := "k", md := { secret := true } }], wcache := [{ key := "j" }] } (.delete "k") 100).2 = .err .denied := by decide

/-! ### An interface can learn at most that the key exists -/

/-- Two reference stores with the same visible keys that agree on every record the interface is permitted to see
    give the same result for every operation the interface can call (query results as unordered streams):
    content, flags of the other kind and metadata of records it may not see cannot be observed — only that
    the key is taken. -/
theorem learns_at_most_existence (cfg : Cfg) (o : Opts) (now : Int) (m m' : Store) (hn : m.NodupKeys) (hn' : m'.NodupKeys)
    (h : lowEq o.loc o.int now m m') (op : Op) :
    match (KV.step cfg o m op now).2, (KV.step cfg o m' op now).2 with
    | .recs l, .recs l' => l.Perm l'
    | a, b => a = b := by
  have hg := kvget_lowEq h
  have hfilter : ∀ (p : Rec → Bool), (∀ a, p a = true → a.md.valid now = true ∧ a.md.permitted o.loc o.int = true) →
      (m.filter p).Perm (m'.filter p) := by
    intro p hpp
    apply (List.perm_ext_iff_of_nodup
      (List.Nodup.sublist List.filter_sublist (Store.nodup_list hn))
      (List.Nodup.sublist List.filter_sublist (Store.nodup_list hn'))).mpr
    intro a
    rw [mem_filter_vis hn p (fun a ha => (hpp a ha).1), mem_filter_vis hn' p (fun a ha => (hpp a ha).1)]
    have hk := h a.key
    constructor
    · rintro ⟨h1, h2⟩
      rw [h1] at hk
      cases hv' : vis now (m'.get a.key) with
      | none => rw [hv'] at hk; cases hk
      | some r' => rw [hv'] at hk; simp only at hk; have e := hk (Or.inl (hpp a h2).2); subst e; exact ⟨rfl, h2⟩
    · rintro ⟨h1, h2⟩
      rw [h1] at hk
      cases hv' : vis now (m.get a.key) with
      | none => rw [hv'] at hk; cases hk
      | some r' => rw [hv'] at hk; simp only at hk; have e := hk (Or.inr (hpp a h2).2); subst e; exact ⟨rfl, h2⟩
  have hblocked : ∀ k, KV.blocked o m k now = KV.blocked o m' k now := blocked_lowEq h
  have hmod : ∀ k f, (KV.modify cfg.backend o m k now f).2 = (KV.modify cfg.backend o m' k now f).2 := by
    intro k f; unfold KV.modify; rw [hg k]; cases KV.get o m' k now <;> rfl
  have hput : ∀ x isNew, (KV.put cfg.backend o m x now isNew).2 = (KV.put cfg.backend o m' x now isNew).2 := by
    intro x isNew; unfold KV.put; rw [hblocked x.key]; split <;> rfl
  cases op with
  | get k => simp only [KV.step]; rw [hg k]; cases KV.get o m' k now <;> simp
  | exists_ k => simp only [KV.step]; rw [hg k]; cases hh : KV.get o m' k now with
    | error e => cases e <;> simp
    | ok r => simp
  | put x => simp only [KV.step]; rw [hput x false]; cases (KV.put cfg.backend o m' x now false).2 <;> simp
  | putNew x => simp only [KV.step]; rw [hput x true]; cases (KV.put cfg.backend o m' x now true).2 <;> simp
  | delete k => simp only [KV.step]; rw [hmod k]; cases (KV.modify cfg.backend o m' k now _).2 <;> simp
  | setAbs k t => simp only [KV.step]; rw [hmod k]; cases (KV.modify cfg.backend o m' k now _).2 <;> simp
  | setRel k d => simp only [KV.step]; rw [hmod k]; cases (KV.modify cfg.backend o m' k now _).2 <;> simp
  | mkSecret k => simp only [KV.step]; rw [hmod k]; cases (KV.modify cfg.backend o m' k now _).2 <;> simp
  | mkCrown k => simp only [KV.step]; rw [hmod k]; cases (KV.modify cfg.backend o m' k now _).2 <;> simp
  | insert k a p =>
    simp only [KV.step, KV.insert]; rw [hg k]
    cases KV.get o m' k now with
    | error e => simp
    | ok r => simp only; cases setField r.form r.fields a p <;> simp
  | putMany rs =>
    simp only [KV.step]
    by_cases ha : o.all = true <;> by_cases hb : cfg.backend.hasBatch = true <;> simp [ha, hb]
  | query q =>
    simp only [KV.step]
    by_cases hc : q.check = true
    · simp only [hc, Bool.not_true, Bool.false_eq_true, if_false]
      apply hfilter
      intro a ha; unfold Query.selects at ha; simp at ha; exact ⟨ha.1.1.2, ha.1.2⟩
    · simp [hc]
  | purge q =>
    simp only [KV.step]
    by_cases hc : q.check = true
    · simp only [hc, Bool.not_true, Bool.false_eq_true, if_false]
      by_cases hpu : cfg.backend.hasPurge = true
      · simp only [hpu, Bool.not_true, Bool.false_eq_true, if_false]
        have := List.Perm.length_eq (hfilter (q.purges o.loc o.int now)
          (by intro a ha; unfold Query.purges at ha; simp at ha; exact ⟨ha.1.2, ha.1.1.2⟩))
        simp [this]
      · simp [hpu]
    · simp [hc]
  | maintain t sk => simp [KV.step]
  | flush => simp [KV.step]
  | clear => simp [KV.step]
  | evict k => simp [KV.step]

/-- Whole histories: from two stores that are indistinguishable for the interface from time `t0` on (same visible
    keys at every later time, same permitted records), every history of operations of that interface at
    non-decreasing times gives the same results on both — it learns at most that the keys exist. -/
theorem learns_at_most_existence_run (cfg : Cfg) (o : Opts) :
    ∀ (ops : List (Op × Int)) (t0 : Int) (m m' : Store), m.NodupKeys → m'.NodupKeys →
      lowEqFrom o.loc o.int t0 m m' → wellTimed t0 ops →
      sameOuts (KV.run cfg o m ops) (KV.run cfg o m' ops) := by
  intro ops
  induction ops with
  | nil => intro t0 m m' _ _ _ _; trivial
  | cons x rest ih =>
    intro t0 m m' hn hn' h ht
    obtain ⟨op, now⟩ := x
    obtain ⟨hle, _, hrest⟩ := ht
    have hout := learns_at_most_existence cfg o now m m' hn hn' (h now hle) op
    obtain ⟨h1, h2, h3⟩ := lowEq_step cfg o now t0 m m' hn hn' h hle op
    unfold KV.run
    simp only
    refine ⟨?_, ih now _ _ h2 h3 h1 hrest⟩
    unfold sameOut
    split
    · rename_i l l' e1 e2; rw [e1, e2] at hout; exact hout
    · rename_i a b hne
      split at hout
      · rename_i l l' e1 e2; exact (hne l l' e1 e2).elim
      · exact hout

/-! ### Injected runtime databases (`runtime.Registry` as storage: no MetaHandler, no Batcher, no Purger)

`PB.Db.Inj` models the path as the code has it: `Controller.GetMeta` falls back to `storage.Get` + `r.Meta()`,
`Registry.Put` hands the record to the provider's `Set`, immediate deletes run into `InjectBase.Delete`. The state
is what the provider holds plus the log of every record its `Set` received. -/

/-- Nothing that is not permitted (and valid) is returned or listed from an injected database. -/
theorem injected_outputs_permitted (o : Opts) (st : Inj.PSt) (op : Op) (now : Int) :
    ∀ r ∈ outRecs (Inj.step o st op now).2, r.md.permitted o.loc o.int = true ∧ r.md.valid now = true := by
  intro r hr
  have hget : ∀ k x, Inj.getRecord o st k now = .ok x → x.md.permitted o.loc o.int = true ∧ x.md.valid now = true := by
    intro k x h
    rw [Inj.getRecord_eq_kvget] at h
    unfold KV.get at h
    cases hv : vis now (st.prov.get k) with
    | none => rw [hv] at h; cases h
    | some y =>
      rw [hv] at h; simp only at h
      split at h
      · rename_i ha; cases h; rw [hasAccess_eq_permitted] at ha; exact ⟨ha, (vis_some hv).2⟩
      · cases h
  have hnone : ∀ (a : Out), outRecs a = [] → r ∈ outRecs a → False := by intro a h1 h2; rw [h1] at h2; cases h2
  have hput : ∀ st0 x, outRecs (Inj.ctlPut st0 x).2 = [] := by intro st0 x; rw [Inj.ctlPut_out]; split <;> rfl
  have hmod : ∀ k f, outRecs (Inj.ifModify o st k now f).2 = [] := by
    intro k f; unfold Inj.ifModify
    cases Inj.getRecord o st k now with
    | error e => rfl
    | ok x => exact hput _ _
  have hp : ∀ x isNew, outRecs (Inj.ifPut o st x now isNew).2 = [] := by
    intro x isNew; unfold Inj.ifPut
    cases Inj.putPre o st x.key now with
    | some e => rfl
    | none => exact hput _ _
  cases op with
  | get k =>
    simp only [Inj.step] at hr
    cases hg : Inj.getRecord o st k now with
    | error e => rw [hg] at hr; simp [outRecs] at hr
    | ok x => rw [hg] at hr; simp [outRecs] at hr; rw [hr]; exact hget k x hg
  | query q =>
    simp only [Inj.step] at hr
    split at hr
    · simp [outRecs] at hr
    · simp only [outRecs] at hr
      have := registry_query_permitted st.prov q o.loc o.int now r hr
      exact this
  | exists_ k =>
    exfalso; simp only [Inj.step] at hr
    cases hg : Inj.getRecord o st k now with
    | error e => rw [hg] at hr; cases e <;> simp [outRecs] at hr
    | ok x => rw [hg] at hr; simp [outRecs] at hr
  | put x => exact (hnone _ (hp x false) hr).elim
  | putNew x => exact (hnone _ (hp x true) hr).elim
  | delete k => exact (hnone _ (hmod k _) hr).elim
  | setAbs k t => exact (hnone _ (hmod k _) hr).elim
  | setRel k d => exact (hnone _ (hmod k _) hr).elim
  | mkSecret k => exact (hnone _ (hmod k _) hr).elim
  | mkCrown k => exact (hnone _ (hmod k _) hr).elim
  | insert k a p =>
    exfalso; simp only [Inj.step] at hr; unfold Inj.ifInsert at hr
    cases hg : Inj.getRecord o st k now with
    | error e => rw [hg] at hr; simp [outRecs] at hr
    | ok x =>
      rw [hg] at hr; simp only at hr
      cases hs : setField x.form x.fields a p with
      | none => rw [hs] at hr; simp [outRecs] at hr
      | some fs => rw [hs] at hr; simp only at hr; exact hnone _ (hput _ _) hr
  | putMany rs => exfalso; simp only [Inj.step] at hr; split at hr <;> simp [outRecs] at hr
  | purge q => exfalso; simp only [Inj.step] at hr; split at hr <;> simp [outRecs] at hr
  | maintain t sk => simp [Inj.step, outRecs] at hr
  | flush => simp [Inj.step, outRecs] at hr
  | clear => simp [Inj.step, outRecs] at hr
  | evict k => simp [Inj.step, outRecs] at hr

/-- Every `Set` an operation makes the value provider receive is for a key that holds nothing visible or a
    record the interface may see — whatever the operation (put, put-new, delete, expiry and flag setters,
    attribute insert, batch, purge), whatever the interface's privileges: an operation appends at most one
    entry to the provider's `Set` log (and hands that record to the subscribers), and never for a hidden record. -/
theorem injected_sets_only_where_permitted (o : Opts) (st : Inj.PSt) (op : Op) (now : Int) :
    ∃ l, (Inj.step o st op now).1.sets = st.sets ++ l ∧ (Inj.step o st op now).1.notes = st.notes ++ l ∧
      ∀ x ∈ l, ∀ r, vis now (st.prov.get x.key) = some r → r.md.permitted o.loc o.int = true := by
  rcases Inj.step_effect o st op now with h | ⟨x, h, hx⟩
  · exact ⟨[], by rw [h]; simp, by rw [h]; simp, by intro x hx; cases hx⟩
  · refine ⟨[x], by rw [h], by rw [h], ?_⟩
    intro y hy; simp at hy; subst hy; exact hx

/-- No write-through on an injected database: a visible record the interface may not see stays what the provider
    holds, no `Set` for its key reaches the provider, and nothing under its key is pushed to subscribers. -/
theorem injected_no_write_through (o : Opts) (st : Inj.PSt) (op : Op) (now : Int)
    (k : String) (r : Rec) (hv : vis now (st.prov.get k) = some r) (hp : r.md.permitted o.loc o.int = false) :
    (Inj.step o st op now).1.prov.get k = st.prov.get k ∧
    ∃ l, (Inj.step o st op now).1.sets = st.sets ++ l ∧ (Inj.step o st op now).1.notes = st.notes ++ l ∧
      ∀ x ∈ l, x.key ≠ k := by
  rcases Inj.step_effect o st op now with h | ⟨x, h, hx⟩
  · exact ⟨by rw [h], [], by rw [h]; simp, by rw [h]; simp, by intro x hx; cases hx⟩
  · have hne : x.key ≠ k := by
      intro e; rw [e] at hx; have := hx r hv; rw [hp] at this; cases this
    refine ⟨by rw [h]; exact Store.get_put_ne _ _ _ (fun e => hne e.symm), [x], by rw [h], by rw [h], ?_⟩
    intro y hy; simp at hy; subst hy; exact hne

/-- An interface learns at most that the key exists, on injected databases too: over two providers whose contents
    are indistinguishable for the interface every operation gives the same result (query results as unordered
    streams) — single step … -/
theorem injected_learns_at_most_existence (o : Opts) (now : Int) (st st' : Inj.PSt)
    (hn : st.prov.NodupKeys) (hn' : st'.prov.NodupKeys) (h : lowEqFrom o.loc o.int now st.prov st'.prov) (op : Op) :
    sameOut (Inj.step o st op now).2 (Inj.step o st' op now).2 :=
  (Inj.step_lowEq o now now st st' hn hn' h (Int.le_refl _) op).1

/-- … and whole histories at non-decreasing times (writes included: the same `Set` reaches both providers). -/
theorem injected_learns_at_most_existence_run (o : Opts) :
    ∀ (ops : List (Op × Int)) (t0 : Int) (st st' : Inj.PSt), st.prov.NodupKeys → st'.prov.NodupKeys →
      lowEqFrom o.loc o.int t0 st.prov st'.prov → wellTimed t0 ops →
      sameOuts (Inj.run o st ops) (Inj.run o st' ops) := by
  intro ops
  induction ops with
  | nil => intro t0 st st' _ _ _ _; trivial
  | cons x rest ih =>
    intro t0 st st' hn hn' h ht
    obtain ⟨op, now⟩ := x
    obtain ⟨hle, _, hrest⟩ := ht
    obtain ⟨h1, h2, h3, h4⟩ := Inj.step_lowEq o now t0 st st' hn hn' h hle op
    unfold Inj.run
    exact ⟨h1, ih now _ _ h3 h4 h2 hrest⟩

/-! ### A running query against concurrent re-flagging ("listed for", every interleaving)

`PB.Iter.HandOver`: the executor visits the candidate records one by one, checks the permission within the
visit and then sends (blocking while `Next` is full); the consumer receives; a privileged interface marks
records at any time (`protect x` = the re-flag of `x` has returned). For every number of records, buffer
capacity and schedule. -/

/-- In every backend's `queryExecutor`, as the source stands (regenerated on every run), `CheckPermission` and
    `CheckValidity` gate the send within the visit of the record — the model's `check` action. -/
theorem source_handover_checks_permission :
    PB.Gen.DbIter.handOverChecks.map (·.1) = ["hashmap", "bbolt", "fstree", "badger"] ∧
    ∀ e ∈ PB.Gen.DbIter.handOverChecks, "CheckPermission" ∈ e.2 ∧ "CheckValidity" ∈ e.2 := by decide

/-- A record that is marked before its hand-over check is never handed over: it is neither received by the
    consumer, nor in the buffer, nor being sent — for all candidate lists (distinct keys), capacities, schedules. -/
theorem marked_before_check_never_handed_over (todo : List Nat) (hn : todo.Nodup) (cap : Nat)
    (sched : List Iter.HandOver.Act) (s : Iter.HandOver.St)
    (hs : Iter.HandOver.exec (Iter.HandOver.init todo cap) sched = some s) :
    ∀ x ∈ s.due, x ∉ s.recvd ∧ x ∉ s.buf ∧ s.hand ≠ some x :=
  (Iter.HandOver.inv_exec sched _ s (Iter.HandOver.inv_init todo cap hn) hs).2.2.2

/-- Once the re-flag of every record still to be visited has returned, the consumer receives at most what had
    already left the executor: at most capacity + 1 further records, whatever the schedule does afterwards. -/
theorem after_reflag_at_most_cap_plus_one (todo : List Nat) (cap : Nat) (pre post : List Iter.HandOver.Act)
    (s s' : Iter.HandOver.St)
    (h1 : Iter.HandOver.exec (Iter.HandOver.init todo cap) pre = some s)
    (hc : ∀ x ∈ s.todo, x ∈ s.prot)
    (h2 : Iter.HandOver.exec s post = some s') :
    s'.recvd.length ≤ s.recvd.length + cap + 1 := by
  have hb : s.buf.length ≤ s.cap :=
    Iter.HandOver.buf_le_cap_exec pre _ s (by simp [Iter.HandOver.init]) h1
  have hcap : s.cap = cap := by
    have : ∀ (l : List Iter.HandOver.Act) (a b : Iter.HandOver.St), Iter.HandOver.exec a l = some b → b.cap = a.cap := by
      intro l
      induction l with
      | nil => intro a b h; simp [Iter.HandOver.exec] at h; rw [h]
      | cons x rest ih =>
        intro a b h
        simp only [Iter.HandOver.exec] at h
        split at h
        · rename_i a1 ha
          have := ih a1 b h
          rw [this]
          cases x <;> simp only [Iter.HandOver.step] at ha <;> (repeat' split at ha) <;> cases ha <;> rfl
        · cases h
    simpa [Iter.HandOver.init] using this pre _ s h1
  have hf := Iter.HandOver.closed_exec post s s' hc hb h2
  unfold Iter.HandOver.inFlight at hf
  have : (if s.hand.isSome = true then 1 else 0) ≤ 1 := by split <;> omega
  omega

/-- Deciding the permission when the candidates are collected, and not again at the visit, is not enough: a
    record marked after the snapshot and before its visit reaches the consumer. -/
theorem snapshot_time_check_hands_over_marked_record :
    ∃ sched s, Iter.HandOver.execSnapshotCheck (Iter.HandOver.init [0, 1] 1) sched = some s ∧
      0 ∈ s.due ∧ 0 ∈ s.recvd := by
  refine ⟨[.protect 0, .check, .send, .recv], _, rfl, ?_, ?_⟩ <;> decide

/-! ### A query on an injected runtime database served by several value providers at once

`Registry.Query` runs one goroutine per provider; the filter verdict of a record is written while the record is locked
and read after it was unlocked. Model `PB.Iter.RegQuery`; goroutine structure, decision variable, its conjuncts and the
scopes of the filter variables are regenerated from runtime/registry.go on every run (`PB.Gen.DbReg`). -/

/-- The source as found: one goroutine per provider; the decision reads a conjunction that contains `CheckPermission`
    (with `Query`'s own `local` / `internal`) and `CheckValidity` of the loop's record; the decision variable and every
    variable the evaluation writes are declared inside the goroutine (record loop or function literal), none in `Query`
    itself where the provider goroutines would share it. -/
theorem source_registry_query_filter_is_goroutine_local :
    PB.Gen.DbReg.goroutinePerProvider = true ∧
    "CheckPermission" ∈ PB.Gen.DbReg.decisionConjuncts ∧ "CheckValidity" ∈ PB.Gen.DbReg.decisionConjuncts ∧
    "MatchesKey" ∈ PB.Gen.DbReg.decisionConjuncts ∧ "MatchesRecord" ∈ PB.Gen.DbReg.decisionConjuncts ∧
    PB.Gen.DbReg.decisionVarScope ≤ 1 ∧
    (∀ v ∈ PB.Gen.DbReg.filterVarScopes, v.2 ≤ 1) ∧
    (PB.Gen.DbReg.decisionVar, PB.Gen.DbReg.decisionVarScope) ∈ PB.Gen.DbReg.filterVarScopes := by decide

/-- For every number of providers, every list of records per provider (each with the verdict of the filter on it) and
    every interleaving of the provider goroutines' evaluation and decision steps — with the decision variable where the
    source declares it —: every record sent into the result stream passed the filter, i.e. is permitted for the
    querying interface. -/
theorem registry_query_concurrent_permitted (providers : List (List (Nat × Bool))) (sched : List Iter.RegQuery.Act)
    (s : Iter.RegQuery.St)
    (h : Iter.RegQuery.exec (decide (PB.Gen.DbReg.decisionVarScope = 2)) (Iter.RegQuery.init providers) sched = some s) :
    ∀ x ∈ s.out, x.2 = true := by
  have hsc : decide (PB.Gen.DbReg.decisionVarScope = 2) = false := by decide
  rw [hsc] at h
  exact (Iter.RegQuery.inv_exec sched _ s (Iter.RegQuery.inv_init providers) h).2

/-- With the decision variable declared in `Query` itself (shared by the provider goroutines) the statement is false:
    two providers, one with a permitted record 0, one with a protected record 1; the second goroutine evaluates its
    record (not allowed), the first evaluates its own (allowed), the second decides — and sends the protected record. -/
theorem registry_query_shared_filter_state_leaks :
    ∃ sched s, Iter.RegQuery.exec true (Iter.RegQuery.init [[(0, true)], [(1, false)]]) sched = some s ∧
      (1, false) ∈ s.out :=
  ⟨[.eval 1, .eval 0, .decide 1, .decide 0], _, rfl, by decide⟩

/-! ### Non-vacuity -/

/-- Two stores that differ in the content, expiry and crown-jewel flag of a secret record are indistinguishable
    for the API's interface (hypotheses of `learns_at_most_existence`), and distinguishable for an internal one. -/
example :
    let m : Store := [{ key := "k/secret", md := { secret := true }, fields := [("S", .prim (.str "password-1"))] },
                      { key := "k/public", fields := [("S", .prim (.str "hello"))] }]
    let m' : Store := [{ key := "k/secret", md := { secret := true, crown := true, expires := 99 }, fields := [("S", .prim (.str "password-2"))] },
                       { key := "k/public", fields := [("S", .prim (.str "hello"))] }]
    lowEq false false 10 m m' ∧ ¬ lowEq false true 10 m m' ∧ m.NodupKeys ∧ m'.NodupKeys := by
  refine ⟨?_, ?_, by simp [Store.NodupKeys], by simp [Store.NodupKeys]⟩
  · intro k
    by_cases h1 : "k/secret" = k
    · subst h1; simp [Store.get, vis, Meta.valid, Meta.permitted]
    · by_cases h2 : "k/public" = k
      · subst h2; simp [Store.get, vis, Meta.valid, Meta.permitted]
      · have e1 : ("k/secret" == k) = false := by simp [h1]
        have e2 : ("k/public" == k) = false := by simp [h2]
        simp [Store.get, List.find?, e1, e2, vis]
  · intro h; have := h "k/secret"; simp [Store.get, vis, Meta.valid, Meta.permitted] at this

/-- … and they stay indistinguishable at every later time (hypothesis of `learns_at_most_existence_run`) when the
    hidden records do not differ in when they disappear. -/
example :
    lowEqFrom false false 10
      [{ key := "k/secret", md := { secret := true }, fields := [("S", .prim (.str "password-1"))] },
       { key := "k/public", fields := [("S", .prim (.str "hello"))] }]
      [{ key := "k/secret", md := { secret := true, crown := true, created := 5 }, fields := [("S", .prim (.str "password-2"))] },
       { key := "k/public", fields := [("S", .prim (.str "hello"))] }] := by
  intro t _ k
  by_cases h1 : "k/secret" = k
  · subst h1; simp [Store.get, vis, Meta.valid, Meta.permitted]
  · by_cases h2 : "k/public" = k
    · subst h2; simp [Store.get, vis, Meta.valid, Meta.permitted]
    · have e1 : ("k/secret" == k) = false := by simp [h1]
      have e2 : ("k/public" == k) = false := by simp [h2]
      simp [Store.get, List.find?, e1, e2, vis]

/-- A non-privileged interface that hits a secret record through its cache is refused (hypothesis-free instance of
    `outputs_permitted` where the interesting branch is taken). -/
example :
    (Db.step {} { loc := false, int := false, cache := .read }
      { cache := [{ key := "k", md := { secret := true } }], store := [{ key := "k", md := { secret := true } }] }
      (.get "k") 10).2 = .err .denied := by decide

/-- Injected database: an external `Put` / `PutNew` on a secret runtime record is refused and reaches no `Set`;
    the same call by an internal interface reaches the provider; a delete runs into `InjectBase.Delete`. -/
example :
    let secret : Rec := { key := "p/a", md := { secret := true }, fields := [("S", .prim (.str "s3cr3t"))] }
    let st : Inj.PSt := { prov := [secret] }
    let w : Rec := { key := "p/a", fields := [("S", .prim (.str "overwritten"))] }
    (Inj.step { loc := false, int := false } st (.put w) 10).2 = .err .denied ∧
    (Inj.step { loc := true, int := false } st (.putNew w) 10).1.sets = [] ∧
    ((Inj.step { loc := false, int := true } st (.put w) 10).1.sets.map (·.key)) = ["p/a"] ∧
    (Inj.step { loc := true, int := true } st (.delete "p/a") 10).2 = .err .notImpl := by decide

/-- hand-over: 3 records, capacity 1, the second is marked while it waits and is skipped; with the buffer size of the source -/
example : ((Iter.HandOver.exec (Iter.HandOver.init [0, 1, 2] 1) [.check, .send, .protect 1, .recv, .check, .check, .send, .recv]).map
    (fun s => (s.recvd, s.due))) = some ([2, 0], [1]) := by decide
example : PB.Gen.DbIter.nextCap > 0 := by decide

/-- A complete run of three provider goroutines (two records, one record, no record) under an adversarial schedule
    that parks every decision behind another goroutine's evaluation: exactly the permitted records arrive. -/
example : ((Iter.RegQuery.exec false (Iter.RegQuery.init [[(0, true), (1, false)], [(2, false)], []])
      [.eval 1, .eval 0, .decide 1, .decide 0, .eval 0, .decide 0]).map (·.out)) = some [(0, true)] := by decide

end PB.C03
