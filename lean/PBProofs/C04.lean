import PB.Model.Config
import PB.Model.ConfigConc
import PB.Spec.Config
import PBProofs.Lemmas.Config
import PBProofs.Lemmas.ConfigConc
/-
C04 — Config getters always return the layered, validated, current value.
Property theorems only (helper lemmas live in PBProofs/Lemmas/Config.lean and ConfigConc.lean).

Reading guide. `St` is the state of the config package, `WF st` what `Register` and every call maintain
(`wf_reachable`). `Valid o v c` is the property's own notion of a valid value (type fits, regex matches, allowed
value, validation function accepts; `c` = canonical value). `effRL st` is the effective release-level setting,
defined as what the getter itself returns for the release-level option.
-/
namespace PB.C04
open PB PB.Config

/-! ### 1. Validation accepts exactly the valid values -/

/-- `validateValue` succeeds iff the value fits the option's type, matches its regular expression, is one of its
    allowed values and passes its validation function — and then yields the canonical value. -/
theorem validate_ok_iff (o : Opt) (ho : RegOK o) (v : Val) (hv : v.WF) (c : Cache) :
    validate o v = .ok c ↔ Valid o v c :=
  validate_ok_iff_valid o ho v hv c

/-- … and it rejects with an error exactly the values that violate one of the four requirements. -/
theorem validate_error_iff (o : Opt) (ho : RegOK o) (v : Val) (hv : v.WF) :
    (∃ e, validate o v = .error e) ↔ ∀ c, ¬ Valid o v c := by
  constructor
  · rintro ⟨e, he⟩ c hc
    have := (validate_ok_iff_valid o ho v hv c).mpr hc
    rw [he] at this; cases this
  · intro h
    cases hval : validate o v with
    | error e => exact ⟨e, rfl⟩
    | ok c => exact absurd ((validate_ok_iff_valid o ho v hv c).mp hval) (h c)

/-! ### 2. Getters: layering and the release-level gate -/

/-- A getter requested for an unknown option or with the wrong type returns its fallback argument. -/
theorem getter_fallback (st : St) (k : Key) (fb : GVal)
    (h : st.find k = none ∨ ∃ o, st.find k = some o ∧ fb.ty ≠ o.ty) : Config.get st k fb = fb := by
  unfold Config.get getCache
  rcases h with h | ⟨o, h, hty⟩
  · simp [h]
  · simp [h, hty]

/-- In every well-formed state the value a getter returns is the user-set value if one is set and the option's
    release level is enabled by the effective release-level setting, otherwise the default-layer value if set,
    otherwise the registered default. -/
theorem getter_layering (st : St) (h : WF st) (k : Key) (fb : GVal) (o : Opt) (hf : st.find k = some o)
    (hty : fb.ty = o.ty) :
    Config.get st k fb =
      ((if o.rl ≤ effRL st then o.user else none).getD (o.dflt.getD o.fallback)).proj fb.ty := by
  rw [effRL_eq_gate st h]
  unfold Config.get getCache effective
  simp only [hf, hty, ne_eq, not_true_eq_false, if_false]
  cases hu : o.user <;> cases hd : o.dflt <;> by_cases hr : o.rl ≤ st.gate <;> simp [hr]

/-- The effective release-level setting is itself layered like every option: user layer, else default layer, else
    the registered default — and it is what the internal gate holds (so a change in either layer takes effect). -/
theorem release_level_change_either_layer (st : St) (h : WF st) :
    ∃ o, st.find rlKey = some o ∧ effRL st = levelOf (layered o).s ∧ st.gate = effRL st := by
  obtain ⟨r, hr1, hr2, hr3, hr4⟩ := h.rl
  exact ⟨r, hr1, by rw [effRL_eq_gate st h, hr4], (effRL_eq_gate st h).symm⟩

/-- The initial state is well-formed, registering options (other than the release-level key) keeps it so, and so
    does every history of set / set-default / replace / replace-default / save / load / file rewrite:
    the theorems of this file apply at any moment of any history. -/
theorem wf_reachable (persist : Bool) (regs : List Opt) (ops : List Op)
    (hregs : ∀ o ∈ regs, RegOK o ∧ o.user = none ∧ o.key ≠ rlKey) (hops : ∀ op ∈ ops, op.WF) :
    WF (run (regs.foldl register (init persist)) ops) := by
  apply wf_run ops _ _ hops
  suffices ∀ (l : List Opt) (st : St), WF st → (∀ o ∈ l, RegOK o ∧ o.user = none ∧ o.key ≠ rlKey) → WF (l.foldl register st) from
    this regs _ (wf_init persist) hregs
  intro l
  induction l with
  | nil => intro st h _; exact h
  | cons o rest ih =>
    intro st h hl
    have ho := hl o List.mem_cons_self
    exact ih _ (wf_register st h o ho.1 ho.2.1 ho.2.2) (fun p hp => hl p (List.mem_cons_of_mem _ hp))

/-- What `Register` builds satisfies the registration hypotheses of `wf_reachable`. -/
theorem register_builds_regular_option {key : Key} {ty : OptType} {rl rxi : Nat} {pvs : Option (List PV)}
    {vf mg : Nat} {dv : Val} {o : Opt} (h : mkOpt key ty rl rxi pvs vf mg dv = .ok o) :
    RegOK o ∧ o.user = none ∧ o.key = key :=
  mkOpt_props h

/-- The property's first sentence, at any moment: after any registration of options and any history of calls, a
    getter of the right type returns the user value if set and enabled by the effective release level, else the
    default-layer value, else the registered default. -/
theorem getter_layering_at_any_moment (persist : Bool) (regs : List Opt) (ops : List Op)
    (hregs : ∀ o ∈ regs, RegOK o ∧ o.user = none ∧ o.key ≠ rlKey) (hops : ∀ op ∈ ops, op.WF)
    (k : Key) (fb : GVal) (o : Opt)
    (hf : (run (regs.foldl register (init persist)) ops).find k = some o) (hty : fb.ty = o.ty) :
    Config.get (run (regs.foldl register (init persist)) ops) k fb =
      ((if o.rl ≤ effRL (run (regs.foldl register (init persist)) ops) then o.user else none).getD
        (o.dflt.getD o.fallback)).proj fb.ty :=
  getter_layering _ (wf_reachable persist regs ops hregs hops) k fb o hf hty

/-! ### 3. Single-option set -/

/-- `SetConfigOption` with a non-nil value either installs the canonical form of a valid value in the user layer of
    that option (all other options untouched, a new validity flag handed out), or rejects an invalid value with an
    error and leaves the whole state unchanged. -/
theorem set_rejects_or_installs (st : St) (h : WF st) (k : Key) (v : Val) (hv : v.WF) (o : Opt)
    (hf : st.find k = some o) (hn : v ≠ .nil) :
    (∃ c, Valid o (migrate o.mg v) c ∧ (setUser st k v).2 = .ok () ∧
        (setUser st k v).1.find k = some { o with user := some c } ∧
        (∀ k', k' ≠ k → (setUser st k v).1.find k' = st.find k') ∧ (setUser st k v).1.gen = st.gen + 1) ∨
    ((∀ c, ¬ Valid o (migrate o.mg v) c) ∧ ∃ e, setUser st k v = (st, .error (.invalid e))) := by
  have hk : o.key = k := (find?_some_mem hf).2
  unfold setUser
  rcases writeUser_cases st h k v hv with ⟨hnone, _⟩ | ⟨_, _, hnil, _⟩ | ⟨o', c, hf', _, hval, e⟩ | ⟨o', e', hf', _, hinv, e⟩
  · rw [hf] at hnone; cases hnone
  · exact absurd hnil hn
  · have : o' = o := by rw [hf] at hf'; exact (Option.some.inj hf').symm
    subst this
    left
    refine ⟨c, hval, ?_⟩
    rw [e]
    refine ⟨rfl, ?_, ?_, ?_⟩
    · simp only []
      rw [save_find, signal_find, ← hk]
      exact putOpt_find_same st o' _ (by rw [show ({ o' with user := some c } : Opt).key = k from hk]; exact hf)
    · intro k' hk'
      simp only []
      rw [save_find, signal_find]
      exact putOpt_find_other st _ k' (by rw [show ({ o' with user := some c } : Opt).key = k from hk]; exact hk')
    · simp only []
      rw [save_gen]; simp [signal, (putOpt_misc _ _).1]
  · have : o' = o := by rw [hf] at hf'; exact (Option.some.inj hf').symm
    subst this
    right
    exact ⟨hinv, e', by rw [e]⟩

/-- The default-layer counterpart (`SetDefaultConfigOption`). -/
theorem setDefault_rejects_or_installs (st : St) (h : WF st) (k : Key) (v : Val) (hv : v.WF) (o : Opt)
    (hf : st.find k = some o) (hn : v ≠ .nil) :
    (∃ c, Valid o (migrate o.mg v) c ∧ (setDflt st k v).2 = .ok () ∧
        (setDflt st k v).1.find k = some { o with dflt := some c } ∧
        (∀ k', k' ≠ k → (setDflt st k v).1.find k' = st.find k') ∧ (setDflt st k v).1.gen = st.gen + 1) ∨
    ((∀ c, ¬ Valid o (migrate o.mg v) c) ∧ ∃ e, setDflt st k v = (st, .error (.invalid e))) := by
  have hk : o.key = k := (find?_some_mem hf).2
  unfold setDflt
  rcases writeDflt_cases st h k v hv with ⟨hnone, _⟩ | ⟨_, _, hnil, _⟩ | ⟨o', c, hf', _, hval, e⟩ | ⟨o', e', hf', _, hinv, e⟩
  · rw [hf] at hnone; cases hnone
  · exact absurd hnil hn
  · have : o' = o := by rw [hf] at hf'; exact (Option.some.inj hf').symm
    subst this
    left
    refine ⟨c, hval, ?_⟩
    rw [e]
    refine ⟨rfl, ?_, ?_, ?_⟩
    · simp only []
      rw [signal_find, ← hk]
      exact putOpt_find_same st o' _ (by rw [show ({ o' with dflt := some c } : Opt).key = k from hk]; exact hf)
    · intro k' hk'
      simp only []
      rw [signal_find]
      exact putOpt_find_other st _ k' (by rw [show ({ o' with dflt := some c } : Opt).key = k from hk]; exact hk')
    · simp [signal, (putOpt_misc _ _).1]
  · have : o' = o := by rw [hf] at hf'; exact (Option.some.inj hf').symm
    subst this
    right
    exact ⟨hinv, e', by rw [e]⟩

/-- A rejected set (either layer, any reason, including an unknown option) leaves the state unchanged: every
    getter, `UserValue`, the file and the validity flag are what they were. -/
theorem set_invalid_leaves_unchanged (st : St) (h : WF st) (k : Key) (v : Val) (hv : v.WF) :
    (∀ e, (setUser st k v).2 = .error e → (setUser st k v).1 = st) ∧
    (∀ e, (setDflt st k v).2 = .error e → (setDflt st k v).1 = st) := by
  constructor
  · intro e he
    unfold setUser at he ⊢
    rcases writeUser_cases st h k v hv with ⟨_, e1⟩ | ⟨_, _, _, e1⟩ | ⟨_, _, _, _, _, e1⟩ | ⟨_, _, _, _, _, e1⟩ <;>
      rw [e1] at he ⊢ <;> first | rfl | cases he
  · intro e he
    unfold setDflt at he ⊢
    rcases writeDflt_cases st h k v hv with ⟨_, e1⟩ | ⟨_, _, _, e1⟩ | ⟨_, _, _, _, _, e1⟩ | ⟨_, _, _, _, _, e1⟩ <;>
      rw [e1] at he ⊢ <;> first | rfl | cases he

/-- Setting nil removes the value of that layer and succeeds. -/
theorem set_nil_removes (st : St) (k : Key) (o : Opt) (hf : st.find k = some o) :
    (setUser st k .nil).2 = .ok () ∧ (setUser st k .nil).1.find k = some { o with user := none } ∧
    (setDflt st k .nil).2 = .ok () ∧ (setDflt st k .nil).1.find k = some { o with dflt := none } := by
  have hk : o.key = k := (find?_some_mem hf).2
  unfold setUser setDflt writeUser writeDflt
  simp only [hf, if_true]
  refine ⟨trivial, ?_, trivial, ?_⟩
  · rw [save_find, signal_find, ← hk]
    exact putOpt_find_same st o _ (by rw [show ({ o with user := none } : Opt).key = k from hk]; exact hf)
  · rw [signal_find, ← hk]
    exact putOpt_find_same st o _ (by rw [show ({ o with dflt := none } : Opt).key = k from hk]; exact hf)

/-- After a successful set of a valid value on an option whose release level is enabled, every getter of the
    right type returns that value (canonical form). -/
theorem set_then_get (st : St) (h : WF st) (k : Key) (v : Val) (hv : v.WF) (o : Opt) (hf : st.find k = some o)
    (hn : v ≠ .nil) (c : Cache) (hval : Valid o (migrate o.mg v) c) (fb : GVal) (hty : fb.ty = o.ty)
    (hrl : o.rl ≤ effRL (setUser st k v).1) :
    Config.get (setUser st k v).1 k fb = c.proj fb.ty := by
  have hwf := wf_setUser st h k v hv
  rcases set_rejects_or_installs st h k v hv o hf hn with ⟨c', hval', _, hfind, _, _⟩ | ⟨hinv, _⟩
  · have : c' = c := by
      have h1 := hval'.1; have h2 := hval.1; rw [h1] at h2; exact Option.some.inj h2
    subst this
    rw [getter_layering _ hwf k fb _ hfind hty]
    simp [hrl]
  · exact absurd hval (hinv c)

/-! ### 4. Whole-layer replace -/

/-- `ReplaceConfig` installs, for every registered option, exactly the validated value of its entry in the map — no
    value if there is no entry or the entry is invalid — and touches nothing but the user layer. -/
theorem replace_installs_exactly_valid (st : St) (m : List (Key × Val)) (k : Key) (o : Opt)
    (hf : st.find k = some o) :
    (replaceUser st m).1.find k =
      some { o with user := match lookup m k with | some v => (check o v).toOption | none => none } ∧
    (replaceDflt st m).1.find k =
      some { o with dflt := match lookup m k with | some v => (check o v).toOption | none => none } := by
  have hk : o.key = k := (find?_some_mem hf).2
  have hrepl : replOne m o = match lookup m k with | some v => (check o v).toOption | none => none := by
    unfold replOne; rw [hk]
    cases lookup m k with
    | none => rfl
    | some v => simp only [Except.toOption]; cases check o v <;> rfl
  constructor
  · unfold replaceUser
    simp only [signal_find, updateGate_find]
    rw [find_eq]; simp only []
    rw [find?_map_key (fun o => { o with user := replOne m o }) (fun _ => rfl) k st.opts]
    rw [find_eq] at hf; rw [hf]; simp [hrepl]
  · unfold replaceDflt
    simp only [signal_find, updateGate_find]
    rw [find_eq]; simp only []
    rw [find?_map_key (fun o => { o with dflt := replOne m o }) (fun _ => rfl) k st.opts]
    rw [find_eq] at hf; rw [hf]; simp [hrepl]

/-- … and reports exactly the invalid entries of registered options (same list for both layers). -/
theorem replace_reports_exactly_invalid (st : St) (m : List (Key × Val)) (k : Key) (e : VErr) :
    ((k, e) ∈ (replaceUser st m).2 ↔ ∃ o ∈ st.opts, o.key = k ∧ ∃ v, lookup m k = some v ∧ check o v = .error e) ∧
    ((replaceDflt st m).2 = (replaceUser st m).2) := by
  refine ⟨?_, rfl⟩
  unfold replaceUser
  simp only [List.mem_filterMap]
  constructor
  · rintro ⟨o, ho, hr⟩
    unfold replErr at hr
    cases hl : lookup m o.key with
    | none => simp [hl] at hr
    | some v =>
      simp only [hl] at hr
      cases hc : check o v with
      | ok c => simp [hc] at hr
      | error e' =>
        simp [hc] at hr
        obtain ⟨rfl, rfl⟩ := hr
        exact ⟨o, ho, rfl, v, hl, hc⟩
  · rintro ⟨o, ho, rfl, v, hl, hc⟩
    exact ⟨o, ho, by simp [replErr, hl, hc]⟩

/-! ### 5. Save and load -/

/-- For key sets in which no key is a path prefix of another, `Expand` followed by `Flatten` is the identity. -/
theorem flatten_expand_identity (m : List (Key × Val)) (h : PrefixFree (m.map (·.1))) :
    flatten (expand m) = m := by
  unfold flatten; exact expand_eq_self m h

/-- Saving the configuration and loading it again restores exactly the same user-set values (indeed every layer of
    every option and the release-level gate) and reports no validation error — provided no registered key is a path
    prefix of another registered key. -/
theorem save_load_identity_partial (st : St) (h : WF st) (hp : PrefixFree (st.opts.map (·.key)))
    (hpers : st.persist = true) (b : Bool) :
    (load (save st) b).2 = .ok [] ∧ (load (save st) b).1.opts = st.opts ∧ (load (save st) b).1.gate = st.gate := by
  rw [load_save st h hp hpers b]
  exact ⟨rfl, by simp [signal, save_opts], by simp [signal, save_gate]⟩

/-- Without that proviso the statement is false (known finding C04:save-load:key-is-path-prefix-of-another-key):
    with options `a` and `a/b` both set by the user, `a`'s value is gone after save → load. -/
theorem save_load_identity_full_REFUTED :
    ¬ ∀ st : St, WF st → st.persist = true → (load (save st) false).1.opts.map (·.user) = st.opts.map (·.user) := by
  intro hall
  let oa : Opt := { key := ["a"], ty := .str, rl := 0, user := some { s := "u" }, fallback := { s := "d" } }
  let oab : Opt := { key := ["a", "b"], ty := .str, rl := 0, user := some { s := "w" }, fallback := { s := "d" } }
  let st : St := { opts := [elOpt, rlOpt, oa, oab] }
  have hwf : WF st := by
    refine ⟨by decide, ?_, ⟨rlOpt, by decide, rfl, rfl, by decide⟩, ?_, by intro t ht; cases ht⟩
    · intro o ho
      have : o = elOpt ∨ o = rlOpt ∨ o = oa ∨ o = oab := by simpa [st] using ho
      rcases this with rfl | rfl | rfl | rfl <;> intro hp <;> first | rfl | cases hp
    · intro o ho c hc
      have : o = elOpt ∨ o = rlOpt ∨ o = oa ∨ o = oab := by simpa [st] using ho
      rcases this with rfl | rfl | rfl | rfl
      · cases hc
      · cases hc
      · have : c = { s := "u" } := by simpa [oa] using hc.symm
        subst this; decide
      · have : c = { s := "w" } := by simpa [oab] using hc.symm
        subst this; decide
  have := hall st hwf rfl
  revert this
  decide

/-! ### 6. Getter closures: always current, sequentially and under every interleaving -/

/-- Along every history, a getter closure (created at any point) returns at every call exactly what a fresh getter
    would return at that moment: the cached validity flag never hides a change. -/
theorem closure_returns_current (st : St) (h : WF st) (cl : Closure) (hc : CInv st cl) (ops : List Op)
    (hops : ∀ op ∈ ops, op.WF) :
    (cl.call (run st ops)).2 = Config.get (run st ops) cl.key cl.fb ∧ CInv (run st ops) (cl.call (run st ops)).1 := by
  suffices CInv (run st ops) cl from ⟨(call_current _ cl this).1, (call_current _ cl this).2.1⟩
  induction ops generalizing st with
  | nil => exact hc
  | cons op rest ih =>
    have hop := hops op List.mem_cons_self
    exact ih (apply st op) (wf_apply st h op hop) (cinv_apply st h op hop cl hc)
      (fun o ho => hops o (List.mem_cons_of_mem _ ho))

/-- The generation counter of the validity flags never decreases, and a getter closure created at `st` that is
    still current after `ops` holds the current value (helper shape of `closure_returns_current`). -/
theorem closure_inv_run (st : St) (h : WF st) (cl : Closure) (hc : CInv st cl) (ops : List Op)
    (hops : ∀ op ∈ ops, op.WF) : CInv (run st ops) cl ∧ WF (run st ops) := by
  induction ops generalizing st with
  | nil => exact ⟨hc, h⟩
  | cons op rest ih =>
    have hop := hops op List.mem_cons_self
    exact ih (apply st op) (wf_apply st h op hop) (cinv_apply st h op hop cl hc)
      (fun o ho => hops o (List.mem_cons_of_mem _ ho))

/-- `config.ValidityFlag` (config/validity.go). A new flag "always starts out as invalid". -/
theorem validity_flag_new_invalid (st : St) : VFlag.new.isValid st = false := by
  simp [VFlag.new, VFlag.isValid]

/-- Right after `Refresh` the flag is valid. -/
theorem validity_flag_refresh_valid (vf : VFlag) (st : St) : (vf.refresh st).isValid st = true := by
  simp [VFlag.refresh, VFlag.isValid]

/-- What a user of a `ValidityFlag` relies on: as long as the flag refreshed at `st` still reads valid — after any
    sequence of sets, layer replacements, saves and loads — every getter (any key, any fallback/type) returns
    exactly what it returned at the time of the refresh. -/
theorem validity_flag_valid_means_unchanged (st : St) (h : WF st) (vf : VFlag) (ops : List Op)
    (hops : ∀ op ∈ ops, op.WF) (hv : (vf.refresh st).isValid (run st ops) = true) (k : Key) (fb : GVal) :
    Config.get (run st ops) k fb = Config.get st k fb := by
  have hc := (closure_inv_run st h (mkClosure st k fb) (cinv_mk st k fb) ops hops).1
  have hg : st.gen = (run st ops).gen := by
    simpa [VFlag.refresh, VFlag.isValid] using hv
  have := hc.2 (by simpa [mkClosure] using hg)
  simpa [mkClosure] using this.symm

/-- Once a refreshed flag reads invalid it stays invalid, whatever happens next, until it is refreshed again
    (old global flags are never set again: the generation only grows). -/
theorem validity_flag_invalid_is_final (st : St) (h : WF st) (vf : VFlag) (ops more : List Op)
    (hops : ∀ op ∈ ops, op.WF) (hmore : ∀ op ∈ more, op.WF)
    (hv : (vf.refresh st).isValid (run st ops) = false) :
    (vf.refresh st).isValid (run (run st ops) more) = false := by
  have h1 := closure_inv_run st h (mkClosure st [] default) (cinv_mk st [] default) ops hops
  have hle1 : st.gen ≤ (run st ops).gen := by simpa [mkClosure] using h1.1.1
  have h2 := closure_inv_run (run st ops) h1.2 (mkClosure (run st ops) [] default) (cinv_mk _ [] default) more hmore
  have hle2 : (run st ops).gen ≤ (run (run st ops) more).gen := by simpa [mkClosure] using h2.1.1
  have hne : st.gen ≠ (run st ops).gen := by
    intro e; simp [VFlag.refresh, VFlag.isValid, e] at hv
  have : st.gen ≠ (run (run st ops) more).gen := by omega
  simp [VFlag.refresh, VFlag.isValid, this]

/-- A successful single-option set invalidates every flag refreshed before it. -/
theorem validity_flag_invalid_after_successful_set (st : St) (h : WF st) (vf : VFlag) (k : Key) (v : Val) (hv : v.WF)
    (hok : (setUser st k v).2 = .ok ()) : (vf.refresh st).isValid (apply st (.set k v)) = false := by
  have e := setUser_ok_gen st h k v hv hok
  simp [VFlag.refresh, VFlag.isValid, apply, e]

/-- A freshly created closure satisfies the closure invariant. -/
theorem closure_created_current (st : St) (k : Key) (fb : GVal) : CInv st (mkClosure st k fb) := cinv_mk st k fb

open PB.ConfigConc in
/-- Interleaving model, any number of setter calls and of goroutines calling one closure (plain closure with one
    owner, or `Concurrent` closure with its mutex): every completed getter call returned a version at least as new
    as the newest version whose setter had completed `signalChanges` when the call began (so in particular of
    every setter that had returned), and that version was really written. -/
theorem fresh_after_set (s : CSt) (h : Reachable s) :
    ∀ d ∈ s.g.done, d.1 ≤ d.2 ∧ d.2 ≤ s.sh.ver := by
  intro d hd
  have hi := inv_reachable s h
  exact ⟨hi.done_fresh d hd, hi.done_real d hd⟩

open PB.ConfigConc in
/-- Flags are invalidated before they are replaced: in every reachable state only the current flag can be valid. -/
theorem flags_invalidated_before_replaced (s : CSt) (h : Reachable s) :
    ∀ f, f < s.sh.cur → s.sh.valid f = false :=
  (inv_reachable s h).old_invalid

open PB.ConfigConc in
/-- A closure at rest whose cached flag is still valid holds a value at least as new as every completed set. -/
theorem valid_flag_means_fresh_value (s : CSt) (h : Reachable s) (hpc : s.g.pc = 0)
    (hv : s.sh.valid s.g.cflag = true) : s.sh.committed ≤ s.g.cval :=
  (inv_reachable s h).cached_fresh (Or.inl hpc) hv

/-! ### 7. Other observers -/

/-- Perspective getters: the validated entry of the perspective's own config, gated by the current release level;
    `none` for a wrong type or a missing / invalid entry. -/
theorem perspective_getter (st st' : St) (h : WF st) (t : List (Key × Val)) (k : Key) (ty : OptType) (o : Opt)
    (hf : st.find k = some o) :
    pGet st' (newPerspective st t).1 k ty =
      match lookup t k with
      | none => none
      | some v => match check o v with
        | .error _ => none
        | .ok c => if ty ≠ o.ty then none else if o.rl > st'.gate then none else some (c.proj ty) := by
  have hm := find?_some_mem hf
  have hk : o.key = k := hm.2
  have hfind := find?_filterMap_key (pEntry (flatten t))
    (by
      intro o' e he
      unfold pEntry at he
      cases hl : lookup (flatten t) o'.key with
      | none => simp [hl] at he
      | some v =>
        simp only [hl] at he
        cases hc : check o' v with
        | ok c => simp [hc] at he; rw [← he]
        | error _ => simp [hc] at he)
    st.opts h.nodup o hm.1
  unfold pGet pCache newPerspective
  simp only []
  rw [← hk, hfind]
  unfold pEntry
  simp only [flatten]
  cases hl : lookup t o.key with
  | none => rfl
  | some v =>
    cases hc : check o v with
    | error _ => simp [hc]
    | ok c =>
      by_cases hty : ty = o.ty
      · by_cases hrl : o.rl > st'.gate
        · simp [hc, hty, hrl]
        · have : ¬ st'.gate < o.rl := hrl
          simp [hc, hty, this]
      · simp [hc, hty]

/-- `UserValue` / `IsSetByUser` show exactly the user layer, and `GetActiveConfigValues` exactly the user values of
    the options whose release level is enabled. -/
theorem user_and_active_values (st : St) (k : Key) (o : Opt) (hf : st.find k = some o) (e : Key × GVal) :
    userValue st k = some (o.user.map (fun c => c.proj o.ty)) ∧
    (e ∈ activeValues st ↔ ∃ p ∈ st.opts, ∃ c, p.rl ≤ st.gate ∧ p.user = some c ∧ e = (p.key, c.proj p.ty)) := by
  constructor
  · simp [userValue, hf]
  · unfold activeValues
    simp only [List.mem_filterMap]
    constructor
    · rintro ⟨p, hp, he⟩
      by_cases hr : p.rl ≤ st.gate
      · cases hu : p.user with
        | none => simp [hr, hu] at he
        | some c => simp [hr, hu] at he; exact ⟨p, hp, c, hr, hu, he.symm⟩
      · simp [hr] at he
    · rintro ⟨p, hp, c, hr, hu, rfl⟩
      exact ⟨p, hp, by simp [hr, hu]⟩

/-! ### Non-vacuity -/

/-- A registered option with regex, allowed values and validation function; valid and invalid values of several
    Go / JSON kinds; a history with a release-level change in the default layer, a rejected set, save and load. -/
example :
    let o : Opt := { key := ["a"], ty := .int, rl := 1, rx := .cat 2, pvs := some [.i 2, .i 1000000], vf := 1, fallback := { i := 2 } }
    RegOK o ∧
    validate o (.flt false false 1000000 false) = .ok { i := 1000000 } ∧
    validate o (.int .u8 200) = .error .notAllowed ∧
    validate o (.int .int 3) = .error .notAllowed ∧
    validate o (.str "2") = .error .notAllowed ∧
    validate { o with pvs := none } (.flt true false 7 true) = .error .float ∧
    validate { o with pvs := none } (.int .i8 (-4)) = .error .regex ∧
    validate { o with pvs := none } (.int .i8 3) = .error .func := by
  refine ⟨by intro _; rfl, ?_, ?_, ?_, ?_, ?_, ?_, ?_⟩ <;> decide

example :
    let o : Opt := { key := ["a"], ty := .int, rl := 1, rx := .cat 2, pvs := some [.i 2, .i 1000000], vf := 1, fallback := { i := 2 } }
    let st0 := register (init true) o
    let st := run st0 [.set ["a"] (.int .int 1000000), .setd rlKey (.str "beta"), .set ["a"] (.int .u8 200), .save, .load false]
    WF st0 ∧ Config.get st0 ["a"] (.i 0) = .i 2 ∧ Config.get st ["a"] (.i 0) = .i 1000000 ∧ effRL st = 1 ∧
      Config.get (run st [.set rlKey (.str "stable")]) ["a"] (.i 0) = .i 2 ∧ Config.get st ["a"] (.s "fb") = .s "fb" ∧
      (load (save st) false).2 = .ok [] := by
  refine ⟨wf_register _ (wf_init true) _ (by intro _; rfl) rfl (by decide), ?_, ?_, ?_, ?_, ?_, ?_⟩ <;> decide

/-- `ValidityFlag` on a concrete history: new flag invalid; refreshed: valid; a rejected set (wrong type) leaves it
    valid; a successful set invalidates it for good (a later save / second set does not revive it). -/
example :
    let o : Opt := { key := ["a"], ty := .int, rl := 0, rx := .none, pvs := none, vf := 0, fallback := { i := 2 } }
    let st := register (init true) o
    let vf := VFlag.new.refresh st
    VFlag.new.isValid st = false ∧ vf.isValid st = true ∧
      vf.isValid (run st [.set ["a"] (.str "x")]) = true ∧
      vf.isValid (run st [.set ["a"] (.int .int 5)]) = false ∧
      vf.isValid (run st [.set ["a"] (.int .int 5), .save, .set ["a"] (.int .int 2)]) = false ∧
      (vf.refresh (run st [.set ["a"] (.int .int 5)])).isValid (run st [.set ["a"] (.int .int 5)]) = true := by
  refine ⟨?_, ?_, ?_, ?_, ?_, ?_⟩ <;> decide

open PB.ConfigConc in
/-- An interleaving in which a setter completes between two calls of a closure; the second call refreshes and
    returns the new version (done = [(1,1),(0,0)]), and one in which the getter fetched the flag before the
    setter's write: it returns the newer value and still refreshes next time. -/
example :
    (runActs {} [.createFlag, .createValue, .begin, .acquire 0, .checkValid, .ret, .write, .invalidate 1, .install,
        .begin, .acquire 1, .checkStale, .fetchFlag, .fetchValue, .ret]).map (fun s => s.g.done) = some [(1, 1), (0, 0)] ∧
    (runActs {} [.createFlag, .createValue, .write, .invalidate 1, .install, .begin, .acquire 1, .checkStale, .fetchFlag,
        .write, .fetchValue, .invalidate 2, .install, .ret, .begin, .acquire 2, .checkStale]).map (fun s => (s.g.done, s.g.pc)) =
      some ([(1, 2)], 2) ∧
    (runActs {} [.createFlag, .createValue, .begin, .acquire 0, .checkStale]).isNone = true := by
  refine ⟨by decide, by decide, by decide⟩

end PB.C04
